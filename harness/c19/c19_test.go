// Package c19: shed indexes behave as isolated sorted maps; batches apply only
// and entirely on commit; fields and vectors return their last written value,
// also after reopening.
package c19

import (
	"bytes"
	"encoding/binary"
	"encoding/json"
	"errors"
	"fmt"
	"os"
	"sort"
	"testing"

	"github.com/gauss-project/aurorafs/pkg/shed"
	"github.com/gauss-project/aurorafs/pkg/shed/driver"
	"pgregory.net/rapid"
	"verifharness/internal/evid"
	"verifharness/internal/keepdrv"
	"verifharness/internal/ref"
)

const id = "C19"

const (
	// Last(nil) / Last(all-0xff prefix) jumps to the last key of the whole DB.
	sigLastNil = "C19/last-empty-prefix-not-last-index"
	// Last(prefix ending in 0xff): the same-length increment (.., a+1, 0x00) sorts
	// after the shorter key (.., a+1), so Prev lands outside the prefix.
	sigLastFF = "C19/last-ff-prefix-shorter-successor-key"
	// Iterate with SkipStartFromItem and no StartFrom skips a key equal to the prefix.
	sigSkipNoStart = "C19/skip-start-without-start-item"
)

// ---- indexes ------------------------------------------------------------------------

const (
	xB1  = 0 // 1-byte key (Tag)            -> AccessTimestamp
	xU64 = 1 // 8-byte big-endian key (BinID) -> Address
	xVar = 2 // variable-length key (Address) -> StoreTimestamp + Data
	nIdx = 3
)

var idxNames = [nIdx]string{"b1", "u64", "var"}

func be8(v uint64) []byte {
	b := make([]byte, 8)
	binary.BigEndian.PutUint64(b, v)
	return b
}

var idxFuncs = [nIdx]shed.IndexFuncs{
	xB1: {
		EncodeKey:   func(f shed.Item) ([]byte, error) { return []byte{byte(f.Tag)}, nil },
		DecodeKey:   func(k []byte) (e shed.Item, err error) { e.Tag = uint32(k[0]); return e, nil },
		EncodeValue: func(f shed.Item) ([]byte, error) { return be8(uint64(f.AccessTimestamp)), nil },
		DecodeValue: func(_ shed.Item, v []byte) (e shed.Item, err error) {
			e.AccessTimestamp = int64(binary.BigEndian.Uint64(v))
			return e, nil
		},
	},
	xU64: {
		EncodeKey:   func(f shed.Item) ([]byte, error) { return be8(f.BinID), nil },
		DecodeKey:   func(k []byte) (e shed.Item, err error) { e.BinID = binary.BigEndian.Uint64(k); return e, nil },
		EncodeValue: func(f shed.Item) ([]byte, error) { return f.Address, nil },
		DecodeValue: func(_ shed.Item, v []byte) (e shed.Item, err error) { e.Address = v; return e, nil },
	},
	xVar: {
		EncodeKey: func(f shed.Item) ([]byte, error) { return f.Address, nil },
		DecodeKey: func(k []byte) (e shed.Item, err error) { e.Address = k; return e, nil },
		EncodeValue: func(f shed.Item) ([]byte, error) {
			return append(be8(uint64(f.StoreTimestamp)), f.Data...), nil
		},
		DecodeValue: func(_ shed.Item, v []byte) (e shed.Item, err error) {
			e.StoreTimestamp = int64(binary.BigEndian.Uint64(v[:8]))
			e.Data = v[8:]
			return e, nil
		},
	},
}

// V is the value part of an index entry (T unused for u64, D unused for b1).
type V struct {
	T int64  `json:"t,omitempty"`
	D []byte `json:"d,omitempty"`
}

// keyItem: the Item carrying only the key fields (what callers pass to Get/Has/Delete/StartFrom).
func keyItem(x int, key []byte) shed.Item {
	switch x {
	case xB1:
		return shed.Item{Tag: uint32(key[0])}
	case xU64:
		return shed.Item{BinID: binary.BigEndian.Uint64(key)}
	}
	return shed.Item{Address: append([]byte{}, key...)}
}

// fullItem: key and value fields (what callers pass to Put and what reads must return).
func fullItem(x int, key []byte, v V) shed.Item {
	it := keyItem(x, key)
	switch x {
	case xB1:
		it.AccessTimestamp = v.T
	case xU64:
		it.Address = append([]byte{}, v.D...)
	case xVar:
		it.StoreTimestamp = v.T
		it.Data = append([]byte{}, v.D...)
	}
	return it
}

func encV(x int, v V) []byte { b, _ := json.Marshal(normV(x, v)); return b }
func decV(b []byte) (v V)    { _ = json.Unmarshal(b, &v); return v }
func normV(x int, v V) V {
	switch x {
	case xB1:
		v.D = nil
	case xU64:
		v.T = 0
	}
	return v
}

func eqItem(a, b shed.Item) bool {
	return bytes.Equal(a.Address, b.Address) && bytes.Equal(a.Data, b.Data) && a.AccessTimestamp == b.AccessTimestamp &&
		a.StoreTimestamp == b.StoreTimestamp && a.BinID == b.BinID && a.PinCounter == b.PinCounter && a.GCounter == b.GCounter && a.Tag == b.Tag
}

func showItem(i shed.Item) string {
	return fmt.Sprintf("{Addr:%x Data:%x AT:%d ST:%d Bin:%d Tag:%d Pin:%d GC:%d}", i.Address, i.Data, i.AccessTimestamp, i.StoreTimestamp, i.BinID, i.Tag, i.PinCounter, i.GCounter)
}

// ---- case representation ----------------------------------------------------------------

type op struct {
	K     string   `json:"op"`
	X     int      `json:"x,omitempty"`     // index
	Key   []byte   `json:"key,omitempty"`   // put/del/get/has/countfrom
	Keys  [][]byte `json:"keys,omitempty"`  // hasmulti/fill
	Stale bool     `json:"stale,omitempty"` // fill: the items handed in already carry (outdated) value fields
	Val   *V       `json:"val,omitempty"`   // put
	B     bool     `json:"batch,omitempty"` // write goes through the open batch (opened on demand)
	Pfx   []byte   `json:"pfx,omitempty"`   // first/last/iter
	St    int      `json:"start,omitempty"` // iter: 0 = no StartFrom, n>0 = the (n-1 mod population)-th live key matching Pfx
	Skip  bool     `json:"skip,omitempty"`
	Rev   bool     `json:"rev,omitempty"`
	Mode  string   `json:"mode,omitempty"` // iter: full|stop|err
	At    int      `json:"at,omitempty"`
	F     int      `json:"f,omitempty"` // field number (u64 fields 0,1)
	I     uint64   `json:"i,omitempty"` // vector element
	U     uint64   `json:"u,omitempty"` // value
	S     []byte   `json:"s,omitempty"` // string field value (raw bytes)
	Perm  int      `json:"perm,omitempty"`
}

type kase struct {
	Backend string `json:"backend"` // keep (in-memory leveldb kept alive across reopen) | file (leveldb on a temp dir)
	Perm    int    `json:"perm"`    // creation order of the three indexes at first open
	Ops     []op   `json:"ops"`
}

var perms = [6][nIdx]int{{0, 1, 2}, {0, 2, 1}, {1, 0, 2}, {1, 2, 0}, {2, 0, 1}, {2, 1, 0}}

// ---- system under test + model -----------------------------------------------------------

type failure struct {
	sig string
	err error
}

func fail(sig, format string, a ...interface{}) *failure {
	return &failure{sig: sig, err: fmt.Errorf(format, a...)}
}

var errCallback = errors.New("c19: callback error")

type stats struct{ cls map[string]int }

func (s *stats) add(c string) {
	if s.cls == nil {
		s.cls = map[string]int{}
	}
	s.cls[c]++
}

type world struct {
	c      kase
	strict bool
	s      *stats
	r      *evid.Rec

	path string
	opts *shed.Options
	db   *shed.DB
	idx  [nIdx]shed.Index
	fu   [2]shed.Uint64Field
	fv   shed.Uint64Vector
	fs   shed.StringField

	batch   driver.Batching
	pending []func()

	// model
	rank [nIdx]int // position of the index in DB key order (creation order at first open)
	m    [nIdx]*ref.SortedMap
	mu   [2]uint64
	mv   map[uint64]uint64
	ms   string
}

var u64FieldNames = [2]string{"gc-size", "gc-size2"}

func (w *world) open(perm int) *failure {
	db, err := shed.NewDB(w.path, w.opts)
	if err != nil {
		return fail("C19/open", "NewDB: %v", err)
	}
	w.db = db
	for _, x := range perms[perm] {
		w.idx[x], err = db.NewIndex(idxNames[x], idxFuncs[x])
		if err != nil {
			return fail("C19/open", "NewIndex(%s): %v", idxNames[x], err)
		}
	}
	for i := range w.fu {
		if w.fu[i], err = db.NewUint64Field(u64FieldNames[i]); err != nil {
			return fail("C19/open", "NewUint64Field: %v", err)
		}
	}
	if w.fv, err = db.NewUint64Vector("bin-ids"); err != nil {
		return fail("C19/open", "NewUint64Vector: %v", err)
	}
	if w.fs, err = db.NewStringField("schema-name"); err != nil {
		return fail("C19/open", "NewStringField: %v", err)
	}
	return nil
}

func hasPrefixKeys(m *ref.SortedMap, p []byte) [][]byte { return m.KeysWithPrefix(p) }

func allFF(p []byte) bool {
	for _, b := range p {
		if b != 0xff {
			return false
		}
	}
	return true
}

// incSameLen: p+1 as a big-endian number of the same length (nil on overflow).
func incSameLen(p []byte) []byte {
	n := append([]byte{}, p...)
	for i := len(n) - 1; i >= 0; i-- {
		n[i]++
		if n[i] != 0 {
			return n
		}
	}
	return nil
}

func (w *world) laterIndexNonEmpty(x int) bool {
	for y := 0; y < nIdx; y++ {
		if w.rank[y] > w.rank[x] && w.m[y].Len() > 0 {
			return true
		}
	}
	return false
}

// known reports whether a mismatch of signature sig in its exact shape must be
// tolerated (listed known finding, not a strict witness run); it counts the exclusion.
func (w *world) known(sig string) bool {
	if !w.strict && evid.Known(sig) {
		w.r.Excluded(sig)
		return true
	}
	return false
}

func (w *world) expItem(x int, k []byte) shed.Item {
	v, _ := w.m[x].Get(k)
	return fullItem(x, k, decV(v))
}

func (w *world) ensureBatch() {
	if w.batch == nil {
		w.batch = w.db.NewBatch()
		w.s.add("batch-opened")
	}
}

// iterate runs one Iterate and compares with the model.
func (w *world) iterate(step string, x int, pfx []byte, st int, skip, rev bool, mode string, at int) *failure {
	cands := hasPrefixKeys(w.m[x], pfx) // ascending
	var start []byte
	if st > 0 && len(cands) > 0 {
		start = cands[(st-1)%len(cands)]
	}
	// expected sequence
	var exp [][]byte
	for _, k := range cands {
		if start != nil {
			c := bytes.Compare(k, start)
			if (!rev && c < 0) || (rev && c > 0) || (skip && c == 0) {
				continue
			}
		}
		exp = append(exp, k)
	}
	if rev {
		for i, j := 0, len(exp)-1; i < j; i, j = i+1, j-1 {
			exp[i], exp[j] = exp[j], exp[i]
		}
	}
	// shape of the skip-without-start finding: the first key the cursor lands on equals the prefix itself
	skipShape := false
	if skip && start == nil && len(cands) > 0 {
		first := cands[0]
		if rev {
			first = cands[len(cands)-1]
		}
		skipShape = bytes.Equal(first, pfx)
	}
	if skipShape {
		w.s.add("iter-skip-without-start-on-prefix-key")
		if w.known(sigSkipNoStart) {
			return nil
		}
	}

	n := len(exp)
	wantVisited, wantErr := n, false
	if mode != "full" && at < n {
		wantVisited = at + 1
		wantErr = mode == "err"
	}
	opts := &shed.IterateOptions{SkipStartFromItem: skip, Reverse: rev}
	if len(pfx) > 0 {
		opts.Prefix = append([]byte{}, pfx...)
	}
	if start != nil {
		si := keyItem(x, start)
		opts.StartFrom = &si
	}
	var got []shed.Item
	calls := 0
	gotErr := w.idx[x].Iterate(func(it shed.Item) (bool, error) {
		got = append(got, it)
		i := calls
		calls++
		if mode != "full" && i == at {
			if mode == "stop" {
				return true, nil
			}
			return false, errCallback
		}
		return false, nil
	}, opts)
	desc := fmt.Sprintf("%s: index %s(rank %d) Iterate(prefix=%x start=%x skip=%v reverse=%v mode=%s at=%d)", step, idxNames[x], w.rank[x], pfx, start, skip, rev, mode, at)
	sig := "C19/iterate"
	if skipShape {
		sig = sigSkipNoStart
	}
	ok := len(got) == wantVisited
	if ok {
		for i := range got {
			if !eqItem(got[i], w.expItem(x, exp[i])) {
				ok = false
			}
		}
	}
	if !ok {
		var gs []string
		for _, g := range got {
			gs = append(gs, showItem(g))
		}
		return fail(sig, "%s visited %d items %v, want keys %x", desc, len(got), gs, exp[:wantVisited])
	}
	if wantErr {
		if !errors.Is(gotErr, errCallback) {
			return fail("C19/iterate-error-lost", "%s returned %v, want the callback's error", desc, gotErr)
		}
	} else if gotErr != nil {
		return fail("C19/iterate-error", "%s returned unexpected error %v", desc, gotErr)
	}
	return nil
}

func (w *world) firstLast(step string, x int, pfx []byte, last bool) *failure {
	cands := hasPrefixKeys(w.m[x], pfx)
	var p []byte
	if len(pfx) > 0 {
		p = append([]byte{}, pfx...)
	}
	name, sig := "First", "C19/first"
	if last {
		name, sig = "Last", "C19/last"
		if len(cands) > 0 {
			if (len(pfx) == 0 || allFF(pfx)) && w.laterIndexNonEmpty(x) {
				sig = sigLastNil
				w.s.add("last-empty-or-ff-prefix-with-later-index-keys")
			} else if len(pfx) > 0 && !allFF(pfx) && pfx[len(pfx)-1] == 0xff {
				next := incSameLen(pfx)
				for _, k := range w.m[x].Keys() {
					if !bytes.HasPrefix(k, pfx) && bytes.Compare(k, pfx) > 0 && bytes.Compare(k, next) < 0 {
						sig = sigLastFF
						w.s.add("last-ff-prefix-with-shorter-successor-key")
						break
					}
				}
			}
			if sig != "C19/last" && w.known(sig) {
				return nil
			}
		}
	}
	var got shed.Item
	var err error
	if last {
		got, err = w.idx[x].Last(p)
	} else {
		got, err = w.idx[x].First(p)
	}
	desc := fmt.Sprintf("%s: index %s(rank %d) %s(prefix=%x)", step, idxNames[x], w.rank[x], name, pfx)
	if len(cands) == 0 {
		w.s.add("firstlast-notfound")
		if !errors.Is(err, driver.ErrNotFound) {
			return fail(sig, "%s = %s, %v; want ErrNotFound", desc, showItem(got), err)
		}
		return nil
	}
	want := cands[0]
	if last {
		want = cands[len(cands)-1]
	}
	if err != nil || !eqItem(got, w.expItem(x, want)) {
		return fail(sig, "%s = %s, %v; want key %x = %s (matching keys %x)", desc, showItem(got), err, want, showItem(w.expItem(x, want)), cands)
	}
	return nil
}

// fullCheck compares every index (forward, reverse, Count) and every field with the model.
func (w *world) fullCheck(step string) *failure {
	for x := 0; x < nIdx; x++ {
		if f := w.iterate(step+" [full check]", x, nil, 0, false, false, "full", 0); f != nil {
			return f
		}
		if f := w.iterate(step+" [full check]", x, nil, 0, false, true, "full", 0); f != nil {
			return f
		}
		n, err := w.idx[x].Count()
		if err != nil || n != w.m[x].Len() {
			return fail("C19/count", "%s [full check]: index %s Count() = %d, %v; want %d", step, idxNames[x], n, err, w.m[x].Len())
		}
	}
	for i := range w.fu {
		g, err := w.fu[i].Get()
		if err != nil || g != w.mu[i] {
			return fail("C19/field", "%s [full check]: Uint64Field %s Get() = %d, %v; want %d", step, u64FieldNames[i], g, err, w.mu[i])
		}
	}
	for _, i := range vecIdx {
		g, err := w.fv.Get(i)
		if err != nil || g != w.mv[i] {
			return fail("C19/vector", "%s [full check]: Uint64Vector Get(%d) = %d, %v; want %d", step, i, g, err, w.mv[i])
		}
	}
	g, err := w.fs.Get()
	if err != nil || g != w.ms {
		return fail("C19/string", "%s [full check]: StringField Get() = %q, %v; want %q", step, g, err, w.ms)
	}
	return nil
}

func run(c kase, strict bool, s *stats) (f *failure) {
	defer func() {
		if p := recover(); p != nil {
			f = fail("C19/panic", "panic: %v", p)
		}
	}()
	w := &world{c: c, strict: strict, s: s, r: evid.Get(id), mv: map[uint64]uint64{}}
	for x := range w.m {
		w.m[x] = ref.NewSortedMap()
	}
	for pos, x := range perms[c.Perm] {
		w.rank[x] = pos
	}
	if c.Backend == "file" {
		dir, err := os.MkdirTemp("", "c19-")
		if err != nil {
			panic(err)
		}
		defer os.RemoveAll(dir)
		w.path, w.opts = dir, &shed.Options{Driver: `leveldb:{"NoSync":true,"WriteBuffer":1048576}`}
	} else {
		// a 1 MiB write buffer instead of the default 32 MiB (driver configuration string, as
		// accepted by shed.Options.Driver): opening a DB otherwise clears 32 MiB per case
		w.path, w.opts = keepdrv.NewDSN(), &shed.Options{Driver: keepdrv.Name + `:{"WriteBuffer":1048576}`}
		defer keepdrv.Destroy(w.path)
	}
	if f := w.open(c.Perm); f != nil {
		return f
	}
	defer func() {
		if w.db != nil {
			w.db.Close()
		}
	}()

	for i, o := range c.Ops {
		step := fmt.Sprintf("op#%d %s", i, o.K)
		x := o.X
		mutated := false
		if w.batch != nil {
			switch o.K {
			case "get", "has", "hasmulti", "fill", "count", "countfrom", "first", "last", "iter", "fget", "vget", "sget":
				s.add("read-while-batch-pending")
			}
		}
		switch o.K {
		case "put":
			it := fullItem(x, o.Key, *o.Val)
			key, val := append([]byte{}, o.Key...), encV(x, *o.Val)
			if _, had := w.m[x].Get(key); had {
				s.add("put-overwrite")
			} else {
				s.add("put-new")
			}
			if o.B {
				w.ensureBatch()
				if err := w.idx[x].PutInBatch(w.batch, it); err != nil {
					return fail("C19/put", "%s PutInBatch: %v", step, err)
				}
				w.pending = append(w.pending, func() { w.m[x].Put(key, val) })
				s.add("write-in-batch")
			} else {
				if err := w.idx[x].Put(it); err != nil {
					return fail("C19/put", "%s Put: %v", step, err)
				}
				w.m[x].Put(key, val)
				mutated = true
			}
		case "del":
			key := append([]byte{}, o.Key...)
			if _, had := w.m[x].Get(key); had {
				s.add("delete-present")
			} else {
				s.add("delete-absent")
			}
			if o.B {
				w.ensureBatch()
				if err := w.idx[x].DeleteInBatch(w.batch, keyItem(x, key)); err != nil {
					return fail("C19/delete", "%s DeleteInBatch: %v", step, err)
				}
				w.pending = append(w.pending, func() { w.m[x].Delete(key) })
				s.add("write-in-batch")
			} else {
				if err := w.idx[x].Delete(keyItem(x, key)); err != nil {
					return fail("C19/delete", "%s Delete(%x): %v", step, key, err)
				}
				w.m[x].Delete(key)
				mutated = true
			}
		case "get":
			got, err := w.idx[x].Get(keyItem(x, o.Key))
			if _, ok := w.m[x].Get(o.Key); ok {
				s.add("get-present")
				if err != nil || !eqItem(got, w.expItem(x, o.Key)) {
					return fail("C19/get", "%s index %s Get(%x) = %s, %v; want %s", step, idxNames[x], o.Key, showItem(got), err, showItem(w.expItem(x, o.Key)))
				}
			} else {
				s.add("get-absent")
				if !errors.Is(err, driver.ErrNotFound) {
					return fail("C19/get", "%s index %s Get(%x) of an absent key = %s, %v; want ErrNotFound", step, idxNames[x], o.Key, showItem(got), err)
				}
			}
		case "has":
			got, err := w.idx[x].Has(keyItem(x, o.Key))
			_, want := w.m[x].Get(o.Key)
			if err != nil || got != want {
				return fail("C19/has", "%s index %s Has(%x) = %v, %v; want %v", step, idxNames[x], o.Key, got, err, want)
			}
		case "hasmulti":
			items := make([]shed.Item, len(o.Keys))
			want := make([]bool, len(o.Keys))
			for j, k := range o.Keys {
				items[j] = keyItem(x, k)
				_, want[j] = w.m[x].Get(k)
			}
			got, err := w.idx[x].HasMulti(items...)
			if err != nil || fmt.Sprint(got) != fmt.Sprint(want) {
				return fail("C19/hasmulti", "%s index %s HasMulti(%x) = %v, %v; want %v", step, idxNames[x], o.Keys, got, err, want)
			}
		case "fill":
			items := make([]shed.Item, len(o.Keys))
			all := true
			stale := V{T: 987654321, D: []byte{0xde, 0xad}}
			for j, k := range o.Keys {
				items[j] = keyItem(x, k)
				if o.Stale {
					// items collected earlier and filled again: the stored value has to win over what they carry
					items[j] = fullItem(x, k, stale)
					s.add("fill-of-items-carrying-outdated-values")
				}
				if _, ok := w.m[x].Get(k); !ok {
					all = false
				}
			}
			err := w.idx[x].Fill(items)
			if all {
				s.add("fill-all-present")
				if err != nil {
					return fail("C19/fill", "%s index %s Fill(%x): %v", step, idxNames[x], o.Keys, err)
				}
				for j, k := range o.Keys {
					want := w.expItem(x, k)
					if o.Stale {
						// documented Item.Merge semantics: a field the stored value leaves at its zero value keeps
						// what the caller's item carried
						st := fullItem(x, k, stale)
						if want.AccessTimestamp == 0 {
							want.AccessTimestamp = st.AccessTimestamp
						}
						if want.StoreTimestamp == 0 {
							want.StoreTimestamp = st.StoreTimestamp
						}
						if want.Data == nil {
							want.Data = st.Data
						}
						if want.Address == nil {
							want.Address = st.Address
						}
					}
					if !eqItem(items[j], want) {
						return fail("C19/fill", "%s index %s Fill(%x)[%d] (stale=%v) = %s want %s", step, idxNames[x], o.Keys, j, o.Stale, showItem(items[j]), showItem(want))
					}
				}
			} else {
				s.add("fill-some-absent")
				if !errors.Is(err, driver.ErrNotFound) {
					return fail("C19/fill", "%s index %s Fill(%x) with an absent key returned %v; want ErrNotFound", step, idxNames[x], o.Keys, err)
				}
			}
		case "count":
			n, err := w.idx[x].Count()
			if err != nil || n != w.m[x].Len() {
				return fail("C19/count", "%s index %s Count() = %d, %v; want %d", step, idxNames[x], n, err, w.m[x].Len())
			}
		case "countfrom":
			n, err := w.idx[x].CountFrom(keyItem(x, o.Key))
			if _, ok := w.m[x].Get(o.Key); ok {
				s.add("countfrom-present")
				want := 0
				for _, k := range w.m[x].Keys() {
					if bytes.Compare(k, o.Key) >= 0 {
						want++
					}
				}
				if err != nil || n != want {
					return fail("C19/countfrom", "%s index %s CountFrom(%x) = %d, %v; want %d", step, idxNames[x], o.Key, n, err, want)
				}
			} else {
				s.add("countfrom-absent-not-asserted")
			}
		case "first":
			if f := w.firstLast(step, x, o.Pfx, false); f != nil {
				return f
			}
		case "last":
			if f := w.firstLast(step, x, o.Pfx, true); f != nil {
				return f
			}
		case "iter":
			cands := hasPrefixKeys(w.m[x], o.Pfx)
			s.add("iter-" + o.Mode)
			if o.Rev {
				s.add("iter-reverse")
			}
			if len(o.Pfx) > 0 {
				s.add("iter-prefix")
				if o.Pfx[len(o.Pfx)-1] == 0xff {
					s.add("iter-prefix-ends-ff")
				}
			}
			if o.St > 0 && len(cands) > 0 {
				s.add("iter-startfrom")
				if o.Skip {
					s.add("iter-startfrom-skip")
				}
			}
			switch {
			case len(cands) == 0:
				s.add("iter-match-0")
			case len(cands) == 1:
				s.add("iter-match-1")
			default:
				s.add("iter-match-2+")
			}
			if o.Rev && w.laterIndexNonEmpty(x) {
				s.add("iter-reverse-with-later-index-keys")
			}
			if f := w.iterate(step, x, o.Pfx, o.St, o.Skip, o.Rev, o.Mode, o.At); f != nil {
				return f
			}
		case "commit", "drop":
			if w.batch == nil {
				s.add(o.K + "-no-batch")
				break
			}
			if o.K == "commit" {
				if err := w.batch.Commit(); err != nil {
					return fail("C19/batch", "%s Commit: %v", step, err)
				}
				for _, p := range w.pending {
					p()
				}
				s.add("batch-committed")
				if len(w.pending) > 1 {
					s.add("batch-committed-multi-write")
				}
			} else {
				s.add("batch-dropped")
			}
			w.batch, w.pending = nil, nil
			mutated = true
		case "fput", "finc", "fdec":
			fi := o.F % 2
			cur := w.mu[fi]
			var nv uint64
			var ret uint64
			var err error
			switch o.K {
			case "fput":
				nv = o.U
				if o.B {
					w.ensureBatch()
					err = w.fu[fi].PutInBatch(w.batch, o.U)
				} else {
					err = w.fu[fi].Put(o.U)
				}
				ret = nv
			case "finc":
				nv = cur + 1
				if o.B {
					w.ensureBatch()
					ret, err = w.fu[fi].IncInBatch(w.batch)
				} else {
					ret, err = w.fu[fi].Inc()
				}
			case "fdec":
				nv = cur
				if nv > 0 {
					nv--
				}
				if o.B {
					w.ensureBatch()
					ret, err = w.fu[fi].DecInBatch(w.batch)
				} else {
					ret, err = w.fu[fi].Dec()
				}
			}
			s.add("field-" + o.K)
			if o.B && o.K != "fput" && cur > 0 {
				s.add("field-incdec-in-batch-on-nonzero")
			}
			if err != nil || ret != nv {
				return fail("C19/field", "%s Uint64Field %s (batch=%v) returned %d, %v; want %d (stored %d)", step, u64FieldNames[fi], o.B, ret, err, nv, cur)
			}
			if o.B {
				w.pending = append(w.pending, func() { w.mu[fi] = nv })
				s.add("write-in-batch")
			} else {
				w.mu[fi] = nv
				mutated = true
			}
		case "fget":
			fi := o.F % 2
			g, err := w.fu[fi].Get()
			if err != nil || g != w.mu[fi] {
				return fail("C19/field", "%s Uint64Field %s Get() = %d, %v; want %d", step, u64FieldNames[fi], g, err, w.mu[fi])
			}
		case "vput", "vinc", "vdec":
			vi := o.I
			cur := w.mv[vi]
			var nv, ret uint64
			var err error
			switch o.K {
			case "vput":
				nv, ret = o.U, o.U
				if o.B {
					w.ensureBatch()
					err = w.fv.PutInBatch(w.batch, vi, o.U)
				} else {
					err = w.fv.Put(vi, o.U)
				}
			case "vinc":
				nv = cur + 1
				if o.B {
					w.ensureBatch()
					ret, err = w.fv.IncInBatch(w.batch, vi)
				} else {
					ret, err = w.fv.Inc(vi)
				}
			case "vdec":
				nv = cur
				if nv > 0 {
					nv--
				}
				if o.B {
					w.ensureBatch()
					ret, err = w.fv.DecInBatch(w.batch, vi)
				} else {
					ret, err = w.fv.Dec(vi)
				}
			}
			s.add("vector-" + o.K)
			if o.B && o.K != "vput" && cur > 0 {
				s.add("vector-incdec-in-batch-on-nonzero")
			}
			if err != nil || ret != nv {
				return fail("C19/vector", "%s Uint64Vector[%d] (batch=%v) returned %d, %v; want %d (stored %d)", step, vi, o.B, ret, err, nv, cur)
			}
			if o.B {
				w.pending = append(w.pending, func() { w.mv[vi] = nv })
				s.add("write-in-batch")
			} else {
				w.mv[vi] = nv
				mutated = true
			}
		case "vget":
			g, err := w.fv.Get(o.I)
			if err != nil || g != w.mv[o.I] {
				return fail("C19/vector", "%s Uint64Vector Get(%d) = %d, %v; want %d", step, o.I, g, err, w.mv[o.I])
			}
		case "sput":
			v := string(o.S)
			if o.B {
				w.ensureBatch()
				if err := w.fs.PutInBatch(w.batch, v); err != nil {
					return fail("C19/string", "%s StringField PutInBatch: %v", step, err)
				}
				w.pending = append(w.pending, func() { w.ms = v })
				s.add("write-in-batch")
			} else {
				if err := w.fs.Put(v); err != nil {
					return fail("C19/string", "%s StringField Put: %v", step, err)
				}
				w.ms = v
				mutated = true
			}
		case "sget":
			g, err := w.fs.Get()
			if err != nil || g != w.ms {
				return fail("C19/string", "%s StringField Get() = %q, %v; want %q", step, g, err, w.ms)
			}
		case "reopen":
			s.add("reopen")
			if w.batch != nil {
				s.add("batch-dropped")
				s.add("batch-dropped-by-reopen")
				w.batch, w.pending = nil, nil
			}
			db := w.db
			w.db = nil
			if err := db.Close(); err != nil {
				return fail("C19/reopen", "%s Close: %v", step, err)
			}
			if o.Perm != c.Perm {
				s.add("reopen-other-creation-order")
			}
			if f := w.open(o.Perm); f != nil {
				f.sig = "C19/reopen"
				return f
			}
			mutated = true
		}
		if mutated {
			if f := w.fullCheck(step); f != nil {
				return f
			}
		}
	}
	// an uncommitted batch at the end is dropped
	if w.batch != nil {
		s.add("batch-dropped")
		w.batch, w.pending = nil, nil
	}
	return w.fullCheck("end")
}

// ---- generator -------------------------------------------------------------------------------

var b1Keys = []byte{0x00, 0x01, 0x02, 0x7f, 0xfe, 0xff}
var u64Keys = []uint64{0, 1, 2, 255, 256, 257, 1 << 16, 1 << 32, 1<<56 - 1, 1 << 56, 0xff << 56, 1<<64 - 2, 1<<64 - 1, 0x00ff00ff00ff00ff}
var varAlpha = []byte{0x00, 0x01, 0x02, 0xfe, 0xff}
var vecIdx = []uint64{0, 1, 2, 255, 256, 1 << 32, 1<<64 - 1}
var vecIdxBiased = []uint64{0, 0, 0, 0, 1, 1, 2, 255, 256, 1 << 32, 1 << 32, 1<<64 - 1}

func genKey(t *rapid.T, x int) []byte {
	switch x {
	case xB1:
		return []byte{rapid.SampledFrom(b1Keys).Draw(t, "b1key")}
	case xU64:
		return be8(rapid.SampledFrom(u64Keys).Draw(t, "u64key"))
	}
	n := rapid.SampledFrom([]int{1, 1, 2, 2, 2, 3}).Draw(t, "varlen")
	return rapid.SliceOfN(rapid.SampledFrom(varAlpha), n, n).Draw(t, "varkey")
}

func genPrefix(t *rapid.T, x int, key func(int) []byte) []byte {
	if rapid.IntRange(0, 3).Draw(t, "nopfx") == 0 {
		return nil
	}
	k := key(x)
	n := rapid.IntRange(1, len(k)).Draw(t, "pfxlen")
	if x == xU64 {
		n = rapid.SampledFrom([]int{1, 1, 2, 4, 6, 7, 7, 8}).Draw(t, "u64pfxlen")
	}
	return append([]byte{}, k[:n]...)
}

func genV(t *rapid.T, x int) V {
	var v V
	if x != xU64 {
		v.T = rapid.SampledFrom([]int64{0, 1, -1, 1 << 40, -1 << 63, 1<<63 - 1}).Draw(t, "vt")
	}
	if x != xB1 {
		v.D = rapid.SliceOfN(rapid.SampledFrom([]byte{0, 1, 0xff, 'x'}), 0, 3).Draw(t, "vd")
	}
	return v
}

func genU(t *rapid.T) uint64 {
	return rapid.SampledFrom([]uint64{0, 1, 1, 2, 3, 255, 256, 1 << 32, 1 << 62}).Draw(t, "u")
}

var opKinds = []string{
	"put", "put", "put", "put", "put", "del", "del", "get", "has", "hasmulti", "fill", "count", "countfrom",
	"first", "last", "last", "iter", "iter", "iter", "iter", "iter", "commit", "commit", "drop",
	"fput", "finc", "finc", "fdec", "fget", "vput", "vinc", "vinc", "vdec", "vget", "sput", "sget", "reopen",
}

func genCase(t *rapid.T) kase {
	c := kase{Backend: "keep", Perm: rapid.IntRange(0, 5).Draw(t, "perm")}
	if rapid.IntRange(0, 9).Draw(t, "backend") == 0 {
		c.Backend = "file"
	}
	maxOps := 40
	if evid.Thorough() {
		maxOps = 100
	}
	n := rapid.IntRange(1, maxOps).Draw(t, "nops")
	preload := rapid.IntRange(0, 10).Draw(t, "preload")
	batchy := rapid.IntRange(0, 2).Draw(t, "batchy") // 0: no batches, 1: some, 2: mostly batched writes
	reopens := 0
	// Steering only (the oracle recomputes everything in run()): keys that were
	// written so far per index, and whether a batch is probably open.
	var live [nIdx][][]byte
	seen := [nIdx]map[string]bool{{}, {}, {}}
	batchOpen := false
	freshKey := func(x int) []byte { return genKey(t, x) }
	liveKey := func(x int) []byte {
		if len(live[x]) > 0 && rapid.IntRange(0, 9).Draw(t, "uselive") < 7 {
			return live[x][rapid.IntRange(0, len(live[x])-1).Draw(t, "liveidx")]
		}
		return genKey(t, x)
	}
	wantBatch := func() bool {
		switch batchy {
		case 0:
			return false
		case 1:
			return rapid.IntRange(0, 3).Draw(t, "inbatch") == 0
		}
		return rapid.IntRange(0, 3).Draw(t, "inbatch") != 0
	}
	for i := 0; i < n; i++ {
		kind := "put"
		if i >= preload {
			kind = rapid.SampledFrom(opKinds).Draw(t, "op")
		} else {
			kind = rapid.SampledFrom([]string{"put", "put", "put", "put", "put", "put", "fput", "vput", "vput", "sput"}).Draw(t, "preop")
		}
		if kind == "reopen" && c.Backend == "file" {
			if reopens++; reopens > 2 {
				kind = "iter"
			}
		}
		if batchOpen && rapid.IntRange(0, 5).Draw(t, "closebatch") == 0 {
			kind = rapid.SampledFrom([]string{"commit", "commit", "commit", "drop"}).Draw(t, "how")
		} else if !batchOpen && (kind == "commit" || kind == "drop") {
			kind = "iter"
		}
		o := op{K: kind}
		switch kind {
		case "put":
			o.X = rapid.IntRange(0, nIdx-1).Draw(t, "x")
			if rapid.IntRange(0, 4).Draw(t, "overwrite") == 0 {
				o.Key = liveKey(o.X)
			} else {
				o.Key = freshKey(o.X)
			}
			v := genV(t, o.X)
			o.Val = &v
			o.B = i >= preload && wantBatch()
			if !seen[o.X][string(o.Key)] {
				seen[o.X][string(o.Key)] = true
				live[o.X] = append(live[o.X], o.Key)
			}
		case "del":
			o.X = rapid.IntRange(0, nIdx-1).Draw(t, "x")
			o.Key = liveKey(o.X)
			o.B = wantBatch()
		case "get", "has", "countfrom":
			o.X = rapid.IntRange(0, nIdx-1).Draw(t, "x")
			o.Key = liveKey(o.X)
		case "hasmulti", "fill":
			o.X = rapid.IntRange(0, nIdx-1).Draw(t, "x")
			nk := rapid.IntRange(0, 4).Draw(t, "nkeys")
			allLive := rapid.Bool().Draw(t, "alllive")
			for j := 0; j < nk; j++ {
				if allLive && len(live[o.X]) > 0 {
					o.Keys = append(o.Keys, live[o.X][rapid.IntRange(0, len(live[o.X])-1).Draw(t, "lk")])
				} else {
					o.Keys = append(o.Keys, liveKey(o.X))
				}
			}
			if o.K == "fill" {
				o.Stale = rapid.Bool().Draw(t, "stale")
			}
		case "count":
			o.X = rapid.IntRange(0, nIdx-1).Draw(t, "x")
		case "first", "last":
			o.X = rapid.IntRange(0, nIdx-1).Draw(t, "x")
			o.Pfx = genPrefix(t, o.X, liveKey)
		case "iter":
			o.X = rapid.IntRange(0, nIdx-1).Draw(t, "x")
			o.Pfx = genPrefix(t, o.X, liveKey)
			if rapid.Bool().Draw(t, "hasstart") {
				o.St = rapid.IntRange(1, 8).Draw(t, "start")
				o.Skip = rapid.Bool().Draw(t, "skip")
			} else {
				o.Skip = rapid.IntRange(0, 4).Draw(t, "skipnostart") == 0
			}
			o.Rev = rapid.Bool().Draw(t, "rev")
			o.Mode = rapid.SampledFrom([]string{"full", "full", "stop", "err"}).Draw(t, "mode")
			if o.Mode != "full" {
				o.At = rapid.IntRange(0, 3).Draw(t, "at")
			}
		case "fput", "finc", "fdec":
			o.F = rapid.SampledFrom([]int{0, 0, 0, 1}).Draw(t, "f")
			o.U = genU(t)
			o.B = i >= preload && wantBatch()
			if kind != "fput" && batchy > 0 {
				o.B = rapid.Bool().Draw(t, "incinbatch")
			}
		case "fget":
			o.F = rapid.IntRange(0, 1).Draw(t, "f")
		case "vput", "vinc", "vdec":
			o.I = rapid.SampledFrom(vecIdxBiased).Draw(t, "vi")
			o.U = genU(t)
			o.B = i >= preload && wantBatch()
			if kind != "vput" && batchy > 0 {
				o.B = rapid.Bool().Draw(t, "incinbatch")
			}
		case "vget":
			o.I = rapid.SampledFrom(vecIdx).Draw(t, "vi")
		case "sput":
			o.S = rapid.SliceOfN(rapid.SampledFrom([]byte{'a', 'b', 0, 0xff, ' '}), 0, 4).Draw(t, "s")
			o.B = i >= preload && wantBatch()
		case "reopen":
			o.Perm = rapid.IntRange(0, 5).Draw(t, "reperm")
		}
		if o.B {
			batchOpen = true
		}
		if kind == "commit" || kind == "drop" || kind == "reopen" {
			batchOpen = false
		}
		c.Ops = append(c.Ops, o)
	}
	return c
}

func nontrivial(c kase, s *stats) bool {
	if s.cls["batch-dropped"] > 0 {
		return true
	}
	for _, o := range c.Ops {
		if o.K == "iter" && (o.Rev || len(o.Pfx) > 0) {
			return true
		}
	}
	return false
}

func record(r *evid.Rec, c kase, s *stats) {
	cls := []string{"backend-" + c.Backend}
	for _, k := range []string{"reopen", "batch-dropped", "batch-committed", "iter-reverse", "iter-prefix"} {
		if s.cls[k] > 0 {
			cls = append(cls, "case-has-"+k)
		}
	}
	r.Case(evid.Hash64(c), nontrivial(c, s), cls...)
	names := make([]string, 0, len(s.cls))
	for k := range s.cls {
		names = append(names, k)
	}
	sort.Strings(names)
	for _, k := range names {
		r.ClassN("op:"+k, s.cls[k])
	}
	r.Sample(c)
}

func js(v interface{}) string {
	b, _ := json.Marshal(v)
	return string(b)
}

// ---- witnesses of known findings ---------------------------------------------------------------

func witnesses() map[string]kase {
	return map[string]kase{
		// index b1 is created first (lowest prefix byte); var holds a key afterwards.
		sigLastNil: {Backend: "keep", Perm: 0, Ops: []op{
			{K: "put", X: xB1, Key: []byte{0x01}, Val: &V{T: 1}},
			{K: "put", X: xVar, Key: []byte{0x01}, Val: &V{T: 1}},
			{K: "last", X: xB1},
		}},
		sigLastFF: {Backend: "keep", Perm: 0, Ops: []op{
			{K: "put", X: xVar, Key: []byte{0x00, 0xff, 0x00}, Val: &V{T: 1}},
			{K: "put", X: xVar, Key: []byte{0x01}, Val: &V{T: 2}},
			{K: "last", X: xVar, Pfx: []byte{0x00, 0xff}},
		}},
		sigSkipNoStart: {Backend: "keep", Perm: 0, Ops: []op{
			{K: "put", X: xVar, Key: []byte{0x01}, Val: &V{T: 1}},
			{K: "put", X: xVar, Key: []byte{0x01, 0x00}, Val: &V{T: 2}},
			{K: "iter", X: xVar, Pfx: []byte{0x01}, Skip: true, Mode: "full"},
		}},
	}
}

// sweep: deterministic boundary histories. Every index position (creation
// order) x a dense population of the var index over the alphabet x every prefix
// of length 0..2 over the alphabet: First, Last, Iterate forward/reverse.
func sweepCases() []kase {
	var out []kase
	var pfxs [][]byte
	pfxs = append(pfxs, nil)
	for _, a := range varAlpha {
		pfxs = append(pfxs, []byte{a})
		for _, b := range varAlpha {
			pfxs = append(pfxs, []byte{a, b})
		}
	}
	for perm := 0; perm < 6; perm++ {
		for variant := 0; variant < 3; variant++ {
			c := kase{Backend: "keep", Perm: perm}
			// neighbours in the other indexes, so that every index has keys before and after it
			c.Ops = append(c.Ops,
				op{K: "put", X: xB1, Key: []byte{0x00}, Val: &V{T: 1}}, op{K: "put", X: xB1, Key: []byte{0xff}, Val: &V{T: 2}},
				op{K: "put", X: xU64, Key: be8(0), Val: &V{D: []byte{1}}}, op{K: "put", X: xU64, Key: be8(1<<64 - 1), Val: &V{D: []byte{2}}},
				op{K: "fput", F: 0, U: 7}, op{K: "sput", S: []byte("x")})
			n := 0
			for _, a := range varAlpha {
				for _, b := range varAlpha {
					n++
					switch variant {
					case 0: // two- and three-byte keys only
						c.Ops = append(c.Ops, op{K: "put", X: xVar, Key: []byte{a, b}, Val: &V{T: int64(n)}})
						if n%3 == 0 {
							c.Ops = append(c.Ops, op{K: "put", X: xVar, Key: []byte{a, b, 0xff}, Val: &V{T: int64(n)}})
						}
					case 1: // one-byte keys and three-byte keys (no two-byte ones)
						c.Ops = append(c.Ops, op{K: "put", X: xVar, Key: []byte{a}, Val: &V{T: int64(n)}})
						if n%2 == 0 {
							c.Ops = append(c.Ops, op{K: "put", X: xVar, Key: []byte{a, b, 0x00}, Val: &V{T: int64(n)}})
						}
					case 2: // sparse
						if n%4 == 1 {
							c.Ops = append(c.Ops, op{K: "put", X: xVar, Key: []byte{a, b, a}, Val: &V{T: int64(n)}})
						}
					}
				}
			}
			for _, p := range pfxs {
				c.Ops = append(c.Ops, op{K: "first", X: xVar, Pfx: p}, op{K: "last", X: xVar, Pfx: p},
					op{K: "iter", X: xVar, Pfx: p, Mode: "full"}, op{K: "iter", X: xVar, Pfx: p, Rev: true, Mode: "full"},
					op{K: "iter", X: xVar, Pfx: p, Rev: true, St: 2, Skip: true, Mode: "full"}, op{K: "iter", X: xVar, Pfx: p, St: 2, Mode: "stop", At: 1})
			}
			for x := 0; x < 2; x++ {
				c.Ops = append(c.Ops, op{K: "first", X: x}, op{K: "last", X: x}, op{K: "iter", X: x, Rev: true, Mode: "full"}, op{K: "count", X: x})
			}
			c.Ops = append(c.Ops, op{K: "first", X: xB1, Pfx: []byte{0xff}}, op{K: "last", X: xB1, Pfx: []byte{0xff}},
				op{K: "iter", X: xB1, Pfx: []byte{0xff}, Rev: true, Mode: "full"},
				op{K: "last", X: xU64, Pfx: []byte{0xff, 0xff}}, op{K: "iter", X: xU64, Pfx: []byte{0xff, 0xff, 0xff}, Rev: true, Mode: "full"},
				op{K: "reopen", Perm: (perm + 3) % 6}, op{K: "last", X: xVar, Pfx: []byte{0xfe}}, op{K: "iter", X: xVar, Pfx: []byte{0xfe, 0xff}, Rev: true, Mode: "full"})
			out = append(out, c)
		}
	}
	return out
}

func TestC19_Model(t *testing.T) {
	r := evid.Get(id)
	evid.Finish(t, r)
	r.SetRule("rapid: histories of 1..40 ops (thorough 100) over one shed.DB with three indexes created in a drawn order (1-byte key, 8-byte big-endian key, variable-length key of 1..3 bytes over {00,01,02,fe,ff}), two Uint64Fields, a Uint64Vector and a StringField; ops Put/Get/Has/HasMulti/Fill (key-only items, or items already carrying outdated value fields)/Delete/Count/CountFrom/First/Last/Iterate(prefix?, StartFrom = a live key matching the prefix, SkipStartFromItem, Reverse, full|stop at k|error at k), field Put/Get/Inc/Dec, writes optionally through a batch (opened on demand; Commit | drop), reopen (Close + NewDB on the same backing store, indexes re-created in another order); backend = real in-memory leveldb kept alive across reopen (keepdrv) or, for a tenth of the histories, leveldb on a temp dir; plus a deterministic boundary sweep (6 creation orders x 3 populations x every prefix of length 0..2 over the alphabet: First/Last/Iterate forward/reverse/start). Oracle: one byte-ordered map per index, scalar models for fields; pending batch writes are invisible until Commit and applied in order then; full sweep (iterate forward+reverse, Count, all fields) after every mutation. Non-trivial = history has a reverse or prefix iteration or a dropped batch; distinct by hash of the history")

	ws := witnesses()
	for _, sig := range []string{sigLastNil, sigLastFF, sigSkipNoStart} {
		c := ws[sig]
		if !evid.Known(sig) {
			continue
		}
		if f := run(c, true, &stats{}); f != nil {
			if f.sig == sig {
				r.Witness(sig)
			} else {
				t.Fatalf("%s", evid.Violation(id, f.sig, fmt.Sprintf("%v (witness case of %s) case=%s", f.err, sig, js(c))))
			}
		}
	}

	for i, c := range sweepCases() {
		s := &stats{}
		if f := run(c, false, s); f != nil {
			// the sweep histories are long and deterministic: name the case instead of dumping it
			t.Fatalf("%s", evid.Violation(id, f.sig, fmt.Sprintf("%v case=sweepCases()[%d] (creation order %v, population variant %d)", f.err, i, perms[c.Perm], i%3)))
		}
		s.add("sweep-case")
		record(r, c, s)
	}

	evid.Checks(800)
	rapid.Check(t, func(t *rapid.T) {
		c := genCase(t)
		s := &stats{}
		if f := run(c, false, s); f != nil {
			t.Fatalf("%s", evid.Violation(id, f.sig, fmt.Sprintf("%v case=%s", f.err, js(c))))
		}
		record(r, c, s)
	})
}
