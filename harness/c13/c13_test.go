package c13

import (
	"fmt"
	"testing"

	"github.com/gauss-project/aurorafs/pkg/boson"
	"github.com/gauss-project/aurorafs/pkg/localstore"
	"pgregory.net/rapid"
	"verifharness/internal/evid"
	"verifharness/internal/nlhist"
)

const id = "C13"

var kinds = []string{"upload", "fetch", "fetch", "fetch", "fetch", "fetch", "pin", "pin", "unpin", "unpin", "read", "read", "gc", "gc", "delete", "delete", "restart"}

// Mid is a mini-program executed at the GC interleaving point (after the run has
// chosen its candidates, no lock held): accesses to files by the harness goroutine.
type Mid struct {
	K string `json:"k"` // read fetch pin
	F int    `json:"f"`
}

type kase struct {
	H   nlhist.Case `json:"history"`
	Mid []Mid       `json:"at_gc_interleaving_point"`
}

type stats struct {
	nt      bool
	classes map[string]bool
}

func sums(w *nlhist.World) (gcSize, sum uint64, entries int, err error) {
	w.N.DB.VerifWaitUpdateGC()
	d, err := w.N.Dump()
	if err != nil {
		return 0, 0, 0, err
	}
	for _, it := range d.GC {
		sum += it.GCounter
	}
	return d.GCSize, sum, len(d.GC), nil
}

const (
	sigCounter = "C13/counter-differs-from-total"
	// failure with accesses executed at the interleaving point of a collection run
	sigMid = "C13/access-during-collection-run-breaks-accounting"
)

func run(c kase) (sig string, err error, st stats) {
	st.classes = map[string]bool{}
	w, e := nlhist.NewWorld(c.H)
	if e != nil {
		return "C13/harness", e, st
	}
	defer w.Close()
	defer localstore.VerifSetGCHooks(nil, nil)
	midRan := false
	for i, op := range c.H.Ops {
		if op.K == "gc" && len(c.Mid) > 0 {
			midRan = true
			mids := c.Mid
			localstore.VerifSetGCHooks(func() {
				// runs inside collectGarbage on this goroutine, between candidate selection and deletion
				localstore.VerifSetGCHooks(nil, nil)
				for _, m := range mids {
					f := w.Files[m.F%len(w.Files)]
					switch m.K {
					case "read":
						if f.Complete() {
							w.N.DownloadHTTP(f.Ref, f.Name)
							st.classes["mid-read"] = true
						}
					case "fetch":
						if !f.Uploaded && len(f.Distinct) > 0 {
							_ = w.N.FetchChunkFrom(w.S, f.Ref, boson.MustParseHexAddress(f.Distinct[0]))
							f.Fetched[f.Distinct[0]] = true
							f.Known = true
							st.classes["mid-fetch"] = true
						}
					}
				}
				w.N.DB.VerifWaitUpdateGC()
			}, nil)
		}
		res := w.Apply(op)
		localstore.VerifSetGCHooks(nil, nil)
		if res.Skipped {
			continue
		}
		if res.Err != nil && (op.K == "upload" || op.K == "fetch" || op.K == "gc" || op.K == "restart") {
			return "C13/op-failed-" + op.K, fmt.Errorf("step %d %+v failed: %v", i, op, res.Err), st
		}
		gcSize, sum, entries, e := sums(w)
		if e != nil {
			return "C13/harness", e, st
		}
		if op.K == "gc" && res.GC > 0 {
			st.nt = true
			st.classes["gc-evicted"] = true
		}
		if op.K == "pin" || op.K == "unpin" {
			f := w.Files[op.F%len(w.Files)]
			if len(f.Data) != len(f.Distinct) {
				st.nt = true
				st.classes["pin-unpin-file-with-repeated-chunk"] = true
			}
		}
		if gcSize != sum {
			if midRan {
				return sigMid, fmt.Errorf("after step %d %+v (with accesses %+v at the interleaving point of a collection run): persisted cached-chunk counter = %d but the gc index records %d cached chunks in %d entries", i, op, c.Mid, gcSize, sum, entries), st
			}
			return sigCounter, fmt.Errorf("after step %d %+v: persisted cached-chunk counter = %d but the gc index records %d cached chunks in %d entries", i, op, gcSize, sum, entries), st
		}
		if op.K == "restart" {
			st.classes["restart"] = true
		}
		if op.K == "gc" {
			if gcSize > uint64(op.Arg) {
				if midRan {
					return sigMid, fmt.Errorf("after step %d gc(capacity %d) with accesses %+v at the interleaving point reported done: recorded cached-chunk total is %d", i, op.Arg, c.Mid, gcSize), st
				}
				return "C13/gc-left-more-than-capacity", fmt.Errorf("after step %d gc(capacity %d) reported done: recorded cached-chunk total is %d", i, op.Arg, gcSize), st
			}
		}
	}
	return "", nil, st
}

func TestC13_CounterEqualsTotal(t *testing.T) {
	r := evid.Get(id)
	evid.Finish(t, r)
	r.SetRule("rapid: node-lite histories as in C12 (uploads, cached downloads of chunk subsets incl. repeated chunks, pin/unpin at HTTP and service level, reads, deletes, restarts, synchronous GC runs with capacity 1-8 until done) plus a generated mini-program of accesses (read / fetch of a file) executed at the GC interleaving hook between candidate selection and deletion; oracle after every step outside a run: persisted gc size == sum of the gc index counters (also right after a restart, i.e. the recomputed value), and after a run that reports done the total is <= the capacity it ran with; non-trivial = a GC run that evicts, or pin/unpin of a file with repeated chunks; distinct by hash of the case")
	evid.Checks(70)
	rapid.Check(t, func(t *rapid.T) {
		var c kase
		c.H = nlhist.Gen(t, nlhist.GenOptions{MaxFiles: 4, MaxOps: 16, Kinds: kinds})
		c.H.Ops = append(c.H.Ops, nlhist.Op{K: "gc", Arg: rapid.SampledFrom([]int{1, 2, 3}).Draw(t, "final_gc_cap")}, nlhist.Op{K: "restart"})
		nm := rapid.IntRange(0, 2).Draw(t, "nmid")
		for i := 0; i < nm; i++ {
			c.Mid = append(c.Mid, Mid{K: rapid.SampledFrom([]string{"read", "fetch"}).Draw(t, "mk"), F: rapid.IntRange(0, 3).Draw(t, "mf")})
		}
		sig, err, st := run(c)
		if err != nil {
			t.Fatalf("%s", evid.Violation(id, sig, fmt.Sprintf("%v\ncase=%+v", err, c)))
		}
		var cls []string
		for k := range st.classes {
			cls = append(cls, k)
		}
		r.Case(evid.Hash64(c), st.nt, cls...)
		r.Sample(c)
	})
}


// TestC13_SharingDense: files over two chunk templates (every file shares blocks with others) and
// histories dominated by cached downloads and deletes, so that chunks are removed under a file
// context other than the one they were cached under.
func TestC13_SharingDense(t *testing.T) {
	r := evid.Get(id)
	evid.Finish(t, r)
	evid.Checks(60)
	rapid.Check(t, func(t *rapid.T) {
		var c kase
		c.H = nlhist.Gen(t, nlhist.GenOptions{MaxFiles: 4, MaxOps: 12, MaxBlocks: 2,
			Kinds: []string{"fetch", "fetch", "fetch", "fetch", "delete", "delete", "delete", "upload", "gc", "restart", "pin", "unpin"}})
		for i := range c.H.Files {
			for j := range c.H.Files[i].Tags {
				c.H.Files[i].Tags[j] %= 2
			}
			if len(c.H.Files[i].Tags) == 0 {
				c.H.Files[i].Tags = []int{i % 2}
			}
			c.H.Files[i].Salt = i
			if c.H.Files[i].Tail == 0 {
				c.H.Files[i].Tail = 9
			}
		}
		c.H.Ops = append(c.H.Ops, nlhist.Op{K: "restart"})
		sig, err, st := run(c)
		if err != nil {
			t.Fatalf("%s", evid.Violation(id, sig, fmt.Sprintf("%v\ncase=%+v", err, c)))
		}
		cls := []string{"sharing-dense"}
		for k := range st.classes {
			cls = append(cls, k)
		}
		r.Case(evid.Hash64("dense", c), true, cls...)
		r.Sample(c)
	})
}
