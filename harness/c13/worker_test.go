package c13

import (
	"context"
	"fmt"
	"sync"
	"testing"
	"time"

	"github.com/gauss-project/aurorafs/pkg/localstore"
	"github.com/gauss-project/aurorafs/pkg/sctx"
	"github.com/gauss-project/aurorafs/pkg/storage"
	"pgregory.net/rapid"
	"verifharness/internal/evid"
	"verifharness/internal/nlhist"
)

// Worker mode: the node gets a real, small capacity, so the store's own background
// worker collects. A generated number of its first runs is disturbed at the store's
// interleaving point by request-mode reads of every cached file (which mark the
// candidates as in use). Oracle (second clause of the property): once collection has
// quiesced the recorded total is <= capacity. Quiescence is awaited on the observable
// condition itself with a generous cap; never reaching it is the violation.
type wcase struct {
	H        nlhist.Case `json:"history"`
	Capacity int         `json:"capacity"`
	Disturb  int         `json:"disturbed_runs"`
	// DisturbAll: every run that happens while the history is still executing is disturbed
	// (so the last run before the node goes idle is one that could evict nothing)
	DisturbAll bool `json:"disturb_all_runs_during_history"`
}

const quiesceCap = 20 * time.Second

func runWorker(c wcase) (sig string, err error, classes []string) {
	var mu sync.Mutex
	var gate sync.RWMutex
	runs, disturbed := 0, 0
	opsDone := false
	var w *nlhist.World
	localstore.VerifSetGCHooks(func() {
		mu.Lock()
		runs++
		d := !opsDone && (c.DisturbAll || runs <= c.Disturb)
		mu.Unlock()
		if !d || w == nil {
			return
		}
		// the store's "wait for read bookkeeping" helper is a WaitGroup.Wait: it must never run while
		// another goroutine starts a read (sync.WaitGroup forbids Add next to Wait and panics with
		// "WaitGroup is reused"), so the reads of this hook exclude the main goroutine's wait below
		// and the hook itself only yields for a moment instead of waiting
		gate.RLock()
		for _, f := range w.Files {
			if f.Known && !f.Uploaded {
				ctx := sctx.SetRootHash(context.Background(), f.Ref)
				_, _ = w.N.DB.Get(ctx, storage.ModeGetRequest, f.Ref)
			}
		}
		gate.RUnlock()
		time.Sleep(2 * time.Millisecond)
		mu.Lock()
		disturbed++
		mu.Unlock()
	}, nil)
	defer localstore.VerifSetGCHooks(nil, nil)
	var e error
	w, e = nlhist.NewWorldCap(c.H, uint64(c.Capacity))
	if e != nil {
		return "C13/harness", e, nil
	}
	defer func() {
		gate.Lock() // Close waits on the same WaitGroup
		w.Close()
		gate.Unlock()
	}()
	for i, op := range c.H.Ops {
		res := w.Apply(op)
		_ = i
		if !res.Skipped && res.Err != nil {
			// an operation may legitimately fail while the worker evicts the very file it touches
			// (the node is used concurrently with its own collection); counted, not judged
			classes = append(classes, "op-error-while-worker-active")
		}
	}
	mu.Lock()
	opsDone = true
	mu.Unlock()
	// wait for quiescence with the bound satisfied
	deadline := time.Now().Add(quiesceCap)
	var last uint64
	for {
		gate.Lock()
		w.N.DB.VerifWaitUpdateGC()
		gate.Unlock()
		d, e := w.N.Dump()
		if e != nil {
			return "C13/harness", e, nil
		}
		last = d.GCSize
		if d.GCSize <= uint64(c.Capacity) {
			break
		}
		if time.Now().After(deadline) {
			mu.Lock()
			r, ds := runs, disturbed
			mu.Unlock()
			return "C13/worker-quiesced-above-capacity", fmt.Errorf("background collection quiesced with recorded cached-chunk total %d above capacity %d (%d runs, %d of them disturbed by reads of the files being evicted); no further run happened within %v", last, c.Capacity, r, ds, quiesceCap), nil
		}
		time.Sleep(20 * time.Millisecond)
	}
	mu.Lock()
	defer mu.Unlock()
	if runs > 0 {
		classes = append(classes, "worker-ran")
	}
	if disturbed > 0 {
		classes = append(classes, "run-disturbed-by-reads")
	}
	return "", nil, classes
}

func TestC13_WorkerKeepsBound(t *testing.T) {
	r := evid.Get(id)
	evid.Finish(t, r)
	r.SetRule("worker mode: node with a real capacity of 2-6 chunks, histories of cached downloads/uploads/reads; the first 0-2 runs of the store's background worker are disturbed at the interleaving hook by request-mode reads of all cached files; oracle: collection quiesces with recorded total <= capacity (awaited on the condition, cap 20 s); non-trivial = at least one disturbed run")
	evid.Checks(12)
	rapid.Check(t, func(t *rapid.T) {
		var c wcase
		c.H = nlhist.Gen(t, nlhist.GenOptions{MaxFiles: 3, MaxOps: 8, Kinds: []string{"fetch", "fetch", "fetch", "upload", "read"}, MaxBlocks: 2})
		for i := range c.H.Ops {
			if c.H.Ops[i].K == "upload" {
				c.H.Ops[i].Flag = false
			}
		}
		c.Capacity = rapid.IntRange(2, 6).Draw(t, "capacity")
		c.Disturb = rapid.IntRange(0, 2).Draw(t, "disturbed_runs")
		c.DisturbAll = rapid.IntRange(0, 2).Draw(t, "disturb_all") > 0
		sig, err, cls := runWorker(c)
		if err != nil {
			t.Fatalf("%s", evid.Violation(id, sig, fmt.Sprintf("%v\ncase=%+v", err, c)))
		}
		nt := false
		for _, k := range cls {
			if k == "run-disturbed-by-reads" {
				nt = true
			}
		}
		r.Case(evid.Hash64(c), nt, cls...)
		r.Sample(c)
	})
}
