// Package keepdrv registers a shed driver ("verifkeep") that wraps the real
// in-memory leveldb driver and keeps the backing database alive across
// Close / re-Open of the same DSN, so that a harness can "reopen" a shed.DB
// (new schema lookup, new Index/Field objects) over the data written before.
// It adds no behaviour of its own: every call is forwarded to the real driver.
package keepdrv

import (
	"errors"
	"fmt"
	"sync"
	"sync/atomic"

	"github.com/gauss-project/aurorafs/pkg/shed"
	"github.com/gauss-project/aurorafs/pkg/shed/driver"
	"github.com/gauss-project/aurorafs/pkg/shed/leveldb"
)

// Name is the driver name to put into shed.Options.Driver.
const Name = "verifkeep"

type kept struct {
	real  driver.BatchDB
	open  bool
	opens int
}

var (
	mu  sync.Mutex
	dbs = map[string]*kept{}
	seq uint64
)

type drv struct{}

func init() { shed.Register(Name, drv{}) }

// NewDSN returns a process-unique DSN (use it as the path argument of shed.NewDB).
func NewDSN() string { return fmt.Sprintf("keep-%d", atomic.AddUint64(&seq, 1)) }

// Open opens the kept database of dsn, creating it (real leveldb driver, memory
// storage) on first use. A DSN can be open only once at a time.
func (drv) Open(dsn, options string) (driver.DB, error) {
	mu.Lock()
	defer mu.Unlock()
	k, ok := dbs[dsn]
	if !ok {
		real, err := leveldb.Driver{}.Open("", options)
		if err != nil {
			return nil, err
		}
		b, ok := real.(driver.BatchDB)
		if !ok {
			_ = real.Close()
			return nil, errors.New("keepdrv: leveldb driver does not support batching")
		}
		k = &kept{real: b}
		dbs[dsn] = k
	}
	if k.open {
		return nil, fmt.Errorf("keepdrv: %s is already open", dsn)
	}
	k.open = true
	k.opens++
	return &handle{BatchDB: k.real, k: k}, nil
}

// handle forwards everything to the real DB except Close, which only marks the
// DSN as closed (the data stays).
type handle struct {
	driver.BatchDB
	k      *kept
	closed bool
}

func (h *handle) Close() error {
	mu.Lock()
	defer mu.Unlock()
	if h.closed {
		return errors.New("keepdrv: already closed")
	}
	h.closed = true
	h.k.open = false
	return nil
}

// Opens reports how many times dsn has been opened.
func Opens(dsn string) int {
	mu.Lock()
	defer mu.Unlock()
	if k, ok := dbs[dsn]; ok {
		return k.opens
	}
	return 0
}

// Destroy really closes and forgets the database of dsn.
func Destroy(dsn string) error {
	mu.Lock()
	k, ok := dbs[dsn]
	delete(dbs, dsn)
	mu.Unlock()
	if !ok {
		return nil
	}
	return k.real.Close()
}
