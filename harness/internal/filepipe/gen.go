package filepipe

import (
	"sort"

	"pgregory.net/rapid"
)

// DrawLen draws a content length from a boundary-dense distribution, capped at
// maxBytes: {0,1,31,32,33,4095,4096}, {k*chunk-1, k*chunk, k*chunk+1}, k*chunk+r,
// and uniform. chunk is the chunk size the pipeline under test uses.
func DrawLen(t *rapid.T, chunk, maxBytes int) int {
	clip := func(n int) int {
		if n < 0 {
			return 0
		}
		if n > maxBytes {
			return maxBytes
		}
		return n
	}
	maxK := maxBytes / chunk
	if maxK < 1 {
		maxK = 1
	}
	switch rapid.IntRange(0, 9).Draw(t, "lenClass") {
	case 0, 1:
		return clip(rapid.SampledFrom([]int{0, 1, 31, 32, 33, 63, 64, 65, 4095, 4096, 4097}).Draw(t, "lenSmall"))
	case 2, 3, 4:
		k := rapid.IntRange(1, maxK).Draw(t, "lenK")
		d := rapid.SampledFrom([]int{-1, 0, 1}).Draw(t, "lenD")
		return clip(k*chunk + d)
	case 5, 6:
		k := rapid.IntRange(0, maxK).Draw(t, "lenK")
		r := rapid.IntRange(0, chunk-1).Draw(t, "lenR")
		return clip(k*chunk + r)
	case 7:
		return clip(rapid.IntRange(0, chunk).Draw(t, "lenSub"))
	default:
		return rapid.IntRange(0, maxBytes).Draw(t, "lenUniform")
	}
}

// DrawWrites draws a split of n bytes into write sizes (sum == n). Styles: one
// write; chunk-sized writes (what FeedPipeline does); random cut points
// (duplicates give zero-length writes); cuts hugging the chunk borders; a run of
// tiny writes followed by larger pieces; a fixed stride; plus optional explicit
// zero-length writes at the ends. The number of writes is kept below ~100.
func DrawWrites(t *rapid.T, n, chunk int, label string) []int {
	var cuts []int
	switch rapid.IntRange(0, 6).Draw(t, label+"Style") {
	case 0: // single write (possibly many chunks long)
	case 1: // FeedPipeline style
		for c := chunk; c < n; c += chunk {
			cuts = append(cuts, c)
		}
	case 2: // random cut points
		k := rapid.IntRange(1, 10).Draw(t, label+"NCuts")
		for i := 0; i < k; i++ {
			cuts = append(cuts, rapid.IntRange(0, n).Draw(t, label+"Cut"))
		}
	case 3: // cuts hugging chunk borders
		for c := chunk; c <= n+1 && len(cuts) < 90; c += chunk {
			d := rapid.SampledFrom([]int{-2, -1, 0, 1, 2}).Draw(t, label+"Hug")
			if c+d >= 0 && c+d <= n {
				cuts = append(cuts, c+d)
			}
			if rapid.IntRange(0, 3).Draw(t, label+"Hug2") == 0 && c+d+1 <= n && c+d+1 >= 0 {
				cuts = append(cuts, c+d+1)
			}
		}
	case 4: // tiny writes first, then bigger pieces
		k := rapid.IntRange(1, 40).Draw(t, label+"Tiny")
		pos := 0
		for i := 0; i < k && pos < n; i++ {
			pos += rapid.IntRange(0, 3).Draw(t, label+"TinyLen")
			if pos > n {
				pos = n
			}
			cuts = append(cuts, pos)
		}
		m := rapid.IntRange(0, 6).Draw(t, label+"Big")
		for i := 0; i < m; i++ {
			cuts = append(cuts, rapid.IntRange(pos, n).Draw(t, label+"BigCut"))
		}
	case 5: // fixed stride, at most ~64 writes
		lo := n/64 + 1
		hi := 2*chunk + 1
		if hi < lo {
			hi = lo
		}
		s := rapid.IntRange(lo, hi).Draw(t, label+"Stride")
		for c := s; c < n; c += s {
			cuts = append(cuts, c)
		}
	case 6: // a write ending exactly on / one off a chunk border, then the rest
		if n > 0 {
			k := rapid.IntRange(0, n/chunk).Draw(t, label+"BorderK")
			d := rapid.SampledFrom([]int{-1, 0, 1}).Draw(t, label+"BorderD")
			c := k*chunk + d
			if c >= 0 && c <= n {
				cuts = append(cuts, c)
			}
			if rapid.Bool().Draw(t, label+"BorderMore") {
				cuts = append(cuts, rapid.IntRange(0, n).Draw(t, label+"BorderCut"))
			}
		}
	}
	if rapid.IntRange(0, 5).Draw(t, label+"ZeroHead") == 0 {
		cuts = append(cuts, 0)
	}
	if rapid.IntRange(0, 5).Draw(t, label+"ZeroTail") == 0 {
		cuts = append(cuts, n)
	}
	return CutsToWrites(cuts, n)
}

// CutsToWrites turns cut points into write sizes summing to n.
func CutsToWrites(cuts []int, n int) []int {
	cs := append([]int(nil), cuts...)
	sort.Ints(cs)
	var w []int
	prev := 0
	for _, c := range cs {
		if c < 0 {
			c = 0
		}
		if c > n {
			c = n
		}
		w = append(w, c-prev)
		prev = c
	}
	w = append(w, n-prev)
	return w
}

// DrawOffset draws a read offset for a file of the given size: the ends
// (0, size-1, size, size+1), chunk borders +-1, or uniform in [0, size+chunk].
func DrawOffset(t *rapid.T, size int64, chunk int64, label string) int64 {
	clip := func(o int64) int64 {
		if o < 0 {
			return 0
		}
		return o
	}
	switch rapid.IntRange(0, 5).Draw(t, label+"Class") {
	case 0:
		return clip(size + int64(rapid.SampledFrom([]int{-2, -1, 0, 1, 2}).Draw(t, label+"End")))
	case 1:
		return int64(rapid.SampledFrom([]int{0, 1, 31, 32, 33}).Draw(t, label+"Start"))
	case 2, 3:
		k := rapid.Int64Range(0, size/chunk+1).Draw(t, label+"K")
		return clip(k*chunk + int64(rapid.SampledFrom([]int{-1, 0, 1}).Draw(t, label+"D")))
	default:
		return rapid.Int64Range(0, size+chunk).Draw(t, label+"Uniform")
	}
}

// DrawBufLen draws a buffer length: tiny, around a chunk, around what is left
// of the file after off, or uniform up to maxLen.
func DrawBufLen(t *rapid.T, size, off int64, chunk, maxLen int, label string) int {
	clip := func(n int64) int {
		if n < 0 {
			return 0
		}
		if n > int64(maxLen) {
			return maxLen
		}
		return int(n)
	}
	switch rapid.IntRange(0, 6).Draw(t, label+"Class") {
	case 0:
		return clip(int64(rapid.SampledFrom([]int{0, 1, 2, 31, 32, 33}).Draw(t, label+"Tiny")))
	case 1:
		return clip(int64(chunk + rapid.SampledFrom([]int{-1, 0, 1}).Draw(t, label+"Chunk")))
	case 2:
		return clip(size - off + int64(rapid.SampledFrom([]int{-1, 0, 1, 7}).Draw(t, label+"Rest")))
	case 3:
		// up to the next chunk border +-1
		next := (off/int64(chunk)+1)*int64(chunk) - off
		return clip(next + int64(rapid.SampledFrom([]int{-1, 0, 1}).Draw(t, label+"Border")))
	case 4:
		return clip(int64(rapid.IntRange(0, 4096).Draw(t, label+"Small")))
	default:
		return rapid.IntRange(0, maxLen).Draw(t, label+"Uniform")
	}
}
