// Package filepipe holds the helpers shared by the file-layer checks (C01, C02,
// C07): a recording in-memory chunk store, deterministic content generators,
// segmented upload through the real pipeline, joiner access and the read oracle.
//
// Nothing in here makes a random choice: every function is a deterministic
// function of values the caller drew with rapid.
package filepipe

import (
	"bytes"
	"context"
	"encoding/binary"
	"errors"
	"fmt"
	"io"
	"runtime/debug"
	"sync"

	"github.com/gauss-project/aurorafs/pkg/boson"
	"github.com/gauss-project/aurorafs/pkg/file"
	"github.com/gauss-project/aurorafs/pkg/file/joiner"
	"github.com/gauss-project/aurorafs/pkg/file/pipeline"
	"github.com/gauss-project/aurorafs/pkg/file/pipeline/bmt"
	"github.com/gauss-project/aurorafs/pkg/file/pipeline/builder"
	"github.com/gauss-project/aurorafs/pkg/file/pipeline/feeder"
	"github.com/gauss-project/aurorafs/pkg/file/pipeline/hashtrie"
	"github.com/gauss-project/aurorafs/pkg/file/pipeline/store"
	"github.com/gauss-project/aurorafs/pkg/storage"
)

const (
	CS       = boson.ChunkSize // 262144
	Branches = boson.Branches  // 8192
)

// ---- recording store ---------------------------------------------------------

// RecStore is an in-memory storage.Putter + storage.Getter. Every Put is
// recorded and its bytes are copied (the feeder re-uses its chunk buffer between
// the chunks of one Write call, exactly as a store that serialises at Put time
// permits). Identical chunks are stored once. Safe for concurrent use (the
// joiner fetches sub-tries in goroutines).
type RecStore struct {
	mu      sync.Mutex
	m       map[string][]byte
	Puts    int            // number of chunks handed to Put
	Gets    int            // number of Get calls
	Miss    int            // number of Get calls for absent addresses
	PutMode map[int]int    // histogram of put modes
	BadAddr int            // puts whose address is not 32 bytes
	first   map[string]int // address -> sequence number of first put
}

func NewRecStore() *RecStore {
	return &RecStore{m: map[string][]byte{}, PutMode: map[int]int{}, first: map[string]int{}}
}

func (s *RecStore) Put(_ context.Context, mode storage.ModePut, chs ...boson.Chunk) ([]bool, error) {
	s.mu.Lock()
	defer s.mu.Unlock()
	exist := make([]bool, len(chs))
	for i, c := range chs {
		k := string(c.Address().Bytes())
		if len(k) != boson.HashSize {
			s.BadAddr++
		}
		s.PutMode[int(mode)]++
		if _, ok := s.m[k]; ok {
			exist[i] = true
		} else {
			s.m[k] = append([]byte(nil), c.Data()...)
			s.first[k] = s.Puts
		}
		s.Puts++
	}
	return exist, nil
}

func (s *RecStore) Get(_ context.Context, _ storage.ModeGet, addr boson.Address) (boson.Chunk, error) {
	s.mu.Lock()
	defer s.mu.Unlock()
	s.Gets++
	d, ok := s.m[string(addr.Bytes())]
	if !ok {
		s.Miss++
		return nil, storage.ErrNotFound
	}
	// hand out a private copy: the store's content can never be changed by a reader
	return boson.NewChunk(boson.NewAddress(append([]byte(nil), addr.Bytes()...)), append([]byte(nil), d...)), nil
}

// Len is the number of distinct chunks stored.
func (s *RecStore) Len() int {
	s.mu.Lock()
	defer s.mu.Unlock()
	return len(s.m)
}

// Chunks returns a snapshot address -> payload (span || data). Not copied.
func (s *RecStore) Chunks() map[string][]byte {
	s.mu.Lock()
	defer s.mu.Unlock()
	out := make(map[string][]byte, len(s.m))
	for k, v := range s.m {
		out[k] = v
	}
	return out
}

// ---- panics -> errors --------------------------------------------------------

// PanicError is returned by Safe when the wrapped call panicked.
type PanicError struct {
	Val   interface{}
	Stack string
}

func (p *PanicError) Error() string { return fmt.Sprintf("panic: %v\n%s", p.Val, p.Stack) }

// Safe runs f and turns a panic on the calling goroutine into a *PanicError.
func Safe(f func() error) (err error) {
	defer func() {
		if r := recover(); r != nil {
			err = &PanicError{Val: r, Stack: string(debug.Stack())}
		}
	}()
	return f()
}

// ---- content -----------------------------------------------------------------

// Content kinds.
const (
	KindStream   = 0 // xorshift byte stream: every chunk differs
	KindTemplate = 1 // a few distinct 256 KiB templates repeated in a seed-defined order (files repeat chunks)
	KindZero     = 2 // all zero bytes
	KindOnes     = 3 // all 0xff
	NumKinds     = 4
)

func xorshift(x uint64) uint64 {
	x ^= x << 13
	x ^= x >> 7
	x ^= x << 17
	return x
}

func fillStream(b []byte, seed uint64) {
	x := seed*0x9E3779B97F4A7C15 + 0x2545F4914F6CDD1D
	if x == 0 {
		x = 1
	}
	i := 0
	var w [8]byte
	for ; i+8 <= len(b); i += 8 {
		x = xorshift(x)
		binary.LittleEndian.PutUint64(b[i:], x)
	}
	if i < len(b) {
		x = xorshift(x)
		binary.LittleEndian.PutUint64(w[:], x)
		copy(b[i:], w[:])
	}
}

// Template returns template number k (0..3) of the given seed and block size.
func Template(seed uint64, k int, block int) []byte {
	b := make([]byte, block)
	fillStream(b, seed*4+uint64(k)+1)
	return b
}

// TemplateIndex says which template chunk number k of a KindTemplate content uses.
func TemplateIndex(seed uint64, k int64) int {
	// 2 bits per position from a 64-bit word derived from the seed, period 32
	w := xorshift(seed | 1)
	return int((w >> (2 * uint(k%32))) & 3)
}

// Gen materialises n bytes of content.
func Gen(kind int, seed uint64, n int) []byte {
	return GenBlock(kind, seed, n, CS)
}

// GenBlock is Gen with an explicit template block size (used with small chunk sizes).
func GenBlock(kind int, seed uint64, n int, block int) []byte {
	b := make([]byte, n)
	switch kind {
	case KindStream:
		fillStream(b, seed)
	case KindTemplate:
		var t [4][]byte
		for off, k := 0, int64(0); off < n; off, k = off+block, k+1 {
			i := TemplateIndex(seed, k)
			if t[i] == nil {
				t[i] = Template(seed, i, block)
			}
			copy(b[off:], t[i])
		}
	case KindZero:
	case KindOnes:
		for i := range b {
			b[i] = 0xff
		}
	}
	return b
}

// Virtual is template content too large to materialise: chunk k is template
// TemplateIndex(seed,k); the last chunk may be a prefix (Tail bytes, 0 = full).
type Virtual struct {
	Seed   uint64
	Chunks int64
	Tail   int // length of the last chunk in bytes (1..CS)
	tmpl   [4][]byte
}

func NewVirtual(seed uint64, chunks int64, tail int) *Virtual {
	if tail <= 0 || tail > CS {
		tail = CS
	}
	v := &Virtual{Seed: seed, Chunks: chunks, Tail: tail}
	for i := range v.tmpl {
		v.tmpl[i] = Template(seed, i, CS)
	}
	return v
}

func (v *Virtual) Len() int64 { return (v.Chunks-1)*CS + int64(v.Tail) }

// Chunk returns the bytes of chunk k (not copied).
func (v *Virtual) Chunk(k int64) []byte {
	t := v.tmpl[TemplateIndex(v.Seed, k)]
	if k == v.Chunks-1 {
		return t[:v.Tail]
	}
	return t
}

// Slice materialises content[off:off+n] (clipped to the content length).
func (v *Virtual) Slice(off, n int64) []byte {
	if off >= v.Len() || n <= 0 {
		return nil
	}
	if off+n > v.Len() {
		n = v.Len() - off
	}
	out := make([]byte, 0, n)
	for n > 0 {
		k := off / CS
		c := v.Chunk(k)
		lo := off % CS
		hi := lo + n
		if hi > int64(len(c)) {
			hi = int64(len(c))
		}
		out = append(out, c[lo:hi]...)
		n -= hi - lo
		off += hi - lo
	}
	return out
}

// ---- upload ------------------------------------------------------------------

// ErrWriterContract is returned when pipeline.Write breaks the io.Writer
// contract (n != len(p) with a nil error). The repository's own feeder test and
// builder.FeedPipeline both treat n < len(p) as a failure.
var ErrWriterContract = errors.New("pipeline.Write returned n != len(p) without an error")

// WriteSegments writes data through p split as the sizes in writes (which must
// sum to len(data); zero-length writes allowed) and returns Sum().
func WriteSegments(p pipeline.Interface, data []byte, writes []int) ([]byte, error) {
	off := 0
	for i, w := range writes {
		seg := data[off : off+w]
		n, err := p.Write(seg)
		if err != nil {
			return nil, fmt.Errorf("write #%d (len %d at %d): %w", i, w, off, err)
		}
		if n != w {
			return nil, fmt.Errorf("write #%d (len %d at %d) returned n=%d: %w", i, w, off, n, ErrWriterContract)
		}
		off += w
	}
	if off != len(data) {
		return nil, fmt.Errorf("harness: writes sum to %d, data is %d", off, len(data))
	}
	return p.Sum()
}

// SegReader is an io.Reader that hands out data in the given segment sizes
// (each Read returns min(len(p), remaining of the current segment) bytes). With
// EOFWithData the final bytes are returned together with io.EOF, as http request
// bodies may do. Zero-length segments produce (0, nil) reads.
type SegReader struct {
	Data        []byte
	Segs        []int
	EOFWithData bool
	off, seg    int
	left        int
	started     bool
}

func (r *SegReader) Read(p []byte) (int, error) {
	for {
		if !r.started {
			r.started = true
			if len(r.Segs) > 0 {
				r.left = r.Segs[0]
			}
		}
		if r.seg >= len(r.Segs) {
			if r.off < len(r.Data) { // harness error guard: never lose bytes
				n := copy(p, r.Data[r.off:])
				r.off += n
				return n, nil
			}
			return 0, io.EOF
		}
		if r.left == 0 {
			zero := r.Segs[r.seg] == 0
			r.seg++
			if r.seg < len(r.Segs) {
				r.left = r.Segs[r.seg]
			}
			if zero {
				return 0, nil
			}
			continue
		}
		n := r.left
		if n > len(p) {
			n = len(p)
		}
		if n == 0 { // len(p) == 0
			return 0, nil
		}
		copy(p, r.Data[r.off:r.off+n])
		r.off += n
		r.left -= n
		if r.EOFWithData && r.off == len(r.Data) {
			return n, io.EOF
		}
		return n, nil
	}
}

// Upload stores data through the real upload pipeline
// (builder.NewPipelineBuilder, the constructor every API upload path uses).
// feed=false: direct Write calls of the given sizes followed by Sum;
// feed=true: builder.FeedPipeline over a SegReader with the same sizes.
func Upload(ctx context.Context, st storage.Putter, data []byte, writes []int, encrypt, feed, eofWithData bool) (ref boson.Address, err error) {
	err = Safe(func() error {
		p := builder.NewPipelineBuilder(ctx, st, storage.ModePutUpload, encrypt)
		if feed {
			a, e := builder.FeedPipeline(ctx, p, &SegReader{Data: data, Segs: writes, EOFWithData: eofWithData})
			if e != nil {
				return e
			}
			ref = boson.NewAddress(append([]byte(nil), a.Bytes()...))
			return nil
		}
		sum, e := WriteSegments(p, data, writes)
		if e != nil {
			return e
		}
		ref = boson.NewAddress(append([]byte(nil), sum...))
		return nil
	})
	return ref, err
}

// UploadVirtual streams a Virtual through the real pipeline with FeedPipeline-like
// chunk-size writes, shifted by `skew` bytes so that writes straddle chunk borders.
func UploadVirtual(ctx context.Context, st storage.Putter, v *Virtual, encrypt bool, skew int) (ref boson.Address, err error) {
	err = Safe(func() error {
		p := builder.NewPipelineBuilder(ctx, st, storage.ModePutUpload, encrypt)
		total := v.Len()
		var off int64
		first := true
		for off < total {
			n := int64(CS)
			if first && skew > 0 {
				n = int64(skew)
				first = false
			}
			if off+n > total {
				n = total - off
			}
			b := v.Slice(off, n)
			w, e := p.Write(b)
			if e != nil {
				return e
			}
			if w != len(b) {
				return ErrWriterContract
			}
			off += n
		}
		sum, e := p.Sum()
		if e != nil {
			return e
		}
		ref = boson.NewAddress(append([]byte(nil), sum...))
		return nil
	})
	return ref, err
}

// SmallPipeline builds the component pipeline with explicit parameters out of the
// exported constructors, wired exactly as builder.newPipeline wires them:
// feeder(chunk) -> bmt -> store -> hashtrie(chunk, branches, 32, short pipeline).
func SmallPipeline(ctx context.Context, st storage.Putter, chunk, branches int) pipeline.Interface {
	short := func() pipeline.ChainWriter {
		return bmt.NewBmtWriter(store.NewStoreWriter(ctx, st, storage.ModePutUpload, nil))
	}
	tw := hashtrie.NewHashTrieWriter(chunk, branches, boson.HashSize, short)
	lsw := store.NewStoreWriter(ctx, st, storage.ModePutUpload, tw)
	return feeder.NewChunkFeederWriter(chunk, bmt.NewBmtWriter(lsw))
}

// ---- joiner ------------------------------------------------------------------

// Open opens ref with the real joiner (ModeGetRequest, as the download handler does).
func Open(ctx context.Context, st storage.Getter, ref boson.Address) (j file.Joiner, size int64, err error) {
	err = Safe(func() error {
		var e error
		j, size, e = joiner.New(ctx, st, storage.ModeGetRequest, ref)
		return e
	})
	return
}

// ---- read oracle -------------------------------------------------------------

const (
	SentinelSpare = 0xA5 // pre-fill of buf[len:cap]
	SentinelBody  = 0x5A // pre-fill of buf[:len]
)

// NewBuf returns make([]byte, ln, ln+extra) with body and spare capacity pre-filled.
func NewBuf(ln, extra int) []byte {
	full := make([]byte, ln+extra)
	for i := range full {
		if i < ln {
			full[i] = SentinelBody
		} else {
			full[i] = SentinelSpare
		}
	}
	return full[:ln:ln+extra]
}

// Read-oracle verdicts (signature suffixes).
const (
	VOK          = ""
	VReportsMore = "reports-more-than-len"  // n > len(buf) or n < 0
	VWritesSpare = "writes-beyond-len"      // bytes in buf[len:cap] changed
	VEOFMissing  = "no-eof-at-or-past-end"  // off >= size but not (0, io.EOF)
	VCount       = "wrong-byte-count"       // n != min(len, size-off)
	VContent     = "wrong-content"          // returned bytes differ from the content
	VError       = "unexpected-error"       // non-nil error other than a legitimate io.EOF
)

// JudgeRead applies the reader contract of C07/C01 to the outcome (n, err) of a
// Read/ReadAt at model offset off into buf (created by NewBuf) of a file whose
// content is want(off, n) and length size.
//
//   - n <= len(buf); buf[len:cap] untouched;
//   - off >= size: n == 0 and err == io.EOF (a zero-length buffer may also get (0, nil));
//   - off <  size: n == min(len, size-off), bytes equal; err == nil, or io.EOF only when
//     the read ended exactly at the end of the file.
func JudgeRead(buf []byte, n int, err error, off, size int64, want func(off, n int64) []byte) (verdict, detail string) {
	ln := len(buf)
	full := buf[:cap(buf)]
	if n < 0 || n > ln {
		return VReportsMore, fmt.Sprintf("n=%d len=%d cap=%d off=%d size=%d err=%v", n, ln, cap(buf), off, size, err)
	}
	for i := ln; i < len(full); i++ {
		if full[i] != SentinelSpare {
			return VWritesSpare, fmt.Sprintf("buf[%d] (beyond len=%d, cap=%d) overwritten; n=%d off=%d size=%d", i, ln, cap(buf), n, off, size)
		}
	}
	if off >= size {
		if n != 0 {
			return VCount, fmt.Sprintf("n=%d at off=%d >= size=%d", n, off, size)
		}
		if err == io.EOF || (ln == 0 && err == nil) {
			return VOK, ""
		}
		if err == nil {
			return VEOFMissing, fmt.Sprintf("(0, nil) at off=%d >= size=%d with len=%d", off, size, ln)
		}
		return VError, fmt.Sprintf("err=%v at off=%d >= size=%d", err, off, size)
	}
	exp := int64(ln)
	if size-off < exp {
		exp = size - off
	}
	if err != nil && !(err == io.EOF && off+int64(n) == size) {
		return VError, fmt.Sprintf("err=%v n=%d len=%d off=%d size=%d", err, n, ln, off, size)
	}
	if int64(n) != exp {
		return VCount, fmt.Sprintf("n=%d want %d (len=%d off=%d size=%d err=%v)", n, exp, ln, off, size, err)
	}
	if w := want(off, exp); !bytes.Equal(buf[:n], w) {
		i := 0
		for i < n && buf[i] == w[i] {
			i++
		}
		return VContent, fmt.Sprintf("first difference at file offset %d (read off=%d len=%d size=%d): got %#x want %#x", off+int64(i), off, ln, size, buf[i], w[i])
	}
	return VOK, ""
}

// SliceOf returns a want-function over materialised content.
func SliceOf(data []byte) func(off, n int64) []byte {
	return func(off, n int64) []byte { return data[off : off+n] }
}

// ---- segmentation helpers ------------------------------------------------------

// Sum of ints.
func Sum(xs []int) int {
	s := 0
	for _, x := range xs {
		s += x
	}
	return s
}
