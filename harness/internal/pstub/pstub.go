// Package pstub holds the shared stream stubs used by the protocol-robustness
// checks (C37): a p2p.Stream over a byte slice (the "hostile peer" that has
// already sent everything it is going to send and then closed its write side)
// and a scripted p2p.Streamer that records every outgoing stream and answers
// with prepared bytes.
//
// Why not pkg/p2p/streamtest: its Recorder runs the handler in its own
// goroutine (a panic there kills the process instead of being attributable),
// and its NewRelayStream/NewConnChainRelayStream panic with "implement me".
package pstub

import (
	"context"
	"encoding/binary"
	"errors"
	"io"
	"sync"
	"time"

	"github.com/gauss-project/aurorafs/pkg/boson"
	"github.com/gauss-project/aurorafs/pkg/p2p"
	ma "github.com/multiformats/go-multiaddr"
)

// ByteStream is a p2p.Stream whose read side yields a fixed byte slice followed
// by io.EOF, and whose write side is recorded. It never blocks.
type ByteStream struct {
	mu      sync.Mutex
	in      []byte
	off     int
	out     []byte
	closed  bool
	reset   bool
	hdr     p2p.Headers
	maxRead int // when > 0, a single Read returns at most that many bytes
}

// NewByteStream returns a stream that will deliver in and then EOF.
func NewByteStream(in []byte) *ByteStream { return &ByteStream{in: in} }

// NewChoppedByteStream delivers in in pieces of at most n bytes per Read.
func NewChoppedByteStream(in []byte, n int) *ByteStream { return &ByteStream{in: in, maxRead: n} }

func (s *ByteStream) Read(p []byte) (int, error) {
	s.mu.Lock()
	defer s.mu.Unlock()
	if s.reset {
		return 0, errors.New("pstub: stream reset")
	}
	if s.off >= len(s.in) {
		return 0, io.EOF
	}
	n := len(p)
	if s.maxRead > 0 && n > s.maxRead {
		n = s.maxRead
	}
	n = copy(p[:n], s.in[s.off:])
	s.off += n
	return n, nil
}

func (s *ByteStream) Write(p []byte) (int, error) {
	s.mu.Lock()
	defer s.mu.Unlock()
	if s.reset || s.closed {
		return 0, errors.New("pstub: write on closed stream")
	}
	if len(s.out) < 4<<20 {
		s.out = append(s.out, p...)
	}
	return len(p), nil
}

func (s *ByteStream) Close() error     { s.mu.Lock(); s.closed = true; s.mu.Unlock(); return nil }
func (s *ByteStream) FullClose() error { return s.Close() }
func (s *ByteStream) Reset() error     { s.mu.Lock(); s.reset = true; s.mu.Unlock(); return nil }

func (s *ByteStream) Headers() p2p.Headers         { return s.hdr }
func (s *ByteStream) ResponseHeaders() p2p.Headers { return s.hdr }

// Written returns what the code under test wrote to the stream.
func (s *ByteStream) Written() []byte {
	s.mu.Lock()
	defer s.mu.Unlock()
	return append([]byte(nil), s.out...)
}

// Unread reports how many input bytes were not consumed.
func (s *ByteStream) Unread() int {
	s.mu.Lock()
	defer s.mu.Unlock()
	return len(s.in) - s.off
}

var _ p2p.Stream = (*ByteStream)(nil)

// Call is one recorded outgoing stream.
type Call struct {
	Kind     string // "stream" | "relay" | "connchain"
	Peer     boson.Address
	Protocol string
	Version  string
	Stream   string
	S        *ByteStream
}

// ScriptedStreamer implements p2p.Streamer (+ Pinger, Disconnecter). The k-th
// outgoing stream is answered with Replies[k] (the last reply, or nothing, is
// used once the script is exhausted). FailFrom >= 0 makes every NewStream call
// with index >= FailFrom return an error instead.
type ScriptedStreamer struct {
	mu       sync.Mutex
	Replies  [][]byte
	FailFrom int
	PingErr  error
	calls    []*Call
	MaxCalls int // hard cap (default 64): further calls fail, so forwarding loops stay bounded
}

// NewScriptedStreamer returns a streamer answering with the given replies.
func NewScriptedStreamer(replies ...[]byte) *ScriptedStreamer {
	return &ScriptedStreamer{Replies: replies, FailFrom: -1, MaxCalls: 64}
}

var ErrScripted = errors.New("pstub: scripted stream failure")

func (r *ScriptedStreamer) open(kind string, peer boson.Address, proto, ver, stream string) (p2p.Stream, error) {
	r.mu.Lock()
	defer r.mu.Unlock()
	k := len(r.calls)
	if (r.FailFrom >= 0 && k >= r.FailFrom) || (r.MaxCalls > 0 && k >= r.MaxCalls) {
		r.calls = append(r.calls, &Call{Kind: kind + "-failed", Peer: peer, Protocol: proto, Version: ver, Stream: stream})
		return nil, ErrScripted
	}
	var in []byte
	if k < len(r.Replies) {
		in = r.Replies[k]
	} else if len(r.Replies) > 0 {
		in = r.Replies[len(r.Replies)-1]
	}
	s := NewByteStream(in)
	r.calls = append(r.calls, &Call{Kind: kind, Peer: peer, Protocol: proto, Version: ver, Stream: stream, S: s})
	return s, nil
}

func (r *ScriptedStreamer) NewStream(_ context.Context, a boson.Address, _ p2p.Headers, proto, ver, stream string) (p2p.Stream, error) {
	return r.open("stream", a, proto, ver, stream)
}

func (r *ScriptedStreamer) NewRelayStream(_ context.Context, a boson.Address, _ p2p.Headers, proto, ver, stream string, _ bool) (p2p.Stream, error) {
	return r.open("relay", a, proto, ver, stream)
}

func (r *ScriptedStreamer) NewConnChainRelayStream(_ context.Context, a boson.Address, _ p2p.Headers, proto, ver, stream string) (p2p.Stream, error) {
	return r.open("connchain", a, proto, ver, stream)
}

// Reset forgets the recorded calls and installs a new script (used after a setup
// phase during which every stream was refused).
func (r *ScriptedStreamer) Reset(replies ...[]byte) {
	r.mu.Lock()
	defer r.mu.Unlock()
	r.calls = nil
	r.Replies = replies
	r.FailFrom = -1
}

// Calls returns a snapshot of the recorded outgoing streams.
func (r *ScriptedStreamer) Calls() []*Call {
	r.mu.Lock()
	defer r.mu.Unlock()
	return append([]*Call(nil), r.calls...)
}

// NumCalls returns the number of outgoing streams opened (or refused) so far.
func (r *ScriptedStreamer) NumCalls() int {
	r.mu.Lock()
	defer r.mu.Unlock()
	return len(r.calls)
}

// Ping implements p2p.Pinger: it fails with PingErr when that is set.
func (r *ScriptedStreamer) Ping(_ context.Context, _ ma.Multiaddr) (time.Duration, error) {
	r.mu.Lock()
	defer r.mu.Unlock()
	return 0, r.PingErr
}

var _ p2p.StreamerPinger = (*ScriptedStreamer)(nil)

// ---- framing helpers (length-delimited protobuf framing as used by pkg/p2p/protobuf) ----

// Frame prefixes payload with its uvarint length.
func Frame(payload []byte) []byte {
	var l [binary.MaxVarintLen64]byte
	n := binary.PutUvarint(l[:], uint64(len(payload)))
	return append(append([]byte(nil), l[:n]...), payload...)
}

// Frames concatenates the framed payloads.
func Frames(payloads ...[]byte) []byte {
	var out []byte
	for _, p := range payloads {
		out = append(out, Frame(p)...)
	}
	return out
}

// FrameWithLen prefixes payload with an arbitrary (possibly lying) declared length.
func FrameWithLen(declared uint64, payload []byte) []byte {
	var l [binary.MaxVarintLen64]byte
	n := binary.PutUvarint(l[:], declared)
	return append(append([]byte(nil), l[:n]...), payload...)
}

// SplitFrames parses as many complete well-formed frames (declared length <=
// max and fully present) as possible and returns their payloads and the rest.
func SplitFrames(in []byte, max int) (payloads [][]byte, rest []byte) {
	for len(in) > 0 {
		l, n := binary.Uvarint(in)
		if n <= 0 || l > uint64(max) || uint64(len(in)-n) < l {
			break
		}
		payloads = append(payloads, in[n:n+int(l)])
		in = in[n+int(l):]
	}
	return payloads, in
}
