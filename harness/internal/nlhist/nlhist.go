// Package nlhist generates and interprets node-level histories on a node-lite
// (see internal/nodelite): uploads, cached downloads from a source node through
// the calls retrieval makes, pin/unpin at HTTP and service level, reads, deletes,
// synchronous GC runs and restarts. Property packages (C12..C17) drive a World
// step by step and apply their own oracle after every step.
package nlhist

import (
	"bytes"
	"context"
	"fmt"
	"sort"

	"github.com/gauss-project/aurorafs/pkg/boson"
	"github.com/gauss-project/aurorafs/pkg/file/loadsave"
	"github.com/gauss-project/aurorafs/pkg/manifest"
	"github.com/gauss-project/aurorafs/pkg/storage"
	"pgregory.net/rapid"

	"verifharness/internal/nodelite"
)

// Op is one step of a history. Operands are small integers resolved against the live world.
type Op struct {
	K    string `json:"k"`              // upload fetch pin unpin read delete gc restart
	F    int    `json:"f"`              // file index (mod number of files)
	Arg  int    `json:"arg,omitempty"`  // fetch: bit mask over distinct data chunks (0 = all); gc: capacity
	Flag bool   `json:"flag,omitempty"` // upload: pin header; pin/unpin: through HTTP (true) or the pinning service (false)
}

// Case is a whole generated history.
type Case struct {
	Files []nodelite.FileSpec `json:"files"`
	Ops   []Op                `json:"ops"`
}

// GenOptions tunes the generator per property.
type GenOptions struct {
	MaxFiles, MaxOps int
	Kinds            []string // op kinds to draw from (repeat a kind to weight it)
	MaxBlocks        int      // max full blocks per file (default 3)
}

// Gen draws a case. Files and ops are drawn as rapid slices of custom generators so that the
// shrinker can delete whole elements.
func Gen(t *rapid.T, o GenOptions) Case {
	if o.MaxBlocks == 0 {
		o.MaxBlocks = 3
	}
	fileGen := rapid.Custom(func(t *rapid.T) nodelite.FileSpec {
		var s nodelite.FileSpec
		s.Tags = rapid.SliceOfN(rapid.IntRange(0, 2), 0, o.MaxBlocks).Draw(t, "tags")
		s.Tail = rapid.SampledFrom([]int{0, 0, 9, 4096}).Draw(t, "tail")
		if len(s.Tags) == 0 && s.Tail == 0 {
			s.Tail = 9
		}
		s.Salt = rapid.IntRange(0, 1).Draw(t, "salt")
		s.Dir = rapid.SampledFrom([]int{0, 0, 0, 1}).Draw(t, "dir")
		return s
	})
	opGen := rapid.Custom(func(t *rapid.T) Op {
		op := Op{K: rapid.SampledFrom(o.Kinds).Draw(t, "k"), F: rapid.IntRange(0, o.MaxFiles-1).Draw(t, "f")}
		switch op.K {
		case "upload", "pin", "unpin":
			op.Flag = rapid.Bool().Draw(t, "flag")
		case "fetch":
			op.Arg = rapid.SampledFrom([]int{0, 0, 0, 0, 1, 2, 3, 5, 6}).Draw(t, "mask")
		case "gc":
			op.Arg = rapid.SampledFrom([]int{1, 1, 2, 2, 3, 4, 6, 8}).Draw(t, "cap")
		}
		return op
	})
	var c Case
	c.Files = rapid.SliceOfN(fileGen, 2, o.MaxFiles).Draw(t, "files")
	c.Ops = rapid.SliceOfN(opGen, 1, o.MaxOps).Draw(t, "ops")
	return c
}

// File is the harness's knowledge about one file.
type File struct {
	Idx      int
	Name     string
	Content  []byte
	Ref      boson.Address // manifest reference (same on every node: plain uploads are deterministic)
	Entry    boson.Address // reference of the (first) entry's byte tree inside the manifest
	Parts    []Part        // all entries of the reference (one for a plain file, two for a directory)
	Data     []string      // data chunk addresses (hex) in file order, with repetitions
	Distinct []string      // distinct data chunks in first-occurrence order
	All      map[string]int // every chunk of the file (data, intermediate, manifest): addr -> multiplicity in traversal
	// state on the node under test
	Uploaded bool
	Known    bool            // node has a record of the file (uploaded or pyramid fetched)
	Fetched  map[string]bool // data chunks delivered by fetch
	Pinned   bool            // last successful pin-ish operation
}

// Part is one entry of a reference.
type Part struct {
	Path    string
	Content []byte
	Entry   boson.Address
}

func partsOf(i int, spec nodelite.FileSpec) []Part {
	if spec.Dir > 0 {
		return []Part{{Path: fmt.Sprintf("d%d/a.bin", i), Content: spec.Bytes()}, {Path: fmt.Sprintf("b%d.bin", i), Content: spec.SecondBytes()}}
	}
	return []Part{{Path: fmt.Sprintf("file%d.bin", i), Content: spec.Bytes()}}
}

// upload stores the reference on node n through the real upload handlers.
func (f *File) upload(n *nodelite.Node, pin bool) (boson.Address, error) {
	if len(f.Parts) == 1 {
		return n.UploadFile(f.Parts[0].Path, f.Parts[0].Content, false, pin)
	}
	var fs []nodelite.DirFile
	for _, p := range f.Parts {
		fs = append(fs, nodelite.DirFile{Path: p.Path, Content: p.Content})
	}
	return n.UploadDir(fs, "", false, pin)
}

// Complete reports whether all data chunks are on the node (as far as the harness delivered them).
func (f *File) Complete() bool {
	if f.Uploaded {
		return true
	}
	if !f.Known {
		return false
	}
	for _, d := range f.Distinct {
		if !f.Fetched[d] {
			return false
		}
	}
	return true
}

// World is a source node holding every file plus the node under test.
type World struct {
	Net   *nodelite.Net
	S, N  *nodelite.Node
	Files []*File
}

var worldSeq = 1000

// NewWorld uploads every file of the case to a fresh source node and creates an empty node under test.
func NewWorld(c Case) (*World, error) { return NewWorldCap(c, 0) }

// NewWorldCap is NewWorld with a real (small) cache capacity on the node under test, so that
// the store's own background collection worker runs.
func NewWorldCap(c Case, capacity uint64) (*World, error) {
	worldSeq += 2
	w := &World{Net: nodelite.NewNet()}
	var err error
	if w.S, err = w.Net.NewNode(nodelite.AddrN(worldSeq), nodelite.Options{}); err != nil {
		return nil, err
	}
	if w.N, err = w.Net.NewNode(nodelite.AddrN(worldSeq+1), nodelite.Options{Capacity: capacity}); err != nil {
		return nil, err
	}
	for i, spec := range c.Files {
		f := &File{Idx: i, Parts: partsOf(i, spec), Fetched: map[string]bool{}, All: map[string]int{}}
		f.Name, f.Content = f.Parts[0].Path, f.Parts[0].Content
		ref, err := f.upload(w.S, false)
		if err != nil {
			return nil, fmt.Errorf("source upload: %w", err)
		}
		f.Ref = ref
		data, _, err := w.S.Trav.GetChunkHashes(context.Background(), ref, nil)
		if err != nil {
			return nil, err
		}
		seen := map[string]bool{}
		for _, l := range data {
			for _, a := range l {
				h := boson.NewAddress(a).String()
				f.Data = append(f.Data, h)
				if !seen[h] {
					seen[h] = true
					f.Distinct = append(f.Distinct, h)
				}
			}
		}
		if err := w.S.Trav.Traverse(context.Background(), ref, func(a boson.Address) error { f.All[a.String()]++; return nil }); err != nil {
			return nil, err
		}
		ls := loadsave.NewReadonly(w.S.DB, storage.ModeGetLookup)
		m, err := manifest.NewDefaultManifestReference(ref, ls)
		if err != nil {
			return nil, err
		}
		for k := range f.Parts {
			e, err := m.Lookup(context.Background(), f.Parts[k].Path)
			if err != nil {
				return nil, fmt.Errorf("manifest lookup: %w", err)
			}
			f.Parts[k].Entry = e.Reference()
		}
		f.Entry = f.Parts[0].Entry
		w.Files = append(w.Files, f)
	}
	return w, nil
}

func (w *World) Close() { w.S.Close(); w.N.Close() }

// Result of applying one op.
type Result struct {
	Skipped bool   // precondition not met: nothing was executed
	Why     string // why skipped
	Err     error  // error returned by the node (not necessarily a violation)
	Code    int    // HTTP status when the op went through HTTP
	Body    []byte
	GC      uint64 // chunks collected by a gc op
	Puts    []nodelite.PutRecord // chunks written by an upload op
}

// Apply executes op on the node under test.
func (w *World) Apply(op Op) Result {
	f := w.Files[op.F%len(w.Files)]
	n := w.N
	switch op.K {
	case "upload":
		n.Rec.Start()
		ref, err := f.upload(n, op.Flag)
		puts := n.Rec.Stop()
		if err != nil {
			return Result{Err: err}
		}
		if !ref.Equal(f.Ref) {
			return Result{Err: fmt.Errorf("HARNESS: upload of identical content gave %s on node, %s on source", ref, f.Ref)}
		}
		f.Uploaded, f.Known = true, true
		if op.Flag {
			f.Pinned = true
		}
		return Result{Code: 201, Puts: puts}
	case "fetch":
		if f.Uploaded {
			return Result{Skipped: true, Why: "already uploaded locally"}
		}
		any := false
		for i, d := range f.Distinct {
			if op.Arg != 0 && op.Arg&(1<<uint(i%3)) == 0 {
				continue
			}
			if err := n.FetchChunkFrom(w.S, f.Ref, boson.MustParseHexAddress(d)); err != nil {
				return Result{Err: err}
			}
			f.Fetched[d] = true
			f.Known = true
			any = true
		}
		if !any {
			return Result{Skipped: true, Why: "mask selected nothing"}
		}
		return Result{}
	case "pin":
		if !f.Complete() {
			return Result{Skipped: true, Why: "file not complete locally"}
		}
		if op.Flag {
			code := n.PinHTTP(f.Ref)
			if code == 200 || code == 201 {
				f.Pinned = true
				return Result{Code: code}
			}
			return Result{Code: code, Err: fmt.Errorf("pin http status %d", code)}
		}
		if err := n.Pin.CreatePin(context.Background(), f.Ref, true); err != nil {
			return Result{Err: err}
		}
		f.Pinned = true
		return Result{}
	case "unpin":
		if !f.Complete() {
			return Result{Skipped: true, Why: "file not complete locally"}
		}
		if op.Flag {
			code := n.UnpinHTTP(f.Ref)
			if code == 200 {
				f.Pinned = false
				return Result{Code: code}
			}
			return Result{Code: code, Err: fmt.Errorf("unpin http status %d", code)}
		}
		err := n.Pin.DeletePin(context.Background(), f.Ref)
		if err == nil {
			f.Pinned = false
		}
		return Result{Err: err}
	case "read":
		if !f.Complete() {
			return Result{Skipped: true, Why: "file not complete locally"}
		}
		code, body := 200, []byte(nil)
		for _, p := range f.Parts {
			c, b := n.DownloadHTTP(f.Ref, p.Path)
			if c != 200 || !bytes.Equal(b, p.Content) {
				code, body = c, b
				if c == 200 {
					code = 599 // served, but with different bytes
				}
			}
		}
		return Result{Code: code, Body: body}
	case "delete":
		if !f.Known {
			return Result{Skipped: true, Why: "file unknown to node"}
		}
		code := n.DeleteHTTP(f.Ref)
		if code == 200 {
			f.Uploaded, f.Known, f.Pinned = false, false, false
			f.Fetched = map[string]bool{}
			return Result{Code: code}
		}
		return Result{Code: code, Err: fmt.Errorf("delete http status %d", code)}
	case "gc":
		n.DB.VerifWaitUpdateGC()
		c, err := n.GCRun(uint64(op.Arg))
		return Result{GC: c, Err: err}
	case "restart":
		n.DB.VerifWaitUpdateGC()
		return Result{Err: n.Restart()}
	}
	return Result{Skipped: true, Why: "unknown op"}
}

// ReadEntryLocal reads file f's content from the node's local store only.
func (w *World) ReadEntryLocal(f *File) ([]byte, error) { return w.N.ReadLocal(f.Entry) }

// CheckReadable reads f from the local store and compares with the content.
func (w *World) CheckReadable(f *File) error {
	for _, p := range f.Parts {
		b, err := w.N.ReadLocal(p.Entry)
		if err != nil {
			return fmt.Errorf("file %d (%s) entry %s unreadable from local store: %v", f.Idx, f.Ref, p.Path, err)
		}
		if !bytes.Equal(b, p.Content) {
			return fmt.Errorf("file %d (%s) entry %s reads back different bytes (%d vs %d)", f.Idx, f.Ref, p.Path, len(b), len(p.Content))
		}
	}
	return nil
}

// SortedKeys of a count map.
func SortedKeys(m map[string]int) []string {
	var o []string
	for k := range m {
		o = append(o, k)
	}
	sort.Strings(o)
	return o
}
