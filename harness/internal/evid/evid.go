// Package evid collects per-run evidence (case counts, distinct non-trivial
// cases, class histogram, samples) for one property check and carries the
// known-findings list into the harness. It never influences generation: all
// random choices stay inside rapid.
package evid

import (
	"encoding/json"
	"flag"
	"fmt"
	"hash/fnv"
	"os"
	"path/filepath"
	"sort"
	"strconv"
	"sync"
	"testing"
)

// Rec is the evidence recorder of one test binary run (one property).
type Rec struct {
	mu       sync.Mutex
	ID       string
	Rule     string
	evals    int
	nt       map[uint64]struct{}
	classes  map[string]int
	samples  []interface{}
	maxSamp  int
	excluded map[string]int
	known    map[string]int // signature -> times witnessed
	notes    []string
	exh      bool
}

var (
	global   *Rec
	globalMu sync.Mutex
)

// Get returns the process-wide recorder for property id.
func Get(id string) *Rec {
	globalMu.Lock()
	defer globalMu.Unlock()
	if global == nil {
		global = &Rec{ID: id, nt: map[uint64]struct{}{}, classes: map[string]int{}, maxSamp: 8,
			excluded: map[string]int{}, known: map[string]int{}}
	}
	return global
}

// SetRule records the generation / non-triviality rule text (first call wins, later calls append).
func (r *Rec) SetRule(s string) {
	r.mu.Lock()
	defer r.mu.Unlock()
	if r.Rule == "" {
		r.Rule = s
	} else if !contains(r.Rule, s) {
		r.Rule += " || " + s
	}
}

func contains(a, b string) bool {
	for i := 0; i+len(b) <= len(a); i++ {
		if a[i:i+len(b)] == b {
			return true
		}
	}
	return false
}

// Hash64 hashes a canonical encoding of a case.
func Hash64(parts ...interface{}) uint64 {
	h := fnv.New64a()
	for _, p := range parts {
		switch v := p.(type) {
		case []byte:
			h.Write(v)
		case string:
			h.Write([]byte(v))
		default:
			b, err := json.Marshal(v)
			if err != nil {
				fmt.Fprintf(h, "%#v", v)
			} else {
				h.Write(b)
			}
		}
		h.Write([]byte{0xfe})
	}
	return h.Sum64()
}

// Case records one executed case. key is the canonical encoding hash; nontrivial
// says whether the case satisfies the property's stated non-triviality rule.
func (r *Rec) Case(key uint64, nontrivial bool, classes ...string) {
	r.mu.Lock()
	defer r.mu.Unlock()
	r.evals++
	if nontrivial {
		r.nt[key] = struct{}{}
	}
	for _, c := range classes {
		r.classes[c]++
	}
}

// Class increments a class counter without counting a case.
func (r *Rec) Class(c string) {
	r.mu.Lock()
	r.classes[c]++
	r.mu.Unlock()
}

// ClassN adds n to a class counter.
func (r *Rec) ClassN(c string, n int) {
	r.mu.Lock()
	r.classes[c] += n
	r.mu.Unlock()
}

// Sample keeps up to maxSamp actual cases (the first few and then sparse later ones).
func (r *Rec) Sample(v interface{}) {
	r.mu.Lock()
	defer r.mu.Unlock()
	if len(r.samples) < r.maxSamp {
		r.samples = append(r.samples, v)
		return
	}
	// replace deterministically: keep a spread over the run
	if r.evals%97 == 0 {
		r.samples[(r.evals/97)%r.maxSamp] = v
	}
}

// Excluded counts a generated shape that was excluded by construction because of a known finding.
func (r *Rec) Excluded(sig string) {
	r.mu.Lock()
	r.excluded[sig]++
	r.mu.Unlock()
}

// Note adds a free-text note to the evidence.
func (r *Rec) Note(s string) {
	r.mu.Lock()
	r.notes = append(r.notes, s)
	r.mu.Unlock()
}

// Exhaustive marks that a finite sub-space was enumerated completely.
func (r *Rec) Exhaustive() { r.mu.Lock(); r.exh = true; r.mu.Unlock() }

type out struct {
	ID       string         `json:"property_id"`
	Rule     string         `json:"rule"`
	Evals    int            `json:"evaluations"`
	NT       []uint64       `json:"nontrivial_hashes"`
	Classes  map[string]int `json:"classes"`
	Samples  []interface{}  `json:"samples"`
	Excluded map[string]int `json:"excluded_known"`
	Known    map[string]int `json:"known_witnessed"`
	Notes    []string       `json:"notes,omitempty"`
	Exh      bool           `json:"exhaustive"`
}

// Flush writes the recorder to $VERIF_OUT (if set). Safe to call many times.
func (r *Rec) Flush() {
	path := os.Getenv("VERIF_OUT")
	if path == "" {
		return
	}
	r.mu.Lock()
	defer r.mu.Unlock()
	o := out{ID: r.ID, Rule: r.Rule, Evals: r.evals, Classes: r.classes, Samples: r.samples,
		Excluded: r.excluded, Known: r.known, Notes: r.notes, Exh: r.exh}
	for k := range r.nt {
		o.NT = append(o.NT, k)
	}
	sort.Slice(o.NT, func(i, j int) bool { return o.NT[i] < o.NT[j] })
	b, err := json.Marshal(o)
	if err != nil {
		// samples must be JSON-able; fall back to stringified samples
		var ss []interface{}
		for _, s := range r.samples {
			ss = append(ss, fmt.Sprintf("%+v", s))
		}
		o.Samples = ss
		b, _ = json.Marshal(o)
	}
	tmp := path + ".tmp"
	if err := os.WriteFile(tmp, b, 0o644); err == nil {
		os.Rename(tmp, path)
	}
}

// ---- tiers, scaling, seeds ------------------------------------------------

// Thorough reports whether the thorough tier was requested.
func Thorough() bool { return os.Getenv("VERIF_TIER") == "thorough" }

// Scale returns the case-count multiplier given by the driver (default 1).
func Scale() float64 {
	if s := os.Getenv("VERIF_SCALE"); s != "" {
		if f, err := strconv.ParseFloat(s, 64); err == nil && f > 0 {
			return f
		}
	}
	return 1
}

// N scales a base case count.
func N(base int) int {
	n := int(float64(base) * Scale())
	if n < 1 {
		n = 1
	}
	return n
}

// Checks sets rapid's number of checks for the next rapid.Check call(s).
func Checks(base int) {
	flag.Set("rapid.checks", strconv.Itoa(N(base)))
}

// Seed returns the driver-provided seed (never 0).
func Seed() uint64 {
	s, _ := strconv.ParseUint(os.Getenv("VERIF_SEED"), 10, 64)
	if s == 0 {
		s = 1
	}
	if sh := os.Getenv("VERIF_SHARD"); sh != "" {
		k, _ := strconv.ParseUint(sh, 10, 64)
		s = s*1000 + k
	}
	return s
}

// ---- known findings -------------------------------------------------------

type finding struct {
	Property  string `json:"property"`
	Signature string `json:"signature"`
	What      string `json:"what"`
	Status    string `json:"status"`
	Commit    string `json:"commit,omitempty"`
}

var (
	findingsOnce sync.Once
	findings     map[string]finding
)

func loadFindings() {
	findings = map[string]finding{}
	var paths []string
	if p := os.Getenv("VERIF_KNOWN"); p != "" {
		paths = append(paths, p)
	}
	if root := os.Getenv("VERIF_ROOT"); root != "" {
		more, _ := filepath.Glob(filepath.Join(root, "known_findings.d", "*.json"))
		sort.Strings(more)
		paths = append(paths, more...)
	}
	for _, p := range paths {
		b, err := os.ReadFile(p)
		if err != nil {
			continue
		}
		var doc struct {
			Findings []finding `json:"findings"`
		}
		if json.Unmarshal(b, &doc) != nil {
			continue
		}
		for _, f := range doc.Findings {
			if f.Status == "known" {
				findings[f.Signature] = f
			}
		}
	}
}

// Known reports whether signature sig is a listed, unrepaired known finding.
// Checks use it to exclude that exact shape by construction (and count it).
func Known(sig string) bool {
	findingsOnce.Do(loadFindings)
	_, ok := findings[sig]
	return ok
}

// Witness reports that the witness case of known finding sig still fails on this
// tree: it prints the KNOWN-FINDING line once per run.
func (r *Rec) Witness(sig string) {
	findingsOnce.Do(loadFindings)
	f := findings[sig]
	r.mu.Lock()
	first := r.known[sig] == 0
	r.known[sig]++
	r.mu.Unlock()
	if first {
		fmt.Printf("KNOWN-FINDING: property=%s %s [%s]\n", f.Property, f.What, sig)
	}
}

// ---- test glue --------------------------------------------------------------

// Finish registers the final flush on the outer *testing.T.
func Finish(t *testing.T, r *Rec) {
	t.Cleanup(r.Flush)
}

// Violation formats the single line the driver looks for. The test must still fail.
func Violation(id, sig, msg string) string {
	line := fmt.Sprintf("VERIF-VIOLATION property=%s sig=%s :: %s", id, sig, msg)
	// Report the first failures at once (before shrinking): if minimisation later runs into the
	// test timeout the driver still sees that a violation was found, and has the case.
	violMu.Lock()
	violN++
	n := violN
	violMu.Unlock()
	if n <= 2 {
		short := line
		if len(short) > 4000 {
			short = short[:4000] + "...(truncated)"
		}
		fmt.Fprintf(os.Stderr, "EARLY %s\n", short)
		if dir := os.Getenv("VERIF_REPLAY_OUT"); dir != "" {
			_ = os.WriteFile(filepath.Join(dir, fmt.Sprintf("early-violation-%d.txt", n)), []byte(line+"\n"), 0o644)
		}
	}
	return line
}

var (
	violMu sync.Mutex
	violN  int
)
