package kadx

import "fmt"

// MP is one connected peer as the depth specification sees it: its proximity bin
// (0..31) and whether it currently counts as reachable.
type MP struct {
	Bin   int
	Reach bool
}

// DepthFault is one violated clause of the neighbourhood-depth specification (C22).
type DepthFault struct {
	Clause string // "radius" | "watermark" | "nn-reachable" | "empty-bin" | "unsaturated"
	Bin    int    // offending bin for "empty-bin"/"unsaturated", else -1
	// UnreachableOnly: clause "unsaturated" failed at a bin that holds peers none of which is reachable.
	UnreachableOnly bool
	Msg             string
}

// Hist returns per-bin totals and per-bin reachable counts.
func Hist(peers []MP) (size, reach [32]int) {
	for _, p := range peers {
		size[p.Bin]++
		if p.Reach {
			reach[p.Bin]++
		}
	}
	return
}

// DepthSpec checks depth d against every clause of the statement of C22, each
// separately, for the connected set peers, storage radius and quick-saturation
// number quick. It returns all violated clauses (empty = consistent).
//
//	radius        d <= radius
//	watermark     at most three peers connected  =>  d == 0
//	nn-reachable  d > 0  =>  at least three reachable peers with bin >= d
//	empty-bin     d <= shallowest bin without any connected peer
//	unsaturated   every bin b < d holds >= quick reachable peers
func DepthSpec(peers []MP, radius, quick, d int) []DepthFault {
	var out []DepthFault
	size, reach := Hist(peers)
	if d > radius {
		out = append(out, DepthFault{Clause: "radius", Bin: -1, Msg: fmt.Sprintf("depth %d exceeds radius %d", d, radius)})
	}
	if len(peers) <= 3 && d != 0 {
		out = append(out, DepthFault{Clause: "watermark", Bin: -1, Msg: fmt.Sprintf("depth %d with only %d connected peers", d, len(peers))})
	}
	if d > 0 {
		n := 0
		for b := d; b < 32; b++ {
			n += reach[b]
		}
		if n < 3 {
			out = append(out, DepthFault{Clause: "nn-reachable", Bin: -1, Msg: fmt.Sprintf("depth %d leaves only %d reachable peers at or beyond it", d, n)})
		}
	}
	for b := 0; b < 32 && b < d; b++ {
		if size[b] == 0 {
			out = append(out, DepthFault{Clause: "empty-bin", Bin: b, Msg: fmt.Sprintf("depth %d exceeds the shallowest empty bin %d", d, b)})
			break
		}
	}
	for b := 0; b < 32 && b < d; b++ {
		if size[b] > 0 && reach[b] < quick {
			out = append(out, DepthFault{Clause: "unsaturated", Bin: b, UnreachableOnly: reach[b] == 0,
				Msg: fmt.Sprintf("depth %d but shallower bin %d holds %d reachable peers (of %d), quick saturation is %d", d, b, reach[b], size[b], quick)})
		}
	}
	return out
}

// MaxDepth returns the largest depth in 0..min(radius,31) that satisfies every clause
// of DepthSpec. With lenient = true a non-empty bin whose peers are all unreachable
// is treated as if it were saturated (the reading under which such bins are ignored
// by the saturation scan); with lenient = false the statement is read literally.
// MaxDepth(strict) <= MaxDepth(lenient).
func MaxDepth(peers []MP, radius, quick int, lenient bool) int {
	if len(peers) <= 3 {
		return 0
	}
	size, reach := Hist(peers)
	best := 0
	for d := 1; d <= 31 && d <= radius; d++ {
		b := d - 1 // bins < d-1 were validated by earlier iterations
		if size[b] == 0 {
			break
		}
		if reach[b] < quick && !(lenient && reach[b] == 0) {
			break
		}
		n := 0
		for x := d; x < 32; x++ {
			n += reach[x]
		}
		if n >= 3 {
			best = d
		}
		// n only shrinks as d grows, but keep scanning: best is monotone anyway
		if n < 3 {
			break
		}
	}
	return best
}
