// Package kadx builds the real kademlia.Kad for the topology checks (C22, C23, C24)
// the way pkg/topology/kademlia's own external tests do (newTestKademlia): in-memory
// metrics shed DB, mock discovery, mock p2p service, mock pingpong, address book over
// the mock state store. The Kad is never Start()ed: the checks drive
// Connected/Outbound/Disconnected/... directly, so the manage loop (dial-outs,
// pruning, pinging) is not running and every state change is caused by the harness.
//
// Differences from newTestKademlia, all deliberate:
//   - the discovery mock is switched to hive2 mode (production builds the Kad over
//     hive2, for which Kad.Announce is a no-op); this also keeps Announce from
//     spawning broadcast goroutines per connection;
//   - subscribe.NewSubPub() leaks one goroutine per instance, so a no-op SubPub is
//     used (PublishPeersChange still computes the full Snapshot);
//   - the p2p mock's Disconnect behaves like libp2p's: unknown peer ->
//     p2p.ErrPeerNotFound, known peer -> notifier.Disconnected is called and the
//     connection is forgotten. The set of p2p-level connections is kept by the
//     harness (SetLive).
package kadx

import (
	"context"
	"io"
	"sync"
	"time"

	"github.com/gauss-project/aurorafs/pkg/addressbook"
	"github.com/gauss-project/aurorafs/pkg/aurora"
	"github.com/gauss-project/aurorafs/pkg/boson"
	discmock "github.com/gauss-project/aurorafs/pkg/discovery/mock"
	"github.com/gauss-project/aurorafs/pkg/logging"
	"github.com/gauss-project/aurorafs/pkg/p2p"
	p2pmock "github.com/gauss-project/aurorafs/pkg/p2p/mock"
	ppmock "github.com/gauss-project/aurorafs/pkg/pingpong/mock"
	"github.com/gauss-project/aurorafs/pkg/shed"
	mockstate "github.com/gauss-project/aurorafs/pkg/statestore/mock"
	"github.com/gauss-project/aurorafs/pkg/subscribe"
	"github.com/gauss-project/aurorafs/pkg/topology/kademlia"
	ma "github.com/multiformats/go-multiaddr"
)

// NopSubPub is a subscribe.SubPub without subscribers.
type NopSubPub struct{}

func (NopSubPub) Subscribe(subscribe.INotifier, string, string, string) error { return nil }
func (NopSubPub) Publish(string, string, string, interface{}) error           { return nil }
func (NopSubPub) PublishArray(string, string, string, []interface{}) error    { return nil }

// Env is one real Kad with its collaborators.
type Env struct {
	Base boson.Address
	Kad  *kademlia.Kad
	AB   addressbook.Interface
	Disc *discmock.Discovery
	P2P  *p2pmock.Service

	db *sharedDB

	mu          sync.Mutex
	live        map[string]bool
	Disconnects []boson.Address // peers the Kad asked the p2p layer to disconnect (successful calls), in order
}

// FullNode / BootNode are the peer modes used by the checks.
func FullNode() aurora.Model { return aurora.NewModel().SetMode(aurora.FullNode) }
func BootNode() aurora.Model {
	return aurora.NewModel().SetMode(aurora.FullNode).SetMode(aurora.BootNode)
}

// sharedDB is one in-memory metrics DB used by the Kads of ONE case (never across
// cases). A Kad reads it once in New (empty) and writes it only in Close, i.e. after
// the case is over, so siblings do not influence each other.
type sharedDB struct {
	mu   sync.Mutex
	db   *shed.DB
	refs int
}

func (s *sharedDB) release() {
	s.mu.Lock()
	s.refs--
	last := s.refs == 0
	s.mu.Unlock()
	if last {
		_ = s.db.Close()
	}
}

// New builds a Kad over base. opts.NodeMode defaults to a full node.
func New(base boson.Address, opts kademlia.Options) (*Env, error) {
	// The driver's default 32 MiB write buffer is allocated (and zeroed) per open; the
	// metrics DB is written only by Kad.Close, so a small buffer is configured through
	// the driver's own option string.
	db, err := shed.NewDB("", &shed.Options{Driver: `leveldb:{"WriteBuffer":16384,"BlockCacheCapacity":16384}`})
	if err != nil {
		return nil, err
	}
	return build(base, opts, &sharedDB{db: db})
}

// Sibling builds a second, independent Kad (same base) for the same case on the
// metrics DB of e; see sharedDB.
func (e *Env) Sibling(opts kademlia.Options) (*Env, error) {
	return build(e.Base, opts, e.db)
}

func build(base boson.Address, opts kademlia.Options, sdb *sharedDB) (*Env, error) {
	db := sdb.db
	sdb.mu.Lock()
	sdb.refs++
	sdb.mu.Unlock()
	e := &Env{Base: base, db: sdb, live: map[string]bool{}}
	e.AB = addressbook.New(mockstate.NewStateStore())
	e.Disc = discmock.NewDiscovery()
	e.Disc.SetHive2(true)
	e.P2P = p2pmock.New(
		p2pmock.WithConnectFunc(func(context.Context, ma.Multiaddr) (*p2p.Peer, error) {
			return nil, p2p.ErrPeerNotFound // never dialled: the Kad is not started
		}),
		p2pmock.WithDisconnectFunc(func(overlay boson.Address, reason string) error {
			e.mu.Lock()
			ok := e.live[overlay.ByteString()]
			if ok {
				delete(e.live, overlay.ByteString())
				e.Disconnects = append(e.Disconnects, overlay)
			}
			e.mu.Unlock()
			if !ok {
				return p2p.ErrPeerNotFound
			}
			// libp2p.Service.Disconnect notifies the topology about every peer it drops.
			e.Kad.Disconnected(p2p.Peer{Address: overlay, Mode: FullNode()}, reason)
			return nil
		}),
	)
	pp := ppmock.New(func(context.Context, boson.Address, ...string) (time.Duration, error) { return 0, nil })
	if opts.NodeMode.Bv == nil {
		opts.NodeMode = FullNode()
	}
	k, err := kademlia.New(base, e.AB, e.Disc, e.P2P, pp, nil, nil, db, logging.New(io.Discard, 0), NopSubPub{}, opts)
	if err != nil {
		sdb.release()
		return nil, err
	}
	e.Kad = k
	return e, nil
}

// SetLive registers (or forgets) a p2p-level connection, i.e. what the libp2p peer
// registry would hold. Only live peers can be disconnected through p2p.Disconnect.
func (e *Env) SetLive(a boson.Address, on bool) {
	e.mu.Lock()
	if on {
		e.live[a.ByteString()] = true
	} else {
		delete(e.live, a.ByteString())
	}
	e.mu.Unlock()
}

// Live reports whether the harness-side p2p registry holds a.
func (e *Env) Live(a boson.Address) bool {
	e.mu.Lock()
	defer e.mu.Unlock()
	return e.live[a.ByteString()]
}

var closers sync.WaitGroup

// Release shuts the Kad down in the background. kademlia.New starts two blocker
// goroutines that only Kad.Close stops; Close of a never-started Kad waits 5 s for the
// manage loop, so it runs asynchronously and Drain waits for all of them.
func (e *Env) Release() {
	closers.Add(1)
	go func() {
		defer closers.Done()
		_ = e.Kad.Close()
		e.db.release()
	}()
}

// Drain waits for all background shutdowns (call at the end of a Test function).
func Drain() { closers.Wait() }

// ---- addresses ---------------------------------------------------------------

// Base returns a 32-byte base address derived from four seed bytes.
func Base(seed [4]byte) boson.Address {
	b := make([]byte, 32)
	for i := range b {
		b[i] = seed[i%4] + byte(i*37)
	}
	return boson.NewAddress(b)
}

// AddrAt returns the address that shares exactly firstDiff leading bits with base (so
// its proximity order is min(firstDiff, 31)) and whose following 16 bits are the
// base's XOR tag. Distinct (firstDiff, tag) pairs give distinct addresses.
// firstDiff must be < 200.
func AddrAt(base boson.Address, firstDiff int, tag uint16) boson.Address {
	b := append([]byte{}, base.Bytes()...)
	flip := func(bit int) { b[bit/8] ^= 0x80 >> uint(bit%8) }
	flip(firstDiff)
	for i := 0; i < 16; i++ {
		if tag&(1<<uint(15-i)) != 0 {
			flip(firstDiff + 1 + i)
		}
	}
	return boson.NewAddress(b)
}

// Bin is the proximity bin of an address built by AddrAt.
func Bin(firstDiff int) int {
	if firstDiff > 31 {
		return 31
	}
	return firstDiff
}

// Sat returns (quickSaturation, saturation, overSaturation) as kademlia.New derives
// them from Options.BinMaxPeers (> 0), restated from the documented rule: the bin
// maximum is raised to at least 5 and rounded up to a multiple of 5; saturation is
// 2/5 and quick saturation 1/5 of it.
func Sat(binMaxPeers int) (quick, sat, over int) {
	if binMaxPeers < 5 {
		binMaxPeers = 5
	}
	over = (binMaxPeers + 4) / 5 * 5
	return over / 5, over / 5 * 2, over
}
