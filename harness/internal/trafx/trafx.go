// Package trafx holds the stubs and independent helpers shared by the settlement
// checks C30 and C31: deterministic keys, an independent EIP-712 cheque digest and
// signature recovery (go-ethereum secp256k1, not the btcec path the repository
// uses), and in-memory stand-ins for the chain, cash-out, protocol, p2p and
// pub/sub dependencies of traffic.New. Nothing here re-implements logic under test.
package trafx

import (
	"bytes"
	"context"
	"crypto/ecdsa"
	"errors"
	"fmt"
	"io"
	"math/big"
	"sort"
	"sync"
	"time"

	"github.com/ethereum/go-ethereum/common"
	"github.com/ethereum/go-ethereum/core/types"
	ethcrypto "github.com/ethereum/go-ethereum/crypto"
	"github.com/gauss-project/aurorafs/pkg/boson"
	"github.com/gauss-project/aurorafs/pkg/crypto"
	"github.com/gauss-project/aurorafs/pkg/logging"
	"github.com/gauss-project/aurorafs/pkg/p2p"
	chequePkg "github.com/gauss-project/aurorafs/pkg/settlement/traffic/cheque"
	"github.com/gauss-project/aurorafs/pkg/subscribe"
	"golang.org/x/crypto/sha3"
)

// ChainID is the chain id every harness node uses.
const ChainID int64 = 7

// ---- deterministic identities -------------------------------------------------

// Key returns the i-th deterministic secp256k1 key (no randomness involved).
func Key(i int) *ecdsa.PrivateKey {
	b := make([]byte, 32)
	for k := range b {
		b[k] = byte(0x11*(i+1) + k)
	}
	b[0] = byte(i + 1) // keep it well below the group order
	return crypto.Secp256k1PrivateKeyFromBytes(b)
}

// Addr is the ethereum address of a key (computed with go-ethereum, not the repo).
func Addr(k *ecdsa.PrivateKey) common.Address {
	return ethcrypto.PubkeyToAddress(k.PublicKey)
}

// Overlay returns the i-th deterministic overlay address.
func Overlay(i int) boson.Address {
	b := bytes.Repeat([]byte{byte(0xa0 + i)}, 32)
	b[31] = byte(i)
	return boson.NewAddress(b)
}

// Logger is a silent logger.
func Logger() logging.Logger { return logging.New(io.Discard, 0) }

// ---- independent EIP-712 -------------------------------------------------------

func keccak(parts ...[]byte) []byte {
	h := sha3.NewLegacyKeccak256()
	for _, p := range parts {
		h.Write(p)
	}
	return h.Sum(nil)
}

func pad32(b []byte) []byte {
	out := make([]byte, 32)
	copy(out[32-len(b):], b)
	return out
}

var (
	domainTypeHash = keccak([]byte("EIP712Domain(string name,string version,uint256 chainId)"))
	chequeTypeHash = keccak([]byte("Cheque(address recipient,address beneficiary,uint256 cumulativePayout)"))
	two256         = new(big.Int).Lsh(big.NewInt(1), 256)
	// MaxU256 is 2^256-1.
	MaxU256 = new(big.Int).Sub(two256, big.NewInt(1))
)

// InU256 says whether v is encodable as a uint256.
func InU256(v *big.Int) bool { return v != nil && v.Sign() >= 0 && v.Cmp(two256) < 0 }

// ChequeDigest is the EIP-712 signing hash of a cheque (domain "Cheque"/"1.0"/chainID),
// written from the EIP-712 definition. ok=false when the amount is not a uint256.
func ChequeDigest(recipient, beneficiary common.Address, cum *big.Int, chainID int64) (digest []byte, ok bool) {
	if !InU256(cum) {
		return nil, false
	}
	dom := keccak(domainTypeHash, keccak([]byte("Cheque")), keccak([]byte("1.0")), pad32(big.NewInt(chainID).Bytes()))
	msg := keccak(chequeTypeHash, pad32(recipient.Bytes()), pad32(beneficiary.Bytes()), pad32(cum.Bytes()))
	return keccak([]byte{0x19, 0x01}, dom, msg), true
}

// Signature verdicts.
const (
	SigInvalid   = 0 // definitely not a signature of the stated issuer over this cheque
	SigValid     = 1 // r,s,v (v = 27|28) recovers the stated issuer
	SigAmbiguous = 2 // non-canonical recovery byte or non-uint256 amount: not judged
)

// JudgeSignature decides, independently of the repository's recovery code, whether
// sig is a signature of issuer over the cheque fields.
func JudgeSignature(sig []byte, recipient, issuer common.Address, cum *big.Int, chainID int64) int {
	if len(sig) != 65 {
		return SigInvalid
	}
	digest, ok := ChequeDigest(recipient, issuer, cum, chainID)
	if !ok {
		return SigAmbiguous
	}
	v := sig[64]
	if v != 27 && v != 28 {
		return SigAmbiguous
	}
	s := append([]byte{}, sig...)
	s[64] = v - 27
	pub, err := ethcrypto.Ecrecover(digest, s)
	if err != nil || len(pub) != 65 {
		return SigInvalid
	}
	var a common.Address
	copy(a[:], keccak(pub[1:])[12:])
	if a == issuer {
		return SigValid
	}
	return SigInvalid
}

// Malleate returns the other valid encoding (r, n-s, v^1) of an r,s,v signature.
func Malleate(sig []byte) []byte {
	if len(sig) != 65 {
		return append([]byte{}, sig...)
	}
	n := ethcrypto.S256().Params().N
	s := new(big.Int).SetBytes(sig[32:64])
	s.Sub(n, s)
	out := append([]byte{}, sig...)
	copy(out[32:64], pad32(s.Bytes()))
	switch out[64] {
	case 27:
		out[64] = 28
	case 28:
		out[64] = 27
	}
	return out
}

// SignCheque signs with the repository's own cheque signer (what an honest peer does).
// Signing is deterministic (RFC 6979), so results are memoised per (key, cheque, chain).
func SignCheque(k *ecdsa.PrivateKey, c *chequePkg.Cheque, chainID int64) ([]byte, error) {
	memo := fmt.Sprintf("%x|%x|%x|%s|%d", k.D.Bytes(), c.Recipient, c.Beneficiary, c.CumulativePayout, chainID)
	sigMu.Lock()
	if s, ok := sigMemo[memo]; ok {
		sigMu.Unlock()
		return append([]byte{}, s...), nil
	}
	sigMu.Unlock()
	s, err := chequePkg.NewChequeSigner(crypto.NewDefaultSigner(k), chainID).Sign(c)
	if err != nil {
		return nil, err
	}
	sigMu.Lock()
	if len(sigMemo) < 200000 {
		sigMemo[memo] = append([]byte{}, s...)
	}
	sigMu.Unlock()
	return s, nil
}

var (
	sigMu   sync.Mutex
	sigMemo = map[string][]byte{}
)

// ---- chain stub ------------------------------------------------------------------

// Chain is an in-memory chain.Traffic. Every getter returns a fresh *big.Int, as an
// ABI decoder does. Amount[from][to] is what `to` cashed from `from` on chain.
type Chain struct {
	mu      sync.Mutex
	balance map[common.Address]*big.Int
	amount  map[common.Address]map[common.Address]*big.Int
	calls   map[string]int
}

func NewChain() *Chain {
	return &Chain{balance: map[common.Address]*big.Int{}, amount: map[common.Address]map[common.Address]*big.Int{}, calls: map[string]int{}}
}

func (c *Chain) SetBalance(a common.Address, v *big.Int) {
	c.mu.Lock()
	c.balance[a] = new(big.Int).Set(v)
	c.mu.Unlock()
}

func (c *Chain) SetAmount(from, to common.Address, v *big.Int) {
	c.mu.Lock()
	if c.amount[from] == nil {
		c.amount[from] = map[common.Address]*big.Int{}
	}
	c.amount[from][to] = new(big.Int).Set(v)
	c.mu.Unlock()
}

// Calls returns how often method (optionally "method:addr") was called.
func (c *Chain) Calls(key string) int {
	c.mu.Lock()
	defer c.mu.Unlock()
	return c.calls[key]
}

func sortAddrs(a []common.Address) {
	sort.Slice(a, func(i, j int) bool { return bytes.Compare(a[i][:], a[j][:]) < 0 })
}

// TransferredAddress: addresses that cashed cheques issued by address... the contract
// lists every counterparty with a non-zero amount; both lists are derived from amount.
func (c *Chain) TransferredAddress(address common.Address) ([]common.Address, error) {
	c.mu.Lock()
	defer c.mu.Unlock()
	c.calls["TransferredAddress"]++
	var out []common.Address
	for from, m := range c.amount {
		if v := m[address]; v != nil && v.Sign() > 0 {
			out = append(out, from)
		}
	}
	sortAddrs(out)
	return out, nil
}

func (c *Chain) RetrievedAddress(address common.Address) ([]common.Address, error) {
	c.mu.Lock()
	defer c.mu.Unlock()
	c.calls["RetrievedAddress"]++
	var out []common.Address
	for to, v := range c.amount[address] {
		if v != nil && v.Sign() > 0 {
			out = append(out, to)
		}
	}
	sortAddrs(out)
	return out, nil
}

func (c *Chain) BalanceOf(account common.Address) (*big.Int, error) {
	c.mu.Lock()
	defer c.mu.Unlock()
	c.calls["BalanceOf"]++
	c.calls["BalanceOf:"+account.Hex()]++
	if v := c.balance[account]; v != nil {
		return new(big.Int).Set(v), nil
	}
	return big.NewInt(0), nil
}

func (c *Chain) RetrievedTotal(address common.Address) (*big.Int, error) {
	c.mu.Lock()
	defer c.mu.Unlock()
	t := big.NewInt(0)
	for _, v := range c.amount[address] {
		t.Add(t, v)
	}
	return t, nil
}

func (c *Chain) TransferredTotal(address common.Address) (*big.Int, error) {
	c.mu.Lock()
	defer c.mu.Unlock()
	t := big.NewInt(0)
	for _, m := range c.amount {
		if v := m[address]; v != nil {
			t.Add(t, v)
		}
	}
	return t, nil
}

// TransAmount(beneficiary, recipient): the amount `recipient` cashed from cheques
// issued by `beneficiary` (traffic.go calls TransAmount(chainAddress, peer) for "what
// the peer cashed from us").
func (c *Chain) TransAmount(beneficiary, recipient common.Address) (*big.Int, error) {
	c.mu.Lock()
	defer c.mu.Unlock()
	c.calls["TransAmount"]++
	if v := c.amount[beneficiary][recipient]; v != nil {
		return new(big.Int).Set(v), nil
	}
	return big.NewInt(0), nil
}

func (c *Chain) CashChequeBeneficiary(ctx context.Context, peer boson.Address, beneficiary, recipient common.Address, cumulativePayout *big.Int, signature []byte) (*types.Transaction, error) {
	return nil, errors.New("trafx: CashChequeBeneficiary not used (cash-out service is stubbed)")
}

// ---- cash-out stub ---------------------------------------------------------------

// Cashout is a cheque.CashoutService whose receipt outcome is set by the harness.
type Cashout struct {
	mu     sync.Mutex
	Status uint64
	Err    error
	n      uint64
}

func (c *Cashout) Set(status uint64, err error) {
	c.mu.Lock()
	c.Status, c.Err = status, err
	c.mu.Unlock()
}

func (c *Cashout) CashCheque(ctx context.Context, peer boson.Address, beneficiary common.Address, recipient common.Address) (common.Hash, error) {
	c.mu.Lock()
	defer c.mu.Unlock()
	c.n++
	return common.BigToHash(new(big.Int).SetUint64(c.n)), nil
}

func (c *Cashout) WaitForReceipt(ctx context.Context, ctxHash common.Hash) (uint64, error) {
	c.mu.Lock()
	defer c.mu.Unlock()
	return c.Status, c.Err
}

// ---- protocol stub ---------------------------------------------------------------

// Emit is one EmitCheque call, deep-copied at call time (the real protocol
// serialises the cheque immediately).
type Emit struct {
	Peer      boson.Address
	Cheque    chequePkg.SignedCheque
	Delivered bool
}

// Proto is a trafficprotocol.Interface that records cheques and fails on demand.
type Proto struct {
	mu      sync.Mutex
	FailNow bool
	Emits   []Emit
	// Gate, when set, is called at the start of every delivery (before anything is recorded): a
	// harness can park a delivery there, which is where the service holds the peer's lock
	Gate func(peer boson.Address)
}

var ErrDelivery = errors.New("trafx: delivery failed")

func (p *Proto) SetFail(f bool) { p.mu.Lock(); p.FailNow = f; p.mu.Unlock() }

func (p *Proto) EmitCheque(ctx context.Context, peer boson.Address, c *chequePkg.SignedCheque) error {
	p.mu.Lock()
	g := p.Gate
	p.mu.Unlock()
	if g != nil {
		g(peer)
	}
	p.mu.Lock()
	defer p.mu.Unlock()
	cp := chequePkg.SignedCheque{Cheque: chequePkg.Cheque{Recipient: c.Recipient, Beneficiary: c.Beneficiary}, Signature: append([]byte{}, c.Signature...)}
	if c.CumulativePayout != nil {
		cp.CumulativePayout = new(big.Int).Set(c.CumulativePayout)
	}
	p.Emits = append(p.Emits, Emit{Peer: peer, Cheque: cp, Delivered: !p.FailNow})
	if p.FailNow {
		return ErrDelivery
	}
	return nil
}

func (p *Proto) Len() int { p.mu.Lock(); defer p.mu.Unlock(); return len(p.Emits) }

func (p *Proto) Since(n int) []Emit {
	p.mu.Lock()
	defer p.mu.Unlock()
	return append([]Emit{}, p.Emits[n:]...)
}

// ---- p2p stub --------------------------------------------------------------------

// P2P satisfies p2p.Service; only Disconnect is ever called by the traffic service.
type P2P struct {
	p2p.Service
	mu           sync.Mutex
	Disconnected int
}

func (s *P2P) Disconnect(overlay boson.Address, reason string) error {
	s.mu.Lock()
	s.Disconnected++
	s.mu.Unlock()
	return nil
}

// ---- pub/sub stub ----------------------------------------------------------------

// SubPub counts publications per "namespace/kind" and lets the harness wait for one.
type SubPub struct {
	mu     sync.Mutex
	counts map[string]int
}

func NewSubPub() *SubPub { return &SubPub{counts: map[string]int{}} }

func (s *SubPub) Subscribe(iNotifier subscribe.INotifier, nameSpace string, kind string, param string) error {
	return nil
}

func (s *SubPub) Publish(nameSpace string, kind string, param string, message interface{}) error {
	s.mu.Lock()
	s.counts[nameSpace+"/"+kind]++
	s.mu.Unlock()
	return nil
}

func (s *SubPub) PublishArray(nameSpace string, kind string, field string, messageList []interface{}) error {
	return nil
}

func (s *SubPub) Count(key string) int {
	s.mu.Lock()
	defer s.mu.Unlock()
	return s.counts[key]
}

// WaitCount waits (observable condition, generous cap) until key was published at least n times.
func (s *SubPub) WaitCount(key string, n int, cap time.Duration) error {
	deadline := time.Now().Add(cap)
	for {
		if s.Count(key) >= n {
			return nil
		}
		if time.Now().After(deadline) {
			return fmt.Errorf("trafx: %s not published %d times within %v", key, n, cap)
		}
		time.Sleep(200 * time.Microsecond)
	}
}
