package trafx

import (
	"crypto/ecdsa"
	"errors"
	"math/big"
	"sync"

	"github.com/ethereum/go-ethereum/common"
	"github.com/gauss-project/aurorafs/pkg/boson"
	"github.com/gauss-project/aurorafs/pkg/crypto"
	"github.com/gauss-project/aurorafs/pkg/settlement/traffic"
	chequePkg "github.com/gauss-project/aurorafs/pkg/settlement/traffic/cheque"
	"github.com/gauss-project/aurorafs/pkg/statestore/leveldb"
	"github.com/gauss-project/aurorafs/pkg/storage"
)

// Node is one real traffic.Service wired exactly as pkg/node/chain.go:InitTraffic does
// (real cheque store with the real RecoverCheque, real address book, real cheque
// signer), with chain, cash-out, protocol, p2p and pub/sub replaced by the stubs above.
type Node struct {
	Key         *ecdsa.PrivateKey
	Me          common.Address
	Store       storage.StateStorer
	Chain       *Chain
	Cashout     *Cashout
	Proto       *Proto
	P2P         *P2P
	Sub         *SubPub
	ChequeStore chequePkg.ChequeStore
	Book        traffic.Addressbook
	Svc         *traffic.Service

	mu       sync.Mutex
	Notified []*big.Int
}

// NewStore returns a fresh in-memory leveldb state store.
func NewStore() (storage.StateStorer, error) { return leveldb.NewInMemoryStateStore(Logger()) }

type pooled struct {
	st   storage.StateStorer
	uses int
}

var (
	poolMu sync.Mutex
	pool   []*pooled
)

// maxUses bounds how often one store is recycled (deleted keys leave tombstones that
// slow down iteration).
const maxUses = 25

// AcquireStore returns an empty in-memory leveldb state store. Opening one costs tens
// of milliseconds (goleveldb zeroes its write buffer), so stores are recycled: release
// deletes every key except the schema marker and verifies the store is empty again, so
// no state is carried from one case to the next.
func AcquireStore() (storage.StateStorer, func(), error) {
	poolMu.Lock()
	var p *pooled
	if n := len(pool); n > 0 {
		p, pool = pool[n-1], pool[:n-1]
	}
	poolMu.Unlock()
	if p == nil {
		st, err := NewStore()
		if err != nil {
			return nil, nil, err
		}
		p = &pooled{st: st}
	}
	p.uses++
	release := func() {
		if p.uses >= maxUses || wipe(p.st) != nil {
			p.st.Close()
			return
		}
		poolMu.Lock()
		pool = append(pool, p)
		poolMu.Unlock()
	}
	return p.st, release, nil
}

func wipe(st storage.StateStorer) error {
	for round := 0; round < 2; round++ {
		var keys []string
		if err := st.Iterate("", func(k, v []byte) (bool, error) {
			if string(k) != "statestore_schema" {
				keys = append(keys, string(k))
			}
			return false, nil
		}); err != nil {
			return err
		}
		if len(keys) == 0 {
			return nil
		}
		if round == 1 {
			return errors.New("trafx: store not empty after wipe")
		}
		for _, k := range keys {
			if err := st.Delete(k); err != nil {
				return err
			}
		}
	}
	return nil
}

// WrapChequeStore, when set, wraps the real cheque store of every node built afterwards (used to
// own the schedule between the store's acceptance of a cheque and the service's bookkeeping).
var WrapChequeStore func(chequePkg.ChequeStore) chequePkg.ChequeStore

// NewNode builds the service on store/chain and runs Init, as node start-up does.
func NewNode(key *ecdsa.PrivateKey, store storage.StateStorer, ch *Chain) (*Node, error) {
	n := &Node{Key: key, Me: Addr(key), Store: store, Chain: ch, Cashout: &Cashout{Status: 1}, Proto: &Proto{}, P2P: &P2P{}, Sub: NewSubPub()}
	n.ChequeStore = chequePkg.NewChequeStore(store, n.Me, chequePkg.RecoverCheque, ChainID)
	if WrapChequeStore != nil {
		n.ChequeStore = WrapChequeStore(n.ChequeStore)
	}
	n.Book = traffic.NewAddressBook(store)
	signer := chequePkg.NewChequeSigner(crypto.NewDefaultSigner(key), ChainID)
	n.Svc = traffic.New(Logger(), n.Me, store, ch, n.ChequeStore, n.Cashout, n.P2P, n.Book, signer, n.Proto, ChainID, n.Sub)
	n.Svc.SetNotifyPaymentFunc(func(peer boson.Address, amount *big.Int) error {
		n.mu.Lock()
		n.Notified = append(n.Notified, new(big.Int).Set(amount))
		n.mu.Unlock()
		return nil
	})
	if err := n.Svc.Init(); err != nil {
		return nil, err
	}
	return n, nil
}

// Restart drops every in-memory object and builds a new service on the same store and chain.
func (n *Node) Restart() (*Node, error) { return NewNode(n.Key, n.Store, n.Chain) }
