// Package gatestore wraps a real state store so that a harness can decide when
// (and whether) an individual write reaches it.
//
// A harness arms a one-shot Ticket with a predicate over (operation, key). The
// first matching Put/Delete that arrives parks inside the wrapper: Arrived() is
// closed, and the write proceeds only when the harness calls Release (the real
// write is performed and its result returned) or Fail (the caller gets the
// error and nothing is written). Crash() models process death: every parked
// and every later write through this wrapper fails without touching the
// wrapped store, so a new wrapper over the same store sees exactly the writes
// that completed before. Reads are passed through. The wrapper holds no lock
// while a write is parked or executing, so it adds no ordering of its own.
package gatestore

import (
	"errors"
	"sync"

	"github.com/gauss-project/aurorafs/pkg/shed/driver"
	"github.com/gauss-project/aurorafs/pkg/storage"
)

// ErrCrashed is returned by writes that were parked at, or arrived after, Crash.
var ErrCrashed = errors.New("gatestore: process crashed before the write reached the store")

const (
	OpPut    = "put"
	OpDelete = "delete"
)

type Store struct {
	inner storage.StateStorer

	mu      sync.Mutex
	armed   []*Ticket
	parked  map[*Ticket]struct{}
	crashed bool
	puts    int
	deletes int
	log     []string // keys of completed writes, in completion order
}

// Ticket is a one-shot gate for one write.
type Ticket struct {
	s       *Store
	match   func(op, key string) bool
	arrived chan struct{}
	decide  chan error // nil: perform the write; non-nil: fail with it
	once    sync.Once
	key     string
	op      string
}

var _ storage.StateStorer = (*Store)(nil)

func New(inner storage.StateStorer) *Store {
	return &Store{inner: inner, parked: map[*Ticket]struct{}{}}
}

// Arm registers a one-shot ticket: the next write for which match returns true parks on it.
func (s *Store) Arm(match func(op, key string) bool) *Ticket {
	t := &Ticket{s: s, match: match, arrived: make(chan struct{}), decide: make(chan error, 1)}
	s.mu.Lock()
	s.armed = append(s.armed, t)
	s.mu.Unlock()
	return t
}

// ArmKey arms a ticket for the next Put of exactly this key.
func (s *Store) ArmKey(key string) *Ticket {
	return s.Arm(func(op, k string) bool { return op == OpPut && k == key })
}

// Disarm removes a ticket no write has arrived at (no-op otherwise).
func (s *Store) Disarm(t *Ticket) {
	s.mu.Lock()
	defer s.mu.Unlock()
	for i, a := range s.armed {
		if a == t {
			s.armed = append(s.armed[:i], s.armed[i+1:]...)
			return
		}
	}
}

// Arrived is closed once a matching write is parked on the ticket.
func (t *Ticket) Arrived() <-chan struct{} { return t.arrived }

// Key returns the key of the parked write ("" before arrival).
func (t *Ticket) Key() string {
	t.s.mu.Lock()
	defer t.s.mu.Unlock()
	return t.key
}

// Release lets the parked (or future) matching write proceed to the real store.
func (t *Ticket) Release() { t.once.Do(func() { t.decide <- nil }) }

// Fail makes the parked (or future) matching write return err without writing.
func (t *Ticket) Fail(err error) { t.once.Do(func() { t.decide <- err }) }

// Crash fails every parked write and every later write with ErrCrashed.
func (s *Store) Crash() {
	s.mu.Lock()
	s.crashed = true
	var ts []*Ticket
	for t := range s.parked {
		ts = append(ts, t)
	}
	s.armed = nil
	s.mu.Unlock()
	for _, t := range ts {
		t.Fail(ErrCrashed)
	}
}

// Counts returns the number of completed Puts and Deletes.
func (s *Store) Counts() (puts, deletes int) {
	s.mu.Lock()
	defer s.mu.Unlock()
	return s.puts, s.deletes
}

// Log returns the keys of completed writes in completion order.
func (s *Store) Log() []string {
	s.mu.Lock()
	defer s.mu.Unlock()
	return append([]string{}, s.log...)
}

// Parked returns the number of writes currently parked.
func (s *Store) Parked() int {
	s.mu.Lock()
	defer s.mu.Unlock()
	return len(s.parked)
}

func (s *Store) gate(op, key string) error {
	s.mu.Lock()
	if s.crashed {
		s.mu.Unlock()
		return ErrCrashed
	}
	var t *Ticket
	for i, a := range s.armed {
		if a.match(op, key) {
			t = a
			s.armed = append(s.armed[:i], s.armed[i+1:]...)
			break
		}
	}
	if t == nil {
		s.mu.Unlock()
		return nil
	}
	t.key, t.op = key, op
	s.parked[t] = struct{}{}
	s.mu.Unlock()
	close(t.arrived)
	err := <-t.decide
	s.mu.Lock()
	delete(s.parked, t)
	if err == nil && s.crashed {
		err = ErrCrashed
	}
	s.mu.Unlock()
	return err
}

func (s *Store) done(op, key string, err error) {
	if err != nil {
		return
	}
	s.mu.Lock()
	if op == OpPut {
		s.puts++
	} else {
		s.deletes++
	}
	s.log = append(s.log, op+" "+key)
	s.mu.Unlock()
}

func (s *Store) Put(key string, i interface{}) error {
	if err := s.gate(OpPut, key); err != nil {
		return err
	}
	err := s.inner.Put(key, i)
	s.done(OpPut, key, err)
	return err
}

func (s *Store) Delete(key string) error {
	if err := s.gate(OpDelete, key); err != nil {
		return err
	}
	err := s.inner.Delete(key)
	s.done(OpDelete, key, err)
	return err
}

func (s *Store) Get(key string, i interface{}) error { return s.inner.Get(key, i) }

func (s *Store) Iterate(prefix string, f storage.StateIterFunc) error {
	return s.inner.Iterate(prefix, f)
}

// DB exposes the wrapped store's DB (writes through it are not gated).
func (s *Store) DB() driver.BatchDB { return s.inner.DB() }

// Close does not close the wrapped store: a restarted session re-wraps it.
func (s *Store) Close() error { return nil }
