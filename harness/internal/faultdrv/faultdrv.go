// Package faultdrv is a shed storage driver ("veriffault") that wraps the real
// in-memory leveldb driver. The backing database survives Close so that a store
// can be "reopened", every driver write (Put, Delete, batch Commit) is counted,
// and when armed the k-th write and everything after it is dropped and fails:
// that is the crash model "the process stops at a storage write" (goleveldb batch
// atomicity is trusted).
package faultdrv

import (
	"errors"
	"fmt"
	"sync"

	"github.com/gauss-project/aurorafs/pkg/shed"
	"github.com/gauss-project/aurorafs/pkg/shed/driver"
	"github.com/gauss-project/aurorafs/pkg/shed/leveldb"
)

const Name = "veriffault"

var ErrCrashed = errors.New("faultdrv: crashed (write dropped)")

type Backing struct {
	mu      sync.Mutex
	opened  []*db // every wrapper handed out: cut loose from the real database on Destroy
	db      driver.BatchDB
	writes  int // driver writes since last ResetCount
	crashAt int // 0 = disarmed; k = the k-th write from now fails
	crashed bool
	// WriteLog records the kind of each counted write ("put","delete","commit(n)").
	WriteLog []string
}

var (
	regMu    sync.Mutex
	backings = map[string]*Backing{}
	seq      int
)

func init() { shed.Register(Name, drv{}) }

type drv struct{}

// New creates a fresh backing store and returns it with the DSN to pass as the path.
func New() (*Backing, string) {
	regMu.Lock()
	defer regMu.Unlock()
	seq++
	dsn := fmt.Sprintf("fault-%d", seq)
	raw, err := leveldb.Driver{}.Open("", "")
	if err != nil {
		panic(err)
	}
	b := &Backing{db: raw.(driver.BatchDB)}
	backings[dsn] = b
	return b, dsn
}

// Destroy closes the real database and forgets the backing.
func Destroy(dsn string) {
	regMu.Lock()
	b := backings[dsn]
	delete(backings, dsn)
	regMu.Unlock()
	if b != nil {
		b.db.Close()
		// The node's background goroutines (chunkinfo tickers and listeners have no way to stop) keep the
		// store object reachable for the life of the process, and with it goleveldb's in-memory storage,
		// i.e. every chunk of the case. Wrappers are therefore pointed at a dead stub once the case is over.
		b.mu.Lock()
		for _, w := range b.opened {
			w.BatchDB = dead{}
		}
		b.opened, b.db = nil, dead{}
		b.mu.Unlock()
	}
}

// dead answers every call with an error.
type dead struct{}

var errDead = errors.New("faultdrv: store destroyed")

func (dead) DefaultFieldKey() []byte                      { return nil }
func (dead) DefaultIndexKey() []byte                      { return nil }
func (dead) InitSchema() error                            { return errDead }
func (dead) GetSchemaSpec() (driver.SchemaSpec, error)    { return driver.SchemaSpec{}, errDead }
func (dead) CreateField(driver.FieldSpec) ([]byte, error) { return nil, errDead }
func (dead) CreateIndex(driver.IndexSpec) ([]byte, error) { return nil, errDead }
func (dead) RenameIndex(string, string) (bool, error)     { return false, errDead }
func (dead) Get(driver.Key) ([]byte, error)               { return nil, errDead }
func (dead) Has(driver.Key) (bool, error)                 { return false, errDead }
func (dead) Put(driver.Key, driver.Value) error           { return errDead }
func (dead) Delete(driver.Key) error                      { return errDead }
func (dead) Search(driver.Query) driver.Cursor            { return deadCursor{} }
func (dead) GetSnapshot() (driver.Snapshot, error)        { return nil, errDead }
func (dead) Close() error                                 { return nil }
func (dead) NewBatch() driver.Batching                    { return deadBatch{} }

type deadBatch struct{}

func (deadBatch) Put(driver.Key, driver.Value) error { return errDead }
func (deadBatch) Delete(driver.Key) error            { return errDead }
func (deadBatch) Commit() error                      { return errDead }

type deadCursor struct{}

func (deadCursor) Next() bool           { return false }
func (deadCursor) Prev() bool           { return false }
func (deadCursor) Last() bool           { return false }
func (deadCursor) Seek(driver.Key) bool { return false }
func (deadCursor) Key() []byte          { return nil }
func (deadCursor) Value() []byte        { return nil }
func (deadCursor) Valid() bool          { return false }
func (deadCursor) Error() error         { return errDead }
func (deadCursor) Close() error         { return nil }

func (drv) Open(dsn, options string) (driver.DB, error) {
	regMu.Lock()
	b := backings[dsn]
	regMu.Unlock()
	if b == nil {
		return nil, fmt.Errorf("faultdrv: unknown dsn %q", dsn)
	}
	w := &db{BatchDB: b.db, b: b}
	b.mu.Lock()
	b.opened = append(b.opened, w)
	b.mu.Unlock()
	return w, nil
}

// Arm makes the k-th write from now (k>=1) and all later ones fail and be dropped. Resets the counter.
func (b *Backing) Arm(k int) {
	b.mu.Lock()
	b.writes, b.crashAt, b.crashed = 0, k, false
	b.WriteLog = nil
	b.mu.Unlock()
}

// Disarm clears the crash state (used before reopening) and resets the counter.
func (b *Backing) Disarm() {
	b.mu.Lock()
	b.writes, b.crashAt, b.crashed = 0, 0, false
	b.WriteLog = nil
	b.mu.Unlock()
}

func (b *Backing) Writes() int {
	b.mu.Lock()
	defer b.mu.Unlock()
	return b.writes
}

func (b *Backing) Crashed() bool {
	b.mu.Lock()
	defer b.mu.Unlock()
	return b.crashed
}

func (b *Backing) Log() []string {
	b.mu.Lock()
	defer b.mu.Unlock()
	return append([]string(nil), b.WriteLog...)
}

// allow counts one write and reports whether it may proceed.
func (b *Backing) allow(kind string) bool {
	b.mu.Lock()
	defer b.mu.Unlock()
	if b.crashed {
		return false
	}
	b.writes++
	b.WriteLog = append(b.WriteLog, kind)
	if b.crashAt > 0 && b.writes >= b.crashAt {
		b.crashed = true
		return false
	}
	return true
}

type db struct {
	driver.BatchDB
	b *Backing
}

func (d *db) Put(k driver.Key, v driver.Value) error {
	if !d.b.allow("put") {
		return ErrCrashed
	}
	return d.BatchDB.Put(k, v)
}

func (d *db) Delete(k driver.Key) error {
	if !d.b.allow("delete") {
		return ErrCrashed
	}
	return d.BatchDB.Delete(k)
}

func (d *db) NewBatch() driver.Batching {
	return &batch{Batching: d.BatchDB.NewBatch(), b: d.b}
}

// Close leaves the backing database open so that it can be reopened.
func (d *db) Close() error { return nil }

type batch struct {
	driver.Batching
	b *Backing
	n int
}

func (t *batch) Put(k driver.Key, v driver.Value) error { t.n++; return t.Batching.Put(k, v) }
func (t *batch) Delete(k driver.Key) error              { t.n++; return t.Batching.Delete(k) }
func (t *batch) Commit() error {
	if t.n == 0 {
		return t.Batching.Commit()
	}
	if !t.b.allow(fmt.Sprintf("commit(%d)", t.n)) {
		return ErrCrashed
	}
	return t.Batching.Commit()
}
