package ref

// Reference for single-owner chunks (property C05), written from the format in the
// property statement: serialized SOC = id(32) || signature(65: r||s||v) || wrapped
// payload (span(8) || data); SOC address = keccak256(id || owner); the signature is
// over keccak256(id || wrapped chunk address) with the Ethereum signed-message
// prefix (crypto.Signer.Sign is documented as "signs data with ethereum prefix
// (eip191 type 0x45)"); owner = Ethereum address of the recovered public key.
//
// Public-key recovery uses go-ethereum's crypto package (libsecp256k1 through cgo
// when cgo is enabled), i.e. not the btcec code path the repository calls.

import (
	"bytes"
	"fmt"

	ethcrypto "github.com/ethereum/go-ethereum/crypto"
)

const (
	SOCIdSize  = 32
	SOCSigSize = 65
	SOCMinSize = SOCIdSize + SOCSigSize + SpanSize // 105
)

// EthSignedDigest is keccak256("\x19Ethereum Signed Message:\n" || decimal(len(data)) || data).
func EthSignedDigest(data []byte) []byte {
	return Keccak([]byte(fmt.Sprintf("\x19Ethereum Signed Message:\n%d", len(data))), data)
}

// SOCAddress is keccak256(id || owner).
func SOCAddress(id, owner []byte) []byte { return Keccak(id, owner) }

// SOCToSign is keccak256(id || address of the wrapped content-addressed chunk).
func SOCToSign(id, wrappedPayload []byte) []byte {
	return Keccak(id, CACAddr(wrappedPayload))
}

// SOCParse splits a serialized SOC. ok is false when it is shorter than id+signature+span.
func SOCParse(data []byte) (id, sig, wrapped []byte, ok bool) {
	if len(data) < SOCMinSize {
		return nil, nil, nil, false
	}
	return data[:SOCIdSize], data[SOCIdSize : SOCIdSize+SOCSigSize], data[SOCIdSize+SOCSigSize:], true
}

// EthAddressOfKey returns the 20-byte Ethereum address of a 32-byte secp256k1 private key (1 <= key < N).
func EthAddressOfKey(priv []byte) ([]byte, error) {
	k, err := ethcrypto.ToECDSA(priv)
	if err != nil {
		return nil, err
	}
	a := ethcrypto.PubkeyToAddress(k.PublicKey)
	return a.Bytes(), nil
}

// EthSign signs a 32-byte digest with go-ethereum and returns r||s||v with v in {27,28}.
func EthSign(priv, digest []byte) ([]byte, error) {
	k, err := ethcrypto.ToECDSA(priv)
	if err != nil {
		return nil, err
	}
	sig, err := ethcrypto.Sign(digest, k)
	if err != nil {
		return nil, err
	}
	sig[64] += 27
	return sig, nil
}

// RecoverEthAddress recovers the signer's Ethereum address from sig = r||s||v over digest.
// v is the compact-signature header byte 27..34 (27 + recovery id, +4 = "compressed key"
// flag, which does not change the recovered key). ok=false if nothing can be recovered.
func RecoverEthAddress(sig, digest []byte) (addr []byte, ok bool) {
	if len(sig) != SOCSigSize || len(digest) != 32 {
		return nil, false
	}
	v := sig[64]
	if v < 27 || v > 34 {
		return nil, false
	}
	raw := make([]byte, 65)
	copy(raw, sig[:64])
	raw[64] = (v - 27) & 3
	pub, err := ethcrypto.Ecrecover(digest, raw)
	if err != nil || len(pub) != 65 {
		return nil, false
	}
	return Keccak(pub[1:])[12:], true
}

// SOCRecoverOwner recovers the owner committed to by the signature of a parsed SOC.
func SOCRecoverOwner(id, sig, wrapped []byte) ([]byte, bool) {
	if len(wrapped) < SpanSize {
		return nil, false
	}
	return RecoverEthAddress(sig, EthSignedDigest(SOCToSign(id, wrapped)))
}

// SOCBinds is the necessary condition of the property statement: the signature over
// keccak256(id || wrapped address) recovers an owner O with addr == keccak256(id || O).
// (No upper bound on the wrapped payload: over-long data is hashed truncated to the
// BMT capacity. Use SOCValid for the full predicate.)
func SOCBinds(addr, data []byte) bool {
	id, sig, wrapped, ok := SOCParse(data)
	if !ok {
		return false
	}
	owner, ok := SOCRecoverOwner(id, sig, wrapped)
	if !ok {
		return false
	}
	return bytes.Equal(addr, SOCAddress(id, owner))
}

// SOCValid: SOCBinds and the wrapped payload is a well-formed content-addressed payload (8..CS+8 bytes).
func SOCValid(addr, data []byte) bool {
	if len(data) > SOCIdSize+SOCSigSize+ChunkSize+SpanSize {
		return false
	}
	return SOCBinds(addr, data)
}
