// Package ref holds independent reference implementations written from the
// format definitions in the property statements. The only primitive shared with
// the code under test is keccak256 itself (golang.org/x/crypto/sha3).
package ref

import (
	"bytes"
	"encoding/binary"
	"math/big"
	"sort"

	"golang.org/x/crypto/sha3"
)

const (
	SectionSize = 32
	BmtBranches = 8192
	ChunkSize   = SectionSize * BmtBranches // 262144
	SpanSize    = 8
)

func Keccak(parts ...[]byte) []byte {
	h := sha3.NewLegacyKeccak256()
	for _, p := range parts {
		h.Write(p)
	}
	return h.Sum(nil)
}

// zeroRoots[k] is the merkle root of 2^k zero segments (k=0: one 32-byte zero segment).
var zeroRoots [][]byte

func init() {
	zeroRoots = make([][]byte, 14)
	zeroRoots[0] = make([]byte, 32)
	for k := 1; k < len(zeroRoots); k++ {
		zeroRoots[k] = Keccak(zeroRoots[k-1], zeroRoots[k-1])
	}
}

// merkle computes the root over 2^k segments starting at data (data may be shorter: implicit zero padding).
func merkle(data []byte, k int) []byte {
	if len(data) == 0 {
		return zeroRoots[k]
	}
	if k == 0 {
		seg := make([]byte, 32)
		copy(seg, data)
		return seg
	}
	half := (1 << uint(k-1)) * SectionSize
	var l, r []byte
	if len(data) <= half {
		l = merkle(data, k-1)
		r = zeroRoots[k-1]
	} else {
		l = merkle(data[:half], k-1)
		r = merkle(data[half:], k-1)
	}
	return Keccak(l, r)
}

// BMTRoot is the binary Merkle root over the data zero-padded to `segments` 32-byte segments (a power of two).
func BMTRoot(data []byte, segments int) []byte {
	k := 0
	for (1 << uint(k)) < segments {
		k++
	}
	if len(data) > segments*SectionSize {
		data = data[:segments*SectionSize]
	}
	return merkle(data, k)
}

// BMT returns keccak256(span || root(zero-padded data)) for the full-size (8192 segment) tree.
func BMT(span []byte, data []byte) []byte {
	return Keccak(span, BMTRoot(data, BmtBranches))
}

// BMTN is BMT for a tree with the given number of segments.
func BMTN(span []byte, data []byte, segments int) []byte {
	return Keccak(span, BMTRoot(data, segments))
}

func Span(n uint64) []byte {
	b := make([]byte, 8)
	binary.LittleEndian.PutUint64(b, n)
	return b
}

// CACAddr: address of the content-addressed chunk with payload = span||data.
func CACAddr(payload []byte) []byte {
	return BMT(payload[:8], payload[8:])
}

// CACValid is the validity predicate of the property statement.
func CACValid(addr, payload []byte) bool {
	if len(payload) < SpanSize || len(payload) > ChunkSize+SpanSize {
		return false
	}
	return bytes.Equal(addr, CACAddr(payload))
}

// Chunk of a reference tree.
type Chunk struct {
	Addr    []byte
	Payload []byte // span || data
	Level   int    // 0 = leaf
}

// Tree is the result of RefTreeHash.
type Tree struct {
	Root   []byte
	Chunks map[string]*Chunk // by string(addr)
	Order  []*Chunk
	Levels int
	// LeafAddrs in file order (with repetitions).
	LeafAddrs [][]byte
}

// TreeHash computes the Aurora tree hash with the given parameters: leaves of up
// to chunkSize bytes hashed with a BMT of chunkSize/32 segments under an 8-byte LE
// span; intermediate chunks hold up to `branches` 32-byte references with the
// subtree length as span; a lone reference is carried up unchanged.
func TreeHash(data []byte, chunkSize, branches int) *Tree {
	t := &Tree{Chunks: map[string]*Chunk{}}
	segs := chunkSize / SectionSize
	type node struct {
		ref  []byte
		span uint64
	}
	add := func(span uint64, body []byte, level int) node {
		sp := Span(span)
		addr := BMTN(sp, body, segs)
		c := &Chunk{Addr: addr, Payload: append(append([]byte{}, sp...), body...), Level: level}
		if _, ok := t.Chunks[string(addr)]; !ok {
			t.Chunks[string(addr)] = c
		}
		t.Order = append(t.Order, c)
		return node{addr, span}
	}
	var level []node
	if len(data) == 0 {
		n := add(0, nil, 0)
		t.Root = n.ref
		t.Levels = 1
		t.LeafAddrs = [][]byte{n.ref}
		return t
	}
	for off := 0; off < len(data); off += chunkSize {
		end := off + chunkSize
		if end > len(data) {
			end = len(data)
		}
		n := add(uint64(end-off), data[off:end], 0)
		level = append(level, n)
		t.LeafAddrs = append(t.LeafAddrs, n.ref)
	}
	lv := 1
	t.Levels = 1
	for len(level) > 1 {
		var next []node
		for i := 0; i < len(level); i += branches {
			j := i + branches
			if j > len(level) {
				j = len(level)
			}
			if j-i == 1 {
				next = append(next, level[i]) // lone reference carried up unchanged
				continue
			}
			var body []byte
			var span uint64
			for _, n := range level[i:j] {
				body = append(body, n.ref...)
				span += n.span
			}
			next = append(next, add(span, body, lv))
		}
		level = next
		lv++
		t.Levels = lv
	}
	t.Root = level[0].ref
	return t
}

// ---- XOR metric -------------------------------------------------------------

// LeadingEqualBits counts the leading equal bits of a and b over min(len) bytes.
func LeadingEqualBits(a, b []byte) int {
	n := len(a)
	if len(b) < n {
		n = len(b)
	}
	for i := 0; i < n; i++ {
		x := a[i] ^ b[i]
		if x != 0 {
			k := 0
			for x&0x80 == 0 {
				x <<= 1
				k++
			}
			return i*8 + k
		}
	}
	return n * 8
}

// XorCmp returns -1 if x is farther from a than y, 1 if closer, 0 if equal (the
// sign convention of boson.DistanceCmp: 1 means x is closer).
func XorCmp(a, x, y []byte) int {
	dx := new(big.Int).SetBytes(xor(a, x))
	dy := new(big.Int).SetBytes(xor(a, y))
	switch dx.Cmp(dy) {
	case -1:
		return 1
	case 1:
		return -1
	}
	return 0
}

func XorDist(a, x []byte) *big.Int { return new(big.Int).SetBytes(xor(a, x)) }

func xor(a, b []byte) []byte {
	c := make([]byte, len(a))
	for i := range a {
		c[i] = a[i] ^ b[i]
	}
	return c
}

// ---- sorted map ---------------------------------------------------------------

// SortedMap is a byte-ordered map used as the model for key-value stores.
type SortedMap struct {
	m map[string][]byte
}

func NewSortedMap() *SortedMap { return &SortedMap{m: map[string][]byte{}} }

func (s *SortedMap) Put(k, v []byte)        { s.m[string(k)] = append([]byte{}, v...) }
func (s *SortedMap) Delete(k []byte)        { delete(s.m, string(k)) }
func (s *SortedMap) Len() int               { return len(s.m) }
func (s *SortedMap) Get(k []byte) ([]byte, bool) {
	v, ok := s.m[string(k)]
	return v, ok
}
func (s *SortedMap) Clone() *SortedMap {
	c := NewSortedMap()
	for k, v := range s.m {
		c.m[k] = v
	}
	return c
}

// Keys returns all keys in ascending byte order.
func (s *SortedMap) Keys() [][]byte {
	ks := make([]string, 0, len(s.m))
	for k := range s.m {
		ks = append(ks, k)
	}
	sort.Strings(ks)
	out := make([][]byte, len(ks))
	for i, k := range ks {
		out[i] = []byte(k)
	}
	return out
}

// KeysWithPrefix in ascending order.
func (s *SortedMap) KeysWithPrefix(p []byte) [][]byte {
	var out [][]byte
	for _, k := range s.Keys() {
		if bytes.HasPrefix(k, p) {
			out = append(out, k)
		}
	}
	return out
}
