package ref

// Leaf is a data-chunk reference with the number of bytes it covers.
type Leaf struct {
	Ref  []byte
	Span uint64
}

// TreeFromLeaves builds the intermediate levels of the Aurora tree over the
// given leaf references: groups of up to `branches` consecutive references form
// an intermediate chunk (payload = 8-byte LE summed span || references, address =
// BMT over bmtSegments 32-byte segments); a group consisting of a single
// reference is carried up unchanged. It returns the root reference, the
// intermediate chunks in creation order and the number of levels (1 = the root
// is a leaf).
func TreeFromLeaves(leaves []Leaf, branches, bmtSegments int) (root []byte, inter []*Chunk, levels int) {
	level := append([]Leaf(nil), leaves...)
	levels = 1
	for len(level) > 1 {
		var next []Leaf
		for i := 0; i < len(level); i += branches {
			j := i + branches
			if j > len(level) {
				j = len(level)
			}
			if j-i == 1 {
				next = append(next, level[i])
				continue
			}
			var body []byte
			var span uint64
			for _, n := range level[i:j] {
				body = append(body, n.Ref...)
				span += n.Span
			}
			sp := Span(span)
			addr := BMTN(sp, body, bmtSegments)
			inter = append(inter, &Chunk{Addr: addr, Payload: append(append([]byte{}, sp...), body...), Level: levels})
			next = append(next, Leaf{addr, span})
		}
		level = next
		levels++
	}
	return level[0].Ref, inter, levels
}

// TreeHashN is TreeHash with the BMT width decoupled from the chunk size: leaves
// of up to chunkSize bytes and intermediate chunks of up to `branches` 32-byte
// references are all hashed with a BMT over bmtSegments 32-byte segments (zero
// padded) under an 8-byte little-endian span; a lone reference is carried up
// unchanged. TreeHash(data, c, b) == TreeHashN(data, c, b, c/32).
//
// It exists because the repository's component pipeline always hashes with the
// pooled full-width (8192 segment) BMT hasher, whatever chunk size the feeder
// and hash trie were constructed with.
func TreeHashN(data []byte, chunkSize, branches, bmtSegments int) *Tree {
	t := &Tree{Chunks: map[string]*Chunk{}}
	add := func(c *Chunk) {
		if _, ok := t.Chunks[string(c.Addr)]; !ok {
			t.Chunks[string(c.Addr)] = c
		}
		t.Order = append(t.Order, c)
	}
	var leaves []Leaf
	for off := 0; off < len(data) || off == 0; off += chunkSize {
		end := off + chunkSize
		if end > len(data) {
			end = len(data)
		}
		sp := Span(uint64(end - off))
		addr := BMTN(sp, data[off:end], bmtSegments)
		add(&Chunk{Addr: addr, Payload: append(append([]byte{}, sp...), data[off:end]...), Level: 0})
		leaves = append(leaves, Leaf{addr, uint64(end - off)})
		t.LeafAddrs = append(t.LeafAddrs, addr)
	}
	root, inter, levels := TreeFromLeaves(leaves, branches, bmtSegments)
	for _, c := range inter {
		add(c)
	}
	t.Root = root
	t.Levels = levels
	return t
}
