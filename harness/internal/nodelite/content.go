package nodelite

import (
	"encoding/binary"

	"github.com/gauss-project/aurorafs/pkg/boson"
	"golang.org/x/crypto/sha3"
)

// FileSpec describes file content as a list of chunk templates plus a short tail,
// so that files share chunks, repeat chunks and are chunk-aligned prefixes of
// each other by construction while staying small in chunk count.
type FileSpec struct {
	Tags []int `json:"tags"` // one full 256 KiB block per tag (same tag = identical block)
	Tail int   `json:"tail"` // extra bytes after the blocks (0..ChunkSize-1)
	Salt int   `json:"salt"` // varies the tail content
	// Dir > 0: the reference is a directory (tar upload) with two entries: "d/a.bin" holding this
	// content and "b.bin" holding SecondBytes(), which repeats the first block (sharing inside one reference)
	Dir int `json:"dir,omitempty"`
}

// SecondBytes is the content of the second entry of a directory reference.
func (f FileSpec) SecondBytes() []byte {
	var out []byte
	if len(f.Tags) > 0 {
		out = append(out, Block(f.Tags[0])...)
	}
	for i := 0; i < 11; i++ {
		out = append(out, byte(i*5+f.Salt*3+77))
	}
	return out
}

var blockCache = map[int][]byte{}

// Block returns the 256 KiB block of a tag.
func Block(tag int) []byte {
	if b, ok := blockCache[tag]; ok {
		return b
	}
	b := make([]byte, boson.ChunkSize)
	var seed [8]byte
	binary.LittleEndian.PutUint64(seed[:], uint64(tag)*0x9e3779b97f4a7c15+1)
	h := sha3.NewLegacyKeccak256()
	h.Write(seed[:])
	s := h.Sum(nil)
	for i := range b {
		b[i] = s[i%32] ^ byte(i>>5) ^ byte(i>>13)
	}
	blockCache[tag] = b
	return b
}

// Bytes materialises the content.
func (f FileSpec) Bytes() []byte {
	out := make([]byte, 0, len(f.Tags)*boson.ChunkSize+f.Tail)
	for _, t := range f.Tags {
		out = append(out, Block(t)...)
	}
	for i := 0; i < f.Tail; i++ {
		out = append(out, byte(i*7+f.Salt*13+i>>8))
	}
	return out
}

// AddrN derives a deterministic 32-byte address from an integer.
func AddrN(n int) boson.Address {
	var seed [8]byte
	binary.LittleEndian.PutUint64(seed[:], uint64(n))
	h := sha3.NewLegacyKeccak256()
	h.Write([]byte("nodelite-addr"))
	h.Write(seed[:])
	return boson.NewAddress(h.Sum(nil))
}
