package nodelite

import (
	"context"
	"errors"
	"io"
	"sync"

	"github.com/gauss-project/aurorafs/pkg/aurora"
	"github.com/gauss-project/aurorafs/pkg/boson"
	cipb "github.com/gauss-project/aurorafs/pkg/chunkinfo/pb"
	"github.com/gauss-project/aurorafs/pkg/p2p/protobuf"
	"github.com/gauss-project/aurorafs/pkg/p2p"
)

// half is one direction of an in-memory stream: an unbounded byte queue whose
// reader sees EOF only after the writer closed AND everything was consumed
// (p2p/streamtest reports EOF as soon as the writer closed, which truncates
// multi-message replies).
type half struct {
	mu     sync.Mutex
	cond   *sync.Cond
	buf    []byte
	closed bool
	reset  bool
}

func newHalf() *half { h := &half{}; h.cond = sync.NewCond(&h.mu); return h }

func (h *half) Read(p []byte) (int, error) {
	h.mu.Lock()
	defer h.mu.Unlock()
	for len(h.buf) == 0 && !h.closed && !h.reset {
		h.cond.Wait()
	}
	if h.reset {
		return 0, errors.New("stream reset")
	}
	if len(h.buf) == 0 {
		return 0, io.EOF
	}
	n := copy(p, h.buf)
	h.buf = h.buf[n:]
	return n, nil
}

func (h *half) Write(p []byte) (int, error) {
	h.mu.Lock()
	defer h.mu.Unlock()
	if h.closed || h.reset {
		return 0, errors.New("stream closed")
	}
	h.buf = append(h.buf, p...)
	h.cond.Broadcast()
	return len(p), nil
}

func (h *half) close() { h.mu.Lock(); h.closed = true; h.cond.Broadcast(); h.mu.Unlock() }
func (h *half) rst()   { h.mu.Lock(); h.reset = true; h.cond.Broadcast(); h.mu.Unlock() }

type pipeStream struct{ r, w *half }

func (s *pipeStream) Read(p []byte) (int, error)   { return s.r.Read(p) }
func (s *pipeStream) Write(p []byte) (int, error)  { return s.w.Write(p) }
func (s *pipeStream) Close() error                 { s.w.close(); return nil }
func (s *pipeStream) FullClose() error             { s.w.close(); return nil }
func (s *pipeStream) Reset() error                 { s.w.rst(); s.r.rst(); return nil }
func (s *pipeStream) Headers() p2p.Headers         { return nil }
func (s *pipeStream) ResponseHeaders() p2p.Headers { return nil }

// openStream connects caller (address from) to handler h and runs the handler on its own goroutine.
func openStream(from boson.Address, h p2p.HandlerFunc) p2p.Stream {
	a, b := newHalf(), newHalf()
	client := &pipeStream{r: b, w: a}
	server := &pipeStream{r: a, w: b}
	go func() {
		_ = h(context.Background(), p2p.Peer{Address: from, Mode: aurora.NewModel().SetMode(aurora.FullNode)}, server)
		server.w.close()
	}()
	return client
}

// DeliverChunkInfoResp hands the node a chunk-info response of peer `from` for file root (the peer
// reports its own availability vector vec) through the node's own protocol handler; it returns
// when the handler has returned.
func (n *Node) DeliverChunkInfoResp(from, root boson.Address, vec []byte) error {
	var h p2p.HandlerFunc
	for _, ss := range n.CI.Protocol().StreamSpecs {
		if ss.Name == "chunkinforesp" {
			h = ss.Handler
		}
	}
	if h == nil {
		return errors.New("nodelite: no chunkinforesp stream")
	}
	a, b := newHalf(), newHalf()
	client := &pipeStream{r: b, w: a}
	server := &pipeStream{r: a, w: b}
	w := protobuf.NewWriter(client)
	if err := w.WriteMsgWithContext(context.Background(), &cipb.ChunkInfoResp{
		RootCid:  root.Bytes(),
		Target:   from.Bytes(),
		Req:      n.Addr.Bytes(),
		Presence: map[string][]byte{from.String(): vec},
	}); err != nil {
		return err
	}
	_ = client.Close()
	return h(context.Background(), p2p.Peer{Address: from, Mode: aurora.NewModel().SetMode(aurora.FullNode)}, server)
}
