// Package nodelite assembles one process-local aurorafs "node" out of the real
// localstore, chunkinfo, traversal, pinning, netstore and api handler (everything
// else stubbed or nil), wired exactly as pkg/node/node.go wires them. Several
// nodes can be connected through p2p/streamtest recorders so that the real
// chunkinfo pyramid protocol runs between them.
package nodelite

import (
	"archive/tar"
	"bytes"
	"context"
	"encoding/json"
	"errors"
	"fmt"
	"io"
	"io/ioutil"
	"net/http"
	"net/http/httptest"
	"os"
	"sort"
	"sync"
	"time"

	"github.com/ethereum/go-ethereum/common"
	"github.com/ethereum/go-ethereum/core/types"
	"github.com/gauss-project/aurorafs/pkg/api"
	"github.com/gauss-project/aurorafs/pkg/aurora"
	"github.com/gauss-project/aurorafs/pkg/boson"
	"github.com/gauss-project/aurorafs/pkg/chunkinfo"
	"github.com/gauss-project/aurorafs/pkg/file/joiner"
	"github.com/gauss-project/aurorafs/pkg/localstore"
	"github.com/gauss-project/aurorafs/pkg/logging"
	"github.com/gauss-project/aurorafs/pkg/netstore"
	"github.com/gauss-project/aurorafs/pkg/p2p"
	"github.com/gauss-project/aurorafs/pkg/pinning"
	"github.com/gauss-project/aurorafs/pkg/routetab"
	"github.com/gauss-project/aurorafs/pkg/rpc"
	"github.com/gauss-project/aurorafs/pkg/sctx"
	"github.com/gauss-project/aurorafs/pkg/settlement/chain"
	"github.com/gauss-project/aurorafs/pkg/statestore/leveldb"
	"github.com/gauss-project/aurorafs/pkg/storage"
	"github.com/gauss-project/aurorafs/pkg/subscribe"
	"github.com/gauss-project/aurorafs/pkg/traversal"

	"verifharness/internal/faultdrv"
)

// Node is one assembled node.
type Node struct {
	Addr     boson.Address
	Back     *faultdrv.Backing
	DSN      string
	Capacity uint64
	DB       *localstore.DB
	State    storage.StateStorer
	CI       *chunkinfo.ChunkInfo
	Trav     traversal.Traverser
	Pin      *pinning.Service
	NS       *netstore.Store
	API      api.Service
	Rec      *Recorder // put recorder between NS and DB
	peers    *peerSet
	logger   logging.Logger
}

// peerSet is the shared registry through which nodes reach each other's protocols.
type peerSet struct {
	mu    sync.Mutex
	nodes map[string]*Node
}

// Net is a set of connected nodes.
type Net struct{ ps *peerSet }

func NewNet() *Net { return &Net{ps: &peerSet{nodes: map[string]*Node{}}} }

// streamer routes NewStream to the target node's chunkinfo protocol handlers.
type streamer struct {
	self boson.Address
	ps   *peerSet
}

func (s *streamer) NewStream(ctx context.Context, addr boson.Address, h p2p.Headers, protocol, version, stream string) (p2p.Stream, error) {
	s.ps.mu.Lock()
	n := s.ps.nodes[addr.String()]
	s.ps.mu.Unlock()
	if n == nil {
		return nil, fmt.Errorf("nodelite: no such peer %s", addr)
	}
	spec := n.CI.Protocol()
	if spec.Name != protocol || spec.Version != version {
		return nil, fmt.Errorf("nodelite: protocol %s/%s not served", protocol, version)
	}
	for _, ss := range spec.StreamSpecs {
		if ss.Name == stream {
			return openStream(s.self, ss.Handler), nil
		}
	}
	return nil, fmt.Errorf("nodelite: stream %s not served", stream)
}

func (s *streamer) NewRelayStream(ctx context.Context, addr boson.Address, h p2p.Headers, protocol, version, stream string, midCall bool) (p2p.Stream, error) {
	return s.NewStream(ctx, addr, h, protocol, version, stream)
}

func (s *streamer) NewConnChainRelayStream(ctx context.Context, addr boson.Address, h p2p.Headers, protocol, version, stream string) (p2p.Stream, error) {
	return s.NewStream(ctx, addr, h, protocol, version, stream)
}

// route stub: every peer is a directly connected neighbour.
type route struct{}

func (route) GetRoute(context.Context, boson.Address) ([]*routetab.Path, error) { return nil, nil }
func (route) FindRoute(context.Context, boson.Address, ...time.Duration) ([]*routetab.Path, error) {
	return nil, nil
}
func (route) DelRoute(context.Context, boson.Address) error { return nil }
func (route) Connect(context.Context, boson.Address) error  { return nil }
func (route) GetTargetNeighbor(context.Context, boson.Address, int) ([]boson.Address, error) {
	return nil, errors.New("no neighbour")
}
func (route) IsNeighbor(boson.Address) bool { return true }
func (route) FindUnderlay(context.Context, boson.Address, ...time.Duration) (*aurora.Address, error) {
	return nil, errors.New("not implemented")
}

// oracle stub: no on-chain sources.
type oracle struct{}

func (oracle) GetCid(string) []byte                                                            { return nil }
func (oracle) GetNodesFromCid([]byte) []boson.Address                                          { return nil }
func (oracle) GetSourceNodes(string) []boson.Address                                           { return nil }
func (oracle) OnStoreMatched(boson.Address, uint64, uint64, boson.Address)                     {}
func (oracle) DataStoreFinished(boson.Address, uint64, uint64, []byte, chan chain.ChainResult) {}
func (oracle) RegisterCidAndNode(context.Context, boson.Address, boson.Address) (common.Hash, error) {
	return common.Hash{}, errors.New("no chain")
}
func (oracle) RemoveCidAndNode(context.Context, boson.Address, boson.Address) (common.Hash, error) {
	return common.Hash{}, errors.New("no chain")
}
func (oracle) GetRegisterState(context.Context, boson.Address, boson.Address) (bool, error) {
	return false, nil
}
func (oracle) API() rpc.API { return rpc.API{} }
func (oracle) WaitForReceipt(context.Context, boson.Address, common.Hash) (*types.Receipt, error) {
	return nil, errors.New("no chain")
}

// retrieval stub: nothing can be fetched from the network.
type noRetrieval struct{}

func (noRetrieval) RetrieveChunk(context.Context, boson.Address, boson.Address) (boson.Chunk, error) {
	return nil, storage.ErrNotFound
}
func (noRetrieval) GetRouteScore(int64) map[string]int64 { return nil }

// PutRecord is one recorded Put call.
type PutRecord struct {
	Mode storage.ModePut
	Root string
	Addr string
	Data []byte
	// Existed is the store's answer: the chunk was already stored, this put wrote nothing.
	Existed bool
}

// Recorder wraps the local store and records every Put.
type Recorder struct {
	storage.Storer
	mu   sync.Mutex
	Puts []PutRecord
	on   bool
	// AddrOnly: do not copy chunk data into the records (for very large uploads)
	AddrOnly bool
}

func (r *Recorder) Put(ctx context.Context, mode storage.ModePut, chs ...boson.Chunk) ([]bool, error) {
	exist, err := r.Storer.Put(ctx, mode, chs...)
	r.mu.Lock()
	if r.on {
		root := sctx.GetRootHash(ctx)
		for i, c := range chs {
			// chunk bytes are not kept: no check reads them, and records stay reachable for the life of the
			// process through the node's background goroutines, which have no way to stop (6.5 MB per case)
			var data []byte
			r.Puts = append(r.Puts, PutRecord{Mode: mode, Root: root.String(), Addr: c.Address().String(), Data: data,
				Existed: err == nil && i < len(exist) && exist[i]})
		}
	}
	r.mu.Unlock()
	return exist, err
}

// Start begins recording (clearing previous records); Stop returns them.
func (r *Recorder) Start() { r.mu.Lock(); r.Puts, r.on = nil, true; r.mu.Unlock() }
func (r *Recorder) Stop() []PutRecord {
	r.mu.Lock()
	defer r.mu.Unlock()
	r.on = false
	return r.Puts
}

// Options for a node.
type Options struct {
	Capacity uint64 // localstore capacity (chunks); 0 = 1e6 (GC out of reach)
}

// NewNode builds a node with a fresh backing store and state store.
func (nt *Net) NewNode(addr boson.Address, o Options) (*Node, error) {
	back, dsn := faultdrv.New()
	logger := newLogger()
	st, err := leveldb.NewInMemoryStateStore(logger)
	if err != nil {
		return nil, err
	}
	n := &Node{Addr: addr, Back: back, DSN: dsn, State: st, peers: nt.ps, logger: logger, Capacity: o.Capacity}
	if n.Capacity == 0 {
		n.Capacity = 1000000
	}
	if err := n.open(); err != nil {
		return nil, err
	}
	nt.ps.mu.Lock()
	nt.ps.nodes[addr.String()] = n
	nt.ps.mu.Unlock()
	return n, nil
}

// open (re)creates all services over the node's backing store and state store,
// in the order pkg/node/node.go uses.
func (n *Node) open() error {
	db, err := localstore.New(n.DSN, n.Addr.Bytes(), &localstore.Options{Driver: faultdrv.Name, Capacity: n.Capacity}, n.logger)
	if err != nil {
		return err
	}
	n.DB = db
	n.Rec = &Recorder{Storer: db}
	n.NS = netstore.New(n.Rec, noRetrieval{}, n.logger, n.Addr)
	n.Trav = traversal.New(n.NS)
	n.Pin = pinning.NewService(db, n.State, n.Trav)
	n.CI = chunkinfo.New(n.Addr, &streamer{self: n.Addr, ps: n.peers}, n.logger, n.Trav, n.State, n.NS, route{}, oracle{}, nil, subscribe.NewSubPub())
	if err := n.CI.InitChunkInfo(); err != nil {
		return err
	}
	db.SetChunkInfo(n.CI)
	n.NS.SetChunkInfo(n.CI)
	n.API = api.New(n.NS, nil, n.Addr, n.CI, n.Trav, n.Pin, nil, n.logger, nil, nil, nil, oracle{}, nil, nil, api.Options{})
	return nil
}

// Restart closes the local store and re-creates every service over the same
// backing database and state store (a clean restart).
func (n *Node) Restart() error {
	if err := n.DB.Close(); err != nil {
		return err
	}
	n.Back.Disarm()
	return n.open()
}

// Abandon drops the services without closing cleanly (crash) and reopens.
func (n *Node) CrashReopen() error {
	_ = n.DB.Close() // stops goroutines; the fault driver's Close does not touch the backing db
	n.Back.Disarm()
	return n.open()
}

// Close releases the node.
func (n *Node) Close() {
	if n.DB != nil {
		_ = n.DB.Close()
	}
	if n.API != nil {
		_ = n.API.Close()
	}
	faultdrv.Destroy(n.DSN)
	_ = n.State.Close()
	n.peers.mu.Lock()
	delete(n.peers.nodes, n.Addr.String())
	n.peers.mu.Unlock()
}

// ---- HTTP level operations ---------------------------------------------------

func (n *Node) do(method, url string, body io.Reader, hdr map[string]string) *httptest.ResponseRecorder {
	req := httptest.NewRequest(method, url, body)
	for k, v := range hdr {
		req.Header.Set(k, v)
	}
	w := httptest.NewRecorder()
	n.API.ServeHTTP(w, req)
	return w
}

func parseRef(w *httptest.ResponseRecorder) (boson.Address, error) {
	if w.Code != http.StatusCreated {
		return boson.ZeroAddress, fmt.Errorf("upload: status %d body %s", w.Code, w.Body.String())
	}
	var r struct {
		Reference boson.Address `json:"reference"`
	}
	if err := json.Unmarshal(w.Body.Bytes(), &r); err != nil {
		return boson.ZeroAddress, err
	}
	return r.Reference, nil
}

// UploadFile uploads one file through POST /aurora and returns the manifest reference.
func (n *Node) UploadFile(name string, content []byte, encrypt, pin bool) (boson.Address, error) {
	h := map[string]string{"Content-Type": "application/octet-stream"}
	if encrypt {
		h[api.AuroraEncryptHeader] = "true"
	}
	if pin {
		h[api.AuroraPinHeader] = "true"
	}
	return parseRef(n.do("POST", "/aurora?name="+name, bytes.NewReader(content), h))
}

// UploadReader uploads one file whose content comes from a reader (for content too large to hold).
func (n *Node) UploadReader(name string, content io.Reader) (boson.Address, error) {
	h := map[string]string{"Content-Type": "application/octet-stream"}
	return parseRef(n.do("POST", "/aurora?name="+name, content, h))
}

// DirFile is one file of a directory upload.
type DirFile struct {
	Path    string
	Content []byte
}

// UploadDir uploads a tar collection through POST /aurora.
func (n *Node) UploadDir(files []DirFile, indexDoc string, encrypt, pin bool) (boson.Address, error) {
	var buf bytes.Buffer
	tw := tar.NewWriter(&buf)
	for _, f := range files {
		if err := tw.WriteHeader(&tar.Header{Name: f.Path, Mode: 0600, Size: int64(len(f.Content))}); err != nil {
			return boson.ZeroAddress, err
		}
		if _, err := tw.Write(f.Content); err != nil {
			return boson.ZeroAddress, err
		}
	}
	if err := tw.Close(); err != nil {
		return boson.ZeroAddress, err
	}
	h := map[string]string{"Content-Type": "application/x-tar", api.AuroraCollectionHeader: "true"}
	if indexDoc != "" {
		h[api.AuroraIndexDocumentHeader] = indexDoc
	}
	if encrypt {
		h[api.AuroraEncryptHeader] = "true"
	}
	if pin {
		h[api.AuroraPinHeader] = "true"
	}
	return parseRef(n.do("POST", "/aurora", &buf, h))
}

// PinHTTP / UnpinHTTP / HasPinHTTP / PinsHTTP go through api/pin.go. They return the status code.
func (n *Node) PinHTTP(ref boson.Address) int {
	return n.do("POST", "/pins/"+ref.String(), nil, nil).Code
}
func (n *Node) UnpinHTTP(ref boson.Address) int {
	return n.do("DELETE", "/pins/"+ref.String(), nil, nil).Code
}
func (n *Node) HasPinHTTP(ref boson.Address) int {
	return n.do("GET", "/pins/"+ref.String(), nil, nil).Code
}
func (n *Node) PinsHTTP() ([]string, int) {
	w := n.do("GET", "/pins", nil, nil)
	var r struct {
		References []boson.Address `json:"references"`
	}
	_ = json.Unmarshal(w.Body.Bytes(), &r)
	var out []string
	for _, a := range r.References {
		out = append(out, a.String())
	}
	sort.Strings(out)
	return out, w.Code
}

// DeleteHTTP deletes a file through DELETE /aurora/{ref}.
func (n *Node) DeleteHTTP(ref boson.Address) int {
	return n.do("DELETE", "/aurora/"+ref.String(), nil, nil).Code
}

// DownloadHTTP fetches a path below a manifest reference through GET /aurora/{ref}/{path}.
func (n *Node) DownloadHTTP(ref boson.Address, path string) (int, []byte) {
	w := n.do("GET", "/aurora/"+ref.String()+"/"+path, nil, nil)
	return w.Code, w.Body.Bytes()
}

// ---- "network" level operations ---------------------------------------------

// FetchChunkFrom mirrors what retrieval.retrieveChunk does after a chunk of file
// root arrived from peer src: report it to chunkinfo (this pulls the file pyramid
// from src through the real chunkinfo protocol when the file is not known yet),
// then cache it with a request-put under the file context.
func (n *Node) FetchChunkFrom(src *Node, root, cid boson.Address) error {
	ch, err := src.DB.Get(context.Background(), storage.ModeGetLookup, cid)
	if err != nil {
		return fmt.Errorf("source does not have %s: %w", cid, err)
	}
	if err := n.CI.OnChunkRetrieved(cid, root, src.Addr); err != nil {
		return fmt.Errorf("OnChunkRetrieved: %w", err)
	}
	_, err = n.NS.Put(sctx.SetRootHash(context.Background(), root), storage.ModePutRequest, boson.NewChunk(cid, ch.Data()))
	return err
}

// DataChunks returns the data-chunk address lists of a locally known file, in file order.
func (n *Node) DataChunks(root boson.Address) ([][][]byte, error) {
	d, _, err := n.Trav.GetChunkHashes(context.Background(), root, nil)
	return d, err
}

// ReadLocal reads a whole byte-tree (file entry reference, not a manifest) from the local store only.
func (n *Node) ReadLocal(ref boson.Address) ([]byte, error) {
	j, _, err := joiner.New(context.Background(), n.DB, storage.ModeGetLookup, ref)
	if err != nil {
		return nil, err
	}
	return ioutil.ReadAll(j)
}

// ReadUnderRoot reads a byte-tree through the netstore with the file context set
// and request mode, the way the download handler does.
func (n *Node) ReadUnderRoot(root, ref boson.Address) ([]byte, error) {
	ctx := sctx.SetRootHash(context.Background(), root)
	j, _, err := joiner.New(ctx, n.NS, storage.ModeGetRequest, ref)
	if err != nil {
		return nil, err
	}
	return ioutil.ReadAll(j)
}

// Dump returns the local store indexes.
func (n *Node) Dump() (localstore.VerifDumpT, error) { return n.DB.VerifDump() }

// PinCounts returns addr(hex) -> pin counter.
func (n *Node) PinCounts() (map[string]uint64, error) {
	d, err := n.DB.VerifDump()
	if err != nil {
		return nil, err
	}
	m := map[string]uint64{}
	for _, it := range d.Pin {
		m[boson.NewAddress(it.Address).String()] = it.PinCounter
	}
	return m, nil
}

// Stored returns addr(hex) -> data for every chunk in the retrieval index.
func (n *Node) Stored() (map[string][]byte, error) {
	d, err := n.DB.VerifDump()
	if err != nil {
		return nil, err
	}
	m := map[string][]byte{}
	for _, it := range d.Retrieval {
		m[boson.NewAddress(it.Address).String()] = it.Data
	}
	return m, nil
}

// GCRun runs collection synchronously with the given capacity until it reports done (bounded).
func (n *Node) GCRun(capacity uint64) (total uint64, err error) {
	for i := 0; i < 64; i++ {
		c, done, err := n.DB.VerifCollectGarbage(capacity)
		total += c
		if err != nil {
			return total, err
		}
		if done {
			return total, nil
		}
	}
	return total, errors.New("gc did not finish in 64 runs")
}

func newLogger() logging.Logger {
	if os.Getenv("NODELITE_LOG") != "" {
		return logging.New(os.Stderr, 6)
	}
	return logging.New(ioutil.Discard, 0)
}
