package c07

import (
	"context"
	"fmt"
	"io"
	"os"
	"testing"

	"pgregory.net/rapid"
	"verifharness/internal/evid"
	fp "verifharness/internal/filepipe"
)

const id = "C07"
const CS = fp.CS

// sigCap is the signature of the one known shape: a Read/ReadAt into a buffer
// whose capacity exceeds its length while more than len(buf) bytes of the file
// remain after the offset; the joiner sizes the read from cap(buffer).
const sigCap = "C07/read-length-taken-from-cap"

const (
	opReadAt = "readat"
	opRead   = "read"
	opSeek   = "seek"
	opDrain  = "drain" // Read with buffers of Len (+Extra capacity) until EOF
)

type op struct {
	Kind   string `json:"k"`
	Off    int64  `json:"off,omitempty"`    // readat: offset; seek: the position asked for (raw offset derived from whence)
	Len    int    `json:"len,omitempty"`    // buffer length
	Extra  int    `json:"extra,omitempty"`  // spare capacity behind the buffer
	Whence int    `json:"whence,omitempty"` // seek only
}

type kase struct {
	Len     int    `json:"len"`
	Kind    int    `json:"kind"`
	Seed    uint64 `json:"seed"`
	Encrypt bool   `json:"encrypt"`
	Ops     []op   `json:"ops"`
}

type outcome struct {
	excluded   int
	capReads   int // reads executed with cap > len
	failedSeek int
	movedAfter int // failed seeks after which the position differed (not asserted)
}

func run(c kase, known bool) (sig string, err error, out outcome) {
	ctx := context.Background()
	data := fp.Gen(c.Kind, c.Seed, c.Len)
	st := fp.NewRecStore()
	ref, uerr := fp.Upload(ctx, st, data, []int{c.Len}, c.Encrypt, false, false)
	if uerr != nil {
		return id + "/setup-upload-failed", fmt.Errorf("upload failed (C01's subject): %v", uerr), out
	}
	j, size, oerr := fp.Open(ctx, st, ref)
	if oerr != nil || size != int64(c.Len) {
		return id + "/setup-open-failed", fmt.Errorf("open failed or wrong size (C01's subject): %v size=%d", oerr, size), out
	}
	want := fp.SliceOf(data)
	var pos int64 // model of the sequential position

	doRead := func(kind string, k int, o op, at int64, call func([]byte) (int, error)) (string, error) {
		extra := o.Extra
		remaining := size - at
		shape := extra > 0 && remaining > int64(o.Len)
		if shape && known {
			extra = 0 // excluded by construction: exactly the known shape
			out.excluded++
			shape = false
		}
		if extra > 0 {
			out.capReads++
		}
		buf := fp.NewBuf(o.Len, extra)
		var n int
		var rerr error
		if perr := fp.Safe(func() error { n, rerr = call(buf); return nil }); perr != nil {
			return id + "/" + kind + "-panic", fmt.Errorf("op#%d %s(len %d cap %d) at %d: %v", k, kind, o.Len, o.Len+extra, at, perr)
		}
		if v, d := fp.JudgeRead(buf, n, rerr, at, size, want); v != fp.VOK {
			s := id + "/" + kind + "-" + v
			if shape && (v == fp.VReportsMore || v == fp.VWritesSpare) {
				s = sigCap
			}
			return s, fmt.Errorf("op#%d %s: %s", k, kind, d)
		}
		if kind != opReadAt {
			pos += int64(n)
		}
		return "", nil
	}

	for k, o := range c.Ops {
		switch o.Kind {
		case opReadAt:
			if s, e := doRead(opReadAt, k, o, o.Off, func(b []byte) (int, error) { return j.ReadAt(b, o.Off) }); e != nil {
				return s, e, out
			}
		case opRead:
			if s, e := doRead(opRead, k, o, pos, func(b []byte) (int, error) { return j.Read(b) }); e != nil {
				return s, e, out
			}
		case opDrain:
			if o.Len <= 0 {
				continue
			}
			for step := int64(0); ; step++ {
				before := pos
				if s, e := doRead(opRead, k, o, pos, func(b []byte) (int, error) { return j.Read(b) }); e != nil {
					return s, e, out
				}
				if before >= size { // that read was judged to be (0, EOF)
					break
				}
				if step > size/int64(o.Len)+4 {
					return id + "/read-no-progress", fmt.Errorf("op#%d drain: still not at the end after %d reads (pos %d size %d)", k, step, pos, size), out
				}
			}
			if pos != size {
				return id + "/sequential-total", fmt.Errorf("op#%d drain ended at %d, size %d", k, pos, size), out
			}
		case opSeek:
			target := o.Off
			var raw int64
			switch o.Whence {
			case io.SeekStart:
				raw = target
			case io.SeekCurrent:
				raw = target - pos
			case io.SeekEnd:
				raw = size - target // end offsets are counted backwards in this project
			}
			var p int64
			var serr error
			if perr := fp.Safe(func() error { p, serr = j.Seek(raw, o.Whence); return nil }); perr != nil {
				return id + "/seek-panic", fmt.Errorf("op#%d Seek(%d, %d): %v", k, raw, o.Whence, perr), out
			}
			desc := fmt.Sprintf("op#%d Seek(%d, whence %d) from pos %d (asks for position %d, size %d) = (%d, %v)", k, raw, o.Whence, pos, target, size, p, serr)
			switch {
			case serr == nil && p != target:
				return id + "/seek-wrong-position", fmt.Errorf("%s", desc), out
			case serr == nil && target < 0:
				return id + "/seek-negative-accepted", fmt.Errorf("%s", desc), out
			case serr == nil:
				pos = target
			case target >= 0 && target <= size:
				return id + "/seek-in-range-failed", fmt.Errorf("%s", desc), out
			default:
				// rejected out-of-range seek: the statement does not say where the position is
				// afterwards, so re-synchronise the model instead of asserting
				out.failedSeek++
				q, e := j.Seek(0, io.SeekCurrent)
				if e != nil || q < 0 {
					return "", nil, out // cannot continue this case soundly
				}
				if q != pos {
					out.movedAfter++
				}
				pos = q
			}
		}
	}
	return "", nil, out
}

func genCase(t *rapid.T) kase {
	var c kase
	c.Len = fp.DrawLen(t, CS, 3*CS+4097)
	c.Kind = rapid.SampledFrom([]int{fp.KindStream, fp.KindStream, fp.KindStream, fp.KindTemplate}).Draw(t, "kind")
	c.Seed = rapid.Uint64Range(0, 1<<20).Draw(t, "seed")
	c.Encrypt = rapid.IntRange(0, 5).Draw(t, "encrypt") == 0
	size := int64(c.Len)
	drawExtra := func() int {
		return rapid.SampledFrom([]int{0, 0, 1, 7, 32, 4096, CS, CS + 1}).Draw(t, "extra")
	}
	maxOps, drainLens := 14, []int{4096, 65537, CS - 1, CS, CS + 1}
	if c.Encrypt { // every read of an encrypted file decrypts 2-3 full chunks: keep those programs short
		maxOps, drainLens = 8, []int{65537, CS - 1, CS, CS + 1}
	}
	n := rapid.IntRange(1, maxOps).Draw(t, "nops")
	for i := 0; i < n; i++ {
		switch rapid.IntRange(0, 9).Draw(t, "op") {
		case 0, 1, 2:
			off := fp.DrawOffset(t, size, CS, "ra")
			c.Ops = append(c.Ops, op{Kind: opReadAt, Off: off, Len: fp.DrawBufLen(t, size, off, CS, CS+CS/2, "raLen"), Extra: drawExtra()})
		case 3, 4, 5:
			c.Ops = append(c.Ops, op{Kind: opRead, Len: fp.DrawBufLen(t, size, 0, CS, CS+CS/2, "rdLen"), Extra: drawExtra()})
		case 6, 7, 8:
			var tg int64
			switch rapid.IntRange(0, 5).Draw(t, "tgClass") {
			case 0:
				tg = int64(rapid.SampledFrom([]int{-2, -1, 0, 1}).Draw(t, "tgStart"))
			case 1:
				tg = size + int64(rapid.SampledFrom([]int{-1, 0, 1, 2, CS}).Draw(t, "tgEnd"))
			case 2:
				tg = rapid.Int64Range(-int64(CS), size+int64(CS)).Draw(t, "tgWide")
			default:
				tg = fp.DrawOffset(t, size, CS, "tg")
			}
			c.Ops = append(c.Ops, op{Kind: opSeek, Off: tg, Whence: rapid.IntRange(0, 2).Draw(t, "whence")})
		default:
			c.Ops = append(c.Ops, op{Kind: opDrain, Len: rapid.SampledFrom(drainLens).Draw(t, "drainLen"), Extra: drawExtra()})
		}
	}
	return c
}

func nearBorder(off int64) bool {
	m := off % CS
	return m <= 1 || m >= CS-1
}

func classes(c kase) (nt bool, cls []string) {
	seeks := 0
	set := map[string]bool{}
	for _, o := range c.Ops {
		switch o.Kind {
		case opSeek:
			seeks++
			set[fmt.Sprintf("seek-whence-%d", o.Whence)] = true
			switch {
			case o.Off < 0:
				set["seek-to-negative"] = true
			case o.Off > int64(c.Len):
				set["seek-past-end"] = true
			case o.Off == int64(c.Len):
				set["seek-to-end"] = true
			default:
				set["seek-inside"] = true
			}
		case opReadAt:
			set["has-ReadAt"] = true
			if o.Extra > 0 {
				nt = true
				set["buffer-cap>len"] = true
			}
			if nearBorder(o.Off) {
				nt = true
				set["ReadAt-at-chunk-border+-1"] = true
			}
			switch {
			case o.Off == int64(c.Len):
				set["ReadAt-at-size"] = true
			case o.Off > int64(c.Len):
				set["ReadAt-past-size"] = true
			case o.Off == int64(c.Len)-1:
				set["ReadAt-at-size-1"] = true
			}
			if o.Len == 0 {
				set["zero-length-buffer"] = true
			}
		case opRead, opDrain:
			set["has-"+o.Kind] = true
			if o.Extra > 0 {
				nt = true
				set["buffer-cap>len"] = true
			}
			if o.Len == 0 {
				set["zero-length-buffer"] = true
			}
		}
	}
	if seeks >= 2 {
		nt = true
		set["seek-sequence>=2"] = true
	}
	if c.Encrypt {
		set["encrypted"] = true
	} else {
		set["plain"] = true
	}
	switch {
	case c.Len == 0:
		set["size:empty"] = true
	case c.Len <= CS:
		set["size:one-chunk"] = true
	default:
		set["size:multi-chunk"] = true
	}
	for _, k := range []string{"ReadAt-at-chunk-border+-1", "ReadAt-at-size", "ReadAt-at-size-1", "ReadAt-past-size", "buffer-cap>len", "encrypted", "plain",
		"has-ReadAt", "has-read", "has-drain", "seek-inside", "seek-past-end", "seek-sequence>=2", "seek-to-end", "seek-to-negative",
		"seek-whence-0", "seek-whence-1", "seek-whence-2", "size:empty", "size:multi-chunk", "size:one-chunk", "zero-length-buffer"} {
		if set[k] {
			cls = append(cls, k)
		}
	}
	return nt, cls
}

func TestC07_ReaderContract(t *testing.T) {
	r := evid.Get(id)
	evid.Finish(t, r)
	r.SetRule("rapid: stored file (boundary-dense length <= 3 chunks, plain or encrypted, real pipeline + joiner) x op list of ReadAt(off, buf) / Read(buf) / Seek(whence 0|1|2 asking for a position in {-2..1, size-1..size+2, chunk borders +-1, uniform in [-256Ki, size+256Ki]}) / drain-to-EOF, buffers built as make([]byte, len, len+extra) with the body and the spare capacity pre-filled with sentinels (extra in {0,1,7,32,4096,256Ki,256Ki+1}). Oracle: n <= len, spare capacity untouched, n == min(len, size-off) with equal bytes or (0, EOF) at/past the end, sequential position model, Seek lands on the asked position (in-range must succeed, negative must fail, past-end may fail). Non-trivial = some buffer has cap > len, or a ReadAt offset within +-1 of a chunk border, or >= 2 seeks; distinct by hash of the drawn case")
	known := evid.Known(sigCap)
	account := func(c kase, o outcome) {
		for i := 0; i < o.excluded; i++ {
			r.Excluded(sigCap)
		}
		r.ClassN("reads-executed-with-cap>len", o.capReads)
		r.ClassN("rejected-out-of-range-seeks", o.failedSeek)
		r.ClassN("position-differs-after-rejected-seek(not-asserted)", o.movedAfter)
		nt, cls := classes(c)
		r.Case(evid.Hash64(c), nt, cls...)
	}
	// witness of the known shape: 100-byte file, 10-byte buffer with 10 spare bytes
	if known {
		w := kase{Len: 100, Seed: 1, Ops: []op{{Kind: opReadAt, Off: 0, Len: 10, Extra: 10}}}
		if sig, err, _ := run(w, false); err != nil && sig == sigCap {
			r.Witness(sigCap)
		} else if err != nil {
			t.Fatalf("%s", evid.Violation(id, sig, fmt.Sprintf("%v case=%+v", err, w)))
		}
	}
	// deterministic boundary programs
	detLens := []int{0, 1, 33, CS - 1, CS, CS + 1, 2 * CS, 2*CS + 5}
	if os.Getenv("VERIF_RANDOM_ONLY") != "" { // sensitivity runs: measure the generated part alone
		detLens = nil
	}
	for _, l := range detLens {
		for _, enc := range []bool{false, true} {
			L := int64(l)
			c := kase{Len: l, Seed: uint64(l) + 3, Encrypt: enc, Ops: []op{
				{Kind: opReadAt, Off: L, Len: 1}, {Kind: opReadAt, Off: L + 1, Len: 1}, {Kind: opReadAt, Off: 0, Len: l, Extra: 5},
				{Kind: opReadAt, Off: L / 2, Len: l, Extra: CS}, {Kind: opReadAt, Off: 0, Len: 1, Extra: 1},
				{Kind: opSeek, Off: L, Whence: 2}, {Kind: opRead, Len: 4, Extra: 4}, {Kind: opSeek, Off: -1, Whence: 1}, {Kind: opSeek, Off: L + 1, Whence: 0},
				{Kind: opSeek, Off: L / 3, Whence: 1}, {Kind: opRead, Len: 7, Extra: 9}, {Kind: opRead, Len: 0}, {Kind: opSeek, Off: 0, Whence: 2},
				{Kind: opDrain, Len: CS - 1, Extra: 3}, {Kind: opRead, Len: 1}, {Kind: opSeek, Off: L, Whence: 1}, {Kind: opRead, Len: 2, Extra: 2},
			}}
			sig, err, o := run(c, known)
			if err != nil {
				t.Fatalf("%s", evid.Violation(id, sig, fmt.Sprintf("%v case=%+v", err, c)))
			}
			account(c, o)
		}
	}
	evid.Checks(600)
	rapid.Check(t, func(t *rapid.T) {
		c := genCase(t)
		sig, err, o := run(c, known)
		if err != nil {
			t.Fatalf("%s", evid.Violation(id, sig, fmt.Sprintf("%v case=%+v", err, c)))
		}
		account(c, o)
		r.Sample(c)
	})
}
