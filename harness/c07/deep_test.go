package c07

import (
	"context"
	"fmt"
	"io"
	"os"
	"testing"

	"pgregory.net/rapid"
	"verifharness/internal/evid"
	fp "verifharness/internal/filepipe"
)

// Thorough tier only: the reader contract on files whose root is a level-2 intermediate chunk with
// the real parameters (plain: more than 8192 chunks, encrypted: more than 4096 chunks, i.e. the
// reference length decides where the third level starts). Content is built from four repeated
// 256 KiB templates and streamed through the real pipeline; reads and seeks are placed around the
// border between the first and the second child of the root and around the end.
func TestC07_DeepTrees(t *testing.T) {
	r := evid.Get(id)
	evid.Finish(t, r)
	if !evid.Thorough() || (os.Getenv("VERIF_SHARD") != "" && os.Getenv("VERIF_SHARD") != "0") {
		t.Skip("3-level real-parameter files run in the thorough tier, first shard only")
	}
	ctx := context.Background()
	for _, enc := range []bool{true, false} {
		b := int64(fp.Branches)
		if enc {
			b /= 2
		}
		v := fp.NewVirtual(11, b+2, 1000)
		st := fp.NewRecStore()
		ref, err := fp.UploadVirtual(ctx, st, v, enc, 0)
		if err != nil {
			t.Fatalf("deep upload (encrypted=%v): %v", enc, err)
		}
		j, size, err := fp.Open(ctx, st, ref)
		if err != nil || size != v.Len() {
			t.Fatalf("open (encrypted=%v): %v size %d want %d", enc, err, size, v.Len())
		}
		border := b * fp.CS
		rapid.Check(t, func(t *rapid.T) {
			type rd struct {
				Off        int64
				Len, Extra int
				Seq        bool
			}
			base := rapid.SampledFrom([]int64{border, border, border - fp.CS, size, 0, border + fp.CS}).Draw(t, "base")
			o := rd{Off: base + rapid.Int64Range(-3, 3).Draw(t, "delta"), Len: rapid.SampledFrom([]int{1, 100, fp.CS, fp.CS + 1}).Draw(t, "len"),
				Extra: rapid.SampledFrom([]int{0, 0, 7}).Draw(t, "extra"), Seq: rapid.Bool().Draw(t, "seq")}
			if o.Off < 0 {
				o.Off = 0
			}
			buf := fp.NewBuf(o.Len, o.Extra)
			var n int
			var rerr error
			if o.Seq && o.Off <= size {
				pos, serr := j.Seek(o.Off, io.SeekStart)
				if serr != nil || pos != o.Off {
					t.Fatalf("%s", evid.Violation(id, id+"/seek-wrong-position", fmt.Sprintf("encrypted=%v: Seek(%d, start) on a %d-byte file = (%d, %v)", enc, o.Off, size, pos, serr)))
				}
				n, rerr = j.Read(buf)
			} else {
				n, rerr = j.ReadAt(buf, o.Off)
			}
			if verdict, d := fp.JudgeRead(buf, n, rerr, o.Off, size, v.Slice); verdict != fp.VOK {
				t.Fatalf("%s", evid.Violation(id, id+"/deep-"+verdict, fmt.Sprintf("encrypted=%v file of %d bytes (root is a level-2 chunk; second child starts at %d): %+v: %s", enc, size, border, o, d)))
			}
			cls := []string{"3-level-plain"}
			if enc {
				cls = []string{"3-level-encrypted"}
			}
			r.Case(evid.Hash64("deep", enc, o), true, cls...)
		})
	}
}
