// Package c04 checks property C04: cac.Valid(c) <=> 8 <= len(payload) <= 256KiB+8
// and address == BMT(payload); chunks created from 1..256KiB bytes are valid; any
// single-byte change of payload or address of a valid chunk makes it invalid.
//
// Oracle: ref.CACValid / ref.CACAddr (independent BMT). Truncating or extending a
// payload by zero bytes is not generated (BMT zero padding makes those collide by
// definition; the statement speaks of changing bytes).
package c04

import (
	"bytes"
	"encoding/binary"
	"encoding/hex"
	"encoding/json"
	"fmt"
	"testing"

	"github.com/gauss-project/aurorafs/pkg/boson"
	"github.com/gauss-project/aurorafs/pkg/cac"
	"pgregory.net/rapid"
	"verifharness/internal/evid"
	"verifharness/internal/ref"
)

const (
	id = "C04"
	cs = ref.ChunkSize

	ruleText = "chunk = (address, payload); payload length from {0..8, 9, 40, 71..73, CS+7, CS+8, CS+9, CS+4096} or uniform in three ranges (<=300, <=8200, <=CS+8), fill in {pseudo-random, zeros, 0xff, zeros then one non-zero byte}, span arbitrary / LE(data length) / zero; address in {reference BMT of the payload, BMT of the payload truncated to capacity (over-long payloads), random 32 bytes, reference minus last byte, reference plus one byte, empty}; for a valid chunk a list of single-byte mutations with non-zero XOR mask at span byte / first / last / random data byte / address byte (all 32 address bytes for small payloads). Constructor cases: cac.New and cac.NewWithDataSpan on 0..CS+9 bytes. Deterministic sweep: payload lengths 0..72 and CS+6..CS+10 x every address byte x masks {01,80,ff}. Oracle ref.CACValid. non-trivial = mutated or out-of-range length or wrong-length address; distinct by hash of the case value"
)

type mutation struct {
	Where string `json:"where"` // span | data | addr
	Index int    `json:"i"`     // index inside that part
	Mask  byte   `json:"mask"`  // non-zero
}

type kase struct {
	PayloadLen int        `json:"payload_len"`
	Fill       string     `json:"fill"`
	Seed       uint64     `json:"seed"`
	Span       string     `json:"span"`      // 8 bytes hex (used as far as the payload is long enough)
	AddrKind   string     `json:"addr_kind"` // ref | ref-truncated | random | ref-31 | ref-33 | empty
	AddrSeed   uint64     `json:"addr_seed,omitempty"`
	Muts       []mutation `json:"muts,omitempty"`
}

type ckase struct {
	Ctor string `json:"ctor"` // New | NewWithDataSpan
	Len  int    `json:"len"`  // length of the argument
	Fill string `json:"fill"`
	Seed uint64 `json:"seed"`
	Span string `json:"span,omitempty"` // NewWithDataSpan: first 8 bytes of the argument
}

func splitmix(x *uint64) uint64 {
	*x += 0x9e3779b97f4a7c15
	z := *x
	z = (z ^ (z >> 30)) * 0xbf58476d1ce4e5b9
	z = (z ^ (z >> 27)) * 0x94d049bb133111eb
	return z ^ (z >> 31)
}

func fill(n int, mode string, seed uint64) []byte {
	b := make([]byte, n)
	switch mode {
	case "zero":
	case "ff":
		for i := range b {
			b[i] = 0xff
		}
	case "zerohead":
		if n > 0 {
			b[n-1] = byte(seed) | 1
		}
	default:
		s := seed
		i := 0
		for ; i+8 <= n; i += 8 {
			binary.LittleEndian.PutUint64(b[i:], splitmix(&s))
		}
		if i < n {
			var t [8]byte
			binary.LittleEndian.PutUint64(t[:], splitmix(&s))
			copy(b[i:], t[:])
		}
	}
	return b
}

func (c kase) payload() []byte {
	p := make([]byte, c.PayloadLen)
	sp, _ := hex.DecodeString(c.Span)
	copy(p, sp)
	if c.PayloadLen > 8 {
		copy(p[8:], fill(c.PayloadLen-8, c.Fill, c.Seed))
	}
	return p
}

// refAddrPadded: the reference BMT address of a payload, treating a payload shorter than 8 bytes as a zero-padded span
// (only used to build an address for short payloads; such chunks are invalid whatever the address is).
func refAddrAny(p []byte) []byte {
	if len(p) < 8 {
		sp := make([]byte, 8)
		copy(sp, p)
		return ref.BMT(sp, nil)
	}
	return ref.CACAddr(p) // truncates the data to capacity
}

func (c kase) address(p []byte) []byte {
	switch c.AddrKind {
	case "ref", "ref-truncated":
		return refAddrAny(p)
	case "ref-31":
		return refAddrAny(p)[:31]
	case "ref-33":
		return append(refAddrAny(p), byte(c.AddrSeed)|1)
	case "empty":
		return nil
	default:
		return fill(32, "rnd", c.AddrSeed)
	}
}

func valid(addr, payload []byte) (ok bool, err error) {
	defer func() {
		if x := recover(); x != nil {
			err = fmt.Errorf("cac.Valid panicked: %v", x)
		}
	}()
	return cac.Valid(boson.NewChunk(boson.NewAddress(addr), payload)), nil
}

func sigFor(want bool, plen int) string {
	switch {
	case plen < 8:
		return "C04/short-payload-accepted"
	case plen > cs+8:
		return "C04/overlong-payload-accepted"
	case want:
		return "C04/valid-chunk-rejected"
	}
	return "C04/invalid-chunk-accepted"
}

func run(c kase) (string, error) {
	p := c.payload()
	a := c.address(p)
	keepP := append([]byte{}, p...)
	keepA := append([]byte{}, a...)
	want := ref.CACValid(a, p)
	got, err := valid(a, p)
	if err != nil {
		return "C04/panic", err
	}
	if got != want {
		return sigFor(want, len(p)), fmt.Errorf("Valid(addr=%x, payload len %d)=%v want %v", a, len(p), got, want)
	}
	if !bytes.Equal(p, keepP) || !bytes.Equal(a, keepA) {
		return "C04/input-modified", fmt.Errorf("Valid modified its argument")
	}
	if !want {
		return "", nil
	}
	for k, m := range c.Muts {
		p2 := append([]byte{}, p...)
		a2 := append([]byte{}, a...)
		if m.Mask == 0 {
			return "C04/harness", fmt.Errorf("harness: zero mask")
		}
		var part string
		switch m.Where {
		case "span":
			p2[m.Index%8] ^= m.Mask
			part = "payload"
		case "data":
			if len(p) <= 8 {
				continue
			}
			p2[8+m.Index%(len(p)-8)] ^= m.Mask
			part = "payload"
		default:
			a2[m.Index%len(a2)] ^= m.Mask
			part = "address"
		}
		// statement: changing any payload byte or address byte of a valid chunk makes it invalid
		if ref.CACValid(a2, p2) {
			return "C04/harness", fmt.Errorf("harness: reference accepts mutant #%d (keccak collision?)", k)
		}
		got, err := valid(a2, p2)
		if err != nil {
			return "C04/panic", err
		}
		if got {
			return "C04/mutated-" + part + "-accepted", fmt.Errorf("mutation #%d %+v of a valid chunk (payload len %d) is still valid", k, m, len(p))
		}
	}
	return "", nil
}

func runCtor(c ckase) (string, error) {
	arg := fill(c.Len, c.Fill, c.Seed)
	if c.Ctor == "NewWithDataSpan" {
		sp, _ := hex.DecodeString(c.Span)
		copy(arg, sp)
	}
	keep := append([]byte{}, arg...)
	var ch boson.Chunk
	var err, perr error
	func() {
		defer func() {
			if x := recover(); x != nil {
				perr = fmt.Errorf("%s(%d bytes) panicked: %v", c.Ctor, c.Len, x)
			}
		}()
		if c.Ctor == "New" {
			ch, err = cac.New(arg)
		} else {
			ch, err = cac.NewWithDataSpan(arg)
		}
	}()
	if perr != nil {
		return "C04/panic", perr
	}
	dataLen := c.Len
	if c.Ctor == "NewWithDataSpan" {
		dataLen = c.Len - 8
	}
	inRange := dataLen >= 1 && dataLen <= cs
	if inRange && err != nil {
		return "C04/ctor-rejects-in-range", fmt.Errorf("%s(%d bytes): %v", c.Ctor, c.Len, err)
	}
	if err != nil {
		return "", nil // out of the range the statement speaks about: nothing asserted
	}
	if ch == nil {
		return "C04/ctor-nil", fmt.Errorf("%s(%d bytes) returned nil chunk and nil error", c.Ctor, c.Len)
	}
	if !bytes.Equal(arg, keep) {
		return "C04/input-modified", fmt.Errorf("%s modified its argument", c.Ctor)
	}
	// whatever the constructor returns is judged by the validity predicate of the statement
	want := ref.CACValid(ch.Address().Bytes(), ch.Data())
	got, verr := valid(ch.Address().Bytes(), ch.Data())
	if verr != nil {
		return "C04/panic", verr
	}
	if got != want {
		return sigFor(want, len(ch.Data())), fmt.Errorf("%s(%d bytes): Valid=%v reference=%v", c.Ctor, c.Len, got, want)
	}
	if !inRange {
		return "", nil
	}
	var wantPayload []byte
	if c.Ctor == "New" {
		wantPayload = append(ref.Span(uint64(c.Len)), arg...)
	} else {
		wantPayload = arg
	}
	if !bytes.Equal(ch.Data(), wantPayload) {
		return "C04/ctor-payload", fmt.Errorf("%s(%d bytes): payload is not span||data (len %d, first bytes %x)", c.Ctor, c.Len, len(ch.Data()), head(ch.Data(), 16))
	}
	if !bytes.Equal(ch.Address().Bytes(), ref.CACAddr(wantPayload)) {
		return "C04/ctor-address", fmt.Errorf("%s(%d bytes): address %x want %x", c.Ctor, c.Len, ch.Address().Bytes(), ref.CACAddr(wantPayload))
	}
	if !got {
		return "C04/created-chunk-invalid", fmt.Errorf("%s(%d bytes): created chunk is not valid", c.Ctor, c.Len)
	}
	return "", nil
}

func head(b []byte, n int) []byte {
	if len(b) < n {
		return b
	}
	return b[:n]
}

// ---- generators ---------------------------------------------------------------------

func genSpan(t *rapid.T, dataLen int) string {
	switch rapid.IntRange(0, 3).Draw(t, "span_kind") {
	case 0:
		if dataLen < 0 {
			dataLen = 0
		}
		return hex.EncodeToString(ref.Span(uint64(dataLen)))
	case 1:
		return "0000000000000000"
	default:
		return hex.EncodeToString(rapid.SliceOfN(rapid.Byte(), 8, 8).Draw(t, "span"))
	}
}

func genMask(t *rapid.T) byte {
	return rapid.OneOf(rapid.SampledFrom([]byte{0x01, 0x80, 0xff}), rapid.ByteRange(1, 255)).Draw(t, "mask")
}

func genCase(t *rapid.T) kase {
	var c kase
	c.PayloadLen = rapid.OneOf(
		rapid.SampledFrom([]int{0, 1, 2, 3, 4, 5, 6, 7, 8, 8, 9, 40, 71, 72, 73, cs + 7, cs + 8, cs + 8, cs + 9, cs + 4096}),
		rapid.IntRange(8, 300),
		rapid.IntRange(8, 300),
		rapid.IntRange(8, 8200),
		rapid.IntRange(8, 8200),
		rapid.IntRange(8, cs+8),
	).Draw(t, "payload_len")
	c.Fill = rapid.SampledFrom([]string{"rnd", "rnd", "rnd", "zero", "ff", "zerohead"}).Draw(t, "fill")
	c.Seed = rapid.Uint64().Draw(t, "seed")
	c.Span = genSpan(t, c.PayloadLen-8)
	inRange := c.PayloadLen >= 8 && c.PayloadLen <= cs+8
	if inRange {
		c.AddrKind = rapid.SampledFrom([]string{"ref", "ref", "ref", "ref", "ref", "ref", "random", "ref-31", "ref-33", "empty"}).Draw(t, "addr_kind")
	} else if c.PayloadLen > cs+8 {
		c.AddrKind = rapid.SampledFrom([]string{"ref-truncated", "ref-truncated", "random"}).Draw(t, "addr_kind")
	} else {
		c.AddrKind = rapid.SampledFrom([]string{"ref", "random", "empty"}).Draw(t, "addr_kind")
	}
	if c.AddrKind == "random" || c.AddrKind == "ref-33" {
		c.AddrSeed = rapid.Uint64().Draw(t, "addr_seed")
	}
	if inRange && c.AddrKind == "ref" {
		big := c.PayloadLen > 16384
		// one mutation of every class, plus address bytes (all 32 when the payload is small)
		c.Muts = append(c.Muts, mutation{"span", rapid.IntRange(0, 7).Draw(t, "span_i"), genMask(t)})
		if c.PayloadLen > 8 {
			n := c.PayloadLen - 8
			c.Muts = append(c.Muts,
				mutation{"data", 0, genMask(t)},
				mutation{"data", n - 1, genMask(t)},
				mutation{"data", rapid.IntRange(0, n-1).Draw(t, "data_i"), genMask(t)})
		}
		if big {
			c.Muts = append(c.Muts, mutation{"addr", 0, genMask(t)}, mutation{"addr", 31, genMask(t)},
				mutation{"addr", rapid.IntRange(0, 31).Draw(t, "addr_i"), genMask(t)})
		} else {
			for i := 0; i < 32; i++ {
				c.Muts = append(c.Muts, mutation{"addr", i, genMask(t)})
			}
		}
	}
	return c
}

func record(r *evid.Rec, c kase) {
	inRange := c.PayloadLen >= 8 && c.PayloadLen <= cs+8
	cls := []string{"addr=" + c.AddrKind, "fill=" + c.Fill}
	switch {
	case c.PayloadLen < 8:
		cls = append(cls, "payload<8")
	case c.PayloadLen == 8:
		cls = append(cls, "payload=8(empty data)")
	case c.PayloadLen == cs+8:
		cls = append(cls, "payload=CS+8")
	case c.PayloadLen > cs+8:
		cls = append(cls, "payload>CS+8")
	case c.PayloadLen > 16384:
		cls = append(cls, "payload-large")
	default:
		cls = append(cls, "payload-small")
	}
	if inRange && c.AddrKind == "ref" {
		cls = append(cls, "valid-chunk")
	}
	for _, m := range c.Muts {
		switch m.Where {
		case "addr":
			cls = append(cls, fmt.Sprintf("mut:addr-byte-%02d", m.Index))
		case "span":
			cls = append(cls, "mut:span-byte")
		default:
			switch {
			case c.PayloadLen <= 8:
			case m.Index == 0:
				cls = append(cls, "mut:data-first")
			case m.Index == c.PayloadLen-9:
				cls = append(cls, "mut:data-last")
			default:
				cls = append(cls, "mut:data-random")
			}
		}
	}
	nt := len(c.Muts) > 0 || !inRange || c.AddrKind != "ref"
	r.Case(evid.Hash64(c), nt, cls...)
}

func mustJSON(v interface{}) string {
	b, _ := json.Marshal(v)
	return string(b)
}

// ---- tests ---------------------------------------------------------------------------

func TestC04_BoundarySweep(t *testing.T) {
	r := evid.Get(id)
	evid.Finish(t, r)
	r.SetRule(ruleText)
	var lens []int
	for n := 0; n <= 72; n++ {
		lens = append(lens, n)
	}
	lens = append(lens, cs+6, cs+7, cs+8, cs+9, cs+10)
	for _, n := range lens {
		for _, kind := range []string{"ref", "random", "ref-31", "ref-33", "empty"} {
			c := kase{PayloadLen: n, Fill: "rnd", Seed: uint64(n) + 1, Span: hex.EncodeToString(ref.Span(uint64(n) * 3)), AddrKind: kind, AddrSeed: 99}
			if n > cs+8 && kind == "ref" {
				c.AddrKind = "ref-truncated"
			}
			if kind == "ref" && n >= 8 && n <= cs+8 {
				masks := []byte{0x01, 0x80, 0xff}
				if n > 1000 {
					masks = []byte{0x01 << uint(n%8)}
				}
				for _, m := range masks {
					for i := 0; i < 32; i++ {
						c.Muts = append(c.Muts, mutation{"addr", i, m})
					}
					for i := 0; i < 8; i++ {
						c.Muts = append(c.Muts, mutation{"span", i, m})
					}
					if n <= 1000 {
						for i := 0; i < n-8; i++ {
							c.Muts = append(c.Muts, mutation{"data", i, m})
						}
					} else {
						c.Muts = append(c.Muts, mutation{"data", 0, m}, mutation{"data", n - 9, m}, mutation{"data", cs - 1, m}, mutation{"data", cs / 2, m})
					}
				}
			}
			if sig, err := run(c); err != nil {
				t.Fatalf("%s", evid.Violation(id, sig, fmt.Sprintf("%v case=%s", err, mustJSON(c))))
			}
			record(r, c)
		}
	}
	r.Exhaustive()
}

func TestC04_Valid(t *testing.T) {
	r := evid.Get(id)
	evid.Finish(t, r)
	r.SetRule(ruleText)
	evid.Checks(1200)
	rapid.Check(t, func(t *rapid.T) {
		c := genCase(t)
		if sig, err := run(c); err != nil {
			t.Fatalf("%s", evid.Violation(id, sig, fmt.Sprintf("%v case=%s", err, mustJSON(c))))
		}
		record(r, c)
		r.Sample(c)
	})
}

func TestC04_Constructors(t *testing.T) {
	r := evid.Get(id)
	evid.Finish(t, r)
	r.SetRule(ruleText)
	rec := func(c ckase) {
		dataLen := c.Len
		if c.Ctor == "NewWithDataSpan" {
			dataLen -= 8
		}
		cls := []string{"ctor=" + c.Ctor}
		switch {
		case dataLen < 1:
			cls = append(cls, "ctor:data<1(not asserted beyond Valid<=>reference)")
		case dataLen > cs:
			cls = append(cls, "ctor:data>CS(not asserted beyond Valid<=>reference)")
		case dataLen == cs:
			cls = append(cls, "ctor:data=CS")
		case dataLen == 1:
			cls = append(cls, "ctor:data=1")
		default:
			cls = append(cls, "ctor:data-in-range")
		}
		r.Case(evid.Hash64("ctor", c), dataLen == 1 || dataLen >= cs-1 || dataLen < 1, cls...)
	}
	// boundaries, both constructors
	for _, ctor := range []string{"New", "NewWithDataSpan"} {
		off := 0
		if ctor == "NewWithDataSpan" {
			off = 8
		}
		for _, dl := range []int{-8, -1, 0, 1, 2, 31, 32, 33, 63, 64, 65, 4095, 4096, 4097, cs - 1, cs, cs + 1, cs + 9} {
			if dl+off < 0 {
				continue
			}
			c := ckase{Ctor: ctor, Len: dl + off, Fill: "rnd", Seed: uint64(dl + 77), Span: hex.EncodeToString(ref.Span(uint64(dl) + 5))}
			if sig, err := runCtor(c); err != nil {
				t.Fatalf("%s", evid.Violation(id, sig, fmt.Sprintf("%v case=%s", err, mustJSON(c))))
			}
			rec(c)
		}
	}
	evid.Checks(400)
	rapid.Check(t, func(t *rapid.T) {
		var c ckase
		c.Ctor = rapid.SampledFrom([]string{"New", "NewWithDataSpan"}).Draw(t, "ctor")
		off := 0
		if c.Ctor == "NewWithDataSpan" {
			off = 8
		}
		dl := rapid.OneOf(
			rapid.SampledFrom([]int{-8, -3, 0, 1, 2, 32, 64, cs - 1, cs, cs + 1, cs + 9}),
			rapid.IntRange(1, 300), rapid.IntRange(1, 300), rapid.IntRange(1, 8200), rapid.IntRange(1, cs),
		).Draw(t, "data_len")
		if dl+off < 0 {
			dl = -off
		}
		c.Len = dl + off
		c.Fill = rapid.SampledFrom([]string{"rnd", "rnd", "zero", "ff", "zerohead"}).Draw(t, "fill")
		c.Seed = rapid.Uint64().Draw(t, "seed")
		if c.Ctor == "NewWithDataSpan" {
			c.Span = genSpan(t, dl)
		}
		if sig, err := runCtor(c); err != nil {
			t.Fatalf("%s", evid.Violation(id, sig, fmt.Sprintf("%v case=%s", err, mustJSON(c))))
		}
		rec(c)
		r.Sample(c)
	})
}
