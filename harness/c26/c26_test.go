package c26

import (
	"errors"
	"fmt"
	"io"
	"os"
	"sync"
	"testing"
	"time"

	"github.com/gauss-project/aurorafs/pkg/blocker"
	"github.com/gauss-project/aurorafs/pkg/boson"
	"github.com/gauss-project/aurorafs/pkg/logging"
	"github.com/gauss-project/aurorafs/pkg/p2p"
	"github.com/sirupsen/logrus"
	"pgregory.net/rapid"
	"verifharness/internal/evid"
)

const id = "C26"

const (
	sigUnflagged = "C26/blocklisted-peer-that-is-not-flagged"
	sigEarly     = "C26/blocklisted-before-flag-timeout"
	sigMissed    = "C26/not-blocklisted-after-flag-timeout"
	sigTwice     = "C26/blocklisted-twice-in-one-flag-period"
	sigOutside   = "C26/blocklist-call-outside-sweep"
	sigPanic     = "C26/panic-in-code-under-test"
	sigHarness   = "C26/harness-error"
)

// tick length of the code's sequencer during this check (set through the hook)
const resolution = time.Millisecond

func init() { blocker.VerifSetSequencerResolution(resolution) }

// ---- the case --------------------------------------------------------------------

// op is one step of the schedule. Kinds:
//
//	flag    Flag(peer P)            (a failed health check)
//	unflag  Unflag(peer P)          (a successful one)
//	prune   PruneUnseen(peers in Mask)
//	net     network status becomes Net (1 available, 2 unavailable, 0 unknown)
//	tick    N sequencer ticks, each sampling the current network status
//	sweep   one run of the blocking sweep
type op struct {
	Kind string `json:"k"`
	P    int    `json:"p,omitempty"`
	Mask int    `json:"mask,omitempty"`
	Dup  int    `json:"dup,omitempty"` // prune: peers of Mask that the seen list names a second time
	Net  int    `json:"net,omitempty"`
	N    int    `json:"n,omitempty"`
}

type kase struct {
	Peers       int  `json:"peers"`         // population size
	TimeoutT    int  `json:"timeout_ticks"` // flag timeout in whole ticks
	TimeoutFrac bool `json:"timeout_frac"`  // plus half a tick (timeout not a multiple of the resolution)
	ErrEvery    int  `json:"err_every"`     // every n-th Blocklist call returns an error (0: never)
	Ops         []op `json:"ops"`
}

func peerAddr(i int) boson.Address {
	b := make([]byte, 32)
	b[0] = byte(0x10 + i)
	b[31] = byte(i)
	return boson.NewAddress(b)
}

// ---- harness-owned network status / blocklist recorder ---------------------------------

type blockCall struct {
	Peer     int
	Duration time.Duration
	Step     int // index of the op during which the call happened (-1: outside any step)
}

// netStub is the p2p.Blocklister given to the blocker. The sequencer goroutine of the
// blocker parks inside NetworkStatus until the harness releases it with the status of
// the tick; while it is parked, every other NetworkStatus call (the synchronous one in
// Flag, made on the harness goroutine) is answered at once with the current status.
type netStub struct {
	mu       sync.Mutex
	parked   bool
	closing  bool
	net      p2p.NetworkStatus
	arrive   chan struct{}
	release  chan p2p.NetworkStatus
	calls    []blockCall
	step     int
	errEvery int
	addrIdx  map[string]int
	syncSeen int
}

func newNetStub(peers, errEvery int) *netStub {
	s := &netStub{arrive: make(chan struct{}, 1), release: make(chan p2p.NetworkStatus), net: p2p.NetworkStatusAvailable,
		errEvery: errEvery, addrIdx: map[string]int{}, step: -1}
	for i := 0; i < peers; i++ {
		s.addrIdx[peerAddr(i).ByteString()] = i
	}
	return s
}

func (s *netStub) NetworkStatus() p2p.NetworkStatus {
	s.mu.Lock()
	if s.closing {
		s.mu.Unlock()
		return p2p.NetworkStatusUnavailable
	}
	if s.parked {
		v := s.net
		s.syncSeen++
		s.mu.Unlock()
		return v
	}
	s.parked = true
	s.mu.Unlock()
	s.arrive <- struct{}{}
	return <-s.release
}

func (s *netStub) Blocklist(overlay boson.Address, d time.Duration, _ string) error {
	s.mu.Lock()
	defer s.mu.Unlock()
	i, ok := s.addrIdx[overlay.ByteString()]
	if !ok {
		i = -1
	}
	s.calls = append(s.calls, blockCall{Peer: i, Duration: d, Step: s.step})
	if s.errEvery > 0 && len(s.calls)%s.errEvery == 0 {
		return errors.New("verif: blocklist failed")
	}
	return nil
}

var errParkTimeout = errors.New("sequencer goroutine did not reach NetworkStatus within 60s")

func (s *netStub) waitParked() error {
	select {
	case <-s.arrive:
		return nil
	case <-time.After(60 * time.Second):
		return errParkTimeout
	}
}

// tick lets the parked sequencer goroutine finish exactly one tick with status v and
// waits until it is parked again (so its sequence update, if any, has happened).
func (s *netStub) tick(v p2p.NetworkStatus) error {
	s.mu.Lock()
	s.parked = false
	s.mu.Unlock()
	s.release <- v
	return s.waitParked()
}

func (s *netStub) shutdown() {
	s.mu.Lock()
	s.closing = true
	was := s.parked
	s.parked = false
	s.mu.Unlock()
	if was {
		s.release <- p2p.NetworkStatusUnavailable
	}
}

// ---- model ----------------------------------------------------------------------------

// mpeer is the model's view of one peer. Times are counts of available ticks.
type mpeer struct {
	definite bool // flagged by a Flag made while the network was available, no success/prune/block since
	defAt    int
	// A Flag made while the network was not available: the statement does not say whether
	// it starts a flag period (the code ignores it). Nothing is asserted about a peer whose
	// only flags are of this kind, in either direction.
	maybe   bool
	maybeAt int
}

type stats struct {
	nontrivial       bool
	unavailTickInFP  bool
	unflagBeforeTO   bool
	pruneFlagged     bool
	pruneDup         bool
	blocked          int
	sweepsWithBlocks int
	reflagAfterBlock bool
	flagIgnoredNet   int
	errReturned      int
	availTicks       int
	otherTicks       int
	seqMismatch      bool
	syncCalls        int
}

func statusOf(n int) p2p.NetworkStatus {
	switch n {
	case 1:
		return p2p.NetworkStatusAvailable
	case 2:
		return p2p.NetworkStatusUnavailable
	}
	return p2p.NetworkStatusUnknown
}

func run(c kase) (st stats, sig string, err error) {
	stub := newNetStub(c.Peers, c.ErrEvery)
	timeout := time.Duration(c.TimeoutT) * resolution
	if c.TimeoutFrac {
		timeout += resolution / 2
	}
	var b *blocker.Blocker
	closed := false
	closeAll := func() {
		if !closed && b != nil {
			closed = true
			stub.shutdown()
			_ = b.Close()
		}
	}
	defer closeAll()
	defer func() {
		if e := recover(); e != nil {
			sig, err = sigPanic, fmt.Errorf("panic: %v", e)
		}
	}()
	cbCount := 0
	b = blocker.New(stub, timeout, 7*time.Minute, time.Hour, func(boson.Address) { cbCount++ }, logging.New(io.Discard, logrus.PanicLevel))
	if e := stub.waitParked(); e != nil {
		return st, sigHarness, e
	}

	model := make([]mpeer, c.Peers)
	ticks := 0 // available ticks so far
	net := 1
	flaggedAny := func() bool {
		for _, p := range model {
			if p.definite {
				return true
			}
		}
		return false
	}
	// condition of the statement: flagged for longer than the timeout, counted in available ticks
	over := func(since int) bool { return time.Duration(ticks-since)*resolution > timeout }
	everBlocked := make([]bool, c.Peers)

	for i, o := range c.Ops {
		stub.mu.Lock()
		stub.step = i
		before := len(stub.calls)
		stub.mu.Unlock()

		var must, may []bool
		switch o.Kind {
		case "flag":
			p := o.P % c.Peers
			b.Flag(peerAddr(p))
			m := &model[p]
			if net == 1 {
				if !m.definite {
					m.definite, m.defAt = true, ticks
					if everBlocked[p] {
						st.reflagAfterBlock = true
					}
				}
			} else {
				st.flagIgnoredNet++
				if !m.definite && !m.maybe {
					m.maybe, m.maybeAt = true, ticks
				}
			}
		case "unflag":
			p := o.P % c.Peers
			b.Unflag(peerAddr(p))
			if model[p].definite && !over(model[p].defAt) {
				st.unflagBeforeTO = true
			}
			model[p] = mpeer{}
		case "prune":
			var seen []boson.Address
			for p := 0; p < c.Peers; p++ {
				if o.Mask&(1<<uint(p)) != 0 {
					seen = append(seen, peerAddr(p))
				} else {
					if model[p].definite {
						st.pruneFlagged = true
					}
					model[p] = mpeer{}
				}
			}
			for p := 0; p < c.Peers; p++ {
				if o.Mask&o.Dup&(1<<uint(p)) != 0 {
					seen = append(seen, peerAddr(p))
					st.pruneDup = true
				}
			}
			b.PruneUnseen(seen)
		case "net":
			net = o.Net
			stub.mu.Lock()
			stub.net = statusOf(net)
			stub.mu.Unlock()
		case "tick":
			for k := 0; k < o.N; k++ {
				if e := stub.tick(statusOf(net)); e != nil {
					return st, sigHarness, e
				}
				if net == 1 {
					ticks++
					st.availTicks++
				} else {
					st.otherTicks++
					if flaggedAny() {
						st.unavailTickInFP = true
					}
				}
			}
			if b.VerifSequence() != uint64(ticks) {
				st.seqMismatch = true
			}
		case "sweep":
			must = make([]bool, c.Peers)
			may = make([]bool, c.Peers)
			for p, m := range model {
				if m.definite && over(m.defAt) {
					must[p], may[p] = true, true
				}
				if m.maybe && over(m.maybeAt) {
					may[p] = true
				}
			}
			b.VerifSweep()
		default:
			return st, sigHarness, fmt.Errorf("unknown op %q", o.Kind)
		}

		stub.mu.Lock()
		calls := append([]blockCall{}, stub.calls[before:]...)
		stub.step = -1
		stub.mu.Unlock()

		if o.Kind != "sweep" {
			if len(calls) > 0 {
				return st, sigOutside, fmt.Errorf("op #%d %s: Blocklist(peer %d) called outside a sweep", i, o.Kind, calls[0].Peer)
			}
			continue
		}
		got := make([]int, c.Peers)
		for _, cl := range calls {
			if cl.Peer < 0 {
				return st, sigUnflagged, fmt.Errorf("sweep at op #%d blocklisted an address that was never flagged", i)
			}
			got[cl.Peer]++
			m := model[cl.Peer]
			if !may[cl.Peer] {
				if !m.definite && !m.maybe {
					return st, sigUnflagged, fmt.Errorf("sweep at op #%d blocklisted peer %d which is not flagged (never flagged, or succeeded / pruned / already blocklisted since)", i, cl.Peer)
				}
				since := m.defAt
				if !m.definite || (m.maybe && m.maybeAt < since) {
					since = m.maybeAt
				}
				return st, sigEarly, fmt.Errorf("sweep at op #%d blocklisted peer %d after %d available ticks of %v flagged; flag timeout %v", i, cl.Peer, ticks-since, resolution, timeout)
			}
			if got[cl.Peer] > 1 {
				return st, sigTwice, fmt.Errorf("sweep at op #%d blocklisted peer %d twice", i, cl.Peer)
			}
		}
		for p := range model {
			if must[p] && got[p] == 0 {
				return st, sigMissed, fmt.Errorf("sweep at op #%d did not blocklist peer %d, flagged for %d available ticks of %v; flag timeout %v", i, p, ticks-model[p].defAt, resolution, timeout)
			}
			if got[p] > 0 {
				model[p] = mpeer{} // the flag period ended with its one blocklisting
				everBlocked[p] = true
				st.blocked++
			}
		}
		if len(calls) > 0 {
			st.sweepsWithBlocks++
		}
	}
	stub.mu.Lock()
	st.syncCalls = stub.syncSeen
	total := len(stub.calls)
	stub.mu.Unlock()
	if c.ErrEvery > 0 {
		st.errReturned = total / c.ErrEvery
	}
	_ = cbCount
	closeAll()
	// nothing may be blocklisted by shutting down
	stub.mu.Lock()
	after := len(stub.calls)
	stub.mu.Unlock()
	if after != total {
		return st, sigOutside, fmt.Errorf("Blocklist called during Close")
	}
	st.nontrivial = st.unavailTickInFP || st.unflagBeforeTO
	return st, "", nil
}

// ---- generator --------------------------------------------------------------------------

func genCase(t *rapid.T) kase {
	var c kase
	c.Peers = rapid.IntRange(1, 4).Draw(t, "peers")
	c.TimeoutT = rapid.IntRange(2, 5).Draw(t, "timeout_ticks")
	c.TimeoutFrac = rapid.IntRange(0, 3).Draw(t, "frac") == 0
	if rapid.IntRange(0, 4).Draw(t, "err") == 0 {
		c.ErrEvery = rapid.IntRange(1, 3).Draw(t, "err_every")
	}
	maxOps := 40
	if evid.Thorough() {
		maxOps = 80
	}
	n := rapid.IntRange(1, maxOps).Draw(t, "nops")
	kinds := []string{"flag", "flag", "flag", "flag", "unflag", "prune", "net", "net", "tick", "tick", "tick", "tick", "tick", "sweep", "sweep", "sweep"}
	for i := 0; i < n; i++ {
		o := op{Kind: rapid.SampledFrom(kinds).Draw(t, "kind")}
		switch o.Kind {
		case "flag", "unflag":
			o.P = rapid.IntRange(0, c.Peers-1).Draw(t, "p")
		case "prune":
			o.Mask = rapid.IntRange(0, 1<<uint(c.Peers)-1).Draw(t, "mask")
			if rapid.Bool().Draw(t, "withdup") {
				o.Dup = o.Mask & rapid.IntRange(0, 1<<uint(c.Peers)-1).Draw(t, "dup")
			}
		case "net":
			o.Net = rapid.SampledFrom([]int{1, 1, 1, 1, 2, 2, 0}).Draw(t, "net")
		case "tick":
			o.N = rapid.SampledFrom([]int{1, 1, 2, 2, 3, 3}).Draw(t, "n")
		}
		c.Ops = append(c.Ops, o)
	}
	return c
}

func record(r *evid.Rec, c kase, st stats) {
	cls := []string{}
	add := func(b bool, s string) {
		if b {
			cls = append(cls, s)
		}
	}
	add(st.unavailTickInFP, "unavailable-tick-inside-flag-period")
	add(st.unflagBeforeTO, "unflag-before-timeout")
	add(st.pruneFlagged, "prune-of-flagged-peer")
	add(st.pruneDup, "prune-list-names-a-peer-twice")
	add(st.blocked > 0, "some-peer-blocklisted")
	add(st.blocked > 1, "several-blocklistings")
	add(st.reflagAfterBlock, "re-flag-after-blocklisting")
	add(st.flagIgnoredNet > 0, "flag-while-network-not-available(not asserted)")
	add(st.errReturned > 0, "blocklist-returned-error")
	add(c.TimeoutFrac, "timeout-not-multiple-of-tick")
	add(st.seqMismatch, "HARNESS-SANITY:sequence-differs-from-model")
	add(!st.seqMismatch && st.availTicks+st.otherTicks > 0, "sequence-equals-model-after-every-tick-op")
	r.ClassN("ticks:available", st.availTicks)
	r.ClassN("ticks:not-available", st.otherTicks)
	r.ClassN("blocklist-calls", st.blocked)
	r.ClassN("flag-sync-status-calls", st.syncCalls)
	r.Case(evid.Hash64(c), st.nontrivial, cls...)
	r.Sample(c)
}

func harnessProblem(r *evid.Rec, sig string, err error) bool {
	if sig != sigHarness {
		return false
	}
	r.Class("HARNESS-ERROR(case skipped)")
	r.Note("harness error, case skipped: " + err.Error())
	return true
}

const rule = "rapid draws a schedule of up to 40 (thorough 80) steps over 1-4 peers: Flag(p), Unflag(p), PruneUnseen(list of a subset, some peers named twice), network status := available|unavailable|unknown, 1-3 sequencer ticks, Sweep; flag timeout 2-5 ticks (optionally +1/2 tick), optional errors from Blocklist. The harness owns time: the sequencer resolution is 1 ms through the hook, the blocker's own wake-up is 1 h, its sequencer goroutine parks inside the stub's NetworkStatus and is released once per generated tick with the generated status, VerifSweep runs the real block(). Oracle: model of available ticks since the flag; Blocklist calls happen only in sweeps, only for peers flagged (while available) with no Unflag/prune/blocklisting since and for longer than the timeout, each such peer exactly once. Non-trivial = a non-available tick inside a flag period, or an Unflag before the timeout; distinct by hash of the schedule"

func TestC26_Schedule(t *testing.T) {
	r := evid.Get(id)
	evid.Finish(t, r)
	r.SetRule(rule)

	// hand-written boundary schedules: exactly T ticks (no block), T+1 ticks (block), pause in between
	for T := 2; T <= 4; T++ {
		if os.Getenv("VERIF_C26_RANDOM_ONLY") != "" {
			break // sensitivity aid: judge the generated schedules alone
		}
		for _, frac := range []bool{false, true} {
			base := []op{{Kind: "flag", P: 0}, {Kind: "tick", N: T}, {Kind: "sweep"}, {Kind: "tick", N: 1}, {Kind: "sweep"}, {Kind: "sweep"},
				{Kind: "flag", P: 0}, {Kind: "net", Net: 2}, {Kind: "tick", N: T + 2}, {Kind: "sweep"}, {Kind: "net", Net: 1}, {Kind: "tick", N: T}, {Kind: "sweep"},
				{Kind: "tick", N: 1}, {Kind: "flag", P: 0}, {Kind: "sweep"},
				{Kind: "flag", P: 1}, {Kind: "tick", N: T}, {Kind: "unflag", P: 1}, {Kind: "flag", P: 1}, {Kind: "tick", N: 1}, {Kind: "sweep"},
				{Kind: "flag", P: 0}, {Kind: "tick", N: T + 1}, {Kind: "prune", Mask: 2}, {Kind: "sweep"}}
			c := kase{Peers: 2, TimeoutT: T, TimeoutFrac: frac, Ops: base}
			st, sig, err := run(c)
			if err != nil {
				if harnessProblem(r, sig, err) {
					continue
				}
				t.Fatalf("%s", evid.Violation(id, sig, fmt.Sprintf("%v case=%+v", err, c)))
			}
			record(r, c, st)
		}
	}

	evid.Checks(2500)
	rapid.Check(t, func(t *rapid.T) {
		c := genCase(t)
		st, sig, err := run(c)
		if err != nil {
			if harnessProblem(r, sig, err) {
				return
			}
			t.Fatalf("%s", evid.Violation(id, sig, fmt.Sprintf("%v case=%+v", err, c)))
		}
		record(r, c, st)
	})
}
