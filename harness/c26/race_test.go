package c26

import (
	"fmt"
	"io"
	"sync"
	"testing"
	"time"

	"github.com/gauss-project/aurorafs/pkg/blocker"
	"github.com/gauss-project/aurorafs/pkg/boson"
	"github.com/gauss-project/aurorafs/pkg/logging"
	"github.com/gauss-project/aurorafs/pkg/p2p"
	"github.com/sirupsen/logrus"
	"pgregory.net/rapid"
	"verifharness/internal/evid"
)

// plainStub: always-available network, thread-safe recorder.
type plainStub struct {
	mu    sync.Mutex
	calls []string
}

func (s *plainStub) NetworkStatus() p2p.NetworkStatus { return p2p.NetworkStatusAvailable }
func (s *plainStub) Blocklist(a boson.Address, _ time.Duration, _ string) error {
	s.mu.Lock()
	s.calls = append(s.calls, a.ByteString())
	s.mu.Unlock()
	return nil
}

type rcase struct {
	Workers [][]op `json:"workers"` // per goroutine: flag / unflag / prune / sweep ops over peers 0..2
}

// TestC26_Concurrent_Race: kademlia calls Flag/Unflag from one goroutine per peer while the
// blocker's own goroutines tick and sweep. Run under the race detector: the oracle is the
// detector itself, plus one schedule-independent fact: peer 3 is never flagged, so it must
// never be blocklisted.
func TestC26_Concurrent_Race(t *testing.T) {
	r := evid.Get(id)
	evid.Finish(t, r)
	r.SetRule("race variant: 2-4 goroutines run generated Flag/Unflag/PruneUnseen/Sweep lists over 3 peers concurrently with the blocker's real 1 ms sequencer; oracle: race detector, and the never-flagged peer 3 is never blocklisted")
	evid.Checks(60)
	rapid.Check(t, func(t *rapid.T) {
		var c rcase
		nw := rapid.IntRange(2, 4).Draw(t, "workers")
		for w := 0; w < nw; w++ {
			n := rapid.IntRange(1, 30).Draw(t, "n")
			var ops []op
			for i := 0; i < n; i++ {
				o := op{Kind: rapid.SampledFrom([]string{"flag", "flag", "unflag", "prune", "sweep", "sleep"}).Draw(t, "k")}
				o.P = rapid.IntRange(0, 2).Draw(t, "p")
				o.Mask = rapid.IntRange(0, 7).Draw(t, "mask")
				ops = append(ops, o)
			}
			c.Workers = append(c.Workers, ops)
		}
		stub := &plainStub{}
		b := blocker.New(stub, 2*resolution, time.Minute, 2*resolution, nil, logging.New(io.Discard, logrus.PanicLevel))
		var wg sync.WaitGroup
		for _, ops := range c.Workers {
			wg.Add(1)
			go func(ops []op) {
				defer wg.Done()
				for _, o := range ops {
					switch o.Kind {
					case "flag":
						b.Flag(peerAddr(o.P))
					case "unflag":
						b.Unflag(peerAddr(o.P))
					case "prune":
						var seen []boson.Address
						for p := 0; p < 3; p++ {
							if o.Mask&(1<<uint(p)) != 0 {
								seen = append(seen, peerAddr(p))
							}
						}
						b.PruneUnseen(seen)
					case "sweep":
						b.VerifSweep()
					case "sleep":
						time.Sleep(resolution)
					}
				}
			}(ops)
		}
		wg.Wait()
		_ = b.Close()
		stub.mu.Lock()
		calls := append([]string{}, stub.calls...)
		stub.mu.Unlock()
		for _, a := range calls {
			if a == peerAddr(3).ByteString() {
				t.Fatalf("%s", evid.Violation(id, sigUnflagged, fmt.Sprintf("never-flagged peer 3 blocklisted; case=%+v", c)))
			}
		}
		cls := []string{"race-variant"}
		if len(calls) > 0 {
			cls = append(cls, "race-variant:some-blocklisting")
		}
		r.Case(evid.Hash64("race", c), true, cls...)
	})
}
