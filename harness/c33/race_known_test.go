package c33

// raceRestrictKnown narrows the concurrent phase of the -race run further: with the
// known unlocked reads in TrafficInfo/AvailableBalance every writer of a per-peer
// cheque amount that runs next to a PublishHeader goroutine is reported, including
// ReceiveCheque's plain pointer store.
func raceRestrictKnown(rs restrict) restrict {
	if known(sigRace) {
		rs.recvAfter = true
	}
	return rs
}
