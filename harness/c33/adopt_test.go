package c33

import (
	"context"
	"fmt"
	"math/big"
	"runtime/debug"
	"testing"

	chequePkg "github.com/gauss-project/aurorafs/pkg/settlement/traffic/cheque"
	"pgregory.net/rapid"
	"verifharness/internal/evid"
)

// Sequential variant with the traffic handshake as an operation: a peer that reconnects presents
// the last cheque it holds from this node; if that is more than the node's own record (state lost
// or behind), the node adopts it. Every call returns before the next starts, so every value read
// through the service's own accessors before a restart is a value "before the restart" in the
// sense of the property, and must be restored to at least that.

type aop struct {
	K string `json:"k"` // retr | tran | pay | recv | hs | restart | refresh
	P int    `json:"p"`
	A uint64 `json:"a,omitempty"`
}

type acase struct {
	Peers     int      `json:"peers"`
	Threshold uint64   `json:"threshold"`
	CashedOut []uint64 `json:"cashed_out"`
	CashedIn  []uint64 `json:"cashed_in"`
	Ops       []aop    `json:"ops"`
}

type astats struct{ adopted, adoptedThenRestart, restarts, paysAfterAdopt int }

type snapshot struct{ recv, sent, lastSent, lastRecv, sentSettle, recvSettle []*big.Int }

func observe(w *world) (snapshot, error) {
	var s snapshot
	cheques, err := w.cur.svc.TrafficCheques()
	if err != nil {
		return s, err
	}
	for _, p := range w.peers {
		r, e1 := w.cur.svc.TotalReceived(p.overlay)
		t, e2 := w.cur.svc.TotalSent(p.overlay)
		if e1 != nil || e2 != nil {
			return s, fmt.Errorf("totals of peer %s: %v %v", p.overlay, e1, e2)
		}
		s.recv, s.sent = append(s.recv, new(big.Int).Set(r)), append(s.sent, new(big.Int).Set(t))
		ls, lr := big.NewInt(0), big.NewInt(0)
		if cq, err := w.cur.svc.LastSentCheque(p.overlay); err == nil && cq != nil && cq.CumulativePayout != nil {
			ls = new(big.Int).Set(cq.CumulativePayout)
		}
		if cq, err := w.cur.svc.LastReceivedCheque(p.overlay); err == nil && cq != nil && cq.CumulativePayout != nil {
			lr = new(big.Int).Set(cq.CumulativePayout)
		}
		s.lastSent, s.lastRecv = append(s.lastSent, ls), append(s.lastRecv, lr)
		ss, rs := big.NewInt(0), big.NewInt(0)
		for _, tc := range cheques {
			if tc.Peer.Equal(p.overlay) {
				ss, rs = new(big.Int).Set(tc.SentSettlements), new(big.Int).Set(tc.ReceivedSettlements)
			}
		}
		s.sentSettle, s.recvSettle = append(s.sentSettle, ss), append(s.recvSettle, rs)
	}
	return s, nil
}

func runAdopt(c acase) (st astats, sig string, err error) {
	defer func() {
		if r := recover(); r != nil {
			sig, err = "C33/panic", fmt.Errorf("panic: %v\n%s", r, debug.Stack())
		}
	}()
	w, e := newWorld(c.Peers, c.CashedOut, c.CashedIn)
	if e != nil {
		return st, "C33/harness", e
	}
	defer w.close()
	if e := w.boot(); e != nil {
		return st, "C33/op-error", e
	}
	if e := w.handshake(); e != nil {
		return st, "C33/op-error", e
	}
	ctx := context.Background()
	n := c.Peers
	paid := make([]*big.Int, n) // highest cumulative payout this node is known to have paid (emitted or adopted)
	recvCum := make([]*big.Int, n)
	adoptedSince := make([]bool, n)
	for p := 0; p < n; p++ {
		paid[p], recvCum[p] = big.NewInt(0), bu(c.CashedIn[p])
	}
	ops := append(append([]aop{}, c.Ops...), aop{K: "restart"})
	for p := 0; p < n; p++ {
		ops = append(ops, aop{K: "retr", P: p, A: c.Threshold}, aop{K: "pay", P: p})
	}
	ops = append(ops, aop{K: "restart"})
	for i, o := range ops {
		p := o.P % n
		peer := w.peers[p]
		when := fmt.Sprintf("op#%d %s(peer %d, %d)", i, o.K, p, o.A)
		switch o.K {
		case "retr":
			if e := w.cur.svc.PutRetrieveTraffic(peer.overlay, bu(o.A)); e != nil {
				return st, "C33/op-error", fmt.Errorf("%s: %v", when, e)
			}
		case "tran":
			if e := w.cur.svc.PutTransferTraffic(peer.overlay, bu(o.A)); e != nil {
				return st, "C33/op-error", fmt.Errorf("%s: %v", when, e)
			}
		case "pay":
			if e := w.cur.drainHeaders(); e != nil {
				return st, "C33/harness", e
			}
			from := w.proto.count(peer.overlay)
			if e := w.cur.svc.Pay(ctx, peer.overlay, bu(c.Threshold)); e != nil {
				return st, "C33/op-error", fmt.Errorf("%s: %v", when, e)
			}
			for _, cum := range w.proto.list(peer.overlay)[from:] {
				if cum.Cmp(paid[p]) <= 0 {
					return st, "C33/cheque-for-amount-already-paid", fmt.Errorf("%s: a cheque with cumulative payout %v was sent although %v had already been paid (sent or presented by the peer and adopted)", when, cum, paid[p])
				}
				paid[p] = new(big.Int).Set(cum)
				if adoptedSince[p] {
					st.paysAfterAdopt++
				}
			}
		case "recv":
			recvCum[p] = add(recvCum[p], bu(o.A+1))
			if e := w.cur.svc.ReceiveCheque(ctx, peer.overlay, &chequePkg.SignedCheque{
				Cheque:    chequePkg.Cheque{Recipient: selfChain, Beneficiary: peer.chain, CumulativePayout: new(big.Int).Set(recvCum[p])},
				Signature: []byte{0x02},
			}); e != nil {
				return st, "C33/op-error", fmt.Errorf("%s: %v", when, e)
			}
		case "hs":
			// the peer presents a cheque of ours: A above what the node remembers having paid (A=0: the same)
			cum := add(paid[p], bu(o.A))
			e := w.cur.svc.Handshake(peer.overlay, peer.chain, chequePkg.SignedCheque{
				Cheque:    chequePkg.Cheque{Recipient: peer.chain, Beneficiary: selfChain, CumulativePayout: new(big.Int).Set(cum)},
				Signature: []byte{0x01},
			})
			if e != nil {
				return st, "C33/op-error", fmt.Errorf("%s: Handshake with our own cheque for %v: %v", when, cum, e)
			}
			if o.A > 0 {
				st.adopted++
				adoptedSince[p] = true
				paid[p] = cum
			}
		case "refresh":
			if e := w.cur.svc.TrafficInit(); e != nil {
				return st, "C33/op-error", fmt.Errorf("%s: %v", when, e)
			}
		case "restart":
			if e := w.cur.drainHeaders(); e != nil {
				return st, "C33/harness", e
			}
			before, e := observe(w)
			if e != nil {
				return st, "C33/op-error", fmt.Errorf("%s: %v", when, e)
			}
			w.cur.gate.Crash()
			if e := w.boot(); e != nil {
				return st, "C33/op-error", fmt.Errorf("%s: %v", when, e)
			}
			st.restarts++
			after, e := observe(w)
			if e != nil {
				return st, "C33/peer-forgotten", fmt.Errorf("%s: after restart: %v", when, e)
			}
			for q := 0; q < n; q++ {
				if adoptedSince[q] {
					st.adoptedThenRestart++
					adoptedSince[q] = false
				}
				for _, f := range []struct {
					name, sig string
					b, a      *big.Int
				}{
					{"retrieved (consumed) total", "C33/retrieved-total-lost", before.recv[q], after.recv[q]},
					{"transferred (served) total", "C33/transferred-total-lost", before.sent[q], after.sent[q]},
					{"last sent cheque", "C33/sent-cheque-lost", before.lastSent[q], after.lastSent[q]},
					{"last received cheque", "C33/received-cheque-lost", before.lastRecv[q], after.lastRecv[q]},
					{"sent settlements", "C33/sent-cheque-amount-not-restored", before.sentSettle[q], after.sentSettle[q]},
					{"received settlements", "C33/received-cheque-amount-not-restored", before.recvSettle[q], after.recvSettle[q]},
				} {
					if f.a.Cmp(f.b) < 0 {
						return st, f.sig, fmt.Errorf("%s: peer %d: %s was %v before the restart and is %v after it", when, q, f.name, f.b, f.a)
					}
				}
			}
		}
	}
	return st, "", nil
}

func genAdopt(t *rapid.T) acase {
	var c acase
	c.Peers = rapid.IntRange(1, 3).Draw(t, "peers")
	c.Threshold = rapid.Uint64Range(1, 40).Draw(t, "threshold")
	for i := 0; i < c.Peers; i++ {
		c.CashedOut = append(c.CashedOut, rapid.SampledFrom([]uint64{0, 0, 0, 7, 50}).Draw(t, "cashedout"))
		c.CashedIn = append(c.CashedIn, rapid.SampledFrom([]uint64{0, 0, 0, 5, 60}).Draw(t, "cashedin"))
	}
	opGen := rapid.Custom(func(t *rapid.T) aop {
		o := aop{K: rapid.SampledFrom([]string{"retr", "retr", "retr", "tran", "tran", "pay", "pay", "recv", "hs", "hs", "hs", "restart", "restart", "refresh"}).Draw(t, "k"),
			P: rapid.IntRange(0, 2).Draw(t, "p")}
		switch o.K {
		case "retr", "tran", "recv":
			o.A = rapid.Uint64Range(1, 60).Draw(t, "a")
		case "hs":
			o.A = rapid.SampledFrom([]uint64{0, 1, 5, 30, 100, 1000}).Draw(t, "above")
		}
		return o
	})
	c.Ops = rapid.SliceOfN(opGen, 1, 16).Draw(t, "ops")
	return c
}

func TestC33_Sequential_HandshakeAdoption(t *testing.T) {
	r := evid.Get(id)
	evid.Finish(t, r)
	evid.Checks(400)
	rapid.Check(t, func(t *rapid.T) {
		c := genAdopt(t)
		st, sig, err := runAdopt(c)
		if err != nil {
			t.Fatalf("%s", evid.Violation(id, sig, fmt.Sprintf("%v case=%+v", err, c)))
		}
		cls := []string{"sequential-with-handshake"}
		if st.adopted > 0 {
			cls = append(cls, "peer-presented-higher-cheque-adopted")
		}
		if st.adoptedThenRestart > 0 {
			cls = append(cls, "restart-after-adoption")
		}
		if st.paysAfterAdopt > 0 {
			cls = append(cls, "cheque-issued-after-adoption")
		}
		r.Case(evid.Hash64("adopt", c), st.adoptedThenRestart > 0, cls...)
		r.Sample(c)
	})
}
