// Package c33 checks property C33: traffic totals and last cheque amounts of the
// real traffic.Service survive restarts under any interleaving of concurrent
// updates, and no cheque is issued for an amount already paid.
//
// Gated variant: the service runs over internal/gatestore, so the case decides
// which pending state-store write proceeds next. A step starts an update either
// synchronously or "parked" (the op runs on its own goroutine until its write
// arrives at the gate; the step waits for that arrival, an observable event);
// later steps release a parked write, refresh (TrafficInit), or restart the
// node, optionally as a crash that drops the parked writes.
package c33

import (
	"context"
	"encoding/json"
	"fmt"
	"math/big"
	"os"
	"path/filepath"
	"runtime/debug"
	"sync"
	"sync/atomic"
	"testing"
	"time"

	chequePkg "github.com/gauss-project/aurorafs/pkg/settlement/traffic/cheque"
	"pgregory.net/rapid"
	"verifharness/internal/evid"
	"verifharness/internal/gatestore"
)

const (
	id      = "C33"
	waitCap = 60 * time.Second
	// how long a step may neither return nor park before parked writes are released for it
	blockProbe = 3 * time.Second

	sigOverlap = "C33/overlapped-same-peer-updates-persist-stale-total"
	sigRefresh = "C33/refresh-during-update-forgets-traffic"
	sigNoTotals     = "C33/peer-with-cheque-but-no-stored-total-not-reloaded"
	sigRace         = "C33/unlocked-reads-of-per-peer-amounts"
	sigStale        = "C33/refresh-resets-cheque-amount-to-stale-snapshot"
)

type step struct {
	K     string `json:"k"` // retr | tran | pay | recv | refresh | release | restart
	P     int    `json:"p,omitempty"`
	A     uint64 `json:"a,omitempty"`
	Park  bool   `json:"park,omitempty"`  // run the op until its state-store write is parked at the gate
	Crash bool   `json:"crash,omitempty"` // restart: parked writes are lost
	I     int    `json:"i,omitempty"`     // release: which parked write
}

type gcase struct {
	Peers     int      `json:"peers"`
	Threshold uint64   `json:"threshold"`
	CashedOut []uint64 `json:"chain_cashed_out"`
	CashedIn  []uint64 `json:"chain_cashed_in"`
	Steps     []step   `json:"steps"`
}

type parkedOp struct {
	k        string
	p        int
	a        uint64
	cum      *big.Int // recv: cumulative of the cheque
	ticket   *gatestore.Ticket
	release  func()
	done     chan error
	emitted0 int
}

type gstats struct {
	staleWindow, refreshParkedN, blockedReleased, overlapAttempt, overlapAnyKind, overlapSameKind, refreshOverlap, crashWithParked, payAfterRestart, restarts, skippedBusy, paysEmitted, lockHeld int
}

const (
	kRetr = 0
	kTran = 1
)

// run interprets one gated case.
func run(c gcase) (st gstats, sig string, err error) {
	defer func() {
		if r := recover(); r != nil {
			sig, err = "C33/panic", fmt.Errorf("panic: %v\n%s", r, debug.Stack())
		}
	}()
	n := c.Peers
	w, e := newWorld(n, c.CashedOut, c.CashedIn)
	if e != nil {
		return st, "C33/harness", e
	}
	defer w.close()
	if e := w.boot(); e != nil {
		return st, "C33/op-error", e
	}
	if e := w.handshake(); e != nil {
		return st, "C33/op-error", e
	}
	thr := bu(c.Threshold)
	ctx := context.Background()

	// model: what has been acknowledged (the call returned nil)
	var ack [2][]*big.Int
	ackEmitted := make([]*big.Int, n)
	ackRecv := make([]*big.Int, n)
	recvCum := make([]*big.Int, n)
	var overlapFlag, refreshFlag [2][]bool
	staleFlag := make([]bool, n)
	for k := 0; k < 2; k++ {
		ack[k] = make([]*big.Int, n)
		overlapFlag[k] = make([]bool, n)
		refreshFlag[k] = make([]bool, n)
	}
	for p := 0; p < n; p++ {
		// baseline: whatever the first Init restored from the chain
		r, e1 := w.cur.svc.TotalReceived(w.peers[p].overlay)
		s, e2 := w.cur.svc.TotalSent(w.peers[p].overlay)
		if e1 != nil || e2 != nil {
			return st, "C33/op-error", fmt.Errorf("totals after first Init: %v %v", e1, e2)
		}
		ack[kRetr][p], ack[kTran][p] = new(big.Int).Set(r), new(big.Int).Set(s)
		ackEmitted[p], ackRecv[p], recvCum[p] = big.NewInt(0), big.NewInt(0), bu(c.CashedIn[p])
	}
	var parked []*parkedOp
	sinceRestart, inFinal := false, false

	// Pay and ReceiveCheque hold the peer lock across their store write; whether the
	// total updates do is a property of the code under test, probed once per process
	holds := func(k string) bool { return k == "pay" || k == "recv" || updatesHoldPeerLock() }
	lockHeld := func(p int) bool {
		for _, po := range parked {
			if po.p == p && holds(po.k) {
				return true
			}
		}
		return false
	}
	anyLockHeld := func() bool {
		for _, po := range parked {
			if holds(po.k) {
				return true
			}
		}
		return false
	}
	parkedUpdate := func(p, kind int) bool {
		for _, po := range parked {
			if po.p == p && ((kind == kRetr && po.k == "retr") || (kind == kTran && po.k == "tran")) {
				return true
			}
		}
		return false
	}
	// every emitted cheque must exceed every cumulative amount already paid with an acknowledged cheque
	checkEmissions := func(p, from int, when string) (string, error) {
		list := w.proto.list(w.peers[p].overlay)
		for _, cum := range list[from:] {
			st.paysEmitted++
			if cum.Cmp(ackEmitted[p]) <= 0 {
				sig := "C33/cheque-for-amount-already-paid"
				if staleFlag[p] {
					sig = sigStale
				}
				return sig, fmt.Errorf("%s: peer %d was sent a cheque with cumulative payout %v although a cheque for %v had already been sent and acknowledged", when, p, cum, ackEmitted[p])
			}
		}
		return "", nil
	}
	acknowledge := func(po *parkedOp, err error, crashed bool, when string) (string, error) {
		if po.k == "refresh" {
			if err != nil && !crashed {
				return "C33/op-error", fmt.Errorf("%s: TrafficInit failed: %v", when, err)
			}
			return "", nil
		}
		peer := w.peers[po.p].overlay
		if po.k == "pay" {
			if s, e := checkEmissions(po.p, po.emitted0, when); e != nil {
				return s, e
			}
		}
		if err != nil {
			if crashed {
				return "", nil // never acknowledged
			}
			return "C33/op-error", fmt.Errorf("%s: %s(peer %d, %d) failed: %v", when, po.k, po.p, po.a, err)
		}
		switch po.k {
		case "retr":
			ack[kRetr][po.p] = add(ack[kRetr][po.p], bu(po.a))
		case "tran":
			ack[kTran][po.p] = add(ack[kTran][po.p], bu(po.a))
		case "pay":
			if l := w.proto.list(peer); len(l) > po.emitted0 {
				ackEmitted[po.p] = new(big.Int).Set(l[len(l)-1])
				if sinceRestart && !inFinal {
					st.payAfterRestart++
				}
			}
		case "recv":
			ackRecv[po.p] = new(big.Int).Set(po.cum)
		}
		return "", nil
	}
	exec := func(s *session, po *parkedOp) error {
		peer := w.peers[po.p].overlay
		switch po.k {
		case "retr":
			atomic.AddInt64(&s.puts, 1)
			return s.svc.PutRetrieveTraffic(peer, bu(po.a))
		case "tran":
			atomic.AddInt64(&s.puts, 1)
			return s.svc.PutTransferTraffic(peer, bu(po.a))
		case "pay":
			if raceOn && known(sigRace) {
				// known data race: TrafficInfo (run by the PublishHeader goroutine of every update) reads the
				// cheque amounts without the peer lock that Pay writes them under; under the race detector
				// let those goroutines finish first (shape excluded by construction)
				if atomic.LoadInt64(&s.pub.headers) < atomic.LoadInt64(&s.puts) {
					evid.Get(id).Excluded(sigRace)
				}
				if err := s.drainHeaders(); err != nil {
					return err
				}
			}
			return s.svc.Pay(ctx, peer, thr)
		case "recv":
			return s.svc.ReceiveCheque(ctx, peer, &chequePkg.SignedCheque{
				Cheque:    chequePkg.Cheque{Recipient: selfChain, Beneficiary: w.peers[po.p].chain, CumulativePayout: new(big.Int).Set(po.cum)},
				Signature: []byte{0x02},
			})
		}
		return nil
	}
	refreshParked := func() bool {
		for _, po := range parked {
			if po.k == "refresh" {
				return true
			}
		}
		return false
	}
	// awaitAll waits for released ops to return. If one does not return for blockProbe it
	// is taken to wait for a lock that another parked op holds; parked ops are then
	// released oldest first. This only changes the schedule, never an assertion.
	awaitAll := func(queue []*parkedOp, crashed bool, when string) (string, error) {
		for len(queue) > 0 {
			po := queue[0]
			probe := blockProbe
			if len(parked) == 0 {
				probe = waitCap
			}
			select {
			case err := <-po.done:
				queue = queue[1:]
				if po.k == "refresh" {
					for _, q := range parked { // updates still unwritten while the refresh re-read the store
						if q.k == "retr" {
							refreshFlag[kRetr][q.p] = true
						} else if q.k == "tran" {
							refreshFlag[kTran][q.p] = true
						}
					}
				}
				if s, e := acknowledge(po, err, crashed, when); e != nil {
					return s, e
				}
			case <-time.After(probe):
				if len(parked) == 0 {
					return "C33/stuck", fmt.Errorf("%s: %s(peer %d) did not return within %v after it was released", when, po.k, po.p, waitCap)
				}
				st.blockedReleased++
				q := parked[0]
				parked = parked[1:]
				q.release()
				queue = append(queue, q)
			}
		}
		return "", nil
	}
	// releaseAt releases parked[k]. A parked refresh must not complete while an update is
	// still unwritten if that shape is a known finding: those updates are released first.
	releaseAt := func(k int, when string) (string, error) {
		po := parked[k]
		if po.k == "refresh" {
			// the refresh takes every peer lock when it continues: parked writes that hold one go first
			// (a scheduling necessity), and so do unwritten updates if that shape is a known finding
			var first []*parkedOp
			rest := parked[:0:0]
			excl := false
			for _, q := range parked {
				if q != po && q.k != "refresh" && (holds(q.k) || known(sigRefresh)) {
					first = append(first, q)
					excl = excl || !holds(q.k)
				} else {
					rest = append(rest, q)
				}
			}
			if len(first) > 0 {
				if excl {
					evid.Get(id).Excluded(sigRefresh)
				}
				parked = rest
				for _, q := range first {
					q.release()
				}
				if s, e := awaitAll(first, false, when); e != nil {
					return s, e
				}
			}
			for i, q := range parked {
				if q == po {
					k = i
				}
			}
		}
		parked = append(parked[:k:k], parked[k+1:]...)
		po.release()
		return awaitAll([]*parkedOp{po}, false, when)
	}
	verify := func(when string) (string, error) {
		return verifyRestored(w, when, ack, ackEmitted, ackRecv, overlapFlag, refreshFlag)
	}
	restart := func(crash bool, when string) (string, error) {
		if crash {
			if len(parked) > 0 {
				st.crashWithParked++
			}
			w.cur.gate.Crash()
		}
		if crash {
			all := parked
			parked = nil
			for _, po := range all {
				po.release() // store writes: no effect after Crash, they already failed
			}
			if s, e := awaitAll(all, true, when); e != nil {
				return s, e
			}
		}
		for len(parked) > 0 {
			if s, e := releaseAt(0, when); e != nil {
				return s, e
			}
		}
		w.cur.gate.Crash() // the old process is gone: nothing of it may write any more
		if e := w.boot(); e != nil {
			return "C33/op-error", fmt.Errorf("%s: %v", when, e)
		}
		st.restarts++
		sinceRestart = true
		return verify(when)
	}

	for i, s := range c.Steps {
		when := fmt.Sprintf("step#%d %s", i, s.K)
		switch s.K {
		case "retr", "tran", "pay", "recv":
			p := s.P % n
			for _, po := range parked {
				if po.p == p {
					st.overlapAttempt++ // this step meets a parked write of the same peer
					break
				}
			}
			if lockHeld(p) {
				// a parked Pay/ReceiveCheque holds this peer's lock: a synchronous step on it could
				// not return. Use another peer (construction, not rejection).
				found := false
				for d := 1; d < n; d++ {
					if q := (p + d) % n; !lockHeld(q) {
						p, found = q, true
						break
					}
				}
				if !found {
					st.skippedBusy++
					continue
				}
			}
			if s.K == "pay" && len(parked) > 0 && updatesHoldPeerLock() {
				// code that holds peer locks across store writes will usually also need them to compute
				// the available balance in Pay: do not run into the (slow) adaptive release below
				st.skippedBusy++
				continue
			}
			if s.K == "pay" && refreshParked() {
				// the refresh has read the stored cheques and will reset the peer's cheque amount to them
				if known(sigStale) {
					evid.Get(id).Excluded(sigStale)
					continue
				}
				staleFlag[p] = true
				st.staleWindow++
			}
			if s.K == "recv" {
				// chequeStore.ReceiveCheque serialises on one store-wide lock: a second one could not return
				busy := false
				for _, po := range parked {
					busy = busy || po.k == "recv"
				}
				if busy {
					st.skippedBusy++
					continue
				}
			}
			if (s.K == "recv" || s.K == "pay") && known(sigNoTotals) && ack[kRetr][p].Sign() == 0 && ack[kTran][p].Sign() == 0 {
				// known: a peer that has a cheque but no stored total is not reloaded at Init (a Pay can get
				// there only through a not yet persisted update, i.e. with a crash before that write)
				evid.Get(id).Excluded(sigNoTotals)
				continue
			}
			kind := -1
			if s.K == "retr" {
				kind = kRetr
			} else if s.K == "tran" {
				kind = kTran
			}
			if kind >= 0 && parkedUpdate(p, kind) {
				if known(sigOverlap) {
					evid.Get(id).Excluded(sigOverlap)
					kind = 1 - kind // the other total of the same peer: still overlapped on the peer, different key
					if parkedUpdate(p, kind) {
						st.skippedBusy++
						continue
					}
					s.K = []string{"retr", "tran"}[kind]
				} else {
					overlapFlag[kind][p] = true
					st.overlapSameKind++
				}
			}
			for _, po := range parked {
				if po.p == p {
					st.overlapAnyKind++
					break
				}
			}
			po := &parkedOp{k: s.K, p: p, a: s.A, done: make(chan error, 1), emitted0: w.proto.count(w.peers[p].overlay)}
			if s.K == "recv" {
				recvCum[p] = add(recvCum[p], bu(s.A+1))
				po.cum = new(big.Int).Set(recvCum[p])
			}
			var arrived <-chan struct{}
			if s.Park {
				pfx := map[string]string{"retr": pfxRetrieved, "tran": pfxTransfer, "pay": pfxSendCheq, "recv": pfxRecvCheq}[s.K]
				po.ticket = w.cur.gate.Arm(keyFor(pfx, w.peers[p].chain))
				po.release = po.ticket.Release
				arrived = po.ticket.Arrived()
			} else if len(parked) == 0 {
				// nothing is parked, so nothing can legitimately block: run inline
				err := exec(w.cur, po)
				if sg, e := acknowledge(po, err, false, when); e != nil {
					return st, sg, e
				}
				continue
			}
			sess := w.cur
			go func() {
				defer func() {
					if r := recover(); r != nil {
						po.done <- fmt.Errorf("panic: %v\n%s", r, debug.Stack())
					}
				}()
				po.done <- exec(sess, po)
			}()
			// The op either returns or (if parked) arrives at the gate. If it does neither for
			// blockProbe it is taken to wait for a lock that a parked write holds (possible only
			// if the code holds a lock across a state-store write): parked writes are then
			// released oldest first. This only changes the schedule, never an assertion.
			settled := false
			for !settled {
				probe := blockProbe
				if len(parked) == 0 {
					probe = waitCap
				}
				select {
				case <-arrived:
					parked = append(parked, po)
					if s.K == "pay" || s.K == "recv" {
						st.lockHeld++
					}
					settled = true
				case err := <-po.done:
					// finished (a parked Pay below the threshold never reaches its write)
					if po.ticket != nil {
						w.cur.gate.Disarm(po.ticket)
					}
					if sg, e := acknowledge(po, err, false, when); e != nil {
						return st, sg, e
					}
					settled = true
				case <-time.After(probe):
					if len(parked) == 0 {
						return st, "C33/stuck", fmt.Errorf("%s(peer %d): neither returned nor reached its state-store write within %v although no write is parked", when, p, waitCap)
					}
					st.blockedReleased++
					if sg, e := releaseAt(0, when); e != nil {
						return st, sg, e
					}
				}
			}
		case "refresh":
			if anyLockHeld() || refreshParked() {
				st.skippedBusy++ // trafficInit takes every peer lock, and a second one waits for the first
				continue
			}
			over := false
			for _, po := range parked {
				if po.k == "retr" || po.k == "tran" {
					over = true
				}
			}
			if over && known(sigRefresh) {
				evid.Get(id).Excluded(sigRefresh)
				continue
			}
			for _, po := range parked {
				if po.k == "retr" {
					refreshFlag[kRetr][po.p] = true
				} else if po.k == "tran" {
					refreshFlag[kTran][po.p] = true
				}
			}
			if over {
				st.refreshOverlap++
			}
			if !s.Park {
				if err := w.cur.svc.TrafficInit(); err != nil {
					return st, "C33/op-error", fmt.Errorf("%s: %v", when, err)
				}
				continue
			}
			// park the refresh at its first chain RPC: the stored cheques have been read, no peer touched yet
			h := w.chain.arm()
			po := &parkedOp{k: "refresh", p: -1, done: make(chan error, 1), release: h.Release}
			sess := w.cur
			go func() {
				defer func() {
					if r := recover(); r != nil {
						po.done <- fmt.Errorf("panic: %v\n%s", r, debug.Stack())
					}
				}()
				po.done <- sess.svc.TrafficInit()
			}()
			select {
			case <-h.arrived:
				parked = append(parked, po)
				st.refreshParkedN++
			case err := <-po.done:
				w.chain.disarm(h)
				if err != nil {
					return st, "C33/op-error", fmt.Errorf("%s: %v", when, err)
				}
			case <-time.After(waitCap):
				return st, "C33/stuck", fmt.Errorf("%s: TrafficInit neither returned nor reached the chain within %v", when, waitCap)
			}
		case "release":
			if len(parked) == 0 {
				continue
			}
			k := s.I % len(parked)
			if sg, e := releaseAt(k, when); e != nil {
				return st, sg, e
			}
		case "restart":
			if sg, e := restart(s.Crash, when); e != nil {
				return st, sg, e
			}
		}
	}
	inFinal = true
	// final restart (parked writes complete first), then one more round of traffic and
	// payment per peer: no cheque may be issued for an amount already paid
	if sg, e := restart(false, "final restart"); e != nil {
		return st, sg, e
	}
	for p := 0; p < n; p++ {
		for _, k := range []string{"retr", "pay"} {
			po := &parkedOp{k: k, p: p, a: c.Threshold, emitted0: w.proto.count(w.peers[p].overlay)}
			err := exec(w.cur, po)
			if sg, e := acknowledge(po, err, false, fmt.Sprintf("after final restart %s(peer %d)", k, p)); e != nil {
				return st, sg, e
			}
		}
	}
	if sg, e := restart(false, "restart after final payments"); e != nil {
		return st, sg, e
	}
	return st, "", nil
}

func gen(t *rapid.T) gcase {
	var c gcase
	c.Peers = rapid.IntRange(2, 3).Draw(t, "peers")
	c.Threshold = rapid.Uint64Range(1, 40).Draw(t, "threshold")
	for i := 0; i < c.Peers; i++ {
		c.CashedOut = append(c.CashedOut, rapid.SampledFrom([]uint64{0, 0, 0, 7, 50}).Draw(t, "cashedout"))
		c.CashedIn = append(c.CashedIn, rapid.SampledFrom([]uint64{0, 0, 0, 5, 60}).Draw(t, "cashedin"))
	}
	kinds := []string{"retr", "retr", "retr", "retr", "tran", "tran", "tran", "pay", "pay", "recv", "refresh", "release", "release", "release", "restart", "restart"}
	n := rapid.IntRange(2, 24).Draw(t, "nsteps")
	for i := 0; i < n; i++ {
		s := step{K: rapid.SampledFrom(kinds).Draw(t, "kind")}
		switch s.K {
		case "retr", "tran", "recv":
			// biased to peer 0 so that updates of one peer meet in the gate
			s.P = rapid.SampledFrom([]int{0, 0, 0, 1, 2}).Draw(t, "peer")
			s.A = rapid.Uint64Range(1, 60).Draw(t, "amount")
			s.Park = rapid.IntRange(0, 9).Draw(t, "park") < 5
		case "pay":
			s.P = rapid.SampledFrom([]int{0, 0, 0, 1, 2}).Draw(t, "peer")
			s.Park = rapid.IntRange(0, 9).Draw(t, "park") < 3
		case "refresh":
			s.Park = rapid.Bool().Draw(t, "park")
		case "release":
			s.I = rapid.IntRange(0, 5).Draw(t, "which")
		case "restart":
			s.Crash = rapid.Bool().Draw(t, "crash")
		}
		c.Steps = append(c.Steps, s)
	}
	return c
}

func record(r *evid.Rec, c gcase, st gstats) {
	cls := []string{"gated"}
	add := func(n int, name string) {
		if n > 0 {
			cls = append(cls, name)
		}
	}
	add(st.overlapAttempt, "gated:step-on-a-peer-with-a-parked-write")
	add(st.overlapAnyKind, "gated:two-updates-of-one-peer-overlapped-in-gate")
	add(st.overlapSameKind, "gated:same-total-overlapped")
	add(st.refreshOverlap, "gated:refresh-while-update-parked")
	add(st.refreshParkedN, "gated:refresh-parked-at-chain-rpc")
	add(st.staleWindow, "gated:pay-while-refresh-parked")
	add(st.crashWithParked, "gated:crash-with-writes-parked")
	add(st.payAfterRestart, "gated:cheque-emitted-after-a-restart")
	add(st.lockHeld, "gated:pay-or-receive-parked-holding-peer-lock")
	add(st.blockedReleased, "gated:step-blocked-behind-parked-write(parked-writes-released)")
	add(st.skippedBusy, "gated:some-step-skipped(peer-lock-held)")
	if st.restarts > 2 {
		cls = append(cls, "gated:restart-inside-history")
	}
	r.Case(evid.Hash64("gated", c), st.overlapAttempt > 0, cls...)
	r.ClassN("gated:cheques-emitted", st.paysEmitted)
	r.Sample(map[string]interface{}{"kind": "gated", "case": c})
}

const ruleGated = "gated: real traffic.Service + real cheque store + real address book over a gated in-memory leveldb state store; 2-3 peers; rapid draws 2-24 steps: PutRetrieveTraffic / PutTransferTraffic / Pay / ReceiveCheque started synchronously or parked at their state-store write, release of a chosen parked write, refresh (TrafficInit), restart (clean: parked writes complete first; crash: parked writes are lost); after every restart TotalReceived/TotalSent >= acknowledged sums, LastSentCheque/LastReceivedCheque and the service's settlement amounts >= acknowledged cheques; every emitted cheque must exceed every acknowledged earlier one; a final restart + traffic + Pay round per peer; non-trivial = a step addresses a peer that has a write parked in the gate (two updates of one peer overlapped, unless the code holds the peer lock across the write, in which case the step is moved to another peer); distinct by hash of the case"

func TestC33_Gated(t *testing.T) {
	r := evid.Get(id)
	evid.Finish(t, r)
	r.SetRule(ruleGated)
	if replayOnly(t) {
		return
	}
	witnesses(t, r)
	evid.Checks(800)
	rapid.Check(t, func(t *rapid.T) {
		c := gen(t)
		st, sig, err := run(c)
		if err != nil {
			failR(t, sig, err, "gated", c)
		}
		record(r, c, st)
	})
}

// witnesses runs the minimal failing histories of the known findings (with the
// exclusion switched off for that run) and reports whether they still fail.
func witnesses(t *testing.T, r *evid.Rec) {
	type wit struct {
		sig string
		c   gcase
	}
	z := []uint64{0, 0}
	for _, x := range []wit{
		{sigOverlap, gcase{Peers: 2, Threshold: 10, CashedOut: z, CashedIn: z, Steps: []step{
			{K: "retr", P: 0, A: 5, Park: true}, {K: "retr", P: 0, A: 5}, {K: "release", I: 0}}}},
		{sigRefresh, gcase{Peers: 2, Threshold: 10, CashedOut: z, CashedIn: z, Steps: []step{
			{K: "retr", P: 0, A: 5}, {K: "retr", P: 0, A: 5, Park: true}, {K: "refresh"}, {K: "release", I: 0}, {K: "retr", P: 0, A: 5}}}},
		{sigNoTotals, gcase{Peers: 2, Threshold: 10, CashedOut: z, CashedIn: z, Steps: []step{
			{K: "recv", P: 0, A: 1}}}},
		{sigNoTotals, gcase{Peers: 2, Threshold: 5, CashedOut: z, CashedIn: z, Steps: []step{
			{K: "retr", P: 0, A: 9, Park: true}, {K: "pay", P: 0}, {K: "restart", Crash: true}}}},
		{sigStale, gcase{Peers: 2, Threshold: 5, CashedOut: z, CashedIn: z, Steps: []step{
			{K: "retr", P: 0, A: 10}, {K: "refresh", Park: true}, {K: "pay", P: 0}, {K: "release", I: 0}, {K: "pay", P: 0}}}},
	} {
		if !evid.Known(x.sig) {
			continue
		}
		witnessMode = x.sig
		_, got, err := run(x.c)
		witnessMode = ""
		if err != nil && got == x.sig {
			r.Witness(x.sig)
		} else if err != nil {
			failT(t, got, err, "gated", x.c)
		}
	}
}

// witnessMode names the known finding whose exclusion is lifted while its witness runs.
var witnessMode string

func known(sig string) bool { return evid.Known(sig) && witnessMode != sig }

// ---- failure / replay plumbing ---------------------------------------------------

func writeReplay(kind string, c interface{}) {
	dir := os.Getenv("VERIF_REPLAY_OUT")
	if dir == "" {
		return
	}
	b, err := json.MarshalIndent(map[string]interface{}{"kind": kind, "case": c}, "", " ")
	if err != nil {
		return
	}
	_ = os.MkdirAll(dir, 0o755)
	_ = os.WriteFile(filepath.Join(dir, fmt.Sprintf("c33-%s.json", kind)), b, 0o644)
}

func msg(sig string, err error, kind string, c interface{}) string {
	b, _ := json.Marshal(c)
	return evid.Violation(id, sig, fmt.Sprintf("%v :: %s case=%s", err, kind, b))
}

func failT(t *testing.T, sig string, err error, kind string, c interface{}) {
	t.Helper()
	writeReplay(kind, c)
	t.Fatalf("%s", msg(sig, err, kind, c))
}

func failR(t *rapid.T, sig string, err error, kind string, c interface{}) {
	writeReplay(kind, c)
	t.Fatalf("%s", msg(sig, err, kind, c))
}

func replayOnly(t *testing.T) bool {
	if os.Getenv("VERIF_REPLAY_ONLY") != "1" {
		return false
	}
	f := os.Getenv("VERIF_REPLAY_FILE")
	if f == "" {
		return false
	}
	b, err := os.ReadFile(f)
	if err != nil {
		t.Skipf("replay file: %v", err)
	}
	var d struct {
		Kind string          `json:"kind"`
		Case json.RawMessage `json:"case"`
	}
	if err := json.Unmarshal(b, &d); err != nil {
		t.Skipf("replay file: %v", err)
	}
	switch d.Kind {
	case "gated":
		var c gcase
		if json.Unmarshal(d.Case, &c) == nil && c.Peers >= 1 && len(c.CashedIn) == c.Peers && len(c.CashedOut) == c.Peers && c.Threshold > 0 {
			if _, sig, err := run(c); err != nil {
				t.Fatalf("%s", msg(sig, err, "gated", c))
			}
		}
	case "ungated":
		var c ucase
		if json.Unmarshal(d.Case, &c) == nil && c.Peers >= 1 && c.Threshold > 0 {
			if _, sig, err := runUngated(c, false); err != nil {
				t.Fatalf("%s", msg(sig, err, "ungated", c))
			}
		}
	}
	return true
}

// updatesHoldPeerLock reports whether PutRetrieveTraffic keeps the peer lock while its
// state-store write is parked. It parks one update and starts a second update of the
// same peer: if that one returns, the lock is certainly not held. Not returning within
// the probe time is taken as "held", which is the conservative answer (steps on such
// a peer are then moved to another peer; no assertion depends on it).
var (
	holdOnce sync.Once
	holdsVal bool
)

func updatesHoldPeerLock() bool {
	holdOnce.Do(func() {
		w, err := newWorld(2, []uint64{0, 0}, []uint64{0, 0})
		if err != nil || w.boot() != nil || w.handshake() != nil {
			holdsVal = true
			return
		}
		defer w.close()
		t1 := w.cur.gate.Arm(keyFor(pfxRetrieved, w.peers[0].chain))
		d1 := make(chan error, 1)
		atomic.AddInt64(&w.cur.puts, 2)
		go func() { d1 <- w.cur.svc.PutRetrieveTraffic(w.peers[0].overlay, bu(1)) }()
		select {
		case <-t1.Arrived():
		case <-time.After(waitCap):
			holdsVal = true
			t1.Release()
			return
		}
		d2 := make(chan error, 1)
		go func() { d2 <- w.cur.svc.PutTransferTraffic(w.peers[0].overlay, bu(1)) }()
		select {
		case <-d2:
			holdsVal = false
		case <-time.After(5 * time.Second):
			holdsVal = true
		}
		t1.Release()
		<-d1
		if holdsVal {
			<-d2
		}
		_ = w.cur.drainHeaders()
		evid.Get(id).Class(fmt.Sprintf("gated:updates-hold-peer-lock-across-write=%v", holdsVal))
	})
	return holdsVal
}
