package c33

import (
	"context"
	"fmt"
	"math/big"
	"runtime/debug"
	"sync"
	"sync/atomic"
	"testing"

	chequePkg "github.com/gauss-project/aurorafs/pkg/settlement/traffic/cheque"
	"pgregory.net/rapid"
	"verifharness/internal/evid"
)

// Ungated variant: the same service over the same (pass-through) store, driven by
// 2-4 really concurrent goroutines; every call returns before the restart, so
// every successful call is acknowledged and the oracle of the gated variant
// applies unchanged. In the -race binary the race detector is the extra oracle.

type uop struct {
	K string `json:"k"` // retr | tran | pay | recv | refresh
	P int    `json:"p"`
	A uint64 `json:"a,omitempty"`
}

type ucase struct {
	Peers     int     `json:"peers"`
	Threshold uint64  `json:"threshold"`
	G         [][]uop `json:"goroutines"`
	// Cold: the node is restarted once more after the peers were registered and before the concurrent
	// phase, so the peers are known (address book) but have no traffic record in memory yet - the state
	// in which retrievals served right after a restart find them
	Cold bool `json:"cold_start,omitempty"`
}

type ustats struct {
	samePeer, emitted, recv, refresh int
	classes                          []string
}

// restrict describes which shapes are kept out of the concurrent phase.
type restrict struct {
	ownStreams bool // every (peer, total) is updated by one goroutine only (known: sigOverlap)
	noRefresh  bool // no TrafficInit next to updates (known: sigRefresh / race on balance)
	noPay      bool // race binary: Pay reads totals other goroutines write (known race findings)
	noRecv     bool
	paysAfter  bool // race binary: Pay only after the concurrent phase and after its PublishHeader goroutines ended (known: sigRace)
	recvAfter  bool // race binary: the same for ReceiveCheque (its write is a plain pointer store, harmless without the detector)
}

func runUngated(c ucase, raceRun bool) (st ustats, sig string, err error) {
	defer func() {
		if r := recover(); r != nil {
			sig, err = "C33/panic", fmt.Errorf("panic: %v\n%s", r, debug.Stack())
		}
	}()
	// the known data races only matter where the race detector runs
	rs := restrict{ownStreams: known(sigOverlap), noRefresh: known(sigRefresh), paysAfter: raceRun && known(sigRace)}
	if known(sigStale) && !rs.paysAfter {
		rs.noRefresh = true // a refresh next to a Pay resets the cheque amount to its stale snapshot
	}
	if raceRun {
		rs = raceRestrict(rs)
	}
	n, G := c.Peers, len(c.G)
	zero := make([]uint64, n)
	w, e := newWorld(n, zero, zero)
	if e != nil {
		return st, "C33/harness", e
	}
	defer w.close()
	if e := w.boot(); e != nil {
		return st, "C33/op-error", e
	}
	if e := w.handshake(); e != nil {
		return st, "C33/op-error", e
	}
	if c.Cold {
		w.cur.gate.Crash()
		if e := w.boot(); e != nil {
			return st, "C33/op-error", e
		}
		st.classes = append(st.classes, "cold-start:first-updates-of-known-peers-race")
	}
	thr := bu(c.Threshold)
	ctx := context.Background()
	rec := evid.Get(id)

	// resolve the program: who may touch what
	type rop struct {
		k    string
		p    int
		a    uint64
		cum  *big.Int
		skip bool
	}
	prog := make([][]rop, G)
	var late []rop // pays moved behind the concurrent phase
	recvCum := make([]*big.Int, n)
	for p := range recvCum {
		recvCum[p] = big.NewInt(0)
	}
	touch := make([]map[int]bool, n)
	for p := range touch {
		touch[p] = map[int]bool{}
	}
	for g, ops := range c.G {
		for _, o := range ops {
			r := rop{k: o.K, p: o.P % n, a: o.A}
			switch o.K {
			case "retr", "tran":
				if rs.ownStreams {
					kind := 0
					if o.K == "tran" {
						kind = 1
					}
					// stream (p, kind) belongs to goroutine (2p+kind) mod G
					if (2*r.p+kind)%G != g {
						moved := false
						for q := 0; q < 2*n && !moved; q++ {
							s := (2*r.p + kind + q) % (2 * n)
							if s%G == g {
								r.p, kind, moved = s/2, s%2, true
							}
						}
						rec.Excluded(sigOverlap)
						if !moved {
							r.skip = true
						}
						r.k = []string{"retr", "tran"}[kind]
					}
				}
			case "recv":
				// increasing cumulative amounts need one issuer per peer: peer p's cheques come from goroutine p mod G
				if r.p%G != g {
					r.skip = true
					for q := 0; q < n; q++ {
						if q%G == g {
							r.p, r.skip = q, false
							break
						}
					}
				}
				if rs.noRecv {
					r.skip = true
				}
				if !r.skip {
					recvCum[r.p] = add(recvCum[r.p], bu(o.A+1))
					r.cum = new(big.Int).Set(recvCum[r.p])
					if rs.recvAfter {
						rec.Excluded(sigRace)
						late = append(late, r)
						r.skip = true
					}
				}
			case "pay":
				r.skip = rs.noPay
				if !r.skip && rs.paysAfter {
					rec.Excluded(sigRace)
					late = append(late, r)
					r.skip = true
				}
			case "refresh":
				if rs.noRefresh {
					if known(sigRefresh) {
						rec.Excluded(sigRefresh)
					} else if known(sigStale) {
						rec.Excluded(sigStale)
					}
					r.skip = true
				}
			}
			if !r.skip && r.k != "refresh" {
				touch[r.p][g] = true
			}
			prog[g] = append(prog[g], r)
		}
	}
	if known(sigNoTotals) {
		// a received cheque is only generated for a peer that also gets a stored total
		has := make([]bool, n)
		for g := range prog {
			for _, o := range prog[g] {
				if !o.skip && (o.k == "retr" || o.k == "tran") {
					has[o.p] = true
				}
			}
		}
		for g := range prog {
			for i, o := range prog[g] {
				if !o.skip && o.k == "recv" && !has[o.p] {
					prog[g][i].skip = true
					rec.Excluded(sigNoTotals)
				}
			}
		}
		kept := late[:0]
		for _, o := range late {
			if o.k == "recv" && !has[o.p] {
				rec.Excluded(sigNoTotals)
				continue
			}
			kept = append(kept, o)
		}
		late = kept
	}
	for p := 0; p < n; p++ {
		if len(touch[p]) >= 2 {
			st.samePeer++
		}
	}

	// run
	type res struct {
		retr, tran []*big.Int
		recv       []*big.Int
		errs       []string
	}
	results := make([]res, G)
	start := make(chan struct{})
	var wg sync.WaitGroup
	for g := 0; g < G; g++ {
		results[g] = res{retr: make([]*big.Int, n), tran: make([]*big.Int, n), recv: make([]*big.Int, n)}
		for p := 0; p < n; p++ {
			results[g].retr[p], results[g].tran[p], results[g].recv[p] = big.NewInt(0), big.NewInt(0), big.NewInt(0)
		}
		wg.Add(1)
		go func(g int) {
			defer wg.Done()
			r := &results[g]
			defer func() {
				if x := recover(); x != nil {
					r.errs = append(r.errs, fmt.Sprintf("goroutine %d: panic: %v\n%s", g, x, debug.Stack()))
				}
			}()
			<-start
			for i, o := range prog[g] {
				if o.skip {
					continue
				}
				peer := w.peers[o.p].overlay
				var err error
				switch o.k {
				case "retr":
					atomic.AddInt64(&w.cur.puts, 1)
					if err = w.cur.svc.PutRetrieveTraffic(peer, bu(o.a)); err == nil {
						r.retr[o.p] = add(r.retr[o.p], bu(o.a))
					}
				case "tran":
					atomic.AddInt64(&w.cur.puts, 1)
					if err = w.cur.svc.PutTransferTraffic(peer, bu(o.a)); err == nil {
						r.tran[o.p] = add(r.tran[o.p], bu(o.a))
					}
				case "pay":
					err = w.cur.svc.Pay(ctx, peer, thr)
				case "recv":
					err = w.cur.svc.ReceiveCheque(ctx, peer, &chequePkg.SignedCheque{
						Cheque:    chequePkg.Cheque{Recipient: selfChain, Beneficiary: w.peers[o.p].chain, CumulativePayout: new(big.Int).Set(o.cum)},
						Signature: []byte{0x02},
					})
					if err == nil {
						r.recv[o.p] = new(big.Int).Set(o.cum)
					}
				case "refresh":
					err = w.cur.svc.TrafficInit()
				}
				if err != nil {
					r.errs = append(r.errs, fmt.Sprintf("goroutine %d op#%d %s(peer %d, %d): %v", g, i, o.k, o.p, o.a, err))
				}
			}
		}(g)
	}
	close(start)
	wg.Wait()
	if rs.paysAfter || rs.recvAfter {
		if err := w.cur.drainHeaders(); err != nil {
			return st, "C33/stuck", err
		}
	}
	lateRecv := make([]*big.Int, n)
	for _, o := range late {
		var err error
		if o.k == "pay" {
			err = w.cur.svc.Pay(ctx, w.peers[o.p].overlay, thr)
		} else {
			err = w.cur.svc.ReceiveCheque(ctx, w.peers[o.p].overlay, &chequePkg.SignedCheque{
				Cheque:    chequePkg.Cheque{Recipient: selfChain, Beneficiary: w.peers[o.p].chain, CumulativePayout: new(big.Int).Set(o.cum)},
				Signature: []byte{0x02},
			})
			if err == nil {
				lateRecv[o.p] = o.cum
			}
		}
		if err != nil {
			return st, "C33/op-error", fmt.Errorf("%s(peer %d) after the concurrent phase: %v", o.k, o.p, err)
		}
	}

	var ack [2][]*big.Int
	var noFlag [2][]bool
	ackEmitted := make([]*big.Int, n)
	ackRecv := make([]*big.Int, n)
	for k := 0; k < 2; k++ {
		ack[k] = make([]*big.Int, n)
		noFlag[k] = make([]bool, n)
	}
	for p := 0; p < n; p++ {
		ack[0][p], ack[1][p], ackEmitted[p], ackRecv[p] = big.NewInt(0), big.NewInt(0), big.NewInt(0), big.NewInt(0)
	}
	for g := range results {
		if len(results[g].errs) > 0 {
			return st, "C33/op-error", fmt.Errorf("%v", results[g].errs)
		}
		for p := 0; p < n; p++ {
			ack[0][p] = add(ack[0][p], results[g].retr[p])
			ack[1][p] = add(ack[1][p], results[g].tran[p])
			if results[g].recv[p].Cmp(ackRecv[p]) > 0 {
				ackRecv[p] = results[g].recv[p]
				st.recv++
			}
		}
	}
	for p := 0; p < n; p++ {
		if lateRecv[p] != nil && lateRecv[p].Cmp(ackRecv[p]) > 0 {
			ackRecv[p] = lateRecv[p]
			st.recv++
		}
	}
	for p := 0; p < n; p++ {
		// emissions of one peer are serialised by the peer lock, so their order is the order of payment
		last := big.NewInt(0)
		for _, cum := range w.proto.list(w.peers[p].overlay) {
			st.emitted++
			if cum.Cmp(last) <= 0 {
				return st, "C33/cheque-for-amount-already-paid", fmt.Errorf("peer %d was sent a cheque with cumulative payout %v after one for %v", p, cum, last)
			}
			last = cum
		}
		ackEmitted[p] = last
	}
	for round := 0; round < 2; round++ {
		w.cur.gate.Crash()
		if e := w.boot(); e != nil {
			return st, "C33/op-error", e
		}
		when := []string{"restart after the concurrent phase", "restart after the final payments"}[round]
		if round == 1 {
			when = "restart after the final payments"
		}
		sigs := noFlag
		if sg, e := verifyRestored(w, when, ack, ackEmitted, ackRecv, sigs, sigs); e != nil {
			return st, sg, e
		}
		if round == 1 {
			break
		}
		for p := 0; p < n; p++ {
			peer := w.peers[p].overlay
			if err := w.cur.svc.PutRetrieveTraffic(peer, thr); err != nil {
				return st, "C33/op-error", fmt.Errorf("after restart PutRetrieveTraffic(peer %d): %v", p, err)
			}
			ack[0][p] = add(ack[0][p], thr)
			before := w.proto.count(peer)
			atomic.AddInt64(&w.cur.puts, 1)
			if raceRun && known(sigRace) {
				if err := w.cur.drainHeaders(); err != nil {
					return st, "C33/stuck", err
				}
			}
			if err := w.cur.svc.Pay(ctx, peer, thr); err != nil {
				return st, "C33/op-error", fmt.Errorf("after restart Pay(peer %d): %v", p, err)
			}
			for _, cum := range w.proto.list(peer)[before:] {
				if cum.Cmp(ackEmitted[p]) <= 0 {
					return st, "C33/cheque-for-amount-already-paid", fmt.Errorf("after restart: peer %d was sent a cheque with cumulative payout %v although one for %v had been sent and acknowledged before the restart", p, cum, ackEmitted[p])
				}
				ackEmitted[p] = cum
			}
		}
	}
	return st, "", nil
}

func genU(t *rapid.T) ucase {
	var c ucase
	c.Peers = rapid.IntRange(2, 3).Draw(t, "peers")
	c.Threshold = rapid.Uint64Range(1, 40).Draw(t, "threshold")
	g := rapid.IntRange(2, 4).Draw(t, "goroutines")
	kinds := []string{"retr", "retr", "retr", "retr", "tran", "tran", "tran", "pay", "pay", "recv", "refresh"}
	for i := 0; i < g; i++ {
		k := rapid.IntRange(1, 12).Draw(t, "nops")
		var ops []uop
		for j := 0; j < k; j++ {
			o := uop{K: rapid.SampledFrom(kinds).Draw(t, "kind"), P: rapid.SampledFrom([]int{0, 0, 0, 1, 2}).Draw(t, "peer")}
			if o.K != "pay" && o.K != "refresh" {
				o.A = rapid.Uint64Range(1, 60).Draw(t, "amount")
			}
			ops = append(ops, o)
		}
		c.G = append(c.G, ops)
	}
	c.Cold = rapid.Bool().Draw(t, "cold")
	return c
}

func recordU(r *evid.Rec, c ucase, st ustats, tag string) {
	cls := []string{tag, fmt.Sprintf("%s:goroutines-%d", tag, len(c.G))}
	if st.samePeer > 0 {
		cls = append(cls, tag+":>=2-goroutines-on-one-peer")
	}
	if st.emitted > 0 {
		cls = append(cls, tag+":cheque-emitted")
	}
	if st.recv > 0 {
		cls = append(cls, tag+":cheque-received")
	}
	r.Case(evid.Hash64(tag, c), st.samePeer > 0, cls...)
	r.Sample(map[string]interface{}{"kind": "ungated", "case": c})
}

const ruleUngated = "ungated: same service, 2-4 really concurrent goroutines with 1-12 ops each (PutRetrieveTraffic/PutTransferTraffic/Pay/ReceiveCheque/TrafficInit, biased to peer 0), all calls return, then restart; in half of the cases the node is restarted once more between registering the peers and the concurrent phase (peers known, no traffic record in memory yet); same lower-bound oracle; emitted cumulative payouts per peer strictly increasing; non-trivial = >= 2 goroutines operate on one peer. sequential-with-handshake: 1-16 sequential ops incl. the traffic handshake in which a reconnecting peer presents this node's own cheque 0..1000 above what the node remembers having paid (adopted when higher), TrafficInit and restarts; oracle: every total, stored cheque and settlement amount read through the service before a restart is at most the value read after it, and no cheque is issued at or below an adopted amount; non-trivial = a restart after an adoption"

func TestC33_Ungated(t *testing.T) {
	r := evid.Get(id)
	evid.Finish(t, r)
	r.SetRule(ruleUngated)
	if replayOnly(t) {
		return
	}
	evid.Checks(300)
	rapid.Check(t, func(t *rapid.T) {
		c := genU(t)
		st, sig, err := runUngated(c, false)
		if err != nil {
			failR(t, sig, err, "ungated", c)
		}
		recordU(r, c, st, "ungated")
	})
}

func TestC33_Ungated_Race(t *testing.T) {
	r := evid.Get(id)
	evid.Finish(t, r)
	r.SetRule(ruleUngated)
	if replayOnly(t) {
		return
	}
	evid.Checks(100)
	rapid.Check(t, func(t *rapid.T) {
		c := genU(t)
		st, sig, err := runUngated(c, raceOn)
		if err != nil {
			failR(t, sig, err, "ungated", c)
		}
		recordU(r, c, st, "race")
	})
}

// raceRestrict is filled in from the known race findings (see race_known_test.go).
func raceRestrict(rs restrict) restrict { return raceRestrictKnown(rs) }
