//go:build !race

package c33

const raceOn = false
