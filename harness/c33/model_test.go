package c33

import (
	"fmt"
	"math/big"

	"github.com/gauss-project/aurorafs/pkg/boson"
)

// verifyRestored compares what a freshly booted session reports with what had been
// acknowledged before the restart. Only lower bounds are asserted.
func verifyRestored(w *world, when string, ack [2][]*big.Int, ackEmitted, ackRecv []*big.Int, overlapFlag, refreshFlag [2][]bool) (string, error) {
	svc := w.cur.svc
	n := len(w.peers)
	cheques, err := svc.TrafficCheques()
	if err != nil {
		return "C33/op-error", fmt.Errorf("%s: TrafficCheques: %v", when, err)
	}
	for p := 0; p < n; p++ {
		peer := w.peers[p].overlay
		for kind, get := range []func(boson.Address) (*big.Int, error){svc.TotalReceived, svc.TotalSent} {
			got, err := get(peer)
			if err != nil {
				return "C33/peer-forgotten", fmt.Errorf("%s: peer %d: totals not available after restart: %v", when, p, err)
			}
			if got.Cmp(ack[kind][p]) < 0 {
				name := []string{"retrieved (consumed)", "transferred (served)"}[kind]
				sig := []string{"C33/retrieved-total-lost", "C33/transferred-total-lost"}[kind]
				if overlapFlag[kind][p] {
					sig = sigOverlap
				} else if refreshFlag[kind][p] {
					sig = sigRefresh
				}
				return sig, fmt.Errorf("%s: peer %d: %s total restored as %v but updates adding up to %v had been acknowledged", when, p, name, got, ack[kind][p])
			}
		}
		if ackEmitted[p].Sign() > 0 {
			cq, err := svc.LastSentCheque(peer)
			if err != nil || cq.CumulativePayout.Cmp(ackEmitted[p]) < 0 {
				return "C33/sent-cheque-lost", fmt.Errorf("%s: peer %d: last sent cheque restored as %v (err %v) but a cheque for %v had been sent and acknowledged", when, p, cq, err, ackEmitted[p])
			}
		}
		if ackRecv[p].Sign() > 0 {
			cq, err := svc.LastReceivedCheque(peer)
			if err != nil || cq.CumulativePayout.Cmp(ackRecv[p]) < 0 {
				return "C33/received-cheque-lost", fmt.Errorf("%s: peer %d: last received cheque restored as %v (err %v) but a cheque for %v had been accepted", when, p, cq, err, ackRecv[p])
			}
		}
		// the amounts the running service works with
		sent, recvd := big.NewInt(0), big.NewInt(0)
		for _, tc := range cheques {
			if tc.Peer.Equal(peer) {
				sent, recvd = tc.SentSettlements, tc.ReceivedSettlements
			}
		}
		if sent.Cmp(ackEmitted[p]) < 0 {
			sig := "C33/sent-cheque-amount-not-restored"
			if ack[kTran][p].Sign() == 0 && ack[kRetr][p].Sign() == 0 {
				sig = sigNoTotals
			}
			return sig, fmt.Errorf("%s: peer %d: service reports sent settlements %v but a cheque for %v had been sent and acknowledged", when, p, sent, ackEmitted[p])
		}
		if recvd.Cmp(ackRecv[p]) < 0 {
			sig := "C33/received-cheque-amount-not-restored"
			if ack[kTran][p].Sign() == 0 && ack[kRetr][p].Sign() == 0 {
				sig = sigNoTotals
			}
			return sig, fmt.Errorf("%s: peer %d: service reports received settlements %v but a cheque for %v had been accepted", when, p, recvd, ackRecv[p])
		}
	}
	return "", nil
}
