package c33

import (
	"context"
	"errors"
	"fmt"
	"io"
	"math/big"
	"strings"
	"sync"
	"sync/atomic"
	"time"

	"github.com/ethereum/go-ethereum/common"
	"github.com/ethereum/go-ethereum/core/types"
	"github.com/gauss-project/aurorafs/pkg/boson"
	"github.com/gauss-project/aurorafs/pkg/logging"
	"github.com/gauss-project/aurorafs/pkg/settlement/traffic"
	chequePkg "github.com/gauss-project/aurorafs/pkg/settlement/traffic/cheque"
	"github.com/gauss-project/aurorafs/pkg/statestore/leveldb"
	"github.com/gauss-project/aurorafs/pkg/storage"
	"github.com/gauss-project/aurorafs/pkg/subscribe"
	"verifharness/internal/gatestore"
)

const chainID = 1337

var selfChain = common.HexToAddress("0x00000000000000000000000000000000000000aa")

func bu(x uint64) *big.Int       { return new(big.Int).SetUint64(x) }
func add(a, b *big.Int) *big.Int { return new(big.Int).Add(a, b) }

type peerInfo struct {
	overlay boson.Address
	chain   common.Address
}

func mkPeer(i int) peerInfo {
	b := make([]byte, 32)
	b[0], b[31] = byte(i+1), 0x33
	var c common.Address
	c[0], c[19] = 0xc3, byte(i+1)
	return peerInfo{overlay: boson.NewAddress(b), chain: c}
}

// ---- stubs ------------------------------------------------------------------------

// chainStub: the on-chain side. Every answer is a fresh big.Int (the service keeps
// and mutates what it is given).
type chainStub struct {
	peers     []peerInfo
	cashedOut []uint64 // TransAmount(self -> peer): what peer i has cashed from us
	cashedIn  []uint64 // TransAmount(peer -> self)

	mu   sync.Mutex
	hook *chainHook
}

// chainHook parks the next RetrievedAddress call: the first chain RPC of trafficInit,
// made after it has read the stored cheques and before it touches any peer. In
// production this is a network round trip during which the node keeps working.
type chainHook struct {
	arrived chan struct{}
	release chan struct{}
	once    sync.Once
}

func (h *chainHook) Release() { h.once.Do(func() { close(h.release) }) }

func (c *chainStub) arm() *chainHook {
	h := &chainHook{arrived: make(chan struct{}), release: make(chan struct{})}
	c.mu.Lock()
	c.hook = h
	c.mu.Unlock()
	return h
}

func (c *chainStub) disarm(h *chainHook) {
	c.mu.Lock()
	if c.hook == h {
		c.hook = nil
	}
	c.mu.Unlock()
}

func (c *chainStub) idx(a common.Address) int {
	for i, p := range c.peers {
		if p.chain == a {
			return i
		}
	}
	return -1
}
func (c *chainStub) TransferredAddress(common.Address) ([]common.Address, error) {
	var out []common.Address
	for i, p := range c.peers {
		if c.cashedIn[i] > 0 {
			out = append(out, p.chain)
		}
	}
	return out, nil
}
func (c *chainStub) RetrievedAddress(common.Address) ([]common.Address, error) {
	c.mu.Lock()
	h := c.hook
	c.hook = nil
	c.mu.Unlock()
	if h != nil {
		close(h.arrived)
		<-h.release
	}
	var out []common.Address
	for i, p := range c.peers {
		if c.cashedOut[i] > 0 {
			out = append(out, p.chain)
		}
	}
	return out, nil
}
func (c *chainStub) BalanceOf(common.Address) (*big.Int, error) {
	return new(big.Int).SetUint64(1 << 50), nil
}
func (c *chainStub) RetrievedTotal(common.Address) (*big.Int, error)   { return big.NewInt(0), nil }
func (c *chainStub) TransferredTotal(common.Address) (*big.Int, error) { return big.NewInt(0), nil }
func (c *chainStub) TransAmount(beneficiary, recipient common.Address) (*big.Int, error) {
	// traffic.go calls TransAmount(peer, self) for what we served and were paid for,
	// and TransAmount(self, peer) for what we retrieved and paid for
	if i := c.idx(beneficiary); i >= 0 && recipient == selfChain {
		return bu(c.cashedIn[i]), nil
	}
	if i := c.idx(recipient); i >= 0 && beneficiary == selfChain {
		return bu(c.cashedOut[i]), nil
	}
	return big.NewInt(0), nil
}
func (c *chainStub) CashChequeBeneficiary(context.Context, boson.Address, common.Address, common.Address, *big.Int, []byte) (*types.Transaction, error) {
	return nil, errors.New("c33: cash-out is not part of this check")
}

type cashoutStub struct{}

func (cashoutStub) CashCheque(context.Context, boson.Address, common.Address, common.Address) (common.Hash, error) {
	return common.Hash{}, errors.New("c33: cash-out is not part of this check")
}
func (cashoutStub) WaitForReceipt(context.Context, common.Hash) (uint64, error) {
	return 0, errors.New("c33: cash-out is not part of this check")
}

type signerStub struct{}

func (signerStub) Sign(*chequePkg.Cheque) ([]byte, error) { return []byte{0x01}, nil }

// protoStub is the remote side of the cheque protocol: it outlives restarts of
// the node (the peers keep the cheques they were sent).
type protoStub struct {
	mu      sync.Mutex
	emitted map[string][]*big.Int // per overlay, copies taken at emission time
}

func (p *protoStub) EmitCheque(ctx context.Context, peer boson.Address, c *chequePkg.SignedCheque) error {
	p.mu.Lock()
	defer p.mu.Unlock()
	p.emitted[peer.String()] = append(p.emitted[peer.String()], new(big.Int).Set(c.CumulativePayout))
	return nil
}
func (p *protoStub) count(peer boson.Address) int {
	p.mu.Lock()
	defer p.mu.Unlock()
	return len(p.emitted[peer.String()])
}
func (p *protoStub) list(peer boson.Address) []*big.Int {
	p.mu.Lock()
	defer p.mu.Unlock()
	return append([]*big.Int{}, p.emitted[peer.String()]...)
}

// countSubPub drops every publication but counts the "header" ones: each
// Put*Traffic call spawns exactly one PublishHeader goroutine, whose last action
// is this Publish, so the count tells when those goroutines have finished.
type countSubPub struct{ headers int64 }

func (*countSubPub) Subscribe(subscribe.INotifier, string, string, string) error { return nil }
func (c *countSubPub) Publish(ns, kind, param string, m interface{}) error {
	if ns == "traffic" && kind == "header" {
		atomic.AddInt64(&c.headers, 1)
	}
	return nil
}
func (*countSubPub) PublishArray(string, string, string, []interface{}) error { return nil }

// ---- world ----------------------------------------------------------------------

type session struct {
	gate *gatestore.Store
	svc  *traffic.Service
	pub  *countSubPub
	puts int64 // Put*Traffic calls started in this session
}

// drainHeaders waits until every PublishHeader goroutine spawned so far has published.
func (s *session) drainHeaders() error {
	deadline := time.Now().Add(waitCap)
	for atomic.LoadInt64(&s.pub.headers) < atomic.LoadInt64(&s.puts) {
		if time.Now().After(deadline) {
			return fmt.Errorf("PublishHeader goroutines did not finish within %v (%d of %d)", waitCap, atomic.LoadInt64(&s.pub.headers), atomic.LoadInt64(&s.puts))
		}
		time.Sleep(20 * time.Microsecond)
	}
	return nil
}

type world struct {
	inner storage.StateStorer
	peers []peerInfo
	chain *chainStub
	proto *protoStub
	cur   *session
}

func newWorld(n int, cashedOut, cashedIn []uint64) (*world, error) {
	inner, err := leveldb.NewInMemoryStateStore(logging.New(io.Discard, 0))
	if err != nil {
		return nil, err
	}
	w := &world{inner: inner, proto: &protoStub{emitted: map[string][]*big.Int{}}}
	for i := 0; i < n; i++ {
		w.peers = append(w.peers, mkPeer(i))
	}
	w.chain = &chainStub{peers: w.peers, cashedOut: cashedOut, cashedIn: cashedIn}
	return w, nil
}

func (w *world) close() { _ = w.inner.Close() }

// boot builds a node session the way pkg/node/chain.go does (cheque store, cash-out,
// address book and traffic service over one state store) and runs Init.
func (w *world) boot() error {
	g := gatestore.New(w.inner)
	cs := chequePkg.NewChequeStore(g, selfChain, func(c *chequePkg.SignedCheque, _ int64) (common.Address, error) {
		return c.Beneficiary, nil // signatures are C30's subject; here every cheque is signed by its beneficiary
	}, chainID)
	ab := traffic.NewAddressBook(g)
	pub := &countSubPub{}
	svc := traffic.New(logging.New(io.Discard, 0), selfChain, g, w.chain, cs, cashoutStub{}, nil, ab, signerStub{}, w.proto, chainID, pub)
	svc.SetNotifyPaymentFunc(func(boson.Address, *big.Int) error { return nil })
	if err := svc.Init(); err != nil {
		return fmt.Errorf("Init: %w", err)
	}
	w.cur = &session{gate: g, svc: svc, pub: pub}
	return nil
}

// handshake registers the peers like the traffic protocol's handshake does.
func (w *world) handshake() error {
	for _, p := range w.peers {
		if err := w.cur.svc.Handshake(p.overlay, p.chain, chequePkg.SignedCheque{}); err != nil {
			return fmt.Errorf("Handshake: %w", err)
		}
	}
	return nil
}

// key predicates (formats of cheque/chequestore.go: "<prefix>_<hex address>")
func keyFor(prefix string, a common.Address) func(op, key string) bool {
	suffix := fmt.Sprintf("_%x", a)
	return func(op, key string) bool {
		return op == gatestore.OpPut && strings.HasPrefix(key, prefix) && strings.HasSuffix(key, suffix)
	}
}

const (
	pfxRetrieved = "retrieved_traffic_"
	pfxTransfer  = "transferred_traffic_"
	pfxSendCheq  = "traffic_last_send_cheque_"
	pfxRecvCheq  = "traffic_last_received_cheque_"
)
