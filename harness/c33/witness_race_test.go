package c33

import (
	"bytes"
	"context"
	"os"
	"os/exec"
	"strings"
	"testing"

	"verifharness/internal/evid"
)

// TestC33_TornReadWitness_Race is the witness of C33/unlocked-reads-of-per-peer-amounts:
// PutRetrieveTraffic(p) directly followed by Pay(p), i.e. Pay writing the cheque amount
// under the peer lock while the PublishHeader goroutine of the update reads it in
// TrafficInfo under the map lock only. A race report is fatal for a -race binary, so the
// witness runs in a child process. (Before repo commit 571c813 the amount was also
// modified in place and this pair could crash the process with a torn big.Int.)
func TestC33_TornReadWitness_Race(t *testing.T) {
	if os.Getenv("C33_WITNESS_CHILD") == "1" {
		witnessChild(t)
		return
	}
	r := evid.Get(id)
	evid.Finish(t, r)
	if !raceOn || !evid.Known(sigRace) || os.Getenv("VERIF_REPLAY_ONLY") == "1" {
		return
	}
	exe, err := os.Executable()
	if err != nil {
		t.Logf("witness skipped: %v", err)
		return
	}
	cmd := exec.Command(exe, "-test.run", "^TestC33_TornReadWitness_Race$", "-test.count=1", "-test.timeout=120s")
	for _, kv := range os.Environ() {
		if strings.HasPrefix(kv, "VERIF_OUT=") || strings.HasPrefix(kv, "GORACE=") {
			continue
		}
		cmd.Env = append(cmd.Env, kv)
	}
	cmd.Env = append(cmd.Env, "C33_WITNESS_CHILD=1", "GORACE=halt_on_error=1")
	out, _ := cmd.CombinedOutput()
	racy := bytes.Contains(out, []byte("DATA RACE")) || bytes.Contains(out, []byte("nil pointer dereference"))
	if racy && bytes.Contains(out, []byte("traffic.(*Service).TrafficInfo")) {
		r.Witness(sigRace)
		r.Class("race:witness-update-then-pay-still-racy")
	} else {
		r.Class("race:witness-update-then-pay-clean")
	}
}

func witnessChild(t *testing.T) {
	w, err := newWorld(2, []uint64{0, 0}, []uint64{0, 0})
	if err != nil {
		return
	}
	defer w.close()
	if w.boot() != nil || w.handshake() != nil {
		return
	}
	for i := 0; i < 200; i++ {
		p := w.peers[i%2].overlay
		_ = w.cur.svc.PutRetrieveTraffic(p, bu(10))
		_ = w.cur.svc.Pay(context.Background(), p, bu(5))
	}
}
