package c33

import (
	"fmt"
	"math/big"
	"sync"
	"testing"

	"pgregory.net/rapid"
	"verifharness/internal/evid"
)

// Right after a restart the peers are known (address book) but have no traffic record in memory; the
// first retrievals served to or from such a peer arrive on several goroutines at once. Every update
// whose call returned nil has to be in the totals, before and after the next restart. Many fresh
// peers per case, 2-8 simultaneous first updates each (the window is a few instructions wide, so
// one case holds hundreds of such races).
func TestC33_ColdPeersConcurrentFirstUpdates(t *testing.T) {
	r := evid.Get(id)
	evid.Finish(t, r)
	evid.Checks(6)
	rapid.Check(t, func(t *rapid.T) {
		n := rapid.SampledFrom([]int{150, 300}).Draw(t, "peers")
		g := rapid.IntRange(2, 8).Draw(t, "goroutines")
		zero := make([]uint64, n)
		w, e := newWorld(n, zero, zero)
		if e != nil {
			t.Skipf("harness: %v", e)
		}
		defer w.close()
		if e := w.boot(); e != nil {
			t.Fatalf("%s", evid.Violation(id, "C33/op-error", e.Error()))
		}
		if e := w.handshake(); e != nil {
			t.Fatalf("%s", evid.Violation(id, "C33/op-error", e.Error()))
		}
		w.cur.gate.Crash()
		if e := w.boot(); e != nil {
			t.Fatalf("%s", evid.Violation(id, "C33/op-error", e.Error()))
		}
		ack := make([][2]uint64, n)
		for p := 0; p < n; p++ {
			start := make(chan struct{})
			var wg sync.WaitGroup
			var mu sync.Mutex
			for j := 0; j < g; j++ {
				wg.Add(1)
				go func(j int) {
					defer wg.Done()
					<-start
					var err error
					kind := j % 2
					if kind == 0 {
						err = w.cur.svc.PutTransferTraffic(w.peers[p].overlay, big.NewInt(1))
					} else {
						err = w.cur.svc.PutRetrieveTraffic(w.peers[p].overlay, big.NewInt(1))
					}
					if err == nil {
						mu.Lock()
						ack[p][kind]++
						mu.Unlock()
					}
				}(j)
			}
			close(start)
			wg.Wait()
		}
		check := func(when string) {
			for p := 0; p < n; p++ {
				sent, e1 := w.cur.svc.TotalSent(w.peers[p].overlay)
				recv, e2 := w.cur.svc.TotalReceived(w.peers[p].overlay)
				if e1 != nil || e2 != nil {
					t.Fatalf("%s", evid.Violation(id, "C33/peer-forgotten", fmt.Sprintf("%s: peer %d: totals not available: %v %v", when, p, e1, e2)))
				}
				if sent.Cmp(new(big.Int).SetUint64(ack[p][0])) < 0 {
					t.Fatalf("%s", evid.Violation(id, "C33/transferred-total-lost", fmt.Sprintf("%s: peer %d: served total %v, but %d concurrent first updates of 1 had been acknowledged (%d goroutines per peer, peers known but without a traffic record)", when, p, sent, ack[p][0], g)))
				}
				if recv.Cmp(new(big.Int).SetUint64(ack[p][1])) < 0 {
					t.Fatalf("%s", evid.Violation(id, "C33/retrieved-total-lost", fmt.Sprintf("%s: peer %d: consumed total %v, but %d concurrent first updates of 1 had been acknowledged", when, p, recv, ack[p][1])))
				}
			}
		}
		if e := w.cur.drainHeaders(); e != nil {
			t.Skipf("harness: %v", e)
		}
		check("before the restart")
		w.cur.gate.Crash()
		if e := w.boot(); e != nil {
			t.Fatalf("%s", evid.Violation(id, "C33/op-error", e.Error()))
		}
		check("after the restart")
		r.Case(evid.Hash64("cold", n, g), true, "cold-peers-concurrent-first-updates")
	})
}
