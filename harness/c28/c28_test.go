package c28

import (
	"context"
	"encoding/json"
	"fmt"
	"os"
	"path/filepath"
	"sort"
	"strings"
	"testing"
	"time"

	"github.com/gauss-project/aurorafs/pkg/routetab"
	"github.com/gauss-project/aurorafs/pkg/routetab/pb"
	"pgregory.net/rapid"
	"verifharness/internal/evid"
)

const id = "C28"

// op is one step of the generated schedule. Operands are small integers resolved modulo the
// live population (nodes, queued messages, waiting calls) when the step is interpreted.
//
//	find     A=node B=target selector C: C%3==0 -> the caller gives up (context cancelled) as soon as its requests are out
//	refind   A=node; target = the destination of the latest successful FindRoute (B if there is none yet)
//	deliver  A=queue position
//	drop     A=queue position
//	dup      A=queue position (delivered now and left in the queue)
//	cancel   A=waiting call (its context is cancelled)
//	relay    A=source node B=target selector C: odd -> virtual-stream relay (onRelay), even -> conn-chain relay
//	rawrelay A=node that receives it B=target selector C: odd -> onRelay; P = walk choices (the stream's earlier hops)
type op struct {
	K string `json:"k"`
	A int    `json:"a"`
	B int    `json:"b,omitempty"`
	C int    `json:"c,omitempty"`
	P []int  `json:"p,omitempty"`
}

type kase struct {
	N      int      `json:"n"`
	Shape  string   `json:"shape"`
	Edges  [][2]int `json:"edges"`
	Prefix []int    `json:"prefix"` // first 4 bits of every overlay address (distinct): fixes all proximity orders
	Pub    []int    `json:"pub"`    // bit j of Pub[i]: node i has seen neighbour j as publicly reachable
	Alpha  int      `json:"alpha"`
	TTL    int      `json:"ttl"`
	Ops    []op     `json:"ops"`
}

type result struct {
	excluded    int
	sig, detail string
	nontrivial  bool
	classes     []string
	hist        []event
}

func hasCycle(c kase) bool { return len(c.Edges) >= c.N }

func (sm *sim) target(node, sel int) int {
	return (node + 1 + mod(sel, sm.c.N-1)) % sm.c.N
}

func mod(a, n int) int {
	if n <= 0 {
		return 0
	}
	a %= n
	if a < 0 {
		a += n
	}
	return a
}

func run(c kase, exclude bool) (res result) {
	sm, err := newSim(c)
	if sm != nil {
		sm.exclude = exclude
	}
	if sm != nil {
		defer sm.release()
	}
	if err != nil {
		infra("cannot build the simulation: %v", err)
	}
	defer func() {
		// no call may outlive the case
		for _, cl := range sm.calls {
			if !cl.finished {
				cl.cancel()
			}
		}
		for _, cl := range sm.calls {
			if !cl.finished {
				select {
				case <-cl.done:
				case <-time.After(60 * time.Second):
				}
			}
		}
	}()

	for k, o := range c.Ops {
		if sm.fail != nil {
			break
		}
		sm.step = k
		sm.exec(o)
	}
	// drain: everything still queued is delivered in FIFO order; callers still waiting give up last
	sm.step = len(c.Ops)
	for sm.fail == nil {
		if sm.qlen() > 0 {
			k := sm.firstDeliverable()
			if k >= 0 {
				m := sm.takeAt(k)
				sm.deliver(m, false)
				sm.afterStep(m.To)
				continue
			}
		}
		if len(sm.blocked) > 0 {
			bl := append([]*call{}, sm.blocked...)
			for _, cl := range bl {
				sm.logf("drain: cancel call#%d", cl.ID)
				cl.cancel()
			}
			sm.waitCancelled(bl...)
			sm.afterStep(-1)
			continue
		}
		if sm.qlen() == 0 {
			break
		}
	}
	if sm.fail == nil {
		for x := range sm.nodes {
			sm.checkTable(x)
		}
		sm.checkBound()
	}

	res.hist = sm.hist
	res.excluded = sm.excluded
	if sm.fail != nil {
		res.sig, res.detail = sm.fail.sig, sm.fail.detail
		return res
	}
	// evidence
	recorded := 0
	for x, nd := range sm.nodes {
		seen := map[*routetab.Path]bool{}
		for t := range sm.nodes {
			ps, err := nd.svc.GetRoute(context.Background(), sm.nodes[t].overlay)
			if err != nil {
				continue
			}
			for _, p := range ps {
				if !seen[p] {
					seen[p] = true
					recorded++
				}
			}
		}
		_ = x
	}
	res.nontrivial = hasCycle(c) || sm.dropped > 0 || sm.reordered > 0
	cl := []string{"shape-" + c.Shape, fmt.Sprintf("n=%d", c.N), fmt.Sprintf("alpha=%d", c.Alpha), fmt.Sprintf("ttl=%d", c.TTL)}
	if hasCycle(c) {
		cl = append(cl, "topology-has-cycle")
	}
	if sm.dropped > 0 {
		cl = append(cl, "case-with-drop")
	}
	if sm.reordered > 0 {
		cl = append(cl, "case-with-reordering")
	}
	if sm.dupReq+sm.dupResp > 0 {
		cl = append(cl, "case-with-duplicate")
	}
	if recorded > 0 {
		cl = append(cl, "case-with-recorded-paths")
	}
	if sm.cls["find-ok"] > 0 {
		cl = append(cl, "case-with-successful-find")
	}
	if sm.cls["relay-forward"] > 0 {
		cl = append(cl, "case-with-relay-forward")
	}
	if sm.cls["resp-from-cache"] > 0 {
		cl = append(cl, "case-with-cached-response")
	}
	res.classes = cl
	r := evid.Get(id)
	for k, v := range sm.cls {
		r.ClassN("ev:"+k, v)
	}
	r.ClassN("ev:route-deliveries", sm.routeDeliveries)
	r.ClassN("ev:relay-deliveries", sm.relayDeliveries)
	r.ClassN("ev:recorded-paths-at-end", recorded)
	return res
}

func (sm *sim) firstDeliverable() int {
	sm.mu.Lock()
	q := append([]*msg{}, sm.queue...)
	sm.mu.Unlock()
	for k, m := range q {
		if sm.deliverable(m) {
			return k
		}
	}
	return -1
}

// waitCancelled waits for cancelled calls to return (FindRoute selects on its caller's context).
func (sm *sim) waitCancelled(cs ...*call) {
	for _, cl := range cs {
		if cl.finished {
			continue
		}
		cl.needConfirm = true
		select {
		case <-cl.done:
		case <-time.After(120 * time.Second):
			infra("cancelled call#%d (%s at n%d) did not return for 120 s", cl.ID, cl.Kind, cl.Node)
		}
	}
	sm.settle()
}

func (sm *sim) doFind(x, t int, giveUp bool) {
	if sm.foreignFind(x, t) {
		sm.class("find-skipped(other-node-busy-with-same-target)")
		return
	}
	sm.class("find")
	sm.roots++
	c := &call{Kind: "find", Node: x, Target: t, mayFind: true, waitOn: sm.sameNodeFind(x, t)}
	if c.waitOn != nil {
		sm.class("find-joins-pending-find")
	}
	sm.logf("FindRoute(n%d -> n%d)", x, t)
	svc := sm.nodes[x].svc
	tgt := sm.nodes[t].overlay
	sm.start(c, func(ctx context.Context) { c.paths, c.err = svc.FindRoute(ctx, tgt, time.Hour) })
	sm.afterStep(-1)
	if giveUp && !c.finished {
		sm.class("find-given-up-early")
		sm.logf("call#%d gives up", c.ID)
		c.cancel()
		sm.waitCancelled(c)
		sm.afterStep(-1)
	}
}

func (sm *sim) exec(o op) {
	n := sm.c.N
	switch o.K {
	case "find":
		x := mod(o.A, n)
		sm.doFind(x, sm.target(x, o.B), o.C%3 == 0)
	case "refind":
		// another node looks for a destination that was found before (answers from tables)
		x := mod(o.A, n)
		t := sm.lastFound
		if t < 0 {
			t = sm.target(x, o.B)
		}
		if x == t {
			x = (x + 1) % n
		}
		sm.class("refind")
		sm.doFind(x, t, false)
	case "deliver", "dup", "drop":
		ql := sm.qlen()
		if ql == 0 {
			sm.class("noop-" + o.K)
			return
		}
		k := mod(o.A, ql)
		sm.mu.Lock()
		m := sm.queue[k]
		sm.mu.Unlock()
		switch o.K {
		case "drop":
			sm.takeAt(k)
			sm.dropped++
			sm.class("drop")
			desc, _, _ := sm.describe(m)
			sm.logf("drop msg#%d n%d->n%d %s", m.ID, m.From, m.To, desc)
		case "deliver":
			if !sm.deliverable(m) {
				sm.class("noop-deliver(other-node-busy-with-same-target)")
				return
			}
			if k != 0 {
				sm.reordered++
			}
			sm.takeAt(k)
			sm.deliver(m, false)
			sm.afterStep(m.To)
		case "dup":
			if !sm.deliverable(m) {
				sm.class("noop-dup(other-node-busy-with-same-target)")
				return
			}
			sm.reordered++
			switch m.Stream {
			case streamRouteReq:
				sm.dupReq++
			case streamRouteResp:
				sm.dupResp++
			default:
				sm.class("dup-relay")
			}
			sm.class("dup")
			sm.deliver(m, true)
			sm.afterStep(m.To)
		}
	case "cancel":
		if len(sm.blocked) == 0 {
			sm.class("noop-cancel")
			return
		}
		c := sm.blocked[mod(o.A, len(sm.blocked))]
		sm.class("cancel")
		sm.logf("cancel call#%d (%s at n%d)", c.ID, c.Kind, c.Node)
		c.cancel()
		select {
		case <-c.done:
		case <-time.After(120 * time.Second):
			infra("a cancelled call did not return for 120 s")
		}
		sm.settle()
		sm.afterStep(-1)
	case "relay":
		x := mod(o.A, n)
		t := sm.target(x, o.B)
		wf := sm.willFind(x, t, nil)
		if wf && sm.foreignFind(x, t) {
			sm.class("relay-skipped(other-node-busy-with-same-target)")
			return
		}
		sm.class("relay")
		sm.roots++
		c := &call{Kind: "getnext", Node: x, Target: t, mayFind: wf, Virtual: o.C%2 == 1}
		if wf {
			c.waitOn = sm.sameNodeFind(x, t)
		}
		sm.logf("relay origin n%d -> n%d: GetNextHopRandomOrFind", x, t)
		svc := sm.nodes[x].svc
		tgt := sm.nodes[t].overlay
		sm.start(c, func(ctx context.Context) { c.next, c.err = svc.GetNextHopRandomOrFind(ctx, tgt) })
		sm.afterStep(-1)
	case "rawrelay":
		x := mod(o.A, n)
		t := sm.target(x, o.B)
		// a simple walk that ends at a neighbour of x and avoids x and the target: the hops a relay
		// stream can have made before it reaches x
		used := map[int]bool{x: true, t: true}
		cur := x
		var back []int
		for _, ch := range o.P {
			var cand []int
			for j := 0; j < n; j++ {
				if sm.adj[cur][j] && !used[j] {
					cand = append(cand, j)
				}
			}
			if len(cand) == 0 {
				break
			}
			cur = cand[mod(ch, len(cand))]
			used[cur] = true
			back = append(back, cur)
		}
		if len(back) == 0 {
			sm.class("noop-rawrelay")
			return
		}
		walk := make([]int, len(back))
		for k := range back {
			walk[len(back)-1-k] = back[k]
		}
		// the source is a neighbour of the first hop that is neither on the walk nor x nor the target
		src := -1
		for j := 0; j < n; j++ {
			if sm.adj[walk[0]][j] && !used[j] {
				src = j
				break
			}
		}
		if src < 0 && len(walk) >= 2 {
			// no such neighbour: the first hop becomes the source
			src, walk = walk[0], walk[1:]
		}
		if src < 0 {
			sm.class("noop-rawrelay")
			return
		}
		sm.class("rawrelay")
		req := &pb.RouteRelayReq{
			Src: sm.nodes[src].overlay.Bytes(), SrcMode: fullNode().Bv.Bytes(), Dest: sm.nodes[t].overlay.Bytes(),
			ProtocolName: []byte("c28"), ProtocolVersion: []byte("1.0.0"), StreamName: []byte("s"),
		}
		for _, w := range walk {
			req.Paths = append(req.Paths, sm.nodes[w].overlay.Bytes())
		}
		stream := routetab.StreamOnRelayConnChain
		if o.C%2 == 1 {
			stream = routetab.StreamOnRelay
		}
		m := sm.enqueueRelay(walk[len(walk)-1], x, stream, req, src, t, walk)
		sm.logf("relay stream src=n%d target=n%d with walk %v arrives at n%d (msg#%d)", src, t, walk, x, m.ID)
	}
}

// ---------------------------------------------------------------------------------------------
// generator

func genCase(t *rapid.T, maxN int) kase {
	var c kase
	c.N = rapid.IntRange(3, maxN).Draw(t, "n")
	c.Shape = rapid.SampledFrom([]string{"line", "ring", "star", "tree", "random", "random", "dense"}).Draw(t, "shape")
	set := map[[2]int]bool{}
	add := func(a, b int) {
		if a == b {
			return
		}
		if a > b {
			a, b = b, a
		}
		set[[2]int{a, b}] = true
	}
	switch c.Shape {
	case "line", "ring":
		for i := 1; i < c.N; i++ {
			add(i-1, i)
		}
		if c.Shape == "ring" {
			add(c.N-1, 0)
		}
	case "star":
		for i := 1; i < c.N; i++ {
			add(0, i)
		}
	default:
		for i := 1; i < c.N; i++ {
			add(rapid.IntRange(0, i-1).Draw(t, "parent"), i)
		}
		extra := 0
		switch c.Shape {
		case "random":
			extra = rapid.IntRange(1, c.N).Draw(t, "extra")
		case "dense":
			extra = c.N * c.N
		}
		for k := 0; k < extra; k++ {
			if c.Shape == "dense" {
				add(k/c.N, k%c.N)
				continue
			}
			a := rapid.IntRange(0, c.N-1).Draw(t, "ea")
			b := rapid.IntRange(0, c.N-2).Draw(t, "eb")
			if b >= a {
				b++
			}
			add(a, b)
		}
		if c.Shape == "dense" {
			// remove a few edges again, keeping the spanning tree out of it is not needed: a dense
			// graph minus up to two edges stays connected for n >= 3 unless both hit a degree-2 node
			// of K3; handled by the connectivity repair below
			rm := rapid.IntRange(0, 2).Draw(t, "rm")
			for k := 0; k < rm; k++ {
				a := rapid.IntRange(0, c.N-1).Draw(t, "ra")
				b := rapid.IntRange(0, c.N-2).Draw(t, "rb")
				if b >= a {
					b++
				}
				if a > b {
					a, b = b, a
				}
				delete(set, [2]int{a, b})
			}
		}
	}
	for e := range set {
		c.Edges = append(c.Edges, e)
	}
	sort.Slice(c.Edges, func(i, j int) bool {
		if c.Edges[i][0] != c.Edges[j][0] {
			return c.Edges[i][0] < c.Edges[j][0]
		}
		return c.Edges[i][1] < c.Edges[j][1]
	})
	c.Edges = connect(c.N, c.Edges)
	c.Prefix = rapid.SliceOfNDistinct(rapid.IntRange(0, 15), c.N, c.N, func(v int) int { return v }).Draw(t, "prefix")
	all := rapid.IntRange(0, 2).Draw(t, "pubmode")
	for i := 0; i < c.N; i++ {
		switch all {
		case 0:
			c.Pub = append(c.Pub, 0)
		case 1:
			c.Pub = append(c.Pub, (1<<uint(c.N))-1)
		default:
			c.Pub = append(c.Pub, rapid.IntRange(0, (1<<uint(c.N))-1).Draw(t, "pub"))
		}
	}
	c.Alpha = rapid.IntRange(1, 3).Draw(t, "alpha")
	c.TTL = rapid.IntRange(2, 6).Draw(t, "ttl")

	small := func(label string) int { return rapid.IntRange(0, 11).Draw(t, label) }
	// every case starts with a discovery
	c.Ops = append(c.Ops, op{K: "find", A: small("a"), B: small("b"), C: 1 + small("c")%2})
	nops := rapid.IntRange(4, 50).Draw(t, "nops")
	kinds := []string{
		"deliver", "deliver", "deliver", "deliver", "deliver", "deliver", "deliver", "deliver",
		"find", "find", "refind", "cancel", "drop", "dup", "relay", "relay", "rawrelay",
	}
	for i := 0; i < nops; i++ {
		k := rapid.SampledFrom(kinds).Draw(t, "kind")
		o := op{K: k}
		switch k {
		case "deliver", "drop", "dup":
			// position 0 (oldest) half of the time, so that long in-order runs exist too
			if rapid.Bool().Draw(t, "head") {
				o.A = 0
			} else {
				o.A = small("a")
			}
		case "cancel":
			o.A = small("a")
		case "find", "relay", "refind":
			o.A, o.B, o.C = small("a"), small("b"), small("c")
		case "rawrelay":
			o.A, o.B, o.C = small("a"), small("b"), small("c")
			o.P = rapid.SliceOfN(rapid.IntRange(0, 5), 1, 4).Draw(t, "walk")
		}
		c.Ops = append(c.Ops, o)
	}
	return c
}

// connect adds the missing edges i-1 -- i between components (construction, not rejection).
func connect(n int, edges [][2]int) [][2]int {
	comp := make([]int, n)
	for i := range comp {
		comp[i] = i
	}
	var find func(int) int
	find = func(a int) int {
		for comp[a] != a {
			comp[a] = comp[comp[a]]
			a = comp[a]
		}
		return a
	}
	for _, e := range edges {
		comp[find(e[0])] = find(e[1])
	}
	for i := 1; i < n; i++ {
		if find(i) != find(i-1) {
			comp[find(i)] = find(i - 1)
			edges = append(edges, [2]int{i - 1, i})
		}
	}
	sort.Slice(edges, func(i, j int) bool {
		if edges[i][0] != edges[j][0] {
			return edges[i][0] < edges[j][0]
		}
		return edges[i][1] < edges[j][1]
	})
	return edges
}

// ---------------------------------------------------------------------------------------------
// glue

func saveHistory(c kase, res result) string {
	dir := os.Getenv("VERIF_REPLAY_OUT")
	if dir == "" {
		return ""
	}
	p := filepath.Join(dir, "c28-failing-history.json")
	b, _ := json.MarshalIndent(map[string]interface{}{"signature": res.sig, "detail": res.detail, "case": c, "history": res.hist}, "", " ")
	if os.WriteFile(p, b, 0o644) != nil {
		return ""
	}
	return p
}

func histTail(h []event, n int) string {
	if len(h) > n {
		h = h[len(h)-n:]
	}
	var b strings.Builder
	for _, e := range h {
		fmt.Fprintf(&b, "\n  [%d] %s", e.Step, e.What)
	}
	return b.String()
}

type fataler interface {
	Fatalf(string, ...interface{})
}

func judge(t fataler, r *evid.Rec, c kase) {
	res := run(c, evid.Known(sigRespRepeat))
	for k := 0; k < res.excluded; k++ {
		r.Excluded(sigRespRepeat)
	}
	if res.sig != "" {
		cj, _ := json.Marshal(c)
		saveHistory(c, res)
		t.Fatalf("%s", evid.Violation(id, res.sig, fmt.Sprintf("%s\ncase=%s\nhistory (last steps):%s", res.detail, cj, histTail(res.hist, 60))))
	}
	r.Case(evid.Hash64(c), res.nontrivial, res.classes...)
	r.Sample(c)
}

const rule = "rapid: network of 3..6 (thorough: ..8) real routetab services over real Kads; topology line|ring|star|random tree|tree+extra edges|near-complete (always connected), " +
	"4-bit address prefixes (fix every proximity order), per-neighbour reachability flags, alpha 1..3, MaxTTL 2..6; schedule of 5..51 steps: " +
	"FindRoute(node,target) [optionally given up at once], deliver/drop/duplicate the k-th queued message, cancel a waiting caller, originate a relay (conn-chain or virtual stream) " +
	"and follow it hop by hop, inject a relay stream with an arbitrary simple walk as its earlier hops; afterwards the queue is drained. " +
	"Oracle after every delivery: every path Table.Get returns at the receiving node (and every path FindRoute returns) has distinct, known nodes, consecutive items and last item--recorder are topology edges, " +
	"len <= MaxTTL, recorder not in it; every relay stream a handler opens goes to the target or to a node not on the stream's walk so far; route deliveries <= 3*(sum_{L<=n} alpha^L)*(roots+duplicated requests)+duplicated responses. " +
	"Non-trivial = topology has a cycle, or a message was dropped, or a message was delivered out of order/duplicated; distinct by hash of the drawn case"

func TestC28_Fixed(t *testing.T) {
	r := evid.Get(id)
	evid.Finish(t, r)
	r.SetRule(rule)
	defer closers.Wait()
	line := func(n int) [][2]int {
		var e [][2]int
		for i := 1; i < n; i++ {
			e = append(e, [2]int{i - 1, i})
		}
		return e
	}
	d := func(n int) []op {
		var o []op
		for i := 0; i < n; i++ {
			o = append(o, op{K: "deliver"})
		}
		return o
	}
	// the repository's own scenarios (route_test.go), driven through the queue
	cases := []kase{
		// 0--1--2--3--4--5, find 4 from 0
		{N: 6, Shape: "line", Edges: line(6), Prefix: []int{0, 1, 2, 3, 4, 5}, Pub: []int{0, 0, 0, 0, 0, 0}, Alpha: 2, TTL: 6,
			Ops: append([]op{{K: "find", A: 0, B: 3, C: 1}}, append(d(12), op{K: "relay", A: 0, B: 3}, op{K: "relay", A: 0, B: 3, C: 1})...)},
		// loop back: 0--1--2--3--4 plus 0--3, alpha 4 is not in range; alpha 3, ttl 4
		{N: 5, Shape: "random", Edges: append(line(5), [2]int{0, 3}), Prefix: []int{0, 4, 8, 12, 15}, Pub: []int{31, 31, 31, 31, 31}, Alpha: 3, TTL: 4,
			Ops: append([]op{{K: "find", A: 0, B: 3, C: 1}}, d(20)...)},
		// hop limit smaller than the distance
		{N: 5, Shape: "line", Edges: line(5), Prefix: []int{0, 1, 2, 3, 4}, Pub: []int{0, 0, 0, 0, 0}, Alpha: 2, TTL: 3,
			Ops: append([]op{{K: "find", A: 0, B: 3, C: 1}}, d(12)...)},
		// ring of 6, two discoveries meeting, a second find answered from a table, relays both ways
		{N: 6, Shape: "ring", Edges: append(line(6), [2]int{0, 5}), Prefix: []int{0, 3, 6, 9, 12, 15}, Pub: []int{63, 63, 63, 63, 63, 63}, Alpha: 2, TTL: 6,
			Ops: append(append([]op{{K: "find", A: 0, B: 2, C: 1}}, d(30)...), op{K: "find", A: 1, B: 3, C: 1}, op{K: "deliver"}, op{K: "deliver"}, op{K: "deliver"},
				op{K: "relay", A: 0, B: 2}, op{K: "relay", A: 5, B: 2, C: 1}, op{K: "rawrelay", A: 2, B: 2, P: []int{0, 0}})},
	}
	for _, c := range cases {
		c.Edges = connect(c.N, c.Edges)
		judge(t, r, c)
	}
	// witness of the known finding: n0 looks for n3; n2 (the target's only neighbour) is asked by n0 and,
	// through n1, a second time before the answer is back; it forwards the answer to both requesters
	if evid.Known(sigRespRepeat) {
		w := kase{N: 4, Shape: "random", Edges: [][2]int{{0, 1}, {0, 2}, {1, 2}, {2, 3}}, Prefix: []int{0, 5, 10, 15}, Pub: []int{0, 0, 0, 0},
			Alpha: 2, TTL: 4, Ops: []op{{K: "find", A: 0, B: 2, C: 1}}}
		res := run(w, false)
		switch res.sig {
		case "":
		case sigRespRepeat:
			r.Witness(sigRespRepeat)
		default:
			cj, _ := json.Marshal(w)
			saveHistory(w, res)
			t.Fatalf("%s", evid.Violation(id, res.sig, fmt.Sprintf("%s\ncase=%s\nhistory:%s", res.detail, cj, histTail(res.hist, 60))))
		}
	}
}

func TestC28_Sim(t *testing.T) {
	r := evid.Get(id)
	evid.Finish(t, r)
	r.SetRule(rule)
	defer closers.Wait()
	maxN := 6
	if evid.Thorough() {
		maxN = 8
	}
	evid.Checks(260)
	rapid.Check(t, func(t *rapid.T) {
		c := genCase(t, maxN)
		judge(t, r, c)
	})
}
