package c28

// Implementation simulation for C28: 3..N real routetab.Service instances, each over a real
// kademlia.Kad whose connected set is the generated topology, joined by a message queue
// ("QueueNet") owned by the harness. Every stream a service opens becomes a queued message;
// the generated schedule decides which message is delivered, dropped or duplicated next.
//
// Blocking entry points (FindRoute, GetNextHopRandomOrFind, the relay handlers, which may call
// FindRoute) run on harness goroutines. The harness waits until each of them has either
// returned or is parked in FindRoute's select (decided from the goroutine dump, not from a
// timer), so that the schedule is a function of the drawn case only (up to the code's own use
// of crypto/rand and math/rand for neighbour and next-hop choice).

import (
	"bytes"
	"context"
	"crypto/sha256"
	"encoding/binary"
	"fmt"
	"io"
	"os"
	"runtime"
	"runtime/debug"
	"strconv"
	"strings"
	"sync"
	"sync/atomic"
	"time"

	"github.com/gauss-project/aurorafs/pkg/addressbook"
	"github.com/gauss-project/aurorafs/pkg/aurora"
	"github.com/gauss-project/aurorafs/pkg/boson"
	"github.com/gauss-project/aurorafs/pkg/crypto"
	discmock "github.com/gauss-project/aurorafs/pkg/discovery/mock"
	"github.com/gauss-project/aurorafs/pkg/logging"
	"github.com/gauss-project/aurorafs/pkg/p2p"
	p2pmock "github.com/gauss-project/aurorafs/pkg/p2p/mock"
	"github.com/gauss-project/aurorafs/pkg/p2p/protobuf"
	ppmock "github.com/gauss-project/aurorafs/pkg/pingpong/mock"
	"github.com/gauss-project/aurorafs/pkg/routetab"
	"github.com/gauss-project/aurorafs/pkg/routetab/pb"
	"github.com/gauss-project/aurorafs/pkg/shed"
	mockstate "github.com/gauss-project/aurorafs/pkg/statestore/mock"
	"github.com/gauss-project/aurorafs/pkg/subscribe"
	"github.com/gauss-project/aurorafs/pkg/topology/kademlia"
	"github.com/gauss-project/aurorafs/pkg/topology/lightnode"
	ma "github.com/multiformats/go-multiaddr"
)

const (
	networkID       = 0
	streamRouteReq  = "onRouteReq"  // routetab's unexported stream names, as listed by Protocol()
	streamRouteResp = "onRouteResp" //
)

// ---------------------------------------------------------------------------------------------
// small stubs

type nopSubPub struct{}

func (nopSubPub) Subscribe(subscribe.INotifier, string, string, string) error { return nil }
func (nopSubPub) Publish(string, string, string, interface{}) error           { return nil }
func (nopSubPub) PublishArray(string, string, string, []interface{}) error    { return nil }

// p2pStub is the p2p.Service given to Kad and routetab. Everything is the repository's own
// mock except the two relay entry points, which the mock leaves unimplemented (panic / zero
// values). They do what libp2p.Service does for the only branch the relay handlers need:
// read the first RouteRelayReq and say whether it has to be forwarded (destination is not
// this node, not a mid-call) or is handled locally.
type p2pStub struct {
	*p2pmock.Service
	self boson.Address
}

func (s *p2pStub) CallHandlerWithConnChain(ctx context.Context, last, src p2p.Peer, stream p2p.Stream, protocolName, protocolVersion, streamName string) error {
	_, _ = stream.Write([]byte("ack"))
	return nil
}

func (s *p2pStub) CallHandler(ctx context.Context, last p2p.Peer, stream p2p.Stream) (*pb.RouteRelayReq, *p2p.WriterChan, *p2p.ReaderChan, bool, error) {
	w := &p2p.WriterChan{W: make(chan []byte, 1), Err: make(chan error, 1)}
	r := &p2p.ReaderChan{R: make(chan []byte, 1), Err: make(chan error, 1)}
	req := &pb.RouteRelayReq{}
	if err := protobuf.NewReader(stream).ReadMsg(req); err != nil {
		return nil, w, r, false, err
	}
	if bytes.Equal(req.Dest, s.self.Bytes()) {
		return req, w, r, false, nil // delivered: handled by the local protocol handler
	}
	return req, w, r, true, nil
}

// outStream is the sender's end of a queued message: writes are appended to the message,
// reads see a peer that has closed its write side.
type outStream struct {
	sm *sim
	m  *msg
}

func (s *outStream) Read([]byte) (int, error) { return 0, io.EOF }
func (s *outStream) Write(p []byte) (int, error) {
	s.sm.mu.Lock()
	s.m.buf = append(s.m.buf, p...)
	s.sm.mu.Unlock()
	return len(p), nil
}
func (s *outStream) Close() error                 { return nil }
func (s *outStream) FullClose() error             { return nil }
func (s *outStream) Reset() error                 { return nil }
func (s *outStream) Headers() p2p.Headers         { return nil }
func (s *outStream) ResponseHeaders() p2p.Headers { return nil }

// inStream is the receiver's end: the bytes the sender wrote, then EOF.
type inStream struct {
	mu sync.Mutex
	r  *bytes.Reader
	w  int
}

func (s *inStream) Read(p []byte) (int, error) {
	s.mu.Lock()
	defer s.mu.Unlock()
	return s.r.Read(p)
}
func (s *inStream) Write(p []byte) (int, error) {
	s.mu.Lock()
	s.w += len(p)
	s.mu.Unlock()
	return len(p), nil
}
func (s *inStream) Close() error                 { return nil }
func (s *inStream) FullClose() error             { return nil }
func (s *inStream) Reset() error                 { return nil }
func (s *inStream) Headers() p2p.Headers         { return nil }
func (s *inStream) ResponseHeaders() p2p.Headers { return nil }

// ---------------------------------------------------------------------------------------------
// simulation state

type node struct {
	i        int
	overlay  boson.Address
	addr     *aurora.Address
	svc      *routetab.Service
	kad      *kademlia.Kad
	db       *shed.DB
	handlers map[string]p2p.HandlerFunc
}

// msg is one stream opened by a node towards a neighbour, with everything it wrote.
type msg struct {
	ID     int
	From   int
	To     int
	Stream string
	buf    []byte
	Cause  int // call that opened it (-1: harness acting as the relay originator)
	DupOf  int
	// relay streams: ground truth kept by the harness
	Relay   bool
	Src     int
	Target  int
	Walk    []int // nodes the stream visited before reaching To (source excluded), in order
	checked bool
	// route responses: the sender appears more than once at the end of a path it forwards
	repeatsSender bool
}

// sigRespRepeat: respForward hands the same *pb.RouteResp to doRouteResp once per waiting
// requester and doRouteResp appends the node to resp.Paths in place, so the 2nd, 3rd, ...
// requester receive paths that end in the forwarding node 2, 3, ... times.
const sigRespRepeat = "C28/resp-forward-repeats-self"

type ctxKey struct{}

// call is one invocation of code under test on its own goroutine.
type call struct {
	ID      int
	Kind    string // find | getnext | handler
	Node    int
	Target  int // find/getnext/relay handler: destination; route handlers: -1
	Msg     *msg
	Virtual bool // getnext: originate an onRelay (virtual stream) relay instead of a conn-chain one
	mayFind bool
	waitOn  *call
	reqDest int // handler of a route request: index of the requested destination (-1 otherwise)

	done     chan struct{}
	cancel   context.CancelFunc
	finished bool
	blocked  bool
	// scheduling
	canBlock    bool // may wait inside FindRoute (everything except route request/response handlers)
	needConfirm bool // must be seen finished or parked before the schedule goes on

	paths    []*routetab.Path
	next     boson.Address
	err      error
	panicked interface{}
	stack    string
}

type event struct {
	Step int    `json:"step"`
	What string `json:"what"`
}

type failure struct {
	sig    string
	detail string
}

type sim struct {
	c     kase
	nodes []*node
	idx   map[string]int
	adj   [][]bool

	mu    sync.Mutex // queue, messages' buffers, history (streams are opened from call goroutines)
	queue []*msg
	nmsg  int
	hist  []event
	step  int

	calls   []*call
	blocked []*call
	active  map[int][]*call // target -> unfinished calls that may be inside FindRoute(target)

	ctx    context.Context
	cancel context.CancelFunc

	fail *failure

	lastFound int // destination of the latest successful FindRoute (-1: none)

	exclude  bool // drop the messages of known finding sigRespRepeat when they are sent (counted)
	excluded int
	cur      *msg // message whose delivery is being judged

	// counters
	routeDeliveries int
	relayDeliveries int
	roots           int
	dupReq, dupResp int
	dropped         int
	reordered       int
	cls             map[string]int
}

func (sm *sim) class(c string) {
	sm.mu.Lock()
	sm.cls[c]++
	sm.mu.Unlock()
}

func (sm *sim) classLocked(c string) { sm.cls[c]++ }

func (sm *sim) logf(format string, a ...interface{}) {
	s := fmt.Sprintf(format, a...)
	sm.mu.Lock()
	sm.hist = append(sm.hist, event{Step: sm.step, What: s})
	sm.mu.Unlock()
}

func (sm *sim) logfLocked(format string, a ...interface{}) {
	sm.hist = append(sm.hist, event{Step: sm.step, What: fmt.Sprintf(format, a...)})
}

func (sm *sim) setFail(sig, format string, a ...interface{}) {
	if sm.fail == nil {
		sm.fail = &failure{sig: sig, detail: fmt.Sprintf(format, a...)}
		sm.logf("VIOLATION %s: %s", sig, sm.fail.detail)
	}
}

// ---------------------------------------------------------------------------------------------
// construction

var uniq uint64 // process-wide case counter: keeps every case's overlay addresses unique

// mineKey returns a secp256k1 key whose overlay address starts with the 4-bit prefix.
// Deterministic in (caseNo, nodeIdx, prefix).
func mineKey(caseNo uint64, nodeIdx, prefix int) (boson.Address, crypto.Signer, error) {
	for try := uint32(0); try < 100000; try++ {
		var seed [24]byte
		copy(seed[:], "c28k")
		binary.BigEndian.PutUint64(seed[4:], caseNo)
		binary.BigEndian.PutUint32(seed[12:], uint32(nodeIdx))
		binary.BigEndian.PutUint32(seed[16:], try)
		h := sha256.Sum256(seed[:])
		h[0] &= 0x7f // stay below the group order
		if h[0] == 0 && h[1] == 0 {
			continue
		}
		pk := crypto.Secp256k1PrivateKeyFromBytes(h[:])
		ov, err := crypto.NewOverlayAddress(pk.PublicKey, networkID)
		if err != nil {
			return boson.ZeroAddress, nil, err
		}
		if int(ov.Bytes()[0]>>4) == prefix {
			return ov, crypto.NewDefaultSigner(pk), nil
		}
	}
	return boson.ZeroAddress, nil, fmt.Errorf("no key for prefix %d", prefix)
}

func fullNode() aurora.Model { return aurora.NewModel().SetMode(aurora.FullNode) }

func newSim(c kase) (*sim, error) {
	caseNo := atomic.AddUint64(&uniq, 1)
	sm := &sim{c: c, idx: map[string]int{}, active: map[int][]*call{}, cls: map[string]int{}, lastFound: -1}
	sm.ctx, sm.cancel = context.WithCancel(context.Background())
	sm.adj = make([][]bool, c.N)
	for i := range sm.adj {
		sm.adj[i] = make([]bool, c.N)
	}
	for _, e := range c.Edges {
		sm.adj[e[0]][e[1]] = true
		sm.adj[e[1]][e[0]] = true
	}
	// the two protocol parameters are package variables of routetab
	atomic.StoreInt32(&routetab.MaxTTL, int32(c.TTL))
	routetab.NeighborAlpha = int32(c.Alpha)
	// pending entries must not expire by wall clock inside a case
	routetab.PendingTimeout = time.Hour

	logger := logging.New(io.Discard, 0)
	for i := 0; i < c.N; i++ {
		ov, signer, err := mineKey(caseNo, i, c.Prefix[i])
		if err != nil {
			return nil, err
		}
		under, err := ma.NewMultiaddr("/ip4/127.0.0.1/tcp/1634/dns/" + ov.String())
		if err != nil {
			return nil, err
		}
		aaddr, err := aurora.NewAddress(signer, under, ov, networkID)
		if err != nil {
			return nil, err
		}
		sm.nodes = append(sm.nodes, &node{i: i, overlay: ov, addr: aaddr})
		sm.idx[ov.ByteString()] = i
	}
	for i, nd := range sm.nodes {
		// the Kad's peer-metrics store: in-memory leveldb as in kademlia's tests, with a small write
		// buffer (the driver's default preallocates 32 MiB per instance)
		db, err := shed.NewDB("", &shed.Options{Driver: `leveldb:{"WriteBuffer":65536,"BlockCacheCapacity":65536}`})
		if err != nil {
			return nil, err
		}
		nd.db = db
		ab := addressbook.New(mockstate.NewStateStore())
		disc := discmock.NewDiscovery()
		disc.SetHive2(true) // production runs over hive2; Announce is then a no-op (no broadcast goroutines)
		p2ps := &p2pStub{Service: p2pmock.New(), self: nd.overlay}
		pp := ppmock.New(func(context.Context, boson.Address, ...string) (time.Duration, error) { return 0, nil })
		kad, err := kademlia.New(nd.overlay, ab, disc, p2ps, pp, nil, nil, db, logger, nopSubPub{},
			kademlia.Options{BinMaxPeers: 10, NodeMode: fullNode()})
		if err != nil {
			return nil, err
		}
		nd.kad = kad
		p2ps.SetPickyNotifier(kad)
		for j := 0; j < c.N; j++ {
			if !sm.adj[i][j] {
				continue
			}
			peer := sm.nodes[j]
			// what a completed handshake leaves behind: address book entry + topology connection
			if err := ab.Put(peer.overlay, *peer.addr); err != nil {
				return nil, err
			}
			if err := kad.Connected(sm.ctx, p2p.Peer{Address: peer.overlay, Mode: fullNode()}, true); err != nil {
				return nil, err
			}
			if c.Pub[i]&(1<<uint(j)) != 0 {
				kad.Reachable(peer.overlay, p2p.ReachabilityStatusPublic)
			}
		}
		if kad.NeighborhoodDepth() > 0 {
			sm.class("node-depth>0")
		}
		nd.svc = routetab.New(nd.overlay, sm.ctx, p2ps, &streamer{sm: sm, self: i}, ab, networkID,
			lightnode.NewContainer(nd.overlay), kad, mockstate.NewStateStore(), logger, routetab.Options{Alpha: int32(c.Alpha)})
		nd.handlers = map[string]p2p.HandlerFunc{}
		for _, sp := range nd.svc.Protocol().StreamSpecs {
			nd.handlers[sp.Name] = sp.Handler
		}
	}
	return sm, nil
}

var closers sync.WaitGroup

// infra stops the process for a problem of the harness or the machine (never a verdict about
// the property): the driver reports exit code 3 without a test failure as inconclusive.
func infra(format string, a ...interface{}) {
	fmt.Printf("C28 harness infrastructure problem: "+format+"\n", a...)
	os.Exit(3)
}

// release stops the services' tickers and shuts the Kads down in the background
// (Close of a never-started Kad waits 5 s for its manage loop).
func (sm *sim) release() {
	sm.cancel()
	for _, nd := range sm.nodes {
		if nd.db != nil {
			// closed first: stops leveldb's five goroutines per instance at once; Kad.Close then only
			// fails to persist its peer metrics, which nobody reads
			_ = nd.db.Close()
		}
		if nd.kad == nil {
			continue
		}
		closers.Add(1)
		go func(nd *node) {
			defer closers.Done()
			_ = nd.kad.Close()
		}(nd)
	}
}

// ---------------------------------------------------------------------------------------------
// the network

type streamer struct {
	sm   *sim
	self int
}

func (s *streamer) NewStream(ctx context.Context, address boson.Address, h p2p.Headers, protocol, version, stream string) (p2p.Stream, error) {
	sm := s.sm
	c, _ := ctx.Value(ctxKey{}).(*call)
	sm.mu.Lock()
	defer sm.mu.Unlock()
	to, ok := sm.idx[address.ByteString()]
	if !ok || !sm.adj[s.self][to] {
		// a libp2p node can only open streams to connected peers
		sm.classLocked("newstream-to-non-neighbour")
		sm.logfLocked("n%d NewStream(%s) to non-neighbour %s refused", s.self, stream, sm.name(address))
		return nil, p2p.ErrPeerNotFound
	}
	m := &msg{ID: sm.nmsg, From: s.self, To: to, Stream: stream, Cause: -1, DupOf: -1, Src: -1, Target: -1}
	sm.nmsg++
	if c != nil {
		m.Cause = c.ID
		if stream == streamRouteResp && c.Kind == "handler" && c.Msg != nil && c.Msg.Stream == streamRouteReq && c.reqDest >= 0 && c.reqDest != s.self {
			sm.classLocked("resp-from-cache") // a node that is not the destination answers from its table
		}
	}
	if stream == routetab.StreamOnRelay || stream == routetab.StreamOnRelayConnChain {
		m.Relay = true
		if c != nil && c.Msg != nil && c.Msg.Relay {
			m.Src, m.Target = c.Msg.Src, c.Msg.Target
			m.Walk = append(append([]int{}, c.Msg.Walk...), s.self)
		} else {
			m.Walk = []int{s.self}
		}
	}
	sm.queue = append(sm.queue, m)
	return &outStream{sm: sm, m: m}, nil
}

func (s *streamer) NewRelayStream(context.Context, boson.Address, p2p.Headers, string, string, string, bool) (p2p.Stream, error) {
	return nil, fmt.Errorf("c28: relay streams are originated by the harness")
}

func (s *streamer) NewConnChainRelayStream(context.Context, boson.Address, p2p.Headers, string, string, string) (p2p.Stream, error) {
	return nil, fmt.Errorf("c28: relay streams are originated by the harness")
}

func (sm *sim) name(a boson.Address) string {
	if i, ok := sm.idx[a.ByteString()]; ok {
		return "n" + strconv.Itoa(i)
	}
	s := a.String()
	if len(s) > 8 {
		s = s[:8]
	}
	return "?" + s
}

func (sm *sim) names(items [][]byte) string {
	var b strings.Builder
	b.WriteByte('[')
	for k, it := range items {
		if k > 0 {
			b.WriteByte(' ')
		}
		b.WriteString(sm.name(boson.NewAddress(it)))
	}
	b.WriteByte(']')
	return b.String()
}

// describe decodes a queued message for the history and the class counters.
func (sm *sim) describe(m *msg) (desc string, paths [][][]byte, dest []byte) {
	r := protobuf.NewReader(bytes.NewReader(m.buf))
	switch m.Stream {
	case streamRouteReq:
		var q pb.RouteReq
		if err := r.ReadMsg(&q); err != nil {
			return "req <undecodable: " + err.Error() + ">", nil, nil
		}
		s := "req dest=" + sm.name(boson.NewAddress(q.Dest)) + " alpha=" + strconv.Itoa(int(q.Alpha))
		for _, p := range q.Paths {
			s += " path=" + sm.names(p.Items)
			paths = append(paths, p.Items)
		}
		return s, paths, q.Dest
	case streamRouteResp:
		var q pb.RouteResp
		if err := r.ReadMsg(&q); err != nil {
			return "resp <undecodable: " + err.Error() + ">", nil, nil
		}
		s := "resp dest=" + sm.name(boson.NewAddress(q.Dest))
		for _, p := range q.Paths {
			s += " path=" + sm.names(p.Items)
			paths = append(paths, p.Items)
		}
		return s, paths, q.Dest
	default:
		var q pb.RouteRelayReq
		if err := r.ReadMsg(&q); err != nil {
			return m.Stream + " <undecodable: " + err.Error() + ">", nil, nil
		}
		return fmt.Sprintf("%s src=%s dest=%s paths=%s walk=%v", m.Stream, sm.name(boson.NewAddress(q.Src)),
			sm.name(boson.NewAddress(q.Dest)), sm.names(q.Paths), m.Walk), nil, q.Dest
	}
}

// ---------------------------------------------------------------------------------------------
// running code under test

var (
	profBuf   []runtime.StackRecord
	pcNames   = map[uintptr]string{}
	findRoute = "routetab.(*Service).FindRoute"
	wrapper   = "c28.(*sim).start.func1"
)

func pcName(pc uintptr) string {
	if n, ok := pcNames[pc]; ok {
		return n
	}
	n := ""
	if f := runtime.FuncForPC(pc - 1); f != nil {
		n = f.Name()
	}
	pcNames[pc] = n
	return n
}

// parkedInFindRoute counts the harness' call goroutines that are blocked in a select statement
// of (*routetab.Service).FindRoute itself (waiting for a route response, the caller's context
// or the timeout): stack = runtime.gopark <- runtime.selectgo <- FindRoute <- ... <- the
// harness' call wrapper. Read from the goroutine profile (no wall clock involved).
func parkedInFindRoute() int {
	for {
		n, ok := runtime.GoroutineProfile(profBuf)
		if ok {
			cnt := 0
			for _, r := range profBuf[:n] {
				st := r.Stack()
				if len(st) < 4 || pcName(st[0]) != "runtime.gopark" || pcName(st[1]) != "runtime.selectgo" ||
					!strings.HasSuffix(pcName(st[2]), findRoute) {
					continue
				}
				for _, pc := range st[3:] {
					if strings.HasSuffix(pcName(pc), wrapper) {
						cnt++
						break
					}
				}
			}
			return cnt
		}
		profBuf = make([]runtime.StackRecord, n+n/4+64)
	}
}

func (sm *sim) start(c *call, fn func(ctx context.Context)) {
	c.ID = len(sm.calls)
	c.done = make(chan struct{})
	sm.calls = append(sm.calls, c)
	ctx, cancel := context.WithCancel(context.WithValue(sm.ctx, ctxKey{}, c))
	c.cancel = cancel
	c.needConfirm = true
	c.canBlock = c.Kind != "handler" || (c.Msg != nil && c.Msg.Relay)
	if c.mayFind {
		sm.active[c.Target] = append(sm.active[c.Target], c)
	}
	ready := make(chan struct{})
	go func() {
		defer close(c.done)
		defer func() {
			if r := recover(); r != nil {
				c.panicked = r
				c.stack = string(debug.Stack())
			}
		}()
		close(ready)
		fn(ctx)
	}()
	<-ready
	sm.settle()
}

// settle returns when every unfinished call is parked inside FindRoute (or has finished).
// Only calls flagged needConfirm are looked at through the goroutine dump: a call that was
// found parked stays parked until something of its own node wakes it (a delivery to that
// node, the end of a FindRoute of that node, its context) and those events set the flag.
func (sm *sim) settle() {
	t0 := time.Now()
	polls := 0
	for {
		var need []*call
		again := false
		for _, c := range sm.calls {
			if c.finished {
				continue
			}
			select {
			case <-c.done:
				sm.finish(c)
				again = true
			default:
				if c.needConfirm {
					need = append(need, c)
				}
			}
		}
		if again {
			continue
		}
		if len(need) == 0 {
			sm.blocked = sm.blocked[:0]
			for _, c := range sm.calls {
				if !c.finished {
					sm.blocked = append(sm.blocked, c)
				}
			}
			return
		}
		if c := need[0]; !c.canBlock {
			<-c.done // route request/response handlers never wait for the network
			continue
		}
		polls++
		if polls >= 40 && (polls-40)%5 == 0 {
			unfinished := 0
			for _, c := range sm.calls {
				if !c.finished {
					unfinished++
				}
			}
			// every unfinished call of this case is either parked there or still on its way
			all := parkedInFindRoute() == unfinished
			for _, c := range need {
				// a caller parked behind a same-node FindRoute that has just finished is about to be
				// woken by that call's notifier goroutine: wait for it (bounded), for determinism
				if c.waitOn != nil && c.waitOn.finished && time.Since(t0) < 2*time.Second {
					all = false
				}
			}
			if all {
				// re-check that nothing finished meanwhile (a finished call is not parked)
				for _, c := range need {
					c.needConfirm = false
					if !c.blocked {
						c.blocked = true
						sm.logf("call#%d (%s at n%d) is waiting inside FindRoute", c.ID, c.Kind, c.Node)
					}
				}
				continue
			}
		}
		if polls < 40 {
			runtime.Gosched()
		} else {
			d := time.Duration(polls-39) * 10 * time.Microsecond
			if d > time.Millisecond {
				d = time.Millisecond
			}
			time.Sleep(d)
		}
		if time.Since(t0) > 120*time.Second {
			infra("settle: a call neither returned nor parked in FindRoute for 120 s")
		}
	}
}

// wake flags the waiting calls of node x for re-confirmation.
func (sm *sim) wake(x int) {
	for _, c := range sm.calls {
		if !c.finished && c.Node == x {
			c.needConfirm = true
		}
	}
}

func (sm *sim) finish(c *call) {
	c.finished = true
	c.cancel()
	if c.canBlock {
		sm.wake(c.Node) // FindRoute notifies the callers that joined it when it returns
	}
	if c.mayFind {
		l := sm.active[c.Target]
		for k, x := range l {
			if x == c {
				sm.active[c.Target] = append(l[:k:k], l[k+1:]...)
				break
			}
		}
	}
	if c.panicked != nil {
		sm.setFail("C28/panic", "call#%d (%s at n%d) panicked: %v\n%s", c.ID, c.Kind, c.Node, c.panicked, c.stack)
		return
	}
	switch c.Kind {
	case "find":
		if c.err != nil {
			sm.class("find-" + errClass(c.err))
			sm.logf("call#%d FindRoute(n%d -> n%d) = error %v", c.ID, c.Node, c.Target, c.err)
			return
		}
		sm.class("find-ok")
		sm.lastFound = c.Target
		sm.logf("call#%d FindRoute(n%d -> n%d) = %d path(s)", c.ID, c.Node, c.Target, len(c.paths))
		for _, p := range c.paths {
			sm.checkPath(c.Node, p.Items, "returned by FindRoute")
		}
	case "getnext":
		if c.err != nil {
			sm.class("relay-origin-" + errClass(c.err))
			sm.logf("call#%d GetNextHopRandomOrFind(n%d -> n%d) = error %v", c.ID, c.Node, c.Target, c.err)
			return
		}
		to, ok := sm.idx[c.next.ByteString()]
		if !ok || !sm.adj[c.Node][to] {
			sm.class("relay-origin-next-not-neighbour")
			sm.logf("call#%d GetNextHopRandomOrFind(n%d -> n%d) = %s, not a neighbour", c.ID, c.Node, c.Target, sm.name(c.next))
			return
		}
		sm.class("relay-originated")
		// what libp2p's NewConnChainRelayStream / NewRelayStream send to the first hop
		req := &pb.RouteRelayReq{
			Src: sm.nodes[c.Node].overlay.Bytes(), SrcMode: fullNode().Bv.Bytes(), Dest: sm.nodes[c.Target].overlay.Bytes(),
			ProtocolName: []byte("c28"), ProtocolVersion: []byte("1.0.0"), StreamName: []byte("s"),
		}
		stream := routetab.StreamOnRelayConnChain
		if c.Virtual {
			stream = routetab.StreamOnRelay
		}
		m := sm.enqueueRelay(c.Node, to, stream, req, c.Node, c.Target, nil)
		sm.logf("call#%d relay n%d -> n%d originated, first hop n%d (msg#%d)", c.ID, c.Node, c.Target, to, m.ID)
	case "handler":
		if c.err != nil {
			sm.class("handler-err-" + c.Msg.Stream)
		}
	}
}

func errClass(err error) string {
	s := err.Error()
	switch {
	case strings.Contains(s, "neighbor notfound"):
		return "no-neighbour"
	case strings.Contains(s, "timeout"):
		return "timeout"
	case strings.Contains(s, "ctx"), strings.Contains(s, "context"):
		return "cancelled"
	case strings.Contains(s, "nexthop not found"):
		return "no-nexthop"
	}
	return "other-error:" + s // e.g. "route: not found": woken by an answer that came straight from the target (a one-item path is not stored)
}

func (sm *sim) enqueueRelay(from, to int, stream string, req *pb.RouteRelayReq, src, target int, walk []int) *msg {
	var b bytes.Buffer
	_ = protobuf.NewWriter(&b).WriteMsg(req)
	sm.mu.Lock()
	defer sm.mu.Unlock()
	m := &msg{ID: sm.nmsg, From: from, To: to, Stream: stream, buf: b.Bytes(), Cause: -1, DupOf: -1,
		Relay: true, Src: src, Target: target, Walk: append([]int{}, walk...), checked: true}
	sm.nmsg++
	sm.queue = append(sm.queue, m)
	return m
}

// effectiveNextHops mirrors what a relay handler will find in its table, for scheduling only
// (decides whether the handler is going to call FindRoute).
func (sm *sim) willFind(x, target int, skips []int) bool {
	nd := sm.nodes[x]
	if x == target || nd.svc.IsNeighbor(sm.nodes[target].overlay) {
		return false
	}
	var sk []boson.Address
	for _, s := range skips {
		sk = append(sk, sm.nodes[s].overlay)
	}
	sk = append(sk, nd.overlay)
	for _, h := range nd.svc.VerifTable().GetNextHop(sm.nodes[target].overlay, sk...) {
		if nd.svc.IsNeighbor(h) {
			return false
		}
	}
	return true
}

// foreignFind reports whether a node other than x is currently inside FindRoute(target).
// routetab keeps its "find in progress" marker in a process-global cache keyed by the target
// only; in a deployment every node is its own process, so the simulation must not let two
// nodes share a marker.
func (sm *sim) foreignFind(x, target int) bool {
	for _, c := range sm.active[target] {
		if c.Node != x {
			return true
		}
	}
	return false
}

func (sm *sim) sameNodeFind(x, target int) *call {
	for _, c := range sm.active[target] {
		if c.Node == x {
			return c
		}
	}
	return nil
}

// deliverable says whether m can be handed to its receiver now.
func (sm *sim) deliverable(m *msg) bool {
	if !m.Relay || m.To == m.Target {
		return true
	}
	if sm.willFind(m.To, m.Target, m.Walk) && sm.foreignFind(m.To, m.Target) {
		return false
	}
	return true
}

func (sm *sim) takeAt(k int) *msg {
	sm.mu.Lock()
	defer sm.mu.Unlock()
	m := sm.queue[k]
	sm.queue = append(sm.queue[:k], sm.queue[k+1:]...)
	return m
}

func (sm *sim) qlen() int {
	sm.mu.Lock()
	defer sm.mu.Unlock()
	return len(sm.queue)
}

func (sm *sim) deliver(m *msg, dup bool) {
	desc, paths, dest := sm.describe(m)
	to := sm.nodes[m.To]
	tag := "deliver"
	if dup {
		tag = "deliver-duplicate"
	}
	sm.logf("%s msg#%d n%d->n%d %s", tag, m.ID, m.From, m.To, desc)
	c := &call{Kind: "handler", Node: m.To, Target: -1, Msg: m, reqDest: -1}
	if di, ok := sm.idx[string(dest)]; ok && m.Stream == streamRouteReq {
		c.reqDest = di
	}
	switch m.Stream {
	case streamRouteReq, streamRouteResp:
		sm.routeDeliveries++
		kind := "req"
		if m.Stream == streamRouteResp {
			kind = "resp"
		}
		for _, p := range paths {
			if len(p) > sm.c.TTL {
				sm.class(kind + "-arrives-longer-than-ttl")
			}
			if len(p) == sm.c.TTL {
				sm.class(kind + "-arrives-at-ttl")
			}
			for _, it := range p {
				if bytes.Equal(it, to.overlay.Bytes()) {
					sm.class(kind + "-arrives-with-receiver-in-path")
					break
				}
			}
		}
	default:
		sm.relayDeliveries++
		c.Target = m.Target
		if m.To == m.Target {
			sm.class("relay-reached-target")
		} else {
			sm.roots++ // the handler may start one FindRoute
			c.mayFind = sm.willFind(m.To, m.Target, m.Walk)
			if c.mayFind {
				sm.class("relay-hop-needs-findroute")
				c.waitOn = sm.sameNodeFind(m.To, m.Target)
			}
		}
	}
	sm.cur = m
	sm.wake(m.To) // a route response may release callers waiting at the receiver
	h := to.handlers[m.Stream]
	peer := p2p.Peer{Address: sm.nodes[m.From].overlay, Mode: fullNode()}
	in := &inStream{r: bytes.NewReader(append([]byte{}, m.buf...))}
	sm.start(c, func(ctx context.Context) { c.err = h(ctx, peer, in) })
}

// afterStep runs the oracles that look at what the last step produced.
func (sm *sim) afterStep(changed int) {
	sm.mu.Lock()
	var fresh []*msg
	for _, m := range sm.queue {
		if !m.checked {
			m.checked = true
			fresh = append(fresh, m)
		}
	}
	sm.mu.Unlock()
	for _, m := range fresh {
		switch {
		case m.Relay:
			// relay forwarding: every relay stream opened by a handler
			sm.checkRelayForward(m)
		case m.Stream == streamRouteResp:
			desc, paths, _ := sm.describe(m)
			self := sm.nodes[m.From].overlay.Bytes()
			for _, p := range paths {
				if l := len(p); l >= 2 && bytes.Equal(p[l-1], self) && bytes.Equal(p[l-2], self) {
					m.repeatsSender = true
				}
			}
			if m.repeatsSender {
				sm.class("resp-sent-with-sender-repeated")
				if sm.exclude {
					// known finding: that message is lost (message loss is inside the property's quantifier)
					sm.mu.Lock()
					for k, q := range sm.queue {
						if q == m {
							sm.queue = append(sm.queue[:k], sm.queue[k+1:]...)
							break
						}
					}
					sm.mu.Unlock()
					sm.excluded++
					sm.logf("excluded (known finding %s): msg#%d n%d->n%d %s", sigRespRepeat, m.ID, m.From, m.To, desc)
				}
			}
		}
	}
	if changed >= 0 {
		sm.checkTable(changed)
	}
	sm.cur = nil
	sm.checkBound()
}

func (sm *sim) checkRelayForward(m *msg) {
	// m was opened by node m.From while handling a relay stream whose walk so far is m.Walk[:len-1]
	if len(m.Walk) == 0 || m.Target < 0 {
		return
	}
	sm.class("relay-forward")
	if m.To == m.Target {
		sm.class("relay-forward-to-target")
		return
	}
	for _, v := range m.Walk { // includes the forwarding node itself
		if v == m.To {
			desc, _, _ := sm.describe(m)
			sm.setFail("C28/relay-forward-to-path-member",
				"node n%d forwarded a relay stream for target n%d to n%d, which is already on its path %v (msg#%d %s)",
				m.From, m.Target, m.To, m.Walk, m.ID, desc)
			return
		}
	}
	if m.To == m.Src {
		// the originator is not part of RouteRelayReq.Paths; the statement does not say whether it
		// counts as "on the path": counted, not asserted
		sm.class("relay-forward-back-to-source(not-asserted)")
	}
}

func (sm *sim) checkTable(x int) {
	nd := sm.nodes[x]
	seen := map[*routetab.Path]bool{}
	for t := range sm.nodes {
		paths, err := nd.svc.GetRoute(sm.ctx, sm.nodes[t].overlay)
		if err != nil {
			continue
		}
		for _, p := range paths {
			if seen[p] {
				continue
			}
			seen[p] = true
			sm.checkPath(x, p.Items, "recorded")
		}
	}
}

func (sm *sim) checkPath(x int, items []boson.Address, how string) {
	if sm.fail != nil {
		return
	}
	var ids []int
	desc := func() string {
		var bs [][]byte
		for _, it := range items {
			bs = append(bs, it.Bytes())
		}
		return sm.names(bs)
	}
	for _, it := range items {
		i, ok := sm.idx[it.ByteString()]
		if !ok {
			sm.setFail("C28/path-unknown-node", "path %s at n%d: %s contains an address that is no node of the network", how, x, desc())
			return
		}
		ids = append(ids, i)
	}
	if len(ids) == sm.c.TTL {
		sm.class("path-at-ttl")
	}
	for _, i := range ids {
		if i == x {
			sm.setFail("C28/path-contains-recorder", "path %s at n%d: %s contains n%d itself", how, x, desc(), x)
			return
		}
	}
	for a := 0; a < len(ids); a++ {
		for b := a + 1; b < len(ids); b++ {
			if ids[a] == ids[b] {
				if b == a+1 && sm.cur != nil && sm.cur.repeatsSender && ids[a] == sm.cur.From {
					sm.setFail(sigRespRepeat, "path %s at n%d: %s: n%d forwarded one route response to several waiting requesters and appended itself once more for each of them (msg#%d)",
						how, x, desc(), ids[a], sm.cur.ID)
					return
				}
				sm.setFail("C28/path-duplicate-node", "path %s at n%d: %s visits n%d twice", how, x, desc(), ids[a])
				return
			}
		}
	}
	if len(ids) > sm.c.TTL {
		sm.setFail("C28/path-longer-than-ttl", "path %s at n%d: %s has %d items, hop limit is %d", how, x, desc(), len(ids), sm.c.TTL)
		return
	}
	for a := 0; a+1 < len(ids); a++ {
		if !sm.adj[ids[a]][ids[a+1]] {
			sm.setFail("C28/path-non-neighbour-link", "path %s at n%d: %s: n%d and n%d are not neighbours", how, x, desc(), ids[a], ids[a+1])
			return
		}
	}
	if len(ids) > 0 && !sm.adj[ids[len(ids)-1]][x] {
		sm.setFail("C28/path-non-neighbour-link", "path %s at n%d: %s: its last hop n%d is not a neighbour of n%d", how, x, desc(), ids[len(ids)-1], x)
	}
}

// bound is the explicit termination bound. Request paths hold distinct nodes and never the
// receiver, so a request tree rooted at one FindRoute (or at one duplicated request) has at
// most R = sum_{L=1..N} alpha^L request messages. Every request delivery originates at most
// one response; every forwarded response consumes at least one pending entry, and there are
// at most R pending entries per root (one per potential request send). Duplicated responses
// add one delivery each.
func (sm *sim) bound() int {
	r, p := 0, 1
	for l := 1; l <= sm.c.N; l++ {
		p *= sm.c.Alpha
		r += p
	}
	return 3*r*(sm.roots+sm.dupReq) + sm.dupResp
}

func (sm *sim) checkBound() {
	if sm.fail != nil {
		return
	}
	sm.mu.Lock()
	relayStreams := sm.cls["relay-originated"] + sm.cls["rawrelay"] + sm.cls["dup-relay"]
	sm.mu.Unlock()
	if b := sm.bound(); sm.routeDeliveries > b {
		sm.setFail("C28/runaway", "%d route messages delivered, more than the bound %d for n=%d alpha=%d (%d FindRoute roots, %d duplicated requests, %d duplicated responses); %d still queued",
			sm.routeDeliveries, b, sm.c.N, sm.c.Alpha, sm.roots, sm.dupReq, sm.dupResp, sm.qlen())
	}
	// a relay stream visits every node at most once (plus its source once more)
	if rb := (sm.c.N + 2) * (relayStreams + 1); sm.relayDeliveries > rb {
		sm.setFail("C28/runaway", "%d relay hops delivered for %d relay streams in a network of %d nodes", sm.relayDeliveries, relayStreams, sm.c.N)
	}
}
