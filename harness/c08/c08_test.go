// Package c08 checks property C08: chunk encryption is invertible, padded
// ciphertexts have exactly the padded length, and the decrypting store restores
// every encrypted chunk's payload to exactly the length the encrypted writer
// stored (data length for leaves, 64 bytes per child reference otherwise).
package c08

import (
	"bytes"
	"context"
	"encoding/binary"
	"encoding/hex"
	"fmt"
	"testing"

	"github.com/gauss-project/aurorafs/pkg/boson"
	"github.com/gauss-project/aurorafs/pkg/encryption"
	encstore "github.com/gauss-project/aurorafs/pkg/encryption/store"
	"github.com/gauss-project/aurorafs/pkg/file/pipeline"
	"github.com/gauss-project/aurorafs/pkg/file/pipeline/builder"
	"github.com/gauss-project/aurorafs/pkg/file/pipeline/hashtrie"
	"github.com/gauss-project/aurorafs/pkg/storage"
	"golang.org/x/crypto/sha3"
	"pgregory.net/rapid"
	"verifharness/internal/evid"
)

const (
	id       = "C08"
	cs       = uint64(boson.ChunkSize)                              // 262144
	refSize  = uint64(boson.HashSize + encryption.KeyLength)        // 64
	branches = uint64(boson.ChunkSize) / (boson.HashSize + encryption.KeyLength) // 4096 references per encrypted intermediate chunk
)

// ---- deterministic expansion of a drawn seed (no math/rand) ------------------

func fill(seed uint64, n int) []byte {
	b := make([]byte, n)
	x := seed
	for i := 0; i < n; i += 8 {
		x += 0x9e3779b97f4a7c15
		z := x
		z = (z ^ (z >> 30)) * 0xbf58476d1ce4e5b9
		z = (z ^ (z >> 27)) * 0x94d049bb133111eb
		z ^= z >> 31
		var w [8]byte
		binary.LittleEndian.PutUint64(w[:], z)
		copy(b[i:], w[:])
	}
	return b
}

func payload(mode int, seed uint64, n int) []byte {
	switch mode {
	case 0:
		return make([]byte, n)
	case 1:
		return bytes.Repeat([]byte{0xff}, n)
	default:
		return fill(seed, n)
	}
}

func short(b []byte) string {
	if len(b) <= 24 {
		return hex.EncodeToString(b)
	}
	return fmt.Sprintf("%s..(%d bytes)", hex.EncodeToString(b[:16]), len(b))
}

func firstDiff(a, b []byte) int {
	n := len(a)
	if len(b) < n {
		n = len(b)
	}
	for i := 0; i < n; i++ {
		if a[i] != b[i] {
			return i
		}
	}
	if len(a) != len(b) {
		return n
	}
	return -1
}

// guard turns a panic of the code under test into an error.
func guard(what string, f func() error) (err error, panicked bool) {
	defer func() {
		if r := recover(); r != nil {
			err = fmt.Errorf("%s panicked: %v", what, r)
			panicked = true
		}
	}()
	return f(), false
}

// =============================================================================
// (a) encryption.New / Encrypt / Decrypt
// =============================================================================

type cipherCase struct {
	Key      []byte `json:"key"`
	Pad      int    `json:"padding"`
	Ctr      uint32 `json:"init_ctr"`
	N        int    `json:"payload_len"`
	PMode    int    `json:"payload_mode"` // 0 zeros, 1 ones, 2 expansion of PSeed
	PSeed    uint64 `json:"payload_seed"`
	Reuse    bool   `json:"decrypt_on_same_instance_after_reset"`
	Sections []int  `json:"sections,omitempty"` // unpadded only: encrypt the payload in these consecutive pieces on one instance
}

func runCipher(c cipherCase) (sig string, err error) {
	p := payload(c.PMode, c.PSeed, c.N)
	orig := append([]byte{}, p...)
	e := encryption.New(append([]byte{}, c.Key...), c.Pad, c.Ctr, sha3.NewLegacyKeccak256)

	var ct []byte
	var eerr error
	if gerr, pan := guard("Encrypt", func() error {
		if len(c.Sections) == 0 {
			ct, eerr = e.Encrypt(p)
			return nil
		}
		off := 0
		for _, s := range c.Sections {
			part, er := e.Encrypt(p[off : off+s])
			if er != nil {
				eerr = er
				return nil
			}
			if len(part) != s {
				return fmt.Errorf("section of %d bytes encrypted to %d bytes", s, len(part))
			}
			ct = append(ct, part...)
			off += s
		}
		return nil
	}); gerr != nil {
		if pan {
			return "C08/encrypt-panic", gerr
		}
		return "C08/ciphertext-length", gerr
	}

	if c.Pad > 0 && c.N > c.Pad {
		// over-long input must be rejected
		if eerr == nil {
			return "C08/overlong-accepted", fmt.Errorf("Encrypt of %d bytes with padding %d returned no error (ciphertext %d bytes)", c.N, c.Pad, len(ct))
		}
		return "", nil
	}
	if eerr != nil {
		return "C08/encrypt-error", fmt.Errorf("Encrypt(%d bytes, padding %d): %v", c.N, c.Pad, eerr)
	}
	want := c.N
	if c.Pad > 0 {
		want = c.Pad
	}
	if len(ct) != want {
		return "C08/ciphertext-length", fmt.Errorf("ciphertext is %d bytes, want %d (payload %d, padding %d)", len(ct), want, c.N, c.Pad)
	}

	var d Decrypter = e
	if c.Reuse {
		e.Reset()
	} else {
		d = encryption.New(append([]byte{}, c.Key...), c.Pad, c.Ctr, sha3.NewLegacyKeccak256)
	}
	var pt []byte
	var derr error
	if gerr, _ := guard("Decrypt", func() error { pt, derr = d.Decrypt(append([]byte{}, ct...)); return nil }); gerr != nil {
		return "C08/decrypt-panic", gerr
	}
	if derr != nil {
		return "C08/decrypt-error", fmt.Errorf("Decrypt(%d bytes, padding %d): %v", len(ct), c.Pad, derr)
	}
	if len(pt) < c.N || !bytes.Equal(pt[:c.N], orig) {
		return "C08/roundtrip", fmt.Errorf("Decrypt(Encrypt(p))[:%d] != p: got %d bytes, first difference at %d; p=%s got=%s", c.N, len(pt), firstDiff(pt, orig), short(orig), short(pt))
	}
	if c.Pad > 0 {
		// a ciphertext longer than the padding is rejected by Decrypt
		d2 := encryption.New(append([]byte{}, c.Key...), c.Pad, c.Ctr, sha3.NewLegacyKeccak256)
		var e2 error
		if gerr, _ := guard("Decrypt(overlong)", func() error { _, e2 = d2.Decrypt(append(append([]byte{}, ct...), 0)); return nil }); gerr != nil {
			return "C08/decrypt-panic", gerr
		}
		if e2 == nil {
			return "C08/overlong-accepted", fmt.Errorf("Decrypt of %d bytes with padding %d returned no error", len(ct)+1, c.Pad)
		}
	}
	return "", nil
}

// Decrypter is the part of encryption.Interface used for decryption.
type Decrypter interface {
	Decrypt([]byte) ([]byte, error)
}

func genLen(t *rapid.T, max int, label string) int {
	k := rapid.IntRange(0, 9).Draw(t, label+"_kind")
	switch {
	case k <= 2: // boundary around segments
		v := rapid.SampledFrom([]int{0, 1, 2, 31, 32, 33, 63, 64, 65, 95, 96, 97, 127, 128, 129, 4095, 4096, 4097}).Draw(t, label+"_b")
		if v > max {
			v = max
		}
		return v
	case k <= 4: // close to the maximum
		d := rapid.IntRange(0, 70).Draw(t, label+"_below")
		if d > max {
			d = max
		}
		return max - d
	case k <= 6: // small
		hi := 300
		if hi > max {
			hi = max
		}
		return rapid.IntRange(0, hi).Draw(t, label+"_small")
	default:
		return rapid.IntRange(0, max).Draw(t, label+"_any")
	}
}

func genCtr(t *rapid.T) uint32 {
	if rapid.IntRange(0, 2).Draw(t, "ctr_kind") == 0 {
		return rapid.Uint32().Draw(t, "ctr")
	}
	return rapid.SampledFrom([]uint32{0, 1, 10, 42, 4095, 4096, 4097, 8192, 1<<31 - 1, 1 << 31, 1<<32 - 8193, 1<<32 - 4096, 1<<32 - 2, 1<<32 - 1}).Draw(t, "ctr_b")
}

func genCipher(t *rapid.T) cipherCase {
	var c cipherCase
	c.Key = rapid.SliceOfN(rapid.Byte(), 32, 32).Draw(t, "key")
	c.Ctr = genCtr(t)
	c.PMode = rapid.SampledFrom([]int{0, 1, 2, 2, 2, 2}).Draw(t, "pmode")
	c.PSeed = rapid.Uint64().Draw(t, "pseed")
	c.Reuse = rapid.Bool().Draw(t, "reuse")
	// padding: the three values production uses or documents (0 = unpadded span encryption,
	// 4096 = the documented unit-test size, ChunkSize = data encryption); the full-chunk
	// padding costs ~10 ms per case so it is drawn less often.
	c.Pad = rapid.SampledFrom([]int{0, 0, 0, 4096, 4096, 4096, 4096, int(cs), 32, 4095}).Draw(t, "pad")
	switch {
	case c.Pad == 0:
		max := 8192
		if rapid.IntRange(0, 19).Draw(t, "big") == 0 {
			max = int(cs)
		}
		c.N = genLen(t, max, "n")
		if c.N > 0 && rapid.IntRange(0, 3).Draw(t, "sectioned") == 0 {
			// consecutive pieces whose lengths are multiples of the 32-byte segment except the last
			rest := c.N
			for rest > 0 && len(c.Sections) < 6 {
				s := 32 * rapid.IntRange(1, 8).Draw(t, "sec")
				if s >= rest {
					break
				}
				c.Sections = append(c.Sections, s)
				rest -= s
			}
			if len(c.Sections) > 0 {
				c.Sections = append(c.Sections, rest)
			}
		}
	default:
		if rapid.IntRange(0, 9).Draw(t, "overlong") == 0 {
			c.N = c.Pad + rapid.SampledFrom([]int{1, 2, 31, 32, 33, 4096}).Draw(t, "over")
		} else {
			c.N = genLen(t, c.Pad, "n")
		}
	}
	return c
}

func recordCipher(r *evid.Rec, c cipherCase) {
	cls := []string{"a:cipher", fmt.Sprintf("a:pad=%d", c.Pad)}
	over := c.Pad > 0 && c.N > c.Pad
	if over {
		cls = append(cls, "a:overlong-rejected")
	}
	if c.N%32 != 0 {
		cls = append(cls, "a:partial-last-segment")
	}
	if c.N == 0 {
		cls = append(cls, "a:empty-payload")
	}
	if c.Pad > 0 && c.N == c.Pad {
		cls = append(cls, "a:payload==padding")
	}
	if uint64(c.Ctr)+uint64((c.N+31)/32) > 1<<32 {
		cls = append(cls, "a:counter-wraps")
	}
	if len(c.Sections) > 0 {
		cls = append(cls, "a:sectioned")
	}
	if c.Reuse {
		cls = append(cls, "a:reset-reuse")
	}
	if c.N > 8192 {
		cls = append(cls, "a:payload>8KiB")
	}
	r.Case(evid.Hash64("a", c), !over && c.N%32 != 0, cls...)
	r.Sample(map[string]interface{}{"part": "a", "padding": c.Pad, "init_ctr": c.Ctr, "payload_len": c.N, "key": hex.EncodeToString(c.Key), "sections": c.Sections, "reuse": c.Reuse})
}

const rule = "(a) rapid: 32-byte key x padding {0,32,4095,4096,ChunkSize} x initial counter (boundary set incl. 0,4096,2^32-1 | uniform) x payload length (segment boundaries, near padding, small, uniform; 0..8192 unpadded, occasionally up to ChunkSize; 10% over-long) x payload (zeros|ones|seed expansion) x decrypt on a fresh instance or after Reset x optional 32-byte-aligned sectioned encryption; oracle Decrypt(Encrypt(p))[:len p]==p, |ciphertext|==padding, over-long rejected. " +
	"(b1) rapid: subtree span L (leaf boundary set, k*CS+r, level boundaries 4096^j*CS+-1, structured a*U3+b*U2+c*U1+d, log-uniform to 2^62); the chunk an honest encrypted writer stores for span L (payload length from an arithmetic tree-shape model: L for a leaf, 64 per child otherwise) is encrypted by the real ChunkEncrypter or by encryption.New with the documented counters and read through store.New(getter).Get(address||key); oracle: decrypted chunk == span||payload exactly. " +
	"(b2) the real hashtrie writer (ChunkSize, 4096 branches, 64-byte refs) is driven with n leaf references; every distinct (span, payload) it emits is encrypted and read back the same way, and the root shape is compared with the arithmetic model. " +
	"(b3) whole files through the real encrypted pipeline into a map store, walked through the decrypting store from the root reference. " +
	"non-trivial = span > ChunkSize (intermediate chunk) or payload length not a multiple of 32; distinct by hash of the drawn case"

func TestC08_Cipher(t *testing.T) {
	r := evid.Get(id)
	evid.Finish(t, r)
	r.SetRule(rule)
	// deterministic boundary sweep
	key := fill(7, 32)
	for _, pad := range []int{0, 4096, int(cs)} {
		for _, ctr := range []uint32{0, 4096, 1<<32 - 1} {
			lens := []int{0, 1, 31, 32, 33, 4095, 4096}
			if pad == int(cs) {
				lens = append(lens, int(cs)-1, int(cs))
			}
			if pad == 0 {
				lens = append(lens, 8192)
			}
			for _, n := range lens {
				c := cipherCase{Key: key, Pad: pad, Ctr: ctr, N: n, PMode: 2, PSeed: uint64(n) + 1}
				if sig, err := runCipher(c); err != nil {
					t.Fatalf("%s", evid.Violation(id, sig, fmt.Sprintf("%v case=%+v", err, c)))
				}
				recordCipher(r, c)
			}
		}
	}
	evid.Checks(1000)
	rapid.Check(t, func(t *rapid.T) {
		c := genCipher(t)
		if sig, err := runCipher(c); err != nil {
			t.Fatalf("%s", evid.Violation(id, sig, fmt.Sprintf("%v case=%+v", err, c)))
		}
		recordCipher(r, c)
	})
}

// =============================================================================
// tree-shape arithmetic (independent of the repository code)
// =============================================================================

// shape returns, for a subtree of L bytes written by an honest writer with
// leaves of cs bytes and b references per intermediate chunk, the level of its
// root chunk (0 = leaf) and the number of child references the root holds.
// It counts nodes level by level: `full` nodes of span unit plus an optional
// shorter tail node; groups of b nodes become one node of the next level, a
// lone remaining node is carried up unchanged.
func shape(L, cs, b uint64) (level int, children uint64) {
	if L <= cs {
		return 0, 0
	}
	full, tail, unit := L/cs, L%cs, cs
	for {
		n := full
		if tail > 0 {
			n++
		}
		level++
		if n <= b {
			return level, n
		}
		g, rfull := full/b, full%b
		rem := rfull
		if tail > 0 {
			rem++
		}
		var nt uint64
		switch {
		case rem == 0:
			nt = 0
		case rem == 1 && rfull == 1:
			nt = unit // lone full node carried up
		case rem == 1:
			nt = tail // lone tail carried up
		default:
			nt = rfull*unit + tail
		}
		full, tail, unit = g, nt, unit*b // unit*b <= L here because full >= b
	}
}

// storedLen is the payload length the honest encrypted writer stores for span L.
func storedLen(L uint64) (level int, n uint64) {
	lv, ch := shape(L, cs, branches)
	if lv == 0 {
		return 0, L
	}
	return lv, ch * refSize
}

// =============================================================================
// (b1) decrypting store on symbolically built chunks
// =============================================================================

type mapStore map[string]boson.Chunk

func (m mapStore) Get(_ context.Context, _ storage.ModeGet, a boson.Address) (boson.Chunk, error) {
	c, ok := m[a.ByteString()]
	if !ok {
		return nil, storage.ErrNotFound
	}
	return c, nil
}

func (m mapStore) Put(_ context.Context, _ storage.ModePut, chs ...boson.Chunk) ([]bool, error) {
	ex := make([]bool, len(chs))
	for i, c := range chs {
		_, ex[i] = m[c.Address().ByteString()]
		m[c.Address().ByteString()] = boson.NewChunk(c.Address(), append([]byte{}, c.Data()...))
	}
	return ex, nil
}

type spanCase struct {
	L      uint64 `json:"span"`
	Writer int    `json:"writer"` // 0 = real ChunkEncrypter (its own random key), 1 = encryption.New with documented counters and Key
	Key    []byte `json:"key,omitempty"`
	PMode  int    `json:"payload_mode"`
	PSeed  uint64 `json:"payload_seed"`
	Addr   []byte `json:"addr"`
}

// encryptHonest produces what the encrypted writer stores for the plain chunk span||body.
func encryptHonest(writer int, key []byte, plain []byte) (k []byte, stored []byte, err error) {
	var es, ed []byte
	if writer == 0 {
		var kk encryption.Key
		kk, es, ed, err = encryption.NewChunkEncrypter().EncryptChunk(plain)
		if err != nil {
			return nil, nil, err
		}
		k = kk
	} else {
		k = append([]byte{}, key...)
		// documented counters: the span is encrypted unpadded with initial counter ChunkSize/64,
		// the data padded to ChunkSize with initial counter 0 (chunk_encryption.go)
		es, err = encryption.New(k, 0, uint32(cs/refSize), sha3.NewLegacyKeccak256).Encrypt(plain[:8])
		if err != nil {
			return nil, nil, err
		}
		ed, err = encryption.New(k, int(cs), 0, sha3.NewLegacyKeccak256).Encrypt(plain[8:])
		if err != nil {
			return nil, nil, err
		}
	}
	stored = append(append([]byte{}, es...), ed...)
	return k, stored, nil
}

// checkStored encrypts plain (span||body) as the writer does, serves it from a fake getter and
// reads it back through the decrypting store.
func checkStored(writer int, key, addr, plain []byte) (sig string, err error) {
	var k, stored []byte
	var werr error
	if gerr, _ := guard("EncryptChunk", func() error { k, stored, werr = encryptHonest(writer, key, plain); return nil }); gerr != nil {
		return "C08/encrypt-panic", gerr
	}
	if werr != nil {
		return "C08/encrypt-error", fmt.Errorf("encrypting a chunk with %d payload bytes: %v", len(plain)-8, werr)
	}
	if len(k) != encryption.KeyLength {
		return "C08/encrypt-error", fmt.Errorf("chunk key of %d bytes", len(k))
	}
	if uint64(len(stored)) != 8+cs {
		return "C08/ciphertext-length", fmt.Errorf("encrypted chunk is %d bytes, want %d (span 8 + data padded to ChunkSize)", len(stored), 8+cs)
	}
	ms := mapStore{}
	a := boson.NewAddress(addr)
	ms[a.ByteString()] = boson.NewChunk(a, stored)
	ref := append(append([]byte{}, addr...), k...)
	var ch boson.Chunk
	var gerr2 error
	if gerr, _ := guard("decrypting store Get", func() error {
		ch, gerr2 = encstore.New(ms).Get(context.Background(), storage.ModeGetRequest, boson.NewAddress(ref))
		return nil
	}); gerr != nil {
		return "C08/decrypt-panic", gerr
	}
	if gerr2 != nil {
		return "C08/decrypt-error", fmt.Errorf("Get(address||key): %v", gerr2)
	}
	got := ch.Data()
	if len(got) != len(plain) {
		return "C08/decrypted-length", fmt.Errorf("decrypted chunk has %d payload bytes, the writer stored %d (span %d)", len(got)-8, len(plain)-8, binary.LittleEndian.Uint64(plain[:8]))
	}
	if !bytes.Equal(got, plain) {
		return "C08/decrypted-content", fmt.Errorf("decrypted chunk differs from what was encrypted at byte %d (span %d, %d payload bytes)", firstDiff(got, plain), binary.LittleEndian.Uint64(plain[:8]), len(plain)-8)
	}
	return "", nil
}

func runSpan(c spanCase) (sig string, err error) {
	_, n := storedLen(c.L)
	plain := make([]byte, 8, 8+n)
	binary.LittleEndian.PutUint64(plain, c.L)
	plain = append(plain, payload(c.PMode, c.PSeed, int(n))...)
	return checkStored(c.Writer, c.Key, c.Addr, plain)
}

var (
	u1 = cs            // span of a full leaf
	u2 = cs * branches // span of a full level-1 chunk (2^30)
	u3 = u2 * branches // 2^42
	u4 = u3 * branches // 2^54
)

func genSpan(t *rapid.T) uint64 {
	small := []uint64{0, 1, 2, 31, 32, 33, 63, 64, 65, 4095, 4096, 4097}
	switch rapid.IntRange(0, 11).Draw(t, "span_kind") {
	case 0: // leaf boundary set
		v := rapid.SampledFrom(append(append([]uint64{}, small...), cs-65, cs-64, cs-33, cs-32, cs-31, cs-1, cs)).Draw(t, "leaf_b")
		return v
	case 1: // any leaf
		return rapid.Uint64Range(0, cs).Draw(t, "leaf")
	case 2, 3: // k*CS + r within one level-1 chunk
		k := rapid.OneOf(rapid.Uint64Range(1, 8), rapid.Uint64Range(branches-3, branches), rapid.Uint64Range(1, branches)).Draw(t, "k")
		r := rapid.OneOf(rapid.SampledFrom(append(append([]uint64{}, small...), cs-1)), rapid.Uint64Range(0, cs-1)).Draw(t, "r")
		if k == branches {
			return k * cs // exactly full
		}
		return k*cs + r
	case 4, 5: // level boundaries U_j*k -1, 0, +1
		u := rapid.SampledFrom([]uint64{u2, u3, u4}).Draw(t, "unit")
		maxk := uint64(1<<62) / u
		if maxk > branches+1 {
			maxk = branches + 1
		}
		k := rapid.OneOf(rapid.Uint64Range(1, 4), rapid.Uint64Range(1, maxk)).Draw(t, "k")
		d := rapid.SampledFrom([]int64{-1, 0, 1, -int64(cs), int64(cs), -int64(cs) - 1, int64(cs) + 1, -int64(cs) + 1, int64(cs) - 1}).Draw(t, "delta")
		return uint64(int64(k*u) + d)
	case 6, 7, 8: // structured: a*U3 + b*U2 + c*U1 + d with small or near-full digits (carry-over shapes)
		digit := func(label string) uint64 {
			return rapid.OneOf(rapid.SampledFrom([]uint64{0, 0, 1, 2, branches - 1}), rapid.Uint64Range(0, branches-1)).Draw(t, label)
		}
		e := rapid.SampledFrom([]uint64{0, 0, 0, 1, 2, 200}).Draw(t, "e")
		a, b, c := digit("a"), digit("b"), digit("c")
		d := rapid.OneOf(rapid.SampledFrom([]uint64{0, 1, 32, cs - 1}), rapid.Uint64Range(0, cs-1)).Draw(t, "d")
		v := e*u4 + a*u3 + b*u2 + c*u1 + d
		if v > 1<<62 {
			v = 1 << 62
		}
		return v
	default: // log-uniform up to 2^62
		bits := rapid.IntRange(19, 62).Draw(t, "bits")
		lo := uint64(1) << uint(bits-1)
		hi := uint64(1)<<uint(bits) - 1
		if bits == 62 {
			hi = 1 << 62
		}
		return rapid.Uint64Range(lo, hi).Draw(t, "span")
	}
}

func genSpanCase(t *rapid.T) spanCase {
	var c spanCase
	c.L = genSpan(t)
	c.Writer = rapid.IntRange(0, 1).Draw(t, "writer")
	if c.Writer == 1 {
		c.Key = rapid.SliceOfN(rapid.Byte(), 32, 32).Draw(t, "key")
	}
	c.PMode = rapid.SampledFrom([]int{0, 1, 2, 2, 2, 2}).Draw(t, "pmode")
	c.PSeed = rapid.Uint64().Draw(t, "pseed")
	c.Addr = rapid.SliceOfN(rapid.Byte(), 32, 32).Draw(t, "addr")
	return c
}

func recordSpan(r *evid.Rec, c spanCase) {
	lv, n := storedLen(c.L)
	cls := []string{"b1:span", fmt.Sprintf("b1:root-level=%d", lv), fmt.Sprintf("b1:writer=%d", c.Writer)}
	if lv > 0 {
		ch := n / refSize
		switch {
		case ch == 2:
			cls = append(cls, "b1:children=2")
		case ch == branches:
			cls = append(cls, "b1:children=4096(full)")
		case ch == branches-1:
			cls = append(cls, "b1:children=4095")
		}
		if c.L%cs == 0 {
			cls = append(cls, "b1:span-multiple-of-ChunkSize")
		}
		for _, u := range []uint64{u2, u3, u4} {
			if c.L%u == 0 {
				cls = append(cls, "b1:span-multiple-of-level-unit")
				break
			}
		}
	} else {
		if c.L == 0 {
			cls = append(cls, "b1:empty-leaf")
		}
		if c.L == cs {
			cls = append(cls, "b1:full-leaf")
		}
		if c.L%32 != 0 {
			cls = append(cls, "b1:leaf-partial-segment")
		}
	}
	if c.L > 1<<54 {
		cls = append(cls, "b1:span>2^54")
	}
	r.Case(evid.Hash64("b1", c), lv > 0 || n%32 != 0, cls...)
	r.Sample(map[string]interface{}{"part": "b1", "span": c.L, "root_level": lv, "stored_payload_len": n, "writer": c.Writer})
}

func TestC08_DecryptStoreSpans(t *testing.T) {
	r := evid.Get(id)
	evid.Finish(t, r)
	r.SetRule(rule)
	// deterministic boundaries: every level boundary -1/0/+1 with both writers
	addr := fill(3, 32)
	key := fill(5, 32)
	for _, u := range []uint64{u1, 2 * u1, u2, 2 * u2, u3, u4, 255 * u4, 1 << 62} {
		for _, d := range []int64{-1, 0, 1} {
			L := uint64(int64(u) + d)
			if L > 1<<62 {
				continue
			}
			c := spanCase{L: L, Writer: int(L % 2), Key: key, PMode: 2, PSeed: L, Addr: addr}
			if sig, err := runSpan(c); err != nil {
				t.Fatalf("%s", evid.Violation(id, sig, fmt.Sprintf("%v case=%+v", err, c)))
			}
			recordSpan(r, c)
		}
	}
	evid.Checks(800)
	rapid.Check(t, func(t *rapid.T) {
		c := genSpanCase(t)
		if sig, err := runSpan(c); err != nil {
			t.Fatalf("%s", evid.Violation(id, sig, fmt.Sprintf("%v case=%+v", err, c)))
		}
		recordSpan(r, c)
	})
}

// =============================================================================
// (b2) chunks emitted by the real hashtrie writer
// =============================================================================

type emitted struct {
	span uint64
	body []byte
}

// recorder is the short pipeline handed to the hashtrie writer: it keeps the first
// chunk of every distinct (span, payload length) and hands back a dummy 64-byte reference.
type recorder struct {
	seen  *map[[2]uint64]emitted
	order *[][2]uint64
	count *int
}

func (w recorder) ChainWrite(p *pipeline.PipeWriteArgs) error {
	*w.count++
	sp := binary.LittleEndian.Uint64(p.Data[:8])
	k := [2]uint64{sp, uint64(len(p.Data) - 8)}
	if _, ok := (*w.seen)[k]; !ok {
		(*w.seen)[k] = emitted{span: sp, body: append([]byte{}, p.Data[8:]...)}
		*w.order = append(*w.order, k)
	}
	ref := make([]byte, 32)
	binary.LittleEndian.PutUint64(ref, uint64(*w.count))
	ref[31] = 0xAA
	key := make([]byte, 32)
	binary.LittleEndian.PutUint64(key, uint64(*w.count))
	key[31] = 0xBB
	p.Ref, p.Key = ref, key
	return nil
}

func (w recorder) Sum() ([]byte, error) { return nil, nil }

type trieCase struct {
	Leaves uint64 `json:"leaves"`    // number of leaf chunks (>= 2)
	Tail   uint64 `json:"tail_len"`  // length of the last leaf, 1..ChunkSize
	Writer int    `json:"writer"`    // as in spanCase
	Key    []byte `json:"key,omitempty"`
	Addr   []byte `json:"addr"`
}

func runTrie(c trieCase, r *evid.Rec) (sig string, err error) {
	seen := map[[2]uint64]emitted{}
	var order [][2]uint64
	count := 0
	rec := recorder{seen: &seen, order: &order, count: &count}
	tw := hashtrie.NewHashTrieWriter(int(cs), int(branches), int(refSize), func() pipeline.ChainWriter { return rec })
	total := (c.Leaves-1)*cs + c.Tail
	var rootRef []byte
	if gerr, _ := guard("hashtrie writer", func() error {
		spanFull := make([]byte, 8)
		binary.LittleEndian.PutUint64(spanFull, cs)
		ref := make([]byte, 32)
		key := make([]byte, 32)
		for i := uint64(0); i < c.Leaves; i++ {
			sp := spanFull
			if i == c.Leaves-1 {
				sp = make([]byte, 8)
				binary.LittleEndian.PutUint64(sp, c.Tail)
			}
			binary.LittleEndian.PutUint64(ref, i)
			if e := tw.ChainWrite(&pipeline.PipeWriteArgs{Span: sp, Ref: ref, Key: key}); e != nil {
				return e
			}
		}
		var e error
		rootRef, e = tw.Sum()
		return e
	}); gerr != nil {
		return "C08/writer-error", gerr
	}
	if len(rootRef) != int(refSize) {
		return "C08/writer-error", fmt.Errorf("hashtrie Sum returned %d bytes", len(rootRef))
	}
	if len(order) == 0 {
		return "C08/writer-shape", fmt.Errorf("writer emitted no intermediate chunk for %d leaves", c.Leaves)
	}
	// the root is the emitted chunk whose span is the whole length; its payload must be the model's
	root, haveRoot := emitted{}, false
	for _, k := range order {
		if k[0] == total {
			root, haveRoot = seen[k], true
		}
	}
	if !haveRoot {
		return "C08/writer-shape", fmt.Errorf("no emitted chunk spans the whole length %d (leaves %d, tail %d)", total, c.Leaves, c.Tail)
	}
	if _, n := storedLen(total); uint64(len(root.body)) != n {
		return "C08/writer-shape", fmt.Errorf("root chunk for %d bytes holds %d payload bytes, 64 per child reference gives %d", total, len(root.body), n)
	}
	for _, k := range order {
		e := seen[k]
		if _, n := storedLen(e.span); uint64(len(e.body)) != n {
			return "C08/writer-shape", fmt.Errorf("intermediate chunk of span %d holds %d payload bytes, 64 per child reference gives %d", e.span, len(e.body), n)
		}
		plain := make([]byte, 8, 8+len(e.body))
		binary.LittleEndian.PutUint64(plain, e.span)
		plain = append(plain, e.body...)
		if sig, err := checkStored(c.Writer, c.Key, c.Addr, plain); err != nil {
			return sig, fmt.Errorf("chunk emitted by the hashtrie writer (span %d, %d refs): %v", e.span, len(e.body)/int(refSize), err)
		}
		if r != nil {
			r.Class("b2:emitted-chunk-checked")
			if uint64(len(e.body)) == cs {
				r.Class("b2:emitted-full-chunk")
			}
		}
	}
	return "", nil
}

func recordTrie(r *evid.Rec, c trieCase) {
	total := (c.Leaves-1)*cs + c.Tail
	lv, n := storedLen(total)
	cls := []string{"b2:trie", fmt.Sprintf("b2:root-level=%d", lv)}
	if c.Tail == cs {
		cls = append(cls, "b2:tail-full")
	}
	if c.Leaves%branches == 1 {
		cls = append(cls, "b2:lone-leaf-carried")
	}
	if n/refSize == 2 {
		cls = append(cls, "b2:root-children=2")
	}
	r.Case(evid.Hash64("b2", c), true, cls...)
	r.Sample(map[string]interface{}{"part": "b2", "leaves": c.Leaves, "tail_len": c.Tail, "root_level": lv, "root_payload_len": n})
}

func TestC08_RealTrieWriter(t *testing.T) {
	r := evid.Get(id)
	evid.Finish(t, r)
	r.SetRule(rule)
	addr := fill(11, 32)
	key := fill(13, 32)
	det := []trieCase{
		{Leaves: 2, Tail: 1}, {Leaves: 2, Tail: cs}, {Leaves: 3, Tail: 31},
		{Leaves: branches - 1, Tail: cs}, {Leaves: branches, Tail: cs - 1}, {Leaves: branches, Tail: cs},
		{Leaves: branches + 1, Tail: 1}, {Leaves: branches + 1, Tail: cs}, {Leaves: branches + 2, Tail: 5},
		{Leaves: 2 * branches, Tail: cs}, {Leaves: 2*branches + 1, Tail: cs}, {Leaves: 3*branches + 7, Tail: 100},
	}
	if evid.Thorough() {
		// level-3 roots: more than 4096^2 leaves (about 2 s each)
		det = append(det,
			trieCase{Leaves: branches*branches + 1, Tail: 1},
			trieCase{Leaves: branches * branches, Tail: cs},
			trieCase{Leaves: branches*branches + branches + 1, Tail: cs},
			trieCase{Leaves: 2*branches*branches + 3*branches + 2, Tail: 77})
	} else {
		det = append(det, trieCase{Leaves: branches*branches + branches + 1, Tail: 9})
	}
	for i, c := range det {
		c.Writer, c.Key, c.Addr = i%2, key, addr
		if sig, err := runTrie(c, r); err != nil {
			t.Fatalf("%s", evid.Violation(id, sig, fmt.Sprintf("%v case=%+v", err, c)))
		}
		recordTrie(r, c)
	}
	evid.Checks(80)
	rapid.Check(t, func(t *rapid.T) {
		var c trieCase
		maxl := uint64(12 * branches)
		if evid.Thorough() {
			maxl = 40 * branches
		}
		c.Leaves = rapid.OneOf(
			rapid.Uint64Range(2, 10),
			rapid.Uint64Range(branches-2, branches+2),
			rapid.Uint64Range(2, maxl),
			rapid.Map(rapid.Uint64Range(1, maxl/branches), func(k uint64) uint64 { return k*branches + 1 }),
			rapid.Map(rapid.Uint64Range(1, maxl/branches), func(k uint64) uint64 { return k * branches }),
		).Draw(t, "leaves")
		c.Tail = rapid.OneOf(rapid.SampledFrom([]uint64{1, 31, 32, 33, cs - 1, cs, cs}), rapid.Uint64Range(1, cs)).Draw(t, "tail")
		c.Writer = rapid.IntRange(0, 1).Draw(t, "writer")
		if c.Writer == 1 {
			c.Key = rapid.SliceOfN(rapid.Byte(), 32, 32).Draw(t, "key")
		}
		c.Addr = rapid.SliceOfN(rapid.Byte(), 32, 32).Draw(t, "addr")
		if sig, err := runTrie(c, r); err != nil {
			t.Fatalf("%s", evid.Violation(id, sig, fmt.Sprintf("%v case=%+v", err, c)))
		}
		recordTrie(r, c)
	})
}

// =============================================================================
// (b3) whole files through the real encrypted pipeline
// =============================================================================

type fileCase struct {
	Size  int    `json:"size"`
	PMode int    `json:"payload_mode"`
	PSeed uint64 `json:"payload_seed"`
}

func runFile(c fileCase, r *evid.Rec) (sig string, err error) {
	data := payload(c.PMode, c.PSeed, c.Size)
	ms := mapStore{}
	ctx := context.Background()
	var root boson.Address
	var werr error
	if gerr, _ := guard("encrypted pipeline", func() error {
		p := builder.NewPipelineBuilder(ctx, ms, storage.ModePutUpload, true)
		root, werr = builder.FeedPipeline(ctx, p, bytes.NewReader(data))
		return nil
	}); gerr != nil {
		return "C08/writer-error", gerr
	}
	if werr != nil {
		return "C08/writer-error", fmt.Errorf("encrypted pipeline over %d bytes: %v", c.Size, werr)
	}
	if len(root.Bytes()) != int(refSize) {
		return "C08/writer-error", fmt.Errorf("encrypted pipeline returned a %d-byte reference", len(root.Bytes()))
	}
	ds := encstore.New(ms)
	var walk func(ref []byte, off uint64) (uint64, string, error)
	walk = func(ref []byte, off uint64) (uint64, string, error) {
		var ch boson.Chunk
		var gerr2 error
		if gerr, _ := guard("decrypting store Get", func() error {
			ch, gerr2 = ds.Get(ctx, storage.ModeGetRequest, boson.NewAddress(ref))
			return nil
		}); gerr != nil {
			return 0, "C08/decrypt-panic", gerr
		}
		if gerr2 != nil {
			return 0, "C08/decrypt-error", fmt.Errorf("Get(%x..): %v", ref[:4], gerr2)
		}
		d := ch.Data()
		if len(d) < 8 {
			return 0, "C08/decrypted-length", fmt.Errorf("decrypted chunk of %d bytes", len(d))
		}
		span := binary.LittleEndian.Uint64(d[:8])
		lv, n := storedLen(span)
		if uint64(len(d)-8) != n {
			return 0, "C08/decrypted-length", fmt.Errorf("file of %d bytes: chunk with span %d decrypts to %d payload bytes, the writer stored %d", c.Size, span, len(d)-8, n)
		}
		if r != nil {
			r.Class(fmt.Sprintf("b3:chunk-level=%d", lv))
		}
		if lv == 0 {
			if off+span > uint64(len(data)) || !bytes.Equal(d[8:], data[off:off+span]) {
				return 0, "C08/decrypted-content", fmt.Errorf("file of %d bytes: leaf at offset %d (span %d) differs from the uploaded bytes", c.Size, off, span)
			}
			return span, "", nil
		}
		var sum uint64
		for i := 8; i < len(d); i += int(refSize) {
			s, sg, e := walk(d[i:i+int(refSize)], off+sum)
			if e != nil {
				return 0, sg, e
			}
			sum += s
		}
		if sum != span {
			return 0, "C08/decrypted-content", fmt.Errorf("file of %d bytes: children of the chunk with span %d cover %d bytes", c.Size, span, sum)
		}
		return span, "", nil
	}
	total, sg, e := walk(root.Bytes(), 0)
	if e != nil {
		return sg, e
	}
	if total != uint64(c.Size) {
		return "C08/decrypted-content", fmt.Errorf("root span %d for a file of %d bytes", total, c.Size)
	}
	return "", nil
}

func recordFile(r *evid.Rec, c fileCase) {
	cls := []string{"b3:file", fmt.Sprintf("b3:chunks=%d", (uint64(c.Size)+cs-1)/cs)}
	if uint64(c.Size)%cs == 0 && c.Size > 0 {
		cls = append(cls, "b3:chunk-aligned")
	}
	r.Case(evid.Hash64("b3", c), uint64(c.Size) > cs || c.Size%32 != 0, cls...)
	r.Sample(map[string]interface{}{"part": "b3", "size": c.Size})
}

func TestC08_EncryptedFiles(t *testing.T) {
	r := evid.Get(id)
	evid.Finish(t, r)
	r.SetRule(rule)
	for _, n := range []int{0, 1, 32, int(cs) - 1, int(cs), int(cs) + 1, 2 * int(cs), 2*int(cs) + 31} {
		c := fileCase{Size: n, PMode: 2, PSeed: uint64(n)}
		if sig, err := runFile(c, r); err != nil {
			t.Fatalf("%s", evid.Violation(id, sig, fmt.Sprintf("%v case=%+v", err, c)))
		}
		recordFile(r, c)
	}
	evid.Checks(30)
	rapid.Check(t, func(t *rapid.T) {
		var c fileCase
		maxChunks := 4
		if evid.Thorough() {
			maxChunks = 9
		}
		k := rapid.IntRange(0, maxChunks).Draw(t, "k")
		rem := rapid.OneOf(rapid.SampledFrom([]int{0, 0, 1, 31, 32, 33, int(cs) - 1}), rapid.IntRange(0, int(cs)-1)).Draw(t, "r")
		c.Size = k*int(cs) + rem
		c.PMode = rapid.SampledFrom([]int{0, 2, 2, 2}).Draw(t, "pmode")
		c.PSeed = rapid.Uint64().Draw(t, "pseed")
		if sig, err := runFile(c, r); err != nil {
			t.Fatalf("%s", evid.Violation(id, sig, fmt.Sprintf("%v case=%+v", err, c)))
		}
		recordFile(r, c)
	})
}
