// Package c24 checks property C24: the real kademlia.Kad reports as connected exactly
// the full nodes that connected and have not disconnected since, every connected peer
// is known, and an unprotected inbound full node is admitted only if its bin is not
// oversaturated.
package c24

import (
	"context"
	"errors"
	"fmt"
	"os"
	"sort"
	"sync"
	"testing"

	"github.com/gauss-project/aurorafs/pkg/boson"
	"github.com/gauss-project/aurorafs/pkg/p2p"
	"github.com/gauss-project/aurorafs/pkg/topology"
	"github.com/gauss-project/aurorafs/pkg/topology/kademlia"
	"github.com/gauss-project/aurorafs/pkg/topology/model"
	"pgregory.net/rapid"
	"verifharness/internal/evid"
	"verifharness/internal/kadx"
)

const id = "C24"

type peerSpec struct {
	FD     int    `json:"fd"`
	Tag    uint16 `json:"tag"`
	Boot   bool   `json:"boot_node,omitempty"`   // the peer is a boot node: only ever dialled (Outbound with boot mode)
	Static bool   `json:"static_node,omitempty"` // listed in Options.StaticNodes
}

// op kinds:
//
//	"in"      Connected(peer, Force); when rejected and Follow, Disconnected(peer) as libp2p does
//	"out"     Outbound(peer) with the peer's mode (full | boot node)
//	"dis"     Disconnected(peer)
//	"force"   DisconnectForce(addr)
//	"protect" RefreshProtectPeer(List)
//	"add"     AddPeers(List...) (no repeats inside one call)
//	"pub"/"priv" Reachable(peer, public|private)
//	"pick"    Pick(peer) (query only)
type op struct {
	K      string `json:"k"`
	P      int    `json:"p"`
	Force  bool   `json:"force,omitempty"`
	Follow bool   `json:"follow,omitempty"`
	List   []int  `json:"list,omitempty"`
}

type kase struct {
	Seed   [4]byte    `json:"seed"`
	BinMax int        `json:"bin_max_peers"`
	Func   bool       `json:"reachability_func"`
	Peers  []peerSpec `json:"peers"`
	Ops    []op       `json:"ops"`
}

type info struct {
	ops, rejections, admittedUnforced, admittedForced, admittedProtected int
	forceOK, forceNotFound                                               int
	ambiguous                                                            int
	bootOutbound                                                         int
	disOfUnconnected                                                     int
	picksTrue, picksFalse                                                int
	maxConn                                                              int
	staticInFullBin                                                      int
	knownDup                                                             int
	readbacks                                                            int
}

func peerOf(a boson.Address, boot bool) p2p.Peer {
	if boot {
		return p2p.Peer{Address: a, Mode: kadx.BootNode()}
	}
	return p2p.Peer{Address: a, Mode: kadx.FullNode()}
}

type sets struct {
	conn, known []string // sorted address strings as the Kad reports them
}

func run(c kase) (sig string, err error, inf info) {
	defer func() {
		if r := recover(); r != nil {
			sig, err = "C24/panic", fmt.Errorf("panic in code under test: %v", r)
		}
	}()
	quick, _, over := kadx.Sat(c.BinMax)
	base := kadx.Base(c.Seed)
	n := len(c.Peers)
	addrs := make([]boson.Address, n)
	index := map[string]int{}
	var static []boson.Address
	for i, p := range c.Peers {
		addrs[i] = kadx.AddrAt(base, p.FD, p.Tag)
		index[addrs[i].String()] = i
		if p.Static {
			static = append(static, addrs[i])
		}
	}
	var mu sync.Mutex
	reachSet := map[string]bool{}
	opts := kademlia.Options{BinMaxPeers: c.BinMax, StaticNodes: static}
	if c.Func {
		opts.ReachabilityFunc = func(a boson.Address) bool {
			mu.Lock()
			defer mu.Unlock()
			return !reachSet[a.ByteString()]
		}
	}
	env, e := kadx.New(base, opts)
	if e != nil {
		return "C24/setup", e, inf
	}
	defer env.Release()
	k := env.Kad

	conn := make([]bool, n)  // model: full nodes connected and not disconnected since
	live := make([]bool, n)  // what the p2p layer holds (includes dialled boot nodes)
	reach := make([]bool, n) // last Reachable report was public
	prot := make([]bool, n)

	observe := func(step string) (sets, string, error) {
		var s sets
		seen := map[string]bool{}
		lastPO := 32
		if e := k.EachPeer(func(a boson.Address, po uint8) (bool, bool, error) {
			if seen[a.String()] {
				return true, false, fmt.Errorf("peer %s reported twice", a)
			}
			if int(po) > lastPO {
				return true, false, fmt.Errorf("EachPeer not deepest-bin-first: bin %d after %d", po, lastPO)
			}
			lastPO = int(po)
			seen[a.String()] = true
			s.conn = append(s.conn, a.String())
			return false, false, nil
		}, topology.Filter{}); e != nil {
			return s, "C24/each-peer", fmt.Errorf("after %s: EachPeer: %v", step, e)
		}
		kseen := map[string]bool{}
		_ = k.EachKnownPeer(func(a boson.Address, _ uint8) (bool, bool, error) {
			if kseen[a.String()] {
				inf.knownDup++ // not this property's subject (peer-set duplicates are C21)
				return false, false, nil
			}
			kseen[a.String()] = true
			s.known = append(s.known, a.String())
			return false, false, nil
		})
		sort.Strings(s.conn)
		sort.Strings(s.known)
		return s, "", nil
	}

	verify := func(step string) (sets, string, error) {
		inf.readbacks++
		s, sg, e := observe(step)
		if e != nil {
			return s, sg, e
		}
		var want []string
		nc := 0
		for i := range conn {
			if conn[i] {
				want = append(want, addrs[i].String())
				nc++
			}
		}
		if nc > inf.maxConn {
			inf.maxConn = nc
		}
		sort.Strings(want)
		// connected == model
		got := map[string]bool{}
		for _, a := range s.conn {
			got[a] = true
			i, ok := index[a]
			switch {
			case !ok:
				return s, "C24/unknown-address-connected", fmt.Errorf("after %s: Kad reports %s which was never connected", step, a)
			case c.Peers[i].Boot:
				return s, "C24/bootnode-outbound-counted", fmt.Errorf("after %s: boot node peer %d is reported as connected", step, i)
			case !conn[i]:
				return s, "C24/stale-connected-peer", fmt.Errorf("after %s: peer %d is reported as connected but it disconnected, was refused or never connected", step, i)
			}
		}
		for _, a := range want {
			if !got[a] {
				return s, "C24/missing-connected-peer", fmt.Errorf("after %s: peer %d connected and did not disconnect, but is not reported (reported %d, expected %d)", step, index[a], len(s.conn), len(want))
			}
		}
		// connected is a subset of known
		kn := map[string]bool{}
		for _, a := range s.known {
			kn[a] = true
		}
		for _, a := range s.conn {
			if !kn[a] {
				return s, "C24/connected-not-known", fmt.Errorf("after %s: connected peer %d is not among the known peers", step, index[a])
			}
		}
		// Snapshot agrees with the iterators
		snap := k.Snapshot()
		if snap.Connected != len(s.conn) || (inf.knownDup == 0 && snap.Population != len(s.known)) {
			return s, "C24/snapshot-differs", fmt.Errorf("after %s: Snapshot connected=%d population=%d, iterators give %d/%d", step, snap.Connected, snap.Population, len(s.conn), len(s.known))
		}
		if int(snap.Depth) != int(k.NeighborhoodDepth()) {
			return s, "C24/snapshot-differs", fmt.Errorf("after %s: Snapshot depth %d != NeighborhoodDepth %d", step, snap.Depth, k.NeighborhoodDepth())
		}
		bins := binsOf(snap)
		var perBin [32]int
		for i := range conn {
			if conn[i] {
				perBin[kadx.Bin(c.Peers[i].FD)]++
			}
		}
		for b := 0; b < 32; b++ {
			if int(bins[b].BinConnected) != perBin[b] || len(bins[b].ConnectedPeers) != perBin[b] {
				return s, "C24/snapshot-differs", fmt.Errorf("after %s: Snapshot bin %d connected=%d (listed %d), expected %d", step, b, bins[b].BinConnected, len(bins[b].ConnectedPeers), perBin[b])
			}
			for _, pi := range bins[b].ConnectedPeers {
				i, ok := index[pi.Address.String()]
				if !ok || !conn[i] || kadx.Bin(c.Peers[i].FD) != b {
					return s, "C24/snapshot-differs", fmt.Errorf("after %s: Snapshot bin %d lists %s as connected", step, b, pi.Address)
				}
			}
			for _, pi := range bins[b].DisconnectedPeers {
				i, ok := index[pi.Address.String()]
				if !ok || conn[i] || !kn[pi.Address.String()] {
					return s, "C24/snapshot-differs", fmt.Errorf("after %s: Snapshot bin %d lists %s as known-but-disconnected", step, b, pi.Address)
				}
			}
		}
		cnt, m := k.SnapshotConnected()
		if cnt != len(s.conn) || len(m) != len(s.conn) {
			return s, "C24/snapshot-differs", fmt.Errorf("after %s: SnapshotConnected = %d (%d entries), expected %d", step, cnt, len(m), len(s.conn))
		}
		return s, "", nil
	}

	// oversaturated restates the admission rule independently: the bin lies below the
	// depth the KNOWN peer set would have (radius 31) and holds at least `over`
	// connected, reachable, non-static peers. lo/hi: the depth under the literal and
	// under the lenient reading of "saturated" for bins with only unreachable peers
	// (the two differ only in the shape of known finding C22/unreachable-only-bin-...).
	oversaturated := func(bin int, s sets) (lo, hi bool, cnt int) {
		var kp []kadx.MP
		for _, a := range s.known {
			i := index[a]
			kp = append(kp, kadx.MP{Bin: kadx.Bin(c.Peers[i].FD), Reach: reach[i]})
		}
		dlo := kadx.MaxDepth(kp, 31, quick, false)
		dhi := kadx.MaxDepth(kp, 31, quick, true)
		for i := range conn {
			if conn[i] && kadx.Bin(c.Peers[i].FD) == bin && reach[i] && !c.Peers[i].Static {
				cnt++
			}
		}
		return bin < dlo && cnt >= over, bin < dhi && cnt >= over, cnt
	}

	setReach := func(i int, on bool) {
		mu.Lock()
		reachSet[addrs[i].ByteString()] = on
		mu.Unlock()
		reach[i] = on
		st := p2p.ReachabilityStatusPrivate
		if on {
			st = p2p.ReachabilityStatusPublic
		}
		k.Reachable(addrs[i], st)
	}

	cur, sg, e := verify("construction")
	if e != nil {
		return sg, e, inf
	}
	if n == 0 {
		return "", nil, inf
	}
	for j, o := range c.Ops {
		inf.ops++
		i := ((o.P % n) + n) % n
		bin := kadx.Bin(c.Peers[i].FD)
		step := fmt.Sprintf("op#%d %s(peer %d, bin %d)", j, o.K, i, bin)
		switch o.K {
		case "in":
			if c.Peers[i].Boot {
				// inbound boot nodes are kept by the bootnode container, never given to the Kad
				continue
			}
			lo, hi, cnt := oversaturated(bin, cur)
			e := k.Connected(context.Background(), peerOf(addrs[i], false), o.Force)
			if e != nil && !errors.Is(e, topology.ErrOversaturated) {
				return "C24/reject-wrong-error", fmt.Errorf("%s: Connected returned %v", step, e), inf
			}
			admitted := e == nil
			switch {
			case o.Force || prot[i]:
				if !admitted {
					return "C24/forced-or-protected-rejected", fmt.Errorf("%s: force=%v protected=%v but Connected returned %v", step, o.Force, prot[i], e), inf
				}
				if o.Force {
					inf.admittedForced++
				} else {
					inf.admittedProtected++
				}
			case lo && admitted:
				return "C24/admitted-while-oversaturated", fmt.Errorf("%s: unprotected inbound peer admitted although bin %d holds %d connected reachable non-static peers (threshold %d) and lies below the depth of the known set", step, bin, cnt, over), inf
			case !hi && !admitted:
				return "C24/rejected-while-not-oversaturated", fmt.Errorf("%s: Connected returned %v although bin %d is not oversaturated (%d connected reachable non-static peers, threshold %d)", step, e, bin, cnt, over), inf
			case lo != hi:
				inf.ambiguous++
			}
			if admitted {
				if !o.Force && !prot[i] {
					inf.admittedUnforced++
				}
				conn[i], live[i] = true, true
				env.SetLive(addrs[i], true)
			} else {
				inf.rejections++
				after, sg, e := observe(step)
				if e != nil {
					return sg, e, inf
				}
				if fmt.Sprint(after) != fmt.Sprint(cur) {
					return "C24/reject-changed-state", fmt.Errorf("%s: rejected with %v but the peer sets changed: connected %d->%d, known %d->%d", step, e, len(cur.conn), len(after.conn), len(cur.known), len(after.known)), inf
				}
				if o.Follow {
					// libp2p drops a connection the notifier refused and reports the disconnect
					k.Disconnected(peerOf(addrs[i], false), "unable to signal connection notifier")
					conn[i], live[i] = false, false
					env.SetLive(addrs[i], false)
				}
			}
		case "out":
			k.Outbound(peerOf(addrs[i], c.Peers[i].Boot))
			live[i] = true
			env.SetLive(addrs[i], true)
			if c.Peers[i].Boot {
				inf.bootOutbound++
			} else {
				conn[i] = true
			}
		case "dis":
			if !conn[i] {
				inf.disOfUnconnected++
			}
			k.Disconnected(peerOf(addrs[i], c.Peers[i].Boot), "verif")
			conn[i], live[i] = false, false
			env.SetLive(addrs[i], false)
		case "force":
			e := k.DisconnectForce(addrs[i], "verif")
			if live[i] {
				if e != nil {
					return "C24/force-disconnect", fmt.Errorf("%s: DisconnectForce of a live connection returned %v", step, e), inf
				}
				inf.forceOK++
				conn[i], live[i] = false, false
			} else {
				if !errors.Is(e, p2p.ErrPeerNotFound) {
					return "C24/force-disconnect", fmt.Errorf("%s: DisconnectForce of a peer the p2p layer does not hold returned %v, want ErrPeerNotFound", step, e), inf
				}
				inf.forceNotFound++
			}
		case "protect":
			for x := range prot {
				prot[x] = false
			}
			var list []boson.Address
			for _, x := range o.List {
				prot[x%n] = true
				list = append(list, addrs[x%n])
			}
			k.RefreshProtectPeer(list)
		case "add":
			var list []boson.Address
			seen := map[int]bool{}
			for _, x := range o.List {
				if !seen[x%n] {
					seen[x%n] = true
					list = append(list, addrs[x%n])
				}
			}
			k.AddPeers(list...)
		case "pub":
			setReach(i, true)
		case "priv":
			setReach(i, false)
		case "pick":
			if c.Peers[i].Boot {
				continue
			}
			lo, hi, cnt := oversaturated(bin, cur)
			got := k.Pick(peerOf(addrs[i], false))
			switch {
			case prot[i] && !got:
				return "C24/pick", fmt.Errorf("%s: Pick refused a protected peer", step), inf
			case !prot[i] && lo && got:
				return "C24/pick", fmt.Errorf("%s: Pick accepted an unprotected peer for oversaturated bin %d (%d connected reachable non-static peers, threshold %d)", step, bin, cnt, over), inf
			case !prot[i] && !hi && !got:
				return "C24/pick", fmt.Errorf("%s: Pick refused a peer although bin %d is not oversaturated (%d of %d)", step, bin, cnt, over), inf
			case !prot[i] && lo != hi:
				inf.ambiguous++
			}
			if got {
				inf.picksTrue++
			} else {
				inf.picksFalse++
			}
		default:
			return "C24/harness", fmt.Errorf("unknown op %q", o.K), inf
		}
		cur, sg, e = verify(step)
		if e != nil {
			return sg, e, inf
		}
	}
	for i := range conn {
		if conn[i] && c.Peers[i].Static {
			inf.staticInFullBin++
		}
	}
	return "", nil, inf
}

func binsOf(s *model.KadParams) [32]model.BinInfo {
	b := s.Bins
	return [32]model.BinInfo{b.Bin0, b.Bin1, b.Bin2, b.Bin3, b.Bin4, b.Bin5, b.Bin6, b.Bin7, b.Bin8, b.Bin9, b.Bin10,
		b.Bin11, b.Bin12, b.Bin13, b.Bin14, b.Bin15, b.Bin16, b.Bin17, b.Bin18, b.Bin19, b.Bin20, b.Bin21, b.Bin22,
		b.Bin23, b.Bin24, b.Bin25, b.Bin26, b.Bin27, b.Bin28, b.Bin29, b.Bin30, b.Bin31}
}

// ---- generator -----------------------------------------------------------------------

func genCase(t *rapid.T) kase {
	var c kase
	copy(c.Seed[:], rapid.SliceOfN(rapid.Byte(), 4, 4).Draw(t, "seed"))
	c.BinMax = rapid.SampledFrom([]int{5, 5, 5, 5, 5, 5, 10}).Draw(t, "binmax")
	_, _, over := kadx.Sat(c.BinMax)
	c.Func = rapid.IntRange(0, 2).Draw(t, "mode") == 0
	big := rapid.SampledFrom([]int{0, 0, 1}).Draw(t, "bigbin")
	var bigIdx []int
	for b := 0; b < 3; b++ {
		cnt := rapid.IntRange(2, 4).Draw(t, "cnt")
		if b == big {
			cnt = over + rapid.IntRange(1, 2).Draw(t, "extra")
		}
		for j := 0; j < cnt; j++ {
			p := peerSpec{FD: b, Tag: uint16(j)}
			if b == 2 && j == 0 && rapid.IntRange(0, 3).Draw(t, "deepcap") == 0 {
				p.FD = 33 // one peer beyond the bin-31 cap
			}
			if rapid.IntRange(0, 11).Draw(t, "static") == 0 {
				p.Static = true
			}
			if b == big {
				bigIdx = append(bigIdx, len(c.Peers))
			}
			c.Peers = append(c.Peers, p)
		}
	}
	nb := rapid.SampledFrom([]int{0, 1, 1, 2}).Draw(t, "nboot")
	for j := 0; j < nb; j++ {
		c.Peers = append(c.Peers, peerSpec{FD: rapid.IntRange(0, 2).Draw(t, "bootbin"), Tag: uint16(100 + j), Boot: true})
	}
	n := len(c.Peers)
	anyPeer := func() int {
		if rapid.IntRange(0, 9).Draw(t, "inbig") < 6 {
			return bigIdx[rapid.IntRange(0, len(bigIdx)-1).Draw(t, "bi")]
		}
		return rapid.IntRange(0, n-1).Draw(t, "pi")
	}
	// most peers are reported public early so that bins can fill with reachable peers
	for i := 0; i < n; i++ {
		if rapid.IntRange(0, 9).Draw(t, "pub0") < 8 {
			c.Ops = append(c.Ops, op{K: "pub", P: i})
		}
	}
	// the other bins get known / connected peers so that the known set has depth > big
	if rapid.IntRange(0, 9).Draw(t, "seedknown") < 8 {
		var all []int
		for i := 0; i < n; i++ {
			all = append(all, i)
		}
		if rapid.Bool().Draw(t, "seedsubset") {
			// only part of the universe becomes known in this one batch (several bins grow at once);
			// the remaining peers enter the known set later, one by one, into bins that already grew
			all = rapid.SliceOfNDistinct(rapid.IntRange(0, n-1), n/2, n, func(x int) int { return x }).Draw(t, "seedlist")
		}
		c.Ops = append(c.Ops, op{K: "add", List: all})
	}
	// usually the other bins get connected peers and the big bin is filled by inbound
	// connections, so that admission is decided at and beyond the threshold
	if rapid.IntRange(0, 9).Draw(t, "fillothers") < 8 {
		for i := 0; i < n; i++ {
			isBig := false
			for _, b := range bigIdx {
				isBig = isBig || b == i
			}
			if !isBig && !c.Peers[i].Boot && rapid.IntRange(0, 9).Draw(t, "fo") < 8 {
				c.Ops = append(c.Ops, op{K: rapid.SampledFrom([]string{"out", "in"}).Draw(t, "fok"), P: i, Force: true})
			}
		}
	}
	if rapid.IntRange(0, 9).Draw(t, "fillbig") < 7 {
		for _, i := range rapid.Permutation(bigIdx).Draw(t, "bigorder") {
			c.Ops = append(c.Ops, op{K: "in", P: i, Follow: rapid.Bool().Draw(t, "ff")})
		}
	}
	var boots []int
	for i := range c.Peers {
		if c.Peers[i].Boot {
			boots = append(boots, i)
		}
	}
	nops := rapid.IntRange(8, 40).Draw(t, "nops")
	kinds := []string{"in", "in", "in", "in", "in", "in", "in", "in", "out", "out", "dis", "dis", "dis", "force", "protect", "add", "pub", "priv", "pick", "pick"}
	for j := 0; j < nops; j++ {
		o := op{K: rapid.SampledFrom(kinds).Draw(t, "k")}
		switch o.K {
		case "in":
			o.P = anyPeer()
			o.Force = rapid.IntRange(0, 7).Draw(t, "force") == 0
			o.Follow = rapid.IntRange(0, 3).Draw(t, "follow") != 0
		case "protect", "add":
			m := rapid.IntRange(0, 3).Draw(t, "m")
			for x := 0; x < m; x++ {
				o.List = append(o.List, anyPeer())
			}
		case "out", "force", "dis":
			o.P = anyPeer()
			if len(boots) > 0 && rapid.IntRange(0, 3).Draw(t, "boot") == 0 {
				o.P = boots[rapid.IntRange(0, len(boots)-1).Draw(t, "bx")]
			}
		default:
			o.P = anyPeer()
		}
		c.Ops = append(c.Ops, o)
	}
	return c
}

func record(r *evid.Rec, c kase, inf info) {
	nt := inf.rejections > 0 || inf.forceOK > 0
	cls := []string{fmt.Sprintf("bin-max-%d", c.BinMax)}
	if c.Func {
		cls = append(cls, "filter=ReachabilityFunc")
	} else {
		cls = append(cls, "filter=metrics")
	}
	if inf.rejections > 0 {
		cls = append(cls, "has-rejection")
	}
	if inf.forceOK > 0 {
		cls = append(cls, "has-force-disconnect")
	}
	if inf.bootOutbound > 0 {
		cls = append(cls, "has-bootnode-outbound")
	}
	if inf.admittedProtected > 0 {
		cls = append(cls, "has-protected-admission")
	}
	if inf.ambiguous > 0 {
		cls = append(cls, "admission-ambiguous(unreachable-only bin in known set; not asserted)")
	}
	if inf.knownDup > 0 {
		cls = append(cls, "known-set-duplicate-seen(not asserted)")
	}
	r.Case(evid.Hash64(c), nt, cls...)
	r.ClassN("ops", inf.ops)
	r.ClassN("readbacks", inf.readbacks)
	r.ClassN("op:inbound-rejected-oversaturated", inf.rejections)
	r.ClassN("op:inbound-admitted-unforced-unprotected", inf.admittedUnforced)
	r.ClassN("op:inbound-admitted-forced", inf.admittedForced)
	r.ClassN("op:inbound-admitted-protected", inf.admittedProtected)
	r.ClassN("op:force-disconnect-ok", inf.forceOK)
	r.ClassN("op:force-disconnect-not-found", inf.forceNotFound)
	r.ClassN("op:bootnode-outbound", inf.bootOutbound)
	r.ClassN("op:disconnect-of-unconnected", inf.disOfUnconnected)
	r.ClassN("op:pick-true", inf.picksTrue)
	r.ClassN("op:pick-false", inf.picksFalse)
	r.Sample(c)
}

func fixedCases() []kase {
	var out []kase
	// bin 0 fills up to the threshold, the 6th inbound peer is rejected; then protection,
	// force, forced disconnect, boot node outbound
	for _, fn := range []bool{false, true} {
		c := kase{Seed: [4]byte{2, 7, 1, 8}, BinMax: 5, Func: fn}
		for j := 0; j < 7; j++ {
			c.Peers = append(c.Peers, peerSpec{FD: 0, Tag: uint16(j)})
		}
		for b := 1; b <= 2; b++ {
			for j := 0; j < 3; j++ {
				c.Peers = append(c.Peers, peerSpec{FD: b, Tag: uint16(j)})
			}
		}
		c.Peers = append(c.Peers, peerSpec{FD: 1, Tag: 100, Boot: true})
		n := len(c.Peers)
		var all []int
		for i := 0; i < n; i++ {
			c.Ops = append(c.Ops, op{K: "pub", P: i})
			all = append(all, i)
		}
		c.Ops = append(c.Ops, op{K: "add", List: all[:n-1]})
		for i := 7; i < 13; i++ {
			c.Ops = append(c.Ops, op{K: "out", P: i})
		}
		for i := 0; i < 5; i++ {
			c.Ops = append(c.Ops, op{K: "in", P: i})
		}
		c.Ops = append(c.Ops,
			op{K: "pick", P: 5}, op{K: "in", P: 5}, op{K: "in", P: 5, Follow: true},
			op{K: "protect", List: []int{6}}, op{K: "pick", P: 6}, op{K: "in", P: 6}, op{K: "protect"},
			op{K: "in", P: 5, Force: true}, op{K: "priv", P: 0}, op{K: "in", P: 5},
			op{K: "out", P: 13}, op{K: "force", P: 13}, op{K: "force", P: 13}, op{K: "force", P: 1}, op{K: "dis", P: 2}, op{K: "dis", P: 2},
			op{K: "in", P: 1}, op{K: "pub", P: 0}, op{K: "in", P: 2}, op{K: "pick", P: 2})
		out = append(out, c)
	}
	return out
}

func TestC24_Tracking(t *testing.T) {
	r := evid.Get(id)
	evid.Finish(t, r)
	t.Cleanup(kadx.Drain)
	r.SetRule("real kademlia.Kad in full-node mode (never started), BinMaxPeers 5 (sometimes 10): peers in bins 0..2 with one bin holding threshold+1..2 peers (so it can oversaturate), 0..2 boot-node peers, some static peers, one peer beyond the bin-31 cap; history of up to ~70 events: inbound Connected(force|no force; a refused peer is then disconnected as libp2p does), Outbound (full | boot-node mode), Disconnected (also of unconnected peers), DisconnectForce (p2p layer holding the connection or not), RefreshProtectPeer, AddPeers, Reachable(public|private), Pick; after EVERY event EachPeer / EachKnownPeer / Snapshot / SnapshotConnected are read back and compared with the model set; admission is compared with the independently restated rule (bin below the depth of the known set and >= threshold connected reachable non-static peers). non-trivial = at least one rejection or successful force-disconnect; distinct by hash of the whole case")

	if os.Getenv("VERIF_SKIP_FIXED") == "" {
		for _, c := range fixedCases() {
			sig, err, inf := run(c)
			if err != nil {
				t.Fatalf("%s", evid.Violation(id, sig, fmt.Sprintf("%v case=%+v", err, c)))
			}
			if inf.rejections == 0 || inf.forceOK == 0 || inf.admittedProtected == 0 {
				t.Fatalf("harness: fixed case lost its shape: %+v", inf)
			}
			record(r, c, inf)
		}
	}
	evid.Checks(350)
	rapid.Check(t, func(t *rapid.T) {
		c := genCase(t)
		sig, err, inf := run(c)
		if err != nil {
			t.Fatalf("%s", evid.Violation(id, sig, fmt.Sprintf("%v case=%+v", err, c)))
		}
		record(r, c, inf)
	})
}
