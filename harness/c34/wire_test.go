package c34

import (
	"bytes"
	"context"
	"fmt"
	"testing"

	"github.com/gauss-project/aurorafs/pkg/aurora"
	"github.com/gauss-project/aurorafs/pkg/crypto"
	"github.com/gauss-project/aurorafs/pkg/p2p/libp2p/verifx"
	"github.com/gauss-project/aurorafs/pkg/p2p/protobuf"
	"github.com/gauss-project/aurorafs/pkg/topology/lightnode"
	ma "github.com/multiformats/go-multiaddr"
	"pgregory.net/rapid"
	"verifharness/internal/evid"
)

// Third clause, seen from the other end of the wire: the record the node itself puts into its
// handshake messages (SynAck when it is dialled, Ack when it dials) is a record "produced by the
// node's own signer", so the verifier of an honest peer must accept it. The advertised address is
// what the node's address resolver makes of the observed one (identity, or a configured public
// address / remapped port), so signed and sent underlay have two different sources in the code.

type fixedResolver struct{ to ma.Multiaddr }

func (r fixedResolver) Resolve(observed ma.Multiaddr) (ma.Multiaddr, error) {
	if r.to == nil {
		return observed, nil
	}
	return r.to, nil
}

type wcase struct {
	Key       []byte `json:"key"`  // the node under test
	PeerKey   []byte `json:"peer"` // the honest remote peer
	NetID     uint64 `json:"netid"`
	Observed  ulSpec `json:"observed"`   // how the peer sees the node
	Advertise bool   `json:"advertise"`  // resolver answers with a configured address instead of the observed one
	Public    ulSpec `json:"public"`     // that address
	PeerUL    ulSpec `json:"peer_ul"`    // the peer's own underlay
	Role      string `json:"role"`       // handle (the node is dialled) | handshake (the node dials)
}

const sigWire = "C34/own-record-on-the-wire-rejected"

func runWire(c wcase) (sig string, err error) {
	defer func() {
		if r := recover(); r != nil {
			sig, err = sigPanic, fmt.Errorf("panic: %v", r)
		}
	}()
	k := keyFrom(c.Key)
	signer := crypto.NewDefaultSigner(k.ToECDSA())
	ov, e := crypto.NewOverlayAddress(k.ToECDSA().PublicKey, c.NetID)
	if e != nil {
		return "harness", e
	}
	nodePID := peerID(c.Observed.IDSeed)
	observed, e := ma.NewMultiaddr(c.Observed.base() + "/p2p/" + nodePID.Pretty())
	if e != nil {
		return "harness", e
	}
	want := observed
	var res fixedResolver
	if c.Advertise {
		pub, e := ma.NewMultiaddr(c.Public.base() + "/p2p/" + nodePID.Pretty())
		if e != nil {
			return "harness", e
		}
		res.to, want = pub, pub
	}
	svc, e := verifx.NewHandshake(signer, res, ov, c.NetID, fullNode(), "", nodePID, logger, lightnode.NewContainer(ov), 10)
	if e != nil {
		return "harness", e
	}
	// the honest peer
	pw, e := build(kase{Key: c.PeerKey, Key2: c.Key, NetID: c.NetID, UL: c.PeerUL, UL2: c.PeerUL})
	if e != nil {
		return "harness", e
	}
	if pw.overlay.Equal(ov) {
		return "", nil // same key on both sides: not a handshake between two nodes
	}
	obsB, _ := observed.MarshalBinary()
	peerAck := pw.ackOf(pw.own[true], nil)
	var in []byte
	if c.Role == "handshake" {
		in, e = frame(&verifx.HandshakeSynAck{Syn: &verifx.HandshakeSyn{ObservedUnderlay: obsB}, Ack: peerAck})
	} else {
		in, e = frame(&verifx.HandshakeSyn{ObservedUnderlay: obsB}, peerAck)
	}
	if e != nil {
		return "harness", e
	}
	st := newScriptStream(in)
	if c.Role == "handshake" {
		_, e = svc.Handshake(context.Background(), st, pw.ulBase, pw.pid)
	} else {
		_, e = svc.Handle(context.Background(), st, pw.ulBase, pw.pid)
	}
	if e != nil {
		return "C34/honest-handshake-failed", fmt.Errorf("%s with an honest peer failed: %v", c.Role, e)
	}
	// what the node wrote
	st.mu.Lock()
	out := append([]byte{}, st.out.Bytes()...)
	st.mu.Unlock()
	r := protobuf.NewReader(bytes.NewReader(out))
	var rec *verifx.HandshakeBzzAddress
	var claimed uint64
	if c.Role == "handshake" {
		var syn verifx.HandshakeSyn
		var ack verifx.HandshakeAck
		if e := r.ReadMsg(&syn); e != nil {
			return "harness", fmt.Errorf("decode Syn: %v", e)
		}
		if e := r.ReadMsg(&ack); e != nil {
			return "harness", fmt.Errorf("decode Ack: %v", e)
		}
		rec, claimed = ack.Address, ack.NetworkID
	} else {
		var sa verifx.HandshakeSynAck
		if e := r.ReadMsg(&sa); e != nil {
			return "harness", fmt.Errorf("decode SynAck: %v", e)
		}
		if sa.Ack == nil {
			return sigWire, fmt.Errorf("SynAck without Ack")
		}
		rec, claimed = sa.Ack.Address, sa.Ack.NetworkID
	}
	if rec == nil {
		return sigWire, fmt.Errorf("%s: the node's message carries no address record", c.Role)
	}
	if claimed != c.NetID {
		return sigWire, fmt.Errorf("%s: the node states network id %d, it runs on %d", c.Role, claimed, c.NetID)
	}
	a, e := aurora.ParseAddress(rec.Underlay, rec.Overlay, rec.Signature, c.NetID)
	if e != nil {
		return sigWire, fmt.Errorf("%s: the record the node sent about itself {underlay:%x overlay:%x signature:%x} is rejected by an honest verifier on network %d: %v (observed %s, advertised %s)", c.Role, rec.Underlay, rec.Overlay, rec.Signature, c.NetID, e, observed, want)
	}
	if !a.Overlay.Equal(ov) {
		return sigWire, fmt.Errorf("%s: sent overlay %s, own overlay %s", c.Role, a.Overlay, ov)
	}
	if !a.Underlay.Equal(want) {
		return "C34/own-record-advertises-other-underlay", fmt.Errorf("%s: the record advertises %s, the resolver answered %s (observed %s)", c.Role, a.Underlay, want, observed)
	}
	return "", nil
}

func TestC34_OwnRecordOnTheWire(t *testing.T) {
	r := evid.Get(id)
	evid.Finish(t, r)
	evid.Checks(300)
	rapid.Check(t, func(t *rapid.T) {
		c := wcase{
			Key:       rapid.SliceOfN(rapid.Byte(), 32, 32).Draw(t, "key"),
			PeerKey:   rapid.SliceOfN(rapid.Byte(), 32, 32).Draw(t, "peerkey"),
			NetID:     rapid.SampledFrom([]uint64{0, 1, 10, 1 << 32, ^uint64(0)}).Draw(t, "netid"),
			Observed:  genUL(t, "observed"),
			Advertise: rapid.Bool().Draw(t, "advertise"),
			Public:    genUL(t, "public"),
			PeerUL:    genUL(t, "peerul"),
			Role:      rapid.SampledFrom([]string{"handle", "handshake"}).Draw(t, "role"),
		}
		sig, err := runWire(c)
		if err != nil {
			t.Fatalf("%s", evid.Violation(id, sig, fmt.Sprintf("%v case=%+v", err, c)))
		}
		cls := []string{"own-record-on-wire@" + c.Role}
		if c.Advertise {
			cls = append(cls, "resolver-answers-configured-address")
		}
		r.Case(evid.Hash64("wire", c), c.Advertise, cls...)
		r.Sample(c)
	})
}
