// Package c34 checks property C34 "Peer address records are authenticated":
// records made by a node's own signer are accepted at every acceptance point
// (aurora.ParseAddress, the handshake in both directions, a routing underlay
// reply, the passive underlay list of a route response), and every single-field
// change of underlay, overlay, network id or signature is rejected there.
package c34

import (
	"bytes"
	"context"
	"encoding/hex"
	"encoding/json"
	"errors"
	"fmt"
	"io"
	"math/big"
	"os"
	"sync"
	"testing"
	"time"

	"github.com/btcsuite/btcd/btcec"
	"github.com/gauss-project/aurorafs/pkg/addressbook"
	"github.com/gauss-project/aurorafs/pkg/aurora"
	"github.com/gauss-project/aurorafs/pkg/boson"
	"github.com/gauss-project/aurorafs/pkg/crypto"
	"github.com/gauss-project/aurorafs/pkg/logging"
	"github.com/gauss-project/aurorafs/pkg/p2p"
	"github.com/gauss-project/aurorafs/pkg/p2p/libp2p/verifx"
	p2pmock "github.com/gauss-project/aurorafs/pkg/p2p/mock"
	"github.com/gauss-project/aurorafs/pkg/p2p/protobuf"
	"github.com/gauss-project/aurorafs/pkg/routetab"
	rpb "github.com/gauss-project/aurorafs/pkg/routetab/pb"
	mockstate "github.com/gauss-project/aurorafs/pkg/statestore/mock"
	"github.com/gauss-project/aurorafs/pkg/topology/lightnode"
	libp2ppeer "github.com/libp2p/go-libp2p-core/peer"
	ma "github.com/multiformats/go-multiaddr"
	mh "github.com/multiformats/go-multihash"
	"pgregory.net/rapid"
	"verifharness/internal/evid"
)

const (
	id = "C34"

	sigOwnRejected   = "C34/own-record-rejected"
	sigRoundTrip     = "C34/accepted-record-differs"
	sigMutAccepted   = "C34/mutant-accepted"       // + "@<point>:<field>"
	sigMutStored     = "C34/mutant-stored"         // address book holds something after a rejected/forged reply
	sigWrongError    = "C34/unexpected-error-kind" // rejected, but not by the authentication check
	sigPanic         = "C34/panic"
	recoveryByteNote = "recovery byte v' with (v'-27)&^4 == (v-27)&^4 selects the same recovery id in btcec.RecoverCompact (compressed-key flag); excluded by construction (DESIGN C34/C05)"
)

// ---- case -------------------------------------------------------------------

type ulSpec struct {
	Kind   string `json:"kind"` // ip4 | ip6 | dns4 | dns6 | dns
	IP     []byte `json:"ip"`   // 16 bytes of material
	Name   uint16 `json:"name"`
	Trans  string `json:"trans"` // tcp | udp | quic
	Port   uint16 `json:"port"`
	P2P    bool   `json:"p2p"`    // append /p2p/<id> (always present in the handshake)
	IDSeed []byte `json:"idseed"` // material of the libp2p peer id
}

// mutation is one single-field change of the record (or of the verifier's network id).
type mutation struct {
	Field string `json:"field"` // underlay | overlay | netid | signature | boundary
	How   string `json:"how"`   // xor | valid | truncate | extend | delta | recovery | foreign | left | right
	Idx   int    `json:"idx"`   // byte index (modulo the field length)
	Mask  byte   `json:"mask"`  // xor mask (0 is mapped to 1) / new recovery byte / appended byte
	Delta int64  `json:"delta"` // network id delta (non-zero)
	Point string `json:"point"` // parse | handshake | handle | findunderlay | routeresp
	Claim bool   `json:"claim"` // netid mutants in the handshake: the ack claims the verifier's id (true) or the signer's own (false)
}

type kase struct {
	Key   []byte     `json:"key"`  // 32 bytes of key material (reduced into 1..N-1)
	Key2  []byte     `json:"key2"` // a second key (foreign signer)
	NetID uint64     `json:"netid"`
	UL    ulSpec     `json:"ul"`
	UL2   ulSpec     `json:"ul2"` // material for "another valid underlay"
	Muts  []mutation `json:"muts"`
}

var points = []string{"parse", "handshake", "handle", "findunderlay", "routeresp"}

// ---- construction -------------------------------------------------------------

func keyFrom(b []byte) *btcec.PrivateKey {
	n1 := new(big.Int).Sub(btcec.S256().N, big.NewInt(1))
	d := new(big.Int).SetBytes(b)
	d.Mod(d, n1)
	d.Add(d, big.NewInt(1)) // 1..N-1
	buf := make([]byte, 32)
	d.FillBytes(buf)
	k, _ := btcec.PrivKeyFromBytes(btcec.S256(), buf)
	return k
}

func peerID(seed []byte) libp2ppeer.ID {
	h, err := mh.Sum(append([]byte("c34-peer-id"), seed...), mh.SHA2_256, -1)
	if err != nil {
		panic(err)
	}
	return libp2ppeer.ID(h)
}

func (u ulSpec) host() string {
	ip := make([]byte, 16)
	copy(ip, u.IP)
	switch u.Kind {
	case "ip4":
		return fmt.Sprintf("/ip4/%d.%d.%d.%d", ip[0], ip[1], ip[2], ip[3])
	case "ip6":
		return fmt.Sprintf("/ip6/%x:%x:%x:%x:%x:%x:%x:%x", be16(ip, 0), be16(ip, 2), be16(ip, 4), be16(ip, 6), be16(ip, 8), be16(ip, 10), be16(ip, 12), be16(ip, 14))
	case "dns4", "dns6", "dns":
		return fmt.Sprintf("/%s/node-%d.example.org", u.Kind, u.Name)
	}
	panic("bad underlay kind " + u.Kind)
}

func be16(b []byte, i int) uint16 { return uint16(b[i])<<8 | uint16(b[i+1]) }

// base is the transport address without the /p2p part.
func (u ulSpec) base() string {
	switch u.Trans {
	case "udp":
		return fmt.Sprintf("%s/udp/%d", u.host(), u.Port)
	case "quic":
		return fmt.Sprintf("%s/udp/%d/quic", u.host(), u.Port)
	default:
		return fmt.Sprintf("%s/tcp/%d", u.host(), u.Port)
	}
}

func (u ulSpec) multiaddr(withP2P bool) (ma.Multiaddr, error) {
	s := u.base()
	if withP2P {
		s += "/p2p/" + peerID(u.IDSeed).Pretty()
	}
	return ma.NewMultiaddr(s)
}

// record is what travels: the three record fields plus the network id the verifier uses.
type record struct {
	Underlay  []byte
	Overlay   []byte
	Signature []byte
	NetID     uint64 // the verifier's network id
}

func (r record) String() string {
	return fmt.Sprintf("{underlay:%x overlay:%x signature:%x verifierNetID:%d}", r.Underlay, r.Overlay, r.Signature, r.NetID)
}

type world struct {
	c       kase
	signer  crypto.Signer
	overlay boson.Address
	ulP2P   ma.Multiaddr // underlay with /p2p (handshake form)
	ulBase  ma.Multiaddr // transport part only
	pid     libp2ppeer.ID
	own     map[bool]record // own record, keyed by "underlay carries /p2p"
}

func build(c kase) (*world, error) {
	w := &world{c: c, own: map[bool]record{}}
	k := keyFrom(c.Key)
	w.signer = crypto.NewDefaultSigner(k.ToECDSA())
	ov, err := crypto.NewOverlayAddress(k.ToECDSA().PublicKey, c.NetID)
	if err != nil {
		return nil, err
	}
	w.overlay = ov
	w.pid = peerID(c.UL.IDSeed)
	if w.ulBase, err = c.UL.multiaddr(false); err != nil {
		return nil, fmt.Errorf("underlay %q: %v", c.UL.base(), err)
	}
	if w.ulP2P, err = c.UL.multiaddr(true); err != nil {
		return nil, err
	}
	for _, p2pForm := range []bool{false, true} {
		u := w.ulBase
		if p2pForm {
			u = w.ulP2P
		}
		a, err := aurora.NewAddress(w.signer, u, ov, c.NetID)
		if err != nil {
			return nil, fmt.Errorf("NewAddress: %v", err)
		}
		ub, err := a.Underlay.MarshalBinary()
		if err != nil {
			return nil, err
		}
		w.own[p2pForm] = record{Underlay: ub, Overlay: a.Overlay.Bytes(), Signature: a.Signature, NetID: c.NetID}
	}
	return w, nil
}

// usesP2P: the handshake always carries the full /p2p underlay; elsewhere the case decides.
func (w *world) usesP2P(point string) bool {
	return point == "handshake" || point == "handle" || w.c.UL.P2P
}

func cp(b []byte) []byte { return append([]byte{}, b...) }

// apply returns the mutated record, a short label, whether it is the excluded
// recovery-byte equivalence, and ok=false if the mutation cannot be built (never for generated cases).
func (w *world) apply(m mutation) (r record, label string, equivalent bool, err error) {
	o := w.own[w.usesP2P(m.Point)]
	r = record{Underlay: cp(o.Underlay), Overlay: cp(o.Overlay), Signature: cp(o.Signature), NetID: o.NetID}
	mask := m.Mask
	if mask == 0 {
		mask = 1
	}
	idx := func(n int) int { return ((m.Idx % n) + n) % n }
	label = m.Field + "/" + m.How
	switch m.Field + "/" + m.How {
	case "underlay/xor":
		r.Underlay[idx(len(r.Underlay))] ^= mask
	case "underlay/valid":
		u2 := w.c.UL2
		u2.IDSeed = append(cp(u2.IDSeed), 0x5a)
		m2, e := u2.multiaddr(w.usesP2P(m.Point))
		if e != nil {
			return r, label, false, e
		}
		b, _ := m2.MarshalBinary()
		if bytes.Equal(b, r.Underlay) { // same address drawn twice: change the port component instead
			return r, label, false, fmt.Errorf("second underlay equals the first")
		}
		r.Underlay = b
	case "underlay/truncate":
		r.Underlay = r.Underlay[:len(r.Underlay)-1]
	case "underlay/extend":
		r.Underlay = append(r.Underlay, m.Mask)
	case "overlay/xor":
		r.Overlay[idx(len(r.Overlay))] ^= mask
	case "overlay/truncate":
		r.Overlay = r.Overlay[:len(r.Overlay)-1]
	case "overlay/extend":
		r.Overlay = append(r.Overlay, m.Mask)
	case "netid/delta":
		d := m.Delta
		if d == 0 {
			d = 1
		}
		r.NetID = o.NetID + uint64(d)
	case "signature/xor":
		r.Signature[idx(64)] ^= mask // R or S
	case "signature/recovery":
		v := r.Signature[64]
		nv := m.Mask
		if nv == v {
			nv = v ^ 1
		}
		equivalent = (nv-27)&^4 == (v-27)&^4
		r.Signature[64] = nv
	case "signature/truncate":
		r.Signature = r.Signature[:64]
	case "signature/extend":
		r.Signature = append(r.Signature, m.Mask)
	case "signature/foreign":
		// somebody else signs the victim's (underlay, overlay, network id)
		k2 := keyFrom(w.c.Key2)
		if k2.D.Cmp(keyFrom(w.c.Key).D) == 0 {
			return r, label, false, fmt.Errorf("foreign key equals the key")
		}
		u, e := ma.NewMultiaddrBytes(o.Underlay)
		if e != nil {
			return r, label, false, e
		}
		a, e := aurora.NewAddress(crypto.NewDefaultSigner(k2.ToECDSA()), u, w.overlay, o.NetID)
		if e != nil {
			return r, label, false, e
		}
		r.Signature = a.Signature
	case "boundary/left": // last underlay byte moves to the front of the overlay: the signed byte string is unchanged
		n := len(r.Underlay)
		r.Overlay = append([]byte{r.Underlay[n-1]}, r.Overlay...)
		r.Underlay = r.Underlay[:n-1]
	case "boundary/right": // first overlay byte moves to the end of the underlay: the signed byte string is unchanged
		r.Underlay = append(r.Underlay, r.Overlay[0])
		r.Overlay = r.Overlay[1:]
	default:
		return r, label, false, fmt.Errorf("unknown mutation %s", label)
	}
	return r, label, equivalent, nil
}

// ---- acceptance points ------------------------------------------------------------

// verdict of one acceptance point for one record.
type verdict struct {
	accepted bool
	got      *aurora.Address // what the point returned / stored when it accepted
	err      error
	authErr  bool // rejected with the authentication error of that point
	stored   int  // address-book entries afterwards (routing points only)
}

var logger = logging.New(io.Discard, 0)

// scriptStream plays the remote side of a stream: everything the peer will ever say is
// queued up front (none of it depends on what the service writes), writes are recorded.
type scriptStream struct {
	in     *bytes.Reader
	mu     sync.Mutex
	out    bytes.Buffer
	closed chan struct{}
	once   sync.Once
}

func newScriptStream(in []byte) *scriptStream {
	return &scriptStream{in: bytes.NewReader(in), closed: make(chan struct{})}
}
func (s *scriptStream) Read(p []byte) (int, error) { return s.in.Read(p) }
func (s *scriptStream) Write(p []byte) (int, error) {
	s.mu.Lock()
	defer s.mu.Unlock()
	return s.out.Write(p)
}
func (s *scriptStream) Close() error                 { return nil }
func (s *scriptStream) Reset() error                 { return nil }
func (s *scriptStream) FullClose() error             { s.once.Do(func() { close(s.closed) }); return nil }
func (s *scriptStream) Headers() p2p.Headers         { return nil }
func (s *scriptStream) ResponseHeaders() p2p.Headers { return nil }

type identityResolver struct{}

func (identityResolver) Resolve(observed ma.Multiaddr) (ma.Multiaddr, error) { return observed, nil }

func frame(msgs ...protobuf.Message) ([]byte, error) {
	var b bytes.Buffer
	w := protobuf.NewWriter(&b)
	for _, m := range msgs {
		if err := w.WriteMsg(m); err != nil {
			return nil, err
		}
	}
	return b.Bytes(), nil
}

func fullNode() aurora.Model { return aurora.NewModel().SetMode(aurora.FullNode) }

// verifier-side identity for the handshake (the node under test); fixed, it is not what is being quantified over.
var (
	sutKey     = keyFrom(bytes.Repeat([]byte{0x42}, 32))
	sutSigner  = crypto.NewDefaultSigner(sutKey.ToECDSA())
	sutPeerID  = peerID([]byte("sut"))
	sutObserve = "/ip4/198.51.100.7/tcp/1634"
)

func newHandshake(netID uint64) (*verifx.HandshakeService, error) {
	ov, err := crypto.NewOverlayAddress(sutKey.ToECDSA().PublicKey, netID)
	if err != nil {
		return nil, err
	}
	return verifx.NewHandshake(sutSigner, identityResolver{}, ov, netID, fullNode(), "", sutPeerID, logger, lightnode.NewContainer(ov), 10)
}

func (w *world) ackOf(r record, m *mutation) *verifx.HandshakeAck {
	claimed := r.NetID // by default the peer claims the id the verifier expects
	if m != nil && m.Field == "netid" && !m.Claim {
		claimed = w.c.NetID // ... or honestly states the id it signed for
	}
	return &verifx.HandshakeAck{
		Address:        &verifx.HandshakeBzzAddress{Underlay: r.Underlay, Overlay: r.Overlay, Signature: r.Signature},
		NetworkID:      claimed,
		NodeMode:       fullNode().Bv.Bytes(),
		WelcomeMessage: "hi",
	}
}

func (w *world) check(point string, r record, m *mutation) (v verdict, err error) {
	switch point {
	case "parse":
		a, e := aurora.ParseAddress(r.Underlay, r.Overlay, r.Signature, r.NetID)
		v.err, v.got, v.accepted = e, a, e == nil
		v.authErr = errors.Is(e, aurora.ErrInvalidAddress)
		if e == nil && a == nil {
			return v, fmt.Errorf("ParseAddress returned nil, nil")
		}
		return v, nil

	case "handshake", "handle":
		svc, e := newHandshake(r.NetID)
		if e != nil {
			return v, e
		}
		sutMA, e := ma.NewMultiaddr(sutObserve + "/p2p/" + sutPeerID.Pretty())
		if e != nil {
			return v, e
		}
		sutMAb, _ := sutMA.MarshalBinary()
		var in []byte
		if point == "handshake" { // we dial; the peer answers SynAck{what it observed of us, its ack}
			in, e = frame(&verifx.HandshakeSynAck{Syn: &verifx.HandshakeSyn{ObservedUnderlay: sutMAb}, Ack: w.ackOf(r, m)})
		} else { // the peer dials: Syn{what it observed of us}, then (after our SynAck) its Ack
			in, e = frame(&verifx.HandshakeSyn{ObservedUnderlay: sutMAb}, w.ackOf(r, m))
		}
		if e != nil {
			return v, e
		}
		st := newScriptStream(in)
		var info *aurora.AddressInfo
		if point == "handshake" {
			info, e = svc.Handshake(context.Background(), st, w.ulBase, w.pid)
		} else {
			info, e = svc.Handle(context.Background(), st, w.ulBase, w.pid)
		}
		v.err, v.accepted = e, e == nil
		v.authErr = errors.Is(e, verifx.ErrInvalidAck) || (m != nil && m.Field == "netid" && errors.Is(e, verifx.ErrNetworkIDIncompatible))
		if e == nil {
			if info == nil || info.Address == nil {
				return v, fmt.Errorf("%s returned nil info without error", point)
			}
			v.got = info.Address
		}
		return v, nil

	case "findunderlay", "routeresp":
		ctx, cancel := context.WithCancel(context.Background())
		defer cancel() // ends the two housekeeping goroutines of the route service
		self := boson.NewAddress(bytes.Repeat([]byte{0x11}, 32))
		ab := addressbook.New(mockstate.NewStateStore())
		reply, e := frame(&rpb.UnderlayResp{Dest: r.Overlay, Underlay: r.Underlay, Signature: r.Signature})
		if e != nil {
			return v, e
		}
		sr := &scriptStreamer{reply: reply}
		svc := routetab.New(self, ctx, p2pmock.New(), sr, ab, r.NetID, lightnode.NewContainer(self), nil, mockstate.NewStateStore(), logger, routetab.Options{})
		if point == "findunderlay" {
			a, e := svc.FindUnderlay(ctx, w.overlay)
			v.err, v.got, v.accepted = e, a, e == nil
			v.authErr = errors.Is(e, aurora.ErrInvalidAddress)
			if e == nil && a == nil {
				return v, fmt.Errorf("FindUnderlay returned nil, nil")
			}
		} else {
			// a route response from a neighbour carrying the record in its underlay list
			// (one single-hop path: nothing is stored in the route table for it, only the underlay list is processed)
			nb := bytes.Repeat([]byte{0x22}, 32)
			msg, e := frame(&rpb.RouteResp{Dest: w.overlay.Bytes(), Paths: []*rpb.Path{{Items: [][]byte{nb}}},
				UList: []*rpb.UnderlayResp{{Dest: r.Overlay, Underlay: r.Underlay, Signature: r.Signature}}})
			if e != nil {
				return v, e
			}
			var h p2p.HandlerFunc
			for _, s := range svc.Protocol().StreamSpecs {
				if s.Name == "onRouteResp" {
					h = s.Handler
				}
			}
			if h == nil {
				return v, fmt.Errorf("route service has no onRouteResp stream")
			}
			st := newScriptStream(msg)
			if e := h(ctx, p2p.Peer{Address: boson.NewAddress(nb), Mode: fullNode()}, st); e != nil {
				return v, fmt.Errorf("onRouteResp: %v", e)
			}
			select {
			case <-st.closed:
			case <-time.After(20 * time.Second):
			}
			v.authErr = true // this point reports nothing; the address book is the observation
		}
		all, e := ab.Addresses()
		if e != nil {
			return v, e
		}
		v.stored = len(all)
		if point == "routeresp" {
			v.accepted = len(all) > 0
			if len(all) == 1 {
				v.got = &all[0]
			}
		} else if v.accepted {
			// what was returned must be what was stored
			if len(all) != 1 || !all[0].Equal(v.got) {
				return v, fmt.Errorf("FindUnderlay returned %v but the address book holds %v", v.got, all)
			}
		}
		return v, nil
	}
	return v, fmt.Errorf("unknown point %q", point)
}

// scriptStreamer hands out one stream whose peer side answers with the prepared reply.
type scriptStreamer struct {
	reply []byte
}

func (s *scriptStreamer) NewStream(context.Context, boson.Address, p2p.Headers, string, string, string) (p2p.Stream, error) {
	return newScriptStream(nil), nil
}
func (s *scriptStreamer) NewRelayStream(context.Context, boson.Address, p2p.Headers, string, string, string, bool) (p2p.Stream, error) {
	return newScriptStream(s.reply), nil
}
func (s *scriptStreamer) NewConnChainRelayStream(context.Context, boson.Address, p2p.Headers, string, string, string) (p2p.Stream, error) {
	return newScriptStream(nil), nil
}

// ---- run ----------------------------------------------------------------------------

type stats struct {
	classes []string
	mutants int
}

func sameRecord(a *aurora.Address, r record) bool {
	if a == nil {
		return false
	}
	ub, err := a.Underlay.MarshalBinary()
	return err == nil && bytes.Equal(ub, r.Underlay) && bytes.Equal(a.Overlay.Bytes(), r.Overlay) && bytes.Equal(a.Signature, r.Signature)
}

func run(c kase) (sig string, st stats, err error) {
	defer func() {
		if r := recover(); r != nil {
			sig, err = sigPanic, fmt.Errorf("panic: %v", r)
		}
	}()
	w, err := build(c)
	if err != nil {
		return "harness", st, err
	}
	// 1. the node's own record is accepted everywhere and comes back unchanged
	for _, pt := range points {
		own := w.own[w.usesP2P(pt)]
		v, e := w.check(pt, own, nil)
		if e != nil {
			return "harness", st, fmt.Errorf("%s: %v", pt, e)
		}
		if !v.accepted {
			return sigOwnRejected + "@" + pt, st, fmt.Errorf("own record %s rejected at %s: %v", own, pt, v.err)
		}
		if !sameRecord(v.got, own) {
			return sigRoundTrip + "@" + pt, st, fmt.Errorf("own record %s accepted at %s as %v", own, pt, v.got)
		}
		st.classes = append(st.classes, "own-accepted@"+pt)
	}
	// 2. every single-field change is rejected
	for i, m := range c.Muts {
		mm := m
		r, label, equivalent, e := w.apply(mm)
		if e != nil {
			st.classes = append(st.classes, "mutation-not-buildable:"+label)
			continue
		}
		v, e := w.check(m.Point, r, &mm)
		if e != nil {
			return "harness", st, fmt.Errorf("mutant #%d %s at %s: %v", i, label, m.Point, e)
		}
		if equivalent {
			// btcec ignores this bit: the signature still recovers the signer. Nothing is asserted.
			st.classes = append(st.classes, "excluded:recovery-byte-equivalent", fmt.Sprintf("excluded:recovery-byte-equivalent:accepted=%v", v.accepted))
			continue
		}
		st.mutants++
		st.classes = append(st.classes, "mutant:"+label, "mutant@"+m.Point)
		if v.accepted {
			return fmt.Sprintf("%s@%s:%s", sigMutAccepted, m.Point, label), st,
				fmt.Errorf("mutant #%d (%s) accepted at %s: own %s mutated %s -> %v", i, label, m.Point, w.own[w.usesP2P(m.Point)], r, v.got)
		}
		if v.stored != 0 {
			return fmt.Sprintf("%s@%s:%s", sigMutStored, m.Point, label), st,
				fmt.Errorf("mutant #%d (%s) rejected at %s but %d address-book entries were written", i, label, m.Point, v.stored)
		}
		if !v.authErr {
			return fmt.Sprintf("%s@%s:%s", sigWrongError, m.Point, label), st,
				fmt.Errorf("mutant #%d (%s) at %s failed with %v, which is not the authentication error of that point", i, label, m.Point, v.err)
		}
	}
	return "", st, nil
}

// ---- generator ------------------------------------------------------------------------

func genUL(t *rapid.T, l string) ulSpec {
	return ulSpec{
		Kind:   rapid.SampledFrom([]string{"ip4", "ip4", "ip6", "dns4", "dns6", "dns"}).Draw(t, l+"kind"),
		IP:     rapid.SliceOfN(rapid.Byte(), 16, 16).Draw(t, l+"ip"),
		Name:   uint16(rapid.IntRange(0, 65535).Draw(t, l+"name")),
		Trans:  rapid.SampledFrom([]string{"tcp", "tcp", "udp", "quic"}).Draw(t, l+"trans"),
		Port:   uint16(rapid.IntRange(0, 65535).Draw(t, l+"port")),
		P2P:    rapid.Bool().Draw(t, l+"p2p"),
		IDSeed: rapid.SliceOfN(rapid.Byte(), 0, 8).Draw(t, l+"idseed"),
	}
}

var mutKinds = []string{
	"underlay/xor", "underlay/xor", "underlay/valid", "underlay/truncate", "underlay/extend",
	"overlay/xor", "overlay/xor", "overlay/truncate", "overlay/extend",
	"netid/delta", "netid/delta",
	"signature/xor", "signature/xor", "signature/recovery", "signature/truncate", "signature/extend", "signature/foreign",
	"boundary/left", "boundary/right",
}

func genMut(t *rapid.T, l string) mutation {
	k := rapid.SampledFrom(mutKinds).Draw(t, l+"kind")
	var m mutation
	for i := range k {
		if k[i] == '/' {
			m.Field, m.How = k[:i], k[i+1:]
		}
	}
	m.Idx = rapid.IntRange(0, 255).Draw(t, l+"idx")
	m.Mask = rapid.OneOf(rapid.Byte(), rapid.SampledFrom([]byte{1, 2, 4, 8, 16, 32, 64, 128, 27, 28, 31, 32, 0, 255})).Draw(t, l+"mask")
	m.Delta = rapid.OneOf(rapid.Int64Range(-3, 3), rapid.Int64()).Draw(t, l+"delta")
	m.Point = rapid.SampledFrom(points).Draw(t, l+"point")
	m.Claim = rapid.Bool().Draw(t, l+"claim")
	return m
}

func genCase(t *rapid.T) kase {
	var c kase
	c.Key = rapid.SliceOfN(rapid.Byte(), 32, 32).Draw(t, "key")
	c.Key2 = rapid.SliceOfN(rapid.Byte(), 32, 32).Draw(t, "key2")
	c.NetID = rapid.OneOf(rapid.Uint64Range(0, 20), rapid.Uint64()).Draw(t, "netid")
	c.UL = genUL(t, "ul.")
	c.UL2 = genUL(t, "ul2.")
	n := rapid.IntRange(4, 8).Draw(t, "nmuts")
	for i := 0; i < n; i++ {
		c.Muts = append(c.Muts, genMut(t, fmt.Sprintf("m%d.", i)))
	}
	return c
}

func record_(r *evid.Rec, c kase, st stats) {
	r.Case(evid.Hash64(c), st.mutants > 0, st.classes...)
	r.ClassN("mutants-judged", st.mutants)
	r.Sample(c)
}

func js(c kase) string {
	b, _ := json.Marshal(c)
	return string(b)
}

// ---- tests ------------------------------------------------------------------------------

func h(s string) []byte { b, _ := hex.DecodeString(s); return b }

func TestC34_Records(t *testing.T) {
	r := evid.Get(id)
	evid.Finish(t, r)
	r.SetRule("rapid: secp256k1 key (32 bytes reduced into 1..N-1) x network id (small or any uint64) x underlay (ip4/ip6/dns4/dns6/dns host, tcp|udp|udp+quic, with or without /p2p/<id>) -> own record from aurora.NewAddress with the repository's signer; checked at 5 acceptance points (aurora.ParseAddress; handshake.Handshake and handshake.Handle through verifx with the peer's messages scripted on a stream; routetab.FindUnderlay reply through a scripted Streamer; routetab onRouteResp underlay list) that it is accepted and returned/stored unchanged; then 4..8 single-field mutants per case, each sent to one drawn acceptance point: underlay byte xor / another valid underlay / truncate / extend, overlay byte xor / truncate / extend, verifier network id +-k (ack claiming either id), signature R|S byte xor / recovery byte replaced / 64 or 66 bytes / signed by a foreign key, and the two underlay|overlay boundary shifts that keep the signed bytes identical; oracle: rejected with ErrInvalidAddress / ErrInvalidAck / ErrNetworkIDIncompatible(netid only) and nothing written to the address book; recovery bytes selecting the same recovery id are excluded and counted; non-trivial = case with at least one judged mutant; distinct by hash of the case. Wire test: the node runs a whole handshake with an honest scripted peer in either role, with an address resolver that answers the observed address or a configured other one; the record the node wrote into its SynAck/Ack must pass aurora.ParseAddress for its network id, carry its overlay and advertise the resolver's answer; non-trivial = resolver answers a configured address")
	r.Note(recoveryByteNote)

	// deterministic sweep: one fixed identity, every mutation kind at every acceptance point
	base := kase{Key: bytes.Repeat([]byte{7}, 32), Key2: bytes.Repeat([]byte{9}, 32), NetID: 10,
		UL:  ulSpec{Kind: "ip4", IP: []byte{203, 0, 113, 5}, Trans: "tcp", Port: 1634, P2P: true, IDSeed: []byte{1}},
		UL2: ulSpec{Kind: "ip6", IP: h("20010db8000000000000000000000001"), Trans: "udp", Port: 1635, IDSeed: []byte{2}}}
	sweep := mutKinds
	if os.Getenv("VERIF_C34_NOSWEEP") != "" { // sensitivity runs only: show that the generator alone finds a mutant
		sweep = nil
	}
	for _, k := range sweep {
		for _, pt := range points {
			for _, claim := range []bool{false, true} {
				if !claim && !(k == "netid/delta") {
					continue
				}
				c := base
				m := mutation{Idx: 5, Mask: 0x10, Delta: 1, Point: pt, Claim: claim}
				for i := range k {
					if k[i] == '/' {
						m.Field, m.How = k[:i], k[i+1:]
					}
				}
				if k == "signature/recovery" {
					m.Mask = 29
				}
				c.Muts = []mutation{m}
				sig, st, err := run(c)
				if err != nil {
					t.Fatalf("%s", evid.Violation(id, sig, fmt.Sprintf("%v case=%s", err, js(c))))
				}
				record_(r, c, st)
			}
		}
	}

	evid.Checks(1500)
	rapid.Check(t, func(t *rapid.T) {
		c := genCase(t)
		sig, st, err := run(c)
		if err != nil {
			t.Fatalf("%s", evid.Violation(id, sig, fmt.Sprintf("%v case=%s", err, js(c))))
		}
		record_(r, c, st)
	})
}
