// Package c29 checks property C29 "Peer-exchange replies respect the request"
// against the real hive2 findNode handler (hive2.Service.Protocol() handler),
// a real kademlia.Kad holding generated connected / known peer sets and a real
// address book holding generated public / private underlays.
package c29

import (
	"bytes"
	"context"
	"encoding/binary"
	"encoding/json"
	"fmt"
	"io"
	"net"
	"os"
	"sort"
	"sync"
	"testing"
	"time"

	"github.com/gauss-project/aurorafs/pkg/addressbook"
	"github.com/gauss-project/aurorafs/pkg/aurora"
	"github.com/gauss-project/aurorafs/pkg/boson"
	"github.com/gauss-project/aurorafs/pkg/hive2"
	"github.com/gauss-project/aurorafs/pkg/hive2/pb"
	"github.com/gauss-project/aurorafs/pkg/logging"
	"github.com/gauss-project/aurorafs/pkg/p2p"
	p2pmock "github.com/gauss-project/aurorafs/pkg/p2p/mock"
	"github.com/gauss-project/aurorafs/pkg/p2p/protobuf"
	"github.com/gauss-project/aurorafs/pkg/p2p/streamtest"
	pingpongmock "github.com/gauss-project/aurorafs/pkg/pingpong/mock"
	"github.com/gauss-project/aurorafs/pkg/shed"
	mockstate "github.com/gauss-project/aurorafs/pkg/statestore/mock"
	"github.com/gauss-project/aurorafs/pkg/subscribe"
	"github.com/gauss-project/aurorafs/pkg/topology/kademlia"
	ma "github.com/multiformats/go-multiaddr"
	"pgregory.net/rapid"
	"verifharness/internal/evid"
	"verifharness/internal/ref"
)

const (
	id = "C29"

	maxPO      = 31 // boson.MaxPO: proximity orders are 0..31
	maxHonored = 30 // "with at most 30 honoured"

	sigLimitLow  = "C29/limit-below-2-returns-up-to-2"
	sigPosAlias  = "C29/pos-compared-as-uint8"
	sigCount     = "C29/count-exceeds-limit"
	sigRequester = "C29/requester-in-reply"
	sigProximity = "C29/proximity-not-requested"
	sigDuplicate = "C29/duplicate-peer"
	sigPrivate   = "C29/private-offered-to-public"
	sigHandler   = "C29/handler-error"
)

// ---- case -------------------------------------------------------------------

// ul describes an underlay by construction. Kind decides the address family and
// range; A..D/Port fill the free octets.
type ul struct {
	Kind string `json:"kind"`
	A    byte   `json:"a"`
	B    byte   `json:"b"`
	C    byte   `json:"c"`
	D    byte   `json:"d"`
	Port uint16 `json:"port"`
	P2P  bool   `json:"p2p,omitempty"` // append /p2p/<id>
}

// peerSpec is one peer the responding node knows about.
type peerSpec struct {
	PO   int    `json:"po"`   // proximity order of the peer's overlay to the request target (0..31)
	Tail uint16 `json:"tail"` // free low-order material
	Conn bool   `json:"conn"` // connected (kad.Outbound: connected+known) or only known (kad.AddPeers)
	Book bool   `json:"book"` // has an address-book record
	UL   ul     `json:"ul"`
}

type kase struct {
	Target    []byte     `json:"target"`      // 32 bytes
	BaseIdx   int        `json:"base_idx"`    // responder's overlay: one of the 8 fixed overlays in bases
	TgtIsBase bool       `json:"tgt_is_base"` // target is the responder's own overlay (Target already holds it)
	Peers     []peerSpec `json:"peers"`       // 0..40
	Req       peerSpec   `json:"req"`         // the requester; Book=false: unknown to the address book
	ReqIsTgt  bool       `json:"req_is_tgt"`  // requester looks up its own address (what discover() does first)
	ReqInKad  bool       `json:"req_in_kad"`  // requester is among the responder's connected/known peers (normal: it is connected)
	Limit     int32      `json:"limit"`       // 0..40
	Pos       []int32    `json:"pos"`         // requested orders
	Allow     bool       `json:"allow"`       // AllowPrivateCIDRs
}

// ---- construction helpers ------------------------------------------------------

var safePub4 = []byte{1, 8, 13, 23, 34, 45, 52, 64, 77, 88, 93, 104, 128, 151, 185, 199, 212}

const peerID1 = "QmcZf59bWwK5XFi76CZX8cbJ4BhTzzA3gU1ZjYZcYW3dwt"

func (u ul) String() string {
	var host string
	switch u.Kind {
	case "":
		return "" // no underlay given (hand-written cases for peers without a record)
	case "pub4":
		host = fmt.Sprintf("/ip4/%d.%d.%d.%d", safePub4[int(u.A)%len(safePub4)], u.B, u.C, u.D)
	case "priv10":
		host = fmt.Sprintf("/ip4/10.%d.%d.%d", u.B, u.C, u.D)
	case "priv172":
		host = fmt.Sprintf("/ip4/172.%d.%d.%d", 16+int(u.B)%16, u.C, u.D)
	case "priv192":
		host = fmt.Sprintf("/ip4/192.168.%d.%d", u.C, u.D)
	case "loop4":
		host = fmt.Sprintf("/ip4/127.%d.%d.%d", u.B, u.C, u.D)
	case "cgnat4":
		host = fmt.Sprintf("/ip4/100.%d.%d.%d", 64+int(u.B)%64, u.C, u.D)
	case "linklocal4":
		host = fmt.Sprintf("/ip4/169.254.%d.%d", u.C, u.D)
	case "doc4": // TEST-NET-3, neither public nor private for the code
		host = fmt.Sprintf("/ip4/203.0.113.%d", u.D)
	case "pub6":
		pre := []string{"2a00", "2600", "2a02", "2400"}[int(u.A)%4]
		host = fmt.Sprintf("/ip6/%s:%x:%x::%x", pre, uint16(u.B)<<8|uint16(u.C), uint16(u.D), uint16(u.Port)|1)
	case "ula6":
		host = fmt.Sprintf("/ip6/f%c%02x:%x::%x", "cd"[int(u.A)%2], u.B, uint16(u.C)<<8|uint16(u.D), uint16(u.Port)|1)
	case "linklocal6":
		host = fmt.Sprintf("/ip6/fe80::%x:%x", uint16(u.B)<<8|uint16(u.C), uint16(u.D)|1)
	case "loop6":
		host = "/ip6/::1"
	case "dns":
		host = fmt.Sprintf("/dns4/n%d-%d.example.org", u.B, u.C)
	default:
		panic("unknown underlay kind " + u.Kind)
	}
	s := fmt.Sprintf("%s/tcp/%d", host, u.Port)
	if u.P2P {
		s += "/p2p/" + peerID1
	}
	return s
}

var ulKinds = []string{"pub4", "pub4", "pub4", "pub6", "priv10", "priv172", "priv192", "ula6",
	"loop4", "cgnat4", "linklocal4", "doc4", "linklocal6", "loop6", "dns"}

// strictPrivate / strictPublic are the oracle's own classification, written from
// RFC 1918 / RFC 4193 and independent of go-multiaddr's manet tables:
//   - strictPrivate: 10/8, 172.16/12, 192.168/16, fc00::/7 (unambiguously "private-network addresses")
//   - ambiguous: loopback, link-local, CGNAT, documentation/unroutable, dns names
//   - strictPublic: global unicast outside every special-purpose block we generate
var (
	netsPrivate   = mustCIDRs("10.0.0.0/8", "172.16.0.0/12", "192.168.0.0/16", "fc00::/7")
	netsAmbiguous = mustCIDRs("127.0.0.0/8", "100.64.0.0/10", "169.254.0.0/16", "0.0.0.0/8", "192.0.0.0/24",
		"192.0.2.0/24", "192.88.99.0/24", "198.18.0.0/15", "198.51.100.0/24", "203.0.113.0/24", "224.0.0.0/3",
		"::1/128", "fe80::/10", "ff00::/8", "::/8", "2001:db8::/32")
)

func mustCIDRs(s ...string) []*net.IPNet {
	var out []*net.IPNet
	for _, c := range s {
		_, n, err := net.ParseCIDR(c)
		if err != nil {
			panic(err)
		}
		out = append(out, n)
	}
	return out
}

type ipClass int

const (
	clsAmbiguous ipClass = iota
	clsPrivate
	clsPublic
)

// classify looks at the first address component of a multiaddr, as a dialer would.
func classify(m ma.Multiaddr) ipClass {
	var first *ma.Component
	if m == nil {
		return clsAmbiguous
	}
	ma.ForEach(m, func(c ma.Component) bool {
		cc := c
		first = &cc
		return false
	})
	if first == nil {
		return clsAmbiguous
	}
	var ip net.IP
	switch first.Protocol().Code {
	case ma.P_IP4, ma.P_IP6:
		ip = net.ParseIP(first.Value())
	default:
		return clsAmbiguous
	}
	if ip == nil {
		return clsAmbiguous
	}
	for _, n := range netsPrivate {
		if n.Contains(ip) {
			return clsPrivate
		}
	}
	for _, n := range netsAmbiguous {
		if n.Contains(ip) {
			return clsAmbiguous
		}
	}
	return clsPublic
}

// overlayAt builds an overlay with exactly po leading bits in common with target
// (po in 0..30: bit po differs; po 31: at least 31 bits in common), unique per idx.
func overlayAt(target []byte, po int, idx int, tail uint16) []byte {
	o := append([]byte{}, target...)
	if po < maxPO {
		o[po/8] ^= 0x80 >> uint(po%8)
	} else if tail&1 == 1 {
		o[3] ^= 0x01 // bit 31 may or may not differ at the cap
	}
	// bytes 4..27: spread; bytes 28..29: idx+1 (non-zero, unique) => never equal to the target, never equal to each other
	h := ref.Keccak([]byte{byte(idx), byte(idx >> 8), byte(tail), byte(tail >> 8)})
	for i := 4; i < 28; i++ {
		o[i] ^= h[i]
	}
	var ix [2]byte
	binary.BigEndian.PutUint16(ix[:], uint16(idx+1))
	o[28] ^= ix[0]
	o[29] ^= ix[1]
	return o
}

const reqIdx = 0xfff0

func (c kase) reqOverlay() []byte {
	if c.ReqIsTgt {
		return append([]byte{}, c.Target...)
	}
	return overlayAt(c.Target, c.Req.PO, reqIdx, c.Req.Tail)
}

// bases are the responder identities. A kademlia.Kad is expensive to build (metrics DB,
// prometheus vectors, bin prefixes) and cannot be closed in less than 5 s unless it was
// started, so one Kad per identity lives for the whole process; its peer sets are emptied
// after every case and checked to be empty before the next one.
var bases = func() [][]byte {
	out := [][]byte{make([]byte, 32), bytes.Repeat([]byte{0xff}, 32)}
	for i := 2; i < 8; i++ {
		out = append(out, ref.Keccak([]byte{byte(i), 'c', '2', '9'}))
	}
	return out
}()

func (c kase) base() []byte { return bases[((c.BaseIdx%len(bases))+len(bases))%len(bases)] }

// ---- in-memory stream ---------------------------------------------------------

type memStream struct {
	in     *bytes.Reader
	mu     sync.Mutex
	out    bytes.Buffer
	reset  bool
	closed chan struct{}
	once   sync.Once
}

func newMemStream(in []byte) *memStream {
	return &memStream{in: bytes.NewReader(in), closed: make(chan struct{})}
}
func (s *memStream) Read(p []byte) (int, error) { return s.in.Read(p) }
func (s *memStream) Write(p []byte) (int, error) {
	s.mu.Lock()
	defer s.mu.Unlock()
	return s.out.Write(p)
}
func (s *memStream) Close() error                 { return nil }
func (s *memStream) Headers() p2p.Headers         { return nil }
func (s *memStream) ResponseHeaders() p2p.Headers { return nil }
func (s *memStream) FullClose() error             { s.once.Do(func() { close(s.closed) }); return nil }
func (s *memStream) Reset() error {
	s.mu.Lock()
	s.reset = true
	s.mu.Unlock()
	return nil
}
func (s *memStream) written() []byte {
	s.mu.Lock()
	defer s.mu.Unlock()
	return append([]byte{}, s.out.Bytes()...)
}

// ---- node under test ------------------------------------------------------------

var logger = logging.New(io.Discard, 0)

type kadSlot struct {
	kad  *kademlia.Kad
	db   *shed.DB // metrics DB of this Kad (kademlia.New wants one; read in New, written in Close only)
	used int
}

// A Kad remembers connection counters of every peer it ever saw and walks all of them on
// each Outbound (PublishPeersChange -> Snapshot), so a slot is retired after kadReuse cases.
const kadReuse = 32

var (
	kadMu    sync.Mutex
	kads     = map[int]*kadSlot{}
	retiring sync.WaitGroup // background Kad.Close calls of retired slots (each returns within ~5 s)
)

func (s *kadSlot) retire() {
	retiring.Add(1)
	go func() {
		defer retiring.Done()
		_ = s.kad.Close() // stops the blocker goroutines at once, then waits 5 s for the manage loop that was never started
		_ = s.db.Close()
	}()
}

// getKad returns the process-wide Kad of responder identity i, with empty peer sets.
func getKad(i int) (*kademlia.Kad, error) {
	kadMu.Lock()
	defer kadMu.Unlock()
	if s, ok := kads[i]; ok {
		if c, k := s.kad.ConnectedPeers().Length(), s.kad.KnownPeers().Length(); c != 0 || k != 0 {
			return nil, fmt.Errorf("kad %d not empty at case start: %d connected, %d known", i, c, k)
		}
		if s.used < kadReuse {
			s.used++
			return s.kad, nil
		}
		delete(kads, i)
		s.retire()
	}
	db, err := shed.NewDB("", &shed.Options{Driver: `leveldb:{"WriteBuffer":262144,"BlockCacheCapacity":262144}`})
	if err != nil {
		return nil, err
	}
	base := boson.NewAddress(bases[i])
	ping := pingpongmock.New(func(context.Context, boson.Address, ...string) (time.Duration, error) { return 0, nil })
	kad, err := kademlia.New(base, addressbook.New(mockstate.NewStateStore()), nil, p2pmock.New(), ping, nil, nil, db, logger,
		subscribe.NewSubPub(), kademlia.Options{NodeMode: aurora.NewModel().SetMode(aurora.FullNode)})
	if err != nil {
		_ = db.Close()
		return nil, err
	}
	kads[i] = &kadSlot{kad: kad, db: db, used: 1}
	return kad, nil
}

type node struct {
	svc   *hive2.Service
	kad   *kademlia.Kad
	ab    addressbook.Interface
	added []boson.Address
}

// newNode builds a fresh address book and a fresh hive2 service around the Kad of identity i.
// Start is never called on the Kad, so nothing but the calls of the case changes its peer sets.
func newNode(i int, allow bool) (*node, error) {
	kad, err := getKad(i)
	if err != nil {
		return nil, err
	}
	base := boson.NewAddress(bases[i])
	ab := addressbook.New(mockstate.NewStateStore())
	svc := hive2.New(streamtest.New(streamtest.WithBaseAddr(base)), ab, 1, logger)
	svc.SetAddPeersHandler(kad.AddPeers)
	svc.SetConfig(hive2.Config{Kad: kad, Base: base, AllowPrivateCIDRs: allow})
	return &node{svc: svc, kad: kad, ab: ab}, nil
}

// close stops the hive2 service (its two goroutines end at once) and empties the Kad's peer sets.
func (n *node) close() {
	_ = n.svc.Close()
	for _, a := range n.added {
		n.kad.ConnectedPeers().Remove(a)
		n.kad.KnownPeers().Remove(a)
	}
}

// ---- run ----------------------------------------------------------------------

type outcome struct {
	replied    int
	candidates int // distinct eligible candidates per the oracle's own reading of the case
	mixed      bool
	classes    []string
}

func fullNode() aurora.Model { return aurora.NewModel().SetMode(aurora.FullNode) }

// eligible computes, from the case alone, the peers that may legitimately be offered:
// not the requester, exact proximity requested, address-book record present, and not
// strictly private when the requester is strictly public and private CIDRs are not allowed.
func (c kase) eligible() (n int, nConn int, hasPriv, hasPub bool) {
	want := map[int32]bool{}
	for _, v := range c.Pos {
		want[v] = true
	}
	reqPublic := false
	if c.Req.Book {
		if m, err := ma.NewMultiaddr(c.Req.UL.String()); err == nil {
			reqPublic = classify(m) == clsPublic
		}
	}
	for _, p := range c.Peers {
		if !p.Book || !want[int32(p.PO)] {
			continue
		}
		m, err := ma.NewMultiaddr(p.UL.String())
		if err != nil {
			continue
		}
		cl := classify(m)
		if cl == clsPrivate {
			hasPriv = true
		}
		if cl == clsPublic {
			hasPub = true
		}
		if reqPublic && !c.Allow && cl == clsPrivate {
			continue // must not be offered; ambiguous ones (loopback, link-local, ...) may or may not be: counted as eligible
		}
		n++
		if p.Conn {
			nConn++
		}
	}
	return
}

func run(c kase) (sig string, out outcome, err error) {
	defer func() {
		if r := recover(); r != nil {
			sig, err = "C29/panic", fmt.Errorf("panic in code under test: %v", r)
		}
	}()
	if len(c.Target) != 32 {
		return "harness", out, fmt.Errorf("bad case: target length %d", len(c.Target))
	}
	target := c.Target
	reqOv := c.reqOverlay()
	base := c.base()
	if bytes.Equal(reqOv, base) {
		out.classes = append(out.classes, "degenerate:requester-is-responder(not run)")
		return "", out, nil
	}
	n, err := newNode(((c.BaseIdx%len(bases))+len(bases))%len(bases), c.Allow)
	if err != nil {
		return "harness", out, fmt.Errorf("node setup: %v", err)
	}
	defer n.close()

	put := func(ov []byte, u ul) error {
		m, err := ma.NewMultiaddr(u.String())
		if err != nil {
			return fmt.Errorf("underlay %q: %v", u.String(), err)
		}
		a := boson.NewAddress(ov)
		// hive2 never verifies signatures of stored records (checkAndAddPeers stores what it is given)
		sigBytes := ref.Keccak(ov, []byte(u.String()))
		sigBytes = append(sigBytes, sigBytes...)
		sigBytes = append(sigBytes, 27)
		return n.ab.Put(a, aurora.Address{Underlay: m, Overlay: a, Signature: sigBytes})
	}
	add := func(ov []byte, conn bool) {
		if bytes.Equal(ov, base) {
			out.classes = append(out.classes, "peer-equals-responder(skipped)")
			return // a node is never its own peer
		}
		a := boson.NewAddress(ov)
		n.added = append(n.added, a)
		if conn {
			n.kad.Outbound(p2p.Peer{Address: a, Mode: fullNode()})
		} else {
			n.kad.AddPeers(a)
		}
	}
	type rec struct {
		spec peerSpec
		cls  ipClass
	}
	byOverlay := map[string]rec{}
	for i, p := range c.Peers {
		ov := overlayAt(target, p.PO, i, p.Tail)
		if p.Book {
			if err := put(ov, p.UL); err != nil {
				return "harness", out, err
			}
		}
		add(ov, p.Conn)
		m, _ := ma.NewMultiaddr(p.UL.String())
		byOverlay[string(ov)] = rec{p, classify(m)}
	}
	reqCls := clsAmbiguous
	if c.Req.Book {
		if err := put(reqOv, c.Req.UL); err != nil {
			return "harness", out, err
		}
		m, _ := ma.NewMultiaddr(c.Req.UL.String())
		reqCls = classify(m)
	}
	if c.ReqInKad {
		add(reqOv, c.Req.Conn)
	}

	// the request, framed as DoFindNode frames it
	var reqBuf bytes.Buffer
	if err := protobuf.NewWriter(&reqBuf).WriteMsg(&pb.FindNodeReq{Target: target, Pos: c.Pos, Limit: c.Limit}); err != nil {
		return "harness", out, fmt.Errorf("encode request: %v", err)
	}
	var handler p2p.HandlerFunc
	for _, s := range n.svc.Protocol().StreamSpecs {
		if s.Name == "findNode" {
			handler = s.Handler
		}
	}
	if handler == nil {
		return "harness", out, fmt.Errorf("no findNode stream in Protocol()")
	}
	st := newMemStream(reqBuf.Bytes())
	herr := handler(context.Background(), p2p.Peer{Address: boson.NewAddress(reqOv), Mode: fullNode()}, st)
	if herr != nil {
		return sigHandler, out, fmt.Errorf("handler returned %v for a well-formed request", herr)
	}
	// the handler closes the stream from a goroutine of its own; let it finish (hygiene only, never a verdict)
	select {
	case <-st.closed:
	case <-time.After(20 * time.Second):
		out.classes = append(out.classes, "fullclose-not-observed")
	}
	var reply pb.Peers
	if err := protobuf.NewReader(bytes.NewReader(st.written())).ReadMsg(&reply); err != nil {
		return sigHandler, out, fmt.Errorf("reply not decodable: %v (bytes %x)", err, st.written())
	}

	// ---- oracle, from the property statement --------------------------------
	out.replied = len(reply.Peers)
	want := map[int32]bool{}
	for _, v := range c.Pos {
		want[v] = true
	}
	lim := int(c.Limit)
	if lim > maxHonored {
		lim = maxHonored
	}
	seen := map[string]bool{}
	for i, p := range reply.Peers {
		if bytes.Equal(p.Overlay, reqOv) {
			return sigRequester, out, fmt.Errorf("reply peer #%d is the requester %x", i, reqOv)
		}
		if seen[string(p.Overlay)] {
			return sigDuplicate, out, fmt.Errorf("reply repeats peer %x", p.Overlay)
		}
		seen[string(p.Overlay)] = true
		po := ref.LeadingEqualBits(target, p.Overlay)
		if po > maxPO {
			po = maxPO
		}
		if !want[int32(po)] {
			s := sigProximity
			for _, v := range c.Pos {
				if uint8(v) == uint8(po) {
					s = sigPosAlias
				}
			}
			return s, out, fmt.Errorf("reply peer %x has proximity %d to target %x, requested orders %v", p.Overlay, po, target, c.Pos)
		}
		m, err := ma.NewMultiaddrBytes(p.Underlay)
		if err != nil {
			return "harness", out, fmt.Errorf("reply underlay of %x does not parse: %v", p.Overlay, err)
		}
		cl := classify(m)
		if reqCls == clsPublic && !c.Allow {
			switch cl {
			case clsPrivate:
				return sigPrivate, out, fmt.Errorf("requester underlay %s is public, AllowPrivateCIDRs=false, reply offers %x at private underlay %s", c.Req.UL, p.Overlay, m)
			case clsAmbiguous:
				out.classes = append(out.classes, "ambiguous-underlay-offered-to-public(not asserted)")
			}
		}
		if _, ok := byOverlay[string(p.Overlay)]; !ok {
			out.classes = append(out.classes, "reply-peer-not-from-case(not asserted)")
		}
	}

	if len(reply.Peers) > lim {
		s := sigCount
		if c.Limit < 2 && len(reply.Peers) <= 2 {
			s = sigLimitLow
		}
		return s, out, fmt.Errorf("reply holds %d peers for limit %d (at most %d may be honoured)", len(reply.Peers), c.Limit, lim)
	}

	// ---- classes ---------------------------------------------------------------
	elig, _, hasPriv, hasPub := c.eligible()
	out.candidates = elig
	out.mixed = hasPriv && hasPub
	cl := &out.classes
	switch {
	case c.Limit == 0:
		*cl = append(*cl, "limit=0")
	case c.Limit == 1:
		*cl = append(*cl, "limit=1")
	case c.Limit == 2:
		*cl = append(*cl, "limit=2")
	case c.Limit <= 30:
		*cl = append(*cl, "limit=3..30")
	default:
		*cl = append(*cl, "limit=31..40")
	}
	if elig > lim {
		*cl = append(*cl, "candidates>limit")
	}
	if c.Limit > maxHonored && elig > maxHonored {
		*cl = append(*cl, "cap-at-30-engaged")
	}
	if len(reply.Peers) == lim && lim > 0 {
		*cl = append(*cl, "reply-full")
	}
	if len(reply.Peers) == 0 {
		*cl = append(*cl, "reply-empty")
	}
	if out.mixed {
		*cl = append(*cl, "mixed-public-private-candidates")
	}
	switch reqCls {
	case clsPublic:
		*cl = append(*cl, "requester-public")
		if !c.Allow && hasPriv {
			*cl = append(*cl, "private-filter-engaged")
		}
	case clsPrivate:
		*cl = append(*cl, "requester-private")
	default:
		if c.Req.Book {
			*cl = append(*cl, "requester-ambiguous-underlay")
		} else {
			*cl = append(*cl, "requester-unknown")
		}
	}
	if c.Allow {
		*cl = append(*cl, "allow-private")
	}
	if c.ReqInKad {
		*cl = append(*cl, "requester-in-kad")
		if want[int32(minInt(ref.LeadingEqualBits(target, reqOv), maxPO))] {
			*cl = append(*cl, "requester-matches-pos")
		}
	}
	if c.ReqIsTgt {
		*cl = append(*cl, "target=requester")
	}
	if bytes.Equal(target, base) {
		*cl = append(*cl, "target=responder")
	}
	if len(c.Pos) == 0 {
		*cl = append(*cl, "pos-empty")
	}
	oor, dup := false, false
	sp := map[int32]bool{}
	for _, v := range c.Pos {
		if v < 0 || v > maxPO {
			oor = true
		}
		if sp[v] {
			dup = true
		}
		sp[v] = true
	}
	if oor {
		*cl = append(*cl, "pos-out-of-range")
	}
	if dup {
		*cl = append(*cl, "pos-duplicates")
	}
	connSel, knownSel := 0, 0
	for _, p := range reply.Peers {
		if r, ok := byOverlay[string(p.Overlay)]; ok {
			if r.spec.Conn {
				connSel++
			} else {
				knownSel++
			}
		}
	}
	if connSel > 0 && knownSel > 0 {
		*cl = append(*cl, "reply-has-connected-and-known")
	}
	if len(c.Peers) == 0 {
		*cl = append(*cl, "no-peers")
	}
	return "", out, nil
}

func minInt(a, b int) int {
	if a < b {
		return a
	}
	return b
}

// ---- generator ------------------------------------------------------------------

func genUL(t *rapid.T, label string) ul {
	return ul{
		Kind: rapid.SampledFrom(ulKinds).Draw(t, label+"kind"),
		A:    rapid.Byte().Draw(t, label+"a"),
		B:    rapid.Byte().Draw(t, label+"b"),
		C:    rapid.Byte().Draw(t, label+"c"),
		D:    rapid.Byte().Draw(t, label+"d"),
		Port: uint16(rapid.IntRange(1, 65535).Draw(t, label+"port")),
		P2P:  rapid.IntRange(0, 3).Draw(t, label+"p2p") == 0,
	}
}

func genCase(t *rapid.T) kase {
	var c kase
	c.Target = rapid.SliceOfN(rapid.Byte(), 32, 32).Draw(t, "target")
	c.BaseIdx = rapid.IntRange(0, len(bases)-1).Draw(t, "base_idx")
	if rapid.IntRange(0, 5).Draw(t, "tgt_is_base") == 0 {
		c.TgtIsBase = true
		c.Target = append([]byte{}, bases[c.BaseIdx]...)
	}
	// proximity orders of peers cluster on a few orders so that requested orders hit several peers
	center := rapid.OneOf(rapid.IntRange(0, 6), rapid.IntRange(0, maxPO), rapid.IntRange(28, maxPO)).Draw(t, "center")
	var genPOt func(t *rapid.T, label string) int
	genPO := func(label string) int { return genPOt(t, label) }
	genPOt = func(t *rapid.T, label string) int {
		switch rapid.IntRange(0, 9).Draw(t, label+"pomode") {
		case 0:
			return rapid.IntRange(0, maxPO).Draw(t, label+"po")
		default:
			po := center + rapid.SampledFrom([]int{0, 0, 0, 1, 1, -1, -1, 2, -2}).Draw(t, label+"podelta")
			if po < 0 {
				po = 0
			}
			if po > maxPO {
				po = maxPO
			}
			return po
		}
	}
	genPeer := rapid.Custom(func(t *rapid.T) peerSpec {
		return peerSpec{
			PO:   genPOt(t, ""),
			Tail: uint16(rapid.IntRange(0, 65535).Draw(t, "tail")),
			Conn: rapid.Bool().Draw(t, "conn"),
			Book: rapid.IntRange(0, 9).Draw(t, "book") != 0,
			UL:   genUL(t, ""),
		}
	})
	minPeers := rapid.SampledFrom([]int{0, 0, 2, 6, 12, 20, 30, 36, 40}).Draw(t, "minpeers")
	c.Peers = rapid.SliceOfN(genPeer, minPeers, 40).Draw(t, "peers")
	c.Req = peerSpec{
		PO:   genPO("req."),
		Tail: uint16(rapid.IntRange(0, 65535).Draw(t, "req.tail")),
		Conn: rapid.IntRange(0, 3).Draw(t, "req.conn") != 0,
		Book: rapid.IntRange(0, 5).Draw(t, "req.book") != 0,
		UL:   genUL(t, "req."),
	}
	// the requester's underlay decides whether the private filter is engaged: weight public
	if c.Req.Book && rapid.Bool().Draw(t, "req.forcepub") {
		c.Req.UL.Kind = rapid.SampledFrom([]string{"pub4", "pub4", "pub6"}).Draw(t, "req.pubkind")
	}
	c.ReqIsTgt = !c.TgtIsBase && rapid.IntRange(0, 3).Draw(t, "req_is_tgt") == 0
	c.ReqInKad = rapid.IntRange(0, 4).Draw(t, "req_in_kad") != 0
	c.Limit = int32(rapid.OneOf(rapid.IntRange(0, 40), rapid.IntRange(0, 4), rapid.IntRange(1, 16), rapid.IntRange(29, 32)).Draw(t, "limit"))
	c.Allow = rapid.IntRange(0, 3).Draw(t, "allow") == 0

	npos := rapid.OneOf(rapid.IntRange(1, 3), rapid.IntRange(1, 3), rapid.IntRange(0, 8)).Draw(t, "npos") // real callers send 1..3 orders
	for i := 0; i < npos; i++ {
		l := fmt.Sprintf("pos%d.", i)
		var v int32
		switch rapid.IntRange(0, 11).Draw(t, l+"mode") {
		case 0: // any valid order
			v = int32(rapid.IntRange(0, maxPO).Draw(t, l+"v"))
		case 1: // out of range, not aliasing a valid order modulo 256
			v = int32(rapid.SampledFrom([]int{-1, -2, -100, 32, 33, 40, 64, 127, 128, 200, 255, 256 + 32, 1<<20 + 77, -(1 << 31) + 100, 1<<31 - 1}).Draw(t, l+"oor"))
		case 2: // out of range, equal to a valid order modulo 256
			k := rapid.SampledFrom([]int{-2, -1, 1, 2, 1 << 16, -(1 << 23)}).Draw(t, l+"k")
			v = int32(center + rapid.IntRange(-1, 1).Draw(t, l+"d") + 256*k)
			if evid.Known(sigPosAlias) {
				evid.Get(id).Excluded(sigPosAlias)
				v = int32(rapid.SampledFrom([]int{-1, 32, 255, 256 + 40}).Draw(t, l+"oor2"))
			}
		case 3: // duplicate of an earlier entry
			if len(c.Pos) > 0 {
				v = c.Pos[rapid.IntRange(0, len(c.Pos)-1).Draw(t, l+"dup")]
			} else {
				v = int32(center)
			}
		default: // near the cluster
			v = int32(center + rapid.SampledFrom([]int{0, 0, 0, 1, 1, -1, -1, 2, -2}).Draw(t, l+"d"))
			if v < 0 {
				v = 0
			}
			if v > maxPO {
				v = maxPO
			}
		}
		c.Pos = append(c.Pos, v)
	}

	// dense mode: (nearly) every peer is a candidate, so that limits up to 40 and the cap at 30 are exercised
	if rapid.IntRange(0, 6).Draw(t, "dense") == 0 {
		for i := range c.Peers {
			c.Peers[i].PO = center
			c.Peers[i].Book = true
		}
		c.Pos = append(c.Pos, int32(center))
		c.Allow = c.Allow || rapid.Bool().Draw(t, "dense.allow")
		if rapid.Bool().Draw(t, "dense.highlimit") {
			c.Limit = int32(rapid.IntRange(25, 40).Draw(t, "dense.limit"))
		}
	}

	if evid.Known(sigLimitLow) && c.Limit < 2 {
		// excluded shape: limit 0 or 1 with more eligible candidates than the limit
		if n, _, _, _ := c.eligible(); n > int(c.Limit) {
			evid.Get(id).Excluded(sigLimitLow)
			c.Limit = 2
		}
	}
	return c
}

func record(r *evid.Rec, c kase, o outcome) {
	lim := int(c.Limit)
	if lim > maxHonored {
		lim = maxHonored
	}
	nt := o.candidates > lim || o.mixed
	r.Case(evid.Hash64(c), nt, o.classes...)
	r.Sample(c)
}

// ---- tests ----------------------------------------------------------------------

func pub(d byte) ul  { return ul{Kind: "pub4", A: 1, B: 2, C: 3, D: d, Port: 1634} }
func priv(d byte) ul { return ul{Kind: "priv192", C: 1, D: d, Port: 1634} }

func tgt() []byte {
	b := make([]byte, 32)
	for i := range b {
		b[i] = byte(i*7 + 1)
	}
	return b
}

func TestC29_FindNode(t *testing.T) {
	r := evid.Get(id)
	evid.Finish(t, r)
	t.Cleanup(retiring.Wait)
	r.SetRule("rapid: request (limit 0..40 weighted to 0..4 and 29..32; 32-byte target = random | requester's own overlay | responder's own overlay; order list of 0..8 entries near the peers' orders incl. empty, duplicates, out-of-range values) x responder state (one of 8 fixed responder overlays; real kademlia.Kad reused for up to 32 cases, emptied and checked empty between cases, with 0..40 peers added through Outbound (connected+known) or AddPeers (known only), overlays built at a chosen proximity to the target, real address book with ip4/ip6 public, RFC1918/ULA private, loopback/link-local/CGNAT/doc/dns underlays, 10% without record) x requester (in/out of kad, connected or known, public/private/ambiguous/unknown underlay) x AllowPrivateCIDRs; real hive2 findNode handler over an in-memory stream; oracle on the decoded pb.Peers: count <= min(limit,30), requester absent, exact proximity (own bit count, capped at 31) in the requested orders, overlays distinct, strictly public requester and !allow => no RFC1918/ULA underlay; non-trivial = eligible candidates > honoured limit or public and private candidates mixed; distinct by hash of the case")

	// deterministic witnesses / hand cases
	two := []peerSpec{{PO: 3, Conn: true, Book: true, UL: pub(1)}, {PO: 3, Tail: 9, Conn: true, Book: true, UL: pub(2)}}
	hand := []kase{
		// limit 2 with three candidates, requester connected and matching
		{Target: tgt(), BaseIdx: 3, Peers: append(append([]peerSpec{}, two...), peerSpec{PO: 3, Tail: 5, Book: true, UL: pub(3)}),
			Req: peerSpec{PO: 3, Conn: true, Book: true, UL: pub(9)}, ReqInKad: true, Limit: 2, Pos: []int32{3}},
		// public requester, private candidates only
		{Target: tgt(), BaseIdx: 3, Peers: []peerSpec{{PO: 0, Conn: true, Book: true, UL: priv(1)}, {PO: 0, Tail: 1, Book: true, UL: priv(2)}},
			Req: peerSpec{PO: 1, Conn: true, Book: true, UL: pub(9)}, ReqInKad: true, Limit: 16, Pos: []int32{0, 1}},
		// limit above the cap with 40 candidates
		{Target: bases[2], BaseIdx: 2, TgtIsBase: true, Peers: many(40, 4), Req: peerSpec{PO: 4, Conn: true}, ReqInKad: true, Limit: 40, Pos: []int32{4, 5, 3}},
	}
	if os.Getenv("VERIF_C29_NOHAND") != "" { // sensitivity runs only: show that the generator alone finds a mutant
		hand = nil
	}
	for _, c := range hand {
		sig, o, err := run(c)
		if err != nil {
			t.Fatalf("%s", evid.Violation(id, sig, fmt.Sprintf("%v case=%s", err, js(c))))
		}
		record(r, c, o)
	}
	if evid.Known(sigLimitLow) {
		for _, lim := range []int32{1, 0} {
			c := kase{Target: tgt(), BaseIdx: 3, Peers: two, Req: peerSpec{PO: 7, Conn: true}, ReqInKad: true, Limit: lim, Pos: []int32{3}}
			if sig, _, err := run(c); err != nil && sig == sigLimitLow {
				r.Witness(sig)
			} else if err != nil {
				t.Fatalf("%s", evid.Violation(id, sig, fmt.Sprintf("%v case=%s", err, js(c))))
			}
		}
	}
	if evid.Known(sigPosAlias) {
		c := kase{Target: tgt(), BaseIdx: 3, Peers: two, Req: peerSpec{PO: 7, Conn: true}, ReqInKad: true, Limit: 8, Pos: []int32{256 + 3}}
		if sig, _, err := run(c); err != nil && sig == sigPosAlias {
			r.Witness(sig)
		} else if err != nil {
			t.Fatalf("%s", evid.Violation(id, sig, fmt.Sprintf("%v case=%s", err, js(c))))
		}
	}

	evid.Checks(4000)
	rapid.Check(t, func(t *rapid.T) {
		c := genCase(t)
		sig, o, err := run(c)
		if err != nil {
			t.Fatalf("%s", evid.Violation(id, sig, fmt.Sprintf("%v case=%s", err, js(c))))
		}
		record(r, c, o)
	})
}

func many(n, po int) []peerSpec {
	var ps []peerSpec
	for i := 0; i < n; i++ {
		ps = append(ps, peerSpec{PO: po + i%2, Tail: uint16(i), Conn: i%3 != 0, Book: true, UL: pub(byte(i))})
	}
	return ps
}

// js prints a case compactly: every peer as overlay-prefix:po:c(onnected)|k(nown):underlay ("-" = no address-book record).
func js(c kase) string {
	var ps []string
	for i, p := range c.Peers {
		k := "k"
		if p.Conn {
			k = "c"
		}
		u := "-"
		if p.Book {
			u = p.UL.String()
		}
		ps = append(ps, fmt.Sprintf("%x:po%d:%s:%s", overlayAt(c.Target, p.PO, i, p.Tail)[:6], p.PO, k, u))
	}
	sort.Strings(ps)
	ru := "-"
	if c.Req.Book {
		ru = c.Req.UL.String()
	}
	raw, _ := json.Marshal(c)
	return fmt.Sprintf("{target:%x responder:%x requester:%x requesterUnderlay:%s requesterIsTarget:%v requesterInKad:%v(connected:%v) limit:%d pos:%v allowPrivate:%v peers(%d):%v} json=%s",
		c.Target, c.base(), c.reqOverlay(), ru, c.ReqIsTgt, c.ReqInKad, c.Req.Conn, c.Limit, c.Pos, c.Allow, len(ps), ps, raw)
}
