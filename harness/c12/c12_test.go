package c12

import (
	"bytes"
	"fmt"
	"github.com/gauss-project/aurorafs/pkg/localstore"
	"testing"

	"pgregory.net/rapid"
	"verifharness/internal/evid"
	"verifharness/internal/nlhist"
	"verifharness/internal/nodelite"
)

const id = "C12"

// known-finding signature: uploading a file that is already (partly) in the cache leaves its
// cache entry in place, so a later GC evicts chunks that the upload stored
const sigUpOverCache = "C12/upload-over-cached-file-stays-collectable"

// known-finding signature: unpinning a locally uploaded file enters it into the cache (gc) index,
// so a later GC run deletes chunks stored by local upload
const sigUnpinUploaded = "C12/unpin-of-uploaded-file-makes-it-collectable"

var witnessMode bool

var kinds = []string{"upload", "upload", "fetch", "fetch", "fetch", "fetch", "fetch", "pin", "pin", "unpin", "read", "gc", "gc", "gc", "gc", "delete", "restart"}

type stats struct {
	evicting, sharedProtected bool
	classes                   map[string]bool
}

// run interprets the history; around every gc op it checks the three clauses of the property.
func run(c nlhist.Case) (sig string, err error, st stats) {
	st.classes = map[string]bool{}
	w, e := nlhist.NewWorld(c)
	if e != nil {
		return "C12/harness", e, st
	}
	defer w.Close()
	uploaded := map[string]bool{} // chunks stored by local upload and not deleted since
	tainted := map[string]bool{}  // chunks of files that were uploaded while cached
	unpinned := map[string]bool{} // chunks of uploaded files that were unpinned
	for i, op := range c.Ops {
		if op.K == "unpin" {
			f := w.Files[op.F%len(w.Files)]
			// "pinned" by the node's own state: chunks of a deleted earlier incarnation of the file
			// keep their pin counts, so the file can carry pins the harness model does not know of
			held := f.Pinned
			if f.Uploaded && !held {
				pc, _ := w.N.PinCounts()
				for a := range f.All {
					if pc[a] > 0 {
						held = true
					}
				}
			}
			if f.Uploaded && held {
				st.classes["unpin-of-uploaded-file"] = true
				if evid.Known(sigUnpinUploaded) && !witnessMode {
					evid.Get(id).Excluded(sigUnpinUploaded)
					continue
				}
				for a := range f.All {
					unpinned[a] = true
				}
			}
		}
		if op.K == "upload" {
			f := w.Files[op.F%len(w.Files)]
			if f.Known && !f.Uploaded {
				st.classes["upload-over-cached-file"] = true
				if evid.Known(sigUpOverCache) && !witnessMode {
					evid.Get(id).Excluded(sigUpOverCache)
					continue
				}
				for a := range f.All {
					tainted[a] = true
				}
			}
		}
		var pinsBefore map[string]uint64
		var storedBefore map[string][]byte
		if op.K == "gc" {
			w.N.DB.VerifWaitUpdateGC()
			pinsBefore, _ = w.N.PinCounts()
			storedBefore, _ = w.N.Stored()
		}
		if op.K == "gc" && op.Flag {
			// the file is read while the run is between choosing its candidates and deleting them
			// (the store's interleaving hook): the run has to skip it as in use
			mf := w.Files[op.F%len(w.Files)]
			localstore.VerifSetGCHooks(func() {
				localstore.VerifSetGCHooks(nil, nil)
				if mf.Known && !mf.Uploaded && mf.Complete() {
					w.N.DownloadHTTP(mf.Ref, mf.Name)
					st.classes["file-read-inside-collection-run"] = true
				}
				w.N.DB.VerifWaitUpdateGC()
			}, nil)
		}
		res := w.Apply(op)
		localstore.VerifSetGCHooks(nil, nil)
		if res.Skipped {
			st.classes["skipped-"+op.K] = true
			continue
		}
		if res.Err != nil && (op.K == "upload" || op.K == "fetch" || op.K == "gc" || op.K == "restart") {
			return "C12/op-failed-" + op.K, fmt.Errorf("step %d %+v failed: %v", i, op, res.Err), st
		}
		switch op.K {
		case "upload":
			for _, p := range res.Puts {
				// only chunks this upload actually stored (a put of an already cached chunk writes nothing)
				if !p.Existed {
					uploaded[p.Addr] = true
				}
			}
		case "delete":
			// the user deleted this file: its chunks stop being "stored by local upload" unless
			// another uploaded file still contains them (a chunk that survives only because a cached
			// file shares it is cache content from now on)
			df := w.Files[op.F%len(w.Files)]
			for a := range df.All {
				keep := false
				for _, g := range w.Files {
					if g.Idx != df.Idx && g.Uploaded && g.All[a] > 0 {
						keep = true
					}
				}
				if !keep {
					delete(uploaded, a)
				}
			}
			stored, _ := w.N.Stored()
			for a := range uploaded {
				if _, ok := stored[a]; !ok {
					delete(uploaded, a)
				}
			}
		case "gc":
			pinsAfter, _ := w.N.PinCounts()
			storedAfter, _ := w.N.Stored()
			if res.GC > 0 {
				st.evicting = true
				st.classes["gc-evicted"] = true
			}
			lost := 0
			for a := range storedBefore {
				if _, ok := storedAfter[a]; !ok {
					lost++
				}
			}
			if lost > 0 {
				st.classes["gc-deleted-chunks"] = true
			}
			// clause 3: no run changes any pin count
			for a, c0 := range pinsBefore {
				if pinsAfter[a] != c0 {
					return "C12/gc-changed-pin-count", fmt.Errorf("step %d gc(cap %d): pin count of %s changed %d -> %d", i, op.Arg, a, c0, pinsAfter[a]), st
				}
			}
			for a, c1 := range pinsAfter {
				if _, ok := pinsBefore[a]; !ok {
					return "C12/gc-changed-pin-count", fmt.Errorf("step %d gc: pin entry %s=%d appeared", i, a, c1), st
				}
			}
			// clause 1: no pinned chunk deleted
			for a, c0 := range pinsBefore {
				if c0 == 0 {
					continue
				}
				d, ok := storedAfter[a]
				if !ok {
					return "C12/gc-deleted-pinned-chunk", fmt.Errorf("step %d gc(cap %d): chunk %s with pin count %d was deleted", i, op.Arg, a, c0), st
				}
				if !bytes.Equal(d, storedBefore[a]) {
					return "C12/gc-altered-pinned-chunk", fmt.Errorf("step %d gc: pinned chunk %s bytes changed", i, a), st
				}
				if lost > 0 {
					st.sharedProtected = true
				}
			}
			// clause 2: no uploaded chunk deleted
			for a := range uploaded {
				if _, was := storedBefore[a]; !was {
					continue
				}
				if _, ok := storedAfter[a]; !ok {
					if unpinned[a] {
						return sigUnpinUploaded, fmt.Errorf("step %d gc(cap %d): chunk %s of an uploaded file that was pinned and unpinned was deleted", i, op.Arg, a), st
					}
					if tainted[a] {
						return sigUpOverCache, fmt.Errorf("step %d gc(cap %d): chunk %s stored by an upload over an already cached file was deleted", i, op.Arg, a), st
					}
					return "C12/gc-deleted-uploaded-chunk", fmt.Errorf("step %d gc(cap %d): chunk %s stored by local upload was deleted", i, op.Arg, a), st
				}
				if lost > 0 {
					st.sharedProtected = true
				}
			}
		}
	}
	return "", nil, st
}

// TestC12_SharingDense: the cached file repeats a chunk that an uploaded (or pinned) file also
// contains, a shape the free generator only meets now and then.
func TestC12_SharingDense(t *testing.T) {
	r := evid.Get(id)
	evid.Finish(t, r)
	evid.Checks(90)
	rapid.Check(t, func(t *rapid.T) {
		x := rapid.IntRange(0, 2).Draw(t, "x")
		y := (x + 1 + rapid.IntRange(0, 1).Draw(t, "y")) % 3
		cached := nodelite.FileSpec{Tags: []int{x, x}, Tail: rapid.SampledFrom([]int{0, 9}).Draw(t, "tail0")}
		if rapid.Bool().Draw(t, "third") {
			cached.Tags = append(cached.Tags, y)
		}
		local := nodelite.FileSpec{Tags: []int{x}, Tail: rapid.SampledFrom([]int{0, 9, 4096}).Draw(t, "tail1"), Salt: 1}
		if rapid.Bool().Draw(t, "second") {
			local.Tags = append(local.Tags, y)
		}
		// a second cached file that also contains x (a chunk with three owners)
		cached2 := nodelite.FileSpec{Tags: []int{x}, Tail: rapid.SampledFrom([]int{9, 4096}).Draw(t, "tail2"), Salt: 0}
		c := nlhist.Case{Files: []nodelite.FileSpec{cached, local, cached2}}
		opGen := rapid.Custom(func(t *rapid.T) nlhist.Op {
			k := rapid.SampledFrom([]string{"fetchA", "fetchA", "fetchC", "fetchC", "uploadB", "uploadB", "pinB", "unpinB", "readA", "gc", "gc", "restart", "deleteB", "deleteA", "deleteC", "uploadA"}).Draw(t, "k")
			switch k {
			case "uploadA":
				// re-upload of the (deleted) cached file; while it is still cached this is the listed finding's shape
				return nlhist.Op{K: "upload", F: 0}
			case "deleteA":
				return nlhist.Op{K: "delete", F: 0}
			case "deleteC":
				return nlhist.Op{K: "delete", F: 2}
			case "fetchC":
				return nlhist.Op{K: "fetch", F: 2}
			case "fetchA":
				return nlhist.Op{K: "fetch", F: 0, Arg: rapid.SampledFrom([]int{0, 0, 1, 3}).Draw(t, "mask")}
			case "uploadB":
				return nlhist.Op{K: "upload", F: 1, Flag: rapid.Bool().Draw(t, "pin")}
			case "pinB":
				return nlhist.Op{K: "pin", F: 1, Flag: rapid.Bool().Draw(t, "http")}
			case "unpinB":
				return nlhist.Op{K: "unpin", F: 1, Flag: rapid.Bool().Draw(t, "http")}
			case "readA":
				return nlhist.Op{K: "read", F: 0}
			case "restart":
				return nlhist.Op{K: "restart"}
			case "deleteB":
				return nlhist.Op{K: "delete", F: 1}
			}
			g := nlhist.Op{K: "gc", Arg: rapid.SampledFrom([]int{1, 2, 4, 6, 9}).Draw(t, "cap")}
			if rapid.Bool().Draw(t, "midread") {
				g.Flag, g.F = true, rapid.SampledFrom([]int{0, 2}).Draw(t, "midfile")
			}
			return g
		})
		// the chunk counts as "stored by local upload" only when the upload comes before the
		// downloads that share it, so that order is drawn with probability 1/2 up front
		if rapid.Bool().Draw(t, "uploadFirst") {
			c.Ops = append(c.Ops, nlhist.Op{K: "upload", F: 1})
		} else if rapid.Bool().Draw(t, "reuploadAfterDelete") {
			// a cached file that shares chunks with another cached file is deleted and then uploaded
			c.Ops = append(c.Ops, nlhist.Op{K: "fetch", F: 0}, nlhist.Op{K: "fetch", F: 2}, nlhist.Op{K: "delete", F: 0}, nlhist.Op{K: "upload", F: 0})
		}
		c.Ops = append(c.Ops, rapid.SliceOfN(opGen, 2, 12).Draw(t, "ops")...)
		c.Ops = append(c.Ops, nlhist.Op{K: "gc", Arg: 1})
		sig, err, st := run(c)
		if err != nil {
			t.Fatalf("%s", evid.Violation(id, sig, fmt.Sprintf("%v\ncase=%+v", err, c)))
		}
		cls := []string{"sharing-dense"}
		for k := range st.classes {
			cls = append(cls, k)
		}
		r.Case(evid.Hash64("dense", c), st.evicting && st.sharedProtected, cls...)
		r.Sample(c)
	})
}

// TestC12_ReadInsideRun: backbone "upload B, download A sharing a chunk with B, a collection run during
// which A is read (so the run must skip it), another run" with each step kept with probability 3/4
// and 0-2 free ops in between.
func TestC12_ReadInsideRun(t *testing.T) {
	r := evid.Get(id)
	evid.Finish(t, r)
	evid.Checks(70)
	rapid.Check(t, func(t *rapid.T) {
		x := rapid.IntRange(0, 2).Draw(t, "x")
		cached := nodelite.FileSpec{Tags: []int{x}, Tail: rapid.SampledFrom([]int{0, 9}).Draw(t, "tail0")}
		if rapid.Bool().Draw(t, "twice") {
			cached.Tags = append(cached.Tags, x)
		}
		local := nodelite.FileSpec{Tags: []int{x}, Tail: rapid.SampledFrom([]int{9, 4096}).Draw(t, "tail1"), Salt: 1}
		other := nodelite.FileSpec{Tags: []int{(x + 1) % 3}, Tail: 9, Salt: 0}
		c := nlhist.Case{Files: []nodelite.FileSpec{cached, local, other}}
		free := rapid.Custom(func(t *rapid.T) nlhist.Op {
			switch rapid.SampledFrom([]string{"fetchC", "readA", "gc", "pinB", "unpinB", "restart", "deleteC"}).Draw(t, "k") {
			case "fetchC":
				return nlhist.Op{K: "fetch", F: 2}
			case "readA":
				return nlhist.Op{K: "read", F: 0}
			case "pinB":
				return nlhist.Op{K: "pin", F: 1, Flag: true}
			case "unpinB":
				return nlhist.Op{K: "unpin", F: 1, Flag: true}
			case "restart":
				return nlhist.Op{K: "restart"}
			case "deleteC":
				return nlhist.Op{K: "delete", F: 2}
			}
			return nlhist.Op{K: "gc", Arg: rapid.SampledFrom([]int{1, 4, 9}).Draw(t, "cap")}
		})
		backbone := []nlhist.Op{{K: "upload", F: 1}, {K: "fetch", F: 0}, {K: "gc", Arg: rapid.SampledFrom([]int{1, 1, 2, 4}).Draw(t, "cap1"), Flag: true, F: 0},
			{K: "gc", Arg: 1}, {K: "gc", Arg: 1, Flag: true, F: 0}}
		for _, b := range backbone {
			c.Ops = append(c.Ops, rapid.SliceOfN(free, 0, 2).Draw(t, "gap")...)
			if rapid.IntRange(0, 3).Draw(t, "keep") != 0 {
				c.Ops = append(c.Ops, b)
			}
		}
		c.Ops = append(c.Ops, nlhist.Op{K: "gc", Arg: 1})
		sig, err, st := run(c)
		if err != nil {
			t.Fatalf("%s", evid.Violation(id, sig, fmt.Sprintf("%v\ncase=%+v", err, c)))
		}
		cls := []string{"read-inside-run-backbone"}
		for k := range st.classes {
			cls = append(cls, k)
		}
		r.Case(evid.Hash64("midread", c), st.classes["file-read-inside-collection-run"], cls...)
		r.Sample(c)
	})
}

func TestC12_GCKeepsPinnedAndUploaded(t *testing.T) {
	r := evid.Get(id)
	evid.Finish(t, r)
	r.SetRule("rapid: node-lite histories (2-4 files built from shared/repeated 256 KiB chunk templates; ops upload with/without pin header, cached download of chunk subsets from a source node via the calls retrieval makes, pin/unpin through HTTP and the pinning service, HTTP reads, delete, restart, synchronous GC runs with capacity 1-8 repeated until done, some with a read of a cached file at the run's interleaving hook between candidate selection and deletion); oracle around every GC run: pin index identical, every chunk with positive pin count still stored with identical bytes, every chunk written by a local upload (and not deleted since) still stored; non-trivial = a GC run actually deleted chunks while pinned or uploaded chunks existed; distinct by hash of the case")
	if evid.Known(sigUpOverCache) {
		wc := nlhist.Case{Files: []nodelite.FileSpec{{Tags: []int{2}, Tail: 4096}, {Tail: 9}},
			Ops: []nlhist.Op{{K: "fetch", F: 0, Arg: 6}, {K: "upload", F: 0}, {K: "gc", Arg: 1}}}
		witnessMode = true
		sg, err, _ := run(wc)
		witnessMode = false
		if err != nil && sg == sigUpOverCache {
			r.Witness(sigUpOverCache)
		}
	}
	if evid.Known(sigUnpinUploaded) {
		wc := nlhist.Case{Files: []nodelite.FileSpec{{Tags: []int{1}}, {Tail: 9}},
			Ops: []nlhist.Op{{K: "upload", F: 0, Flag: true}, {K: "unpin", F: 0}, {K: "gc", Arg: 1}}}
		witnessMode = true
		sg, err, _ := run(wc)
		witnessMode = false
		if err != nil && sg == sigUnpinUploaded {
			r.Witness(sigUnpinUploaded)
		}
	}
	evid.Checks(100)
	rapid.Check(t, func(t *rapid.T) {
		c := nlhist.Gen(t, nlhist.GenOptions{MaxFiles: 4, MaxOps: 16, Kinds: kinds})
		// every history ends with an aggressive collection run so that eviction is actually exercised
		c.Ops = append(c.Ops, nlhist.Op{K: "gc", Arg: 1})
		sig, err, st := run(c)
		if err != nil {
			t.Fatalf("%s", evid.Violation(id, sig, fmt.Sprintf("%v\ncase=%+v", err, c)))
		}
		var cls []string
		for k := range st.classes {
			cls = append(cls, k)
		}
		r.Case(evid.Hash64(c), st.evicting && st.sharedProtected, cls...)
		r.Sample(c)
	})
}
