package c16

import (
	"fmt"
	"testing"

	"github.com/gauss-project/aurorafs/pkg/boson"
	"pgregory.net/rapid"
	"verifharness/internal/evid"
	"verifharness/internal/nlhist"
	"verifharness/internal/nodelite"
)

const id = "C16"

var kinds = []string{"upload", "upload", "fetch", "fetch", "fetch", "pin", "unpin", "read", "delete", "delete", "delete", "gc", "gc", "restart"}

type stats struct {
	nt      bool
	classes map[string]bool
}

func readable(w *nlhist.World) map[int]bool {
	r := map[int]bool{}
	for _, f := range w.Files {
		if f.Known && w.CheckReadable(f) == nil {
			r[f.Idx] = true
		}
	}
	return r
}

func gcRoots(w *nlhist.World) map[string]bool {
	d, _ := w.N.Dump()
	m := map[string]bool{}
	for _, it := range d.GC {
		m[boson.NewAddress(it.Address).String()] = true
	}
	return m
}

func run(c nlhist.Case) (sig string, err error, st stats) {
	st.classes = map[string]bool{}
	w, e := nlhist.NewWorld(c)
	if e != nil {
		return "C16/harness", e, st
	}
	defer w.Close()
	for i, op := range c.Ops {
		if op.K != "delete" && op.K != "gc" {
			res := w.Apply(op)
			if !res.Skipped && res.Err != nil && (op.K == "upload" || op.K == "fetch" || op.K == "restart") {
				return "C16/op-failed-" + op.K, fmt.Errorf("step %d %+v failed: %v", i, op, res.Err), st
			}
			continue
		}
		w.N.DB.VerifWaitUpdateGC()
		before := readable(w)
		g0 := gcRoots(w)
		known0 := map[int]bool{}
		for _, f := range w.Files {
			known0[f.Idx] = f.Known
		}
		res := w.Apply(op)
		if res.Skipped {
			continue
		}
		if res.Err != nil {
			return "C16/op-failed-" + op.K, fmt.Errorf("step %d %+v failed: %v", i, op, res.Err), st
		}
		// which files were deleted by this step
		gone := map[int]bool{}
		if op.K == "delete" {
			gone[op.F%len(w.Files)] = true
		} else {
			g1 := gcRoots(w)
			for _, f := range w.Files {
				if g0[f.Ref.String()] && !g1[f.Ref.String()] {
					gone[f.Idx] = true
					// the node no longer knows an evicted file
					f.Known, f.Uploaded, f.Pinned = false, false, false
					f.Fetched = map[string]bool{}
					st.classes["file-evicted"] = true
				}
			}
		}
		if len(gone) == 0 {
			continue
		}
		// clause 1: every other stored file stays fully readable
		for _, f := range w.Files {
			if gone[f.Idx] || !before[f.Idx] {
				continue
			}
			shared := false
			for g := range gone {
				for a := range w.Files[g].All {
					if f.All[a] > 0 {
						shared = true
					}
				}
			}
			if shared {
				st.nt = true
				st.classes["survivor-shares-chunk-with-deleted"] = true
			}
			if e := w.CheckReadable(f); e != nil {
				sg := "C16/delete-broke-other-file"
				if op.K == "gc" {
					sg = "C16/eviction-broke-other-file"
				}
				return sg, fmt.Errorf("step %d %+v removed files %v; %v (shares chunks with them: %v)", i, op, keys(gone), e, shared), st
			}
		}
		// clause 2: no unpinned chunk used only by the deleted file remains stored
		stored, _ := w.N.Stored()
		pins, _ := w.N.PinCounts()
		for g := range gone {
			for a := range w.Files[g].All {
				needed := false
				for _, f := range w.Files {
					if !gone[f.Idx] && f.Known && f.All[a] > 0 {
						needed = true
					}
				}
				if needed || pins[a] > 0 {
					continue
				}
				if _, ok := stored[a]; ok {
					sg := "C16/orphan-chunk-after-delete"
					if op.K == "gc" {
						sg = "C16/orphan-chunk-after-eviction"
					}
					return sg, fmt.Errorf("step %d %+v removed file %d but its chunk %s (unpinned, used by no other known file) is still stored", i, op, g, a), st
				}
			}
		}
		if op.K == "delete" {
			st.classes["delete"] = true
		}
	}
	return "", nil, st
}

func keys(m map[int]bool) []int {
	var o []int
	for k := range m {
		o = append(o, k)
	}
	return o
}

func TestC16_DeleteKeepsOthers(t *testing.T) {
	r := evid.Get(id)
	evid.Finish(t, r)
	r.SetRule("rapid: node-lite histories over 2-4 files that share chunks, are chunk-aligned prefixes of each other or repeat chunks (uploads, partial/complete cached downloads, pins, reads, restarts) with deletions through DELETE /aurora/{ref} and evictions through synchronous GC runs; oracle at every delete/eviction: every other file that was fully readable from the local store before is still byte-identical afterwards, and every chunk of the removed file that is unpinned and belongs to no other file the node knows is gone; non-trivial = a surviving readable file shares a chunk with the removed file; distinct by hash of the case")
	evid.Checks(100)
	rapid.Check(t, func(t *rapid.T) {
		c := nlhist.Gen(t, nlhist.GenOptions{MaxFiles: 4, MaxOps: 16, Kinds: kinds, MaxBlocks: 2})
		sig, err, st := run(c)
		if err != nil {
			t.Fatalf("%s", evid.Violation(id, sig, fmt.Sprintf("%v\ncase=%+v", err, c)))
		}
		var cls []string
		for k := range st.classes {
			cls = append(cls, k)
		}
		r.Case(evid.Hash64(c), st.nt, cls...)
		r.Sample(c)
	})
}


// TestC16_SharingDense: three or four files over only two chunk templates, so that every file
// shares chunks with several others, and histories that mostly upload, download and delete: the
// reference counting behind "still needed by another file" is exercised across more than two owners.
func TestC16_SharingDense(t *testing.T) {
	r := evid.Get(id)
	evid.Finish(t, r)
	evid.Checks(150)
	rapid.Check(t, func(t *rapid.T) {
		c := nlhist.Gen(t, nlhist.GenOptions{MaxFiles: 4, MaxOps: 14, MaxBlocks: 2,
			Kinds: []string{"upload", "upload", "upload", "upload", "fetch", "delete", "delete", "delete", "delete", "gc", "restart"}})
		for len(c.Files) < 3 {
			c.Files = append(c.Files, nodelite.FileSpec{Tags: []int{0}, Tail: 9, Salt: len(c.Files)})
		}
		for i := range c.Files {
			for j := range c.Files[i].Tags {
				c.Files[i].Tags[j] %= 2
			}
			if len(c.Files[i].Tags) == 0 {
				c.Files[i].Tags = []int{i % 2}
			}
			c.Files[i].Salt = i // distinct tails: the files differ, their blocks are shared
			if c.Files[i].Tail == 0 {
				c.Files[i].Tail = 9
			}
		}
		sig, err, st := run(c)
		if err != nil {
			t.Fatalf("%s", evid.Violation(id, sig, fmt.Sprintf("%v\ncase=%+v", err, c)))
		}
		cls := []string{"sharing-dense"}
		for k := range st.classes {
			cls = append(cls, k)
		}
		r.Case(evid.Hash64("dense", c), st.nt, cls...)
		r.Sample(c)
	})
}


// TestC16_EvictionDense: like SharingDense, but with cached downloads and collection runs
// dominating, pinned uploads included, and an aggressive run at the end: eviction of a cached file
// whose chunks are shared with (deleted or live) uploaded/pinned files.
func TestC16_EvictionDense(t *testing.T) {
	r := evid.Get(id)
	evid.Finish(t, r)
	evid.Checks(100)
	rapid.Check(t, func(t *rapid.T) {
		c := nlhist.Gen(t, nlhist.GenOptions{MaxFiles: 3, MaxOps: 10, MaxBlocks: 2,
			Kinds: []string{"upload", "upload", "fetch", "fetch", "fetch", "delete", "delete", "gc", "gc", "pin", "restart"}})
		for i := range c.Files {
			for j := range c.Files[i].Tags {
				c.Files[i].Tags[j] %= 2
			}
			if len(c.Files[i].Tags) == 0 {
				c.Files[i].Tags = []int{i % 2}
			}
			c.Files[i].Salt = i
			if c.Files[i].Tail == 0 {
				c.Files[i].Tail = 9
			}
		}
		if rapid.Bool().Draw(t, "deleteFirstFileLate") {
			c.Ops = append(c.Ops, nlhist.Op{K: "fetch", F: 1}, nlhist.Op{K: "delete", F: 0})
		}
		c.Ops = append(c.Ops, nlhist.Op{K: "gc", Arg: 1})
		if rapid.Bool().Draw(t, "pinnedUploadFirst") {
			c.Ops = append([]nlhist.Op{{K: "upload", F: 0, Flag: true}}, c.Ops...)
		}
		sig, err, st := run(c)
		if err != nil {
			t.Fatalf("%s", evid.Violation(id, sig, fmt.Sprintf("%v\ncase=%+v", err, c)))
		}
		cls := []string{"eviction-dense"}
		for k := range st.classes {
			cls = append(cls, k)
		}
		r.Case(evid.Hash64("evict", c), st.nt, cls...)
		r.Sample(c)
	})
}
