// Package c27 checks property C27: route tables only hold consistent, bounded routes.
package c27

import (
	"encoding/json"
	"errors"
	"fmt"
	"io"
	"os"
	"path/filepath"
	"sort"
	"strings"
	"testing"
	"time"

	"github.com/gauss-project/aurorafs/pkg/boson"
	"github.com/gauss-project/aurorafs/pkg/logging"
	"github.com/gauss-project/aurorafs/pkg/routetab"
	"github.com/gauss-project/aurorafs/pkg/routetab/pb"
	"github.com/gauss-project/aurorafs/pkg/statestore/leveldb"
	"github.com/gauss-project/aurorafs/pkg/storage"
	"pgregory.net/rapid"
	"verifharness/internal/evid"
)

const id = "C27"

const sigReload = "C27/reload-resurrects-route-of-deleted-path"

const nodes = 6 // node universe; the table's own address is a seventh one and never part of a path

// state-store key prefixes written by the table (observed through StateStorer.Iterate)
const (
	routePrefix = "route_index_"
	pathPrefix  = "route_pathKey_"
)

type op struct {
	K     string `json:"k"`               // save | get | hop | del | age | gc | reload
	Items []int  `json:"items,omitempty"` // save: node indices (loops and duplicates allowed)
	T     int    `json:"t,omitempty"`     // target node index
	I     int    `json:"i,omitempty"`     // del/age: which of the paths Get(T) returns (modulo)
	All   bool   `json:"all,omitempty"`   // del/age: every path Get(T) returns
	Skip  int    `json:"skip,omitempty"`  // hop: bitmask of nodes in the skip list
}

type kase struct {
	Alpha int  `json:"alpha"`
	Ops   []op `json:"ops"`
}

var nodeAddr, selfAddr = func() ([]boson.Address, boson.Address) {
	var r []boson.Address
	for i := 0; i <= nodes; i++ {
		b := make([]byte, 32)
		for k := range b {
			b[k] = byte(0x21*(i+1) ^ k*7)
		}
		r = append(r, boson.NewAddress(b))
	}
	return r[:nodes], r[nodes]
}()

func nodeIndex(a boson.Address) int {
	for i, p := range nodeAddr {
		if p.Equal(a) {
			return i
		}
	}
	return -1
}

// model: the paths that were saved and neither deleted nor expired
type mpath struct {
	items []int
	aged  bool
}

func key(items []int) string { return fmt.Sprint(items) }

func itemsOf(p *routetab.Path) ([]int, bool) {
	var r []int
	for _, a := range p.Items {
		i := nodeIndex(a)
		if i < 0 {
			return nil, false
		}
		r = append(r, i)
	}
	return r, true
}

// Stores are expensive to open and slow down as versions pile up: one store serves up to
// storeReuse cases and is handed out EMPTY (all route keys deleted, emptiness verified).
var (
	shared     storage.StateStorer
	sharedUses int
)

const storeReuse = 20

func storeKeys(s storage.StateStorer, prefix string) ([]string, error) {
	var keys []string
	err := s.Iterate(prefix, func(k, _ []byte) (bool, error) {
		keys = append(keys, string(k))
		return false, nil
	})
	return keys, err
}

func freshStore() (storage.StateStorer, error) {
	sharedUses++
	if shared != nil && sharedUses%storeReuse == 0 {
		_ = shared.Close()
		shared = nil
	}
	if shared == nil {
		s, err := leveldb.NewInMemoryStateStore(logging.New(io.Discard, 0))
		if err != nil {
			return nil, err
		}
		shared = s
	}
	for _, pf := range []string{routePrefix, pathPrefix} {
		keys, err := storeKeys(shared, pf)
		if err != nil {
			return nil, err
		}
		for _, k := range keys {
			if err := shared.Delete(k); err != nil {
				return nil, err
			}
		}
		keys, err = storeKeys(shared, pf)
		if err != nil || len(keys) != 0 {
			return nil, fmt.Errorf("store not empty after cleanup: %v %v", keys, err)
		}
	}
	return shared, nil
}

type stats struct {
	effDelete, effExpire, reload, reloadAfterRemoval, eviction, loopPath, dupSave, shortPath bool
	skipUsed, hopNonEmpty, getNonEmpty, staleAtReload, alphaFull, getDup                     bool
	excluded                                                                                  int
	hopsChecked, pathsChecked                                                                int
}

type stalePair struct{ t, hop int }

type world struct {
	c      kase
	store  storage.StateStorer
	tab    *routetab.Table
	stored map[string]*mpath
	stale  map[stalePair]bool // (target, hop) pairs persisted for a path that is no longer persisted, as seen at the last reload
	st     *stats
}

type failure struct{ sig, msg string }

func failf(sig, f string, a ...interface{}) *failure { return &failure{sig, fmt.Sprintf(f, a...)} }

// backed reports whether some stored path contains target and ends in hop.
func (w *world) backed(target, hop int) bool {
	for _, p := range w.stored {
		if p.items[len(p.items)-1] != hop {
			continue
		}
		for _, x := range p.items {
			if x == target {
				return true
			}
		}
	}
	return false
}

func (w *world) checkGet(what string, target int) ([]*routetab.Path, *failure) {
	paths, err := w.tab.Get(nodeAddr[target])
	if err != nil {
		if !errors.Is(err, routetab.ErrNotFound) {
			return nil, failf("C27/unexpected-error", "%s: Get(%d) error %v", what, target, err)
		}
		if len(paths) != 0 {
			return nil, failf("C27/get", "%s: Get(%d) returned paths together with ErrNotFound", what, target)
		}
		return nil, nil
	}
	if len(paths) > w.c.Alpha {
		return nil, failf("C27/more-routes-than-alpha", "%s: Get(%d) returned %d paths, alpha=%d", what, target, len(paths), w.c.Alpha)
	}
	dup := map[string]bool{}
	for _, p := range paths {
		w.st.pathsChecked++
		it, ok := itemsOf(p)
		if dup[key(it)] {
			w.st.getDup = true // not asserted: the statement bounds the number of routes, not their distinctness
		}
		dup[key(it)] = true
		if !ok {
			return nil, failf("C27/get", "%s: Get(%d) returned a path with an unknown node: %v", what, target, p.Items)
		}
		pos := -1
		for k, x := range it {
			if x == target && k < len(it)-1 {
				pos = k
				break
			}
		}
		if pos < 0 {
			return nil, failf("C27/path-without-target-before-last-hop", "%s: Get(%d) returned path %v which does not contain the target before its last hop", what, target, it)
		}
		if _, ok := w.stored[key(it)]; !ok {
			return nil, failf("C27/deleted-or-expired-path-returned", "%s: Get(%d) returned path %v which was deleted/expired (or never saved)", what, target, it)
		}
	}
	if len(paths) > 0 {
		w.st.getNonEmpty = true
	}
	return paths, nil
}

func (w *world) checkHop(what string, target int, skipMask int) *failure {
	var skips []boson.Address
	for i := 0; i < nodes; i++ {
		if skipMask&(1<<uint(i)) != 0 {
			skips = append(skips, nodeAddr[i])
		}
	}
	hops := w.tab.GetNextHop(nodeAddr[target], skips...)
	if len(hops) > w.c.Alpha {
		return failf("C27/more-routes-than-alpha", "%s: GetNextHop(%d) returned %d hops, alpha=%d", what, target, len(hops), w.c.Alpha)
	}
	seen := map[int]bool{}
	for _, h := range hops {
		w.st.hopsChecked++
		i := nodeIndex(h)
		if i < 0 {
			return failf("C27/next-hop", "%s: GetNextHop(%d) returned an unknown node %s", what, target, h.String())
		}
		if seen[i] {
			return failf("C27/next-hop-duplicate", "%s: GetNextHop(%d) returned node %d twice", what, target, i)
		}
		seen[i] = true
		if skipMask&(1<<uint(i)) != 0 {
			return failf("C27/next-hop-in-skip-list", "%s: GetNextHop(%d, skip mask %b) returned skipped node %d", what, target, skipMask, i)
		}
		if !w.backed(target, i) {
			sig := "C27/next-hop-without-stored-path"
			if w.stale[stalePair{target, i}] {
				sig = sigReload
			}
			return failf(sig, "%s: GetNextHop(%d) offers node %d, but no stored (saved and not deleted/expired) path contains %d and ends in %d; stored paths: %v", what, target, i, target, i, w.storedList())
		}
	}
	if len(hops) > 0 {
		w.st.hopNonEmpty = true
	}
	return nil
}

func (w *world) storedList() []string {
	var r []string
	for k := range w.stored {
		r = append(r, k)
	}
	sort.Strings(r)
	return r
}

// persistedStale reads the state store: (target, hop) pairs of persisted route lists whose
// path is not persisted any more; also checks the alpha bound on the persisted lists.
func (w *world) persisted(what string) (map[stalePair]bool, *failure) {
	pk, err := storeKeys(w.store, pathPrefix)
	if err != nil {
		return nil, failf("C27/harness", "iterate: %v", err)
	}
	have := map[string]bool{}
	for _, k := range pk {
		have[strings.ToLower(strings.TrimPrefix(k, pathPrefix))] = true
	}
	stale := map[stalePair]bool{}
	for t := 0; t < nodes; t++ {
		var rs []routetab.TargetRoute
		err := w.store.Get(routePrefix+nodeAddr[t].String(), &rs)
		if err != nil {
			continue // nothing persisted for this target
		}
		if len(rs) > w.c.Alpha {
			return nil, failf("C27/more-routes-than-alpha", "%s: persisted route list of target %d has %d routes, alpha=%d", what, t, len(rs), w.c.Alpha)
		}
		if len(rs) == w.c.Alpha {
			w.st.alphaFull = true
		}
		for _, r := range rs {
			if !have[strings.ToLower(r.PathKey.String())] {
				if h := nodeIndex(r.Neighbor); h >= 0 {
					stale[stalePair{t, h}] = true
				}
			}
		}
	}
	return stale, nil
}

func (w *world) verify(what string) *failure {
	for t := 0; t < nodes; t++ {
		if _, f := w.checkGet(what, t); f != nil {
			return f
		}
		if f := w.checkHop(what, t, 0); f != nil {
			return f
		}
	}
	// the table's own address is never a target
	if hops := w.tab.GetNextHop(selfAddr); len(hops) != 0 {
		return failf("C27/next-hop-without-stored-path", "%s: GetNextHop(self) = %v although no path contains self", what, hops)
	}
	if _, f := w.persisted(what); f != nil {
		return f
	}
	return nil
}

func run(c kase, exclude bool) (st stats, sig string, err error) {
	old := routetab.NeighborAlpha
	routetab.NeighborAlpha = int32(c.Alpha)
	defer func() { routetab.NeighborAlpha = old }()
	defer func() {
		if p := recover(); p != nil {
			sig, err = "C27/panic", fmt.Errorf("panic: %v", p)
		}
	}()
	store, e := freshStore()
	if e != nil {
		return st, "C27/harness", e
	}
	w := &world{c: c, store: store, tab: routetab.VerifNewTable(selfAddr, store), stored: map[string]*mpath{}, stale: map[stalePair]bool{}, st: &st}
	removed := false
	for k, o := range c.Ops {
		what := fmt.Sprintf("op#%d %s", k, o.K)
		var f *failure
		switch o.K {
		case "save":
			what = fmt.Sprintf("op#%d save%v", k, o.Items)
			p := &pb.Path{Sign: []byte{byte(k), 1, 2}, Bodys: [][]byte{{byte(k)}, {9}}}
			seen := map[int]bool{}
			for _, i := range o.Items {
				p.Items = append(p.Items, nodeAddr[i].Bytes())
				if seen[i] {
					st.loopPath = true
				}
				seen[i] = true
			}
			w.tab.SavePath(p)
			if len(o.Items) < 2 {
				st.shortPath = true // documented: not a route, ignored
				break
			}
			if _, ok := w.stored[key(o.Items)]; ok {
				st.dupSave = true
			}
			w.stored[key(o.Items)] = &mpath{items: append([]int{}, o.Items...)}
			// classification: more stored paths than alpha offer this target
			for t := 0; t < nodes; t++ {
				n := 0
				for _, p := range w.stored {
					for q, x := range p.items {
						if x == t && q < len(p.items)-1 {
							n++
							break
						}
					}
				}
				if n > c.Alpha {
					st.eviction = true
				}
			}
		case "get":
			_, f = w.checkGet(what, o.T)
		case "hop":
			what = fmt.Sprintf("op#%d hop t=%d skip=%b", k, o.T, o.Skip)
			if o.Skip != 0 {
				st.skipUsed = true
			}
			f = w.checkHop(what, o.T, o.Skip)
		case "del", "age":
			what = fmt.Sprintf("op#%d %s t=%d i=%d all=%v", k, o.K, o.T, o.I, o.All)
			var paths []*routetab.Path
			paths, f = w.checkGet(what, o.T)
			if f != nil || len(paths) == 0 {
				break
			}
			if !o.All {
				paths = paths[o.I%len(paths) : o.I%len(paths)+1]
			}
			for _, p := range paths {
				it, _ := itemsOf(p)
				if o.K == "del" {
					w.tab.Delete(p)
					if _, ok := w.stored[key(it)]; ok {
						delete(w.stored, key(it))
						st.effDelete = true
						removed = true
					}
				} else {
					// ageing: the exported UsedTime of the live path object is moved one hour back
					p.UsedTime = time.Now().Add(-time.Hour)
					if m, ok := w.stored[key(it)]; ok {
						m.aged = true
					}
				}
			}
		case "gc":
			w.tab.Gc(30 * time.Minute)
			for kk, m := range w.stored {
				if m.aged {
					delete(w.stored, kk)
					st.effExpire = true
					removed = true
				}
			}
		case "reload":
			stale, pf := w.persisted(what)
			if pf != nil {
				f = pf
				break
			}
			if len(stale) > 0 {
				st.staleAtReload = true
				if exclude {
					// known finding: a reload in this state is the excluded shape
					st.excluded++
					break
				}
			}
			w.stale = stale
			w.tab = routetab.VerifNewTable(selfAddr, store)
			w.tab.ResumeRoutes()
			w.tab.ResumePaths()
			for _, m := range w.stored {
				m.aged = false // ageing is in-memory only; the persisted UsedTime is the save time
			}
			st.reload = true
			if removed {
				st.reloadAfterRemoval = true
			}
		}
		if f == nil {
			f = w.verify("after " + what)
		}
		if f != nil {
			return st, f.sig, fmt.Errorf("%s", f.msg)
		}
	}
	return st, "", nil
}

func genItems(t *rapid.T, prev [][]int) []int {
	if len(prev) > 0 && rapid.IntRange(0, 5).Draw(t, "resave") == 0 {
		return prev[rapid.IntRange(0, len(prev)-1).Draw(t, "which")]
	}
	maxTTL := int(routetab.MaxTTL)
	n := rapid.SampledFrom([]int{0, 1, 2, 2, 2, 3, 3, 3, 4, 4, 5, 6, maxTTL - 1, maxTTL}).Draw(t, "len")
	it := make([]int, n)
	for i := range it {
		it[i] = rapid.IntRange(0, nodes-1).Draw(t, "node")
	}
	return it
}

func genCase(t *rapid.T) kase {
	var c kase
	c.Alpha = rapid.SampledFrom([]int{1, 2, 2, 2, 3}).Draw(t, "alpha")
	n := rapid.IntRange(3, 30).Draw(t, "nops")
	var prev [][]int
	for i := 0; i < n; i++ {
		k := rapid.SampledFrom([]string{"save", "save", "save", "save", "save", "hop", "hop", "get", "del", "del", "age", "age", "age", "gc", "gc", "reload", "reload"}).Draw(t, "kind")
		o := op{K: k}
		switch k {
		case "save":
			o.Items = genItems(t, prev)
			prev = append(prev, o.Items)
		case "get":
			o.T = rapid.IntRange(0, nodes-1).Draw(t, "t")
		case "hop":
			o.T = rapid.IntRange(0, nodes-1).Draw(t, "t")
			if rapid.Bool().Draw(t, "withskip") {
				o.Skip = rapid.IntRange(1, 1<<nodes-1).Draw(t, "skip")
			}
		case "del", "age":
			o.T = rapid.IntRange(0, nodes-1).Draw(t, "t")
			o.I = rapid.IntRange(0, 3).Draw(t, "i")
			o.All = rapid.IntRange(0, 2).Draw(t, "all") == 0
		}
		c.Ops = append(c.Ops, o)
	}
	return c
}

func record(r *evid.Rec, c kase, st stats) {
	var cls []string
	add := func(b bool, s string) {
		if b {
			cls = append(cls, s)
		}
	}
	add(st.effDelete, "effective-delete")
	add(st.effExpire, "effective-expiry-by-gc")
	add(st.reload, "reload-executed")
	add(st.reloadAfterRemoval, "reload-after-delete-or-expiry")
	add(st.staleAtReload, "reload-with-persisted-route-of-unpersisted-path")
	add(st.eviction, "more-paths-than-alpha-for-a-target")
	add(st.alphaFull, "persisted-route-list-at-alpha")
	add(st.loopPath, "path-with-repeated-node")
	add(st.dupSave, "same-path-saved-again")
	add(st.shortPath, "path-shorter-than-2-ignored")
	add(st.skipUsed, "next-hop-with-skip-list")
	add(st.hopNonEmpty, "next-hop-nonempty")
	add(st.getNonEmpty, "get-nonempty")
	add(st.getDup, "get-returned-one-path-twice(not-asserted)")
	cls = append(cls, fmt.Sprintf("alpha-%d", c.Alpha))
	for k := 0; k < st.excluded; k++ {
		r.Excluded(sigReload)
	}
	r.Case(evid.Hash64(c), st.effDelete || st.effExpire, cls...)
	r.ClassN("next-hops-checked", st.hopsChecked)
	r.ClassN("returned-paths-checked", st.pathsChecked)
	r.Sample(c)
}

func saveReplay(name string, v interface{}) {
	dir := os.Getenv("VERIF_REPLAY_OUT")
	if dir == "" {
		return
	}
	b, _ := json.MarshalIndent(v, "", " ")
	_ = os.MkdirAll(dir, 0o755)
	_ = os.WriteFile(filepath.Join(dir, name), b, 0o644)
}

const rule = "rapid: alpha in {1,2,3} x 3..30 ops on the real route table (constructor hook) over an in-memory leveldb state store: SavePath(random item list over a 6-node universe, length 0..MaxTTL as callers enforce, loops/duplicates, re-saves; never contains the table's own address), Delete / age (UsedTime := now-1h through the exported field) of paths obtained from Get, Gc(30 min), GetNextHop(target, skip mask), reload = new table on the same store + ResumeRoutes + ResumePaths. After every op, for every target: Get (<= alpha paths, target before last hop, path is in the model set of saved-and-not-deleted/expired paths), GetNextHop (<= alpha, distinct, not skipped, each the last item of a model path containing the target), persisted route lists <= alpha. non-trivial = a delete or expiry that removed a stored path (every later op queries all targets); distinct by hash of the case"

func TestC27_Model(t *testing.T) {
	r := evid.Get(id)
	evid.Finish(t, r)
	r.SetRule(rule)

	if rf := os.Getenv("VERIF_REPLAY_FILE"); rf != "" {
		var c kase
		b, err := os.ReadFile(rf)
		if err != nil || json.Unmarshal(b, &c) != nil || len(c.Ops) == 0 || c.Alpha < 1 {
			t.Skip("not a C27 replay")
		}
		st, sig, rerr := run(c, false)
		if rerr != nil {
			t.Fatalf("%s", evid.Violation(id, sig, fmt.Sprintf("%v case=%+v", rerr, c)))
		}
		record(r, c, st)
		return
	}

	if evid.Known(sigReload) {
		// witness: save [0 1], delete it, reload, ask for the next hop towards 0
		c := kase{Alpha: 2, Ops: []op{{K: "save", Items: []int{0, 1}}, {K: "del", T: 0}, {K: "reload"}}}
		if _, sig, err := run(c, false); err != nil && sig == sigReload {
			r.Witness(sig)
		}
	}

	evid.Checks(1500)
	rapid.Check(t, func(t *rapid.T) {
		c := genCase(t)
		st, sig, err := run(c, evid.Known(sigReload))
		if err != nil {
			saveReplay("c27-model.json", c)
			t.Fatalf("%s", evid.Violation(id, sig, fmt.Sprintf("%v case=%+v", err, c)))
		}
		record(r, c, st)
	})
}
