package c20

import (
	"bytes"
	"encoding/hex"
	"fmt"
	"testing"

	"github.com/gauss-project/aurorafs/pkg/boson"
	"pgregory.net/rapid"
	"verifharness/internal/evid"
	"verifharness/internal/ref"
)

const id = "C20"

func capInt(v, c int) int {
	if v > c {
		return c
	}
	return v
}

func checkPair(a, b []byte) error {
	lz := ref.LeadingEqualBits(a, b)
	if lz == 8*len(a) {
		// identical addresses: the documented convention is "self = maximum order",
		// also for addresses shorter than the inspected prefix
		lz = 1 << 20
	}
	if got, want := int(boson.Proximity(a, b)), capInt(lz, int(boson.MaxPO)); got != want {
		return fmt.Errorf("Proximity(%x,%x)=%d want %d", a, b, got, want)
	}
	if got, want := int(boson.Proximity(b, a)), capInt(lz, int(boson.MaxPO)); got != want {
		return fmt.Errorf("Proximity not symmetric (%x,%x)=%d want %d", b, a, got, want)
	}
	if got, want := int(boson.ExtendedProximity(a, b)), capInt(lz, int(boson.ExtendedPO)); got != want {
		return fmt.Errorf("ExtendedProximity(%x,%x)=%d want %d", a, b, got, want)
	}
	if got, want := int(boson.ExtendedProximity(b, a)), capInt(lz, int(boson.ExtendedPO)); got != want {
		return fmt.Errorf("ExtendedProximity not symmetric (%x,%x)=%d want %d", b, a, got, want)
	}
	return nil
}

func checkTriple(a, x, y []byte) error {
	want := ref.XorCmp(a, x, y)
	got, err := boson.DistanceCmp(a, x, y)
	if err != nil {
		return fmt.Errorf("DistanceCmp error on equal lengths: %v", err)
	}
	if got != want {
		return fmt.Errorf("DistanceCmp(%x;%x,%x)=%d want %d", a, x, y, got, want)
	}
	if len(a) == 32 {
		ax, xx, yy := boson.NewAddress(a), boson.NewAddress(x), boson.NewAddress(y)
		closer, err := xx.Closer(ax, yy)
		if err != nil {
			return fmt.Errorf("Closer error: %v", err)
		}
		if closer != (want == 1) {
			return fmt.Errorf("Closer(%x;%x,%x)=%v want %v", a, x, y, closer, want == 1)
		}
		d, err := boson.Distance(a, x)
		if err != nil || d.Cmp(ref.XorDist(a, x)) != 0 {
			return fmt.Errorf("Distance(%x,%x)=%v err %v", a, x, d, err)
		}
	}
	return nil
}

// Exhaustive: for every first-difference bit position 0..47 (beyond both caps), for address lengths
// 32 and the short lengths 1..7, with all-equal tail and with noisy tail.
func TestC20_ExhaustiveFirstDifference(t *testing.T) {
	r := evid.Get(id)
	evid.Finish(t, r)
	r.SetRule("exhaustive sweep: first differing bit position p in 0..47 (and 'none') x address length in {1..7,32} x tail in {zero, all-ones, alternating}; plus rapid random pairs/triples of equal-length addresses with generated shared prefix length; non-trivial = the pair differs within the bytes the functions inspect (first 5 bytes) / the triple has two distinct distances")
	for _, ln := range []int{1, 2, 3, 4, 5, 6, 7, 32} {
		for p := 0; p <= ln*8 && p <= 48; p++ {
			for tail := 0; tail < 3; tail++ {
				a := make([]byte, ln)
				b := make([]byte, ln)
				for i := range a {
					a[i] = byte(0x5a + i)
					b[i] = a[i]
				}
				if p < ln*8 {
					b[p/8] ^= 0x80 >> uint(p%8)
					for q := p + 1; q < ln*8; q++ {
						switch tail {
						case 1:
							b[q/8] ^= 0x80 >> uint(q%8)
						case 2:
							if q%2 == 0 {
								b[q/8] ^= 0x80 >> uint(q%8)
							}
						}
					}
				}
				if err := checkPair(a, b); err != nil {
					sig := "C20/generic"
					if p >= 37 && p <= 39 {
						sig = "C20/extended-proximity-above-cap"
					}
					t.Fatalf("%s", evid.Violation(id, sig, err.Error()))
				}
				r.Case(evid.Hash64(a, b), p < 40 && p < ln*8, fmt.Sprintf("len%d", ln))
				if p%13 == 0 && tail == 0 {
					r.Sample(map[string]interface{}{"a": hex.EncodeToString(a), "b": hex.EncodeToString(b), "first_diff_bit": p})
				}
			}
		}
	}
	r.Exhaustive()
}

func genAddrWithPrefix(t *rapid.T, base []byte, label string) []byte {
	n := len(base)
	shared := rapid.IntRange(0, n*8).Draw(t, label+"_sharedbits")
	rest := rapid.SliceOfN(rapid.Byte(), n, n).Draw(t, label+"_rest")
	out := make([]byte, n)
	for i := 0; i < n*8; i++ {
		var bit byte
		if i < shared {
			bit = (base[i/8] >> uint(7-i%8)) & 1
		} else if i == shared {
			bit = ((base[i/8] >> uint(7-i%8)) & 1) ^ 1
		} else {
			bit = (rest[i/8] >> uint(7-i%8)) & 1
		}
		out[i/8] |= bit << uint(7-i%8)
	}
	return out
}

func TestC20_RandomPairsTriples(t *testing.T) {
	r := evid.Get(id)
	evid.Finish(t, r)
	evid.Checks(20000)
	rapid.Check(t, func(t *rapid.T) {
		n := rapid.SampledFrom([]int{32, 32, 32, 32, 1, 4, 5, 8, 20}).Draw(t, "len")
		a := rapid.SliceOfN(rapid.Byte(), n, n).Draw(t, "a")
		x := genAddrWithPrefix(t, a, "x")
		var y []byte
		if rapid.Bool().Draw(t, "y_near_x") {
			y = genAddrWithPrefix(t, x, "y")
		} else {
			y = genAddrWithPrefix(t, a, "y")
		}
		if err := checkPair(a, x); err != nil {
			t.Fatalf("%s", evid.Violation(id, "C20/generic", err.Error()))
		}
		if err := checkPair(x, y); err != nil {
			t.Fatalf("%s", evid.Violation(id, "C20/generic", err.Error()))
		}
		if err := checkTriple(a, x, y); err != nil {
			t.Fatalf("%s", evid.Violation(id, "C20/distance", err.Error()))
		}
		nt := ref.LeadingEqualBits(a, x) < 40 && !bytes.Equal(x, y)
		r.Case(evid.Hash64(a, x, y), nt, "random")
		r.Sample(map[string]interface{}{"a": hex.EncodeToString(a), "x": hex.EncodeToString(x), "y": hex.EncodeToString(y)})
	})
}
