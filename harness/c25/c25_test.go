// Package c25 checks property C25: blocklisting never shortens a block.
package c25

import (
	"encoding/json"
	"fmt"
	"io"
	"math"
	"os"
	"path/filepath"
	"sort"
	"testing"
	"time"

	"github.com/gauss-project/aurorafs/pkg/boson"
	"github.com/gauss-project/aurorafs/pkg/logging"
	"github.com/gauss-project/aurorafs/pkg/p2p/libp2p/verifx"
	"github.com/gauss-project/aurorafs/pkg/statestore/leveldb"
	"github.com/gauss-project/aurorafs/pkg/storage"
	"pgregory.net/rapid"
	"verifharness/internal/evid"
)

const id = "C25"

const npeers = 3

const (
	ns = int64(1)
	s1 = int64(time.Second)
	h1 = int64(time.Hour)
)

// fixed durations of DESIGN plus a few more; 0 = forever
var fixedDur = []int64{0, 1, 1, s1, s1, 5 * s1, 5 * s1, h1, 1500 * int64(time.Millisecond), 59*int64(time.Minute) + 59*s1 + 999999999}

// probe offsets (relative to "now") used for side-effect free look-ahead through Peers()
var probeOff = []int64{0, 1, s1 - 1, s1, s1 + 1, 5*s1 - 1, 5 * s1, 5*s1 + 1, h1 - 1, h1, h1 + 1, 2 * h1, 1000 * h1}

type op struct {
	K   string `json:"k"`             // add | rem | exists | peers | agree | adv | advto
	P   int    `json:"p,omitempty"`   // peer index
	D   int64  `json:"d,omitempty"`   // add: duration in ns (0 = forever); adv: delta in ns
	I   int    `json:"i,omitempty"`   // advto: which boundary of peer P (modulo the number of candidates)
	Eps int64  `json:"eps,omitempty"` // advto: -1, 0, +1 ns around the boundary
}

type kase struct {
	Ops []op `json:"ops"`
	// Lead holds the first two bytes of each peer's overlay address (empty: the fixed pool). The
	// listing parses addresses back out of store keys, so the address itself is an input.
	Lead [][2]byte `json:"lead,omitempty"`
}

type addRec struct {
	t, d int64
}

// model of one peer since its last Remove
type pmodel struct {
	adds []addRec
}

// mustTrue: now lies inside a requested period [t, t+d] (d == 0: [t, inf)).
func (m *pmodel) mustTrue(now int64) bool {
	for _, a := range m.adds {
		if a.d == 0 || (now >= a.t && now-a.t <= a.d) {
			return true
		}
	}
	return false
}

// mustFalse: never added since the last removal, or now is beyond latest request + longest duration.
func (m *pmodel) mustFalse(now int64) bool {
	if len(m.adds) == 0 {
		return true
	}
	var maxd int64
	for _, a := range m.adds {
		if a.d == 0 {
			return false
		}
		if a.d > maxd {
			maxd = a.d
		}
	}
	last := m.adds[len(m.adds)-1].t
	return now-last > maxd
}

func (m *pmodel) boundaries() []int64 {
	var r []int64
	var maxd int64
	for _, a := range m.adds {
		if a.d == 0 {
			continue
		}
		r = append(r, a.t+a.d)
		if a.d > maxd {
			maxd = a.d
		}
	}
	if len(m.adds) > 0 && maxd > 0 {
		r = append(r, m.adds[len(m.adds)-1].t+maxd)
	}
	return r
}

type stats struct {
	multiDur, zeroDur, zeroThenFinite, finiteThenZero, shorterAfterLonger, longerAfterShorter bool
	staleReAdd, removeBlocked, removeAbsent, boundaryExact, boundaryPlus1, boundaryMinus1    bool
	unspecified, expiredSeen, agree, advtoNoop                                              bool
	probes                                                                                  int
}

var t0 = time.Date(2024, 3, 1, 12, 0, 0, 0, time.UTC)

var peerAddr = addrsOf(kase{})

func addrsOf(c kase) []boson.Address {
	var r []boson.Address
	for i := 0; i < npeers; i++ {
		b := make([]byte, 32)
		for k := range b {
			b[k] = byte(0x11*(i+1) + k)
		}
		if i < len(c.Lead) {
			b[0], b[1], b[2] = c.Lead[i][0], c.Lead[i][1], byte(i) // byte 2 keeps the peers distinct
		}
		r = append(r, boson.NewAddress(b))
	}
	return r
}

func peerIndex(a boson.Address) int {
	for i, p := range peerAddr {
		if p.Equal(a) {
			return i
		}
	}
	return -1
}

// Opening an in-memory leveldb costs several ms (it zeroes a large write buffer), so one store
// serves all cases of a process. freshStore returns it EMPTY: every key left by the previous
// case is deleted and emptiness is verified, so no state is carried between cases.
// The memtable keeps every overwritten / deleted version, which slows iteration down, so
// the store is replaced by a new one every storeReuse cases.
var (
	shared     storage.StateStorer
	sharedUses int
)

const storeReuse = 20

func freshStore() (storage.StateStorer, error) {
	sharedUses++
	if shared != nil && sharedUses%storeReuse == 0 {
		_ = shared.Close()
		shared = nil
	}
	if shared == nil {
		s, err := leveldb.NewInMemoryStateStore(logging.New(io.Discard, 0))
		if err != nil {
			return nil, err
		}
		shared = s
	}
	var keys []string
	if err := shared.Iterate("blocklist-", func(k, _ []byte) (bool, error) {
		keys = append(keys, string(k))
		return false, nil
	}); err != nil {
		return nil, err
	}
	for _, k := range keys {
		if err := shared.Delete(k); err != nil {
			return nil, err
		}
	}
	n := 0
	if err := shared.Iterate("blocklist-", func(k, _ []byte) (bool, error) { n++; return false, nil }); err != nil {
		return nil, err
	}
	if n != 0 {
		return nil, fmt.Errorf("store not empty after cleanup (%d keys)", n)
	}
	return shared, nil
}

type failure struct{ sig, msg string }

func failf(sig, f string, a ...interface{}) *failure {
	return &failure{sig, fmt.Sprintf(f, a...)}
}

func run(c kase) (st stats, sig string, err error) {
	now := int64(0)
	old := verifx.SetBlocklistTimeNow(func() time.Time { return t0.Add(time.Duration(now)) })
	defer verifx.SetBlocklistTimeNow(old)
	defer func() {
		if p := recover(); p != nil {
			sig, err = "C25/panic", fmt.Errorf("panic: %v", p)
		}
	}()
	store, e := freshStore()
	if e != nil {
		return st, "C25/harness", fmt.Errorf("state store: %v", e)
	}
	peerAddr = addrsOf(c)
	bl := verifx.NewBlocklist(store)
	model := make([]pmodel, npeers)

	// listed returns the set of peers Peers() reports at clock time `at` (no side effects:
	// Peers only reads). The clock is restored afterwards.
	listed := func(at int64) ([]bool, *failure) {
		saved := now
		now = at
		defer func() { now = saved }()
		ps, e := bl.Peers()
		if e != nil {
			return nil, failf("C25/unexpected-error", "Peers() error on a healthy store: %v", e)
		}
		r := make([]bool, npeers)
		for _, p := range ps {
			i := peerIndex(p.Address)
			if i < 0 {
				return nil, failf("C25/peers", "Peers() lists an address that was never added: %s", p.Address.String())
			}
			if r[i] {
				return nil, failf("C25/peers", "Peers() lists peer %d twice", i)
			}
			r[i] = true
		}
		return r, nil
	}
	checkBounds := func(what string, p int, blocked bool, at int64) *failure {
		m := &model[p]
		switch {
		case m.mustTrue(at):
			if !blocked {
				return failf("C25/unblocked-inside-requested-period", "%s: peer %d not blocked at t=%s although inside a requested period; adds since last removal (t,d)=%v", what, p, time.Duration(at), fmtAdds(m.adds))
			}
		case m.mustFalse(at):
			if blocked {
				if len(m.adds) == 0 {
					return failf("C25/blocked-after-remove", "%s: peer %d blocked at t=%s although removed / never added", what, p, time.Duration(at))
				}
				return failf("C25/blocked-beyond-bound", "%s: peer %d blocked at t=%s, beyond latest request + longest duration; adds (t,d)=%v", what, p, time.Duration(at), fmtAdds(m.adds))
			}
		default:
			st.unspecified = true
		}
		return nil
	}

	for k, o := range c.Ops {
		what := fmt.Sprintf("op#%d %s p=%d d=%s", k, o.K, o.P, time.Duration(o.D))
		switch o.K {
		case "add":
			m := &model[o.P]
			// look-ahead before
			before := make([]bool, len(probeOff))
			for q, off := range probeOff {
				l, f := listed(now + off)
				if f != nil {
					return st, f.sig, fmt.Errorf("%s: %s", what, f.msg)
				}
				before[q] = l[o.P]
				st.probes++
			}
			// classification
			if len(m.adds) > 0 {
				lastd := m.adds[len(m.adds)-1].d
				switch {
				case lastd == 0 && o.D != 0:
					st.zeroThenFinite = true
				case lastd != 0 && o.D == 0:
					st.finiteThenZero = true
				case o.D < lastd:
					st.shorterAfterLonger = true
				case o.D > lastd:
					st.longerAfterShorter = true
				}
				if lastd != o.D {
					st.multiDur = true
				}
				if m.mustFalse(now) {
					st.staleReAdd = true
				}
			}
			if o.D == 0 {
				st.zeroDur = true
			}
			if e := bl.Add(peerAddr[o.P], time.Duration(o.D)); e != nil {
				return st, "C25/unexpected-error", fmt.Errorf("%s: Add error on a healthy store: %v", what, e)
			}
			m.adds = append(m.adds, addRec{now, o.D})
			// look-ahead after: never shortened; inside the new period; forever for zero
			for q, off := range probeOff {
				l, f := listed(now + off)
				if f != nil {
					return st, f.sig, fmt.Errorf("%s: %s", what, f.msg)
				}
				st.probes++
				if before[q] && !l[o.P] {
					return st, "C25/add-shortened-block", fmt.Errorf("%s at t=%s: peer was blocked at t+%s before the Add and is not after it; adds (t,d)=%v", what, time.Duration(now), time.Duration(off), fmtAdds(m.adds))
				}
				if f := checkBounds(what+" look-ahead +"+time.Duration(off).String(), o.P, l[o.P], now+off); f != nil {
					if o.D == 0 && f.sig == "C25/unblocked-inside-requested-period" {
						f.sig = "C25/zero-duration-not-forever"
					}
					return st, f.sig, fmt.Errorf("%s", f.msg)
				}
			}
			// exact end of the new period
			if o.D > 0 {
				for _, eps := range []int64{-1, 0} {
					l, f := listed(now + o.D + eps)
					if f != nil {
						return st, f.sig, fmt.Errorf("%s: %s", what, f.msg)
					}
					st.probes++
					if f := checkBounds(what+" look-ahead end"+fmt.Sprint(eps), o.P, l[o.P], now+o.D+eps); f != nil {
						return st, f.sig, fmt.Errorf("%s", f.msg)
					}
				}
			}
		case "rem":
			m := &model[o.P]
			if len(m.adds) == 0 {
				st.removeAbsent = true
			} else if !m.mustFalse(now) {
				st.removeBlocked = true
			}
			if e := bl.Remove(peerAddr[o.P]); e != nil {
				return st, "C25/unexpected-error", fmt.Errorf("%s: Remove error on a healthy store: %v", what, e)
			}
			m.adds = nil
			// unblocked as soon as it is removed: now and at every later time
			for _, off := range []int64{0, 1, s1, h1} {
				l, f := listed(now + off)
				if f != nil {
					return st, f.sig, fmt.Errorf("%s: %s", what, f.msg)
				}
				st.probes++
				if l[o.P] {
					return st, "C25/blocked-after-remove", fmt.Errorf("%s: peer %d still listed at t+%s after Remove", what, o.P, time.Duration(off))
				}
			}
			got, e := bl.Exists(peerAddr[o.P])
			if e != nil {
				return st, "C25/unexpected-error", fmt.Errorf("%s: Exists error: %v", what, e)
			}
			if got {
				return st, "C25/blocked-after-remove", fmt.Errorf("%s: Exists(peer %d)=true right after Remove", what, o.P)
			}
		case "exists":
			got, e := bl.Exists(peerAddr[o.P])
			if e != nil {
				return st, "C25/unexpected-error", fmt.Errorf("%s: Exists error on a healthy store: %v", what, e)
			}
			if !got && len(model[o.P].adds) > 0 {
				st.expiredSeen = true
			}
			if f := checkBounds(what+" Exists", o.P, got, now); f != nil {
				return st, f.sig, fmt.Errorf("%s", f.msg)
			}
		case "peers":
			l, f := listed(now)
			if f != nil {
				return st, f.sig, fmt.Errorf("%s: %s", what, f.msg)
			}
			for p := 0; p < npeers; p++ {
				if f := checkBounds(what+" Peers", p, l[p], now); f != nil {
					return st, f.sig, fmt.Errorf("%s", f.msg)
				}
			}
		case "agree":
			// the listing agrees with the per-peer answer (listing first: Exists deletes lazily)
			st.agree = true
			l, f := listed(now)
			if f != nil {
				return st, f.sig, fmt.Errorf("%s: %s", what, f.msg)
			}
			for p := 0; p < npeers; p++ {
				got, e := bl.Exists(peerAddr[p])
				if e != nil {
					return st, "C25/unexpected-error", fmt.Errorf("%s: Exists error on a healthy store: %v", what, e)
				}
				if got != l[p] {
					return st, "C25/peers-disagree-with-exists", fmt.Errorf("%s at t=%s: Peers() lists peer %d = %v but Exists = %v; adds (t,d)=%v", what, time.Duration(now), p, l[p], got, fmtAdds(model[p].adds))
				}
				if !got && len(model[p].adds) > 0 {
					st.expiredSeen = true
				}
				if f := checkBounds(what+" Exists", p, got, now); f != nil {
					return st, f.sig, fmt.Errorf("%s", f.msg)
				}
			}
			// and once more after the lazy deletions
			l2, f := listed(now)
			if f != nil {
				return st, f.sig, fmt.Errorf("%s: %s", what, f.msg)
			}
			for p := 0; p < npeers; p++ {
				if l2[p] != l[p] {
					return st, "C25/peers-disagree-with-exists", fmt.Errorf("%s: Peers() changed from %v to %v across Exists calls at one clock time", what, l, l2)
				}
			}
		case "adv":
			now += o.D
		case "advto":
			cands := model[o.P].boundaries()
			if len(cands) == 0 {
				st.advtoNoop = true
				break
			}
			sort.Slice(cands, func(a, b int) bool { return cands[a] < cands[b] })
			target := cands[o.I%len(cands)] + o.Eps
			if target < now {
				st.advtoNoop = true
				break
			}
			now = target
			switch o.Eps {
			case 0:
				st.boundaryExact = true
			case 1:
				st.boundaryPlus1 = true
			case -1:
				st.boundaryMinus1 = true
			}
		}
		if now < 0 || now > math.MaxInt64/4 {
			return st, "C25/harness", fmt.Errorf("clock out of range")
		}
	}
	return st, "", nil
}

func fmtAdds(a []addRec) string {
	s := "["
	for i, x := range a {
		if i > 0 {
			s += " "
		}
		s += fmt.Sprintf("(%s,%s)", time.Duration(x.t), time.Duration(x.d))
	}
	return s + "]"
}

func genDur(t *rapid.T) int64 {
	switch rapid.IntRange(0, 9).Draw(t, "durkind") {
	case 0:
		return rapid.Int64Range(1, 10*s1).Draw(t, "dsmall")
	case 1:
		return rapid.Int64Range(1, 3*h1).Draw(t, "dany")
	default:
		return rapid.SampledFrom(fixedDur).Draw(t, "dfixed")
	}
}

func genCase(t *rapid.T) kase {
	var c kase
	n := rapid.IntRange(2, 30).Draw(t, "nops")
	var used []int64
	for i := 0; i < n; i++ {
		k := rapid.SampledFrom([]string{"add", "add", "add", "add", "rem", "exists", "exists", "peers", "agree", "adv", "adv", "advto", "advto", "advto"}).Draw(t, "kind")
		o := op{K: k}
		switch k {
		case "add":
			// a hot peer so that several adds meet on one peer
			o.P = rapid.SampledFrom([]int{0, 0, 0, 1, 1, 2}).Draw(t, "p")
			o.D = genDur(t)
			if o.D > 0 {
				used = append(used, o.D)
			}
		case "rem", "exists":
			o.P = rapid.SampledFrom([]int{0, 0, 0, 1, 1, 2}).Draw(t, "p")
		case "adv":
			base := rapid.SampledFrom([]int64{0, 1, s1, 5 * s1, h1}).Draw(t, "advbase")
			if len(used) > 0 && rapid.Bool().Draw(t, "advused") {
				base = used[rapid.IntRange(0, len(used)-1).Draw(t, "advi")]
			}
			o.D = base + rapid.SampledFrom([]int64{-1, 0, 0, 1}).Draw(t, "adveps")
			if o.D < 0 {
				o.D = 0
			}
		case "advto":
			o.P = rapid.SampledFrom([]int{0, 0, 0, 1, 1, 2}).Draw(t, "p")
			o.I = rapid.IntRange(0, 7).Draw(t, "i")
			o.Eps = rapid.SampledFrom([]int64{-1, 0, 1, 1}).Draw(t, "eps")
		}
		c.Ops = append(c.Ops, o)
	}
	// peer addresses: any leading bytes (every hex digit in the first positions now and then)
	leadGen := rapid.Custom(func(t *rapid.T) [2]byte {
		if rapid.Bool().Draw(t, "anylead") {
			return [2]byte{rapid.Byte().Draw(t, "l0"), rapid.Byte().Draw(t, "l1")}
		}
		nib := func(l string) byte { return byte(rapid.IntRange(0, 15).Draw(t, l)) }
		x, y := nib("n0"), nib("n1")
		return [2]byte{x<<4 | x, x<<4 | y}
	})
	c.Lead = rapid.SliceOfN(leadGen, npeers, npeers).Draw(t, "lead")
	// always end with a full agreement check
	c.Ops = append(c.Ops, op{K: "agree"})
	return c
}

func record(r *evid.Rec, c kase, st stats) {
	var cls []string
	add := func(b bool, s string) {
		if b {
			cls = append(cls, s)
		}
	}
	add(st.multiDur, "two-adds-different-durations-one-peer")
	add(st.zeroDur, "zero-duration-add")
	add(st.zeroThenFinite, "finite-add-after-forever")
	add(st.finiteThenZero, "forever-add-after-finite")
	add(st.shorterAfterLonger, "shorter-add-after-longer")
	add(st.longerAfterShorter, "longer-add-after-shorter")
	add(st.staleReAdd, "add-on-expired-unqueried-entry")
	add(st.removeBlocked, "remove-while-blocked")
	add(st.removeAbsent, "remove-absent")
	add(st.boundaryExact, "clock-at-exact-period-end")
	add(st.boundaryPlus1, "clock-1ns-after-period-end")
	add(st.boundaryMinus1, "clock-1ns-before-period-end")
	add(st.unspecified, "query-in-unspecified-gap(not-asserted)")
	add(st.expiredSeen, "expiry-observed-by-exists")
	add(st.agree, "peers-vs-exists-agreement")
	add(st.advtoNoop, "advance-to-boundary-noop")
	r.Case(evid.Hash64(c), st.multiDur, cls...)
	r.ClassN("look-ahead-probes", st.probes)
	r.Sample(c)
}

func saveReplay(name string, v interface{}) {
	dir := os.Getenv("VERIF_REPLAY_OUT")
	if dir == "" {
		return
	}
	b, _ := json.MarshalIndent(v, "", " ")
	_ = os.MkdirAll(dir, 0o755)
	_ = os.WriteFile(filepath.Join(dir, name), b, 0o644)
}

const rule = "rapid: op lists (2..30) over 3 peers (one hot; the two leading bytes of each overlay address are generated, uniform or with repeated hex digits) on the real blocklist over an in-memory leveldb state store with the package clock replaced: Add(d in {0=forever,1ns,1s,1.5s,5s,1h-1ns,1h} or uniform 1ns..10s / 1ns..3h; no negative durations), Remove, Exists, Peers, Peers-then-Exists agreement, AdvanceClock(delta in {0,1ns,1s,5s,1h, a used duration} -1/0/+1ns) and AdvanceTo(a requested-period end or latest+longest bound of a peer, -1/0/+1ns). Oracle: interval model per peer since last Remove (blocked inside every requested period [t,t+d], d=0 forever; unblocked after Remove and beyond latest request + longest duration; the gap between is not asserted); around every Add a side-effect-free look-ahead through Peers() at 13 future offsets checks that no instant blocked before the Add is unblocked after it. non-trivial = at least two Adds with different durations on one peer between removals; distinct by hash of the op list"

func TestC25_Model(t *testing.T) {
	r := evid.Get(id)
	evid.Finish(t, r)
	r.SetRule(rule)

	if rf := os.Getenv("VERIF_REPLAY_FILE"); rf != "" {
		var c kase
		b, err := os.ReadFile(rf)
		if err != nil || json.Unmarshal(b, &c) != nil || len(c.Ops) == 0 {
			t.Skip("not a C25 replay")
		}
		st, sig, rerr := run(c)
		if rerr != nil {
			t.Fatalf("%s", evid.Violation(id, sig, fmt.Sprintf("%v case=%+v", rerr, c)))
		}
		record(r, c, st)
		return
	}

	// deterministic sweep: every ordered pair of durations on one peer, queried around both ends
	durs := []int64{0, 1, s1, 5 * s1, h1}
	for _, d1 := range durs {
		for _, d2 := range durs {
			for _, gap := range []int64{0, 1, s1 - 1, s1, s1 + 1, 6 * s1, h1 + 1} {
				for _, query := range []bool{false, true} {
					c := kase{}
					c.Ops = append(c.Ops, op{K: "add", P: 0, D: d1}, op{K: "adv", D: gap})
					if query {
						c.Ops = append(c.Ops, op{K: "exists", P: 0})
					}
					c.Ops = append(c.Ops, op{K: "add", P: 0, D: d2})
					for i := 0; i < 3; i++ {
						for _, eps := range []int64{-1, 0, 1} {
							c.Ops = append(c.Ops, op{K: "advto", P: 0, I: i, Eps: eps}, op{K: "agree"})
						}
					}
					c.Ops = append(c.Ops, op{K: "rem", P: 0}, op{K: "agree"})
					st, sig, err := run(c)
					if err != nil {
						saveReplay("c25-sweep.json", c)
						t.Fatalf("%s", evid.Violation(id, sig, fmt.Sprintf("%v case=%+v", err, c)))
					}
					record(r, c, st)
				}
			}
		}
	}

	evid.Checks(2000)
	rapid.Check(t, func(t *rapid.T) {
		c := genCase(t)
		st, sig, err := run(c)
		if err != nil {
			saveReplay("c25-model.json", c)
			t.Fatalf("%s", evid.Violation(id, sig, fmt.Sprintf("%v case=%+v", err, c)))
		}
		record(r, c, st)
	})
}
