package c30

import (
	"context"
	"encoding/json"
	"fmt"
	"math/big"
	"os"
	"path/filepath"
	"sync"
	"testing"
	"time"

	"github.com/ethereum/go-ethereum/common"
	"github.com/gauss-project/aurorafs/pkg/boson"
	chequePkg "github.com/gauss-project/aurorafs/pkg/settlement/traffic/cheque"
	"pgregory.net/rapid"
	"verifharness/internal/evid"
	"verifharness/internal/trafx"
)

const id = "C30"

// Signatures of failures.
const (
	sigForeign       = "C30/foreign-issuer-cheque-accepted" // from a registered peer, issuer is not that peer's chain address
	sigUnregistered  = "C30/unregistered-peer-accepted"
	sigRecipient     = "C30/wrong-recipient-accepted"
	sigBadSignature  = "C30/invalid-signature-accepted"
	sigNotIncreasing = "C30/non-increasing-accepted"
	sigValidRejected = "C30/valid-cheque-rejected"
	sigCredit        = "C30/credited-total-mismatch"
	sigLast          = "C30/last-received-cheque-mismatch"
	sigPanic         = "C30/panic"
)

// Identities: key 0 is this node; keys 1..3 are the issuers registered for peers
// 0..2; key 4 is a stranger that no peer is registered for; peer 3 is unregistered.
const (
	nIssuers    = 4 // issuer indices 0..3 (3 = stranger)
	nPeers      = 4 // peer indices 0..3 (3 = unregistered)
	nRegistered = 3
)

func issuerKeyIdx(i int) int { return i + 1 }

var (
	meAddr      = trafx.Addr(trafx.Key(0))
	issuerAddrs = func() []common.Address {
		var a []common.Address
		for i := 0; i < nIssuers; i++ {
			a = append(a, trafx.Addr(trafx.Key(issuerKeyIdx(i))))
		}
		return a
	}()
	otherRecipient = common.HexToAddress("0x00000000000000000000000000000000000000c3")
)

// op is one cheque arrival. All operands are small integers / tags; amounts are
// resolved against the model at interpretation time (construction, not rejection).
type op struct {
	Kind   string `json:"kind"`             // "new" | "replay"
	From   int    `json:"from"`             // sending peer (service level only)
	Issuer int    `json:"issuer"`           // stated issuer (Beneficiary field)
	Signer int    `json:"signer"`           // key that signs
	Recip  int    `json:"recip"`            // 0 me, 1 another address, 2 zero address
	Amt    string `json:"amt"`              // inc|same|lower|zero|abs|huge|neg|over
	Delta  int    `json:"delta"`            // operand of Amt
	SigMut string `json:"sigmut,omitempty"` // flip|vflip|trunc|long|empty|malleate|vplus4|vraw
	Tamper string `json:"tamper,omitempty"` // amount|recipient|chain|issuer : signed data differs from sent data
	Replay int    `json:"replay"`           // which earlier cheque (mod count) for Kind=replay
}

type kase struct {
	Level string `json:"level"` // "store" | "service"
	Ops   []op   `json:"ops"`
}

// ---- the model ------------------------------------------------------------------

type model struct {
	max      map[common.Address]*big.Int                // highest accepted cumulative per issuer
	last     map[common.Address]*chequePkg.SignedCheque // last accepted cheque per issuer
	credited map[common.Address]*big.Int                // sum of returned amounts (store level)
	sent     []*chequePkg.SignedCheque                  // every cheque ever delivered (for replays)
}

func newModel() *model {
	return &model{max: map[common.Address]*big.Int{}, last: map[common.Address]*chequePkg.SignedCheque{}, credited: map[common.Address]*big.Int{}}
}

func (m *model) maxOf(a common.Address) *big.Int {
	if v := m.max[a]; v != nil {
		return v
	}
	return big.NewInt(0)
}

func copyCheque(c *chequePkg.SignedCheque) *chequePkg.SignedCheque {
	return &chequePkg.SignedCheque{Cheque: chequePkg.Cheque{Recipient: c.Recipient, Beneficiary: c.Beneficiary,
		CumulativePayout: new(big.Int).Set(c.CumulativePayout)}, Signature: append([]byte{}, c.Signature...)}
}

// build turns an op into a concrete cheque.
func (m *model) build(o op) (*chequePkg.SignedCheque, error) {
	if o.Kind == "replay" {
		if len(m.sent) > 0 {
			return copyCheque(m.sent[o.Replay%len(m.sent)]), nil
		}
		o = op{Kind: "new", Issuer: o.From % nIssuers, Signer: o.From % nIssuers, From: o.From, Amt: "inc", Delta: 1} // nothing to replay yet
	}
	issuer := issuerAddrs[o.Issuer%nIssuers]
	var recipient common.Address
	switch o.Recip {
	case 0:
		recipient = meAddr
	case 1:
		recipient = otherRecipient
	}
	cur := m.maxOf(issuer)
	d := big.NewInt(int64(o.Delta))
	var cum *big.Int
	switch o.Amt {
	case "inc":
		cum = new(big.Int).Add(cur, d)
		if cum.Cmp(trafx.MaxU256) > 0 {
			cum = new(big.Int).Set(trafx.MaxU256)
		}
	case "same":
		cum = new(big.Int).Set(cur)
	case "lower":
		cum = new(big.Int).Sub(cur, d)
		if cum.Sign() < 0 {
			cum = big.NewInt(0)
		}
	case "zero":
		cum = big.NewInt(0)
	case "abs":
		cum = new(big.Int).Set(d)
	case "huge":
		cum = new(big.Int).Sub(trafx.MaxU256, d)
	case "neg":
		cum = new(big.Int).Neg(d)
	case "over":
		cum = new(big.Int).Add(trafx.MaxU256, d)
	default:
		return nil, fmt.Errorf("bad amt %q", o.Amt)
	}
	sent := chequePkg.Cheque{Recipient: recipient, Beneficiary: issuer, CumulativePayout: cum}
	// the data that is actually signed
	signed := chequePkg.Cheque{Recipient: recipient, Beneficiary: issuer, CumulativePayout: new(big.Int).Set(cum)}
	chain := trafx.ChainID
	switch o.Tamper {
	case "amount":
		signed.CumulativePayout = new(big.Int).Add(cum, big.NewInt(1))
	case "recipient":
		signed.Recipient = otherRecipient
		if recipient == otherRecipient {
			signed.Recipient = meAddr
		}
	case "chain":
		chain++
	case "issuer":
		signed.Beneficiary = issuerAddrs[(o.Issuer+1)%nIssuers]
	}
	if !trafx.InU256(signed.CumulativePayout) {
		// nothing can be signed over a non-uint256; sign the reduced value instead
		signed.CumulativePayout = new(big.Int).And(new(big.Int).Abs(signed.CumulativePayout), trafx.MaxU256)
	}
	sig, err := trafx.SignCheque(trafx.Key(issuerKeyIdx(o.Signer%nIssuers)), &signed, chain)
	if err != nil {
		return nil, fmt.Errorf("harness signing failed: %v", err)
	}
	switch o.SigMut {
	case "flip":
		sig[o.Delta%64] ^= 1 << uint(o.Delta%8)
	case "vflip":
		sig[64] ^= 27 ^ 28
	case "trunc":
		sig = sig[:64]
	case "long":
		sig = append(sig, 0x1b)
	case "empty":
		sig = nil
	case "malleate":
		sig = trafx.Malleate(sig)
	case "vplus4":
		sig[64] += 4
	case "vraw":
		sig[64] -= 27
	}
	return &chequePkg.SignedCheque{Cheque: sent, Signature: sig}, nil
}

// highS reports a non-canonical (upper half) s value: such signatures are valid
// ECDSA signatures but an implementation may legitimately refuse them.
func highS(sig []byte) bool {
	if len(sig) != 65 {
		return false
	}
	half, _ := new(big.Int).SetString("7fffffffffffffffffffffffffffffff5d576e7357a4501ddfe92f46681b20a0", 16)
	return new(big.Int).SetBytes(sig[32:64]).Cmp(half) > 0
}

// judgement of one cheque against the statement's four conditions.
type verdict struct {
	recipientOK bool
	sig         int // trafx.Sig*
	increasing  bool
	peerKnown   bool // service level
	peerMatches bool // service level: registered chain address of the sender == stated issuer
	canonical   bool // honest-looking encoding: the converse (must accept) is asserted only then
}

func (m *model) judge(c *chequePkg.SignedCheque, level string, from int) verdict {
	v := verdict{}
	v.recipientOK = c.Recipient == meAddr
	v.sig = trafx.JudgeSignature(c.Signature, c.Recipient, c.Beneficiary, c.CumulativePayout, trafx.ChainID)
	v.increasing = c.CumulativePayout.Cmp(m.maxOf(c.Beneficiary)) > 0
	v.canonical = v.sig == trafx.SigValid && !highS(c.Signature)
	if level == "service" {
		v.peerKnown = from < nRegistered
		v.peerMatches = v.peerKnown && issuerAddrs[from] == c.Beneficiary
	} else {
		v.peerKnown, v.peerMatches = true, true
	}
	return v
}

func (v verdict) allHold() bool {
	return v.recipientOK && v.sig == trafx.SigValid && v.increasing && v.peerMatches
}

// mayNotAccept: some condition definitely fails.
func (v verdict) definitelyBad() (string, bool) {
	switch {
	case !v.peerKnown:
		return sigUnregistered, true
	case !v.recipientOK:
		return sigRecipient, true
	case v.sig == trafx.SigInvalid:
		return sigBadSignature, true
	case !v.increasing:
		return sigNotIncreasing, true
	case !v.peerMatches:
		return sigForeign, true
	}
	return "", false
}

// ---- system under test ------------------------------------------------------------

type sut struct {
	node *trafx.Node
}

func newSUT() (*sut, func(), error) {
	store, release, err := trafx.AcquireStore()
	if err != nil {
		return nil, nil, err
	}
	ch := trafx.NewChain()
	node, err := trafx.NewNode(trafx.Key(0), store, ch)
	if err != nil {
		release()
		return nil, nil, err
	}
	// register peers the way a connecting peer does: handshake without a cheque
	for p := 0; p < nRegistered; p++ {
		if err := node.Svc.Handshake(trafx.Overlay(p), issuerAddrs[p], chequePkg.SignedCheque{}); err != nil {
			release()
			return nil, nil, fmt.Errorf("handshake: %v", err)
		}
	}
	return &sut{node: node}, release, nil
}

func chequeEq(a, b *chequePkg.SignedCheque) bool {
	return a != nil && b != nil && a.Recipient == b.Recipient && a.Beneficiary == b.Beneficiary &&
		a.CumulativePayout != nil && b.CumulativePayout != nil && a.CumulativePayout.Cmp(b.CumulativePayout) == 0 &&
		string(a.Signature) == string(b.Signature)
}

func show(c *chequePkg.SignedCheque) string {
	return fmt.Sprintf("{recipient=%s issuer=%s cum=%s sig=%x}", c.Recipient.Hex(), c.Beneficiary.Hex(), c.CumulativePayout, c.Signature)
}

// observe compares every observable with the model.
func (s *sut) observe(m *model, level string, step string) (string, error) {
	cs := s.node.ChequeStore
	for i, a := range issuerAddrs {
		got, err := cs.LastReceivedCheque(a)
		want := m.last[a]
		if want == nil {
			if err == nil && got != nil && got.CumulativePayout != nil && got.CumulativePayout.Sign() != 0 {
				return sigLast, fmt.Errorf("%s: store.LastReceivedCheque(issuer %d) = %v, %v; no cheque of that issuer was ever acceptable", step, i, got, err)
			}
			continue
		}
		if err != nil || !chequeEq(got, want) {
			return sigLast, fmt.Errorf("%s: store.LastReceivedCheque(issuer %d) = %v, err %v; want %s", step, i, got, err, show(want))
		}
	}
	all, err := cs.LastReceivedCheques()
	if err != nil {
		return sigLast, fmt.Errorf("%s: LastReceivedCheques: %v", step, err)
	}
	if len(all) != len(m.last) {
		return sigLast, fmt.Errorf("%s: LastReceivedCheques has %d issuers, model %d", step, len(all), len(m.last))
	}
	for a, want := range m.last {
		if !chequeEq(all[a], want) {
			return sigLast, fmt.Errorf("%s: LastReceivedCheques[%s] = %v; want %s", step, a.Hex(), all[a], show(want))
		}
	}
	if level == "store" {
		for a, mx := range m.max {
			if m.credited[a] == nil || m.credited[a].Cmp(mx) != 0 {
				return sigCredit, fmt.Errorf("%s: issuer %s: sum of credited amounts %v != highest accepted cumulative %v", step, a.Hex(), m.credited[a], mx)
			}
		}
		return "", nil
	}
	svc := s.node.Svc
	tcs, err := svc.TrafficCheques()
	if err != nil {
		return sigCredit, fmt.Errorf("%s: TrafficCheques: %v", step, err)
	}
	for p := 0; p < nPeers; p++ {
		ov := trafx.Overlay(p)
		got, err := svc.LastReceivedCheque(ov)
		if p >= nRegistered {
			if err == nil && got != nil && got.CumulativePayout != nil && got.CumulativePayout.Sign() != 0 {
				return sigLast, fmt.Errorf("%s: LastReceivedCheque(unregistered peer) = %v, %v", step, got, err)
			}
			continue
		}
		want := m.last[issuerAddrs[p]]
		if want == nil {
			if err == nil && got != nil && got.CumulativePayout != nil && got.CumulativePayout.Sign() != 0 {
				return sigLast, fmt.Errorf("%s: svc.LastReceivedCheque(peer %d) = %v, %v; nothing acceptable arrived", step, p, got, err)
			}
		} else if err != nil || !chequeEq(got, want) {
			return sigLast, fmt.Errorf("%s: svc.LastReceivedCheque(peer %d) = %v, err %v; want %s", step, p, got, err, show(want))
		}
		// total credited to the peer (received settlements)
		credited := big.NewInt(0)
		n := 0
		for _, tc := range tcs {
			if tc.Peer.Equal(ov) {
				credited = tc.ReceivedSettlements
				n++
			}
		}
		if n > 1 {
			return sigCredit, fmt.Errorf("%s: peer %d listed %d times in TrafficCheques", step, p, n)
		}
		if credited.Cmp(m.maxOf(issuerAddrs[p])) != 0 {
			return sigCredit, fmt.Errorf("%s: peer %d: received settlements %v != highest accepted cumulative %v", step, p, credited, m.maxOf(issuerAddrs[p]))
		}
	}
	for _, tc := range tcs {
		known := false
		for p := 0; p < nRegistered; p++ {
			known = known || tc.Peer.Equal(trafx.Overlay(p))
		}
		if !known {
			return sigCredit, fmt.Errorf("%s: TrafficCheques lists unknown peer %s", step, tc.Peer)
		}
	}
	return "", nil
}

// deliver hands the cheque to the code under test; panics become failures.
func (s *sut) deliver(level string, from int, c *chequePkg.SignedCheque) (amount *big.Int, err error, panicked interface{}) {
	defer func() {
		if r := recover(); r != nil {
			panicked = r
		}
	}()
	in := copyCheque(c) // the callee keeps the pointer; the model keeps its own copy
	if level == "store" {
		amount, err = s.node.ChequeStore.ReceiveCheque(context.Background(), in)
		return
	}
	err = s.node.Svc.ReceiveCheque(context.Background(), trafx.Overlay(from), in)
	return
}

type stats struct {
	accepted, rejected, replay, reorder, foreign, unregistered, wrongRecip, badSig, ambiguous, excluded, nonCanon int
	classes                                                                                                       map[string]bool
}

// run interprets a case. It returns the signature and error of the first violation.
func run(c kase, st *stats) (sig string, err error) {
	s, closeFn, e := newSUT()
	if e != nil {
		return "C30/harness", fmt.Errorf("setup: %v", e)
	}
	defer closeFn()
	m := newModel()
	if sg, e := s.observe(m, c.Level, "init"); e != nil {
		return sg, e
	}
	for k, o := range c.Ops {
		step := fmt.Sprintf("op#%d %+v", k, o)
		from := o.From % nPeers
		ch, e := m.build(o)
		if e != nil {
			return "C30/harness", fmt.Errorf("%s: %v", step, e)
		}
		v := m.judge(ch, c.Level, from)
		// known finding: a cheque whose issuer is not the sender's registered address but
		// which is otherwise acceptable is credited (guard uses && instead of ||)
		if c.Level == "service" && v.peerKnown && !v.peerMatches && v.recipientOK && v.increasing && v.sig != trafx.SigInvalid && evid.Known(sigForeign) {
			st.excluded++
			evid.Get(id).Excluded(sigForeign)
			continue
		}
		if o.Kind == "replay" && len(m.sent) > 0 {
			st.replay++
		}
		if v.sig == trafx.SigValid && v.recipientOK && !v.increasing {
			st.reorder++
		}
		if c.Level == "service" && v.peerKnown && !v.peerMatches {
			st.foreign++
		}
		if !v.peerKnown {
			st.unregistered++
		}
		if !v.recipientOK {
			st.wrongRecip++
		}
		switch v.sig {
		case trafx.SigInvalid:
			st.badSig++
		case trafx.SigAmbiguous:
			st.ambiguous++
		}
		if v.sig == trafx.SigValid && !v.canonical {
			st.nonCanon++
		}
		m.sent = append(m.sent, copyCheque(ch))
		amount, derr, pan := s.deliver(c.Level, from, ch)
		if pan != nil {
			return sigPanic, fmt.Errorf("%s: panic %v on cheque %s", step, pan, show(ch))
		}
		accepted := derr == nil
		if accepted {
			st.accepted++
			if sg, bad := v.definitelyBad(); bad {
				return sg, fmt.Errorf("%s: accepted cheque %s from peer %d although: recipientOK=%v signature=%d(0 invalid,1 valid,2 unjudged) increasing=%v (highest accepted %v) peerKnown=%v peerIsIssuer=%v",
					step, show(ch), from, v.recipientOK, v.sig, v.increasing, m.maxOf(ch.Beneficiary), v.peerKnown, v.peerMatches)
			}
			prev := m.maxOf(ch.Beneficiary)
			if c.Level == "store" {
				want := new(big.Int).Sub(ch.CumulativePayout, prev)
				if amount == nil || amount.Cmp(want) != 0 {
					return sigCredit, fmt.Errorf("%s: accepted cheque %s credited %v, want cumulative-previous = %v", step, show(ch), amount, want)
				}
				if m.credited[ch.Beneficiary] == nil {
					m.credited[ch.Beneficiary] = big.NewInt(0)
				}
				m.credited[ch.Beneficiary].Add(m.credited[ch.Beneficiary], amount)
			}
			m.max[ch.Beneficiary] = new(big.Int).Set(ch.CumulativePayout)
			m.last[ch.Beneficiary] = copyCheque(ch)
		} else {
			st.rejected++
			if amount != nil {
				return sigCredit, fmt.Errorf("%s: rejected cheque (%v) still returned amount %v", step, derr, amount)
			}
			if v.allHold() && v.canonical {
				return sigValidRejected, fmt.Errorf("%s: cheque %s from peer %d satisfies all conditions but was rejected: %v", step, show(ch), from, derr)
			}
		}
		if sg, e := s.observe(m, c.Level, step); e != nil {
			return sg, e
		}
	}
	return "", nil
}

// ---- generator ------------------------------------------------------------------------

func genOp(t *rapid.T, level string) op {
	var o op
	if rapid.IntRange(0, 4).Draw(t, "replay?") == 0 {
		o.Kind = "replay"
		o.Replay = rapid.IntRange(0, 40).Draw(t, "which")
		o.From = rapid.IntRange(0, nPeers-1).Draw(t, "from")
		return o
	}
	o.Kind = "new"
	o.Issuer = rapid.SampledFrom([]int{0, 0, 0, 1, 1, 2, 3}).Draw(t, "issuer")
	o.Signer = o.Issuer
	o.From = o.Issuer
	if level == "service" {
		switch rapid.IntRange(0, 9).Draw(t, "route") {
		case 0, 1: // somebody else's cheque forwarded by another registered peer
			o.From = (o.Issuer + 1 + rapid.IntRange(0, 1).Draw(t, "other")) % nRegistered
		case 2: // unregistered sender
			o.From = nPeers - 1
		}
	}
	if rapid.IntRange(0, 9).Draw(t, "wrongkey?") == 0 {
		o.Signer = (o.Issuer + 1 + rapid.IntRange(0, 2).Draw(t, "k")) % nIssuers
	}
	o.Recip = rapid.SampledFrom([]int{0, 0, 0, 0, 0, 0, 0, 0, 0, 0, 1, 2}).Draw(t, "recip")
	o.Amt = rapid.SampledFrom([]string{"inc", "inc", "inc", "inc", "inc", "inc", "inc", "inc", "abs", "abs", "abs", "same", "lower", "zero", "huge", "neg", "over"}).Draw(t, "amt")
	switch o.Amt {
	case "abs":
		o.Delta = rapid.IntRange(0, 30).Draw(t, "abs")
	case "huge", "over", "neg":
		o.Delta = rapid.IntRange(0, 3).Draw(t, "d")
		if o.Amt == "neg" {
			o.Delta++
		}
	default:
		o.Delta = rapid.OneOf(rapid.Just(1), rapid.IntRange(1, 1000)).Draw(t, "delta")
	}
	if rapid.IntRange(0, 6).Draw(t, "mut?") == 0 {
		o.SigMut = rapid.SampledFrom([]string{"flip", "vflip", "trunc", "long", "empty", "malleate", "vplus4", "vraw"}).Draw(t, "sigmut")
		if o.SigMut == "flip" && o.Amt != "abs" {
			o.Delta = rapid.IntRange(1, 511).Draw(t, "bit")
		}
	}
	if rapid.IntRange(0, 11).Draw(t, "tamper?") == 0 {
		o.Tamper = rapid.SampledFrom([]string{"amount", "recipient", "chain", "issuer"}).Draw(t, "tamper")
	}
	return o
}

func genCase(t *rapid.T, level string) kase {
	n := rapid.IntRange(1, 14).Draw(t, "nops")
	c := kase{Level: level}
	for i := 0; i < n; i++ {
		c.Ops = append(c.Ops, genOp(t, level))
	}
	return c
}

func record(r *evid.Rec, c kase, st *stats) {
	nt := st.replay > 0 || st.reorder > 0 || st.foreign > 0
	cls := []string{"level-" + c.Level}
	add := func(n int, name string) {
		if n > 0 {
			cls = append(cls, name)
		}
	}
	add(st.replay, "has-replay")
	add(st.reorder, "has-valid-but-not-increasing")
	add(st.foreign, "has-foreign-issuer-from-registered-peer")
	add(st.unregistered, "has-unregistered-sender")
	add(st.wrongRecip, "has-wrong-recipient")
	add(st.badSig, "has-invalid-signature")
	add(st.ambiguous, "has-unjudged-signature")
	add(st.nonCanon, "has-high-s-signature")
	if st.accepted >= 2 {
		cls = append(cls, "two-or-more-accepted")
	}
	if st.accepted == 0 {
		cls = append(cls, "nothing-accepted")
	}
	r.Case(evid.Hash64(c), nt, cls...)
	r.ClassN("cheques-accepted", st.accepted)
	r.ClassN("cheques-rejected", st.rejected)
	r.Sample(c)
}

func fail(t interface{ Fatalf(string, ...interface{}) }, c kase, sig string, err error) {
	b, _ := json.Marshal(c)
	if d := os.Getenv("VERIF_REPLAY_OUT"); d != "" {
		os.WriteFile(filepath.Join(d, "last-failing-case.json"), b, 0o644) // overwritten while shrinking: the last one is the smallest
	}
	t.Fatalf("%s", evid.Violation(id, sig, fmt.Sprintf("%v\ncase=%s", err, b)))
}

const rule = "rapid: list of 1..14 cheque arrivals (new cheque: issuer 0..3 of which 3 has no registered peer, signing key right/other, recipient me/other/zero, amount = last accepted +d | equal | lower | 0 | small absolute | 2^256-1-d | negative | above 2^256, signature untouched | bit flip | v flip | truncated | over-long | empty | (r,n-s,v^1) | v+4 | v-27, signed data = sent data or differing in amount/recipient/chain id/issuer; or verbatim replay of an earlier cheque), at service level sent by the issuer's peer, another registered peer or an unregistered peer; run against the real cheque store (level store) or the real traffic service (level service); oracle = the four acceptance conditions judged independently (own EIP-712 digest + go-ethereum ecrecover), per-issuer highest accepted cumulative, last received cheque, sum of credited amounts / received settlements; non-trivial = the stream contains a replay, a validly signed non-increasing cheque, or a foreign-issuer cheque from a registered peer; distinct by hash of the op list"

func witnessForeign(r *evid.Rec, t *testing.T) {
	// deterministic witness of C30/foreign-issuer-cheque-accepted: issuer 0's valid first
	// cheque delivered by registered peer 1
	s, closeFn, err := newSUT()
	if err != nil {
		t.Fatalf("setup: %v", err)
	}
	defer closeFn()
	m := newModel()
	ch, err := m.build(op{Kind: "new", Issuer: 0, Signer: 0, Amt: "inc", Delta: 1})
	if err != nil {
		t.Fatalf("witness build: %v", err)
	}
	_, derr, pan := s.deliver("service", 1, ch)
	if pan == nil && derr == nil {
		r.Witness(sigForeign)
	}
}

func TestC30_Service(t *testing.T) {
	r := evid.Get(id)
	evid.Finish(t, r)
	r.SetRule(rule)
	if evid.Known(sigForeign) {
		witnessForeign(r, t)
	}
	// deterministic basics: one valid cheque, replay, lower, then higher (both levels)
	levels := []string{"store", "service"}
	if os.Getenv("VERIF_SKIP_BASICS") != "" { // sensitivity runs: measure the generated part alone
		levels = nil
	}
	for _, level := range levels {
		c := kase{Level: level, Ops: []op{
			{Kind: "new", Amt: "inc", Delta: 10}, {Kind: "replay", Replay: 0}, {Kind: "new", Amt: "lower", Delta: 3},
			{Kind: "new", Amt: "inc", Delta: 1}, {Kind: "replay", Replay: 0}, {Kind: "replay", Replay: 3},
			{Kind: "new", Issuer: 1, Signer: 1, From: 1, Amt: "abs", Delta: 4}, {Kind: "new", Issuer: 1, Signer: 0, From: 1, Amt: "inc", Delta: 4},
		}}
		st := &stats{}
		if sig, err := run(c, st); err != nil {
			fail(t, c, sig, err)
		}
		if st.accepted != 3 {
			t.Fatalf("harness self-check: expected 3 accepted cheques in the basic history, got %d", st.accepted)
		}
		record(r, c, st)
	}
	evid.Checks(1200)
	rapid.Check(t, func(t *rapid.T) {
		c := genCase(t, "service")
		st := &stats{}
		if sig, err := run(c, st); err != nil {
			fail(t, c, sig, err)
		}
		record(r, c, st)
	})
}

func TestC30_Store(t *testing.T) {
	r := evid.Get(id)
	evid.Finish(t, r)
	r.SetRule(rule)
	evid.Checks(1000)
	rapid.Check(t, func(t *rapid.T) {
		c := genCase(t, "store")
		st := &stats{}
		if sig, err := run(c, st); err != nil {
			fail(t, c, sig, err)
		}
		record(r, c, st)
	})
}

// ---- concurrent arrivals: the same set of cheques raced against each other -------------

type conc struct {
	Level  string `json:"level"`
	Amts   []int  `json:"amounts"`        // cumulative payouts of issuer 0's cheques (duplicates = replays)
	Copies int    `json:"copies"`         // how often each cheque is delivered
	Slow   []int  `json:"slow,omitempty"` // amounts whose acceptance by the store returns late (service level)
}

// slowStore delays the *return* of ReceiveCheque for chosen cumulative amounts until another
// ReceiveCheque call has completed after it (or a short cap): a harness-owned schedule for the
// window between the store's acceptance of a cheque and the service's own bookkeeping.
type slowStore struct {
	chequePkg.ChequeStore
	mu   sync.Mutex
	cond *sync.Cond
	done int
	slow map[int64]bool
}

func (w *slowStore) ReceiveCheque(ctx context.Context, ch *chequePkg.SignedCheque) (*big.Int, error) {
	amt, err := w.ChequeStore.ReceiveCheque(ctx, ch)
	w.mu.Lock()
	w.done++
	mine := w.done
	w.cond.Broadcast()
	if err == nil && ch != nil && ch.CumulativePayout != nil && w.slow[ch.CumulativePayout.Int64()] {
		timer := time.AfterFunc(150*time.Millisecond, func() { w.mu.Lock(); w.done += 1000; w.cond.Broadcast(); w.mu.Unlock() })
		for w.done == mine {
			w.cond.Wait()
		}
		timer.Stop()
	}
	w.mu.Unlock()
	return amt, err
}

func runConc(c conc) (string, error) {
	if c.Level == "service" && len(c.Slow) > 0 {
		trafx.WrapChequeStore = func(in chequePkg.ChequeStore) chequePkg.ChequeStore {
			w := &slowStore{ChequeStore: in, slow: map[int64]bool{}}
			w.cond = sync.NewCond(&w.mu)
			for _, a := range c.Slow {
				w.slow[int64(a)] = true
			}
			return w
		}
		defer func() { trafx.WrapChequeStore = nil }()
	}
	s, closeFn, err := newSUT()
	if err != nil {
		return "C30/harness", err
	}
	defer closeFn()
	m := newModel()
	var cheques []*chequePkg.SignedCheque
	mx := big.NewInt(0)
	for _, a := range c.Amts {
		ch, err := m.build(op{Kind: "new", Amt: "abs", Delta: a})
		if err != nil {
			return "C30/harness", err
		}
		if ch.CumulativePayout.Cmp(mx) > 0 {
			mx = ch.CumulativePayout
		}
		for k := 0; k < c.Copies; k++ {
			cheques = append(cheques, ch)
		}
	}
	var wg sync.WaitGroup
	var mu sync.Mutex
	sum := big.NewInt(0)
	accepted := 0
	var pan interface{}
	start := make(chan struct{})
	for _, ch := range cheques {
		wg.Add(1)
		go func(ch *chequePkg.SignedCheque) {
			defer wg.Done()
			<-start
			amount, derr, p := s.deliver(c.Level, 0, ch)
			mu.Lock()
			defer mu.Unlock()
			if p != nil {
				pan = p
			}
			if derr == nil {
				accepted++
				if amount != nil {
					sum.Add(sum, amount)
				}
			}
		}(ch)
	}
	close(start)
	wg.Wait()
	if pan != nil {
		return sigPanic, fmt.Errorf("panic %v", pan)
	}
	last, lerr := s.node.ChequeStore.LastReceivedCheque(issuerAddrs[0])
	if mx.Sign() == 0 {
		if accepted != 0 {
			return sigNotIncreasing, fmt.Errorf("zero cheques only, %d accepted", accepted)
		}
		return "", nil
	}
	if lerr != nil || last.CumulativePayout.Cmp(mx) != 0 {
		return sigLast, fmt.Errorf("after racing %v x%d: last received cheque %v (err %v), want cumulative %v", c.Amts, c.Copies, last, lerr, mx)
	}
	if c.Level == "store" && sum.Cmp(mx) != 0 {
		return sigCredit, fmt.Errorf("after racing %v x%d: credited in total %v, highest accepted cumulative %v (%d accepted)", c.Amts, c.Copies, sum, mx, accepted)
	}
	if c.Level == "service" {
		tcs, _ := s.node.Svc.TrafficCheques()
		got := big.NewInt(0)
		for _, tc := range tcs {
			if tc.Peer.Equal(trafx.Overlay(0)) {
				got = tc.ReceivedSettlements
			}
		}
		if got.Cmp(mx) != 0 {
			return sigCredit, fmt.Errorf("after racing %v x%d: received settlements %v, highest accepted cumulative %v", c.Amts, c.Copies, got, mx)
		}
	}
	return "", nil
}

func concurrentBody(t *testing.T, checks int) {
	r := evid.Get(id)
	evid.Finish(t, r)
	r.SetRule("concurrent: 1..5 cheques of one issuer (small cumulative amounts, duplicates allowed) each delivered 1..3 times from parallel goroutines; credited total / received settlements / last cheque must equal the highest cumulative")
	evid.Checks(checks)
	rapid.Check(t, func(t *rapid.T) {
		c := conc{Level: rapid.SampledFrom([]string{"store", "service"}).Draw(t, "level"),
			Amts:   rapid.SliceOfN(rapid.IntRange(0, 12), 1, 5).Draw(t, "amts"),
			Copies: rapid.IntRange(1, 3).Draw(t, "copies")}
		if c.Level == "service" && rapid.Bool().Draw(t, "slow_store_returns") {
			// delay the store's return for some of the amounts (harness-owned interleaving)
			c.Slow = rapid.SliceOfNDistinct(rapid.SampledFrom(c.Amts), 1, len(c.Amts), func(a int) int { return a }).Draw(t, "slow")
		}
		if sig, err := runConc(c); err != nil {
			if d := os.Getenv("VERIF_REPLAY_OUT"); d != "" {
				b, _ := json.Marshal(c)
				os.WriteFile(filepath.Join(d, "concurrent.json"), b, 0o644)
			}
			t.Fatalf("%s", evid.Violation(id, sig, fmt.Sprintf("%v case=%+v", err, c)))
		}
		r.Case(evid.Hash64("conc", c), len(c.Amts)*c.Copies >= 2, "concurrent-"+c.Level)
	})
}

func TestC30_Concurrent(t *testing.T)      { concurrentBody(t, 200) }
func TestC30_Concurrent_Race(t *testing.T) { concurrentBody(t, 150) }

var _ = boson.ZeroAddress
