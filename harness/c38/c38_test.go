package c38

import (
	"bytes"
	"context"
	"encoding/json"
	"fmt"
	"os"
	"path/filepath"
	"regexp"
	"runtime"
	"runtime/pprof"
	"sort"
	"strconv"
	"sync"
	"sync/atomic"
	"testing"
	"time"

	"github.com/gauss-project/aurorafs/pkg/boson"
	"github.com/gauss-project/aurorafs/pkg/multicast/model"
	"github.com/gauss-project/aurorafs/pkg/multicast/pb"
	"github.com/gauss-project/aurorafs/pkg/p2p"
	"github.com/gauss-project/aurorafs/pkg/p2p/protobuf"
	"pgregory.net/rapid"
	"verifharness/internal/evid"
)

const id = "C38"

// sigConcurrent: two copies of one (origin,id) arriving at the same time from two
// neighbours are both accepted (gcache SetIfNotExist is check-then-set).
const sigConcurrent = "C38/concurrent-duplicate-accepted-twice"

// ---- case ---------------------------------------------------------------------

// op is one event. Peer/group/origin operands are small indices resolved modulo the
// population of the case.
type op struct {
	K  string `json:"k"`
	P  int    `json:"p,omitempty"`  // peer (sender of the stream / subject of the event)
	G  []int  `json:"g,omitempty"`  // group indices
	N  []int  `json:"n,omitempty"`  // node list of add-group (peer indices; 99 = self)
	KC int    `json:"kc,omitempty"` // keep-connected-peers
	KP int    `json:"kp,omitempty"` // keep-ping-peers
	O  int    `json:"o,omitempty"`  // origin index of a multicast message; -1 = own-origin echo
	I  int    `json:"i,omitempty"`  // message id index
	S  []int  `json:"s,omitempty"`  // senders of a concurrent burst
	U  bool   `json:"u,omitempty"`  // hs-in: peer announces the new group list G
}

type kase struct {
	NPeers  int     `json:"peers"`
	NGroups int     `json:"groups"`
	Gids    [][]int `json:"gids"`  // groups each peer claims initially
	Find    [][]int `json:"find"`  // find-group answer of each peer
	Steps   [][]op  `json:"steps"` // ops of one step are applied back to back; invariants are checked at quiescence after each step
}

type failure struct {
	sig string
	msg string
}

// ---- per-case runtime state ------------------------------------------------------

type mcOp struct {
	kind    string // "in", "local", "burst"
	sender  string
	origin  string
	id      uint64
	echo    bool
	grouped bool // the addressed group existed when the op started
}

type runState struct {
	c        kase
	n        *node
	local    int               // local Multicast calls so far (ids 1..local)
	lastMsg  *pb.MulticastMsg  // last foreign message injected
	mc       map[int]mcOp      // op seq -> multicast op
	last     map[string]string // group|peer -> list it was last seen in
	moved    bool
	dupInj   bool
	inj      map[string]int // (origin,id) -> injections
	doneOuts int
	fwdOps   map[string]map[int]bool // (origin,id) -> ops during which it was forwarded
	deliv    map[string][]int        // (origin,id) -> ops during which it was published
	classes  map[string]int
	fail     *failure
	lastLate int          // peer of the most recent held-back disconnect
	pend     map[int]bool // peers that stopped being neighbours while their disconnect event is still on its way
}

func key(origin string, id uint64) string { return fmt.Sprintf("%s/%d", origin, id) }

func (rs *runState) class(c string) { rs.classes[c]++ }

func (rs *runState) failf(sig, f string, a ...interface{}) {
	if rs.fail == nil {
		rs.fail = &failure{sig: sig, msg: fmt.Sprintf(f, a...)}
	}
}

func (rs *runState) handler(name string) p2p.HandlerFunc {
	for _, s := range rs.n.svc.Protocol().StreamSpecs {
		if s.Name == name {
			return s.Handler
		}
	}
	panic("no handler " + name)
}

func (rs *runState) peer(i int) int {
	if i < 0 {
		i = -i
	}
	return i % rs.c.NPeers
}

func (rs *runState) group(o op) int {
	if len(o.G) == 0 {
		return 0
	}
	g := o.G[0]
	if g < 0 {
		g = -g
	}
	return g % rs.c.NGroups
}

func (rs *runState) groupList(gs []int) []int {
	var out []int
	for _, g := range gs {
		if g < 0 {
			g = -g
		}
		out = append(out, g%rs.c.NGroups)
	}
	return out
}

// setOp advances the op sequence number; everything the service sends or publishes
// from now on is attributed to it.
func (rs *runState) setOp() int {
	rs.n.mu.Lock()
	rs.n.cur++
	k := rs.n.cur
	rs.n.mu.Unlock()
	return k
}

func (rs *runState) hsIn(p int) {
	n := rs.n
	n.mu.Lock()
	req := encode(&pb.GIDs{Gid: n.gidBytes(n.gids[p])})
	n.mu.Unlock()
	_ = n.svc.HandshakeIncoming(context.Background(), p2p.Peer{Address: n.peers[p]}, newStream(req))
}

func (rs *runState) mcIn(sender int, msg *pb.MulticastMsg) {
	cp := *msg
	_ = rs.handler("multicast")(context.Background(), p2p.Peer{Address: rs.n.peers[sender]}, newStream(encode(&cp)))
}

func (rs *runState) apply(o op) {
	n := rs.n
	seq := rs.setOp()
	switch o.K {
	case "join", "observe", "join-many":
		g := rs.group(o)
		cfg := model.ConfigNodeGroup{Name: n.groups[g].String(), GType: model.GTypeJoin, KeepConnectedPeers: o.KC, KeepPingPeers: o.KP}
		if o.K == "observe" {
			cfg.GType = model.GTypeObserve
		}
		for _, p := range o.N {
			if p == 99 {
				cfg.Nodes = append(cfg.Nodes, n.self)
			} else {
				cfg.Nodes = append(cfg.Nodes, n.peers[rs.peer(p)])
			}
		}
		if o.K == "join-many" {
			for i := 0; i < nExtras; i++ {
				cfg.Nodes = append(cfg.Nodes, n.peers[n.np+i])
			}
			rs.class("op:join-many(prune)")
		}
		_ = n.svc.AddGroup([]model.ConfigNodeGroup{cfg})
	case "leave":
		_ = n.svc.RemoveGroup(n.groups[rs.group(o)], model.GTypeJoin)
	case "unobserve":
		_ = n.svc.RemoveGroup(n.groups[rs.group(o)], model.GTypeObserve)
	case "disc-late":
		// a neighbour is gone for the route table; the disconnect event is delivered at the end of the step
		n.mu.Lock()
		var elig []int
		for i := 0; i < n.np; i++ {
			if n.neigh[i] {
				elig = append(elig, i)
			}
		}
		if len(elig) > 0 {
			p := elig[rs.peer(o.P)%len(elig)]
			n.neigh[p] = false
			rs.pend[p] = true
			rs.lastLate = p
		}
		n.mu.Unlock()
		if len(elig) > 0 {
			rs.class("ev:disconnect(event-held-back)")
		}
	case "hs-late":
		// keep-alive handshake (over a relay) of the peer whose disconnect event is still on its way
		if rs.pend[rs.lastLate] {
			rs.hsIn(rs.lastLate)
			rs.checkAfterAdd(rs.lastLate)
			rs.class("ev:handshake-in")
		}
	case "conn-out", "conn-in", "disc":
		rs.flushPending() // kademlia publishes a peer's disconnect before any later connect
		// the peer operand is resolved among the peers the event is possible for
		// (neighbours for a disconnect, non-neighbours for a connect), if there are any
		p := rs.peer(o.P)
		n.mu.Lock()
		var elig []int
		for i := 0; i < n.np; i++ {
			if n.neigh[i] == (o.K == "disc") {
				elig = append(elig, i)
			}
		}
		if len(elig) > 0 {
			p = elig[rs.peer(o.P)%len(elig)]
		}
		isN := n.neigh[p]
		n.mu.Unlock()
		switch {
		case o.K == "disc" && isN:
			// same order as kademlia.Disconnected: first the peer leaves the connected set, then the event
			n.mu.Lock()
			n.neigh[p] = false
			n.mu.Unlock()
			n.deliver(p2p.PeerInfo{Overlay: n.peers[p], State: p2p.PeerStateDisconnect})
			rs.class("ev:disconnect")
		case o.K == "conn-out" && !isN:
			n.mu.Lock()
			n.neigh[p] = true
			n.mu.Unlock()
			n.deliver(p2p.PeerInfo{Overlay: n.peers[p], State: p2p.PeerStateConnectOut})
			rs.class("ev:connect-out")
		case o.K == "conn-in" && !isN:
			n.mu.Lock()
			n.neigh[p] = true
			n.mu.Unlock()
			rs.hsIn(p)
			rs.class("ev:connect-in")
		default:
			rs.hsIn(p) // state does not allow the event: plain re-handshake (keep-alive ping of the peer)
			rs.checkAfterAdd(p)
			rs.class("ev:handshake-in")
		}
	case "hs-in":
		p := rs.peer(o.P)
		if o.U {
			n.mu.Lock()
			n.gids[p] = rs.groupList(o.G)
			n.mu.Unlock()
		}
		rs.hsIn(p)
		rs.checkAfterAdd(p)
		rs.class("ev:handshake-in")
	case "set-gids":
		p := rs.peer(o.P)
		n.mu.Lock()
		n.gids[p] = rs.groupList(o.G)
		n.mu.Unlock()
	case "notify-join", "notify-leave":
		p := rs.peer(o.P)
		st := int32(1)
		if o.K == "notify-leave" {
			st = 2
		}
		req := encode(&pb.Notify{Status: st, Gids: n.gidBytes(rs.groupList(o.G))})
		_ = rs.handler("notify")(context.Background(), p2p.Peer{Address: n.peers[p]}, newStream(req))
		rs.class("ev:" + o.K)
	case "unreach":
		p := rs.peer(o.P)
		n.mu.Lock()
		n.unreach[p] = !n.unreach[p]
		n.mu.Unlock()
	case "sub-mc":
		_ = n.svc.SubscribeMulticastMsg(nil, nil, n.groups[rs.group(o)])
	case "mc-local":
		g := rs.group(o)
		_, gerr := n.svc.GetGroupPeers(n.groups[g].String())
		rs.local++
		rs.mc[seq] = mcOp{kind: "local", origin: n.self.String(), id: uint64(rs.local), grouped: gerr == nil}
		_ = n.svc.Multicast(&pb.MulticastMsg{Gid: n.groups[g].Bytes(), Data: []byte{byte(seq)}})
		rs.class("mc:local")
	case "mc-in", "mc-burst", "mc-dup", "mc-echo":
		g := rs.group(o)
		if o.K == "mc-echo" && rs.local == 0 {
			// nothing of our own is in flight yet: send one first (its own op), then the echo
			rs.local++
			_, gerr0 := n.svc.GetGroupPeers(n.groups[g].String())
			rs.mc[seq] = mcOp{kind: "local", origin: n.self.String(), id: uint64(rs.local), grouped: gerr0 == nil}
			_ = n.svc.Multicast(&pb.MulticastMsg{Gid: n.groups[g].Bytes(), Data: []byte{byte(seq)}})
			rs.class("mc:local")
			seq = rs.setOp()
		}
		_, gerr := n.svc.GetGroupPeers(n.groups[g].String())
		msg := &pb.MulticastMsg{CreateTime: 1, Gid: n.groups[g].Bytes(), Data: []byte{1, 2, 3}}
		echo := false
		switch {
		case o.K == "mc-echo":
			echo = true
			msg.Origin = n.self.Bytes()
			msg.Id = uint64(1 + o.I%rs.local)
		case o.K == "mc-dup" && rs.lastMsg != nil:
			cp := *rs.lastMsg
			msg = &cp
		default:
			oi := o.O
			if oi < 0 {
				oi = -oi
			}
			msg.Origin = n.origins[oi%len(n.origins)].Bytes()
			msg.Id = uint64(1 + o.I%4)
		}
		if !echo {
			cp := *msg
			rs.lastMsg = &cp
		}
		if o.K != "mc-burst" {
			o.K = "mc-in"
		}
		k := key(boson.NewAddress(msg.Origin).String(), msg.Id)
		if o.K == "mc-in" {
			p := rs.peer(o.P)
			rs.inj[k]++
			if rs.inj[k] > 1 {
				rs.dupInj = true
				rs.class("mc:duplicate-injected")
			}
			if echo {
				rs.class("mc:own-origin-echo")
			}
			rs.mc[seq] = mcOp{kind: "in", sender: n.peers[p].String(), origin: boson.NewAddress(msg.Origin).String(), id: msg.Id, echo: echo, grouped: gerr == nil}
			rs.mcIn(p, msg)
			rs.class("mc:in")
			break
		}
		// concurrent burst: the same message from several senders at the same time
		senders := map[int]bool{}
		for _, s := range o.S {
			senders[rs.peer(s)] = true
		}
		senders[rs.peer(o.P)] = true
		senders[rs.peer(o.P+1)] = true
		var list []int
		for s := range senders {
			list = append(list, s)
		}
		sort.Ints(list)
		rs.inj[k] += len(list)
		rs.dupInj = rs.dupInj || rs.inj[k] > 1
		rs.mc[seq] = mcOp{kind: "burst", origin: boson.NewAddress(msg.Origin).String(), id: msg.Id, grouped: gerr == nil}
		start := make(chan struct{})
		var wg sync.WaitGroup
		for _, s := range list {
			wg.Add(1)
			go func(s int) {
				defer wg.Done()
				<-start
				rs.mcIn(s, msg)
			}(s)
		}
		close(start)
		wg.Wait()
		rs.class("mc:concurrent-burst")
	default:
		panic("unknown op " + o.K)
	}
}

// applyStep runs the ops of one step back to back (no waiting in between) and converts
// a panic of the code under test on this goroutine into a failure.
func (rs *runState) applyStep(step []op) {
	defer func() {
		if r := recover(); r != nil {
			buf := make([]byte, 4096)
			buf = buf[:runtime.Stack(buf, false)]
			rs.failf("C38/panic", "panic in code under test: %v\n%s", r, buf)
		}
	}()
	for _, o := range step {
		rs.apply(o)
	}
	rs.flushPending()
}

// flushPending delivers the disconnect events that "disc-late" held back (the route table answers
// from kademlia's connected set at once, the event reaches the service through a channel later).
func (rs *runState) flushPending() {
	for p := 0; p < rs.n.np; p++ {
		if rs.pend[p] {
			delete(rs.pend, p)
			rs.n.deliver(p2p.PeerInfo{Overlay: rs.n.peers[p], State: p2p.PeerStateDisconnect})
		}
	}
}

// checkAfterAdd: right after an incoming handshake of peer p every group p announced has just
// processed add(p, keep) and consulted the neighbour relation: p may not be listed as connected
// there unless it is a neighbour now (asserted only inside the window of a held-back event;
// outside it the step-end check covers the same).
func (rs *runState) checkAfterAdd(p int) {
	n := rs.n
	n.mu.Lock()
	isN := n.neigh[p]
	announced := map[string]bool{}
	for _, g := range n.gids[p] {
		announced[n.groups[g].String()] = true
	}
	n.mu.Unlock()
	if isN || !rs.pend[p] {
		return
	}
	rs.class("handshake-inside-pending-disconnect-window")
	for _, gi := range n.svc.Snapshot().Groups {
		if !announced[gi.GroupID.String()] {
			continue
		}
		for _, pi := range gi.ConnectedInfo.ConnectedPeers {
			if pi != nil && pi.Address.Equal(n.peers[p]) {
				rs.failf("C38/connected-not-neighbour", "right after an incoming handshake of %s (no longer a neighbour, disconnect event still pending): listed as connected in %s", rs.name(n.peers[p].String()), rs.gname(gi.GroupID))
			}
		}
	}
}

// ---- oracle ----------------------------------------------------------------------

func addrSet(list []boson.Address) (map[string]bool, string) {
	m := map[string]bool{}
	for _, a := range list {
		if m[a.String()] {
			return m, a.String()
		}
		m[a.String()] = true
	}
	return m, ""
}

func (rs *runState) name(a string) string {
	if i, ok := rs.n.idx[a]; ok {
		return fmt.Sprintf("peer#%d", i)
	}
	if a == rs.n.self.String() {
		return "self"
	}
	return a[:8]
}

func (rs *runState) gname(a boson.Address) string {
	for i, g := range rs.n.groups {
		if g.Equal(a) {
			return fmt.Sprintf("group#%d", i)
		}
	}
	return a.String()[:8]
}

func (rs *runState) checkLists(where, g string, conn, keep, known []boson.Address, haveKnown bool) map[string]string {
	cs, d1 := addrSet(conn)
	ks, d2 := addrSet(keep)
	ns, d3 := addrSet(known)
	for _, d := range []string{d1, d2, d3} {
		if d != "" {
			rs.failf("C38/peer-twice-in-one-list", "%s: %s appears twice in one list of %s", where, rs.name(d), g)
		}
	}
	in := map[string]string{}
	for a := range cs {
		in[a] = "connected"
	}
	for a := range ks {
		if in[a] != "" {
			rs.failf("C38/peer-in-two-lists", "%s: %s is in connected and kept of %s", where, rs.name(a), g)
		}
		in[a] = "kept"
	}
	if haveKnown {
		for a := range ns {
			if in[a] != "" {
				rs.failf("C38/peer-in-two-lists", "%s: %s is in %s and known of %s", where, rs.name(a), in[a], g)
			}
			in[a] = "known"
		}
	}
	rs.n.mu.Lock()
	for a := range cs {
		i, ok := rs.n.idx[a]
		if !ok || !rs.n.neigh[i] {
			rs.failf("C38/connected-not-neighbour", "%s: %s is listed as connected in %s but is not a direct neighbour", where, rs.name(a), g)
		}
	}
	rs.n.mu.Unlock()
	return in
}

// check runs at quiescence after every step.
func (rs *runState) check(stepNo int) {
	n := rs.n
	where := fmt.Sprintf("after step %d", stepNo)
	// membership, view 1: Service.Snapshot (connected, kept, known)
	snap := n.svc.Snapshot()
	for _, gi := range snap.Groups {
		var conn []boson.Address
		for _, pi := range gi.ConnectedInfo.ConnectedPeers {
			if pi == nil {
				rs.failf("C38/harness", "%s: connected peer without snapshot entry", where)
				return
			}
			conn = append(conn, pi.Address)
		}
		g := rs.gname(gi.GroupID)
		in := rs.checkLists(where+" (Snapshot)", g, conn, gi.KeepPeers, gi.KnowPeers, true)
		for a, l := range in {
			k := g + "|" + a
			if prev, ok := rs.last[k]; ok && prev != l {
				rs.moved = true
				rs.class("move:" + prev + "->" + l)
			}
			rs.last[k] = l
		}
		for k, prev := range rs.last {
			if len(k) > len(g) && k[:len(g)+1] == g+"|" {
				if _, ok := in[k[len(g)+1:]]; !ok {
					rs.class("move:" + prev + "->out")
					delete(rs.last, k)
				}
			}
		}
		rs.classes["size:connected"] += len(conn)
		rs.classes["size:kept"] += len(gi.KeepPeers)
		rs.classes["size:known"] += len(gi.KnowPeers)
		// view 2: Service.GetGroupPeers (connected, kept)
		gp, err := n.svc.GetGroupPeers(gi.GroupID.String())
		if err == nil && gp != nil {
			rs.checkLists(where+" (GetGroupPeers)", g, gp.Connected, gp.Keep, nil, false)
		}
	}
	// flooding
	n.mu.Lock()
	outs := append([]outRec{}, n.outs[rs.doneOuts:]...)
	rs.doneOuts = len(n.outs)
	pubs := append([]pubRec{}, n.pubs...)
	n.mu.Unlock()
	perDest := map[string]int{} // op|dest|key -> count
	for _, o := range outs {
		if o.name != "multicast" {
			continue
		}
		var m pb.MulticastMsg
		if err := protobuf.NewReader(bytes.NewReader(o.stream.written())).ReadMsg(&m); err != nil {
			continue // nothing was written on it
		}
		origin := boson.NewAddress(m.Origin).String()
		k := key(origin, m.Id)
		mo, ok := rs.mc[o.op]
		if !ok || mo.origin != origin || mo.id != m.Id {
			rs.failf("C38/forward-outside-its-round", "%s: message %s/%d sent to %s during op %d which did not carry it", where, rs.name(origin), m.Id, rs.name(o.dest), o.op)
			continue
		}
		if rs.fwdOps[k] == nil {
			rs.fwdOps[k] = map[int]bool{}
		}
		rs.fwdOps[k][o.op] = true
		rs.class("mc:forward-sent")
		if mo.kind == "in" && o.dest == mo.sender {
			rs.failf("C38/forwarded-to-sender", "%s: message (%s,%d) received from %s was forwarded back to it", where, rs.name(origin), m.Id, rs.name(mo.sender))
		}
		if mo.echo {
			rs.failf("C38/own-origin-echo-forwarded", "%s: own message id %d echoed by %s was forwarded again to %s", where, m.Id, rs.name(mo.sender), rs.name(o.dest))
		}
		pk := fmt.Sprintf("%d|%s", o.op, o.dest)
		perDest[pk]++
		if perDest[pk] > 1 {
			if mo.kind == "burst" && mo.grouped {
				rs.failf(sigConcurrent, "%s: %d copies of (%s,%d) arriving concurrently were forwarded to %s more than once", where, rs.inj[k], rs.name(origin), m.Id, rs.name(o.dest))
			} else {
				rs.class("mc:same-destination-twice-in-one-round(not asserted)")
			}
		}
	}
	for k, ops := range rs.fwdOps {
		if len(ops) > 1 {
			rs.failf("C38/forwarded-in-two-rounds", "%s: message %s was forwarded during %d different ops %v", where, k, len(ops), keys(ops))
		}
	}
	rs.deliv = map[string][]int{}
	for _, p := range pubs {
		k := key(p.origin, p.id)
		rs.deliv[k] = append(rs.deliv[k], p.op)
		if p.origin == n.self.String() {
			rs.failf("C38/own-origin-delivered", "%s: own message id %d was delivered to the local subscribers", where, p.id)
		}
	}
	for k, ops := range rs.deliv {
		if len(ops) > 1 {
			sig := "C38/delivered-twice"
			for i := 1; i < len(ops); i++ {
				if ops[i] == ops[i-1] && rs.mc[ops[i]].kind == "burst" {
					sig = sigConcurrent
				}
			}
			rs.failf(sig, "%s: message %s was published to group/multicastMsg %d times (ops %v)", where, k, len(ops), ops)
		}
	}
}

func keys(m map[int]bool) []int {
	var out []int
	for k := range m {
		out = append(out, k)
	}
	sort.Ints(out)
	return out
}

// ---- quiescence --------------------------------------------------------------------

// Every goroutine a case's service starts carries the pprof label c38node=<salt> (labels
// are inherited by child goroutines), so "this service is idle" is an observable
// condition even though several services run side by side in one process: the only
// labelled goroutine left is the service's event loop and its queue is empty.

const labelKey = "c38node"

var labelRe = regexp.MustCompile(`"c38node":"(\d+)"`)

type monitor struct {
	mu      sync.Mutex
	gen     uint64
	counts  map[string]int
	waiters int32
	stop    chan struct{}
	done    chan struct{}
}

func startMonitor() *monitor {
	m := &monitor{counts: map[string]int{}, stop: make(chan struct{}), done: make(chan struct{})}
	go m.loop()
	return m
}

func (m *monitor) loop() {
	defer close(m.done)
	var buf bytes.Buffer
	for {
		select {
		case <-m.stop:
			return
		default:
		}
		if atomic.LoadInt32(&m.waiters) == 0 {
			time.Sleep(500 * time.Microsecond)
			continue
		}
		buf.Reset()
		_ = pprof.Lookup("goroutine").WriteTo(&buf, 1)
		counts := map[string]int{}
		lines := bytes.Split(buf.Bytes(), []byte{'\n'})
		for i := 0; i+1 < len(lines); i++ {
			at := bytes.Index(lines[i], []byte(" @"))
			if at <= 0 || !bytes.HasPrefix(lines[i+1], []byte("# labels:")) {
				continue
			}
			c, err := strconv.Atoi(string(lines[i][:at]))
			if err != nil {
				continue
			}
			if mm := labelRe.FindSubmatch(lines[i+1]); mm != nil {
				counts[string(mm[1])] += c
			}
		}
		m.mu.Lock()
		m.gen++
		m.counts = counts
		m.mu.Unlock()
		time.Sleep(2 * time.Millisecond)
	}
}

func (m *monitor) generation() uint64 {
	m.mu.Lock()
	defer m.mu.Unlock()
	return m.gen
}

func (m *monitor) count(label string) int {
	m.mu.Lock()
	defer m.mu.Unlock()
	return m.counts[label]
}

func (m *monitor) close() {
	close(m.stop)
	<-m.done
}

// countAfterNow returns the number of goroutines labelled for this node in a profile
// that was started after the call.
func (m *monitor) countAfterNow(label string, deadline time.Time) (int, bool) {
	g := m.generation()
	for m.generation() < g+2 { // g+1 may already have been in progress
		if time.Now().After(deadline) {
			return 0, false
		}
		time.Sleep(500 * time.Microsecond)
	}
	return m.count(label), true
}

// waitQuiet waits until every event handed to the service has been processed and every
// goroutine it started has finished: two ignored sentinel values are queued behind the
// events (the event loop handles one value at a time); the queue must be empty and the
// event loop must be the only goroutine of the service that is left.
func (m *monitor) waitQuiet(n *node) bool {
	atomic.AddInt32(&m.waiters, 1)
	defer atomic.AddInt32(&m.waiters, -1)
	n.deliver("sentinel-1")
	n.deliver("sentinel-2")
	deadline := time.Now().Add(120 * time.Second)
	for {
		if len(n.msgChan) == 0 {
			c, ok := m.countAfterNow(n.label, deadline)
			if ok && c <= 1 && len(n.msgChan) == 0 {
				return true
			}
		}
		if time.Now().After(deadline) {
			return false
		}
		time.Sleep(500 * time.Microsecond)
	}
}

func (m *monitor) waitGone(n *node) {
	atomic.AddInt32(&m.waiters, 1)
	defer atomic.AddInt32(&m.waiters, -1)
	deadline := time.Now().Add(20 * time.Second)
	for {
		c, ok := m.countAfterNow(n.label, deadline)
		if !ok || c == 0 {
			return
		}
	}
}

func labelled(label string, f func()) {
	pprof.Do(context.Background(), pprof.Labels(labelKey, label), func(context.Context) { f() })
}

func inconclusive(why string) {
	// not a verdict about the property: the driver maps exit status 2 without a
	// failure marker to INCONCLUSIVE
	fmt.Printf("C38 harness: %s\n", why)
	buf := make([]byte, 1<<20)
	buf = buf[:runtime.Stack(buf, true)]
	fmt.Printf("%s\n", buf)
	os.Exit(2)
}

// lifetime of one service: Service.Start arms a 15 s keep-alive ticker whose work
// (handshakes with every listed peer) would otherwise run in the middle of a check.
const (
	batchWidth   = 48 // cases run side by side in one rapid check
	stopAfter    = 8 * time.Second
	discardAfter = 13 * time.Second
)

func runCase(m *monitor, c kase) *runState {
	rs := &runState{c: c, mc: map[int]mcOp{}, last: map[string]string{}, inj: map[string]int{},
		fwdOps: map[string]map[int]bool{}, classes: map[string]int{}, pend: map[int]bool{}}
	salt := atomic.AddUint64(&saltCtr, 1)
	labelled(strconv.FormatUint(salt, 10), func() { rs.n = newNode(salt, c.NPeers, c.NGroups, c.Gids, c.Find) })
	n := rs.n
	if n.msgChan == nil {
		inconclusive("service did not register a NotifierWithMsgChan")
	}
	for s, step := range c.Steps {
		if time.Since(n.started) > stopAfter {
			rs.class("truncated-by-service-lifetime")
			break
		}
		labelled(n.label, func() { rs.applyStep(step) })
		if rs.fail != nil {
			break
		}
		if !m.waitQuiet(n) {
			inconclusive(fmt.Sprintf("no quiescence within the cap (labelled goroutines %d)", m.count(n.label)))
		}
		if time.Since(n.started) > discardAfter {
			rs.class("step-discarded-by-service-lifetime")
			break
		}
		rs.check(s)
		rs.class("steps-checked")
		if rs.fail != nil {
			if time.Since(n.started) > 14*time.Second {
				// the check itself was delayed into the keep-alive tick: not judged
				rs.fail = nil
				rs.class("step-discarded-by-service-lifetime")
			}
			break
		}
	}
	n.close()
	m.waitGone(n)
	return rs
}

// runBatch runs the cases side by side, each on its own service and at its own pace.
// Membership changes make the service sleep up to 500 ms under the group lock, so
// running cases concurrently is what makes the check affordable.
func runBatch(cases []kase) []*runState {
	m := startMonitor()
	defer m.close()
	states := make([]*runState, len(cases))
	var wg sync.WaitGroup
	for i := range cases {
		wg.Add(1)
		go func(i int) {
			defer wg.Done()
			states[i] = runCase(m, cases[i])
		}(i)
	}
	wg.Wait()
	return states
}

// ---- generator -----------------------------------------------------------------------

func subset(t *rapid.T, n int, label string) []int {
	mask := rapid.IntRange(0, 1<<uint(n)-1).Draw(t, label)
	var out []int
	for i := 0; i < n; i++ {
		if mask&(1<<uint(i)) != 0 {
			out = append(out, i)
		}
	}
	return out
}

var opKinds = []struct {
	k string
	w int
}{
	{"join", 3}, {"observe", 1}, {"leave", 1}, {"unobserve", 1}, {"join-many", 1},
	{"conn-out", 3}, {"conn-in", 4}, {"disc", 4}, {"disc-late", 4}, {"hs-in", 5}, {"set-gids", 1},
	{"notify-join", 2}, {"notify-leave", 2}, {"unreach", 1},
	{"sub-mc", 2}, {"mc-in", 5}, {"mc-dup", 5}, {"mc-echo", 2}, {"mc-local", 2}, {"mc-burst", 2},
}

func genOp(t *rapid.T, c *kase) op {
	var bag []string
	for _, e := range opKinds {
		for i := 0; i < e.w; i++ {
			bag = append(bag, e.k)
		}
	}
	o := op{K: rapid.SampledFrom(bag).Draw(t, "kind")}
	// group 0 is the main group: most events concern it so that lists fill up and peers move
	g := rapid.SampledFrom([]int{0, 0, 0, 1, 2}).Draw(t, "g") % c.NGroups
	switch o.K {
	case "join", "observe", "join-many":
		o.G = []int{g}
		o.N = subset(t, c.NPeers, "nodes")
		if rapid.IntRange(0, 9).Draw(t, "self-in-nodes") == 0 {
			o.N = append(o.N, 99)
		}
		o.KC = rapid.IntRange(0, 2).Draw(t, "kc")
		o.KP = rapid.IntRange(0, 2).Draw(t, "kp")
	case "leave", "unobserve", "sub-mc", "mc-local":
		o.G = []int{g}
	case "conn-out", "conn-in", "disc", "disc-late", "unreach":
		o.P = rapid.IntRange(0, c.NPeers-1).Draw(t, "p")
	case "hs-in":
		o.P = rapid.IntRange(0, c.NPeers-1).Draw(t, "p")
		if rapid.Bool().Draw(t, "new-gids") {
			o.U = true
			o.G = subset(t, c.NGroups, "gids")
		}
	case "set-gids", "notify-join", "notify-leave":
		o.P = rapid.IntRange(0, c.NPeers-1).Draw(t, "p")
		o.G = subset(t, c.NGroups, "gids")
		if len(o.G) == 0 && o.K != "set-gids" {
			o.G = []int{g}
		}
	case "mc-in":
		o.P = rapid.IntRange(0, c.NPeers-1).Draw(t, "p")
		o.G = []int{g}
		o.O = rapid.IntRange(0, 1).Draw(t, "origin")
		o.I = rapid.IntRange(0, 1).Draw(t, "id")
	case "mc-dup", "mc-echo":
		o.P = rapid.IntRange(0, c.NPeers-1).Draw(t, "p")
		o.G = []int{g}
		o.I = rapid.IntRange(0, 2).Draw(t, "id")
	case "mc-burst":
		o.P = rapid.IntRange(0, c.NPeers-1).Draw(t, "p")
		o.S = subset(t, c.NPeers, "senders")
		o.G = []int{g}
		o.O = rapid.IntRange(0, 1).Draw(t, "origin")
		o.I = 2 + rapid.IntRange(0, 1).Draw(t, "id")
		if evid.Known(sigConcurrent) {
			// known finding: concurrent copies are excluded by construction; the same
			// copies are delivered one after the other instead
			evid.Get(id).Excluded(sigConcurrent)
			o.K = "mc-dup"
			o.S = nil
		}
	}
	return o
}

func genCase(t *rapid.T) kase {
	c := kase{NPeers: rapid.IntRange(3, 5).Draw(t, "peers"), NGroups: rapid.IntRange(1, 3).Draw(t, "groups")}
	for p := 0; p < c.NPeers; p++ {
		gs := subset(t, c.NGroups, "claimed")
		if rapid.IntRange(0, 3).Draw(t, "claims-main") != 0 {
			has := false
			for _, g := range gs {
				has = has || g == 0
			}
			if !has {
				gs = append([]int{0}, gs...)
			}
		}
		c.Gids = append(c.Gids, gs)
		var f []int
		if rapid.IntRange(0, 2).Draw(t, "answers-find") == 0 {
			f = subset(t, c.NPeers, "found")
		}
		c.Find = append(c.Find, f)
	}
	// step 0 creates the main group (join, mostly) and subscribes the local client
	first := op{K: rapid.SampledFrom([]string{"join", "join", "join", "observe"}).Draw(t, "first"), G: []int{0},
		N: subset(t, c.NPeers, "nodes0"), KC: rapid.IntRange(0, 2).Draw(t, "kc0"), KP: rapid.IntRange(0, 2).Draw(t, "kp0")}
	c.Steps = append(c.Steps, []op{first, {K: "sub-mc", G: []int{0}}})
	ns := rapid.IntRange(3, 7).Draw(t, "steps")
	for s := 0; s < ns; s++ {
		k := rapid.SampledFrom([]int{1, 1, 1, 1, 2, 2, 3}).Draw(t, "ops-in-step")
		var st []op
		for i := 0; i < k; i++ {
			o := genOp(t, &c)
			st = append(st, o)
			if o.K == "disc-late" && rapid.IntRange(0, 3).Draw(t, "late-handshake") != 0 {
				st = append(st, op{K: "hs-late"})
			}
		}
		c.Steps = append(c.Steps, st)
	}
	return c
}

// ---- evidence -------------------------------------------------------------------------

func record(r *evid.Rec, rs *runState) {
	cls := []string{}
	if rs.moved {
		cls = append(cls, "nontrivial:peer-moved-between-lists")
	}
	if rs.dupInj {
		cls = append(cls, "nontrivial:duplicate-message-delivery")
	}
	if len(rs.deliv) > 0 {
		cls = append(cls, "case:published-to-subscribers")
	}
	if len(rs.fwdOps) > 0 {
		cls = append(cls, "case:forwarded")
	}
	r.Case(evid.Hash64(rs.c), rs.moved || rs.dupInj, cls...)
	for k, v := range rs.classes {
		r.ClassN(k, v)
	}
	r.Sample(rs.c)
}

func saveReplay(c kase, f *failure) {
	dir := os.Getenv("VERIF_REPLAY_OUT")
	if dir == "" {
		return
	}
	b, _ := json.MarshalIndent(map[string]interface{}{"property": id, "signature": f.sig, "message": f.msg, "case": c}, "", " ")
	_ = os.MkdirAll(dir, 0o755)
	_ = os.WriteFile(filepath.Join(dir, "c38-case.json"), b, 0o644)
}

func reportFirst(t interface{ Fatalf(string, ...interface{}) }, r *evid.Rec, states []*runState) {
	for _, rs := range states {
		if rs.fail != nil {
			saveReplay(rs.c, rs.fail)
			b, _ := json.Marshal(rs.c)
			t.Fatalf("%s", evid.Violation(id, rs.fail.sig, fmt.Sprintf("%s case=%s", rs.fail.msg, b)))
		}
	}
	for _, rs := range states {
		record(r, rs)
	}
}

const rule = "rapid: batches of independent cases, each = one real multicast.Service (Dev, Started) over stub kad/route/streamer/SubPub, 3-5 peers, 1-3 groups, per-peer claimed group lists and find-group answers, and 4-9 steps of 1-3 events (AddGroup join/observe with node lists incl. >20 nodes for the prune path, RemoveGroup, neighbour connect-out/-in and disconnect through the registered peer-state notifier, disconnects whose event is held back until the end of the step (the route table already answers 'not a neighbour'; right after an incoming handshake of such a peer it may not be listed as connected in the groups it announced), incoming handshakes with group lists, notify join/leave, unreachable peers, local Multicast, incoming multicast streams with repeated (origin,id) from several senders, own-origin echoes, concurrent copies); after every step, at quiescence (sentinel events behind the real ones consumed and the event loop the only goroutine left that carries the service's pprof label): connected/kept/known of every group pairwise disjoint and duplicate-free in Snapshot and GetGroupPeers, connected subset of current neighbours, each (origin,id) published to group/multicastMsg at most once, forwarded during at most one op, never back to its sender, own-origin echoes neither delivered nor forwarded; non-trivial = some peer seen in two different lists of one group over time, or some (origin,id) injected more than once; distinct by hash of the case"

// ---- tests ------------------------------------------------------------------------------

func TestC38_GroupsAndFlooding(t *testing.T) {
	r := evid.Get(id)
	evid.Finish(t, r)
	r.SetRule(rule)
	if f := os.Getenv("VERIF_REPLAY_FILE"); f != "" {
		b, err := os.ReadFile(f)
		if err != nil {
			t.Fatal(err)
		}
		var doc struct {
			Case kase `json:"case"`
		}
		if err := json.Unmarshal(b, &doc); err != nil {
			t.Fatal(err)
		}
		reportFirst(t, r, runBatch([]kase{doc.Case}))
		return
	}
	// deterministic witnesses of the transitions the sensitivity mutants break
	fixed := []kase{
		// known -> connected (incoming handshake of a neighbour that was configured as a node)
		{NPeers: 3, NGroups: 1, Gids: [][]int{{0}, {0}, {0}}, Find: [][]int{nil, nil, nil}, Steps: [][]op{
			{{K: "join", G: []int{0}, N: []int{0, 1}, KP: 1}}, {{K: "conn-in", P: 0}}, {{K: "disc", P: 0}}, {{K: "conn-out", P: 0}}, {{K: "hs-in", P: 1}}}},
		// duplicates and echo on a joined, subscribed group with two connected members
		{NPeers: 3, NGroups: 1, Gids: [][]int{{0}, {0}, {0}}, Find: [][]int{nil, nil, nil}, Steps: [][]op{
			{{K: "join", G: []int{0}, KC: 1}, {K: "sub-mc", G: []int{0}}}, {{K: "conn-in", P: 0}}, {{K: "conn-in", P: 1}}, {{K: "hs-in", P: 2}},
			{{K: "mc-in", P: 0, G: []int{0}, O: 0, I: 0}}, {{K: "mc-in", P: 1, G: []int{0}, O: 0, I: 0}}, {{K: "mc-local", G: []int{0}}}, {{K: "mc-in", P: 1, G: []int{0}, O: -1, I: 0}}}},
	}
	if os.Getenv("VERIF_C38_NOFIXED") == "" { // (diagnostic switch for sensitivity runs: random search only)
		reportFirst(t, r, runBatch(fixed))
	}

	evid.Checks(4)
	rapid.Check(t, func(t *rapid.T) {
		cases := make([]kase, batchWidth)
		for i := range cases {
			cases[i] = genCase(t)
		}
		reportFirst(t, r, runBatch(cases))
	})
}

// TestC38_ConcurrentCopies: several neighbours deliver the same (origin,id) at the same
// moment to a node that joined the group and has a subscriber. At most one copy may be
// published to the subscribers and each member may be sent the message at most once.
func TestC38_ConcurrentCopies(t *testing.T) {
	r := evid.Get(id)
	evid.Finish(t, r)
	r.SetRule(rule)
	rounds := evid.N(6000)
	c := kase{NPeers: 5, NGroups: 1, Gids: [][]int{{0}, {0}, {0}, {0}, {0}}, Find: make([][]int, 5)}
	c.Steps = [][]op{{{K: "join", G: []int{0}, KC: 1}, {K: "sub-mc", G: []int{0}}},
		{{K: "conn-in", P: 0}}, {{K: "conn-in", P: 1}}, {{K: "conn-in", P: 2}}, {{K: "conn-in", P: 3}}}
	states := runBatch([]kase{c})
	reportFirst(t, r, states)
	// the set-up service is closed (its membership stays in place; only the event loop ended)
	rs := states[0]
	n := rs.n
	hits := 0
	var firstHit string
	for k := 0; k < rounds; k++ {
		msg := &pb.MulticastMsg{Id: uint64(1000 + k), CreateTime: 1, Origin: n.origins[2].Bytes(), Gid: n.groups[0].Bytes(), Data: []byte{9}}
		n.mu.Lock()
		p0, o0 := len(n.pubs), len(n.outs)
		n.mu.Unlock()
		start := make(chan struct{})
		var wg sync.WaitGroup
		par := 2 + k%3
		for s := 0; s < par; s++ {
			wg.Add(1)
			go func(s int) {
				defer wg.Done()
				<-start
				rs.mcIn(s, msg)
			}(s)
		}
		close(start)
		wg.Wait()
		n.mu.Lock()
		pubs := len(n.pubs) - p0
		per := map[string]int{}
		for _, o := range n.outs[o0:] {
			if o.name == "multicast" {
				per[o.dest]++
			}
		}
		n.mu.Unlock()
		twice := ""
		for d, c := range per {
			if c > 1 {
				twice = rs.name(d)
			}
		}
		if pubs > 1 || twice != "" {
			hits++
			if firstHit == "" {
				firstHit = fmt.Sprintf("round %d: %d concurrent copies of one (origin,id), each from another connected member of a joined, subscribed group: published to group/multicastMsg %d times; forwarded more than once to %q", k, par, pubs, twice)
			}
		}
	}
	r.ClassN("concurrent-copies:rounds", rounds)
	r.ClassN("concurrent-copies:rounds-with-double-acceptance", hits)
	if hits > 0 {
		if evid.Known(sigConcurrent) {
			r.Witness(sigConcurrent)
			return
		}
		t.Fatalf("%s", evid.Violation(id, sigConcurrent, firstHit))
	}
}
