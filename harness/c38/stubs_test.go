package c38

import (
	"bytes"
	"context"
	"crypto/sha256"
	"errors"
	"fmt"
	"io"
	"strconv"
	"sync"
	"time"

	"github.com/gauss-project/aurorafs/pkg/aurora"
	"github.com/gauss-project/aurorafs/pkg/boson"
	"github.com/gauss-project/aurorafs/pkg/logging"
	"github.com/gauss-project/aurorafs/pkg/multicast"
	"github.com/gauss-project/aurorafs/pkg/multicast/pb"
	"github.com/gauss-project/aurorafs/pkg/p2p"
	"github.com/gauss-project/aurorafs/pkg/p2p/protobuf"
	"github.com/gauss-project/aurorafs/pkg/routetab"
	"github.com/gauss-project/aurorafs/pkg/subscribe"
	"github.com/gauss-project/aurorafs/pkg/topology"
	tmodel "github.com/gauss-project/aurorafs/pkg/topology/model"
)

// saltCtr makes every node's addresses (self, peers, groups, origins) unique within
// the process: the multicast de-duplication cache is a process-global gcache keyed
// by (origin, id), so address reuse would couple cases.
var saltCtr uint64

const nExtras = 26 // silent extra peers, only used as "nodes" of join-many (prune path)

// ---- recorded observations ---------------------------------------------------

type outRec struct {
	op     int // op sequence number during which the stream was opened
	dest   string
	name   string // stream name
	stream *stream
}

type pubRec struct {
	op     int
	kind   string
	origin string
	id     uint64
}

// node is one multicast.Service with all of its collaborators stubbed.
type node struct {
	mu      sync.Mutex
	salt    uint64
	label   string // pprof label value carried by every goroutine of this node's service
	self    boson.Address
	peers   []boson.Address // peers[0:np] regular, then nExtras silent extras
	np      int
	groups  []boson.Address
	origins []boson.Address
	idx     map[string]int // peer address string -> index

	neigh   map[int]bool
	gids    [][]int // groups a peer claims in handshakes
	unreach map[int]bool
	find    [][]int

	msgChan  chan interface{}
	notifier subscribe.INotifier

	cur  int // current op sequence number
	outs []outRec
	pubs []pubRec

	svc     *multicast.Service
	started time.Time
	closed  bool
}

func mkAddr(salt uint64, kind byte, i int) boson.Address {
	h := sha256.Sum256([]byte(fmt.Sprintf("verif-c38|%d|%c|%d", salt, kind, i)))
	return boson.NewAddress(h[:])
}

func newNode(salt uint64, np, ng int, gids, find [][]int) *node {
	n := &node{salt: salt, label: strconv.FormatUint(salt, 10), np: np, idx: map[string]int{},
		neigh: map[int]bool{}, unreach: map[int]bool{}}
	n.self = mkAddr(n.salt, 's', 0)
	for i := 0; i < np+nExtras; i++ {
		a := mkAddr(n.salt, 'p', i)
		n.peers = append(n.peers, a)
		n.idx[a.String()] = i
	}
	for i := 0; i < ng; i++ {
		n.groups = append(n.groups, mkAddr(n.salt, 'g', i))
	}
	for i := 0; i < 3; i++ {
		n.origins = append(n.origins, mkAddr(n.salt, 'o', i))
	}
	n.gids = make([][]int, np)
	n.find = make([][]int, np)
	for i := 0; i < np; i++ {
		if i < len(gids) {
			n.gids[i] = append([]int{}, gids[i]...)
		}
		if i < len(find) {
			n.find[i] = append([]int{}, find[i]...)
		}
	}
	mode := aurora.NewModel().SetMode(aurora.FullNode)
	n.svc = multicast.NewService(n.self, mode, nil, (*streamer)(n), (*kad)(n), (*route)(n),
		logging.New(io.Discard, 0), (*subpub)(n), multicast.Option{Dev: true})
	n.started = time.Now() // before Start: the keep-alive ticker cannot fire earlier than started+15s
	n.svc.Start()
	return n
}

func (n *node) close() {
	if !n.closed {
		n.closed = true
		_ = n.svc.Close()
	}
}

func (n *node) gidBytes(gs []int) [][]byte {
	var out [][]byte
	for _, g := range gs {
		out = append(out, n.groups[g%len(n.groups)].Bytes())
	}
	return out
}

// deliver sends a value to the peer-state notifier the service registered in Start
// (the same call kademlia's PublishPeerState ends in).
func (n *node) deliver(v interface{}) {
	_ = n.notifier.Notify("kad_peerState", v)
}

// ---- p2p.Stream --------------------------------------------------------------

type stream struct {
	mu  sync.Mutex
	in  *bytes.Reader
	out bytes.Buffer
}

func newStream(in []byte) *stream { return &stream{in: bytes.NewReader(in)} }

func (s *stream) Read(p []byte) (int, error) {
	s.mu.Lock()
	defer s.mu.Unlock()
	return s.in.Read(p)
}
func (s *stream) Write(p []byte) (int, error) {
	s.mu.Lock()
	defer s.mu.Unlock()
	return s.out.Write(p)
}
func (s *stream) written() []byte {
	s.mu.Lock()
	defer s.mu.Unlock()
	return append([]byte{}, s.out.Bytes()...)
}
func (s *stream) Close() error                 { return nil }
func (s *stream) FullClose() error             { return nil }
func (s *stream) Reset() error                 { return nil }
func (s *stream) Headers() p2p.Headers         { return nil }
func (s *stream) ResponseHeaders() p2p.Headers { return nil }

func encode(msgs ...protobuf.Message) []byte {
	var b bytes.Buffer
	w := protobuf.NewWriter(&b)
	for _, m := range msgs {
		if err := w.WriteMsg(m); err != nil {
			panic(err)
		}
	}
	return b.Bytes()
}

// ---- p2p.Streamer ------------------------------------------------------------

type streamer node

func (s *streamer) open(addr boson.Address, name string) (p2p.Stream, error) {
	n := (*node)(s)
	n.mu.Lock()
	defer n.mu.Unlock()
	i, ok := n.idx[addr.String()]
	if !ok {
		return nil, errors.New("stub: unknown peer")
	}
	if n.unreach[i] {
		return nil, errors.New("stub: peer unreachable")
	}
	var reply []byte
	switch name {
	case "handshake":
		var gs []int
		if i < n.np {
			gs = n.gids[i]
		}
		reply = encode(&pb.GIDs{Gid: n.gidBytes(gs)})
	case "findGroup":
		r := &pb.FindGroupResp{}
		if i < n.np {
			for _, p := range n.find[i] {
				r.Addresses = append(r.Addresses, n.peers[p%n.np].Bytes())
			}
		}
		reply = encode(r)
	}
	st := newStream(reply)
	n.outs = append(n.outs, outRec{op: n.cur, dest: addr.String(), name: name, stream: st})
	return st, nil
}

func (s *streamer) NewStream(_ context.Context, addr boson.Address, _ p2p.Headers, _, _, name string) (p2p.Stream, error) {
	return s.open(addr, name)
}
func (s *streamer) NewRelayStream(_ context.Context, addr boson.Address, _ p2p.Headers, _, _, name string, _ bool) (p2p.Stream, error) {
	return s.open(addr, name)
}
func (s *streamer) NewConnChainRelayStream(_ context.Context, addr boson.Address, _ p2p.Headers, _, _, name string) (p2p.Stream, error) {
	return s.open(addr, name)
}

// ---- routetab.RouteTab -------------------------------------------------------

type route node

func (r *route) IsNeighbor(a boson.Address) bool {
	n := (*node)(r)
	n.mu.Lock()
	defer n.mu.Unlock()
	i, ok := n.idx[a.String()]
	return ok && n.neigh[i]
}
func (r *route) GetRoute(context.Context, boson.Address) ([]*routetab.Path, error) {
	return nil, errors.New("stub: no route")
}
func (r *route) FindRoute(context.Context, boson.Address, ...time.Duration) ([]*routetab.Path, error) {
	return nil, errors.New("stub: no route")
}
func (r *route) DelRoute(context.Context, boson.Address) error { return nil }
func (r *route) Connect(context.Context, boson.Address) error {
	return errors.New("stub: cannot connect")
}
func (r *route) GetTargetNeighbor(context.Context, boson.Address, int) ([]boson.Address, error) {
	return nil, nil
}
func (r *route) FindUnderlay(context.Context, boson.Address, ...time.Duration) (*aurora.Address, error) {
	return nil, errors.New("stub: no underlay")
}

// ---- topology.Driver ---------------------------------------------------------

type kad node

var _ topology.Driver = (*kad)(nil)

func (k *kad) SubscribePeerState(nt subscribe.INotifier) {
	n := (*node)(k)
	n.notifier = nt
	if mc, ok := nt.(*subscribe.NotifierWithMsgChan); ok {
		n.msgChan = mc.MsgChan
	}
}
func (k *kad) SubscribePeersChange(subscribe.INotifier) {}
func (k *kad) eachNeigh(f tmodel.EachPeerFunc) error {
	n := (*node)(k)
	n.mu.Lock()
	var list []boson.Address
	for i := 0; i < n.np; i++ {
		if n.neigh[i] {
			list = append(list, n.peers[i])
		}
	}
	n.mu.Unlock()
	for _, a := range list {
		stop, _, err := f(a, 0)
		if stop || err != nil {
			return err
		}
	}
	return nil
}
func (k *kad) EachPeer(f tmodel.EachPeerFunc, _ topology.Filter) error    { return k.eachNeigh(f) }
func (k *kad) EachPeerRev(f tmodel.EachPeerFunc, _ topology.Filter) error { return k.eachNeigh(f) }
func (k *kad) EachNeighbor(f tmodel.EachPeerFunc) error                   { return k.eachNeigh(f) }
func (k *kad) EachNeighborRev(f tmodel.EachPeerFunc) error                { return k.eachNeigh(f) }
func (k *kad) EachKnownPeer(f tmodel.EachPeerFunc) error                  { return k.eachNeigh(f) }
func (k *kad) EachKnownPeerRev(f tmodel.EachPeerFunc) error               { return k.eachNeigh(f) }
func (k *kad) IsWithinDepth(boson.Address) bool                           { return false }
func (k *kad) NeighborhoodDepth() uint8                                   { return 0 }
func (k *kad) AddPeers(...boson.Address)                                  {}
func (k *kad) ClosestPeer(boson.Address, bool, topology.Filter, ...boson.Address) (boson.Address, error) {
	return boson.ZeroAddress, topology.ErrNotFound
}
func (k *kad) ClosestPeers(boson.Address, int, topology.Filter, ...boson.Address) ([]boson.Address, error) {
	return nil, topology.ErrNotFound
}
func (k *kad) Close() error                                { return nil }
func (k *kad) Halt()                                       {}
func (k *kad) Snapshot() *tmodel.KadParams                 { return &tmodel.KadParams{} }
func (k *kad) SnapshotAddr(boson.Address) *tmodel.Snapshot { return &tmodel.Snapshot{} }

// SnapshotConnected returns an entry for every address of the universe so that the
// identity of the peers in a group's connected list is visible through Service.Snapshot.
func (k *kad) SnapshotConnected() (int, map[string]*tmodel.PeerInfo) {
	n := (*node)(k)
	n.mu.Lock()
	defer n.mu.Unlock()
	m := map[string]*tmodel.PeerInfo{}
	c := 0
	for i, a := range n.peers {
		m[a.String()] = &tmodel.PeerInfo{Address: a}
		if n.neigh[i] {
			c++
		}
	}
	m[n.self.String()] = &tmodel.PeerInfo{Address: n.self}
	return c, m
}
func (k *kad) GetPeersWithLatencyEWMA(list []boson.Address) []boson.Address { return list }
func (k *kad) RecordPeerLatency(boson.Address, time.Duration)               {}
func (k *kad) DisconnectForce(boson.Address, string) error                  { return nil }
func (k *kad) Outbound(p2p.Peer)                                            {}
func (k *kad) NotifyPeerState(p2p.PeerInfo)                                 {}
func (k *kad) RefreshProtectPeer([]boson.Address)                           {}
func (k *kad) Connected(context.Context, p2p.Peer, bool) error              { return nil }
func (k *kad) Disconnected(p2p.Peer, string)                                {}
func (k *kad) Announce(context.Context, boson.Address, bool) error          { return nil }
func (k *kad) AnnounceTo(context.Context, boson.Address, boson.Address, bool) error {
	return nil
}

// ---- subscribe.SubPub (capturing) -------------------------------------------------

type subpub node

func (s *subpub) Subscribe(subscribe.INotifier, string, string, string) error { return nil }
func (s *subpub) Publish(ns, kind, _ string, message interface{}) error {
	n := (*node)(s)
	if ns != "group" || kind != "multicastMsg" {
		return nil
	}
	m, ok := message.(multicast.Message)
	if !ok {
		return nil
	}
	n.mu.Lock()
	n.pubs = append(n.pubs, pubRec{op: n.cur, kind: kind, origin: m.Origin.String(), id: m.ID})
	n.mu.Unlock()
	return nil
}
func (s *subpub) PublishArray(string, string, string, []interface{}) error { return nil }
