package c02

import (
	"bytes"
	"context"
	"encoding/hex"
	"errors"
	"flag"
	"fmt"
	"os"
	"sort"
	"testing"

	"github.com/gauss-project/aurorafs/pkg/boson"
	"pgregory.net/rapid"
	"verifharness/internal/evid"
	fp "verifharness/internal/filepipe"
	"verifharness/internal/ref"
)

const id = "C02"
const CS = fp.CS

// ---- reference sanity (hand-expanded examples) --------------------------------

func TestC02_RefSanity(t *testing.T) {
	r := evid.Get(id)
	evid.Finish(t, r)
	k := ref.Keccak
	// (a) 3 chunks of 64 bytes, branches 2, BMT width 2 segments, expanded by hand:
	//     leaf_i = H(span(64) || H(seg0||seg1)); A = H(span(128) || H(leaf1||leaf2));
	//     root = H(span(192) || H(A||leaf3))   (leaf3 is a lone reference at level 1 and is carried up)
	data := make([]byte, 192)
	for i := range data {
		data[i] = byte(i*7 + 1)
	}
	leaf := func(d []byte) []byte { return k(ref.Span(64), k(d[:32], d[32:64])) }
	l1, l2, l3 := leaf(data[0:64]), leaf(data[64:128]), leaf(data[128:192])
	a := k(ref.Span(128), k(l1, l2))
	root := k(ref.Span(192), k(a, l3))
	if got := ref.TreeHash(data, 64, 2); !bytes.Equal(got.Root, root) || got.Levels != 3 {
		t.Fatalf("reference TreeHash disagrees with the hand expansion: %x vs %x (levels %d)", got.Root, root, got.Levels)
	}
	if got := ref.TreeHashN(data, 64, 2, 2); !bytes.Equal(got.Root, root) {
		t.Fatalf("reference TreeHashN disagrees with the hand expansion")
	}
	// (b) full-width BMT of "abc": the only non-zero segment climbs 13 levels next to zero sub-trees
	z := make([]byte, 32)
	seg := make([]byte, 32)
	copy(seg, "abc")
	node := seg
	for lvl := 0; lvl < 13; lvl++ {
		node = k(node, z)
		z = k(z, z)
	}
	want := k(ref.Span(3), node)
	if got := ref.BMT(ref.Span(3), []byte("abc")); !bytes.Equal(got, want) {
		t.Fatalf("reference BMT disagrees with the hand expansion")
	}
	if got := ref.TreeHash([]byte("abc"), CS, 8192); !bytes.Equal(got.Root, want) || got.Levels != 1 {
		t.Fatalf("reference TreeHash(single chunk) disagrees with the hand expansion")
	}
	// (c) 2-chunk intermediate with a 1-byte tail, width 4: the intermediate body (2 refs = 64 bytes) is zero padded to 4 segments
	d2 := make([]byte, 129)
	for i := range d2 {
		d2[i] = byte(200 - i)
	}
	zz := make([]byte, 32)
	lf := func(d []byte, n uint64) []byte {
		p := make([]byte, 128)
		copy(p, d)
		return k(ref.Span(n), k(k(p[0:32], p[32:64]), k(p[64:96], p[96:128])))
	}
	la, lb := lf(d2[:128], 128), lf(d2[128:], 1)
	want2 := k(ref.Span(129), k(k(la, lb), k(zz, zz)))
	if got := ref.TreeHashN(d2, 128, 4, 4); !bytes.Equal(got.Root, want2) || len(got.Chunks) != 3 {
		t.Fatalf("reference TreeHashN (padded intermediate) disagrees with the hand expansion")
	}
	if got := ref.TreeHash(d2, 128, 4); !bytes.Equal(got.Root, want2) {
		t.Fatalf("reference TreeHash (padded intermediate) disagrees with the hand expansion")
	}
	r.Class("reference-hand-examples-ok")
}

// ---- shared oracle -------------------------------------------------------------

func sameChunkSet(st *fp.RecStore, tr *ref.Tree) error {
	got := st.Chunks()
	if len(got) != len(tr.Chunks) {
		return fmt.Errorf("pipeline stored %d distinct chunks, the format defines %d", len(got), len(tr.Chunks))
	}
	keys := make([]string, 0, len(tr.Chunks))
	for k := range tr.Chunks {
		keys = append(keys, k)
	}
	sort.Strings(keys)
	for _, k := range keys {
		p, ok := got[k]
		if !ok {
			return fmt.Errorf("chunk %x (level %d) defined by the format was never stored", k, tr.Chunks[k].Level)
		}
		if !bytes.Equal(p, tr.Chunks[k].Payload) {
			return fmt.Errorf("chunk %x stored with a different payload (len %d vs %d)", k, len(p), len(tr.Chunks[k].Payload))
		}
	}
	return nil
}

func upErr(err error) string {
	var pe *fp.PanicError
	switch {
	case errors.As(err, &pe):
		return "panic"
	case errors.Is(err, fp.ErrWriterContract):
		return "short-write"
	}
	return "error"
}

// carried reports whether building the tree over n leaves with the given
// branching carries a lone reference up at some level, and the level count.
func shape(n, b int) (levels int, lone bool, exactFill bool) {
	if n > 1 {
		p := b
		for p < n {
			p *= b
		}
		exactFill = p == n
	}
	levels = 1
	for n > 1 {
		if n%b == 1 {
			lone = true
		}
		n = (n + b - 1) / b
		levels++
	}
	return
}

// ---- real parameters -------------------------------------------------------------

type seg struct {
	Writes  []int `json:"writes"`
	Feed    bool  `json:"feed_pipeline"`
	EOFData bool  `json:"eof_with_data"`
}

type realCase struct {
	Len  int    `json:"len"`
	Kind int    `json:"kind"`
	Seed uint64 `json:"seed"`
	A    seg    `json:"a"`
	B    seg    `json:"b"`
}

func runReal(c realCase) (string, error) {
	ctx := context.Background()
	data := fp.Gen(c.Kind, c.Seed, c.Len)
	tr := ref.TreeHash(data, CS, fp.Branches)
	var roots [2][]byte
	for i, s := range []seg{c.A, c.B} {
		st := fp.NewRecStore()
		a, err := fp.Upload(ctx, st, data, s.Writes, false, s.Feed, s.EOFData)
		if err != nil {
			return id + "/upload-" + upErr(err), fmt.Errorf("segmentation %d: %v", i, err)
		}
		roots[i] = a.Bytes()
		if len(roots[i]) != boson.HashSize {
			return id + "/reference-length", fmt.Errorf("segmentation %d: reference of %d bytes", i, len(roots[i]))
		}
		if !bytes.Equal(roots[i], tr.Root) {
			if i == 1 && bytes.Equal(roots[0], tr.Root) {
				return id + "/segmentation-dependent", fmt.Errorf("reference depends on the write split: %x (writes %v) vs %x (writes %v)", roots[0], c.A.Writes, roots[1], c.B.Writes)
			}
			return id + "/reference-differs-from-format", fmt.Errorf("segmentation %d: reference %x, format tree hash %x", i, roots[i], tr.Root)
		}
		if err := sameChunkSet(st, tr); err != nil {
			return id + "/chunk-set", fmt.Errorf("segmentation %d: %v", i, err)
		}
	}
	return "", nil
}

func drawSeg(t *rapid.T, n, chunk int, label string, allowFeed bool) seg {
	var s seg
	s.Writes = fp.DrawWrites(t, n, chunk, label)
	if allowFeed {
		s.Feed = rapid.IntRange(0, 2).Draw(t, label+"Feed") == 0
		if s.Feed {
			s.EOFData = rapid.Bool().Draw(t, label+"EOF")
		}
	}
	return s
}

func segClasses(n, chunk int, ss ...seg) []string {
	var cls []string
	for _, s := range ss {
		if len(s.Writes) >= 2 {
			cls = append(cls, "segmentation-with>=2-writes")
		}
		off := 0
		str, big, zero := false, false, false
		for _, w := range s.Writes {
			if w > 0 && off/chunk != (off+w-1)/chunk {
				str = true
			}
			if w > chunk {
				big = true
			}
			if w == 0 {
				zero = true
			}
			off += w
		}
		if str {
			cls = append(cls, "write-straddles-chunk-border")
		}
		if big {
			cls = append(cls, "has-write>chunk")
		}
		if zero {
			cls = append(cls, "has-zero-length-write")
		}
		if s.Feed {
			cls = append(cls, "via-FeedPipeline")
		}
	}
	return cls
}

func TestC02_Real(t *testing.T) {
	r := evid.Get(id)
	evid.Finish(t, r)
	r.SetRule("(real) rapid: content length (boundary-dense, <= 6 chunks of 256 KiB) x content kind x two independent write segmentations (direct Write+Sum or builder.FeedPipeline) through builder.NewPipelineBuilder(plain) over a recording store; oracle: both references == independent tree hash of the format (256 KiB leaves, full-width BMT, LE span, <= 8192 refs per intermediate, lone reference carried) and stored chunk set == the format's chunk set")
	detLens := []int{0, 1, 32, CS - 1, CS, CS + 1, 2 * CS, 2*CS + 1, 3*CS - 1}
	if os.Getenv("VERIF_RANDOM_ONLY") != "" { // sensitivity runs: measure the generated part alone
		detLens = nil
	}
	for _, l := range detLens {
		c := realCase{Len: l, Kind: fp.KindStream, Seed: uint64(l) + 7,
			A: seg{Writes: []int{l}}, B: seg{Writes: fp.CutsToWrites([]int{0, 1, l / 2, l / 2, CS - 1, CS, CS + 1, l}, l), Feed: true, EOFData: true}}
		if sig, err := runReal(c); err != nil {
			t.Fatalf("%s", evid.Violation(id, sig, fmt.Sprintf("%v case=%+v", err, c)))
		}
		lv, _, _ := shape((l+CS-1)/CS, fp.Branches)
		r.Case(evid.Hash64("real", c), l > CS, append(segClasses(l, CS, c.A, c.B), "real-params", fmt.Sprintf("real-levels-%d", lv), "deterministic-boundary")...)
	}
	evid.Checks(100)
	rapid.Check(t, func(t *rapid.T) {
		var c realCase
		c.Len = fp.DrawLen(t, CS, 6*CS+4097)
		c.Kind = rapid.SampledFrom([]int{fp.KindStream, fp.KindStream, fp.KindTemplate, fp.KindTemplate, fp.KindZero, fp.KindOnes}).Draw(t, "kind")
		c.Seed = rapid.Uint64Range(0, 1<<20).Draw(t, "seed")
		c.A = drawSeg(t, c.Len, CS, "a", true)
		c.B = drawSeg(t, c.Len, CS, "b", true)
		if sig, err := runReal(c); err != nil {
			t.Fatalf("%s", evid.Violation(id, sig, fmt.Sprintf("%v case=%+v", err, c)))
		}
		n := (c.Len + CS - 1) / CS
		lv, _, _ := shape(n, fp.Branches)
		cls := append(segClasses(c.Len, CS, c.A, c.B), "real-params", fmt.Sprintf("real-levels-%d", lv))
		if c.Kind == fp.KindTemplate || c.Kind == fp.KindZero || c.Kind == fp.KindOnes {
			cls = append(cls, "content-repeats-chunks")
		}
		r.Case(evid.Hash64("real", c), n >= 2, cls...)
		r.Sample(c)
	})
}

// ---- component pipeline with small parameters ------------------------------------

type smallCase struct {
	Chunk    int    `json:"chunk"`
	Branches int    `json:"branches"`
	Len      int    `json:"len"`
	Kind     int    `json:"kind"`
	Seed     uint64 `json:"seed"`
	A        seg    `json:"a"`
	B        seg    `json:"b"`
}

// capChunks is the largest number of data chunks generated for (chunk, branches):
// never more than branches^7 (the documented capacity of the 8-level hash trie)
// and bounded for cost.
func capChunks(chunk, b int) int {
	c := 1
	for i := 0; i < 7; i++ {
		c *= b
		if c > 1<<20 {
			break
		}
	}
	lim := 1100
	if chunk >= 4096 {
		lim = 40
	}
	if c < lim {
		return c
	}
	return lim
}

func runSmall(c smallCase) (string, error) {
	ctx := context.Background()
	data := fp.GenBlock(c.Kind, c.Seed, c.Len, c.Chunk)
	tr := ref.TreeHashN(data, c.Chunk, c.Branches, ref.BmtBranches)
	var roots [2][]byte
	for i, s := range []seg{c.A, c.B} {
		st := fp.NewRecStore()
		var sum []byte
		err := fp.Safe(func() error {
			p := fp.SmallPipeline(ctx, st, c.Chunk, c.Branches)
			var e error
			sum, e = fp.WriteSegments(p, data, s.Writes)
			sum = append([]byte(nil), sum...)
			return e
		})
		if err != nil {
			return id + "/small-upload-" + upErr(err), fmt.Errorf("segmentation %d: %v", i, err)
		}
		roots[i] = sum
		if !bytes.Equal(sum, tr.Root) {
			if i == 1 && bytes.Equal(roots[0], tr.Root) {
				return id + "/small-segmentation-dependent", fmt.Errorf("reference depends on the write split: %x (writes %v) vs %x (writes %v)", roots[0], c.A.Writes, roots[1], c.B.Writes)
			}
			return id + "/small-reference-differs-from-format", fmt.Errorf("segmentation %d: Sum()=%x, format tree hash %x (levels %d)", i, sum, tr.Root, tr.Levels)
		}
		if err := sameChunkSet(st, tr); err != nil {
			return id + "/small-chunk-set", fmt.Errorf("segmentation %d: %v", i, err)
		}
	}
	return "", nil
}

func drawChunks(t *rapid.T, b, max int) int {
	clip := func(n int) int {
		if n < 1 {
			return 1
		}
		if n > max {
			return max
		}
		return n
	}
	switch rapid.IntRange(0, 7).Draw(t, "nClass") {
	case 0, 1: // around a power of b
		p := b
		k := rapid.IntRange(1, 7).Draw(t, "pow")
		for i := 1; i < k && p*b <= max+1; i++ {
			p *= b
		}
		return clip(p + rapid.SampledFrom([]int{-1, 0, 1}).Draw(t, "powD"))
	case 2: // m full groups (+ lone)
		p := b
		k := rapid.IntRange(1, 3).Draw(t, "pow")
		for i := 1; i < k && p*b <= max; i++ {
			p *= b
		}
		m := rapid.IntRange(1, b).Draw(t, "groups")
		return clip(m*p + rapid.SampledFrom([]int{0, 1, 1, 2}).Draw(t, "lone"))
	case 3:
		return max - rapid.SampledFrom([]int{0, 0, 1, 2}).Draw(t, "full")
	case 4:
		return clip(rapid.IntRange(1, 3*b+2).Draw(t, "few"))
	default:
		return rapid.IntRange(1, max).Draw(t, "nUniform")
	}
}

func smallClasses(c smallCase) (n int, cls []string) {
	n = (c.Len + c.Chunk - 1) / c.Chunk
	if n == 0 {
		n = 1
	}
	lv, lone, fill := shape(n, c.Branches)
	if lv >= 6 {
		cls = append(cls, "small-levels>=6")
	} else {
		cls = append(cls, fmt.Sprintf("small-levels-%d", lv))
	}
	if lone {
		cls = append(cls, "lone-reference-carried")
	}
	if fill {
		cls = append(cls, "exact-level-fill")
	}
	full := 1
	for i := 0; i < 7; i++ {
		full *= c.Branches
	}
	if n == full {
		cls = append(cls, "trie-capacity-reached")
	}
	if c.Len%c.Chunk != 0 {
		cls = append(cls, "ragged-last-chunk")
	}
	cls = append(cls, fmt.Sprintf("small-b%d", c.Branches), fmt.Sprintf("small-chunk%d", c.Chunk))
	cls = append(cls, segClasses(c.Len, c.Chunk, c.A, c.B)...)
	return n, cls
}

func TestC02_Small(t *testing.T) {
	r := evid.Get(id)
	evid.Finish(t, r)
	r.SetRule("(small) rapid: the exported pipeline components wired as builder.newPipeline wires them, with chunk in {64,128,4096} and branching in {2,3,4,128}: number of chunks around powers of the branching / m full groups + lone / trie capacity / uniform, ragged or exact last chunk, two independent write segmentations; oracle: Sum() of both == independent tree hash with the same parameters (full-width BMT as the pooled hasher), stored chunk set == reference chunk set. Non-trivial = >= 2 chunks; distinct by hash of the drawn case")
	// exhaustive small sweep: every chunk count 1..40 for branching 2 and 3, exact and ragged tail
	sweepB := []int{2, 3}
	if os.Getenv("VERIF_RANDOM_ONLY") != "" {
		sweepB = nil
	}
	for _, b := range sweepB {
		for n := 1; n <= 40; n++ {
			for _, tail := range []int{0, 1} {
				l := n*64 - tail
				c := smallCase{Chunk: 64, Branches: b, Len: l, Kind: fp.KindStream, Seed: uint64(n),
					A: seg{Writes: []int{l}}, B: seg{Writes: fp.CutsToWrites([]int{1, 63, 64, 65, l / 2, l - 1}, l)}}
				if sig, err := runSmall(c); err != nil {
					t.Fatalf("%s", evid.Violation(id, sig, fmt.Sprintf("%v case=%+v", err, c)))
				}
				nn, cls := smallClasses(c)
				r.Case(evid.Hash64("small", c), nn >= 2, append(cls, "deterministic-sweep")...)
			}
		}
	}
	evid.Checks(700)
	rapid.Check(t, func(t *rapid.T) {
		var c smallCase
		c.Chunk = rapid.SampledFrom([]int{64, 64, 128, 4096}).Draw(t, "chunk")
		c.Branches = rapid.SampledFrom([]int{2, 2, 3, 4, 128}).Draw(t, "branches")
		n := drawChunks(t, c.Branches, capChunks(c.Chunk, c.Branches))
		tail := rapid.SampledFrom([]int{0, 0, 1, c.Chunk - 1, -1}).Draw(t, "tail")
		if tail < 0 {
			tail = rapid.IntRange(0, c.Chunk-1).Draw(t, "tailU")
		}
		c.Len = n*c.Chunk - tail
		c.Kind = rapid.SampledFrom([]int{fp.KindStream, fp.KindStream, fp.KindTemplate, fp.KindZero}).Draw(t, "kind")
		c.Seed = rapid.Uint64Range(0, 1<<20).Draw(t, "seed")
		c.A = drawSeg(t, c.Len, c.Chunk, "a", false)
		c.B = drawSeg(t, c.Len, c.Chunk, "b", false)
		if sig, err := runSmall(c); err != nil {
			t.Fatalf("%s", evid.Violation(id, sig, fmt.Sprintf("%v case=%+v", err, c)))
		}
		nn, cls := smallClasses(c)
		r.Case(evid.Hash64("small", c), nn >= 2, cls...)
		r.Sample(c)
	})
}

// ---- deep: 3 levels with the real parameters (thorough, first shard) -----------------

type deepCase struct {
	Seed   uint64 `json:"seed"`
	Chunks int64  `json:"chunks"`
	Tail   int    `json:"tail"`
	SkewA  int    `json:"skew_a"`
	SkewB  int    `json:"skew_b"`
}

func runDeep(c deepCase) (string, error) {
	ctx := context.Background()
	v := fp.NewVirtual(c.Seed, c.Chunks, c.Tail)
	// reference: leaf references memoised per (template, length), then the format's levels
	memo := map[string][]byte{}
	tr := &ref.Tree{Chunks: map[string]*ref.Chunk{}}
	leaves := make([]ref.Leaf, 0, c.Chunks)
	for k := int64(0); k < c.Chunks; k++ {
		d := v.Chunk(k)
		key := fmt.Sprintf("%d/%d", fp.TemplateIndex(c.Seed, k), len(d))
		a, ok := memo[key]
		if !ok {
			sp := ref.Span(uint64(len(d)))
			a = ref.BMT(sp, d)
			memo[key] = a
			tr.Chunks[string(a)] = &ref.Chunk{Addr: a, Payload: append(append([]byte{}, sp...), d...)}
		}
		leaves = append(leaves, ref.Leaf{Ref: a, Span: uint64(len(d))})
	}
	root, inter, levels := ref.TreeFromLeaves(leaves, fp.Branches, ref.BmtBranches)
	for _, ch := range inter {
		if _, ok := tr.Chunks[string(ch.Addr)]; !ok {
			tr.Chunks[string(ch.Addr)] = ch
		}
	}
	if levels != 3 {
		return "", fmt.Errorf("harness: deep case has %d levels", levels)
	}
	for i, skew := range []int{c.SkewA, c.SkewB} {
		st := fp.NewRecStore()
		a, err := fp.UploadVirtual(ctx, st, v, false, skew)
		if err != nil {
			return id + "/upload-" + upErr(err), fmt.Errorf("deep segmentation %d: %v", i, err)
		}
		if !bytes.Equal(a.Bytes(), root) {
			return id + "/reference-differs-from-format", fmt.Errorf("deep segmentation %d (skew %d): reference %s, format tree hash %s", i, skew, a, hex.EncodeToString(root))
		}
		if err := sameChunkSet(st, tr); err != nil {
			return id + "/chunk-set", fmt.Errorf("deep segmentation %d: %v", i, err)
		}
	}
	return "", nil
}

func TestC02_Deep(t *testing.T) {
	r := evid.Get(id)
	evid.Finish(t, r)
	if !evid.Thorough() || (os.Getenv("VERIF_SHARD") != "" && os.Getenv("VERIF_SHARD") != "0") {
		t.Skip("the 3-level real-parameter file runs in the thorough tier, first shard only")
	}
	flag.Set("rapid.checks", "1")
	// one case costs a minute: do not spend the budget on shrinking it
	if f := flag.Lookup("rapid.shrinktime"); f != nil {
		old := f.Value.String()
		flag.Set("rapid.shrinktime", "1s")
		defer flag.Set("rapid.shrinktime", old)
	}
	rapid.Check(t, func(t *rapid.T) {
		var c deepCase
		c.Seed = rapid.Uint64Range(0, 1<<20).Draw(t, "seed")
		c.Chunks = int64(fp.Branches) + int64(rapid.SampledFrom([]int{1, 1, 2, 9}).Draw(t, "extra"))
		c.Tail = rapid.SampledFrom([]int{CS, 1, 31, CS - 1, 77777}).Draw(t, "tail")
		c.SkewA = 0
		c.SkewB = rapid.SampledFrom([]int{1, 4097, CS - 1}).Draw(t, "skew")
		if sig, err := runDeep(c); err != nil {
			t.Fatalf("%s", evid.Violation(id, sig, fmt.Sprintf("%v case=%+v", err, c)))
		}
		cls := []string{"real-params", "real-levels-3"}
		if c.Chunks == int64(fp.Branches)+1 {
			cls = append(cls, "real-lone-leaf-carried")
		}
		r.Case(evid.Hash64("deep", c), true, cls...)
		r.Sample(c)
	})
}
