package c06

import (
	"bytes"
	"context"
	"errors"
	"io"
	"sync"
	"time"

	"github.com/gauss-project/aurorafs/pkg/boson"
	"github.com/gauss-project/aurorafs/pkg/chunkinfo"
	"github.com/gauss-project/aurorafs/pkg/p2p"
	"github.com/gauss-project/aurorafs/pkg/retrieval/aco"
	"github.com/gauss-project/aurorafs/pkg/routetab"
	"github.com/gauss-project/aurorafs/pkg/storage"
)

// ---- recording store ---------------------------------------------------------

type putRec struct {
	Mode storage.ModePut
	Addr []byte
	Data []byte
}

// recStore is an in-memory storage.Storer which records every Put (bytes copied).
type recStore struct {
	mu   sync.Mutex
	puts []putRec
	m    map[string][]byte
}

func newRecStore() *recStore { return &recStore{m: map[string][]byte{}} }

func (s *recStore) Put(_ context.Context, mode storage.ModePut, chs ...boson.Chunk) ([]bool, error) {
	s.mu.Lock()
	defer s.mu.Unlock()
	exist := make([]bool, len(chs))
	for i, ch := range chs {
		a := append([]byte{}, ch.Address().Bytes()...)
		d := append([]byte{}, ch.Data()...)
		s.puts = append(s.puts, putRec{Mode: mode, Addr: a, Data: d})
		if _, ok := s.m[string(a)]; ok {
			exist[i] = true
			continue
		}
		s.m[string(a)] = d
	}
	return exist, nil
}

func (s *recStore) Get(_ context.Context, _ storage.ModeGet, addr boson.Address) (boson.Chunk, error) {
	s.mu.Lock()
	defer s.mu.Unlock()
	d, ok := s.m[string(addr.Bytes())]
	if !ok {
		return nil, storage.ErrNotFound
	}
	return boson.NewChunk(boson.NewAddress(append([]byte{}, addr.Bytes()...)), append([]byte{}, d...)), nil
}

func (s *recStore) GetMulti(ctx context.Context, mode storage.ModeGet, addrs ...boson.Address) ([]boson.Chunk, error) {
	var out []boson.Chunk
	for _, a := range addrs {
		c, err := s.Get(ctx, mode, a)
		if err != nil {
			return nil, err
		}
		out = append(out, c)
	}
	return out, nil
}

func (s *recStore) Has(_ context.Context, _ storage.ModeHas, addr boson.Address) (bool, error) {
	s.mu.Lock()
	defer s.mu.Unlock()
	_, ok := s.m[string(addr.Bytes())]
	return ok, nil
}

func (s *recStore) HasMulti(ctx context.Context, mode storage.ModeHas, addrs ...boson.Address) ([]bool, error) {
	out := make([]bool, len(addrs))
	for i, a := range addrs {
		out[i], _ = s.Has(ctx, mode, a)
	}
	return out, nil
}

func (s *recStore) Set(context.Context, storage.ModeSet, ...boson.Address) error { return nil }
func (s *recStore) Close() error                                                { return nil }

func (s *recStore) snapshotPuts() []putRec {
	s.mu.Lock()
	defer s.mu.Unlock()
	return append([]putRec{}, s.puts...)
}

// ---- hostile peer stream -------------------------------------------------------

// byteStream is a p2p.Stream whose read side serves a fixed byte string and then
// reports EOF (the remote closed its side); writes are collected.
type byteStream struct {
	mu      sync.Mutex
	r       *bytes.Reader
	written bytes.Buffer
}

func newByteStream(reply []byte) *byteStream { return &byteStream{r: bytes.NewReader(reply)} }

func (b *byteStream) Read(p []byte) (int, error) {
	b.mu.Lock()
	defer b.mu.Unlock()
	return b.r.Read(p)
}
func (b *byteStream) Write(p []byte) (int, error) {
	b.mu.Lock()
	defer b.mu.Unlock()
	return b.written.Write(p)
}
func (b *byteStream) Close() error                 { return nil }
func (b *byteStream) FullClose() error             { return nil }
func (b *byteStream) Reset() error                 { return nil }
func (b *byteStream) ResponseHeaders() p2p.Headers { return nil }
func (b *byteStream) Headers() p2p.Headers         { return nil }

var _ p2p.Stream = (*byteStream)(nil)
var _ io.ReadWriter = (*byteStream)(nil)

// scriptedStreamer hands out one scripted reply per NewStream call, in order.
type scriptedStreamer struct {
	mu      sync.Mutex
	replies [][]byte
	calls   int
	peers   []string
}

func (s *scriptedStreamer) NewStream(_ context.Context, address boson.Address, _ p2p.Headers, _, _, _ string) (p2p.Stream, error) {
	s.mu.Lock()
	defer s.mu.Unlock()
	i := s.calls
	s.calls++
	s.peers = append(s.peers, address.String())
	if i >= len(s.replies) {
		return nil, errors.New("verif: no more scripted replies")
	}
	return newByteStream(s.replies[i]), nil
}

func (s *scriptedStreamer) NewRelayStream(ctx context.Context, address boson.Address, h p2p.Headers, protocol, version, stream string, _ bool) (p2p.Stream, error) {
	return s.NewStream(ctx, address, h, protocol, version, stream)
}

func (s *scriptedStreamer) NewConnChainRelayStream(ctx context.Context, address boson.Address, h p2p.Headers, protocol, version, stream string) (p2p.Stream, error) {
	return s.NewStream(ctx, address, h, protocol, version, stream)
}

func (s *scriptedStreamer) callCount() int {
	s.mu.Lock()
	defer s.mu.Unlock()
	return s.calls
}

// ---- route table / chunkinfo stubs ---------------------------------------------

// okRouteTab: every peer is directly connectable. Only Connect and FindRoute are
// used by the retrieval client; the embedded nil interface makes any other use
// visible (nil dereference -> recovered as an error of the harness, not of the code).
type okRouteTab struct{ routetab.RouteTab }

func (okRouteTab) Connect(context.Context, boson.Address) error { return nil }
func (okRouteTab) FindRoute(context.Context, boson.Address, ...time.Duration) ([]*routetab.Path, error) {
	return nil, nil
}

// ciStub records OnChunkRetrieved reports.
type ciStub struct {
	chunkinfo.Interface
	mu        sync.Mutex
	retrieved []string
}

func (c *ciStub) OnChunkRetrieved(cid, rootCid, source boson.Address) error {
	c.mu.Lock()
	defer c.mu.Unlock()
	c.retrieved = append(c.retrieved, cid.String())
	return nil
}

func (c *ciStub) GetChunkInfo(boson.Address, boson.Address) []aco.Route { return nil }
