package c06

import (
	"bytes"
	"context"
	"encoding/binary"
	"fmt"
	"io"
	"math/big"
	"testing"
	"time"

	accmock "github.com/gauss-project/aurorafs/pkg/accounting/mock"
	"github.com/gauss-project/aurorafs/pkg/boson"
	"github.com/gauss-project/aurorafs/pkg/cac"
	"github.com/gauss-project/aurorafs/pkg/crypto"
	"github.com/gauss-project/aurorafs/pkg/logging"
	"github.com/gauss-project/aurorafs/pkg/p2p/protobuf"
	"github.com/gauss-project/aurorafs/pkg/retrieval"
	"github.com/gauss-project/aurorafs/pkg/retrieval/pb"
	"github.com/gauss-project/aurorafs/pkg/sctx"
	"github.com/gauss-project/aurorafs/pkg/soc"
	"github.com/sirupsen/logrus"
	"pgregory.net/rapid"
	"verifharness/internal/evid"
	"verifharness/internal/ref"
)

const id = "C06"

const (
	sigRetrStored   = "C06/retrieval-stores-invalid-chunk"
	sigRetrReturned = "C06/retrieval-returns-invalid-chunk"
	sigRetrHonest   = "C06/retrieval-rejects-honest-chunk"
	sigPanic        = "C06/panic-in-code-under-test"
	sigHarness      = "C06/harness-error"
)

// reply is one scripted answer of the remote peer to one retrieval stream.
type reply struct {
	Kind string `json:"kind"`
	A    int    `json:"a,omitempty"`
	B    int    `json:"b,omitempty"`
}

// rcase is one retrieval case: the chunk asked for, the root context, and the
// replies the remote side gives to the successive streams the client opens.
type rcase struct {
	SOC      bool    `json:"soc"`
	DataLen  int     `json:"data_len"`  // bytes of chunk data (without span)
	Seed     int     `json:"seed"`      // content seed
	ZeroTail int     `json:"zero_tail"` // trailing zero bytes inside the data
	SpanMode int     `json:"span_mode"` // 0: span = len(data); 1: larger span (intermediate-like chunk)
	RootSame bool    `json:"root_same"` // root address == chunk address (single chunk file)
	Targets  int     `json:"targets"`   // 1..2 peers named by the request context
	Replies  []reply `json:"replies"`
}

func fill(n int, seed int) []byte {
	b := make([]byte, n)
	x := uint32(seed)*2654435761 + 12345
	for i := range b {
		x = x*1664525 + 1013904223
		v := byte(x >> 24)
		if v == 0 {
			v = 0x5a
		}
		b[i] = v
	}
	return b
}

var targetAddrs = []boson.Address{
	boson.NewAddress(bytes.Repeat([]byte{0x11}, 32)),
	boson.NewAddress(bytes.Repeat([]byte{0x22}, 32)),
}

// honestChunk builds the chunk the way honest uploaders do (cac.New /
// cac.NewWithDataSpan / soc.Sign) and cross-checks it against the reference.
func honestChunk(c rcase) (addr []byte, payload []byte, err error) {
	data := fill(c.DataLen, c.Seed)
	zt := c.ZeroTail
	if zt > len(data)-1 {
		zt = len(data) - 1
	}
	for i := 0; i < zt; i++ {
		data[len(data)-1-i] = 0
	}
	var ch boson.Chunk
	if c.SpanMode == 0 {
		ch, err = cac.New(data)
	} else {
		span := make([]byte, 8)
		binary.LittleEndian.PutUint64(span, uint64(len(data))+uint64(c.Seed%7+1)*uint64(boson.ChunkSize))
		ch, err = cac.NewWithDataSpan(append(span, data...))
	}
	if err != nil {
		return nil, nil, err
	}
	if c.SOC {
		keyBytes := ref.Keccak([]byte("c06-key"), []byte{byte(c.Seed), byte(c.Seed >> 8)})
		keyBytes[0] &= 0x7f // < group order, non-zero with overwhelming probability
		keyBytes[31] |= 1
		priv, e := crypto.DecodeSecp256k1PrivateKey(keyBytes)
		if e != nil {
			return nil, nil, e
		}
		sid := ref.Keccak([]byte("c06-id"), []byte{byte(c.Seed)})
		sch, e := soc.New(sid, ch).Sign(crypto.NewDefaultSigner(priv))
		if e != nil {
			return nil, nil, e
		}
		ch = sch
	}
	addr = append([]byte{}, ch.Address().Bytes()...)
	payload = append([]byte{}, ch.Data()...)
	if !refValid(addr, payload) {
		return nil, nil, fmt.Errorf("honest chunk not valid under the reference (soc=%v len=%d)", c.SOC, len(payload))
	}
	return addr, payload, nil
}

func varint(n uint64) []byte {
	b := make([]byte, binary.MaxVarintLen64)
	return b[:binary.PutUvarint(b, n)]
}

// frame encodes a Delivery{Data: data} the way the wire protocol does:
// varint(len(msg)) || msg, msg = field 1 (bytes).
func frame(data []byte) []byte {
	var msg []byte
	if len(data) > 0 {
		msg = append(msg, 0x0a)
		msg = append(msg, varint(uint64(len(data)))...)
		msg = append(msg, data...)
	}
	return append(varint(uint64(len(msg))), msg...)
}

// honestFrame uses the repository's own writer, as an honest peer does.
func honestFrame(data []byte) ([]byte, error) {
	var buf bytes.Buffer
	w := protobuf.NewWriter(&buf)
	if err := w.WriteMsg(&pb.Delivery{Data: data}); err != nil {
		return nil, err
	}
	return buf.Bytes(), nil
}

var secpN, _ = new(big.Int).SetString("fffffffffffffffffffffffffffffffebaaedce6af48a03bbfd25e8cd0364141", 16)

// buildReply returns the bytes served on the stream and whether the reply is the
// honest one (the unmodified valid chunk in a well-formed frame).
func buildReply(r reply, c rcase, payload, rootPayload []byte) (wire []byte, honest bool, err error) {
	cp := func(b []byte) []byte { return append([]byte{}, b...) }
	socHdr := 0
	if c.SOC {
		socHdr = socIDSize + socSigSize
	}
	switch r.Kind {
	case "honest":
		w, e := honestFrame(payload)
		return w, true, e
	case "truncated": // well-formed frame, payload cut
		return frame(payload[:r.A%len(payload)]), false, nil
	case "extended": // extra non-zero bytes appended
		return frame(append(cp(payload), fill(r.A%64+1, r.B)...)), false, nil
	case "zero-extended": // extra zero bytes: same BMT hash while within the size limit
		return frame(append(cp(payload), make([]byte, r.A%64+1)...)), false, nil
	case "bitflip":
		p := cp(payload)
		p[r.A%len(p)] ^= byte(r.B%255 + 1)
		return frame(p), false, nil
	case "other-chunk": // a valid chunk, but for another address
		o, e := cac.New(fill(r.A%300+1, r.B+7777))
		if e != nil {
			return nil, false, e
		}
		if bytes.Equal(o.Data(), payload) {
			return frame(append(cp(o.Data()), 1)), false, nil
		}
		return frame(o.Data()), false, nil
	case "root-chunk": // the valid chunk of the root address (differs from the asked one unless root_same)
		if c.RootSame {
			w, e := honestFrame(payload)
			return w, true, e
		}
		return frame(rootPayload), false, nil
	case "oversized": // first 256KiB+8 bytes hash to the address, then more bytes follow
		p := make([]byte, socHdr+ref.SpanSize+ref.ChunkSize+r.A%96+1)
		copy(p, payload)
		copy(p[socHdr+ref.SpanSize+ref.ChunkSize:], fill(r.A%96+1, r.B))
		return frame(p), false, nil
	case "oversized-random":
		return frame(fill(ref.SpanSize+ref.ChunkSize+r.A%4096+1, r.B)), false, nil
	case "empty-stream":
		return nil, false, nil
	case "empty-data":
		return frame(nil), false, nil
	case "short-data": // fewer than 8 bytes
		return frame(fill(r.A%8, r.B)), false, nil
	case "garbage":
		return fill(r.A%200+1, r.B), false, nil
	case "frame-truncated": // honest frame, stream closed early
		w, e := honestFrame(payload)
		if e != nil {
			return nil, false, e
		}
		return w[:r.A%len(w)], false, nil
	case "huge-length-prefix":
		return append(varint(uint64(2<<20+r.A)), fill(64, r.B)...), false, nil
	case "bad-then-honest-frame": // only the first frame counts
		w, e := honestFrame(payload)
		p := cp(payload)
		p[r.A%len(p)] ^= byte(r.B%255 + 1)
		return append(frame(p), w...), false, e
	case "honest-then-garbage": // first frame is the honest one
		w, e := honestFrame(payload)
		return append(w, fill(r.A%50+1, r.B)...), true, e
	case "soc-flag-bit": // recovery byte XOR 4 (compressed-key flag): same owner recovered
		p := cp(payload)
		if c.SOC {
			p[socIDSize+64] ^= 4
		} else {
			p[r.A%len(p)] ^= 4
		}
		return frame(p), false, nil
	case "soc-high-s": // (r, N-s, v^1): the classic malleated twin
		p := cp(payload)
		if c.SOC {
			s := new(big.Int).SetBytes(p[socIDSize+32 : socIDSize+64])
			s.Sub(secpN, s)
			sb := s.Bytes()
			for i := socIDSize + 32; i < socIDSize+64; i++ {
				p[i] = 0
			}
			copy(p[socIDSize+64-len(sb):socIDSize+64], sb)
			p[socIDSize+64] = ((p[socIDSize+64]-27)^1) + 27
		} else {
			p[r.A%len(p)] ^= 1
		}
		return frame(p), false, nil
	case "soc-unwrapped": // only the wrapped content chunk of a SOC / a CAC wrapped in a forged SOC header
		if c.SOC {
			return frame(payload[socHdr:]), false, nil
		}
		return frame(append(fill(socIDSize+socSigSize, r.B), payload...)), false, nil
	case "soc-other-owner": // same id and content signed by a different key
		if !c.SOC {
			return frame(append(cp(payload), 0x01)), false, nil
		}
		keyBytes := ref.Keccak([]byte("c06-otherkey"), []byte{byte(r.B)})
		keyBytes[0] &= 0x7f
		keyBytes[31] |= 1
		priv, e := crypto.DecodeSecp256k1PrivateKey(keyBytes)
		if e != nil {
			return nil, false, e
		}
		inner, e := cac.NewWithDataSpan(cp(payload[socHdr:]))
		if e != nil {
			return nil, false, e
		}
		sch, e := soc.New(cp(payload[:socIDSize]), inner).Sign(crypto.NewDefaultSigner(priv))
		if e != nil {
			return nil, false, e
		}
		return frame(sch.Data()), false, nil
	case "unknown-field": // valid data plus a protobuf field the schema does not know
		msg := append([]byte{0x0a}, varint(uint64(len(payload)))...)
		msg = append(msg, payload...)
		msg = append(msg, 0x10, byte(r.A%128))
		return append(varint(uint64(len(msg))), msg...), false, nil
	}
	return nil, false, fmt.Errorf("unknown reply kind %q", r.Kind)
}

var replyKinds = []string{
	"honest", "honest", "truncated", "extended", "zero-extended", "bitflip", "bitflip", "other-chunk", "root-chunk",
	"oversized", "oversized-random", "empty-stream", "empty-data", "short-data", "garbage", "frame-truncated",
	"huge-length-prefix", "bad-then-honest-frame", "honest-then-garbage", "soc-flag-bit", "soc-high-s",
	"soc-unwrapped", "soc-other-owner", "unknown-field",
}

// harnessProblem: the harness could not even build its own honest fixture. That says
// nothing about the property, so it never fails the check; it is counted and noted in
// the evidence (the count must be zero in a healthy run).
func harnessProblem(r *evid.Rec, sig string, err error) bool {
	if sig != sigHarness {
		return false
	}
	r.Class("HARNESS-ERROR(case skipped)")
	r.Note("harness error, case skipped: " + err.Error())
	return true
}

type rresult struct {
	consumed []string // kinds of the replies the client actually read
	accepted bool
}

// runRetrieval executes one case against the real retrieval client.
func runRetrieval(c rcase) (res rresult, sig string, err error) {
	defer func() {
		if e := recover(); e != nil {
			sig, err = sigPanic, fmt.Errorf("panic: %v", e)
		}
	}()
	addr, payload, e := honestChunk(c)
	if e != nil {
		return res, sigHarness, e
	}
	rootAddr, rootPayload := addr, payload
	if !c.RootSame {
		rc, e := cac.New(fill(c.Seed%500+40, c.Seed+991))
		if e != nil {
			return res, sigHarness, e
		}
		rootAddr, rootPayload = rc.Address().Bytes(), rc.Data()
		if bytes.Equal(rootAddr, addr) {
			return res, sigHarness, fmt.Errorf("root collides with chunk")
		}
	}
	var wires [][]byte
	var honest []bool
	for _, r := range c.Replies {
		w, h, e := buildReply(r, c, payload, rootPayload)
		if e != nil {
			return res, sigHarness, e
		}
		wires = append(wires, w)
		honest = append(honest, h)
	}
	st := newRecStore()
	streamer := &scriptedStreamer{replies: wires}
	ci := &ciStub{}
	svc := retrieval.New(boson.NewAddress(bytes.Repeat([]byte{0xee}, 32)), streamer, okRouteTab{}, st, true,
		logging.New(io.Discard, logrus.PanicLevel), nil, accmock.NewAccounting(), nil)
	svc.Config(ci)

	targets := targetAddrs[0].String()
	if c.Targets > 1 {
		targets += "," + targetAddrs[1].String()
	}
	ctx, cancel := context.WithTimeout(sctx.SetTargets(context.Background(), targets), 60*time.Second)
	defer cancel()
	t0 := time.Now()
	got, rerr := svc.RetrieveChunk(ctx, boson.NewAddress(rootAddr), boson.NewAddress(addr))
	slow := time.Since(t0) > 5*time.Second // the client's own 10 s retry ticker may have fired: sequencing model void

	n := streamer.callCount()
	if n > len(c.Replies) {
		n = len(c.Replies)
	}
	for i := 0; i < n; i++ {
		res.consumed = append(res.consumed, c.Replies[i].Kind)
	}
	res.accepted = rerr == nil

	kindOf := func(data []byte) string {
		for i, r := range c.Replies {
			if bytes.Contains(wires[i], data) && len(data) > 0 {
				return r.Kind
			}
		}
		return "?"
	}
	// (1) everything handed to the local store is valid for the address it is stored under
	for _, p := range st.snapshotPuts() {
		if !refValid(p.Addr, p.Data) {
			return res, sigRetrStored, fmt.Errorf("stored chunk %x with %d bytes (reply kind %s) which is neither a valid content-addressed nor a valid single-owner chunk for that address",
				p.Addr, len(p.Data), kindOf(p.Data))
		}
	}
	// (2) everything handed to the requester is valid for the address that was asked for
	if rerr == nil {
		if got == nil {
			return res, sigRetrReturned, fmt.Errorf("nil chunk returned without error")
		}
		if !bytes.Equal(got.Address().Bytes(), addr) {
			return res, sigRetrReturned, fmt.Errorf("asked for %x, got chunk with address %s", addr, got.Address())
		}
		if !refValid(addr, got.Data()) {
			return res, sigRetrReturned, fmt.Errorf("returned %d bytes (reply kind %s) which are not a valid chunk for %x", len(got.Data()), kindOf(got.Data()), addr)
		}
	}
	// (3) sanity against vacuity: an honest delivery among the replies the client read is accepted
	if !slow {
		for i := 0; i < n; i++ {
			if honest[i] {
				if rerr != nil {
					return res, sigRetrHonest, fmt.Errorf("reply #%d was the honest chunk in a well-formed frame, RetrieveChunk failed: %v", i, rerr)
				}
				if !bytes.Equal(got.Data(), payload) {
					return res, sigRetrHonest, fmt.Errorf("honest chunk delivered but different bytes returned")
				}
				break
			}
		}
	}
	return res, "", nil
}

func genRetrievalCase(t *rapid.T) rcase {
	var c rcase
	c.SOC = rapid.IntRange(0, 2).Draw(t, "soc") == 0
	maxData := ref.ChunkSize
	c.DataLen = rapid.OneOf(
		rapid.IntRange(1, 200),
		rapid.IntRange(1, 200),
		rapid.IntRange(1, 4096),
		rapid.SampledFrom([]int{1, 31, 32, 33, 64, 4096, maxData - 1, maxData}),
	).Draw(t, "data_len")
	c.Seed = rapid.IntRange(0, 1<<16-1).Draw(t, "seed")
	if rapid.IntRange(0, 3).Draw(t, "zt") == 0 {
		c.ZeroTail = rapid.IntRange(1, 40).Draw(t, "zero_tail")
	}
	if rapid.IntRange(0, 3).Draw(t, "sm") == 0 {
		c.SpanMode = 1
	}
	c.RootSame = rapid.IntRange(0, 2).Draw(t, "root_same") == 0
	c.Targets = rapid.IntRange(1, 2).Draw(t, "targets")
	n := rapid.IntRange(1, 4).Draw(t, "nreplies")
	for i := 0; i < n; i++ {
		c.Replies = append(c.Replies, reply{
			Kind: rapid.SampledFrom(replyKinds).Draw(t, "kind"),
			A:    rapid.IntRange(0, 1<<20).Draw(t, "a"),
			B:    rapid.IntRange(0, 1<<16).Draw(t, "b"),
		})
	}
	return c
}

func recordRetrieval(r *evid.Rec, c rcase, res rresult) {
	adversarial := false
	cls := []string{"retrieval"}
	for _, k := range res.consumed {
		cls = append(cls, "reply:"+k)
		if k != "honest" && !(k == "root-chunk" && c.RootSame) {
			adversarial = true
		}
	}
	if c.SOC {
		cls = append(cls, "retrieval:soc-address")
	} else {
		cls = append(cls, "retrieval:cac-address")
	}
	if c.DataLen >= ref.ChunkSize-1 {
		cls = append(cls, "retrieval:full-size-chunk")
	}
	if res.accepted {
		cls = append(cls, "retrieval:accepted")
		if len(res.consumed) > 1 {
			cls = append(cls, "retrieval:accepted-after-rejected-replies")
		}
	} else {
		cls = append(cls, "retrieval:rejected")
	}
	if !c.RootSame {
		cls = append(cls, "retrieval:root-differs-from-chunk")
	}
	r.Case(evid.Hash64("retrieval", c), adversarial, cls...)
	r.Sample(map[string]interface{}{"target": "retrieval", "case": c, "accepted": res.accepted})
}

const ruleRetrieval = "retrieval: rapid draws the asked chunk (content-addressed or single-owner; data 1..256KiB incl. boundaries; optional zero tail; span = len or larger), root context (same/different address), 1-2 peers named in the request context and 1-4 scripted peer replies out of: honest, truncated, extended, zero-extended, bit-flipped, valid chunk of another address, valid chunk of the root address, oversized with correct 256KiB+8 prefix, oversized random, empty stream, empty/short data, garbage bytes, frame cut short, >1MiB length prefix, two frames, SOC recovery-flag bit / high-S twin / unwrapped / other owner, unknown protobuf field. The real retrieval.Service.RetrieveChunk runs against a scripted p2p.Streamer; oracle: every storer.Put and the returned chunk satisfy RefCACValid or RefSOCValid for the address stored under / asked for, and an honest delivery that the client read is accepted. Non-trivial = at least one reply the client read was not the honest one; distinct by hash of the case"

func TestC06_Retrieval(t *testing.T) {
	r := evid.Get(id)
	evid.Finish(t, r)
	r.SetRule(ruleRetrieval)

	// deterministic sweep: every reply kind alone and followed by the honest reply, for both chunk kinds
	for _, isSOC := range []bool{false, true} {
		for _, k := range replyKinds[1:] {
			for _, dl := range []int{100, ref.ChunkSize} {
				if dl == ref.ChunkSize && !(k == "oversized" || k == "honest" || k == "zero-extended" || k == "extended" || k == "truncated") {
					continue
				}
				for _, tail := range [][]reply{nil, {{Kind: "honest"}}} {
					c := rcase{SOC: isSOC, DataLen: dl, Seed: 3, RootSame: false, Targets: 1,
						Replies: append([]reply{{Kind: k, A: 13, B: 5}}, tail...)}
					res, sig, err := runRetrieval(c)
					if err != nil {
						if harnessProblem(r, sig, err) {
							continue
						}
						t.Fatalf("%s", evid.Violation(id, sig, fmt.Sprintf("%v case=%+v", err, c)))
					}
					recordRetrieval(r, c, res)
				}
			}
		}
	}

	evid.Checks(1000)
	rapid.Check(t, func(t *rapid.T) {
		c := genRetrievalCase(t)
		res, sig, err := runRetrieval(c)
		if err != nil {
			if harnessProblem(r, sig, err) {
				return
			}
			t.Fatalf("%s", evid.Violation(id, sig, fmt.Sprintf("%v case=%+v", err, c)))
		}
		recordRetrieval(r, c, res)
	})
}
