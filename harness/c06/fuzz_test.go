package c06

import (
	"bytes"
	"context"
	"encoding/hex"
	"io"
	"os"
	"path/filepath"
	"sync"
	"testing"
	"time"

	accmock "github.com/gauss-project/aurorafs/pkg/accounting/mock"
	"github.com/gauss-project/aurorafs/pkg/boson"
	"github.com/gauss-project/aurorafs/pkg/logging"
	"github.com/gauss-project/aurorafs/pkg/retrieval"
	"github.com/gauss-project/aurorafs/pkg/sctx"
	"github.com/gauss-project/aurorafs/pkg/traversal"
	"github.com/sirupsen/logrus"
	"verifharness/internal/evid"
	"verifharness/internal/ref"
)

// ---- native fuzz target 1: raw bytes on the retrieval delivery stream -----------

// One long-lived retrieval.Service per fuzz worker (its constructor starts a goroutine
// that never ends); every execution gives it a new peer script and an empty store.
type fuzzRig struct {
	svc      *retrieval.Service
	streamer *scriptedStreamer
	store    *recStore
	chunks   []struct{ addr, payload []byte }
}

var (
	rigOnce sync.Once
	rig     *fuzzRig
	rigErr  error
)

func fuzzChunks() ([]rcase, error) {
	return []rcase{
		{SOC: false, DataLen: 100, Seed: 1},
		{SOC: true, DataLen: 100, Seed: 2},
		{SOC: false, DataLen: 64, Seed: 3, SpanMode: 1},
		{SOC: false, DataLen: 40, Seed: 4, ZeroTail: 8},
	}, nil
}

func getRig() (*fuzzRig, error) {
	rigOnce.Do(func() {
		r := &fuzzRig{streamer: &scriptedStreamer{}, store: newRecStore()}
		cs, _ := fuzzChunks()
		for _, c := range cs {
			a, p, err := honestChunk(c)
			if err != nil {
				rigErr = err
				return
			}
			r.chunks = append(r.chunks, struct{ addr, payload []byte }{a, p})
		}
		r.svc = retrieval.New(boson.NewAddress(bytes.Repeat([]byte{0xee}, 32)), r.streamer, okRouteTab{}, r.store, true,
			logging.New(io.Discard, logrus.PanicLevel), nil, accmock.NewAccounting(), nil)
		r.svc.Config(&ciStub{})
		rig = r
	})
	return rig, rigErr
}

func FuzzC06_Delivery(f *testing.F) {
	cs, _ := fuzzChunks()
	for i, c := range cs {
		_, p, err := honestChunk(c)
		if err != nil {
			f.Fatal(err)
		}
		hf, _ := honestFrame(p)
		f.Add(uint8(i), hf)
		f.Add(uint8(i), frame(append(append([]byte{}, p...), 0)))
		f.Add(uint8(i), frame(p[:len(p)-1]))
		f.Add(uint8((i+1)%len(cs)), hf)
		f.Add(uint8(i), append(append([]byte{}, hf...), hf...))
	}
	f.Add(uint8(0), []byte{})
	f.Add(uint8(1), []byte{0x80, 0x80, 0x80, 0x01})
	addCorpusDir(f, "delivery", func(b []byte) {
		if len(b) > 0 {
			f.Add(b[0], b[1:])
		}
	})
	f.Fuzz(func(t *testing.T, which uint8, wire []byte) {
		r, err := getRig()
		if err != nil {
			t.Skip(err)
		}
		ch := r.chunks[int(which)%len(r.chunks)]
		// fresh peer script and fresh store for this execution
		r.streamer.mu.Lock()
		r.streamer.replies = [][]byte{wire, wire}
		r.streamer.calls = 0
		r.streamer.peers = nil
		r.streamer.mu.Unlock()
		r.store.mu.Lock()
		r.store.puts = nil
		r.store.m = map[string][]byte{}
		r.store.mu.Unlock()

		ctx, cancel := context.WithTimeout(sctx.SetTargets(context.Background(), targetAddrs[0].String()), 30*time.Second)
		defer cancel()
		var got boson.Chunk
		var rerr error
		func() {
			defer func() {
				if e := recover(); e != nil {
					t.Fatalf("%s", evid.Violation(id, sigPanic, "panic in RetrieveChunk: "+toString(e)+" wire="+hex.EncodeToString(clip(wire))))
				}
			}()
			got, rerr = r.svc.RetrieveChunk(ctx, boson.NewAddress(ch.addr), boson.NewAddress(ch.addr))
		}()
		for _, p := range r.store.snapshotPuts() {
			if !refValid(p.Addr, p.Data) {
				t.Fatalf("%s", evid.Violation(id, sigRetrStored, "stored invalid chunk of "+itoa(len(p.Data))+" bytes under "+hex.EncodeToString(p.Addr)+" wire="+hex.EncodeToString(clip(wire))))
			}
		}
		if rerr == nil {
			if got == nil || !bytes.Equal(got.Address().Bytes(), ch.addr) || !refValid(ch.addr, got.Data()) {
				t.Fatalf("%s", evid.Violation(id, sigRetrReturned, "returned invalid chunk for "+hex.EncodeToString(ch.addr)+" wire="+hex.EncodeToString(clip(wire))))
			}
		}
	})
}

// ---- native fuzz target 2: altered pyramid maps ------------------------------------

type pyrFixture struct {
	root boson.Address
	pyr  map[string][]byte
	keys []string
}

var (
	fixOnce sync.Once
	fixes   []pyrFixture
	fixErr  error
)

// Fixtures without multi-chunk files: no intermediate chunks, hence no ragged
// reference lists reachable by hash-preserving edits (see checks.d/C06.json).
func getFixtures() ([]pyrFixture, error) {
	fixOnce.Do(func() {
		ctx := context.Background()
		for _, c := range []pcase{
			{Files: []fileSpec{{Len: 100, Seed: 1}}},
			{Manifest: true, Files: []fileSpec{{Len: 10, Seed: 3}, {Len: 2000, Seed: 4}}},
			{Manifest: true, Files: []fileSpec{{Len: 77, Seed: 5}}},
		} {
			root, pyr, err := buildHonest(ctx, c)
			if err != nil {
				fixErr = err
				return
			}
			fixes = append(fixes, pyrFixture{root: root, pyr: pyr, keys: sortedKeys(pyr)})
		}
	})
	return fixes, fixErr
}

func FuzzC06_Pyramid(f *testing.F) {
	for fx := uint8(0); fx < 3; fx++ {
		for op := uint8(0); op < 6; op++ {
			f.Add(fx, uint8(0), op, uint16(9), []byte{1})
			f.Add(fx, uint8(1), op, uint16(40), bytes.Repeat([]byte{0}, 40))
			f.Add(fx, uint8(2), op, uint16(0), append(bytes.Repeat([]byte{0xab}, 32), 8, 0, 0, 0, 0, 0, 0, 0, 1, 2, 3, 4, 5, 6, 7, 8))
		}
	}
	addCorpusDir(f, "pyramid", func(b []byte) {
		if len(b) >= 5 {
			f.Add(b[0], b[1], b[2], uint16(b[3])<<8|uint16(b[4]), b[5:])
		}
	})
	known := evid.Known(sigPyrOversized)
	f.Fuzz(func(t *testing.T, fx, which, op uint8, pos uint16, val []byte) {
		fs, err := getFixtures()
		if err != nil {
			t.Skip(err)
		}
		fix := fs[int(fx)%len(fs)]
		pyr := make(map[string][]byte, len(fix.pyr)+1)
		for k, v := range fix.pyr {
			pyr[k] = append([]byte{}, v...)
		}
		tk := fix.keys[int(which)%len(fix.keys)]
		tv := pyr[tk]
		switch op % 6 {
		case 0: // replace the value
			pyr[tk] = append([]byte{}, val...)
		case 1: // xor val into the value at pos
			for i, b := range val {
				if p := int(pos) + i; p < len(tv) {
					tv[p] ^= b
				}
			}
		case 2: // append val
			pyr[tk] = append(tv, val...)
		case 3: // new entry: key = first 32 bytes (or fewer), value = rest
			n := 32
			if len(val) < n {
				n = len(val)
			}
			pyr[hex.EncodeToString(val[:n])] = append([]byte{}, val[n:]...)
		case 4: // truncate
			if len(tv) > 0 {
				pyr[tk] = tv[:int(pos)%len(tv)]
			}
		case 5: // pad to 256KiB+8, then append val: the known-finding shape when val is not empty
			if known && len(val) > 0 {
				t.Skip("known finding shape " + sigPyrOversized)
			}
			v := make([]byte, ref.SpanSize+ref.ChunkSize, ref.SpanSize+ref.ChunkSize+len(val))
			copy(v, tv)
			pyr[tk] = append(v, val...)
		}
		dst := newRecStore()
		func() {
			defer func() {
				if e := recover(); e != nil {
					t.Fatalf("%s", evid.Violation(id, sigPanic, "panic in GetChunkHashes: "+toString(e)))
				}
			}()
			_, _, _ = traversal.New(dst).GetChunkHashes(context.Background(), fix.root, pyr)
		}()
		for _, p := range dst.snapshotPuts() {
			if refValid(p.Addr, p.Data) {
				continue
			}
			if len(p.Data) > ref.ChunkSize+ref.SpanSize && ref.CACValid(p.Addr, p.Data[:ref.ChunkSize+ref.SpanSize]) {
				if known {
					t.Skip("known finding shape " + sigPyrOversized)
				}
				t.Fatalf("%s", evid.Violation(id, sigPyrOversized, "stored "+itoa(len(p.Data))+" bytes under "+hex.EncodeToString(p.Addr)))
			}
			t.Fatalf("%s", evid.Violation(id, sigPyrStored, "stored "+itoa(len(p.Data))+" invalid bytes under "+hex.EncodeToString(p.Addr)))
		}
	})
}

// ---- helpers ------------------------------------------------------------------------

// addCorpusDir feeds every file of /verif/corpus/C06/<sub>/ as an extra seed.
func addCorpusDir(f *testing.F, sub string, add func([]byte)) {
	root := os.Getenv("VERIF_ROOT")
	if root == "" {
		root = "/verif"
	}
	files, _ := filepath.Glob(filepath.Join(root, "corpus", id, sub, "*"))
	for _, p := range files {
		if b, err := os.ReadFile(p); err == nil {
			add(b)
		}
	}
}

func clip(b []byte) []byte {
	if len(b) > 256 {
		return b[:256]
	}
	return b
}

func itoa(n int) string { return string(appendInt(nil, n)) }

func appendInt(b []byte, n int) []byte {
	if n < 0 {
		b = append(b, '-')
		n = -n
	}
	if n >= 10 {
		b = appendInt(b, n/10)
	}
	return append(b, byte('0'+n%10))
}

func toString(e interface{}) string {
	if s, ok := e.(string); ok {
		return s
	}
	if er, ok := e.(error); ok {
		return er.Error()
	}
	return "non-string panic value"
}
