package c06

import (
	"bytes"
	"fmt"

	ethcrypto "github.com/ethereum/go-ethereum/crypto"
	"verifharness/internal/ref"
)

const (
	socIDSize  = 32
	socSigSize = 65
	socMinSize = socIDSize + socSigSize + ref.SpanSize
)

// refSOCValid is an independent statement of single-owner chunk validity
// (property C05): payload = id(32) || sig(65: r||s||v) || span(8) || data(<= 256 KiB);
// the signature over keccak(id || BMT(span,data)) (EIP-191 personal-message digest)
// recovers an owner whose keccak(id || owner) is the address. Public key recovery is
// go-ethereum's Ecrecover, not the btcec code the repository uses. The recovery byte is
// read the way compact signatures define it: 27 + recid (+4 = "compressed key" flag).
func refSOCValid(addr, payload []byte) bool {
	if len(payload) < socMinSize {
		return false
	}
	id := payload[:socIDSize]
	sig := payload[socIDSize : socIDSize+socSigSize]
	wrapped := payload[socIDSize+socSigSize:]
	if len(wrapped) > ref.ChunkSize+ref.SpanSize {
		return false
	}
	wrappedAddr := ref.CACAddr(wrapped)
	toSign := ref.Keccak(id, wrappedAddr)
	digest := ref.Keccak([]byte(fmt.Sprintf("\x19Ethereum Signed Message:\n%d", len(toSign))), toSign)
	recid := (sig[64] - 27) &^ 4
	if recid > 3 {
		return false
	}
	rs := make([]byte, 65)
	copy(rs, sig[:64])
	rs[64] = recid
	pub, err := ethcrypto.Ecrecover(digest, rs)
	if err != nil || len(pub) != 65 {
		return false
	}
	owner := ref.Keccak(pub[1:])[12:]
	return bytes.Equal(addr, ref.Keccak(id, owner))
}

// refValid is the predicate of the property: valid content-addressed or single-owner
// chunk for the address it is stored under.
func refValid(addr, payload []byte) bool {
	return ref.CACValid(addr, payload) || refSOCValid(addr, payload)
}
