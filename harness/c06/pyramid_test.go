package c06

import (
	"bytes"
	"context"
	"encoding/binary"
	"encoding/hex"
	"fmt"
	"sort"
	"strings"
	"sync"
	"testing"
	"time"

	"github.com/gauss-project/aurorafs/pkg/boson"
	"github.com/gauss-project/aurorafs/pkg/file/loadsave"
	"github.com/gauss-project/aurorafs/pkg/file/pipeline"
	"github.com/gauss-project/aurorafs/pkg/file/pipeline/builder"
	"github.com/gauss-project/aurorafs/pkg/manifest"
	"github.com/gauss-project/aurorafs/pkg/storage"
	"github.com/gauss-project/aurorafs/pkg/traversal"
	"pgregory.net/rapid"
	"verifharness/internal/evid"
	"verifharness/internal/ref"
)

const (
	sigPyrOversized = "C06/pyramid-oversized-entry-stored"
	sigPyrStored    = "C06/pyramid-stores-invalid-chunk"
	sigPyrHonest    = "C06/pyramid-rejects-honest-response"
)

type fileSpec struct {
	Len  int `json:"len"`
	Seed int `json:"seed"`
}

// mut is one alteration a dishonest peer makes to the honest pyramid response.
// Target selects an entry of the (sorted) current key list, modulo its length;
// 0 is reserved for "the root entry" by the generator's convention below.
type mut struct {
	Kind   string `json:"kind"`
	Root   bool   `json:"root,omitempty"` // aim at the root entry
	Target int    `json:"target,omitempty"`
	A      int    `json:"a,omitempty"`
	B      int    `json:"b,omitempty"`
}

type pcase struct {
	Manifest bool       `json:"manifest"` // files wrapped in a directory manifest (the /aurora upload path) or one raw file
	Files    []fileSpec `json:"files"`
	Muts     []mut      `json:"muts"`
	// Prior: what the same (long-lived, per-node) traversal service was handed before the response
	// under test: 0 nothing, 1 the honest response, 2 the honest response cut short by one entry.
	Prior int `json:"prior,omitempty"`
}

// buildHonest uploads the content through the real pipeline / manifest code into a
// fresh store and asks the real traversal for the pyramid, as the serving peer does.
//
// The result is a pure function of (Manifest, Files); it is memoised per process because
// every upload pipeline allocates and clears several MiB. Callers copy before altering.
func buildHonest(ctx context.Context, c pcase) (boson.Address, map[string][]byte, error) {
	key := fmt.Sprintf("%v%v", c.Manifest, c.Files)
	honestMu.Lock()
	defer honestMu.Unlock()
	if h, ok := honestCache[key]; ok {
		return h.root, h.pyr, nil
	}
	root, pyr, err := buildHonestUncached(ctx, c)
	if err != nil {
		return root, pyr, err
	}
	for k, v := range pyr {
		a, e := hex.DecodeString(k)
		if e != nil || !ref.CACValid(a, v) {
			return root, nil, fmt.Errorf("honest pyramid entry %s (%d bytes) is not a valid content-addressed chunk under the reference", k, len(v))
		}
	}
	honestCache[key] = honestEntry{root, pyr}
	return root, pyr, nil
}

type honestEntry struct {
	root boson.Address
	pyr  map[string][]byte
}

var (
	honestMu    sync.Mutex
	honestCache = map[string]honestEntry{}
)

func buildHonestUncached(ctx context.Context, c pcase) (root boson.Address, pyr map[string][]byte, err error) {
	st := newRecStore()
	up := func(data []byte) (boson.Address, error) {
		p := builder.NewPipelineBuilder(ctx, st, storage.ModePutUpload, false)
		return builder.FeedPipeline(ctx, p, bytes.NewReader(data))
	}
	if !c.Manifest {
		root, err = up(fill(c.Files[0].Len, c.Files[0].Seed))
		if err != nil {
			return
		}
	} else {
		ls := loadsave.New(st, func() pipeline.Interface { return builder.NewPipelineBuilder(ctx, st, storage.ModePutUpload, false) })
		var m manifest.Interface
		m, err = manifest.NewDefaultManifest(ls, false)
		if err != nil {
			return
		}
		for i, f := range c.Files {
			var fa boson.Address
			fa, err = up(fill(f.Len, f.Seed))
			if err != nil {
				return
			}
			name := fmt.Sprintf("f%d.bin", i)
			path := name
			if i%2 == 1 {
				path = "dir/" + name
			}
			err = m.Add(ctx, path, manifest.NewEntry(fa, map[string]string{
				manifest.EntryMetadataFilenameKey:    name,
				manifest.EntryMetadataContentTypeKey: "application/octet-stream",
			}))
			if err != nil {
				return
			}
		}
		root, err = m.Store(ctx)
		if err != nil {
			return
		}
	}
	pyr, err = traversal.New(st).GetPyramid(ctx, root)
	return
}

func sortedKeys(m map[string][]byte) []string {
	ks := make([]string, 0, len(m))
	for k := range m {
		ks = append(ks, k)
	}
	sort.Strings(ks)
	return ks
}

func isIntermediate(payload []byte) bool {
	return len(payload) >= 8 && binary.LittleEndian.Uint64(payload[:8]) > uint64(len(payload)-8)
}

// applyMut alters the pyramid in place and returns the class label of what was done.
func applyMut(pyr map[string][]byte, rootKey string, m mut) string {
	keys := sortedKeys(pyr)
	if len(keys) == 0 {
		return "noop-empty"
	}
	tk := keys[m.Target%len(keys)]
	if m.Root {
		if _, ok := pyr[rootKey]; ok {
			tk = rootKey
		}
	}
	on := "inner"
	if tk == rootKey {
		on = "root"
	}
	tv := pyr[tk]
	cp := func(b []byte) []byte { return append([]byte{}, b...) }
	switch m.Kind {
	case "extra-valid": // a valid chunk nobody references
		x := append(ref.Span(uint64(m.A%300+1)), fill(m.A%300+1, m.B)...)
		pyr[hex.EncodeToString(ref.CACAddr(x))] = x
		return "extra-valid"
	case "extra-badkey": // key is not the hash of the value
		x := append(ref.Span(uint64(m.A%300+1)), fill(m.A%300+1, m.B)...)
		pyr[hex.EncodeToString(fill(32, m.B+1))] = x
		return "extra-badkey"
	case "extra-oddkey": // key of 0, 31 or 33 bytes (the response carries raw bytes of any length)
		x := append(ref.Span(uint64(m.A%300+1)), fill(m.A%300+1, m.B)...)
		kl := []int{0, 31, 33}[m.A%3]
		k := ref.CACAddr(x)
		k = append(k, 0x01)[:kl]
		pyr[hex.EncodeToString(k)] = x
		return "extra-oddkey"
	case "extra-upper": // upper-case hex twin of an existing key, same or altered payload
		v := cp(tv)
		if m.A%2 == 1 && len(v) > 0 {
			v[m.B%len(v)] ^= 0x80
		}
		pyr[strings.ToUpper(tk)] = v
		return "extra-upper-" + on
	case "rekey-upper": // entry only present under its upper-case key
		delete(pyr, tk)
		pyr[strings.ToUpper(tk)] = tv
		return "rekey-upper-" + on
	case "alter": // payload byte changed under an unchanged key
		if len(tv) == 0 {
			return "noop"
		}
		v := cp(tv)
		v[m.A%len(v)] ^= byte(m.B%255 + 1)
		pyr[tk] = v
		return "alter-" + on
	case "swap": // two entries exchange payloads
		ok := keys[(m.Target+1+m.A%len(keys))%len(keys)]
		if ok == tk || bytes.Equal(pyr[ok], tv) {
			return "noop"
		}
		pyr[tk], pyr[ok] = pyr[ok], pyr[tk]
		return "swap-" + on
	case "replace-other-valid": // payload replaced by a different valid chunk's payload
		x := append(ref.Span(uint64(m.A%300+1)), fill(m.A%300+1, m.B+5)...)
		pyr[tk] = x
		return "replace-" + on
	case "truncate":
		if len(tv) == 0 {
			return "noop"
		}
		n := m.A % len(tv)
		if isIntermediate(tv) && n >= 8 && len(bytes.Trim(tv[n:], "\x00")) == 0 {
			// cutting only zero bytes keeps the BMT hash and would leave a ragged
			// reference list (see "oversize"): not this property's business
			return "noop-ragged"
		}
		pyr[tk] = cp(tv[:n])
		return "truncate-" + on
	case "zero-extend": // still the same BMT hash: zero padding within the size limit
		k := m.A%64 + 1
		if isIntermediate(tv) {
			k = 32 * (m.A%2 + 1) // whole references only, see "oversize"
		}
		if len(tv)+k > ref.ChunkSize+ref.SpanSize {
			return "noop"
		}
		pyr[tk] = append(cp(tv), make([]byte, k)...)
		return "zero-extend-" + on
	case "oversize": // first 256KiB+8 bytes hash to the key, more bytes follow (> limit)
		if len(tv) < 8 {
			return "noop"
		}
		k := m.A%200 + 1
		if isIntermediate(tv) {
			// keep the reference list a whole number of 32-byte references: the
			// joiner's handling of ragged lists is outside this property
			k = 32 * (m.A%4 + 1)
		}
		v := make([]byte, ref.SpanSize+ref.ChunkSize+k)
		copy(v, tv)
		copy(v[ref.SpanSize+ref.ChunkSize:], fill(k, m.B))
		pyr[tk] = v
		return "oversize-" + on
	case "oversize-random":
		pyr[tk] = fill(ref.SpanSize+ref.ChunkSize+m.A%300+1, m.B)
		return "oversize-random-" + on
	case "drop":
		delete(pyr, tk)
		return "drop-" + on
	case "empty-value":
		pyr[tk] = nil
		return "empty-value-" + on
	}
	return "noop"
}

var mutKinds = []string{
	"extra-valid", "extra-badkey", "extra-oddkey", "extra-upper", "rekey-upper", "alter", "alter", "swap",
	"replace-other-valid", "truncate", "zero-extend", "oversize", "oversize", "oversize-random", "drop", "empty-value",
}

type presult struct {
	labels   []string
	accepted bool
	puts     int
	entries  int
	rawMulti bool
}

func runPyramid(c pcase) (res presult, sig string, err error) {
	defer func() {
		if e := recover(); e != nil {
			sig, err = sigPanic, fmt.Errorf("panic: %v", e)
		}
	}()
	ctx, cancel := context.WithTimeout(context.Background(), 60*time.Second)
	defer cancel()
	root, honest, e := buildHonest(ctx, c)
	if e != nil {
		return res, sigHarness, e
	}
	rootKey := root.String()
	pyr := make(map[string][]byte, len(honest))
	for k, v := range honest {
		pyr[k] = append([]byte{}, v...)
	}
	changed := false
	for _, m := range c.Muts {
		l := applyMut(pyr, rootKey, m)
		res.labels = append(res.labels, l)
		if !strings.HasPrefix(l, "noop") {
			changed = true
		}
	}
	res.entries = len(pyr)
	res.rawMulti = !c.Manifest && c.Files[0].Len > ref.ChunkSize

	dst := newRecStore()
	tr := traversal.New(dst)
	if c.Prior > 0 {
		first := make(map[string][]byte, len(honest))
		keys := sortedKeys(honest)
		drop := ""
		if c.Prior == 2 && len(keys) > 1 {
			drop = keys[len(keys)-1]
			if drop == rootKey {
				drop = keys[len(keys)-2]
			}
		}
		for _, k := range keys {
			if k != drop {
				first[k] = append([]byte{}, honest[k]...)
			}
		}
		_, _, _ = tr.GetChunkHashes(ctx, root, first)
		res.labels = append(res.labels, fmt.Sprintf("noop-prior-delivery-%d", c.Prior))
	}
	_, _, gerr := tr.GetChunkHashes(ctx, root, pyr)
	res.accepted = gerr == nil
	puts := dst.snapshotPuts()
	res.puts = len(puts)

	for _, p := range puts {
		if refValid(p.Addr, p.Data) {
			continue
		}
		if len(p.Data) > ref.ChunkSize+ref.SpanSize && ref.CACValid(p.Addr, p.Data[:ref.ChunkSize+ref.SpanSize]) {
			return res, sigPyrOversized, fmt.Errorf("stored %d bytes (limit %d) under %x: only the first %d bytes hash to that address",
				len(p.Data), ref.ChunkSize+ref.SpanSize, p.Addr, ref.ChunkSize+ref.SpanSize)
		}
		return res, sigPyrStored, fmt.Errorf("stored %d bytes under %x which are not a valid chunk for that address (mutations %v)", len(p.Data), p.Addr, res.labels)
	}
	// sanity against vacuity: the unaltered response of an honest peer is accepted and stored.
	// Not asserted for a raw (manifest-less) multi-chunk file: see the report, the
	// pyramid of such a file lacks what the manifest probe wants to read.
	if !changed && !res.rawMulti {
		if gerr != nil {
			return res, sigPyrHonest, fmt.Errorf("honest pyramid of %d entries rejected: %v", len(honest), gerr)
		}
		stored := map[string]bool{}
		for _, p := range puts {
			stored[hex.EncodeToString(p.Addr)] = true
			if !bytes.Equal(honest[hex.EncodeToString(p.Addr)], p.Data) {
				return res, sigPyrStored, fmt.Errorf("stored bytes under %x differ from the honest entry", p.Addr)
			}
		}
		if !stored[rootKey] {
			return res, sigPyrHonest, fmt.Errorf("honest pyramid accepted but root chunk not stored")
		}
	}
	return res, "", nil
}

// layouts: the honest contents come from a fixed pool (file sizes around every boundary
// the tree builder has; raw files and directory manifests of 1-3 files) so that the
// expensive honest upload - each pipeline allocates and clears ~4.5 MiB - is shared
// between cases; the variety of a case lies in the alterations.
var layouts = func() []pcase {
	cs := ref.ChunkSize
	var l []pcase
	for _, n := range []int{1, 10, 33, 100, 300, 2000, 4096, 5000, cs - 1, cs, cs + 1, 2*cs + 77, 3*cs - 5} {
		l = append(l, pcase{Files: []fileSpec{{Len: n, Seed: n % 7}}})
	}
	m := func(fs ...fileSpec) { l = append(l, pcase{Manifest: true, Files: fs}) }
	m(fileSpec{10, 1})
	m(fileSpec{300, 2})
	m(fileSpec{cs, 3})
	m(fileSpec{2*cs + 77, 4})
	m(fileSpec{1, 1}, fileSpec{2000, 2})
	m(fileSpec{100, 3}, fileSpec{100, 3}) // same content twice
	m(fileSpec{4096, 1}, fileSpec{cs + 1, 2})
	m(fileSpec{2 * cs, 5}, fileSpec{33, 6})
	m(fileSpec{5000, 1}, fileSpec{10, 1})
	m(fileSpec{10, 1}, fileSpec{300, 2}, fileSpec{4096, 3})
	m(fileSpec{1, 4}, fileSpec{3*cs - 5, 5}, fileSpec{2000, 6})
	m(fileSpec{cs - 1, 7}, fileSpec{33, 1}, fileSpec{100, 2})
	m(fileSpec{300, 3}, fileSpec{300, 4}, fileSpec{300, 3})
	return l
}()

func genPyramidCase(t *rapid.T) pcase {
	lay := layouts[rapid.IntRange(0, len(layouts)-1).Draw(t, "layout")]
	c := pcase{Manifest: lay.Manifest, Files: append([]fileSpec{}, lay.Files...)}
	c.Prior = rapid.SampledFrom([]int{0, 0, 1, 2}).Draw(t, "prior")
	nm := rapid.SampledFrom([]int{0, 1, 1, 1, 1, 2, 2, 3}).Draw(t, "nmuts")
	for i := 0; i < nm; i++ {
		m := mut{
			Kind:   rapid.SampledFrom(mutKinds).Draw(t, "kind"),
			Root:   rapid.IntRange(0, 2).Draw(t, "onroot") == 0,
			Target: rapid.IntRange(0, 15).Draw(t, "target"),
			A:      rapid.IntRange(0, 1<<20).Draw(t, "a"),
			B:      rapid.IntRange(0, 1<<16).Draw(t, "b"),
		}
		if m.Kind == "oversize" && evid.Known(sigPyrOversized) {
			// known finding: exactly this shape is left out so that the search goes on behind it
			evid.Get(id).Excluded(sigPyrOversized)
			m.Kind = "zero-extend"
		}
		c.Muts = append(c.Muts, m)
	}
	return c
}

func recordPyramid(r *evid.Rec, c pcase, res presult) {
	cls := []string{"pyramid"}
	adversarial := false
	for _, l := range res.labels {
		cls = append(cls, "pyr-mut:"+l)
		if !strings.HasPrefix(l, "noop") {
			adversarial = true
		}
	}
	if !adversarial {
		cls = append(cls, "pyramid:honest")
	}
	if c.Manifest {
		cls = append(cls, fmt.Sprintf("pyramid:manifest-%d-files", len(c.Files)))
	} else if res.rawMulti {
		cls = append(cls, "pyramid:raw-multi-chunk-file(acceptance not asserted)")
	} else {
		cls = append(cls, "pyramid:raw-single-chunk-file")
	}
	for _, f := range c.Files {
		if f.Len > ref.ChunkSize {
			cls = append(cls, "pyramid:has-multi-chunk-file")
			break
		}
	}
	if res.accepted {
		cls = append(cls, "pyramid:accepted")
		if adversarial {
			cls = append(cls, "pyramid:adversarial-accepted(all stored chunks valid)")
		}
	} else {
		cls = append(cls, "pyramid:rejected")
	}
	r.ClassN("pyramid:chunks-stored", res.puts)
	r.Case(evid.Hash64("pyramid", c), adversarial, cls...)
	r.Sample(map[string]interface{}{"target": "pyramid", "case": c, "accepted": res.accepted, "stored": res.puts, "entries": res.entries})
}

const rulePyramid = "pyramid: rapid draws content (one raw file, or 1-3 files in a directory manifest; contents from a fixed pool of 26 layouts with file sizes 1..5000 bytes and around 1, 2 and 3 chunks of 256KiB), uploads it through the real pipeline+manifest code, takes the serving peer's honest traversal.GetPyramid map and applies 0-3 alterations aimed at the root or another entry: extra valid entry, extra entry with wrong / odd-length / upper-case key, entry re-keyed to upper case, payload byte altered, payloads swapped, payload replaced by another valid chunk, truncated, zero-extended, oversized with correct 256KiB+8 prefix, oversized random, dropped, emptied. The real traversal.GetChunkHashes(root, pyramid) (the body of chunkinfo.onChunkPyramidResp) runs against a recording store, in half of the cases on a traversal service that was handed the honest response (whole, or cut short by one entry) just before, as the node's single long-lived service is; oracle: every store.Put satisfies RefCACValid or RefSOCValid for its address; the unaltered pyramid is accepted and its root stored. Non-trivial = at least one effective alteration; distinct by hash of the case"

// witnessOversized is the minimal case of the known finding: a one-chunk file whose
// only pyramid entry is padded to 256KiB+8 and followed by one more byte.
var witnessOversized = pcase{Files: []fileSpec{{Len: 100, Seed: 1}}, Muts: []mut{{Kind: "oversize", Root: true, A: 0, B: 1}}}

func TestC06_Pyramid(t *testing.T) {
	r := evid.Get(id)
	evid.Finish(t, r)
	r.SetRule(rulePyramid)

	known := evid.Known(sigPyrOversized)
	if known {
		_, sig, err := runPyramid(witnessOversized)
		if err != nil && sig == sigPyrOversized {
			r.Witness(sig)
		} else if err != nil && !harnessProblem(r, sig, err) {
			t.Fatalf("%s", evid.Violation(id, sig, fmt.Sprintf("%v case=%+v", err, witnessOversized)))
		}
	}

	// deterministic sweep: every alteration alone, on the root and on another entry, for
	// a raw one-chunk file, a manifest with small files and a manifest with a 2-chunk file
	bases := []pcase{
		{Files: []fileSpec{{Len: 100, Seed: 1}}},
		{Files: []fileSpec{{Len: ref.ChunkSize, Seed: 2}}},
		{Manifest: true, Files: []fileSpec{{Len: 10, Seed: 3}, {Len: 2000, Seed: 4}}},
		{Manifest: true, Files: []fileSpec{{Len: 2*ref.ChunkSize + 5, Seed: 5}, {Len: 33, Seed: 6}}},
	}
	for _, b := range bases {
		kinds := append([]string{""}, mutKinds...)
		for _, k := range kinds {
			for _, onRoot := range []bool{true, false} {
				for tgt := 0; tgt < 3; tgt++ {
					if onRoot && tgt > 0 {
						continue
					}
					c := b
					c.Prior = (tgt + len(k)) % 3
					if k != "" {
						if k == "oversize" && known {
							r.Excluded(sigPyrOversized)
							continue
						}
						c.Muts = []mut{{Kind: k, Root: onRoot, Target: tgt, A: 21, B: 9}}
					} else if !onRoot || tgt > 0 {
						continue
					}
					res, sig, err := runPyramid(c)
					if err != nil {
						if harnessProblem(r, sig, err) {
							continue
						}
						t.Fatalf("%s", evid.Violation(id, sig, fmt.Sprintf("%v case=%+v", err, c)))
					}
					recordPyramid(r, c, res)
				}
			}
		}
	}

	evid.Checks(600)
	rapid.Check(t, func(t *rapid.T) {
		c := genPyramidCase(t)
		res, sig, err := runPyramid(c)
		if err != nil {
			if harnessProblem(r, sig, err) {
				return
			}
			t.Fatalf("%s", evid.Violation(id, sig, fmt.Sprintf("%v case=%+v", err, c)))
		}
		recordPyramid(r, c, res)
	})
}
