package c05

import (
	"bytes"
	"encoding/hex"
	"fmt"
	"testing"

	"github.com/gauss-project/aurorafs/pkg/boson"
	"github.com/gauss-project/aurorafs/pkg/cac"
	"github.com/gauss-project/aurorafs/pkg/crypto"
	"github.com/gauss-project/aurorafs/pkg/soc"
	"pgregory.net/rapid"
	"verifharness/internal/evid"
	"verifharness/internal/ref"
)

// A signed chunk is a value: it stays the valid chunk it was whatever the caller does afterwards with
// memory that is its own. Two histories: (a) the id is a slice with spare capacity carved from a
// scratch buffer that the caller goes on using (fills the rest, prepares the next id in it);
// (b) a valid chunk is parsed and the parsed single-owner chunk is signed again with another key.
// After either, every chunk produced earlier must still be valid, parse back to the same id, owner
// and wrapped chunk, and carry the address keccak(id||owner).

type bcase struct {
	Keys    []string `json:"keys"` // 1-3 keys (hex, 32 bytes, valid scalars)
	IDs     []string `json:"ids"`
	Spare   int      `json:"spare"`   // spare capacity behind each id in the scratch buffer
	Payload int      `json:"payload"` // wrapped data length
	Resign  bool     `json:"resign"`  // parse chunk 0 and sign the parsed chunk with the last key
}

func checkSigned(what string, sch boson.Chunk, id, key, wrapped []byte) (string, error) {
	owner, err := ref.EthAddressOfKey(key)
	if err != nil {
		return "C05/harness", err
	}
	addr, data := sch.Address().Bytes(), sch.Data()
	if !bytes.Equal(addr, ref.SOCAddress(id, owner)) {
		return "C05/address-not-keccak-id-owner", fmt.Errorf("%s: address %x, want keccak(id||owner) = %x", what, addr, ref.SOCAddress(id, owner))
	}
	if !ref.SOCValid(addr, data) {
		return "C05/signed-chunk-changed-later", fmt.Errorf("%s: the chunk is no longer a valid single-owner chunk by the reference (id part %x, want %x)", what, data[:32], id)
	}
	ok, perr := socValid(addr, data)
	if perr != nil {
		return "C05/panic", perr
	}
	if !ok {
		return "C05/signed-chunk-invalid", fmt.Errorf("%s: soc.Valid rejects the chunk", what)
	}
	s, err := soc.FromChunk(sch)
	if err != nil {
		return "C05/parse-back", fmt.Errorf("%s: FromChunk: %v", what, err)
	}
	// id and owner are observable through the re-serialized chunk: address = keccak(id||owner), data = id||sig||wrapped
	c2, err := s.Chunk()
	if err != nil || c2 == nil || !bytes.Equal(c2.Address().Bytes(), addr) || !bytes.Equal(c2.Data()[:32], id) || !bytes.Equal(s.WrappedChunk().Data(), wrapped) {
		return "C05/parse-back", fmt.Errorf("%s: does not parse back to the same id, owner and wrapped chunk (err %v)", what, err)
	}
	return "", nil
}

func runBuffers(c bcase) (sig string, err error) {
	defer func() {
		if r := recover(); r != nil {
			sig, err = "C05/panic", fmt.Errorf("panic: %v", r)
		}
	}()
	data := fill(c.Payload, "rnd", 7)
	wrapped := append(ref.Span(uint64(len(data))), data...)
	ch, e := cac.New(data)
	if e != nil {
		return "C05/harness", e
	}
	scratch := make([]byte, 0, 32+c.Spare)
	type made struct {
		sch     boson.Chunk
		id, key []byte
	}
	var all []made
	for i, ks := range c.Keys {
		key, _ := hex.DecodeString(ks)
		idv, _ := hex.DecodeString(c.IDs[i%len(c.IDs)])
		// the caller prepares the id in its scratch buffer: length 32, capacity 32+spare
		id := append(scratch[:0], idv...)
		signer := crypto.NewDefaultSigner(crypto.Secp256k1PrivateKeyFromBytes(append([]byte{}, key...)))
		sch, e := soc.New(id, ch).Sign(signer)
		if e != nil || sch == nil {
			return "C05/sign-error", fmt.Errorf("Sign #%d failed: %v", i, e)
		}
		all = append(all, made{sch, append([]byte{}, idv...), key})
		// ... and goes on using the rest of the buffer
		full := scratch[:cap(scratch)]
		for k := 32; k < len(full); k++ {
			full[k] = byte(0xA5 ^ k ^ i)
		}
		for j, m := range all {
			if sg, e := checkSigned(fmt.Sprintf("chunk #%d after signing #%d (ids carved from one scratch buffer with %d spare bytes)", j, i, c.Spare), m.sch, m.id, m.key, wrapped); e != nil {
				if j == i {
					return sg, e
				}
				// the id bytes themselves were overwritten by the next id: only the spare region is the caller's
				// to reuse while a SOC built on the id is alive; an implementation that keeps the id slice is
				// not judged on that
				if bytes.Equal(m.sch.Data()[32:], all[j].sch.Data()[32:]) && !bytes.Equal(m.sch.Data()[:32], m.id) {
					continue
				}
				return sg, e
			}
		}
	}
	if c.Resign && len(c.Keys) >= 2 {
		first := all[0]
		before := append([]byte{}, first.sch.Data()...)
		parsed, e := soc.FromChunk(first.sch)
		if e != nil {
			return "C05/parse-back", fmt.Errorf("FromChunk of chunk #0: %v", e)
		}
		keyB, _ := hex.DecodeString(c.Keys[len(c.Keys)-1])
		signerB := crypto.NewDefaultSigner(crypto.Secp256k1PrivateKeyFromBytes(append([]byte{}, keyB...)))
		schB, e := parsed.Sign(signerB)
		if e != nil || schB == nil {
			return "C05/sign-error", fmt.Errorf("signing the parsed chunk with another key failed: %v", e)
		}
		if !bytes.Equal(first.sch.Data(), before) {
			return "C05/signed-chunk-changed-later", fmt.Errorf("chunk #0 was rewritten in place when the single-owner chunk parsed from it was signed with another key")
		}
		if sg, e := checkSigned("chunk #0 after the chunk parsed from it was signed with another key", first.sch, first.id, first.key, wrapped); e != nil {
			return sg, e
		}
		if sg, e := checkSigned("the re-signed chunk", schB, first.id, keyB, wrapped); e != nil {
			return sg, e
		}
	}
	return "", nil
}

func TestC05_CallerBuffers(t *testing.T) {
	r := evid.Get(id)
	evid.Finish(t, r)
	evid.Checks(300)
	rapid.Check(t, func(t *rapid.T) {
		c := bcase{Spare: rapid.SampledFrom([]int{0, 1, 64, 65, 97, 200, 5000}).Draw(t, "spare"),
			Payload: rapid.SampledFrom([]int{1, 8, 33, 4096}).Draw(t, "payload"), Resign: rapid.Bool().Draw(t, "resign")}
		n := rapid.IntRange(1, 3).Draw(t, "n")
		for i := 0; i < n; i++ {
			c.Keys = append(c.Keys, genKey(t))
			c.IDs = append(c.IDs, genID(t))
		}
		sig, err := runBuffers(c)
		if err != nil {
			t.Fatalf("%s", evid.Violation(id, sig, fmt.Sprintf("%v case=%s", err, mustJSON(c))))
		}
		cls := []string{"caller-buffers"}
		if c.Spare >= 65 {
			cls = append(cls, "id-with-room-for-a-signature-behind-it")
		}
		if c.Resign && n >= 2 {
			cls = append(cls, "parsed-chunk-signed-again")
		}
		r.Case(evid.Hash64("buffers", c), c.Spare >= 65 || (c.Resign && n >= 2), cls...)
		r.Sample(c)
	})
}
