// Package c22 checks property C22: the neighbourhood depth of the real kademlia.Kad is
// consistent with the connected peer set, the storage radius and peer reachability.
package c22

import (
	"context"
	"errors"
	"fmt"
	"os"
	"sort"
	"sync"
	"testing"

	"github.com/gauss-project/aurorafs/pkg/boson"
	"github.com/gauss-project/aurorafs/pkg/p2p"
	"github.com/gauss-project/aurorafs/pkg/topology"
	"github.com/gauss-project/aurorafs/pkg/topology/kademlia"
	"pgregory.net/rapid"
	"verifharness/internal/evid"
	"verifharness/internal/kadx"
)

const id = "C22"

const (
	// a bin shallower than the depth holds peers none of which is reachable
	sigUnreachOnly = "C22/unreachable-only-bin-below-depth"
	// depth observed after Reachable(peer, private) and before the next recomputing event
	sigStale = "C22/depth-stale-after-peer-turns-private"
)

type peerSpec struct {
	FD  int    `json:"fd"` // number of leading bits shared with base; bin = min(fd, 31)
	Tag uint16 `json:"tag"`
}

// op kinds: "in" Connected(force=true), "inw" Connected(force=false), "out" Outbound,
// "dis" Disconnected, "pub"/"priv" Reachable(peer, public/private), "rad" SetRadius(R).
type op struct {
	K string `json:"k"`
	P int    `json:"p"`
	R int    `json:"r,omitempty"`
}

type kase struct {
	Seed     [4]byte    `json:"seed"`
	BinMax   int        `json:"bin_max_peers"`
	Func     bool       `json:"reachability_func"` // Options.ReachabilityFunc = harness set (else the Kad's own metrics-based filter)
	Peers    []peerSpec `json:"peers"`
	Ops      []op       `json:"ops"`
	Perm     []int      `json:"perm"`      // second run: connection order of the final set
	Early    []bool     `json:"early"`     // second run: report reachability before (true) or after connecting
	RadFirst bool       `json:"rad_first"` // second run: SetRadius before (true) or after the connections
}

type info struct {
	maxConn        int
	finalConn      int
	finalDepth     int
	finalRadius    int
	unreachConn    bool // some check saw a connected unreachable peer
	radiusBelow31  bool
	depthPositive  bool
	radiusBinding  bool
	unreachOnlyBin bool // some check saw a non-empty bin without reachable peers
	staleWindows   int
	exclStale      int
	exclUnreach    int
	rejected       int
	maximal        int // checks where depth == MaxDepth(strict)
	aboveStrict    int // checks where depth > MaxDepth(strict) (only possible in the known shapes)
	belowMax       int
	checks         int
	secondRun      bool
}

type world struct {
	env   *kadx.Env
	addrs []boson.Address
	mu    sync.Mutex
	reach map[string]bool // func mode: the harness-controlled reachable set
}

// newWorld builds the Kad of a case; with sibling != nil the second Kad of the same case.
func newWorld(c kase, sibling *world) (*world, error) {
	w := &world{reach: map[string]bool{}}
	base := kadx.Base(c.Seed)
	opts := kademlia.Options{BinMaxPeers: c.BinMax}
	if c.Func {
		opts.ReachabilityFunc = func(a boson.Address) bool { // true = NOT reachable
			w.mu.Lock()
			defer w.mu.Unlock()
			return !w.reach[a.ByteString()]
		}
	}
	var env *kadx.Env
	var err error
	if sibling != nil {
		env, err = sibling.env.Sibling(opts)
	} else {
		env, err = kadx.New(base, opts)
	}
	if err != nil {
		return nil, err
	}
	w.env = env
	for _, p := range c.Peers {
		w.addrs = append(w.addrs, kadx.AddrAt(base, p.FD, p.Tag))
	}
	return w, nil
}

func (w *world) setReach(i int, on bool) {
	w.mu.Lock()
	w.reach[w.addrs[i].ByteString()] = on
	w.mu.Unlock()
	st := p2p.ReachabilityStatusPrivate
	if on {
		st = p2p.ReachabilityStatusPublic
	}
	w.env.Kad.Reachable(w.addrs[i], st)
}

func peerOf(a boson.Address) p2p.Peer { return p2p.Peer{Address: a, Mode: kadx.FullNode()} }

type model struct {
	conn   []bool
	reach  []bool
	radius int
	stale  bool
}

func (m *model) peers(c kase) []kadx.MP {
	var out []kadx.MP
	for i, on := range m.conn {
		if on {
			out = append(out, kadx.MP{Bin: kadx.Bin(c.Peers[i].FD), Reach: m.reach[i]})
		}
	}
	return out
}

// run interprets the case against the real Kad. strict = never exclude known shapes
// (used by the witness cases).
func run(c kase, strict bool) (sig string, err error, inf info) {
	defer func() {
		if r := recover(); r != nil {
			sig, err = "C22/panic", fmt.Errorf("panic in code under test: %v", r)
		}
	}()
	quick, _, _ := kadx.Sat(c.BinMax)
	w, e := newWorld(c, nil)
	if e != nil {
		return "C22/setup", e, inf
	}
	defer w.env.Release()
	k := w.env.Kad
	n := len(c.Peers)
	m := &model{conn: make([]bool, n), reach: make([]bool, n), radius: 31}

	check := func(step string) (string, error) {
		d := int(k.NeighborhoodDepth())
		ps := m.peers(c)
		inf.checks++
		if len(ps) > inf.maxConn {
			inf.maxConn = len(ps)
		}
		size, reach := kadx.Hist(ps)
		for b := 0; b < 32; b++ {
			if size[b] > reach[b] {
				inf.unreachConn = true
			}
			if size[b] > 0 && reach[b] == 0 {
				inf.unreachOnlyBin = true
			}
		}
		if m.radius < 31 {
			inf.radiusBelow31 = true
		}
		if d > 0 {
			inf.depthPositive = true
		}
		// the connected set the Kad itself reports must be the model's set
		var got []string
		_ = k.EachPeer(func(a boson.Address, _ uint8) (bool, bool, error) {
			got = append(got, a.String())
			return false, false, nil
		}, topology.Filter{})
		var want []string
		for i, on := range m.conn {
			if on {
				want = append(want, w.addrs[i].String())
			}
		}
		sort.Strings(got)
		sort.Strings(want)
		if fmt.Sprint(got) != fmt.Sprint(want) {
			return "C22/connected-set-differs", fmt.Errorf("after %s: Kad reports %d connected peers, history implies %d", step, len(got), len(want))
		}
		if m.stale && !strict && evid.Known(sigStale) {
			inf.exclStale++
			return "", nil
		}
		faults := kadx.DepthSpec(ps, m.radius, quick, d)
		for _, f := range faults {
			s := "C22/" + f.Clause
			if m.stale {
				s = sigStale
			} else if f.Clause == "unsaturated" && f.UnreachableOnly {
				s = sigUnreachOnly
				if !strict && evid.Known(sigUnreachOnly) {
					inf.exclUnreach++
					continue
				}
			}
			return s, fmt.Errorf("after %s: %s (connected=%d radius=%d quick=%d bins size=%v reachable=%v)", step, f.Msg, len(ps), m.radius, quick, trim(size), trim(reach))
		}
		// informational only: the statement gives upper bounds, not the exact value
		strictMax := kadx.MaxDepth(ps, m.radius, quick, false)
		switch {
		case d == strictMax:
			inf.maximal++
			if d == m.radius && m.radius < 31 && kadx.MaxDepth(ps, 31, quick, false) > d {
				inf.radiusBinding = true
			}
		case d > strictMax:
			inf.aboveStrict++
		default:
			inf.belowMax++
		}
		return "", nil
	}

	if s, e := check("construction"); e != nil {
		return s, e, inf
	}
	for j, o := range c.Ops {
		step := fmt.Sprintf("op#%d %s", j, o.K)
		if n == 0 && o.K != "rad" {
			continue
		}
		var i int
		if n > 0 {
			i = ((o.P % n) + n) % n
			step = fmt.Sprintf("op#%d %s(peer %d, bin %d)", j, o.K, i, kadx.Bin(c.Peers[i].FD))
		}
		switch o.K {
		case "in", "inw":
			force := o.K == "in"
			e := k.Connected(context.Background(), peerOf(w.addrs[i]), force)
			switch {
			case e == nil:
				m.conn[i] = true
				m.stale = false
				w.env.SetLive(w.addrs[i], true)
			case !force && errors.Is(e, topology.ErrOversaturated):
				inf.rejected++ // admission is C24's subject; the peer simply is not added
			default:
				return "C22/connect-error", fmt.Errorf("%s: Connected returned %v", step, e), inf
			}
		case "out":
			k.Outbound(peerOf(w.addrs[i]))
			m.conn[i] = true
			m.stale = false
			w.env.SetLive(w.addrs[i], true)
		case "dis":
			k.Disconnected(peerOf(w.addrs[i]), "verif")
			m.conn[i] = false
			m.stale = false
			w.env.SetLive(w.addrs[i], false)
		case "pub":
			m.reach[i] = true
			w.setReach(i, true)
			m.stale = false
		case "priv":
			if m.conn[i] && m.reach[i] {
				if !m.stale {
					inf.staleWindows++
				}
				m.stale = true
			}
			m.reach[i] = false
			w.setReach(i, false)
		case "rad":
			step = fmt.Sprintf("op#%d rad(%d)", j, o.R)
			if o.R != m.radius {
				m.stale = false
			}
			m.radius = o.R
			k.SetRadius(uint8(o.R))
		default:
			return "C22/harness", fmt.Errorf("unknown op %q", o.K), inf
		}
		if s, e := check(step); e != nil {
			return s, e, inf
		}
	}
	inf.finalDepth = int(k.NeighborhoodDepth())
	inf.finalRadius = m.radius
	for _, on := range m.conn {
		if on {
			inf.finalConn++
		}
	}

	// Order independence: a fresh Kad brought to the same (set, reachability, radius)
	// along a different path must report the same depth.
	if m.stale && !strict && evid.Known(sigStale) {
		return "", nil, inf
	}
	w2, e := newWorld(c, w)
	if e != nil {
		return "C22/setup", e, inf
	}
	defer w2.env.Release()
	k2 := w2.env.Kad
	if c.RadFirst {
		k2.SetRadius(uint8(m.radius))
	}
	seen := make([]bool, n)
	pos := 0
	for _, pi := range c.Perm {
		if pi < 0 || pi >= n || seen[pi] || !m.conn[pi] {
			continue
		}
		seen[pi] = true
		early := pi < len(c.Early) && c.Early[pi]
		if early {
			w2.setReach(pi, m.reach[pi])
		}
		if pos%2 == 0 {
			if e := k2.Connected(context.Background(), peerOf(w2.addrs[pi]), true); e != nil {
				return "C22/connect-error", fmt.Errorf("second run: Connected(force) returned %v", e), inf
			}
		} else {
			k2.Outbound(peerOf(w2.addrs[pi]))
		}
		pos++
		if !early {
			// the peer was never reported public in this Kad, so this is not a demotion
			w2.setReach(pi, m.reach[pi])
		}
	}
	for pi := 0; pi < n; pi++ { // Perm is a permutation; anything it missed is connected last
		if m.conn[pi] && !seen[pi] {
			w2.setReach(pi, m.reach[pi])
			k2.Outbound(peerOf(w2.addrs[pi]))
		}
	}
	if !c.RadFirst {
		k2.SetRadius(uint8(m.radius))
	}
	inf.secondRun = true
	if d2 := int(k2.NeighborhoodDepth()); d2 != inf.finalDepth {
		s := "C22/order-dependent"
		if m.stale {
			s = sigStale
		}
		size, reach := kadx.Hist(m.peers(c))
		return s, fmt.Errorf("same connected set, reachability and radius %d give depth %d after the generated history but %d when connected in order %v (bins size=%v reachable=%v)",
			m.radius, inf.finalDepth, d2, c.Perm, trim(size), trim(reach)), inf
	}
	return "", nil, inf
}

func trim(a [32]int) []int {
	n := 32
	for n > 0 && a[n-1] == 0 {
		n--
	}
	return a[:n]
}

// ---- generator ------------------------------------------------------------------

func genCase(t *rapid.T) kase {
	var c kase
	sb := rapid.SliceOfN(rapid.Byte(), 4, 4).Draw(t, "seed")
	copy(c.Seed[:], sb)
	c.BinMax = rapid.SampledFrom([]int{5, 5, 5, 10, 20}).Draw(t, "binmax")
	quick, _, _ := kadx.Sat(c.BinMax)
	c.Func = rapid.IntRange(0, 2).Draw(t, "mode") == 0
	T := rapid.SampledFrom([]int{0, 1, 2, 3, 3, 4, 4, 5, 6, 8}).Draw(t, "target")
	tags := map[int]uint16{}
	add := func(fd int) {
		c.Peers = append(c.Peers, peerSpec{FD: fd, Tag: tags[fd]})
		tags[fd]++
	}
	for b := 0; b < T; b++ {
		k := quick + rapid.SampledFrom([]int{-1, 0, 0, 1, 1, 1, 2, 2}).Draw(t, "fill")
		for j := 0; j < k && j < 6; j++ {
			add(b)
		}
	}
	for b := T; b < T+4; b++ {
		k := rapid.SampledFrom([]int{0, 0, 1, 1, 2, 3}).Draw(t, "beyond")
		for j := 0; j < k; j++ {
			add(b)
		}
	}
	nd := rapid.SampledFrom([]int{0, 0, 1, 2, 3}).Draw(t, "ndeep")
	for j := 0; j < nd; j++ {
		add(rapid.IntRange(T+4, 40).Draw(t, "deepfd"))
	}
	n := len(c.Peers)
	radii := []int{0, 1, 2, 3, 4, 5, 6, 8, 12, 31, 31}
	if rapid.IntRange(0, 2).Draw(t, "rad0") == 0 {
		c.Ops = append(c.Ops, op{K: "rad", R: rapid.SampledFrom(radii).Draw(t, "r")})
	}
	dark := -1
	if rapid.IntRange(0, 3).Draw(t, "hasdark") == 0 {
		dark = rapid.IntRange(0, T+1).Draw(t, "dark")
	}
	idx := make([]int, n)
	for i := range idx {
		idx[i] = i
	}
	order := idx
	if n > 0 {
		order = rapid.Permutation(idx).Draw(t, "order")
	}
	for _, i := range order {
		reachable := rapid.IntRange(0, 9).Draw(t, "reach") < 9 && kadx.Bin(c.Peers[i].FD) != dark
		early := rapid.Bool().Draw(t, "early")
		if reachable && early {
			c.Ops = append(c.Ops, op{K: "pub", P: i})
		}
		c.Ops = append(c.Ops, op{K: rapid.SampledFrom([]string{"in", "in", "in", "in", "out", "out", "out", "inw"}).Draw(t, "ck"), P: i})
		if reachable && !early {
			c.Ops = append(c.Ops, op{K: "pub", P: i})
		}
		if !reachable && rapid.IntRange(0, 3).Draw(t, "explicit") == 0 {
			c.Ops = append(c.Ops, op{K: "priv", P: i})
		}
	}
	nt := rapid.SampledFrom([]int{0, 0, 1, 2, 3, 4, 6, 8, 10}).Draw(t, "ntail")
	for j := 0; j < nt; j++ {
		k := rapid.SampledFrom([]string{"dis", "dis", "dis", "in", "out", "pub", "pub", "priv", "priv", "priv", "rad", "rad"}).Draw(t, "tk")
		o := op{K: k}
		if k == "rad" {
			o.R = rapid.SampledFrom(radii).Draw(t, "r")
		} else {
			o.P = rapid.IntRange(0, 63).Draw(t, "p")
		}
		c.Ops = append(c.Ops, o)
	}
	if n > 0 {
		c.Perm = rapid.Permutation(idx).Draw(t, "perm")
		c.Early = rapid.SliceOfN(rapid.Bool(), n, n).Draw(t, "early2")
	}
	c.RadFirst = rapid.Bool().Draw(t, "radfirst")
	return c
}

func record(r *evid.Rec, c kase, inf info) {
	nt := inf.maxConn >= 4 && (inf.unreachConn || inf.radiusBelow31)
	cls := []string{fmt.Sprintf("quick-saturation-%d", func() int { q, _, _ := kadx.Sat(c.BinMax); return q }())}
	if c.Func {
		cls = append(cls, "filter=ReachabilityFunc")
	} else {
		cls = append(cls, "filter=metrics")
	}
	if inf.maxConn <= 3 {
		cls = append(cls, "never-above-watermark")
	}
	if inf.depthPositive {
		cls = append(cls, "depth>0-seen")
	}
	switch {
	case inf.finalDepth == 0:
		cls = append(cls, "final-depth-0")
	case inf.finalDepth <= 2:
		cls = append(cls, "final-depth-1..2")
	case inf.finalDepth <= 5:
		cls = append(cls, "final-depth-3..5")
	default:
		cls = append(cls, "final-depth-6+")
	}
	if inf.unreachConn {
		cls = append(cls, "unreachable-connected-peer")
	}
	if inf.unreachOnlyBin {
		cls = append(cls, "bin-with-only-unreachable-peers")
	}
	if inf.radiusBelow31 {
		cls = append(cls, "radius<31")
	}
	if inf.radiusBinding {
		cls = append(cls, "radius-is-the-binding-clause")
	}
	if inf.staleWindows > 0 {
		cls = append(cls, "demotion-of-connected-reachable-peer")
	}
	if inf.rejected > 0 {
		cls = append(cls, "inbound-rejected-oversaturated")
	}
	if inf.secondRun {
		cls = append(cls, "second-order-compared")
	}
	if inf.belowMax > 0 {
		cls = append(cls, "depth-below-largest-consistent-value")
	}
	r.Case(evid.Hash64(c), nt, cls...)
	r.ClassN("depth-observations", inf.checks)
	r.ClassN("depth-observations-equal-largest-consistent-value", inf.maximal)
	for i := 0; i < inf.exclStale; i++ {
		r.Excluded(sigStale)
	}
	for i := 0; i < inf.exclUnreach; i++ {
		r.Excluded(sigUnreachOnly)
	}
	r.Sample(c)
}

// ---- deterministic cases ----------------------------------------------------------

func conns(kind string, ps ...int) []op {
	var out []op
	for _, p := range ps {
		out = append(out, op{K: "pub", P: p}, op{K: kind, P: p})
	}
	return out
}

// bin 0: one reachable peer, bin 1: one unreachable peer, bin 2: three reachable peers.
func witnessUnreachOnly() kase {
	c := kase{Seed: [4]byte{1, 2, 3, 4}, BinMax: 5,
		Peers: []peerSpec{{0, 0}, {1, 0}, {2, 0}, {2, 1}, {2, 2}},
		Perm:  []int{4, 3, 2, 1, 0}, Early: []bool{true, false, true, false, true}}
	c.Ops = append(c.Ops, conns("in", 0)...)
	c.Ops = append(c.Ops, op{K: "in", P: 1})
	c.Ops = append(c.Ops, conns("in", 2, 3, 4)...)
	return c
}

// bins 0 and 1: one reachable peer each, bin 2: three reachable peers, then one of the
// bin-2 peers is reported private.
func witnessStale() kase {
	c := kase{Seed: [4]byte{1, 2, 3, 4}, BinMax: 5,
		Peers: []peerSpec{{0, 0}, {1, 0}, {2, 0}, {2, 1}, {2, 2}},
		Perm:  []int{4, 3, 2, 1, 0}, Early: []bool{true, false, true, false, true}}
	c.Ops = append(c.Ops, conns("out", 0, 1, 2, 3, 4)...)
	c.Ops = append(c.Ops, op{K: "priv", P: 4})
	return c
}

func fixedCases() []kase {
	var out []kase
	// upstream-style layouts: everybody reachable, bins filled one after the other
	for _, bm := range []int{5, 10, 20} {
		q, _, _ := kadx.Sat(bm)
		for _, fn := range []bool{false, true} {
			c := kase{Seed: [4]byte{9, 8, 7, byte(bm)}, BinMax: bm, Func: fn, RadFirst: fn}
			for b := 0; b < 6; b++ {
				for j := 0; j < q; j++ {
					c.Peers = append(c.Peers, peerSpec{FD: b, Tag: uint16(j)})
					c.Ops = append(c.Ops, conns("in", len(c.Peers)-1)...)
				}
			}
			for i := range c.Peers {
				c.Perm = append([]int{i}, c.Perm...)
				c.Early = append(c.Early, i%2 == 0)
			}
			c.Ops = append(c.Ops, op{K: "rad", R: 3}, op{K: "rad", R: 31}, op{K: "dis", P: 0}, op{K: "out", P: 0})
			out = append(out, c)
		}
	}
	return out
}

func TestC22_Depth(t *testing.T) {
	r := evid.Get(id)
	evid.Finish(t, r)
	t.Cleanup(kadx.Drain)
	r.SetRule("real kademlia.Kad (never started), BinMaxPeers in {5,10,20} (quick saturation 1,2,4), reachability through the Kad's own metrics filter or Options.ReachabilityFunc; peers: bins below a drawn target depth filled to about the quick-saturation number, 0..3 peers in the next four bins, 0..3 deep peers (first differing bit up to 40, i.e. including the bin-31 cap), ~90% reported public, optionally one bin with only unreachable peers; history: connections in a drawn order (Connected force/no-force, Outbound) with Reachable(public|private) before or after, optional SetRadius, then 0..10 of Disconnected/reconnect/Reachable flips/SetRadius; after EVERY event the depth is checked clause by clause (<= radius; 0 if <= 3 connected; >= 3 reachable at or beyond it; <= shallowest empty bin; every shallower bin quick-saturated with reachable peers), and at the end a fresh Kad is brought to the same set/flags/radius in a different order and must report the same depth. non-trivial = at some point >= 4 connected peers and (a connected unreachable peer or radius < 31); distinct by hash of the whole case")

	fixed := fixedCases()
	if os.Getenv("VERIF_SKIP_FIXED") != "" { // sensitivity runs only: show that the generated part alone sees a mutant
		fixed = nil
	}
	for _, c := range fixed {
		sig, err, inf := run(c, false)
		if err != nil {
			t.Fatalf("%s", evid.Violation(id, sig, fmt.Sprintf("%v case=%+v", err, c)))
		}
		record(r, c, inf)
	}
	for _, wc := range []struct {
		sig string
		c   kase
	}{{sigUnreachOnly, witnessUnreachOnly()}, {sigStale, witnessStale()}} {
		sig, err, inf := run(wc.c, true)
		switch {
		case err == nil:
			record(r, wc.c, inf) // repaired: the witness is an ordinary passing case
		case sig == wc.sig && evid.Known(sig):
			r.Witness(sig)
		default:
			t.Fatalf("%s", evid.Violation(id, sig, fmt.Sprintf("%v case=%+v", err, wc.c)))
		}
	}

	evid.Checks(400)
	rapid.Check(t, func(t *rapid.T) {
		c := genCase(t)
		sig, err, inf := run(c, false)
		if err != nil {
			t.Fatalf("%s", evid.Violation(id, sig, fmt.Sprintf("%v case=%+v", err, c)))
		}
		record(r, c, inf)
	})
}
