package c22

import (
	"context"
	"fmt"
	"sort"
	"sync"
	"testing"

	"github.com/gauss-project/aurorafs/pkg/boson"
	"github.com/gauss-project/aurorafs/pkg/topology"
	"pgregory.net/rapid"
	"verifharness/internal/evid"
	"verifharness/internal/kadx"
)

// Connection events for one peer can reach the topology on several goroutines at once (a dial out
// racing the same peer's dial in). After the events have been processed the depth has to be
// consistent with the *set* of connected peers, so the peer may count once only. Schedules are
// whatever the Go scheduler produces: a stress test with a sequential oracle at quiescence.
func TestC22_ConcurrentEventsForOnePeer(t *testing.T) {
	r := evid.Get(id)
	evid.Finish(t, r)
	evid.Checks(4)
	rapid.Check(t, func(t *rapid.T) {
		c := kase{BinMax: 20, Func: true}
		copy(c.Seed[:], rapid.SliceOfN(rapid.Byte(), 4, 4).Draw(t, "seed"))
		// bins 0 and 1 filled to the quick-saturation number, two peers in bin 2: the depth is 1 with the
		// contested peer counted once and would be 2 if it counted twice
		quick, _, _ := kadx.Sat(c.BinMax)
		for b := 0; b < 2; b++ {
			for j := 0; j < quick; j++ {
				c.Peers = append(c.Peers, peerSpec{FD: b, Tag: uint16(j + 1)})
			}
		}
		c.Peers = append(c.Peers, peerSpec{FD: 2, Tag: 1}, peerSpec{FD: 2, Tag: 2})
		w, e := newWorld(c, nil)
		if e != nil {
			t.Fatalf("setup: %v", e)
		}
		defer w.env.Release()
		k := w.env.Kad
		n := len(c.Peers)
		m := &model{conn: make([]bool, n), reach: make([]bool, n), radius: 31}
		for i := 0; i < n-1; i++ {
			m.reach[i] = true
			w.setReach(i, true)
			k.Outbound(peerOf(w.addrs[i]))
			m.conn[i] = true
			w.env.SetLive(w.addrs[i], true)
		}
		q := n - 1
		m.reach[q] = true
		w.setReach(q, true)
		g := rapid.IntRange(2, 8).Draw(t, "goroutines")
		rounds := rapid.SampledFrom([]int{300, 600}).Draw(t, "rounds")
		for round := 0; round < rounds; round++ {
			start := make(chan struct{})
			var wg sync.WaitGroup
			for j := 0; j < g; j++ {
				wg.Add(1)
				go func(j int) {
					defer wg.Done()
					<-start
					if j%2 == 0 {
						k.Outbound(peerOf(w.addrs[q]))
					} else {
						_ = k.Connected(context.Background(), peerOf(w.addrs[q]), true)
					}
				}(j)
			}
			close(start)
			wg.Wait()
			m.conn[q] = true
			w.env.SetLive(w.addrs[q], true)
			var got []string
			_ = k.EachPeer(func(a boson.Address, _ uint8) (bool, bool, error) {
				got = append(got, a.String())
				return false, false, nil
			}, topology.Filter{})
			sort.Strings(got)
			for i := 1; i < len(got); i++ {
				if got[i] == got[i-1] {
					t.Fatalf("%s", evid.Violation(id, "C22/connected-set-differs", fmt.Sprintf("round %d: after %d concurrent connection events for one peer the Kad lists %s twice (%d entries)", round, g, got[i][:8], len(got))))
				}
			}
			d := int(k.NeighborhoodDepth())
			for _, f := range kadx.DepthSpec(m.peers(c), m.radius, quick, d) {
				t.Fatalf("%s", evid.Violation(id, "C22/"+f.Clause, fmt.Sprintf("round %d: after %d concurrent connection events for one peer: %s (depth %d, %d distinct connected peers)", round, g, f.Msg, d, len(got))))
			}
			k.Disconnected(peerOf(w.addrs[q]), "verif")
			m.conn[q] = false
			w.env.SetLive(w.addrs[q], false)
			still := false
			_ = k.EachPeer(func(a boson.Address, _ uint8) (bool, bool, error) {
				still = still || a.Equal(w.addrs[q])
				return false, false, nil
			}, topology.Filter{})
			if still {
				t.Fatalf("%s", evid.Violation(id, "C22/connected-set-differs", fmt.Sprintf("round %d: the peer is still listed as connected after its disconnect (it had been stored more than once)", round)))
			}
			d = int(k.NeighborhoodDepth())
			for _, f := range kadx.DepthSpec(m.peers(c), m.radius, quick, d) {
				t.Fatalf("%s", evid.Violation(id, "C22/"+f.Clause, fmt.Sprintf("round %d: after the disconnect: %s (depth %d)", round, f.Msg, d)))
			}
		}
		r.Case(evid.Hash64("conc", c.Seed, g, rounds), true, "concurrent-events-for-one-peer")
	})
}
