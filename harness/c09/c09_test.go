package c09

import (
	"context"
	"fmt"
	"io"
	"os"
	"sort"
	"strings"
	"testing"

	"github.com/gauss-project/aurorafs/pkg/boson"
	"pgregory.net/rapid"
	"verifharness/internal/evid"
	"verifharness/internal/nodelite"
)

const id = "C09"

type fileCase struct {
	Path string            `json:"path"`
	Spec nodelite.FileSpec `json:"spec"`
}

type kase struct {
	Dir     bool       `json:"dir"`
	Encrypt bool       `json:"encrypt"`
	Index   string     `json:"index_doc,omitempty"`
	Files   []fileCase `json:"files"`
}

var nodeSeq int

const sigEnc = "C09/encrypted-reports-reference-not-address"

// norm maps a reported value to the chunk address it is compared under. Strictly that is
// the value itself; when the encrypted-reference finding is listed as known, encrypted
// cases compare the first 32 bytes (address part of address||key) so that every other
// discrepancy is still detected.
func norm(hexs string, relaxed bool) string {
	hexs = strings.ToLower(hexs)
	if relaxed && len(hexs) == 128 {
		return hexs[:64]
	}
	return hexs
}

func sortedKeys(m map[string]bool) []string {
	var ks []string
	for k := range m {
		ks = append(ks, k)
	}
	sort.Strings(ks)
	return ks
}

func diff(a, b map[string]bool) (onlyA, onlyB []string) {
	for k := range a {
		if !b[k] {
			onlyA = append(onlyA, k)
		}
	}
	for k := range b {
		if !a[k] {
			onlyB = append(onlyB, k)
		}
	}
	sort.Strings(onlyA)
	sort.Strings(onlyB)
	return
}

// run uploads the case through the real HTTP handler on a fresh node and checks
// traversal / chunk-hash / pyramid reports against the recorded puts.
func run(c kase) (sig string, nchunks int, err error) { return runMode(c, false) }

// runStrict ignores the known-finding relaxation (used by the witness).
func runStrict(c kase) (sig string, nchunks int, err error) { return runMode(c, true) }

func runMode(c kase, strict bool) (sig string, nchunks int, err error) {
	nodeSeq++
	net := nodelite.NewNet()
	n, e := net.NewNode(nodelite.AddrN(nodeSeq), nodelite.Options{})
	if e != nil {
		return "C09/harness", 0, e
	}
	defer n.Close()
	n.Rec.Start()
	var ref boson.Address
	if c.Dir {
		var fs []nodelite.DirFile
		for _, f := range c.Files {
			fs = append(fs, nodelite.DirFile{Path: f.Path, Content: f.Spec.Bytes()})
		}
		ref, e = n.UploadDir(fs, c.Index, c.Encrypt, false)
	} else {
		ref, e = n.UploadFile(c.Files[0].Path, c.Files[0].Spec.Bytes(), c.Encrypt, false)
	}
	puts := n.Rec.Stop()
	if e != nil {
		// the node refused the upload: nothing was stored under a reference, so the
		// property has nothing to say; counted, never a violation
		evid.Get(id).Class("upload-rejected-by-node")
		return "", -1, nil
	}
	relaxed := c.Encrypt && evid.Known(sigEnc) && !strict
	if relaxed {
		evid.Get(id).Excluded(sigEnc)
	}
	written := map[string]bool{}
	for _, p := range puts {
		written[p.Addr] = true
	}
	// (1) Traverse reports exactly the written chunks (as exact 32-byte addresses)
	trav := map[string]bool{}
	var bad []string
	e = n.Trav.Traverse(context.Background(), ref, func(a boson.Address) error {
		if len(a.Bytes()) != 32 && !relaxed {
			bad = append(bad, a.String())
		}
		trav[norm(a.String(), relaxed)] = true
		return nil
	})
	if e != nil {
		return "C09/traverse-error", len(written), fmt.Errorf("Traverse: %v", e)
	}
	if len(bad) > 0 {
		sg := "C09/traverse-non-address"
		if c.Encrypt {
			sg = sigEnc
		}
		return sg, len(written), fmt.Errorf("Traverse reported %d values that are not 32-byte chunk addresses, e.g. %s (len %d hex chars)", len(bad), bad[0], len(bad[0]))
	}
	onlyT, onlyW := diff(trav, written)
	if len(onlyT) > 0 {
		return "C09/traverse-extra", len(written), fmt.Errorf("Traverse reported %d chunks that were never written: %v", len(onlyT), onlyT)
	}
	if len(onlyW) > 0 {
		return "C09/traverse-missing", len(written), fmt.Errorf("Traverse missed %d written chunks: %v (written %d)", len(onlyW), onlyW, len(written))
	}
	// (2) data lists and pyramid set are subsets of the written chunks and together cover them
	data, _, e := n.Trav.GetChunkHashes(context.Background(), ref, nil)
	if e != nil {
		return "C09/chunkhashes-error", len(written), fmt.Errorf("GetChunkHashes: %v", e)
	}
	cover := map[string]bool{}
	for _, l := range data {
		for _, a := range l {
			s := norm(boson.NewAddress(a).String(), relaxed)
			if !written[s] {
				sg := "C09/data-list-extra"
				if c.Encrypt && len(a) == 64 {
					sg = sigEnc
				}
				return sg, len(written), fmt.Errorf("data-chunk list holds %s (len %d) which was never written", s, len(a))
			}
			cover[s] = true
		}
	}
	pyr, e := n.Trav.GetPyramid(context.Background(), ref)
	if e != nil {
		return "C09/pyramid-error", len(written), fmt.Errorf("GetPyramid: %v", e)
	}
	for k := range pyr {
		kk := norm(k, relaxed)
		if !written[kk] {
			sg := "C09/pyramid-extra"
			if c.Encrypt && len(k) == 128 {
				sg = sigEnc
			}
			return sg, len(written), fmt.Errorf("pyramid holds %s which was never written", k)
		}
		cover[kk] = true
	}
	_, miss := diff(cover, written)
	if len(miss) > 0 {
		return "C09/cover-missing", len(written), fmt.Errorf("data lists + pyramid miss %d written chunks: %v", len(miss), miss)
	}
	return "", len(written), nil
}

func genSpec(t *rapid.T, label string) nodelite.FileSpec {
	nt := rapid.SampledFrom([]int{0, 0, 1, 1, 2, 3}).Draw(t, label+"_nblocks")
	var s nodelite.FileSpec
	for i := 0; i < nt; i++ {
		s.Tags = append(s.Tags, rapid.IntRange(0, 3).Draw(t, label+"_tag"))
	}
	s.Tail = rapid.SampledFrom([]int{0, 1, 31, 32, 100, 4096, 5000}).Draw(t, label+"_tail")
	if nt == 0 && s.Tail == 0 {
		s.Tail = 7
	}
	s.Salt = rapid.IntRange(0, 3).Draw(t, label+"_salt")
	return s
}

var segs = []string{"a", "b", "ab", "abc", "index.html", "img", "x.txt", "averyveryveryverylongsegmentnamethatexceedsthirtybytes"}

func genPath(t *rapid.T, label string) string {
	depth := rapid.IntRange(1, 3).Draw(t, label+"_depth")
	var parts []string
	for i := 0; i < depth; i++ {
		parts = append(parts, rapid.SampledFrom(segs).Draw(t, label+"_seg"))
	}
	return strings.Join(parts, "/")
}

func genCase(t *rapid.T) kase {
	var c kase
	c.Dir = rapid.Bool().Draw(t, "dir")
	c.Encrypt = rapid.Bool().Draw(t, "encrypt")
	if c.Dir {
		nf := rapid.IntRange(1, 5).Draw(t, "nfiles")
		seen := map[string]bool{}
		for i := 0; i < nf; i++ {
			p := genPath(t, fmt.Sprintf("f%d", i))
			// a path may not be a directory prefix of another file in one tar (as a real directory tree)
			conflict := false
			for q := range seen {
				if q == p || strings.HasPrefix(q, p+"/") || strings.HasPrefix(p, q+"/") {
					conflict = true
				}
			}
			if conflict {
				p = fmt.Sprintf("%s_%d", p, i)
			}
			seen[p] = true
			c.Files = append(c.Files, fileCase{Path: p, Spec: genSpec(t, fmt.Sprintf("f%d", i))})
		}
		// encrypted directory + index document is rejected by the upload handler (500), so it is not generated
		if rapid.Bool().Draw(t, "index") && !c.Encrypt {
			c.Index = c.Files[0].Path
			if strings.Contains(c.Index, "/") {
				c.Index = ""
			}
		}
	} else {
		c.Files = []fileCase{{Path: rapid.SampledFrom([]string{"f", "file.bin", "x.txt"}).Draw(t, "name"), Spec: genSpec(t, "f")}}
	}
	return c
}

func TestC09_TraversalMatchesPuts(t *testing.T) {
	r := evid.Get(id)
	evid.Finish(t, r)
	r.SetRule("rapid: single files and tar directories (1-5 files under generated nested paths with shared prefixes, optional index document), plain or encrypted, content from chunk templates (0-3 full 256 KiB blocks with repeated/shared tags + tail) uploaded through the real POST /aurora handler on a fresh node-lite whose store records every Put; oracle: set(Traverse) == set(put addresses) as exact 32-byte addresses, data lists subset of puts, pyramid keys subset of puts, data U pyramid == puts; non-trivial = >= 3 chunks written or a directory; distinct by hash of the case")
	if evid.Known(sigEnc) {
		c := kase{Encrypt: true, Files: []fileCase{{Path: "f", Spec: nodelite.FileSpec{Tags: []int{0, 1}, Tail: 5}}}}
		if sig, _, err := runStrict(c); err != nil && sig == sigEnc {
			r.Witness(sigEnc)
		}
	}
	evid.Checks(40)
	rapid.Check(t, func(t *rapid.T) {
		c := genCase(t)
		sig, n, err := run(c)
		if err != nil {
			t.Fatalf("%s", evid.Violation(id, sig, fmt.Sprintf("%v case=%+v", err, c)))
		}
		if n < 0 {
			return
		}
		cls := []string{}
		if c.Dir {
			cls = append(cls, "directory")
		} else {
			cls = append(cls, "single-file")
		}
		if c.Encrypt {
			cls = append(cls, "encrypted")
		}
		multi := false
		for _, f := range c.Files {
			if len(f.Spec.Tags) >= 2 {
				multi = true
			}
		}
		if multi {
			cls = append(cls, "has-intermediate-chunk")
		}
		r.Case(evid.Hash64(c), n >= 3 || c.Dir, cls...)
		r.Sample(c)
	})
}


// blockReader yields n full template blocks (tags cycle through a short pattern) without holding them all.
type blockReader struct {
	tags []int
	n, i int
	cur  []byte
}

func (b *blockReader) Read(p []byte) (int, error) {
	if len(b.cur) == 0 {
		if b.i >= b.n {
			return 0, io.EOF
		}
		switch b.i {
		case 0:
			b.cur = nodelite.Block(8) // first and last chunk are unique, so that de-duplication
		case b.n - 1:
			b.cur = nodelite.Block(9) // cannot hide a missing boundary chunk
		default:
			b.cur = nodelite.Block(b.tags[b.i%len(b.tags)])
		}
		b.i++
	}
	k := copy(p, b.cur)
	b.cur = b.cur[k:]
	return k, nil
}

// TestC09_DeepTree (thorough tier only): files whose chunk count sits at the boundaries of a full
// intermediate chunk (8192 references): 8192, 8193 (a lone data chunk carried up next to a full
// intermediate chunk) and 8194 chunks. The content cycles through a few templates, so the store
// de-duplicates it, but the tree has the real three-level shape.
func TestC09_DeepTree(t *testing.T) {
	r := evid.Get(id)
	evid.Finish(t, r)
	if !evid.Thorough() || os.Getenv("VERIF_SHARD") > "0" {
		t.Skip("deep trees run in the thorough tier, shard 0 only")
	}
	for _, n := range []int{8193, 8192, 8194} {
		nodeSeq++
		net := nodelite.NewNet()
		nd, err := net.NewNode(nodelite.AddrN(nodeSeq), nodelite.Options{})
		if err != nil {
			t.Fatal(err)
		}
		nd.Rec.AddrOnly = true
		nd.Rec.Start()
		ref, err := nd.UploadReader("deep.bin", &blockReader{tags: []int{0, 1, 2, 1, 3}, n: n})
		puts := nd.Rec.Stop()
		if err != nil {
			nd.Close()
			t.Fatalf("deep upload of %d chunks: %v", n, err)
		}
		written := map[string]bool{}
		for _, p := range puts {
			written[p.Addr] = true
		}
		trav := map[string]bool{}
		if err := nd.Trav.Traverse(context.Background(), ref, func(a boson.Address) error { trav[a.String()] = true; return nil }); err != nil {
			t.Fatalf("%s", evid.Violation(id, "C09/traverse-error", fmt.Sprintf("%d chunks: %v", n, err)))
		}
		if a, b := diff(trav, written); len(a)+len(b) > 0 {
			t.Fatalf("%s", evid.Violation(id, "C09/traverse-differs", fmt.Sprintf("file of %d chunks: traversal-only %v, written-only %v", n, a, b)))
		}
		data, _, err := nd.Trav.GetChunkHashes(context.Background(), ref, nil)
		if err != nil {
			t.Fatalf("%s", evid.Violation(id, "C09/chunkhashes-error", fmt.Sprintf("%d chunks: %v", n, err)))
		}
		cover := map[string]bool{}
		total := 0
		for _, l := range data {
			total += len(l)
			for _, a := range l {
				s := boson.NewAddress(a).String()
				if !written[s] {
					t.Fatalf("%s", evid.Violation(id, "C09/data-list-extra", fmt.Sprintf("file of %d chunks: data list holds %s which was never written", n, s)))
				}
				cover[s] = true
			}
		}
		if total != n {
			t.Fatalf("%s", evid.Violation(id, "C09/data-list-length", fmt.Sprintf("file of %d chunks: data lists hold %d entries", n, total)))
		}
		pyr, err := nd.Trav.GetPyramid(context.Background(), ref)
		if err != nil {
			t.Fatalf("%s", evid.Violation(id, "C09/pyramid-error", fmt.Sprintf("%d chunks: %v", n, err)))
		}
		for k := range pyr {
			if !written[strings.ToLower(k)] {
				t.Fatalf("%s", evid.Violation(id, "C09/pyramid-extra", fmt.Sprintf("file of %d chunks: pyramid holds %s which was never written", n, k)))
			}
			cover[strings.ToLower(k)] = true
		}
		// the data chunks themselves must all be in the data lists, the rest in the pyramid
		if _, miss := diff(cover, written); len(miss) > 0 {
			t.Fatalf("%s", evid.Violation(id, "C09/cover-missing", fmt.Sprintf("file of %d chunks: data lists + pyramid miss written chunks %v", n, miss)))
		}
		// observation only (the statement does not demand it): can a node that is given just the
		// pyramid rebuild the data lists, as pyramid exchange needs?
		peerN, _ := net.NewNode(nodelite.AddrN(nodeSeq+500000), nodelite.Options{})
		if pdata, _, perr := peerN.Trav.GetChunkHashes(context.Background(), ref, pyr); perr != nil {
			r.Class("deep:pyramid-not-self-contained(not asserted)")
		} else {
			pt := 0
			for _, l := range pdata {
				pt += len(l)
			}
			if pt == n {
				r.Class("deep:pyramid-self-contained")
			} else {
				r.Class("deep:pyramid-rebuilds-other-length(not asserted)")
			}
		}
		peerN.Close()
		nd.Close()
		r.Case(evid.Hash64("deep", n), true, fmt.Sprintf("deep-%d-chunks", n))
	}
}
