// Package c18: both state-store implementations (leveldb persistent / leveldb
// in-memory / mock) behave as the same string-keyed persistent map.
package c18

import (
	"bytes"
	"encoding/json"
	"errors"
	"fmt"
	"io"
	"math"
	"math/big"
	"os"
	"sort"
	"testing"
	"time"

	"github.com/gauss-project/aurorafs/pkg/boson"
	"github.com/gauss-project/aurorafs/pkg/logging"
	ldbstore "github.com/gauss-project/aurorafs/pkg/statestore/leveldb"
	mockstore "github.com/gauss-project/aurorafs/pkg/statestore/mock"
	"github.com/gauss-project/aurorafs/pkg/storage"
	"pgregory.net/rapid"
	"verifharness/internal/evid"
	"verifharness/internal/ref"
)

const id = "C18"

const (
	sigLdbErr    = "C18/leveldb-iterate-swallows-callback-error"
	sigMockOrder = "C18/mock-iterate-unordered"
)

// reserved schema keys written by the stores themselves; never generated and
// ignored by the iteration callbacks of the harness.
var reserved = map[string]bool{"statestore_schema": true, "schema_name": true}

// ---- case representation ------------------------------------------------------

type value struct {
	Kind string   `json:"kind"` // str|int|struct|addr|time|raw|strs|big
	S    string   `json:"s,omitempty"`
	I    int64    `json:"i,omitempty"`
	B    []byte   `json:"b,omitempty"`
	L    []string `json:"l,omitempty"`
}

type op struct {
	K    string `json:"op"`             // put|get|del|iter|reopen
	Key  []byte `json:"key,omitempty"`  // put/get/del
	Pfx  []byte `json:"pfx,omitempty"`  // iter (may be empty = whole store)
	V    *value `json:"v,omitempty"`    // put
	Mode string `json:"mode,omitempty"` // iter: full|stop|err|stoperr
	At   int    `json:"at,omitempty"`   // iter: callback invocation (0-based) that stops / errors
}

type kase struct {
	// WithMem adds the in-memory leveldb store (same code as the file store on
	// goleveldb's memory storage) to the lock-step set. Every leveldb Open clears
	// a 32 MiB write buffer, so only a third of the histories pay for it.
	WithMem bool `json:"with_mem,omitempty"`
	Ops     []op `json:"ops"`
}

// ---- value kinds ----------------------------------------------------------------

type rec struct {
	A int64    `json:"a"`
	B string   `json:"b"`
	C []byte   `json:"c"`
	D []string `json:"d,omitempty"`
}

// raw implements encoding.BinaryMarshaler/BinaryUnmarshaler on the pointer, the
// way the repository's contract suite (statestore/test.Serializing) does.
type raw struct{ b []byte }

func (r *raw) MarshalBinary() ([]byte, error) { return append([]byte{}, r.b...), nil }
func (r *raw) UnmarshalBinary(d []byte) error { r.b = append([]byte{}, d...); return nil }

// toGo returns the Go value handed to Put.
func (v *value) toGo() interface{} {
	switch v.Kind {
	case "str":
		return v.S
	case "int":
		return v.I
	case "struct":
		return rec{A: v.I, B: v.S, C: v.B, D: v.L}
	case "addr":
		return boson.NewAddress(v.B)
	case "time":
		return time.Unix(v.I, 0).UTC()
	case "raw":
		return &raw{b: v.B}
	case "strs":
		return v.L
	case "big":
		return bigOf(v)
	}
	panic("kind " + v.Kind)
}

func bigOf(v *value) *big.Int {
	x := new(big.Int).SetInt64(v.I)
	if len(v.B) > 0 {
		x.Mul(x, new(big.Int).SetBytes(v.B))
	}
	return x
}

// readBack fetches key from st into a fresh destination of the kind of want and
// compares. found=false when the store says storage.ErrNotFound.
func readBack(st storage.StateStorer, key string, want *value) (found bool, err error) {
	chk := func(e error) (bool, error) {
		if e == nil {
			return true, nil
		}
		if errors.Is(e, storage.ErrNotFound) {
			return false, nil
		}
		return false, fmt.Errorf("Get(%q): %v", key, e)
	}
	switch want.Kind {
	case "str":
		var g string
		if f, e := chk(st.Get(key, &g)); !f || e != nil {
			return f, e
		}
		if g != want.S {
			return true, fmt.Errorf("Get(%q) = %q want %q", key, g, want.S)
		}
	case "int":
		var g int64
		if f, e := chk(st.Get(key, &g)); !f || e != nil {
			return f, e
		}
		if g != want.I {
			return true, fmt.Errorf("Get(%q) = %d want %d", key, g, want.I)
		}
	case "struct":
		var g rec
		if f, e := chk(st.Get(key, &g)); !f || e != nil {
			return f, e
		}
		if e := eqRec(g, want); e != nil {
			return true, fmt.Errorf("Get(%q): %v", key, e)
		}
	case "addr":
		var g boson.Address
		if f, e := chk(st.Get(key, &g)); !f || e != nil {
			return f, e
		}
		if !bytes.Equal(g.Bytes(), want.B) {
			return true, fmt.Errorf("Get(%q) = address %x want %x", key, g.Bytes(), want.B)
		}
	case "time":
		var g time.Time
		if f, e := chk(st.Get(key, &g)); !f || e != nil {
			return f, e
		}
		if !g.Equal(time.Unix(want.I, 0)) {
			return true, fmt.Errorf("Get(%q) = time %v want unix %d", key, g, want.I)
		}
	case "raw":
		g := &raw{}
		if f, e := chk(st.Get(key, g)); !f || e != nil {
			return f, e
		}
		if !bytes.Equal(g.b, want.B) {
			return true, fmt.Errorf("Get(%q) = raw %x want %x", key, g.b, want.B)
		}
	case "strs":
		var g []string
		if f, e := chk(st.Get(key, &g)); !f || e != nil {
			return f, e
		}
		if !eqStrs(g, want.L) {
			return true, fmt.Errorf("Get(%q) = %q want %q", key, g, want.L)
		}
	case "big":
		g := new(big.Int)
		if f, e := chk(st.Get(key, g)); !f || e != nil {
			return f, e
		}
		if g.Cmp(bigOf(want)) != 0 {
			return true, fmt.Errorf("Get(%q) = %v want %v", key, g, bigOf(want))
		}
	}
	return true, nil
}

func eqStrs(a, b []string) bool {
	if len(a) != len(b) {
		return false
	}
	for i := range a {
		if a[i] != b[i] {
			return false
		}
	}
	return true
}

func eqRec(g rec, want *value) error {
	if g.A != want.I || g.B != want.S || !bytes.Equal(g.C, want.B) || !eqStrs(g.D, want.L) {
		return fmt.Errorf("struct %+v want {A:%d B:%q C:%x D:%q}", g, want.I, want.S, want.B, want.L)
	}
	return nil
}

// checkRawValue decodes the bytes handed to an iteration callback the way the
// callers do (json.Unmarshal / UnmarshalBinary into the type that was stored).
func checkRawValue(b []byte, want *value) error {
	switch want.Kind {
	case "str":
		var g string
		if e := json.Unmarshal(b, &g); e != nil || g != want.S {
			return fmt.Errorf("value %q decodes to %q (%v) want %q", b, g, e, want.S)
		}
	case "int":
		var g int64
		if e := json.Unmarshal(b, &g); e != nil || g != want.I {
			return fmt.Errorf("value %q decodes to %d (%v) want %d", b, g, e, want.I)
		}
	case "struct":
		var g rec
		if e := json.Unmarshal(b, &g); e != nil {
			return fmt.Errorf("value %q: %v", b, e)
		}
		return eqRec(g, want)
	case "addr":
		var g boson.Address
		if e := json.Unmarshal(b, &g); e != nil || !bytes.Equal(g.Bytes(), want.B) {
			return fmt.Errorf("value %q decodes to %x (%v) want %x", b, g.Bytes(), e, want.B)
		}
	case "time":
		var g time.Time
		if e := g.UnmarshalBinary(b); e != nil || !g.Equal(time.Unix(want.I, 0)) {
			return fmt.Errorf("value %x decodes to %v (%v) want unix %d", b, g, e, want.I)
		}
	case "raw":
		if !bytes.Equal(b, want.B) {
			return fmt.Errorf("value %x want %x", b, want.B)
		}
	case "strs":
		var g []string
		if e := json.Unmarshal(b, &g); e != nil || !eqStrs(g, want.L) {
			return fmt.Errorf("value %q decodes to %q (%v) want %q", b, g, e, want.L)
		}
	case "big":
		g := new(big.Int)
		if e := json.Unmarshal(b, g); e != nil || g.Cmp(bigOf(want)) != 0 {
			return fmt.Errorf("value %q decodes to %v (%v) want %v", b, g, e, bigOf(want))
		}
	}
	return nil
}

// ---- stores under test ------------------------------------------------------------

type sut struct {
	name    string // file|mem|mock
	st      storage.StateStorer
	ordered bool // leveldb-backed
}

var errCallback = errors.New("c18: callback error")

type failure struct {
	sig string
	err error
}

func fail(sig string, format string, a ...interface{}) *failure {
	return &failure{sig: sig, err: fmt.Errorf(format, a...)}
}

// stats of one executed case (for the evidence classes)
type stats struct {
	cls map[string]int
}

func (s *stats) add(c string) {
	if s.cls == nil {
		s.cls = map[string]int{}
	}
	s.cls[c]++
}

// run interprets a case against the three stores in lock-step. strict=true
// ignores the known-finding relaxations (used by the witness cases).
func run(c kase, strict bool, s *stats) (f *failure) {
	defer func() {
		if p := recover(); p != nil {
			f = fail("C18/panic", "panic: %v", p)
		}
	}()
	logger := logging.New(io.Discard, 0)
	dir, err := os.MkdirTemp("", "c18-")
	if err != nil {
		panic(err)
	}
	defer os.RemoveAll(dir)

	file, err := ldbstore.NewStateStore(dir, logger)
	if err != nil {
		return fail("C18/open", "NewStateStore: %v", err)
	}
	suts := []*sut{{"file", file, true}, {"mock", mockstore.NewStateStore(), false}}
	if c.WithMem {
		mem, err := ldbstore.NewInMemoryStateStore(logger)
		if err != nil {
			file.Close()
			return fail("C18/open", "NewInMemoryStateStore: %v", err)
		}
		suts = append(suts, &sut{"mem", mem, true})
	}
	defer func() {
		for _, u := range suts {
			if u.st != nil {
				u.st.Close()
			}
		}
	}()

	relaxLdbErr := !strict && evid.Known(sigLdbErr)
	relaxMock := !strict && evid.Known(sigMockOrder)

	model := ref.NewSortedMap()     // key -> canonical JSON of the value record (only presence / order used)
	vals := map[string]*value{}     // key -> last written value
	r := evid.Get(id)

	// iterate runs one Iterate on one store and compares against the model.
	iterate := func(u *sut, step string, pfx []byte, mode string, at int) *failure {
		exp := model.KeysWithPrefix(pfx)
		n := len(exp)
		wantVisited := n
		wantErr := false
		if mode != "full" && at < n {
			wantVisited = at + 1
			wantErr = mode == "err" || mode == "stoperr"
		}
		var visited [][]byte
		var valErr error
		calls := 0
		cbErrReturned := false
		gotErr := u.st.Iterate(string(pfx), func(k, v []byte) (bool, error) {
			if reserved[string(k)] {
				return false, nil
			}
			kk := append([]byte{}, k...)
			visited = append(visited, kk)
			if w, ok := vals[string(kk)]; ok && valErr == nil {
				if e := checkRawValue(append([]byte{}, v...), w); e != nil {
					valErr = fmt.Errorf("key %q: %v", kk, e)
				}
			}
			i := calls
			calls++
			if mode != "full" && i == at {
				switch mode {
				case "stop":
					return true, nil
				case "err":
					cbErrReturned = true
					return false, errCallback
				case "stoperr":
					cbErrReturned = true
					return true, errCallback
				}
			}
			return false, nil
		})
		desc := fmt.Sprintf("%s: store=%s Iterate(prefix=%q, mode=%s at=%d)", step, u.name, pfx, mode, at)
		// 1. every visited key matches the prefix, is live, and is visited once
		seen := map[string]bool{}
		member := true
		for _, k := range visited {
			if _, ok := model.Get(k); !ok || !bytes.HasPrefix(k, pfx) || seen[string(k)] {
				member = false
			}
			seen[string(k)] = true
		}
		exact := len(visited) == wantVisited
		if exact {
			for i := range visited {
				if !bytes.Equal(visited[i], exp[i]) {
					exact = false
				}
			}
		}
		if !exact {
			if !u.ordered && member && len(visited) == wantVisited {
				// right number of distinct live matching keys, but not the ascending ones
				if relaxMock {
					r.Excluded(sigMockOrder)
				} else {
					return fail(sigMockOrder, "%s visited %q, want ascending %q", desc, visited, exp[:wantVisited])
				}
			} else {
				return fail("C18/iterate-keys", "%s visited %q, want %q (of matching %q)", desc, visited, exp[:wantVisited], exp)
			}
		}
		if valErr != nil {
			return fail("C18/iterate-value", "%s: %v", desc, valErr)
		}
		// 2. error propagation
		if cbErrReturned != wantErr {
			// the callback fires iff the at-th matching key was reached; follows from the count check
			return fail("C18/iterate-keys", "%s: callback error fired=%v want %v", desc, cbErrReturned, wantErr)
		}
		if wantErr {
			if !errors.Is(gotErr, errCallback) {
				if u.ordered && gotErr == nil {
					if relaxLdbErr {
						r.Excluded(sigLdbErr)
					} else {
						return fail(sigLdbErr, "%s returned nil, want the callback's error", desc)
					}
				} else {
					return fail("C18/iterate-error-lost", "%s returned %v, want the callback's error", desc, gotErr)
				}
			}
		} else if gotErr != nil {
			return fail("C18/iterate-error", "%s returned unexpected error %v", desc, gotErr)
		}
		return nil
	}

	fullCheck := func(step string) *failure {
		for _, u := range suts {
			if f := iterate(u, step+" [full check]", nil, "full", 0); f != nil {
				return f
			}
			for _, k := range model.Keys() {
				found, err := readBack(u.st, string(k), vals[string(k)])
				if err != nil {
					return fail("C18/get", "%s [full check] store=%s: %v", step, u.name, err)
				}
				if !found {
					return fail("C18/get", "%s [full check] store=%s: Get(%q) not found, want %+v", step, u.name, k, *vals[string(k)])
				}
			}
		}
		return nil
	}

	touched := map[string]bool{}
	for i, o := range c.Ops {
		step := fmt.Sprintf("op#%d %s", i, o.K)
		switch o.K {
		case "put":
			_, had := model.Get(o.Key)
			if had {
				if vals[string(o.Key)].Kind != o.V.Kind {
					s.add("put-overwrite-other-type")
				} else {
					s.add("put-overwrite")
				}
			} else if touched[string(o.Key)] {
				s.add("put-after-delete")
			} else {
				s.add("put-new")
			}
			s.add("kind-" + o.V.Kind)
			for _, u := range suts {
				if err := u.st.Put(string(o.Key), o.V.toGo()); err != nil {
					return fail("C18/put", "%s store=%s Put(%q, %+v): %v", step, u.name, o.Key, *o.V, err)
				}
			}
			enc, _ := json.Marshal(o.V)
			model.Put(o.Key, enc)
			vals[string(o.Key)] = o.V
			touched[string(o.Key)] = true
		case "get":
			want, ok := vals[string(o.Key)]
			if ok {
				s.add("get-present")
			} else {
				s.add("get-absent")
				want = &value{Kind: "str"}
			}
			for _, u := range suts {
				found, err := readBack(u.st, string(o.Key), want)
				if err != nil {
					return fail("C18/get", "%s store=%s: %v", step, u.name, err)
				}
				if found != ok {
					return fail("C18/get", "%s store=%s Get(%q): found=%v want %v", step, u.name, o.Key, found, ok)
				}
			}
		case "del":
			_, had := model.Get(o.Key)
			if had {
				s.add("delete-present")
			} else {
				s.add("delete-absent")
			}
			for _, u := range suts {
				err := u.st.Delete(string(o.Key))
				if err != nil && had {
					return fail("C18/delete", "%s store=%s Delete(%q) of a present key: %v", step, u.name, o.Key, err)
				}
			}
			model.Delete(o.Key)
			delete(vals, string(o.Key))
			for _, u := range suts {
				found, err := readBack(u.st, string(o.Key), &value{Kind: "str"})
				if found || err != nil {
					return fail("C18/delete", "%s store=%s: after Delete(%q) Get found=%v err=%v", step, u.name, o.Key, found, err)
				}
			}
		case "iter":
			n := len(model.KeysWithPrefix(o.Pfx))
			s.add("iter-" + o.Mode)
			switch {
			case n == 0:
				s.add("iter-match-0")
			case n == 1:
				s.add("iter-match-1")
			default:
				s.add("iter-match-2+")
			}
			if o.Mode != "full" {
				if o.At < n-1 {
					s.add("iter-cut-early")
				} else if o.At == n-1 {
					s.add("iter-cut-at-last")
				} else {
					s.add("iter-cut-never-reached")
				}
			}
			if len(o.Pfx) == 0 {
				s.add("iter-empty-prefix")
			} else if o.Pfx[len(o.Pfx)-1] == 0xff {
				s.add("iter-prefix-ends-ff")
			}
			if _, ok := model.Get(o.Pfx); ok {
				s.add("iter-prefix-is-a-key")
			}
			for _, u := range suts {
				if f := iterate(u, step, o.Pfx, o.Mode, o.At); f != nil {
					return f
				}
			}
		case "reopen":
			s.add("reopen")
			if model.Len() > 0 {
				s.add("reopen-nonempty")
			}
			if err := suts[0].st.Close(); err != nil {
				suts[0].st = nil
				return fail("C18/reopen", "%s: Close of the persistent store: %v", step, err)
			}
			suts[0].st = nil
			st, err := ldbstore.NewStateStore(dir, logger)
			if err != nil {
				return fail("C18/reopen", "%s: reopening the persistent store: %v", step, err)
			}
			suts[0].st = st
			if f := fullCheck(step); f != nil {
				if f.sig == "C18/get" || f.sig == "C18/iterate-keys" || f.sig == "C18/iterate-value" {
					f.sig = "C18/reopen-lost-data"
				}
				return f
			}
		}
		if o.K == "put" || o.K == "del" {
			if f := fullCheck(step); f != nil {
				return f
			}
		}
	}
	return fullCheck("end")
}

// ---- generator ----------------------------------------------------------------------

// keys share prefixes with each other and with the prefix alphabet; none equals a reserved key.
var keyAlphabet = [][]byte{
	[]byte("a"), []byte("ab"), []byte("ab/"), []byte("ab/1"), []byte("ab/2"), []byte("ab/\xff"), []byte("ab0"),
	[]byte("a\x00"), []byte("b"), []byte("b\xff"), []byte("b\xff\xff"), []byte("b\xff\xff\x00"), []byte("c"),
	[]byte("\xff"), []byte("\xff\xff"), []byte("\xffa"), []byte("\x00"),
	[]byte("peer-"), []byte("peer-0a"), []byte("peer-0b"), []byte("peer_"), []byte("peer"),
	[]byte("schema"), []byte("statestore"), []byte("statestore_schema_"), []byte("t"),
}

var prefixAlphabet = [][]byte{
	nil, []byte("a"), []byte("ab"), []byte("ab/"), []byte("ab/\xff"), []byte("b"), []byte("b\xff"), []byte("b\xff\xff"),
	[]byte("\xff"), []byte("\xff\xff"), []byte("peer"), []byte("peer-"), []byte("peer-0"), []byte("s"), []byte("d"),
	[]byte("\x00"), []byte("ab/1"), []byte("t"),
}

var suffixBytes = []byte{0x00, '/', '0', 'a', 0xfe, 0xff}

func genKey(t *rapid.T, cluster []byte) []byte {
	var k []byte
	if rapid.IntRange(0, 1).Draw(t, "inCluster") == 0 {
		var cl [][]byte
		for _, a := range keyAlphabet {
			if bytes.HasPrefix(a, cluster) {
				cl = append(cl, a)
			}
		}
		k = append([]byte{}, rapid.SampledFrom(cl).Draw(t, "ckey")...)
	} else {
		k = append([]byte{}, rapid.SampledFrom(keyAlphabet).Draw(t, "key")...)
	}
	if rapid.IntRange(0, 5).Draw(t, "suffixed") == 0 {
		n := rapid.IntRange(1, 2).Draw(t, "nsuffix")
		for i := 0; i < n; i++ {
			k = append(k, rapid.SampledFrom(suffixBytes).Draw(t, "sb"))
		}
	}
	if reserved[string(k)] {
		k = append(k, '!')
	}
	return k
}

var runes = []rune{'a', 'b', ' ', '"', '\\', '/', '<', '&', 0, '\n', 0x7f, 0xe9, 0x2028, 0x4e16, 0x1f600, 0xfffd}

func genStr(t *rapid.T, label string) string {
	return string(rapid.SliceOfN(rapid.SampledFrom(runes), 0, 6).Draw(t, label))
}

func genValue(t *rapid.T) *value {
	v := &value{Kind: rapid.SampledFrom([]string{"str", "int", "struct", "addr", "time", "raw", "strs", "big"}).Draw(t, "kind")}
	switch v.Kind {
	case "str":
		v.S = genStr(t, "s")
	case "int":
		v.I = rapid.OneOf(rapid.SampledFrom([]int64{0, 1, -1, math.MaxInt64, math.MinInt64, 1 << 53, (1 << 53) + 1}), rapid.Int64()).Draw(t, "i")
	case "struct":
		v.I = rapid.Int64().Draw(t, "a")
		v.S = genStr(t, "b")
		v.B = rapid.SliceOfN(rapid.Byte(), 0, 5).Draw(t, "c")
		if rapid.Bool().Draw(t, "hasd") {
			v.L = []string{genStr(t, "d0"), genStr(t, "d1")}
		}
	case "addr":
		n := rapid.SampledFrom([]int{32, 32, 32, 1, 20}).Draw(t, "alen")
		v.B = rapid.SliceOfN(rapid.Byte(), n, n).Draw(t, "addr")
	case "time":
		v.I = rapid.OneOf(rapid.SampledFrom([]int64{0, 1, 1663718400, 4102444800}), rapid.Int64Range(0, 1<<33)).Draw(t, "unix")
	case "raw":
		v.B = rapid.SliceOfN(rapid.Byte(), 0, 8).Draw(t, "raw")
	case "strs":
		n := rapid.IntRange(0, 3).Draw(t, "nl")
		v.L = make([]string, n)
		for i := range v.L {
			v.L[i] = genStr(t, "l")
		}
	case "big":
		v.I = rapid.Int64().Draw(t, "bi")
		v.B = rapid.SliceOfN(rapid.Byte(), 0, 12).Draw(t, "bmul")
	}
	return v
}

func genCase(t *rapid.T) kase {
	var c kase
	maxOps := 24
	if evid.Thorough() {
		maxOps = 60
	}
	n := rapid.IntRange(1, maxOps).Draw(t, "nops")
	// half of the fresh keys of one history come from one cluster of the alphabet
	cluster := rapid.SampledFrom([][]byte{[]byte("a"), []byte("ab"), []byte("b"), []byte("\xff"), []byte("peer")}).Draw(t, "cluster")
	preload := rapid.IntRange(0, 6).Draw(t, "preload") // leading puts
	c.WithMem = rapid.IntRange(0, 2).Draw(t, "withMem") == 0
	reopens := 0
	// The generator simulates which keys are live so that get/del/iterate hit live
	// keys, prefixes match several keys and cut points fall inside the match set
	// (construction, not rejection). The simulation is only a steering aid: the
	// oracle recomputes everything from the model in run().
	var used [][]byte
	live := map[string]bool{}
	liveKeys := func() [][]byte {
		ks := make([]string, 0, len(live))
		for k := range live {
			ks = append(ks, k)
		}
		sort.Strings(ks)
		out := make([][]byte, len(ks))
		for i, k := range ks {
			out[i] = []byte(k)
		}
		return out
	}
	pickKey := func(preferLive bool) []byte {
		if preferLive {
			if lk := liveKeys(); len(lk) > 0 && rapid.IntRange(0, 9).Draw(t, "live") < 7 {
				return lk[rapid.IntRange(0, len(lk)-1).Draw(t, "liveidx")]
			}
		}
		if len(used) > 0 && rapid.IntRange(0, 9).Draw(t, "reuse") < 3 {
			return used[rapid.IntRange(0, len(used)-1).Draw(t, "usedidx")]
		}
		k := genKey(t, cluster)
		used = append(used, k)
		return k
	}
	for i := 0; i < n; i++ {
		kind := "put"
		if i >= preload {
			kind = rapid.SampledFrom([]string{"put", "put", "put", "put", "get", "del", "iter", "iter", "iter", "iter", "reopen"}).Draw(t, "op")
		}
		if kind == "reopen" {
			if reopens++; reopens > 2 { // each reopen costs a 32 MiB buffer clear
				kind = "iter"
			}
		}
		o := op{K: kind}
		switch kind {
		case "put":
			o.Key = pickKey(rapid.IntRange(0, 3).Draw(t, "overwrite") == 0)
			o.V = genValue(t)
			live[string(o.Key)] = true
		case "get":
			o.Key = pickKey(true)
		case "del":
			o.Key = pickKey(true)
			delete(live, string(o.Key))
		case "iter":
			lk := liveKeys()
			if len(lk) > 0 && rapid.IntRange(0, 9).Draw(t, "pfxkind") < 6 {
				// a prefix cut out of a live key (possibly empty or the whole key)
				k := lk[rapid.IntRange(0, len(lk)-1).Draw(t, "pk")]
				cut := rapid.SampledFrom([]int{0, 1, 1, 1, 2, 2, 3, len(k)}).Draw(t, "plen")
				if cut > len(k) {
					cut = len(k)
				}
				o.Pfx = append([]byte{}, k[:cut]...)
			} else {
				o.Pfx = rapid.SampledFrom(prefixAlphabet).Draw(t, "pfx")
			}
			o.Mode = rapid.SampledFrom([]string{"full", "stop", "stop", "err", "err", "stoperr"}).Draw(t, "mode")
			if o.Mode != "full" {
				nm := 0
				for _, k := range lk {
					if bytes.HasPrefix(k, o.Pfx) {
						nm++
					}
				}
				o.At = rapid.IntRange(0, nm).Draw(t, "at") // at == nm: never reached
			}
		}
		c.Ops = append(c.Ops, o)
	}
	return c
}

func nontrivial(c kase) bool {
	for _, o := range c.Ops {
		if o.K == "reopen" || (o.K == "iter" && o.Mode != "full") {
			return true
		}
	}
	return false
}

func record(r *evid.Rec, c kase, s *stats) {
	cls := []string{}
	has := map[string]bool{}
	for _, o := range c.Ops {
		has[o.K] = true
		if o.K == "iter" && o.Mode != "full" {
			has["iter-cut"] = true
		}
	}
	for _, k := range []string{"reopen", "iter-cut"} {
		if has[k] {
			cls = append(cls, "case-has-"+k)
		}
	}
	if c.WithMem {
		cls = append(cls, "case-with-leveldb-memory-store")
	}
	r.Case(evid.Hash64(c), nontrivial(c), cls...)
	names := make([]string, 0, len(s.cls))
	for k := range s.cls {
		names = append(names, k)
	}
	sort.Strings(names)
	for _, k := range names {
		r.ClassN("op:"+k, s.cls[k])
	}
	r.Sample(c)
}

// ---- witnesses of known findings ------------------------------------------------------

func witnessLdbErr() kase {
	return kase{WithMem: true, Ops: []op{
		{K: "put", Key: []byte("a"), V: &value{Kind: "int", I: 1}},
		{K: "iter", Pfx: []byte("a"), Mode: "err", At: 0},
	}}
}

func witnessMockOrder() kase {
	c := kase{}
	for _, k := range []string{"ab/1", "ab/2", "ab/3", "ab/4", "ab/5", "ab/6", "ab/7", "ab/8"} {
		c.Ops = append(c.Ops, op{K: "put", Key: []byte(k), V: &value{Kind: "int", I: 1}})
	}
	for i := 0; i < 6; i++ {
		c.Ops = append(c.Ops, op{K: "iter", Pfx: []byte("ab/"), Mode: "full"})
	}
	return c
}

func TestC18_Model(t *testing.T) {
	r := evid.Get(id)
	evid.Finish(t, r)
	r.SetRule("rapid: histories of 1..24 ops (thorough 60) put/get/delete/iterate/reopen over keys from an alphabet with shared prefixes (a, ab, ab/, ab/1, ab/\\xff, b\\xff\\xff, \\xff, peer-0a ...; optional 1-2 byte suffix from {00,/,0,a,fe,ff}), values of 8 kinds (string, int64, struct, boson.Address, []string, big.Int through JSON; time.Time UTC seconds and a raw-bytes type through BinaryMarshaler), iterate with prefix from a prefix alphabet (incl. empty, 0xff-terminated, non-matching, a live key) in mode full | stop at k | error at k | stop+error at k (k in 0..5); run in lock-step on leveldb-file (temp dir; reopen = Close + NewStateStore on the same dir, at most 2 per history), mock, and in a third of the histories also leveldb-memory; oracle: byte-ordered map model, checked per op and by a full iterate+get sweep after every mutation/reopen and at the end; non-trivial = history contains an iterate with stop/error or a reopen; distinct by hash of the history")

	for _, w := range []struct {
		sig string
		c   kase
	}{{sigLdbErr, witnessLdbErr()}, {sigMockOrder, witnessMockOrder()}} {
		if !evid.Known(w.sig) {
			continue
		}
		if f := run(w.c, true, &stats{}); f != nil {
			if f.sig == w.sig {
				r.Witness(w.sig)
			} else {
				t.Fatalf("%s", evid.Violation(id, f.sig, fmt.Sprintf("%v (witness case of %s) case=%s", f.err, w.sig, js(w.c))))
			}
		}
	}

	evid.Checks(240)
	rapid.Check(t, func(t *rapid.T) {
		c := genCase(t)
		s := &stats{}
		if f := run(c, false, s); f != nil {
			t.Fatalf("%s", evid.Violation(id, f.sig, fmt.Sprintf("%v case=%s", f.err, js(c))))
		}
		record(r, c, s)
	})
}

func js(v interface{}) string {
	b, _ := json.Marshal(v)
	return string(b)
}
