package c39

import (
	"bytes"
	"fmt"
	"testing"

	"github.com/gauss-project/aurorafs/pkg/bitvector"
	"pgregory.net/rapid"
	"verifharness/internal/evid"
)

const id = "C39"

type op struct {
	Kind string `json:"k"`
	I    int    `json:"i,omitempty"`
	Mask []byte `json:"mask,omitempty"`
}

type kase struct {
	L     int    `json:"len"`
	Extra int    `json:"extra_backing_bytes"`
	Init  []byte `json:"init"`
	UseNew bool  `json:"use_new"`
	Ops   []op   `json:"ops"`
}

func need(l int) int { return (l + 7) / 8 }

func run(c kase) (sig string, err error) {
	var bv *bitvector.BitVector
	model := make([]bool, c.L)
	if c.UseNew {
		bv, err = bitvector.New(c.L)
		if err != nil {
			return "C39/new", fmt.Errorf("New(%d): %v", c.L, err)
		}
	} else {
		b := append([]byte{}, c.Init...)
		bv, err = bitvector.NewFromBytes(b, c.L)
		if err != nil {
			return "C39/new", fmt.Errorf("NewFromBytes(len %d, %d): %v", len(b), c.L, err)
		}
		for i := 0; i < c.L; i++ {
			model[i] = b[i/8]&(1<<uint(i%8)) != 0
		}
	}
	if bv.Len() != c.L {
		return "C39/len", fmt.Errorf("Len()=%d want %d", bv.Len(), c.L)
	}
	check := func(step string) (string, error) {
		all := true
		for i := 0; i < c.L; i++ {
			if bv.Get(i) != model[i] {
				return "C39/get", fmt.Errorf("after %s: Get(%d)=%v want %v", step, i, bv.Get(i), model[i])
			}
			all = all && model[i]
		}
		if bv.Equals() != all {
			sig := "C39/equals"
			if len(bv.Bytes()) > need(c.L) {
				sig = "C39/equals-overlong-backing"
			}
			return sig, fmt.Errorf("after %s: Equals()=%v want %v (len %d, backing %d bytes %x)", step, bv.Equals(), all, c.L, len(bv.Bytes()), bv.Bytes())
		}
		// encode/decode round trip preserves every bit
		rt, err := bitvector.NewFromBytes(append([]byte{}, bv.Bytes()...), bv.Len())
		if err != nil {
			return "C39/roundtrip", fmt.Errorf("round trip: %v", err)
		}
		for i := 0; i < c.L; i++ {
			if rt.Get(i) != model[i] {
				return "C39/roundtrip", fmt.Errorf("after %s: roundtrip Get(%d)=%v want %v", step, i, rt.Get(i), model[i])
			}
		}
		if rt.Equals() != all {
			sig := "C39/equals"
			if len(bv.Bytes()) > need(c.L) {
				sig = "C39/equals-overlong-backing"
			}
			return sig, fmt.Errorf("after %s: roundtrip Equals()=%v want %v", step, rt.Equals(), all)
		}
		return "", nil
	}
	if s, e := check("init"); e != nil {
		return s, e
	}
	for k, o := range c.Ops {
		step := fmt.Sprintf("op#%d %s", k, o.Kind)
		switch o.Kind {
		case "set":
			bv.Set(o.I % c.L)
			model[o.I%c.L] = true
		case "unset":
			bv.Unset(o.I % c.L)
			model[o.I%c.L] = false
		case "setbytes", "unsetbytes":
			m := o.Mask
			var e error
			if o.Kind == "setbytes" {
				e = bv.SetBytes(m)
			} else {
				e = bv.UnsetBytes(m)
			}
			if len(m) != len(bv.Bytes()) {
				if e == nil {
					return "C39/mask-length", fmt.Errorf("%s: mask of %d bytes accepted for backing %d", step, len(m), len(bv.Bytes()))
				}
				break // rejected: nothing may change
			}
			if e != nil {
				return "C39/mask-length", fmt.Errorf("%s: right-length mask rejected: %v", step, e)
			}
			for i := 0; i < c.L; i++ {
				if m[i/8]&(1<<uint(i%8)) != 0 {
					model[i] = o.Kind == "setbytes"
				}
			}
		case "fill":
			for i := 0; i < c.L; i++ {
				bv.Set(i)
				model[i] = true
			}
		}
		if s, e := check(step); e != nil {
			return s, e
		}
	}
	return "", nil
}

func genCase(t *rapid.T) kase {
	var c kase
	c.L = rapid.OneOf(rapid.SampledFrom([]int{1, 2, 7, 8, 9, 15, 16, 17, 63, 64, 65}), rapid.IntRange(1, 512)).Draw(t, "len")
	c.UseNew = rapid.IntRange(0, 3).Draw(t, "ctor") == 0
	if !c.UseNew {
		c.Extra = rapid.SampledFrom([]int{0, 0, 1, 2, 3}).Draw(t, "extra")
		if evid.Known("C39/equals-overlong-backing") && c.Extra > 0 {
			evid.Get(id).Excluded("C39/equals-overlong-backing")
			c.Extra = 0
		}
		n := need(c.L) + c.Extra
		mode := rapid.IntRange(0, 3).Draw(t, "initmode")
		switch mode {
		case 0:
			c.Init = make([]byte, n)
		case 1:
			c.Init = bytes.Repeat([]byte{0xff}, n)
		default:
			c.Init = rapid.SliceOfN(rapid.Byte(), n, n).Draw(t, "init")
		}
	}
	backing := need(c.L) + c.Extra
	if c.UseNew {
		backing = need(c.L)
		if c.L%8 != 0 || c.L == 0 {
			backing = c.L/8 + 1
		}
	}
	nops := rapid.IntRange(0, 12).Draw(t, "nops")
	for i := 0; i < nops; i++ {
		k := rapid.SampledFrom([]string{"set", "set", "unset", "unset", "setbytes", "unsetbytes", "fill"}).Draw(t, "kind")
		o := op{Kind: k}
		switch k {
		case "set", "unset":
			o.I = rapid.IntRange(0, c.L-1).Draw(t, "i")
		case "setbytes", "unsetbytes":
			ml := backing
			if rapid.IntRange(0, 5).Draw(t, "wronglen") == 0 {
				ml = backing + rapid.SampledFrom([]int{-1, 1, 2}).Draw(t, "delta")
				if ml < 0 {
					ml = 0
				}
			}
			o.Mask = rapid.SliceOfN(rapid.Byte(), ml, ml).Draw(t, "mask")
		}
		c.Ops = append(c.Ops, o)
	}
	return c
}

func record(r *evid.Rec, c kase) {
	nt := c.L%8 != 0 || c.Extra > 0
	cls := []string{}
	if c.L%8 != 0 {
		cls = append(cls, "partial-last-byte")
	}
	if c.Extra > 0 {
		cls = append(cls, "overlong-backing")
	}
	if c.UseNew {
		cls = append(cls, "ctor-New")
	}
	r.Case(evid.Hash64(c), nt, cls...)
	r.Sample(c)
}

func TestC39_Model(t *testing.T) {
	r := evid.Get(id)
	evid.Finish(t, r)
	r.SetRule("rapid: vector length (boundary set 1,2,7,8,9,15..17,63..65 or uniform 1..512) x constructor (New | NewFromBytes with 0..3 spare backing bytes, arbitrary initial bytes) x op list (Set/Unset in range, SetBytes/UnsetBytes with right or wrong mask length, fill); oracle []bool model over indices < len, Equals <=> all set, Bytes->NewFromBytes round trip; non-trivial = len%8 != 0 or over-long backing slice; distinct by hash of the case")
	// boundary sweep (deterministic): every boundary length x spare bytes x all-ones init
	for _, l := range []int{1, 7, 8, 9, 63, 64, 65} {
		for extra := 0; extra <= 3; extra++ {
			if evid.Known("C39/equals-overlong-backing") && extra > 0 {
				r.Excluded("C39/equals-overlong-backing")
				continue
			}
			for _, fillb := range []byte{0x00, 0xff, 0xa5} {
				c := kase{L: l, Extra: extra, Init: bytes.Repeat([]byte{fillb}, need(l)+extra), Ops: []op{{Kind: "fill"}, {Kind: "unset", I: l - 1}, {Kind: "set", I: l - 1}}}
				if sig, err := run(c); err != nil {
					t.Fatalf("%s", evid.Violation(id, sig, fmt.Sprintf("%v case=%+v", err, c)))
				}
				record(r, c)
			}
		}
	}
	if evid.Known("C39/equals-overlong-backing") {
		c := kase{L: 10, Extra: 1, Init: []byte{0xff, 0x03, 0x00}}
		if sig, err := run(c); err != nil && sig == "C39/equals-overlong-backing" {
			r.Witness(sig)
		}
	}
	evid.Checks(3000)
	rapid.Check(t, func(t *rapid.T) {
		c := genCase(t)
		if sig, err := run(c); err != nil {
			t.Fatalf("%s", evid.Violation(id, sig, fmt.Sprintf("%v case=%+v", err, c)))
		}
		record(r, c)
	})
}
