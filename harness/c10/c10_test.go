// Package c10 checks property C10: after any sequence of adding and removing
// path entries, storing and reloading a directory manifest, a lookup of any
// path returns exactly the reference and metadata of the final mapping (or
// not-found), and prefix queries agree with that mapping.
//
// The manifest under test is the default (mantaray) manifest of pkg/manifest
// over the real loadsave (file pipeline + joiner) on an in-memory chunk store.
// The trie itself lives in the external module github.com/gauss-project/manifest.
package c10

import (
	"bytes"
	"context"
	"errors"
	"fmt"
	"os"
	"sort"
	"strings"
	"sync"
	"testing"

	"github.com/gauss-project/aurorafs/pkg/boson"
	"github.com/gauss-project/aurorafs/pkg/file"
	"github.com/gauss-project/aurorafs/pkg/file/loadsave"
	"github.com/gauss-project/aurorafs/pkg/file/pipeline"
	"github.com/gauss-project/aurorafs/pkg/file/pipeline/builder"
	"github.com/gauss-project/aurorafs/pkg/manifest"
	"github.com/gauss-project/aurorafs/pkg/storage"
	"pgregory.net/rapid"
	"verifharness/internal/evid"
)

const id = "C10"

// Signatures of the defects found in the trie (external module). Each names the
// shape of the operation that triggers it; the interpreter decides the shape from
// the model, never from error strings.
const (
	sigDrop      = "C10/remove-drops-descendants"         // Remove(p) while another entry has p as a proper prefix
	sigGhost     = "C10/dangling-prefix-after-remove"     // HasPrefix(p) / Remove(p) on a prefix that only removed entries extended
	sigKeepMd    = "C10/overwrite-keeps-old-metadata"     // Add over an entry with metadata, new metadata empty
	sigRmStale   = "C10/remove-after-store-not-persisted" // Remove of a stored entry, then Store
	sigAddStale  = "C10/add-after-read-not-persisted"     // Add on a stored manifest after a read loaded nodes, then Store
	sigOverwrite = "C10/overwrite-after-store-loses-node" // Add on a stored manifest at a path that is (a prefix of) a stored entry
	sigEmptyRef  = "C10/empty-ref-add-after-reload-corrupts" // Add of the empty-reference root entry on a reloaded manifest before any other Add
)

// ---- in-memory chunk store (mantaray saves sibling nodes concurrently) ---------

type memStore struct {
	mu sync.Mutex
	m  map[string]boson.Chunk
}

func newStore() *memStore { return &memStore{m: map[string]boson.Chunk{}} }

func (s *memStore) Get(_ context.Context, _ storage.ModeGet, a boson.Address) (boson.Chunk, error) {
	s.mu.Lock()
	defer s.mu.Unlock()
	c, ok := s.m[a.ByteString()]
	if !ok {
		return nil, storage.ErrNotFound
	}
	return c, nil
}

func (s *memStore) Put(_ context.Context, _ storage.ModePut, chs ...boson.Chunk) ([]bool, error) {
	s.mu.Lock()
	defer s.mu.Unlock()
	ex := make([]bool, len(chs))
	for i, c := range chs {
		_, ex[i] = s.m[c.Address().ByteString()]
		s.m[c.Address().ByteString()] = boson.NewChunk(c.Address(), append([]byte{}, c.Data()...))
	}
	return ex, nil
}

// ---- case -----------------------------------------------------------------------

type op struct {
	K string `json:"k"`           // add | addroot | remove | removelive | store | reload | lookup | hasprefix | verify
	P int    `json:"p,omitempty"` // index into Paths (add/remove) or Probes (lookup/hasprefix), modulo
	R byte   `json:"r,omitempty"` // reference fill byte (1..255)
	M int    `json:"m,omitempty"` // index into Metas, modulo
}

type kase struct {
	Enc    bool                `json:"encrypted"`
	Paths  []string            `json:"paths"`  // universe of entry paths (non-empty, never "/")
	Probes []string            `json:"probes"` // extra paths / prefixes that are only queried
	Metas  []map[string]string `json:"metas"`
	Ops    []op                `json:"ops"`
}

type entry struct {
	ref []byte
	md  map[string]string
}

const rootPath = manifest.RootPath // "/": the website-metadata entry real callers add with an empty reference

func refSize(enc bool) int {
	if enc {
		return 64
	}
	return 32
}

func mkRef(enc bool, b byte) []byte { return bytes.Repeat([]byte{b}, refSize(enc)) }

func mdEqual(a, b map[string]string) bool {
	if len(a) != len(b) {
		return false
	}
	for k, v := range a {
		if w, ok := b[k]; !ok || w != v {
			return false
		}
	}
	return true
}

func cloneMd(m map[string]string) map[string]string {
	if m == nil {
		return nil
	}
	o := make(map[string]string, len(m))
	for k, v := range m {
		o[k] = v
	}
	return o
}

type failure struct {
	sig string
	msg string
}

// stats of one executed history (for the evidence classes)
type stats struct {
	adds, overwrites, removes, removesAbsent, stores, reloads, reads int
	postStoreAdds, postStoreRemoves, rootEntries, longPaths         int
	rootEntriesAfterStore                                           int
	excluded                                                        map[string]int
	unassertedGhost, unassertedEmptyPrefix, storeSkipped            int
	maxKeys                                                         int
}

type runner struct {
	c       kase
	exclude bool // honour known findings (exclude their shapes)
	ctx     context.Context
	st      *memStore
	ls      file.LoadSaver
	m     manifest.Interface
	model map[string]entry

	persisted    bool            // the handle was stored or created from a reference
	loadedClean  bool            // a read ran on the persisted handle since it was (re)loaded
	persistedKey map[string]bool // entries present at the last Store / Reload
	ghosts       map[string]bool // every path ever removed
	everRegular  bool            // an entry with a real reference was added at some point
	// attribution of a later mismatch to the shape that can explain it
	taintDrop   map[string]bool
	taintKeepMd map[string]bool
	ghostSeen   map[string]bool
	flagRmStale, flagAddStale, flagOverwrite, flagEmptyRef bool
	refSizeLost bool // the handle came from a reference and no entry with a real reference was added since

	stats stats
	all   []string // every path that is looked up in a verification
	pfx   []string // every prefix that is queried in a verification
}

func (r *runner) known(sig string) bool { return r.exclude && evid.Known(sig) }

func (r *runner) excl(sig string) {
	if r.stats.excluded == nil {
		r.stats.excluded = map[string]int{}
	}
	r.stats.excluded[sig]++
}

func (r *runner) hasLiveWithPrefix(p string, proper bool) bool {
	for k := range r.model {
		if strings.HasPrefix(k, p) && (!proper || len(k) > len(p)) {
			return true
		}
	}
	return false
}

func (r *runner) ghostWithProperPrefix(p string) bool {
	for g := range r.ghosts {
		if len(g) > len(p) && strings.HasPrefix(g, p) {
			return true
		}
	}
	return false
}

// attribute picks the signature for a mismatch observed at path p.
func (r *runner) attribute(p string, kind string) string {
	switch {
	case r.taintDrop[p]:
		return sigDrop
	case kind == "metadata" && r.taintKeepMd[p]:
		return sigKeepMd
	case (kind == "hasprefix" || kind == "remove-result") && !r.hasLiveWithPrefix(p, false) && r.ghostWithProperPrefix(p):
		return sigGhost
	case r.flagEmptyRef:
		return sigEmptyRef
	case r.flagOverwrite:
		return sigOverwrite
	case r.flagRmStale:
		return sigRmStale
	case r.flagAddStale:
		return sigAddStale
	}
	switch kind {
	case "hasprefix":
		return "C10/hasprefix-mismatch"
	case "remove-result":
		return "C10/remove-result"
	case "store":
		return "C10/store-error"
	case "metadata":
		return "C10/lookup-metadata-mismatch"
	case "panic":
		return "C10/panic"
	}
	return "C10/lookup-mismatch"
}

func (r *runner) lookup(p string, when string) *failure {
	e, err := r.m.Lookup(r.ctx, p)
	want, ok := r.model[p]
	if !ok {
		if err == nil {
			return &failure{r.attribute(p, "lookup"), fmt.Sprintf("%s: Lookup(%q) returned reference %x.., the path has no entry", when, p, head(e.Reference().Bytes()))}
		}
		if !errors.Is(err, manifest.ErrNotFound) {
			return &failure{r.attribute(p, "lookup"), fmt.Sprintf("%s: Lookup(%q) of a path without entry: %v (want ErrNotFound)", when, p, err)}
		}
		return nil
	}
	if err != nil {
		return &failure{r.attribute(p, "lookup"), fmt.Sprintf("%s: Lookup(%q): %v, want reference %x..", when, p, err, head(want.ref))}
	}
	got := e.Reference().Bytes()
	if len(want.ref) == 0 {
		// root metadata entry with the empty reference: the trie serialises an empty reference as
		// zero bytes (acknowledged in pkg/manifest IterateAddresses); either form is accepted
		if len(got) != 0 && !bytes.Equal(got, make([]byte, len(got))) {
			return &failure{r.attribute(p, "lookup"), fmt.Sprintf("%s: Lookup(%q) reference %x.., want the empty reference", when, p, head(got))}
		}
	} else if !bytes.Equal(got, want.ref) {
		return &failure{r.attribute(p, "lookup"), fmt.Sprintf("%s: Lookup(%q) reference %x.. (%d bytes), want %x.. (%d bytes)", when, p, head(got), len(got), head(want.ref), len(want.ref))}
	}
	if !mdEqual(e.Metadata(), want.md) {
		return &failure{r.attribute(p, "metadata"), fmt.Sprintf("%s: Lookup(%q) metadata %v, want %v", when, p, e.Metadata(), want.md)}
	}
	return nil
}

func head(b []byte) []byte {
	if len(b) > 4 {
		return b[:4]
	}
	return b
}

func (r *runner) hasPrefix(p string, when string) *failure {
	got, err := r.m.HasPrefix(r.ctx, p)
	if err != nil {
		return &failure{r.attribute(p, "hasprefix"), fmt.Sprintf("%s: HasPrefix(%q): %v", when, p, err)}
	}
	want := r.hasLiveWithPrefix(p, false)
	if p == "" && !want {
		r.stats.unassertedEmptyPrefix++ // empty prefix on an empty manifest: the statement is silent
		return nil
	}
	if !want && r.ghostWithProperPrefix(p) && r.known(sigGhost) {
		r.stats.unassertedGhost++
		if !r.ghostSeen[p] {
			r.ghostSeen[p] = true
			r.excl(sigGhost)
		}
		return nil
	}
	if got != want {
		return &failure{r.attribute(p, "hasprefix"), fmt.Sprintf("%s: HasPrefix(%q) = %v, want %v (entries: %v)", when, p, got, want, r.keys())}
	}
	return nil
}

func (r *runner) keys() []string {
	ks := make([]string, 0, len(r.model))
	for k := range r.model {
		ks = append(ks, k)
	}
	sort.Strings(ks)
	return ks
}

func (r *runner) read() {
	r.stats.reads++
	if r.persisted {
		r.loadedClean = true
	}
}

func (r *runner) verify(when string) *failure {
	r.read()
	for _, p := range r.all {
		if f := r.lookup(p, when); f != nil {
			return f
		}
	}
	for _, p := range r.pfx {
		if f := r.hasPrefix(p, when); f != nil {
			return f
		}
	}
	return nil
}

func (r *runner) doStore(when string) (boson.Address, bool, *failure) {
	if !r.everRegular {
		// callers store a manifest only after at least one file entry was added (api.storeDir)
		r.stats.storeSkipped++
		return boson.ZeroAddress, false, nil
	}
	var addr boson.Address
	var err error
	if r.stats.stores%2 == 1 {
		// the API passes size callbacks; this routes the save through the wrapper's own load-saver
		addr, err = r.m.Store(r.ctx, func(n int64) error {
			if n <= 0 {
				return fmt.Errorf("store size callback got %d", n)
			}
			return nil
		})
	} else {
		addr, err = r.m.Store(r.ctx)
	}
	if err != nil {
		return addr, false, &failure{r.attribute("", "store"), fmt.Sprintf("%s: Store: %v (entries: %v)", when, err, r.keys())}
	}
	if len(addr.Bytes()) != refSize(r.c.Enc) {
		// necessary for the property: an encrypted manifest can only be read back through address||key
		// (encryption.ReferenceSize); a reference of another length makes the joiner read ciphertext as
		// a tree with a garbage span, which does not terminate in reasonable time
		return addr, false, &failure{"C10/store-error", fmt.Sprintf("%s: Store returned a %d-byte reference, want %d", when, len(addr.Bytes()), refSize(r.c.Enc))}
	}
	r.stats.stores++
	r.persisted = true
	r.persistedKey = map[string]bool{}
	for k := range r.model {
		r.persistedKey[k] = true
	}
	return addr, true, nil
}

func (r *runner) doReload(when string) *failure {
	addr, ok, f := r.doStore(when)
	if f != nil || !ok {
		return f
	}
	m, err := manifest.NewDefaultManifestReference(addr, r.ls)
	if err != nil {
		return &failure{"C10/reload-error", fmt.Sprintf("%s: NewDefaultManifestReference: %v", when, err)}
	}
	r.m = m
	r.loadedClean = false
	r.refSizeLost = true
	r.stats.reloads++
	return nil
}

// prefixOfStored reports whether p is a prefix (or equal) of an entry present at the last store or of a removed path.
func (r *runner) prefixOfStored(p string) bool {
	for k := range r.persistedKey {
		if strings.HasPrefix(k, p) {
			return true
		}
	}
	for g := range r.ghosts {
		if strings.HasPrefix(g, p) {
			return true
		}
	}
	return false
}

func (r *runner) step(i int, o op) *failure {
	when := fmt.Sprintf("op#%d %s", i, o.K)
	switch o.K {
	case "add", "addroot":
		var p string
		var e entry
		if o.K == "addroot" {
			// the website-metadata entry: path "/", empty reference, non-empty metadata
			p = rootPath
			md := cloneMd(r.c.Metas[o.M%len(r.c.Metas)])
			if len(md) == 0 {
				md = map[string]string{manifest.WebsiteIndexDocumentSuffixKey: "index.html"}
			}
			e = entry{ref: nil, md: md}
		} else {
			p = r.c.Paths[o.P%len(r.c.Paths)]
			e = entry{ref: mkRef(r.c.Enc, o.R), md: cloneMd(r.c.Metas[o.M%len(r.c.Metas)])}
		}
		when = fmt.Sprintf("%s(%q)", when, p)
		old, exists := r.model[p]
		if exists && len(old.md) > 0 && len(e.md) == 0 {
			if r.known(sigKeepMd) {
				r.excl(sigKeepMd)
				return nil
			}
			r.taintKeepMd[p] = true
		}
		if o.K == "addroot" && r.refSizeLost {
			if r.known(sigEmptyRef) {
				r.excl(sigEmptyRef)
				return nil
			}
			r.flagEmptyRef = true
		}
		if r.persisted {
			if r.prefixOfStored(p) {
				if r.known(sigOverwrite) {
					r.excl(sigOverwrite)
					return nil
				}
				r.flagOverwrite = true
			}
			if r.loadedClean {
				if r.known(sigAddStale) {
					r.excl(sigAddStale)
					return nil
				}
				r.flagAddStale = true
			}
			r.stats.postStoreAdds++
		}
		if err := r.m.Add(r.ctx, p, manifest.NewEntry(boson.NewAddress(e.ref), cloneMd(e.md))); err != nil {
			return &failure{"C10/add-error", fmt.Sprintf("%s: %v", when, err)}
		}
		r.model[p] = e
		r.stats.adds++
		if exists {
			r.stats.overwrites++
		}
		if o.K == "addroot" {
			r.stats.rootEntries++
			if r.persisted {
				r.stats.rootEntriesAfterStore++
			}
		} else {
			r.everRegular = true
			r.refSizeLost = false
		}
		if len(p) > 30 {
			r.stats.longPaths++
		}
		if len(r.model) > r.stats.maxKeys {
			r.stats.maxKeys = len(r.model)
		}
	case "remove", "removelive":
		p := r.c.Paths[o.P%len(r.c.Paths)]
		if o.K == "removelive" {
			// operand resolved modulo the live population (entries with a real reference or the root entry)
			ks := r.keys()
			if len(ks) == 0 {
				return nil
			}
			p = ks[o.P%len(ks)]
		}
		when = fmt.Sprintf("%s(%q)", when, p)
		_, exists := r.model[p]
		if r.hasLiveWithPrefix(p, true) {
			if r.known(sigDrop) {
				r.excl(sigDrop)
				return nil
			}
			for k := range r.model {
				if strings.HasPrefix(k, p) {
					r.taintDrop[k] = true
				}
			}
			r.taintDrop[p] = true
		}
		if !exists && !r.hasLiveWithPrefix(p, false) && r.ghostWithProperPrefix(p) && r.known(sigGhost) {
			r.excl(sigGhost)
			return nil
		}
		if exists && r.persisted && r.persistedKey[p] {
			if r.known(sigRmStale) {
				r.excl(sigRmStale)
				return nil
			}
			r.flagRmStale = true
		}
		if r.persisted {
			r.loadedClean = true // Remove loads the nodes on its path
			r.stats.postStoreRemoves++
		}
		err := r.m.Remove(r.ctx, p)
		if !exists {
			r.stats.removesAbsent++
			if !errors.Is(err, manifest.ErrNotFound) {
				return &failure{r.attribute(p, "remove-result"), fmt.Sprintf("%s of a path without entry returned %v, want ErrNotFound (entries: %v)", when, err, r.keys())}
			}
			return nil
		}
		if err != nil {
			return &failure{r.attribute(p, "remove-result"), fmt.Sprintf("%s of an existing entry: %v", when, err)}
		}
		delete(r.model, p)
		r.ghosts[p] = true
		r.stats.removes++
	case "store":
		_, _, f := r.doStore(when)
		return f
	case "reload":
		return r.doReload(when)
	case "lookup":
		r.read()
		return r.lookup(r.all[o.P%len(r.all)], when)
	case "hasprefix":
		r.read()
		return r.hasPrefix(r.pfx[o.P%len(r.pfx)], when)
	case "verify":
		return r.verify(when)
	}
	return nil
}

func run(c kase, exclude bool) (st stats, fail *failure) {
	r := &runner{c: c, exclude: exclude, ctx: context.Background(), st: newStore(), model: map[string]entry{},
		persistedKey: map[string]bool{}, ghosts: map[string]bool{}, taintDrop: map[string]bool{}, taintKeepMd: map[string]bool{}, ghostSeen: map[string]bool{}}
	defer func() {
		if p := recover(); p != nil {
			st = r.stats
			fail = &failure{r.attribute("", "panic"), fmt.Sprintf("panic in the code under test: %v", p)}
		}
	}()
	r.ls = loadsave.New(r.st, func() pipeline.Interface {
		return builder.NewPipelineBuilder(r.ctx, r.st, storage.ModePutUpload, c.Enc)
	})
	m, err := manifest.NewDefaultManifest(r.ls, c.Enc)
	if err != nil {
		return r.stats, &failure{"C10/new-error", err.Error()}
	}
	r.m = m
	// verification universe: every entry path, every probe, the root path; prefixes: all of their prefixes
	seen := map[string]bool{}
	for _, p := range append(append([]string{rootPath}, c.Paths...), c.Probes...) {
		if !seen[p] {
			seen[p] = true
			r.all = append(r.all, p)
		}
	}
	pseen := map[string]bool{}
	for _, p := range r.all {
		for j := 0; j <= len(p); j++ {
			if !pseen[p[:j]] {
				pseen[p[:j]] = true
				r.pfx = append(r.pfx, p[:j])
			}
		}
	}
	// proper prefixes of entry paths are also looked up (a prefix node is not an entry)
	for _, p := range c.Paths {
		for j := 1; j < len(p); j++ {
			if !seen[p[:j]] {
				seen[p[:j]] = true
				r.all = append(r.all, p[:j])
			}
		}
	}
	for i, o := range c.Ops {
		if f := r.step(i, o); f != nil {
			return r.stats, f
		}
		// while the manifest lives only in memory every step is followed by a full comparison;
		// on a stored manifest reads are explicit operations (they change which nodes are loaded)
		if !r.persisted && (o.K == "add" || o.K == "addroot" || o.K == "remove" || o.K == "removelive") {
			if f := r.verify(fmt.Sprintf("after op#%d %s", i, o.K)); f != nil {
				return r.stats, f
			}
		}
	}
	if f := r.verify("final (before store)"); f != nil {
		return r.stats, f
	}
	if f := r.doReload("final reload"); f != nil {
		return r.stats, f
	}
	if r.persisted {
		if f := r.verify("final (after store+reload)"); f != nil {
			return r.stats, f
		}
		// a second look at the reloaded handle (all nodes now loaded) must agree too
		if f := r.verify("final (after store+reload, second pass)"); f != nil {
			return r.stats, f
		}
	}
	return r.stats, nil
}

// ---- generator -------------------------------------------------------------------

var alphabet = []string{"a", "a", "b", "b", "c", "/", "/", ".", "é", "ê", "-"}

func genShort(t *rapid.T, label string) string {
	n := rapid.IntRange(1, 5).Draw(t, label+"_n")
	var sb strings.Builder
	for i := 0; i < n; i++ {
		sb.WriteString(rapid.SampledFrom(alphabet).Draw(t, label))
	}
	return sb.String()
}

func genPaths(t *rapid.T) []string {
	n := rapid.IntRange(3, 9).Draw(t, "npaths")
	var ps []string
	seen := map[string]bool{rootPath: true, "": true}
	for len(ps) < n {
		var p string
		switch k := rapid.IntRange(0, 9).Draw(t, "pkind"); {
		case k <= 2 || len(ps) == 0:
			p = genShort(t, "ch")
		case k <= 6: // derived: a prefix of an existing path plus an optional suffix
			base := ps[rapid.IntRange(0, len(ps)-1).Draw(t, "base")]
			cut := rapid.IntRange(1, len(base)).Draw(t, "cut")
			p = base[:cut]
			if rapid.Bool().Draw(t, "suffix") {
				p += genShort(t, "sfx")
			}
		case k == 7: // directory-like
			p = genShort(t, "dir") + "/" + genShort(t, "file")
		default: // long segment crossing the 30-byte fork prefix limit
			l := rapid.SampledFrom([]int{28, 29, 30, 31, 32, 45, 59, 60, 61, 70}).Draw(t, "longlen")
			p = strings.Repeat("x", l) + rapid.SampledFrom([]string{"", "a", "b", "/a", "yy"}).Draw(t, "longsfx")
		}
		if seen[p] {
			// duplicate: perturb deterministically instead of rejecting
			p += fmt.Sprintf("%d", len(ps))
			if seen[p] {
				continue
			}
		}
		seen[p] = true
		ps = append(ps, p)
	}
	return ps
}

var mdKeys = []string{manifest.EntryMetadataContentTypeKey, manifest.EntryMetadataFilenameKey, "k", "Dirname"}

func genMeta(t *rapid.T) map[string]string {
	n := rapid.SampledFrom([]int{0, 1, 1, 2, 3}).Draw(t, "mdn")
	if n == 0 {
		return nil
	}
	md := map[string]string{}
	for i := 0; i < n; i++ {
		k := mdKeys[(rapid.IntRange(0, len(mdKeys)-1).Draw(t, "mdk")+i)%len(mdKeys)]
		var v string
		switch rapid.IntRange(0, 4).Draw(t, "mdvkind") {
		case 0:
			v = rapid.SampledFrom([]string{"", "text/html", "image/png; charset=utf-8", "index.html", "a \"quoted\" <name>&.txt", "файл.txt"}).Draw(t, "mdv")
		case 1: // lengths around the 32-byte padding boundary of the serialised JSON
			v = strings.Repeat("v", rapid.IntRange(0, 70).Draw(t, "mdvlen"))
		case 2:
			v = strings.Repeat("w", rapid.SampledFrom([]int{100, 255, 256, 300}).Draw(t, "mdvlong"))
		default:
			v = genShort(t, "mdvs")
		}
		md[k] = v
	}
	return md
}

func genCase(t *rapid.T) kase {
	var c kase
	c.Enc = rapid.IntRange(0, 4).Draw(t, "enc") == 0
	c.Paths = genPaths(t)
	np := rapid.IntRange(0, 3).Draw(t, "nprobes")
	for i := 0; i < np; i++ {
		base := c.Paths[rapid.IntRange(0, len(c.Paths)-1).Draw(t, "pbase")]
		c.Probes = append(c.Probes, base+genShort(t, "probe"))
	}
	c.Metas = []map[string]string{nil}
	nm := rapid.IntRange(1, 3).Draw(t, "nmetas")
	for i := 0; i < nm; i++ {
		c.Metas = append(c.Metas, genMeta(t))
	}
	nops := rapid.IntRange(3, 24).Draw(t, "nops")
	if evid.Thorough() {
		nops = rapid.IntRange(3, 60).Draw(t, "nops_t")
	}
	kinds := []string{"add", "add", "add", "add", "add", "add", "add", "remove", "remove", "removelive", "removelive", "store", "reload", "lookup", "hasprefix", "verify", "addroot"}
	for i := 0; i < nops; i++ {
		k := "add"
		if i > 0 {
			k = rapid.SampledFrom(kinds).Draw(t, "kind")
		}
		o := op{K: k}
		switch k {
		case "add":
			o.P = rapid.IntRange(0, len(c.Paths)-1).Draw(t, "p")
			o.R = byte(rapid.IntRange(1, 255).Draw(t, "r"))
			o.M = rapid.IntRange(0, len(c.Metas)-1).Draw(t, "m")
		case "addroot":
			o.M = rapid.IntRange(0, len(c.Metas)-1).Draw(t, "m")
		case "remove":
			o.P = rapid.IntRange(0, len(c.Paths)-1).Draw(t, "p")
		case "removelive":
			o.P = rapid.IntRange(0, 20).Draw(t, "live_i")
		case "lookup", "hasprefix":
			o.P = rapid.IntRange(0, 400).Draw(t, "probe_i")
		}
		c.Ops = append(c.Ops, o)
	}
	return c
}

func record(r *evid.Rec, c kase, s stats) {
	nt := (s.overwrites > 0 || s.removes > 0) && s.reloads > 0
	cls := []string{}
	add := func(cond bool, name string) {
		if cond {
			cls = append(cls, name)
		}
	}
	add(c.Enc, "encrypted")
	add(!c.Enc, "plain")
	add(s.overwrites > 0, "has-overwrite")
	add(s.removes > 0, "has-remove")
	add(s.removesAbsent > 0, "has-remove-of-absent-path")
	add(s.reloads >= 2, "reloads>=2(mid-history reload)")
	add(s.postStoreAdds > 0, "has-add-after-store")
	add(s.postStoreRemoves > 0, "has-remove-after-store")
	add(s.rootEntries > 0, "has-root-metadata-entry")
	add(s.rootEntriesAfterStore > 0, "has-root-metadata-entry-added-after-store")
	add(s.longPaths > 0, "has-path>30-bytes")
	add(s.maxKeys >= 5, "entries>=5")
	add(s.storeSkipped > 0, "store-skipped(no-file-entry-yet)")
	add(s.unassertedGhost > 0, "hasprefix-unasserted(ghost)")
	add(s.unassertedEmptyPrefix > 0, "hasprefix-unasserted(empty-prefix-empty-manifest)")
	shared := false
	for i, p := range c.Paths {
		for j, q := range c.Paths {
			if i != j && strings.HasPrefix(q, p) {
				shared = true
			}
		}
	}
	add(shared, "universe-has-path-that-is-prefix-of-another")
	r.Case(evid.Hash64(c), nt, cls...)
	for sig, n := range s.excluded {
		for i := 0; i < n; i++ {
			r.Excluded(sig)
		}
	}
	r.ClassN("ops:add", s.adds)
	r.ClassN("ops:remove", s.removes)
	r.ClassN("ops:store", s.stores)
	r.ClassN("ops:reload", s.reloads)
	r.Sample(c)
}

// ---- witnesses of the known findings ------------------------------------------------

func md1() map[string]string { return map[string]string{"k": "v"} }

var witnesses = map[string]kase{
	sigDrop: {Paths: []string{"a", "ab"}, Metas: []map[string]string{nil}, Ops: []op{
		{K: "add", P: 0, R: 1}, {K: "add", P: 1, R: 2}, {K: "remove", P: 0}}},
	sigGhost: {Paths: []string{"ab", "ac"}, Metas: []map[string]string{nil}, Ops: []op{
		{K: "add", P: 0, R: 1}, {K: "add", P: 1, R: 2}, {K: "remove", P: 0}, {K: "remove", P: 1}}},
	sigKeepMd: {Paths: []string{"a"}, Metas: []map[string]string{nil, md1()}, Ops: []op{
		{K: "add", P: 0, R: 1, M: 1}, {K: "add", P: 0, R: 2, M: 0}}},
	sigRmStale: {Paths: []string{"x", "y"}, Metas: []map[string]string{nil}, Ops: []op{
		{K: "add", P: 0, R: 1}, {K: "add", P: 1, R: 2}, {K: "store"}, {K: "remove", P: 0}}},
	sigAddStale: {Paths: []string{"x", "y"}, Metas: []map[string]string{nil}, Ops: []op{
		{K: "add", P: 0, R: 1}, {K: "store"}, {K: "lookup", P: 1}, {K: "add", P: 1, R: 2}}},
	sigOverwrite: {Paths: []string{"x"}, Metas: []map[string]string{nil}, Ops: []op{
		{K: "add", P: 0, R: 1}, {K: "store"}, {K: "add", P: 0, R: 2}}},
	sigEmptyRef: {Paths: []string{"x", "y"}, Metas: []map[string]string{nil, md1()}, Ops: []op{
		{K: "add", P: 0, R: 1}, {K: "add", P: 1, R: 2}, {K: "reload"}, {K: "addroot", M: 1}}},
}

func caseString(c kase) string {
	var sb strings.Builder
	fmt.Fprintf(&sb, "encrypted=%v paths=%q probes=%q metas=%v ops=[", c.Enc, c.Paths, c.Probes, c.Metas)
	for i, o := range c.Ops {
		if i > 0 {
			sb.WriteString(" ")
		}
		switch o.K {
		case "add":
			fmt.Fprintf(&sb, "add(%q,ref=%d,meta#%d)", c.Paths[o.P%len(c.Paths)], o.R, o.M%len(c.Metas))
		case "remove":
			fmt.Fprintf(&sb, "remove(%q)", c.Paths[o.P%len(c.Paths)])
		case "removelive":
			fmt.Fprintf(&sb, "removelive(#%d)", o.P)
		case "addroot":
			fmt.Fprintf(&sb, "addroot(meta#%d)", o.M%len(c.Metas))
		case "lookup", "hasprefix":
			fmt.Fprintf(&sb, "%s(#%d)", o.K, o.P)
		default:
			sb.WriteString(o.K)
		}
	}
	sb.WriteString("]")
	return sb.String()
}

const rule = "rapid: encrypted|plain load-saver x universe of 3..9 entry paths over {a,b,c,/,.,-,2-byte runes} built with shared prefixes (prefix-of-another, siblings, directories, 28..70-byte segments crossing the 30-byte fork limit) x metadata pool (0..3 keys, values around the 32-byte JSON padding boundary, escapes, up to 300 bytes) x 3..24 ops from Add(path, 32/64-byte ref, metadata) | Add of the root '/' metadata entry (empty reference) | Remove (any universe path, or the k-th live entry) | Store | Reload (Store + NewDefaultManifestReference) | Lookup | HasPrefix | full verification; every history ends with verification, Store+Reload, verification twice. Oracle: map model; Lookup == model (reference bytes, metadata) or ErrNotFound for every entry path, every proper prefix of one, probes; HasPrefix(p) <=> some entry has prefix p, for every prefix of those paths; Remove of an absent path returns ErrNotFound. Non-trivial = at least one overwrite or remove and at least one reload; distinct by hash of the case"

func TestC10_Model(t *testing.T) {
	r := evid.Get(id)
	evid.Finish(t, r)
	r.SetRule(rule)
	// witnesses of the known findings (run without exclusion; they must fail with their own signature)
	sigs := make([]string, 0, len(witnesses))
	for s := range witnesses {
		sigs = append(sigs, s)
	}
	sort.Strings(sigs)
	for _, sig := range sigs {
		if os.Getenv("C10_SKIP_WITNESS") != "" {
			break // sensitivity experiments only: lets the random search meet an unlisted finding by itself
		}
		for _, enc := range []bool{false, true} {
			c := witnesses[sig]
			c.Enc = enc
			_, f := run(c, false)
			switch {
			case f == nil:
				r.Class("witness-passes:" + sig) // the defect is gone on this tree
			case f.sig != sig:
				t.Fatalf("%s", evid.Violation(id, f.sig, fmt.Sprintf("%s case: %s", f.msg, caseString(c))))
			case evid.Known(sig):
				if !enc {
					r.Witness(sig)
				}
			default:
				t.Fatalf("%s", evid.Violation(id, f.sig, fmt.Sprintf("%s case: %s", f.msg, caseString(c))))
			}
		}
	}
	// deterministic histories: what the API does (single file, directory with index document)
	det := []kase{
		{Paths: []string{"file.txt"}, Metas: []map[string]string{nil, {manifest.WebsiteIndexDocumentSuffixKey: "file.txt"}, {manifest.EntryMetadataContentTypeKey: "text/plain", manifest.EntryMetadataFilenameKey: "file.txt"}},
			Ops: []op{{K: "addroot", M: 1}, {K: "add", P: 0, R: 7, M: 2}, {K: "reload"}, {K: "verify"}}},
		{Paths: []string{"index.html", "img/1.png", "img/2.png", "img/thumb/1.png", "robots.txt"}, Probes: []string{"img", "img/", "imgx"},
			Metas: []map[string]string{nil, {manifest.WebsiteIndexDocumentSuffixKey: "index.html", manifest.WebsiteErrorDocumentPathKey: "error.html"}, {manifest.EntryMetadataContentTypeKey: "image/png", manifest.EntryMetadataFilenameKey: "1.png"}},
			Ops: []op{{K: "add", P: 0, R: 1, M: 2}, {K: "add", P: 1, R: 2, M: 2}, {K: "add", P: 2, R: 3, M: 2}, {K: "add", P: 3, R: 4, M: 2}, {K: "add", P: 4, R: 5, M: 2}, {K: "addroot", M: 1}, {K: "reload"}, {K: "verify"}}},
	}
	for _, base := range det {
		for _, enc := range []bool{false, true} {
			c := base
			c.Enc = enc
			s, f := run(c, true)
			if f != nil {
				t.Fatalf("%s", evid.Violation(id, f.sig, fmt.Sprintf("%s case: %s", f.msg, caseString(c))))
			}
			record(r, c, s)
		}
	}
	evid.Checks(110)
	rapid.Check(t, func(t *rapid.T) {
		c := genCase(t)
		s, f := run(c, true)
		if f != nil {
			t.Fatalf("%s", evid.Violation(id, f.sig, fmt.Sprintf("%s case: %s", f.msg, caseString(c))))
		}
		record(r, c, s)
	})
}
