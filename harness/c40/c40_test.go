package c40

import (
	"errors"
	"encoding/json"
	"fmt"
	"os"
	"path/filepath"
	"runtime"
	"sync"
	"sync/atomic"
	"testing"
	"time"

	"github.com/gauss-project/aurorafs/pkg/subscribe"
	"pgregory.net/rapid"
	"verifharness/internal/evid"
)

const id = "C40"

// sigOvertake: a notifier whose error channel fires before its registration has been
// processed can stay registered for ever (the unsubscription travels on a second
// channel and can be handled before the subscription it belongs to).
const sigOvertake = "C40/unsubscribe-overtakes-subscribe"

// ---- case -----------------------------------------------------------------------

type op struct {
	K string `json:"k"`           // sub | pub | pub-array | close | sub-close
	N int    `json:"n,omitempty"` // notifier
	T int    `json:"t,omitempty"` // triple (namespace, kind, param) index
	M []int  `json:"m,omitempty"` // pub-array: param index of every element (0 = no param)
	R int    `json:"r,omitempty"` // sub: how many times the subscription is repeated back to back (0 = once)
}

type kase struct {
	NS     []string `json:"namespaces"`
	Kinds  []string `json:"kinds"`
	Params []string `json:"params"` // Params[0] is always "" (the namespace-wide key)
	NNot   int      `json:"notifiers"`
	Ops    []op     `json:"ops"`
}

type triple struct{ ns, kind, param string }

func (c kase) triples() []triple {
	var out []triple
	for _, ns := range c.NS {
		for _, k := range c.Kinds {
			for _, p := range c.Params {
				out = append(out, triple{ns, k, p})
			}
		}
	}
	return out
}

// keyOf is the documented key format "nameSpace_kind_param" ("nameSpace_kind" without param).
func keyOf(t triple) string {
	if t.param == "" {
		return t.ns + "_" + t.kind
	}
	return t.ns + "_" + t.kind + "_" + t.param
}

// reaches: a message published with triple pub is for the subscription key sub when it
// is the same key or sub is pub's namespace-wide key.
func reaches(pub, sub triple) bool {
	return pub.ns == sub.ns && pub.kind == sub.kind && (sub.param == "" || sub.param == pub.param)
}

// message is what is published; P is the field PublishArray reads the param from.
type message struct {
	Seq int
	P   string
}

// ---- recording notifier ---------------------------------------------------------------

type rec struct {
	key string
	seq int
}

type notifier struct {
	mu     sync.Mutex
	recs   []rec
	err    chan error
	closed bool
	broken bool
}

func newNotifier() *notifier { return &notifier{err: make(chan error)} }

func (n *notifier) Notify(key string, data interface{}) error {
	m, ok := data.(message)
	n.mu.Lock()
	if n.broken {
		// the client's connection is gone but its unsubscription has not been processed yet:
		// what an rpc notifier answers in that state
		n.mu.Unlock()
		return errors.New("client is closed")
	}
	if ok {
		n.recs = append(n.recs, rec{key: key, seq: m.Seq})
	} else {
		n.recs = append(n.recs, rec{key: key, seq: -1})
	}
	n.mu.Unlock()
	return nil
}
func (n *notifier) Err() <-chan error { return n.err }

// fire closes the error channel (what rpc.Subscription.Err and NotifierWithMsgChan.ErrChan do on unsubscribe).
func (n *notifier) fire() {
	if !n.closed {
		n.closed = true
		close(n.err)
	}
}

func (n *notifier) count(key string, seq int, from int) int {
	n.mu.Lock()
	defer n.mu.Unlock()
	c := 0
	for _, r := range n.recs[from:] {
		if r.key == key && r.seq == seq {
			c++
		}
	}
	return c
}

func (n *notifier) length() int {
	n.mu.Lock()
	defer n.mu.Unlock()
	return len(n.recs)
}

// ---- sequential model run -----------------------------------------------------------------

type failure struct{ sig, msg string }

type nstate struct {
	n        *notifier
	eff      map[int]int // triple index -> subscriptions whose effect has been observed
	ever     map[string]bool
	fired    bool
	left     bool
	leftAt   int // length of recs when the notifier was seen to have left
	unwaited bool
}

type runner struct {
	c       kase
	tr      []triple
	sp      subscribe.SubPub
	ns      []*nstate
	seq     int
	pubs    map[int]triple // seq -> triple it was published with
	classes map[string]int
	nt      bool
}

const (
	effectCap = 60 * time.Second
	leaveCap  = 10 * time.Second
	afterLeft = 6 // publishes per key after a notifier was seen to have left
)

func (r *runner) class(s string) { r.classes[s]++ }

// publish publishes one fresh message with triple t and applies the delivery oracle:
// every notifier with an effective subscription that the message reaches must have
// received it under that key by the time Publish returns.
func (r *runner) publish(t triple) (int, *failure) {
	r.seq++
	s := r.seq
	r.pubs[s] = t
	before := make([]int, len(r.ns))
	for i, st := range r.ns {
		before[i] = st.n.length()
	}
	_ = r.sp.Publish(t.ns, t.kind, t.param, message{Seq: s, P: t.param})
	return s, r.afterPublish([]int{s}, before)
}

func (r *runner) afterPublish(seqs []int, before []int) *failure {
	for i, st := range r.ns {
		if st.fired {
			continue
		}
		for ti, c := range st.eff {
			if c == 0 {
				continue
			}
			for _, s := range seqs {
				if !reaches(r.pubs[s], r.tr[ti]) {
					continue
				}
				if st.n.count(keyOf(r.tr[ti]), s, before[i]) == 0 {
					return &failure{"C40/message-not-delivered", fmt.Sprintf("notifier %d is registered for %q (effect observed) but did not receive message #%d published for %+v", i, keyOf(r.tr[ti]), s, r.pubs[s])}
				}
			}
		}
	}
	return nil
}

// audit checks everything a notifier has received so far: only messages published for
// one of its keys, first occurrences per key in publication order, nothing after it left.
func (r *runner) audit() *failure {
	for i, st := range r.ns {
		st.n.mu.Lock()
		recs := append([]rec{}, st.n.recs...)
		st.n.mu.Unlock()
		lastFirst := map[string]int{}
		seen := map[string]bool{}
		for k, rc := range recs {
			if st.left && k >= st.leftAt {
				return &failure{"C40/message-after-leaving", fmt.Sprintf("notifier %d received message #%d under %q after its error channel fired and it had been seen to have left", i, rc.seq, rc.key)}
			}
			pt, ok := r.pubs[rc.seq]
			if !ok {
				return &failure{"C40/foreign-message", fmt.Sprintf("notifier %d received an unknown message (#%d) under %q", i, rc.seq, rc.key)}
			}
			if !st.ever[rc.key] {
				return &failure{"C40/foreign-message", fmt.Sprintf("notifier %d received message #%d under key %q it never subscribed to", i, rc.seq, rc.key)}
			}
			if rc.key != keyOf(pt) && rc.key != keyOf(triple{pt.ns, pt.kind, ""}) {
				return &failure{"C40/foreign-message", fmt.Sprintf("notifier %d received message #%d under key %q but it was published for %+v", i, rc.seq, rc.key, pt)}
			}
			id := fmt.Sprintf("%s|%d", rc.key, rc.seq)
			if seen[id] {
				continue
			}
			seen[id] = true
			if prev, ok := lastFirst[rc.key]; ok && rc.seq < prev {
				return &failure{"C40/out-of-order", fmt.Sprintf("notifier %d received message #%d after #%d under %q", i, rc.seq, prev, rc.key)}
			}
			lastFirst[rc.key] = rc.seq
		}
	}
	return nil
}

// awaitEffect publishes probe messages for triple ti until notifier i receives one
// as many times as it is subscribed to that key.
func (r *runner) awaitEffect(i, ti, want int) *failure {
	st := r.ns[i]
	deadline := time.Now().Add(effectCap)
	for spin := 0; ; spin++ {
		from := st.n.length()
		s, f := r.publish(r.tr[ti])
		if f != nil {
			return f
		}
		if st.n.count(keyOf(r.tr[ti]), s, from) >= want {
			r.classes["probes-until-effect"] += spin + 1
			return nil
		}
		if time.Now().After(deadline) {
			return &failure{"C40/subscription-never-effective", fmt.Sprintf("notifier %d subscribed to %q %d time(s); after %v a published message is still delivered fewer times", i, keyOf(r.tr[ti]), want, effectCap)}
		}
		if spin > 20 {
			time.Sleep(50 * time.Microsecond)
		} else {
			runtime.Gosched()
		}
	}
}

// awaitLeft publishes probe rounds (one message per key the notifier subscribed to)
// until a whole round passes without a delivery, then publishes afterLeft more rounds.
func (r *runner) awaitLeft(i int) *failure {
	st := r.ns[i]
	var keys []int
	for ti := range r.tr {
		if st.ever[keyOf(r.tr[ti])] {
			keys = append(keys, ti)
		}
	}
	deadline := time.Now().Add(leaveCap)
	if st.unwaited {
		// The error channel fired before the registration was seen to take effect, so a
		// missed probe round proves nothing (the registration may not have been processed
		// yet). The only claim judged for this shape is the bounded one: it does not go on
		// receiving for ever. Quiet for 25 rounds over at least 10 ms is accepted.
		quiet, quietSince := 0, time.Now()
		for {
			from := st.n.length()
			for _, ti := range keys {
				if _, f := r.publish(r.tr[ti]); f != nil {
					return f
				}
			}
			if st.n.length() == from {
				if quiet == 0 {
					quietSince = time.Now()
				}
				quiet++
				if quiet >= 25 && time.Since(quietSince) >= 10*time.Millisecond {
					return nil
				}
			} else {
				quiet = 0
			}
			if time.Now().After(deadline) && quiet == 0 {
				return &failure{sigOvertake, fmt.Sprintf("notifier %d: error channel fired right after Subscribe returned; %v later it still receives every message for its key", i, leaveCap)}
			}
			time.Sleep(100 * time.Microsecond)
		}
	}
	for spin := 0; ; spin++ {
		from := st.n.length()
		for _, ti := range keys {
			if _, f := r.publish(r.tr[ti]); f != nil {
				return f
			}
		}
		if st.n.length() == from {
			r.classes["probe-rounds-until-left"] += spin + 1
			break
		}
		if time.Now().After(deadline) {
			return &failure{"C40/never-leaves", fmt.Sprintf("notifier %d: error channel fired %v ago and it still receives messages for its keys", i, leaveCap)}
		}
		if spin > 20 {
			time.Sleep(50 * time.Microsecond)
		} else {
			runtime.Gosched()
		}
	}
	st.left = true
	st.leftAt = st.n.length()
	for k := 0; k < afterLeft; k++ {
		for _, ti := range keys {
			if _, f := r.publish(r.tr[ti]); f != nil {
				return f
			}
		}
		runtime.Gosched()
	}
	if st.n.length() != st.leftAt {
		sig := "C40/message-after-leaving"
		return &failure{sig, fmt.Sprintf("notifier %d received %d message(s) after its error channel fired and a whole probe round had been missed", i, st.n.length()-st.leftAt)}
	}
	return nil
}

func run(c kase) (f *failure, r *runner) {
	r = &runner{c: c, tr: c.triples(), sp: subscribe.NewSubPub(), pubs: map[int]triple{}, classes: map[string]int{}}
	for i := 0; i < c.NNot; i++ {
		r.ns = append(r.ns, &nstate{n: newNotifier(), eff: map[int]int{}, ever: map[string]bool{}})
	}
	defer func() {
		// release the goroutines Subscribe started (they wait for the error channel)
		for _, st := range r.ns {
			st.n.fire()
		}
		if p := recover(); p != nil {
			buf := make([]byte, 4096)
			buf = buf[:runtime.Stack(buf, false)]
			f = &failure{"C40/panic", fmt.Sprintf("panic: %v\n%s", p, buf)}
		}
	}()
	for k, o := range c.Ops {
		i := o.N % c.NNot
		ti := o.T % len(r.tr)
		st := r.ns[i]
		switch o.K {
		case "sub":
			if st.fired {
				r.class("op:skipped(notifier already left)")
				continue
			}
			reps := 1 + o.R
			for j := 0; j < reps; j++ {
				t := r.tr[ti]
				st.ever[keyOf(t)] = true
				_ = r.sp.Subscribe(st.n, t.ns, t.kind, t.param)
			}
			if f := r.awaitEffect(i, ti, st.eff[ti]+reps); f != nil {
				return f, r
			}
			if st.eff[ti] > 0 || reps > 1 {
				r.nt = true
				r.class("duplicate-subscription")
			}
			st.eff[ti] += reps
			r.class("op:sub")
		case "pub":
			if _, f := r.publish(r.tr[ti]); f != nil {
				return f, r
			}
			r.class("op:pub")
		case "pub-array":
			t := r.tr[ti]
			var list []interface{}
			var seqs []int
			for _, pi := range o.M {
				p := c.Params[pi%len(c.Params)]
				r.seq++
				r.pubs[r.seq] = triple{t.ns, t.kind, p}
				seqs = append(seqs, r.seq)
				list = append(list, message{Seq: r.seq, P: p})
			}
			before := make([]int, len(r.ns))
			for i, st := range r.ns {
				before[i] = st.n.length()
			}
			_ = r.sp.PublishArray(t.ns, t.kind, "P", list)
			if f := r.afterPublish(seqs, before); f != nil {
				return f, r
			}
			r.class("op:pub-array")
		case "break":
			// the notifier starts to fail (Notify returns an error) while it stays registered: nothing
			// is demanded of it any more, everything is still demanded of the others
			if st.fired {
				r.class("op:skipped(notifier already left)")
				continue
			}
			subsB := 0
			for _, c := range st.eff {
				subsB += c
			}
			st.n.mu.Lock()
			st.n.broken = true
			st.n.mu.Unlock()
			st.fired, st.left, st.leftAt = true, true, st.n.length()
			if subsB > 0 {
				r.class("failing-notifier-stays-registered")
			}
			r.class("op:break")
		case "close":
			if st.fired {
				r.class("op:skipped(notifier already left)")
				continue
			}
			subs := 0
			for _, c := range st.eff {
				subs += c
			}
			st.fired = true
			st.n.fire()
			if f := r.awaitLeft(i); f != nil {
				return f, r
			}
			if subs > 0 {
				r.nt = true
				r.class("unsubscribe-with-subscriptions")
			}
			r.class("op:close")
		case "sub-close":
			// the error channel fires right after Subscribe returned, before the
			// registration has been seen to take effect
			if st.fired {
				r.class("op:skipped(notifier already left)")
				continue
			}
			t := r.tr[ti]
			st.ever[keyOf(t)] = true
			st.unwaited = true
			st.fired = true
			_ = r.sp.Subscribe(st.n, t.ns, t.kind, t.param)
			st.n.fire()
			if f := r.awaitLeft(i); f != nil {
				return f, r
			}
			r.nt = true
			r.class("op:sub-close")
		default:
			panic("unknown op " + o.K)
		}
		if k%4 == 3 {
			if f := r.audit(); f != nil {
				return f, r
			}
		}
	}
	// every notifier that is still registered leaves at the end
	for i, st := range r.ns {
		if !st.fired {
			subs := 0
			for _, c := range st.eff {
				subs += c
			}
			st.fired = true
			st.n.fire()
			if f := r.awaitLeft(i); f != nil {
				return f, r
			}
			if subs > 0 {
				r.nt = true
			}
			r.class("final-close")
		}
	}
	return r.audit(), r
}

// ---- generator ----------------------------------------------------------------------------

// identifiers never contain '_' (the key format is ns_kind[_param]; real callers use fixed
// words and hex addresses)
var ident = rapid.StringMatching(`[a-zA-Z][a-zA-Z0-9]{0,9}`)

func distinct(t *rapid.T, n int, label string) []string {
	seen := map[string]bool{}
	var out []string
	for i := 0; i < n; i++ {
		s := ident.Draw(t, label)
		for seen[s] {
			s += "x"
		}
		seen[s] = true
		out = append(out, s)
	}
	return out
}

func genCase(t *rapid.T) kase {
	c := kase{
		NS:    distinct(t, rapid.IntRange(1, 2).Draw(t, "nns"), "ns"),
		Kinds: distinct(t, rapid.IntRange(1, 2).Draw(t, "nkinds"), "kind"),
		NNot:  rapid.IntRange(2, 4).Draw(t, "notifiers"),
	}
	c.Params = append([]string{""}, distinct(t, rapid.IntRange(1, 2).Draw(t, "nparams"), "param")...)
	nt := len(c.NS) * len(c.Kinds) * len(c.Params)
	kinds := []string{"sub", "sub", "sub", "sub", "pub", "pub", "pub", "pub", "pub-array", "close", "close", "sub-close", "break"}
	nops := rapid.IntRange(4, 24).Draw(t, "nops")
	for k := 0; k < nops; k++ {
		o := op{K: rapid.SampledFrom(kinds).Draw(t, "kind")}
		o.N = rapid.IntRange(0, c.NNot-1).Draw(t, "n")
		// most traffic on the first namespace/kind so that keys are shared
		if rapid.IntRange(0, 3).Draw(t, "hot") != 0 {
			o.T = rapid.IntRange(0, len(c.Params)-1).Draw(t, "t")
		} else {
			o.T = rapid.IntRange(0, nt-1).Draw(t, "t")
		}
		if o.K == "sub-close" && evid.Known(sigOvertake) {
			// known finding: the error channel never fires before the registration has
			// been seen to take effect (subscribe, wait, then close instead)
			evid.Get(id).Excluded(sigOvertake)
			o.K = "sub"
			c.Ops = append(c.Ops, o)
			o = op{K: "close", N: o.N}
		}
		switch o.K {
		case "sub":
			o.R = rapid.SampledFrom([]int{0, 0, 0, 1, 2}).Draw(t, "repeat")
		case "pub-array":
			o.M = rapid.SliceOfN(rapid.IntRange(0, len(c.Params)-1), 1, 5).Draw(t, "elems")
		}
		c.Ops = append(c.Ops, o)
	}
	return c
}

func record(r *evid.Rec, c kase, rn *runner) {
	cls := []string{}
	if rn.classes["duplicate-subscription"] > 0 {
		cls = append(cls, "nontrivial:duplicate-subscription")
	}
	if rn.classes["unsubscribe-with-subscriptions"] > 0 {
		cls = append(cls, "nontrivial:unsubscribe")
	}
	r.Case(evid.Hash64(c), rn.nt, cls...)
	for k, v := range rn.classes {
		r.ClassN(k, v)
	}
	r.ClassN("messages-published", rn.seq)
	r.Sample(c)
}

func saveReplay(name string, v interface{}) {
	dir := os.Getenv("VERIF_REPLAY_OUT")
	if dir == "" {
		return
	}
	b, _ := json.MarshalIndent(v, "", " ")
	_ = os.MkdirAll(dir, 0o755)
	_ = os.WriteFile(filepath.Join(dir, name), b, 0o644)
}

const rule = "rapid: 1-2 namespaces x 1-2 kinds x (namespace-wide key + 1-2 params) of generated identifiers without '_', 2-4 recording notifiers, 4-24 ops: Subscribe (also the same notifier 2-3 times on one key, back to back or later), Publish, PublishArray, closing the error channel, a notifier that starts to answer Notify with an error while it stays registered (a client whose connection broke; nothing more is demanded of it, everything of the others); all on one real SubPub per case. A registration counts from the moment a probe message is delivered as often as the notifier is subscribed to the key; from then on every Publish reaching the key or published with its namespace-wide key must have been delivered when Publish returns; everything received must have been published for the receiving key, first occurrences per key in publication order; after the error channel fired, probe rounds are published until one is missed completely (10 s cap), then 6 more rounds must not be delivered. Non-trivial = a duplicate subscription or an unsubscription of a notifier with effective subscriptions; distinct by hash of the case"

func TestC40_Model(t *testing.T) {
	r := evid.Get(id)
	evid.Finish(t, r)
	r.SetRule(rule)
	if f := os.Getenv("VERIF_REPLAY_FILE"); f != "" {
		b, err := os.ReadFile(f)
		if err != nil {
			t.Fatal(err)
		}
		var doc struct {
			Case kase `json:"case"`
		}
		if err := json.Unmarshal(b, &doc); err != nil || doc.Case.NNot == 0 {
			t.Skip("not a C40 model case")
		}
		if f, _ := run(doc.Case); f != nil {
			t.Fatalf("%s", evid.Violation(id, f.sig, f.msg))
		}
		return
	}
	// deterministic cases: duplicate subscription on one key, namespace-wide + param key, unsubscribe
	fixed := []kase{
		{NS: []string{"group"}, Kinds: []string{"multicastMsg"}, Params: []string{"", "a1"}, NNot: 2, Ops: []op{
			{K: "sub", N: 0, T: 1, R: 1}, {K: "sub", N: 1, T: 0}, {K: "pub", T: 1}, {K: "pub", T: 0}, {K: "sub", N: 0, T: 1},
			{K: "pub", T: 1}, {K: "close", N: 0}, {K: "pub", T: 1}, {K: "pub-array", T: 0, M: []int{1, 0, 1}}}},
		{NS: []string{"traffic"}, Kinds: []string{"cashOut", "header"}, Params: []string{"", "aa", "bb"}, NNot: 3, Ops: []op{
			{K: "sub", N: 0, T: 0}, {K: "sub", N: 0, T: 1}, {K: "sub", N: 0, T: 2}, {K: "sub", N: 1, T: 1, R: 2}, {K: "sub", N: 2, T: 3},
			{K: "pub", T: 1}, {K: "pub", T: 2}, {K: "pub", T: 0}, {K: "pub", T: 4}, {K: "close", N: 1}, {K: "pub", T: 1}, {K: "close", N: 0}}},
	}
	if os.Getenv("VERIF_C40_NOFIXED") != "" { // diagnostic switch for sensitivity runs: random search only
		fixed = nil
	}
	for _, c := range fixed {
		f, rn := run(c)
		if f != nil {
			b, _ := json.Marshal(c)
			t.Fatalf("%s", evid.Violation(id, f.sig, fmt.Sprintf("%s case=%s", f.msg, b)))
		}
		record(r, c, rn)
	}
	evid.Checks(1500)
	rapid.Check(t, func(t *rapid.T) {
		c := genCase(t)
		f, rn := run(c)
		if f != nil {
			b, _ := json.Marshal(c)
			saveReplay("c40-case.json", map[string]interface{}{"property": id, "signature": f.sig, "message": f.msg, "case": c})
			t.Fatalf("%s", evid.Violation(id, f.sig, fmt.Sprintf("%s case=%s", f.msg, b)))
		}
		record(r, c, rn)
	})
}

// ---- concurrent publishers -------------------------------------------------------------------

type cop struct {
	K string `json:"k"` // sub | close
	N int    `json:"n"`
	T int    `json:"t"`
	R int    `json:"r,omitempty"`
}

type ckase struct {
	Params     []string `json:"params"`
	NNot       int      `json:"notifiers"`
	Publishers int      `json:"publishers"`
	Ops        []cop    `json:"ops"`
}

type plog struct {
	seq        int
	t          triple
	start, end int64
}

// runConcurrent: publishers publish for random keys all the time while the main
// goroutine subscribes (observing the effect) and fires error channels. A logical clock
// (one atomic counter) orders "effect observed", "error channel fired" and the start
// and end of every Publish call.
func runConcurrent(c ckase, pubChoices [][]int) (f *failure, nt bool, published int) {
	sp := subscribe.NewSubPub()
	var tr []triple
	for _, p := range c.Params {
		tr = append(tr, triple{"kad", "peerState", p})
	}
	var clock int64
	var seqCtr int64
	type nst struct {
		n      *notifier
		effAt  map[int]int64 // triple -> clock when the first subscription took effect
		subs   map[int]int   // triple -> subscriptions made
		ever   map[string]bool
		fireAt int64
		fired  bool
	}
	ns := make([]*nst, c.NNot)
	for i := range ns {
		ns[i] = &nst{n: newNotifier(), effAt: map[int]int64{}, subs: map[int]int{}, ever: map[string]bool{}}
	}
	stop := make(chan struct{})
	logs := make([][]plog, c.Publishers)
	var wg sync.WaitGroup
	for p := 0; p < c.Publishers; p++ {
		wg.Add(1)
		go func(p int) {
			defer wg.Done()
			ch := pubChoices[p]
			for k := 0; ; k++ {
				select {
				case <-stop:
					return
				default:
				}
				t := tr[ch[k%len(ch)]%len(tr)]
				s := int(atomic.AddInt64(&seqCtr, 1))
				st := atomic.AddInt64(&clock, 1)
				_ = sp.Publish(t.ns, t.kind, t.param, message{Seq: s, P: t.param})
				en := atomic.AddInt64(&clock, 1)
				logs[p] = append(logs[p], plog{seq: s, t: t, start: st, end: en})
				if k%8 == 7 {
					runtime.Gosched()
				}
			}
		}(p)
	}
	finish := func() {
		close(stop)
		wg.Wait()
		for _, st := range ns {
			st.n.fire()
		}
	}
	defer func() {
		if p := recover(); p != nil {
			f = &failure{"C40/panic", fmt.Sprintf("panic: %v", p)}
		}
	}()
	// own probes of the main goroutine use negative sequence numbers
	probe := 0
	mainPub := map[int]triple{}
	publish := func(t triple) int {
		probe--
		mainPub[probe] = t
		_ = sp.Publish(t.ns, t.kind, t.param, message{Seq: probe, P: t.param})
		return probe
	}
	leftAt := map[int]int{}
	leftClock := map[int]int64{}
	for _, o := range c.Ops {
		i := o.N % c.NNot
		ti := o.T % len(tr)
		st := ns[i]
		if st.fired {
			continue
		}
		switch o.K {
		case "sub":
			t := tr[ti]
			st.ever[keyOf(t)] = true
			_ = sp.Subscribe(st.n, t.ns, t.kind, t.param)
			st.subs[ti]++
			if st.subs[ti] > 1 {
				nt = true
			}
			// every subscription is seen to take effect (a probe is delivered once per
			// subscription) before anything else happens to this notifier
			deadline := time.Now().Add(effectCap)
			for {
				from := st.n.length()
				s := publish(t)
				if st.n.count(keyOf(t), s, from) >= st.subs[ti] {
					break
				}
				if time.Now().After(deadline) {
					finish()
					return &failure{"C40/subscription-never-effective", fmt.Sprintf("notifier %d on %q", i, keyOf(t))}, nt, 0
				}
				runtime.Gosched()
			}
			if _, ok := st.effAt[ti]; ok {
				continue
			}
			st.effAt[ti] = atomic.AddInt64(&clock, 1)
		case "close":
			st.fireAt = atomic.AddInt64(&clock, 1)
			st.fired = true
			st.n.fire()
			if len(st.effAt) > 0 {
				nt = true
			}
			// wait until a whole round of own probes is missed while nothing else arrives either
			deadline := time.Now().Add(leaveCap)
			for {
				from := st.n.length()
				for tj := range tr {
					if st.ever[keyOf(tr[tj])] {
						publish(tr[tj])
					}
				}
				// the publishers keep publishing; a notifier that has left receives nothing at all
				time.Sleep(200 * time.Microsecond)
				if st.n.length() == from {
					leftAt[i] = from
					leftClock[i] = atomic.AddInt64(&clock, 1)
					break
				}
				if time.Now().After(deadline) {
					finish()
					return &failure{"C40/never-leaves", fmt.Sprintf("notifier %d still receives messages %v after its error channel fired", i, leaveCap)}, nt, 0
				}
			}
		}
	}
	time.Sleep(300 * time.Microsecond)
	finish()
	// ---- judge
	all := map[int]plog{}
	for _, l := range logs {
		for _, e := range l {
			all[e.seq] = e
			published++
		}
	}
	for i, st := range ns {
		recs := st.n.recs
		got := map[string]bool{}
		if at, ok := leftAt[i]; ok {
			for _, rc := range recs[at:] {
				// a Publish call that had already loaded the subscriber list before the
				// unsubscription was processed may still deliver: that is the inherent
				// window; only calls that started after the observation count
				if e, mine := all[rc.seq]; rc.seq < 0 || (mine && e.start > leftClock[i]) {
					return &failure{"C40/message-after-leaving", fmt.Sprintf("notifier %d received message #%d under %q although that Publish started after the notifier had been seen to have left", i, rc.seq, rc.key)}, nt, published
				}
			}
		}
		for _, rc := range recs {
			var pt triple
			if rc.seq < 0 {
				pt = mainPub[rc.seq]
			} else if e, ok := all[rc.seq]; ok {
				pt = e.t
			} else {
				return &failure{"C40/foreign-message", fmt.Sprintf("notifier %d received unknown message #%d", i, rc.seq)}, nt, published
			}
			if !st.ever[rc.key] || (rc.key != keyOf(pt) && rc.key != keyOf(triple{pt.ns, pt.kind, ""})) {
				return &failure{"C40/foreign-message", fmt.Sprintf("notifier %d received message #%d (published for %+v) under key %q", i, rc.seq, pt, rc.key)}, nt, published
			}
			got[fmt.Sprintf("%s|%d", rc.key, rc.seq)] = true
		}
		// per key and publisher: first occurrences in that publisher's publication order
		for p, l := range logs {
			pos := map[int]int{}
			for k, e := range l {
				pos[e.seq] = k
			}
			last := map[string]int{}
			seen := map[string]bool{}
			for _, rc := range recs {
				k, mine := pos[rc.seq]
				if !mine || rc.seq < 0 {
					continue
				}
				idk := fmt.Sprintf("%s|%d", rc.key, rc.seq)
				if seen[idk] {
					continue
				}
				seen[idk] = true
				if prev, ok := last[rc.key]; ok && k < prev {
					return &failure{"C40/out-of-order", fmt.Sprintf("notifier %d, key %q: message %d of publisher %d arrived after its message %d", i, rc.key, k, p, prev)}, nt, published
				}
				last[rc.key] = k
			}
		}
		// every message whose Publish started after the effect was observed and ended
		// before the error channel fired must have arrived
		for ti, at := range st.effAt {
			for _, l := range logs {
				for _, e := range l {
					if e.start > at && (!st.fired || e.end < st.fireAt) && reaches(e.t, tr[ti]) {
						if !got[fmt.Sprintf("%s|%d", keyOf(tr[ti]), e.seq)] {
							return &failure{"C40/message-not-delivered", fmt.Sprintf("notifier %d registered for %q (effect observed at clock %d) missed message #%d published for %+v during clock [%d,%d]", i, keyOf(tr[ti]), at, e.seq, e.t, e.start, e.end)}, nt, published
						}
					}
				}
			}
		}
	}
	return nil, nt, published
}

func TestC40_ConcurrentPublishers(t *testing.T) {
	r := evid.Get(id)
	evid.Finish(t, r)
	r.SetRule(rule + " || concurrent variant: 2-3 publisher goroutines publish for drawn keys all the time while the main goroutine subscribes, observes the effect and fires error channels; a logical clock orders the calls; every Publish that started after the effect was observed and ended before the error channel fired must have been delivered, per key and publisher in order, nothing foreign, nothing after the notifier was seen to have left")
	evid.Checks(150)
	rapid.Check(t, func(t *rapid.T) {
		c := ckase{Params: append([]string{""}, distinct(t, rapid.IntRange(1, 2).Draw(t, "nparams"), "param")...),
			NNot: rapid.IntRange(2, 3).Draw(t, "notifiers"), Publishers: rapid.IntRange(2, 3).Draw(t, "publishers")}
		var choices [][]int
		for p := 0; p < c.Publishers; p++ {
			choices = append(choices, rapid.SliceOfN(rapid.IntRange(0, len(c.Params)-1), 4, 12).Draw(t, "pubkeys"))
		}
		nops := rapid.IntRange(3, 10).Draw(t, "nops")
		for k := 0; k < nops; k++ {
			c.Ops = append(c.Ops, cop{K: rapid.SampledFrom([]string{"sub", "sub", "sub", "close"}).Draw(t, "kind"),
				N: rapid.IntRange(0, c.NNot-1).Draw(t, "n"), T: rapid.IntRange(0, len(c.Params)-1).Draw(t, "t")})
		}
		f, nt, published := runConcurrent(c, choices)
		if f != nil {
			b, _ := json.Marshal(c)
			saveReplay("c40-concurrent.json", map[string]interface{}{"property": id, "signature": f.sig, "message": f.msg, "concurrent_case": c, "publisher_keys": choices})
			t.Fatalf("%s", evid.Violation(id, f.sig, fmt.Sprintf("%s case=%s", f.msg, b)))
		}
		r.Case(evid.Hash64("concurrent", c, choices), nt, "concurrent-case")
		r.ClassN("concurrent:messages-published", published)
	})
}

// ---- error channel fires before the registration was processed --------------------------------

// TestC40_FireBeforeRegistration: several clients subscribe and go away at once (each
// notifier's error channel is closed right after Subscribe returned). Whatever the order
// in which the SubPub gets to process these requests, none of the notifiers may keep
// receiving messages. "Keeps receiving" is decided generously: a notifier that is still
// served 5 s after its error channel fired, while nothing else is going on, never leaves.
func TestC40_FireBeforeRegistration(t *testing.T) {
	r := evid.Get(id)
	evid.Finish(t, r)
	r.SetRule(rule)
	rounds := evid.N(400)
	leakedRounds := 0
	first := ""
	for k := 0; k < rounds && leakedRounds == 0; k++ {
		// 4 clients at a time, each registering and abandoning 2-10 notifiers
		per := []int{10, 2, 5}[k%3]
		burst := 4 * per
		sp := subscribe.NewSubPub()
		ns := make([]*notifier, burst)
		var wg sync.WaitGroup
		for g := 0; g < 4; g++ {
			wg.Add(1)
			go func(g int) {
				defer wg.Done()
				for b := 0; b < per; b++ {
					n := newNotifier()
					ns[g*per+b] = n
					_ = sp.Subscribe(n, "traffic", "cashOut", "")
					n.fire()
				}
			}(g)
		}
		wg.Wait()
		total := func() int {
			c := 0
			for _, n := range ns {
				c += n.length()
			}
			return c
		}
		deadline := time.Now().Add(5 * time.Second)
		seq, quiet := 0, 0
		for {
			seq++
			before := total()
			_ = sp.Publish("traffic", "cashOut", "", message{Seq: seq})
			if total() == before {
				// a single missed message proves little (registrations may not have been
				// processed yet): 20 in a row over >= 4 ms
				quiet++
				if quiet >= 20 {
					break
				}
				time.Sleep(200 * time.Microsecond)
				continue
			}
			quiet = 0
			if time.Now().After(deadline) {
				leakedRounds++
				still := 0
				for _, n := range ns {
					l := n.length()
					_ = sp.Publish("traffic", "cashOut", "", message{Seq: seq + 1})
					if n.length() > l {
						still++
					}
				}
				first = fmt.Sprintf("round %d: 4 goroutines x %d notifiers subscribed to traffic_cashOut and closed their error channel immediately; 5 s later %d of the %d notifiers still receive every published message", k, per, still, burst)
				break
			}
			time.Sleep(200 * time.Microsecond)
		}
		r.Class("fire-before-registration:rounds")
	}
	r.ClassN("fire-before-registration:rounds-with-a-notifier-that-never-leaves", leakedRounds)
	if leakedRounds > 0 {
		if evid.Known(sigOvertake) {
			r.Witness(sigOvertake)
			return
		}
		saveReplay("c40-fire-before-registration.txt", first)
		t.Fatalf("%s", evid.Violation(id, sigOvertake, first))
	}
}
