package c40

import (
	"fmt"
	"testing"
	"time"

	"github.com/gauss-project/aurorafs/pkg/subscribe"
	"pgregory.net/rapid"
	"verifharness/internal/evid"
)

// The library's own channel notifier (NotifierWithMsgChan, used by multicast for peer-state events)
// with a reader that lags behind: a burst of more messages than its channel holds is published while
// nobody reads; the reader then drains. Every message published after the registration took effect
// has to arrive, in publication order (the publisher may have to wait for the reader - it is never
// allowed to drop).
func TestC40_ChannelNotifierLaggingReader(t *testing.T) {
	r := evid.Get(id)
	evid.Finish(t, r)
	evid.Checks(40)
	rapid.Check(t, func(t *rapid.T) {
		n := rapid.IntRange(1, 45).Draw(t, "burst")
		nsKey := rapid.Bool().Draw(t, "namespace-wide-subscription")
		lag := rapid.SampledFrom([]int{0, 1, 5}).Draw(t, "reader-lag-ms")
		sp := subscribe.NewSubPub()
		nt := subscribe.NewNotifierWithMsgChan()
		defer close(nt.ErrChan)
		param := "p1"
		if nsKey {
			param = ""
		}
		if err := sp.Subscribe(nt, "ns", "kind", param); err != nil {
			t.Fatalf("Subscribe: %v", err)
		}
		// registration is processed asynchronously: publish probes until one arrives
		deadline := time.Now().Add(20 * time.Second)
		got := false
		for !got {
			_ = sp.Publish("ns", "kind", "p1", message{Seq: -1})
			select {
			case <-nt.MsgChan:
				got = true
			case <-time.After(2 * time.Millisecond):
			}
			if time.Now().After(deadline) {
				t.Skip("registration did not take effect within 20 s")
			}
		}
		// drain leftover probes
		for drained := false; !drained; {
			select {
			case <-nt.MsgChan:
			case <-time.After(5 * time.Millisecond):
				drained = true
			}
		}
		done := make(chan struct{})
		go func() {
			for i := 0; i < n; i++ {
				_ = sp.Publish("ns", "kind", "p1", message{Seq: i})
			}
			close(done)
		}()
		time.Sleep(time.Duration(lag) * time.Millisecond)
		var seqs []int
		timeout := time.After(20 * time.Second)
		for len(seqs) < n {
			select {
			case m := <-nt.MsgChan:
				if mm, ok := m.(message); ok && mm.Seq >= 0 {
					seqs = append(seqs, mm.Seq)
				}
			case <-done:
				// publisher finished: whatever is still due sits in the channel
				for {
					select {
					case m := <-nt.MsgChan:
						if mm, ok := m.(message); ok && mm.Seq >= 0 {
							seqs = append(seqs, mm.Seq)
						}
						continue
					default:
					}
					break
				}
				if len(seqs) < n {
					t.Fatalf("%s", evid.Violation(id, "C40/message-not-delivered", fmt.Sprintf("channel notifier with a reader lagging %d ms: %d messages published after the registration took effect, %d received: %v", lag, n, len(seqs), seqs)))
				}
			case <-timeout:
				t.Fatalf("%s", evid.Violation(id, "C40/message-not-delivered", fmt.Sprintf("channel notifier: %d of %d messages received within 20 s: %v", len(seqs), n, seqs)))
			}
		}
		for i, s := range seqs {
			if s != i {
				t.Fatalf("%s", evid.Violation(id, "C40/order", fmt.Sprintf("channel notifier: received %v, published 0..%d in order", seqs, n-1)))
			}
		}
		cls := []string{"channel-notifier"}
		if n > 10 {
			cls = append(cls, "burst-larger-than-the-notifier-channel")
		}
		r.Case(evid.Hash64("msgchan", n, nsKey, lag), n > 10, cls...)
	})
}
