package c40

import (
	"fmt"
	"sync"
	"testing"
	"time"

	"github.com/gauss-project/aurorafs/pkg/subscribe"
	"pgregory.net/rapid"
	"verifharness/internal/evid"
)

// Harness-owned schedule: a publish is parked inside one subscriber's Notify (a gate owned by the
// harness) while another subscriber leaves; only then is the publish released. Oracle (statement):
// every subscriber that was registered before the publish and has not left receives the message.

type gnote struct {
	mu   sync.Mutex
	got  []string
	err  chan error
	gate chan struct{} // non-nil: Notify of message "m1" blocks until closed
	in   chan struct{} // closed when the gated Notify has been entered
	once sync.Once
}

func (n *gnote) Notify(key string, data interface{}) error {
	s, _ := data.(string)
	if n.gate != nil && s == "m1" {
		n.once.Do(func() { close(n.in) })
		<-n.gate
	}
	n.mu.Lock()
	n.got = append(n.got, s)
	n.mu.Unlock()
	return nil
}
func (n *gnote) Err() <-chan error { return n.err }
func (n *gnote) has(s string) int {
	n.mu.Lock()
	defer n.mu.Unlock()
	c := 0
	for _, g := range n.got {
		if g == s {
			c++
		}
	}
	return c
}

type gcase struct {
	N     int `json:"subscribers"`
	Gate  int `json:"gated_subscriber"`
	Leave int `json:"leaving_subscriber"`
}

func runGated(c gcase) *failure {
	sp := subscribe.NewSubPub()
	ns := fmt.Sprintf("g%d", time.Now().UnixNano())
	subs := make([]*gnote, c.N)
	for i := range subs {
		subs[i] = &gnote{err: make(chan error), in: make(chan struct{})}
		if i == c.Gate {
			subs[i].gate = make(chan struct{})
		}
		if err := sp.Subscribe(subs[i], ns, "k", "p"); err != nil {
			return &failure{"C40/subscribe-error", err.Error()}
		}
		// registration has taken effect once a probe arrives
		deadline := time.Now().Add(30 * time.Second)
		for subs[i].has("probe") == 0 {
			_ = sp.Publish(ns, "k", "p", "probe")
			if time.Now().After(deadline) {
				return &failure{"C40/subscription-never-effective", fmt.Sprintf("subscriber %d never received a probe", i)}
			}
			time.Sleep(time.Millisecond)
		}
	}
	done := make(chan struct{})
	go func() { _ = sp.Publish(ns, "k", "p", "m1"); close(done) }()
	// wait until the publish is parked inside the gated subscriber (or finished, if the gated
	// subscriber is not reached first: order within the list is the subscription order)
	select {
	case <-subs[c.Gate].in:
	case <-done:
	case <-time.After(30 * time.Second):
		return &failure{"C40/harness", "publish neither parked nor finished"}
	}
	// the leaving subscriber leaves; wait until that is effective (a fresh publish no longer reaches it)
	close(subs[c.Leave].err)
	deadline := time.Now().Add(30 * time.Second)
	for k := 0; ; k++ {
		tag := fmt.Sprintf("after-leave-%d", k)
		_ = sp.Publish(ns, "k", "p", tag)
		if subs[c.Leave].has(tag) == 0 {
			break
		}
		if time.Now().After(deadline) {
			return &failure{"C40/never-leaves", fmt.Sprintf("subscriber %d still receives 30 s after its error channel fired", c.Leave)}
		}
		time.Sleep(time.Millisecond)
	}
	if subs[c.Gate].gate != nil {
		close(subs[c.Gate].gate)
	}
	select {
	case <-done:
	case <-time.After(30 * time.Second):
		return &failure{"C40/harness", "parked publish did not finish"}
	}
	for i, s := range subs {
		if i == c.Leave {
			continue
		}
		if s.has("m1") == 0 {
			return &failure{"C40/message-not-delivered", fmt.Sprintf("subscriber %d (registered, never left) missed message m1, which was being published while subscriber %d left; case %+v", i, c.Leave, c)}
		}
	}
	return nil
}

func TestC40_LeaveDuringPublish(t *testing.T) {
	r := evid.Get(id)
	evid.Finish(t, r)
	r.SetRule("gated schedule: 2-4 subscribers on one key, a publish is parked inside a chosen subscriber's Notify while another chosen subscriber leaves (observed), then released; every remaining subscriber must have received the message")
	evid.Checks(60)
	rapid.Check(t, func(t *rapid.T) {
		c := gcase{N: rapid.IntRange(2, 4).Draw(t, "n")}
		c.Gate = rapid.IntRange(0, c.N-1).Draw(t, "gate")
		c.Leave = rapid.IntRange(0, c.N-1).Draw(t, "leave")
		if f := runGated(c); f != nil {
			t.Fatalf("%s", evid.Violation(id, f.sig, f.msg))
		}
		r.Case(evid.Hash64("gated", c), c.Leave != c.N-1, "leave-during-parked-publish")
	})
}
