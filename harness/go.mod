module verifharness

go 1.23

toolchain go1.23.5

require (
	github.com/gauss-project/aurorafs v0.0.0
	golang.org/x/crypto v0.0.0-20220411220226-7b82a4e95df4
	pgregory.net/rapid v1.3.0
)

require golang.org/x/sys v0.0.0-20220412211240-33da011f77ad // indirect

replace github.com/gauss-project/aurorafs => /repo
