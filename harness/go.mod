module verifharness

go 1.23

toolchain go1.23.5

require (
	github.com/anishathalye/porcupine v1.3.0
	github.com/btcsuite/btcd v0.22.0-beta
	github.com/ethereum/go-ethereum v1.10.17
	github.com/gauss-project/aurorafs v0.0.0
	github.com/gogo/protobuf v1.3.2
	github.com/libp2p/go-libp2p-core v0.15.1
	github.com/multiformats/go-multiaddr v0.5.0
	github.com/multiformats/go-multihash v0.1.0
	github.com/sirupsen/logrus v1.8.1
	golang.org/x/crypto v0.0.0-20220411220226-7b82a4e95df4
	pgregory.net/rapid v1.3.0
)

require (
	github.com/BurntSushi/toml v0.4.1 // indirect
	github.com/HdrHistogram/hdrhistogram-go v1.1.2 // indirect
	github.com/Knetic/govaluate v3.0.1-0.20171022003610-9aa49832a739+incompatible // indirect
	github.com/StackExchange/wmi v0.0.0-20210224194228-fe8f1750fd46 // indirect
	github.com/benbjohnson/clock v1.3.0 // indirect
	github.com/beorn7/perks v1.0.1 // indirect
	github.com/btcsuite/btcd/btcec/v2 v2.1.2 // indirect
	github.com/casbin/casbin/v2 v2.35.0 // indirect
	github.com/cespare/xxhash/v2 v2.1.2 // indirect
	github.com/cheekybits/genny v1.0.0 // indirect
	github.com/clbanning/mxj/v2 v2.5.5 // indirect
	github.com/containerd/cgroups v1.0.3 // indirect
	github.com/coreos/go-semver v0.3.0 // indirect
	github.com/coreos/go-systemd/v22 v22.3.2 // indirect
	github.com/davecgh/go-spew v1.1.1 // indirect
	github.com/davidlazar/go-crypto v0.0.0-20200604182044-b73af7476f6c // indirect
	github.com/deckarep/golang-set v1.8.0 // indirect
	github.com/decred/dcrd/dcrec/secp256k1/v4 v4.0.1 // indirect
	github.com/dgryski/go-rendezvous v0.0.0-20200823014737-9f7001d12a5f // indirect
	github.com/docker/go-units v0.4.0 // indirect
	github.com/elastic/gosigar v0.14.2 // indirect
	github.com/ethersphere/langos v1.0.0 // indirect
	github.com/ethersphere/sw3-bindings/v3 v3.0.3 // indirect
	github.com/flynn/noise v1.0.0 // indirect
	github.com/francoispqt/gojay v1.2.13 // indirect
	github.com/fsnotify/fsnotify v1.5.1 // indirect
	github.com/gauss-project/manifest v0.4.2 // indirect
	github.com/go-ole/go-ole v1.2.5 // indirect
	github.com/go-redis/redis/v8 v8.11.4 // indirect
	github.com/go-stack/stack v1.8.0 // indirect
	github.com/go-task/slim-sprig v0.0.0-20210107165309-348f09dbbbc0 // indirect
	github.com/godbus/dbus/v5 v5.1.0 // indirect
	github.com/gogf/gf/v2 v2.0.3 // indirect
	github.com/golang/protobuf v1.5.2 // indirect
	github.com/golang/snappy v0.0.4 // indirect
	github.com/google/go-cmp v0.5.6 // indirect
	github.com/google/gopacket v1.1.19 // indirect
	github.com/google/uuid v1.3.0 // indirect
	github.com/gopherjs/gopherjs v0.0.0-20200217142428-fce0ec30dd00 // indirect
	github.com/gorilla/handlers v1.4.2 // indirect
	github.com/gorilla/mux v1.8.0 // indirect
	github.com/gorilla/websocket v1.5.0 // indirect
	github.com/hashicorp/errwrap v1.0.0 // indirect
	github.com/hashicorp/go-multierror v1.1.1 // indirect
	github.com/hashicorp/golang-lru v0.5.5-0.20210104140557-80c98217689d // indirect
	github.com/hashicorp/hcl v1.0.0 // indirect
	github.com/huin/goupnp v1.0.3 // indirect
	github.com/inconshreveable/mousetrap v1.0.0 // indirect
	github.com/ipfs/go-cid v0.1.0 // indirect
	github.com/ipfs/go-ipfs-util v0.0.2 // indirect
	github.com/ipfs/go-log/v2 v2.5.1 // indirect
	github.com/jackpal/go-nat-pmp v1.0.2 // indirect
	github.com/jbenet/go-temp-err-catcher v0.1.0 // indirect
	github.com/kardianos/service v1.2.0 // indirect
	github.com/kilic/bls12-381 v0.1.0 // indirect
	github.com/klauspost/compress v1.15.1 // indirect
	github.com/klauspost/cpuid/v2 v2.0.12 // indirect
	github.com/koron/go-ssdp v0.0.2 // indirect
	github.com/libp2p/go-buffer-pool v0.0.2 // indirect
	github.com/libp2p/go-cidranger v1.1.0 // indirect
	github.com/libp2p/go-conn-security-multistream v0.3.0 // indirect
	github.com/libp2p/go-eventbus v0.2.1 // indirect
	github.com/libp2p/go-flow-metrics v0.0.3 // indirect
	github.com/libp2p/go-libp2p v0.19.0 // indirect
	github.com/libp2p/go-libp2p-asn-util v0.1.0 // indirect
	github.com/libp2p/go-libp2p-blankhost v0.3.0 // indirect
	github.com/libp2p/go-libp2p-mplex v0.6.0 // indirect
	github.com/libp2p/go-libp2p-nat v0.1.0 // indirect
	github.com/libp2p/go-libp2p-noise v0.4.0 // indirect
	github.com/libp2p/go-libp2p-peerstore v0.6.0 // indirect
	github.com/libp2p/go-libp2p-pnet v0.2.0 // indirect
	github.com/libp2p/go-libp2p-quic-transport v0.17.0 // indirect
	github.com/libp2p/go-libp2p-resource-manager v0.2.1 // indirect
	github.com/libp2p/go-libp2p-swarm v0.10.2 // indirect
	github.com/libp2p/go-libp2p-testing v0.9.2 // indirect
	github.com/libp2p/go-libp2p-tls v0.4.1 // indirect
	github.com/libp2p/go-libp2p-transport-upgrader v0.7.1 // indirect
	github.com/libp2p/go-libp2p-yamux v0.9.1 // indirect
	github.com/libp2p/go-msgio v0.2.0 // indirect
	github.com/libp2p/go-nat v0.1.0 // indirect
	github.com/libp2p/go-netroute v0.2.0 // indirect
	github.com/libp2p/go-openssl v0.0.7 // indirect
	github.com/libp2p/go-reuseport v0.1.0 // indirect
	github.com/libp2p/go-reuseport-transport v0.1.0 // indirect
	github.com/libp2p/go-stream-muxer-multistream v0.4.0 // indirect
	github.com/libp2p/go-tcp-transport v0.5.1 // indirect
	github.com/libp2p/go-ws-transport v0.6.0 // indirect
	github.com/libp2p/go-yamux/v3 v3.1.1 // indirect
	github.com/lucas-clemente/quic-go v0.27.0 // indirect
	github.com/magiconair/properties v1.8.1 // indirect
	github.com/marten-seemann/qtls-go1-16 v0.1.5 // indirect
	github.com/marten-seemann/qtls-go1-17 v0.1.1 // indirect
	github.com/marten-seemann/qtls-go1-18 v0.1.1 // indirect
	github.com/marten-seemann/tcp v0.0.0-20210406111302-dfbc87cc63fd // indirect
	github.com/mattn/go-isatty v0.0.14 // indirect
	github.com/matttproud/golang_protobuf_extensions v1.0.1 // indirect
	github.com/miekg/dns v1.1.48 // indirect
	github.com/mikioh/tcpinfo v0.0.0-20190314235526-30a79bb1804b // indirect
	github.com/mikioh/tcpopt v0.0.0-20190314235656-172688c1accc // indirect
	github.com/minio/blake2b-simd v0.0.0-20160723061019-3f5f724cb5b1 // indirect
	github.com/minio/sha256-simd v1.0.0 // indirect
	github.com/mitchellh/mapstructure v1.4.1 // indirect
	github.com/mr-tron/base58 v1.2.0 // indirect
	github.com/multiformats/go-base32 v0.0.4 // indirect
	github.com/multiformats/go-base36 v0.1.0 // indirect
	github.com/multiformats/go-multiaddr-dns v0.3.1 // indirect
	github.com/multiformats/go-multiaddr-fmt v0.1.0 // indirect
	github.com/multiformats/go-multibase v0.0.3 // indirect
	github.com/multiformats/go-multicodec v0.4.1 // indirect
	github.com/multiformats/go-multistream v0.3.0 // indirect
	github.com/multiformats/go-varint v0.0.6 // indirect
	github.com/nxadm/tail v1.4.8 // indirect
	github.com/onsi/ginkgo v1.16.5 // indirect
	github.com/opencontainers/runtime-spec v1.0.2 // indirect
	github.com/opentracing/opentracing-go v1.2.0 // indirect
	github.com/pbnjay/memory v0.0.0-20210728143218-7b4eea64cf58 // indirect
	github.com/pelletier/go-toml v1.8.0 // indirect
	github.com/pkg/errors v0.9.1 // indirect
	github.com/pmezard/go-difflib v1.0.0 // indirect
	github.com/prometheus/client_golang v1.12.1 // indirect
	github.com/prometheus/client_model v0.2.0 // indirect
	github.com/prometheus/common v0.33.0 // indirect
	github.com/prometheus/procfs v0.7.3 // indirect
	github.com/raulk/clock v1.1.0 // indirect
	github.com/raulk/go-watchdog v1.2.0 // indirect
	github.com/rjeczalik/notify v0.9.2 // indirect
	github.com/rs/cors v1.7.0 // indirect
	github.com/shirou/gopsutil v3.21.5+incompatible // indirect
	github.com/smartystreets/assertions v1.1.1 // indirect
	github.com/spacemonkeygo/spacelog v0.0.0-20180420211403-2296661a0572 // indirect
	github.com/spaolacci/murmur3 v1.1.0 // indirect
	github.com/spf13/afero v1.3.1 // indirect
	github.com/spf13/cast v1.3.1 // indirect
	github.com/spf13/cobra v1.0.0 // indirect
	github.com/spf13/jwalterweatherman v1.1.0 // indirect
	github.com/spf13/pflag v1.0.5 // indirect
	github.com/spf13/viper v1.7.0 // indirect
	github.com/stretchr/testify v1.7.0 // indirect
	github.com/subosito/gotenv v1.2.0 // indirect
	github.com/syndtr/goleveldb v1.0.1-0.20210819022825-2ae1ddf74ef7 // indirect
	github.com/tklauser/go-sysconf v0.3.6 // indirect
	github.com/tklauser/numcpus v0.2.2 // indirect
	github.com/uber/jaeger-client-go v2.30.0+incompatible // indirect
	github.com/uber/jaeger-lib v2.4.1+incompatible // indirect
	github.com/wealdtech/go-ens/v3 v3.5.1 // indirect
	github.com/wealdtech/go-multicodec v1.4.0 // indirect
	github.com/whyrusleeping/multiaddr-filter v0.0.0-20160516205228-e903e4adabd7 // indirect
	gitlab.com/nolash/go-mockbytes v0.0.7 // indirect
	go.opentelemetry.io/otel v1.0.0 // indirect
	go.opentelemetry.io/otel/sdk v1.0.0 // indirect
	go.opentelemetry.io/otel/trace v1.0.0 // indirect
	go.uber.org/atomic v1.9.0 // indirect
	go.uber.org/multierr v1.8.0 // indirect
	go.uber.org/zap v1.21.0 // indirect
	golang.org/x/mod v0.6.0-dev.0.20220106191415-9b9b3d81d5e3 // indirect
	golang.org/x/net v0.0.0-20220418201149-a630d4f3e7a2 // indirect
	golang.org/x/sync v0.0.0-20210220032951-036812b2e83c // indirect
	golang.org/x/sys v0.0.0-20220412211240-33da011f77ad // indirect
	golang.org/x/term v0.0.0-20210927222741-03fcf44c2211 // indirect
	golang.org/x/text v0.3.8-0.20211105212822-18b340fc7af2 // indirect
	golang.org/x/time v0.0.0-20210220033141-f8bda1e9f3ba // indirect
	golang.org/x/tools v0.1.10 // indirect
	golang.org/x/xerrors v0.0.0-20220411194840-2f41105eb62f // indirect
	google.golang.org/grpc v1.45.0 // indirect
	google.golang.org/protobuf v1.28.0 // indirect
	gopkg.in/ini.v1 v1.57.0 // indirect
	gopkg.in/natefinch/npipe.v2 v2.0.0-20160621034901-c1b8fa8bdcce // indirect
	gopkg.in/tomb.v1 v1.0.0-20141024135613-dd632973f1e7 // indirect
	gopkg.in/yaml.v2 v2.4.0 // indirect
	gopkg.in/yaml.v3 v3.0.0-20210107192922-496545a6307b // indirect
	lukechampine.com/blake3 v1.1.7 // indirect
	resenje.org/singleflight v0.2.0 // indirect
	resenje.org/web v0.4.3 // indirect
)

replace github.com/gauss-project/aurorafs => /repo
