package c36

import (
	"crypto/ecdsa"
	"fmt"
	"os"
	"sync"
	"testing"

	"github.com/gauss-project/aurorafs/pkg/keystore"
	"github.com/gauss-project/aurorafs/pkg/keystore/file"
	"github.com/gauss-project/aurorafs/pkg/keystore/mem"
	"pgregory.net/rapid"
	"verifharness/internal/evid"
)

// Several components ask the keystore for the node's keys while it starts; the first requests for one
// name can arrive together. "Asking again returns the same key rather than creating a new one": of
// the callers released together on a fresh name exactly one may be told the key was created, and all
// of them - and every later caller - hold the same key. Rounds of 2-8 goroutines on fresh names;
// schedules are the Go scheduler's, the oracle is sequential and judged after the round.
func concFirstKey(t *testing.T, checks int) {
	r := evid.Get(id)
	evid.Finish(t, r)
	evid.Checks(checks)
	rapid.Check(t, func(t *rapid.T) {
		// the in-memory store only: it guards its map with a mutex, i.e. it is written for concurrent use;
		// the file store has no synchronisation at all and is only used sequentially at start-up (two
		// first requests for one name at once do create two keys there - outside what its callers do and
		// what the statement speaks about, so it is not generated)
		kind := "mem"
		g := rapid.IntRange(2, 8).Draw(t, "goroutines")
		rounds := 150
		if kind == "file" {
			rounds = 6 // scrypt: every Key call costs tens of milliseconds
		}
		pw := rapid.SampledFrom([]string{"", "pw", "p2p pass"}).Draw(t, "pw")
		var s keystore.Service
		if kind == "mem" {
			s = mem.New()
		} else {
			dir, err := os.MkdirTemp("", "c36conc")
			if err != nil {
				t.Skip("tempdir")
			}
			defer os.RemoveAll(dir)
			s = file.New(dir)
		}
		for round := 0; round < rounds; round++ {
			name := fmt.Sprintf("name-%d", round)
			keys := make([]*ecdsa.PrivateKey, g)
			created := make([]bool, g)
			errs := make([]error, g)
			start := make(chan struct{})
			var wg sync.WaitGroup
			for j := 0; j < g; j++ {
				wg.Add(1)
				go func(j int) {
					defer wg.Done()
					<-start
					keys[j], created[j], errs[j] = s.Key(name, pw)
				}(j)
			}
			close(start)
			wg.Wait()
			later, c2, err := s.Key(name, pw)
			if err != nil || later == nil {
				t.Fatalf("%s", evid.Violation(id, "C36/right-password-rejected", fmt.Sprintf("%s store round %d: Key(%q) after %d concurrent first requests: %v", kind, round, name, g, err)))
			}
			if c2 {
				t.Fatalf("%s", evid.Violation(id, "C36/created-flag", fmt.Sprintf("%s store round %d: a later Key(%q) reports created=true", kind, round, name)))
			}
			n := 0
			for j := 0; j < g; j++ {
				if errs[j] != nil {
					t.Fatalf("%s", evid.Violation(id, "C36/right-password-rejected", fmt.Sprintf("%s store round %d: concurrent first Key(%q) #%d failed: %v", kind, round, name, j, errs[j])))
				}
				if created[j] {
					n++
				}
				if !sameKey(keys[j], later) {
					t.Fatalf("%s", evid.Violation(id, "C36/key-changed", fmt.Sprintf("%s store round %d: caller %d of %d concurrent first requests for %q got %s, the store now returns %s for the same name and password", kind, round, j, g, name, kstr(keys[j]), kstr(later))))
				}
			}
			if n != 1 {
				t.Fatalf("%s", evid.Violation(id, "C36/created-flag", fmt.Sprintf("%s store round %d: %d of %d concurrent first requests for %q were told the key was created", kind, round, n, g, name)))
			}
		}
		r.Case(evid.Hash64("concfirst", kind, g, pw), true, "concurrent-first-requests:"+kind)
	})
}

func TestC36_ConcurrentFirstKey(t *testing.T) { concFirstKey(t, 12) }
