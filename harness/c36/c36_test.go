package c36

import (
	"crypto/ecdsa"
	"crypto/sha256"
	"errors"
	"fmt"
	"os"
	"strings"
	"testing"

	"github.com/gauss-project/aurorafs/pkg/crypto"
	"github.com/gauss-project/aurorafs/pkg/keystore"
	"github.com/gauss-project/aurorafs/pkg/keystore/file"
	"github.com/gauss-project/aurorafs/pkg/keystore/mem"
	"pgregory.net/rapid"
	"verifharness/internal/evid"
)

const id = "C36"

// sigHMAC: the file store derives its key with scrypt, i.e. PBKDF2-HMAC-SHA256 keyed by the
// password. HMAC zero-pads its key to the 64-byte block (and replaces a longer key by its
// SHA-256), so two different password strings with the same HMAC key form - "" and "\x00",
// "pw" and "pw\x00\x00" - open the same key file: a *different* password is accepted.
const sigHMAC = "C36/file-store-accepts-hmac-equivalent-password"

// hmacForm is the RFC 2104 key normalisation for HMAC-SHA256.
func hmacForm(pw string) [64]byte {
	b := []byte(pw)
	if len(b) > 64 {
		h := sha256.Sum256(b)
		b = h[:]
	}
	var out [64]byte
	copy(out[:], b)
	return out
}

// equivalent: different strings that are the same scrypt/PBKDF2 password.
func equivalent(a, b string) bool { return a != b && hmacForm(a) == hmacForm(b) }

// acceptedSig names the signature of "a wrong password was accepted": the HMAC-equivalence
// shape if every differing password involved is merely equivalent, the general one otherwise.
func acceptedSig(store string, pairs ...[2]string) string {
	if store != "file" {
		return "C36/wrong-password-accepted"
	}
	shape := false
	for _, p := range pairs {
		switch {
		case p[0] == p[1]:
		case equivalent(p[0], p[1]):
			shape = true
		default:
			return "C36/wrong-password-accepted"
		}
	}
	if shape {
		return sigHMAC
	}
	return "C36/wrong-password-accepted"
}

type op struct {
	K     string `json:"k"`               // key | exists | export | import | importpk | reopen
	N     int    `json:"n,omitempty"`     // name index (key/exists: into Names; export/import*: into the names present)
	Right bool   `json:"right,omitempty"` // use the password the name was stored with (if it exists)
	P     int    `json:"p,omitempty"`     // otherwise: index into Pws
	B     int    `json:"b,omitempty"`     // import: exported blob index; importpk: known key index
}

type kase struct {
	Store string   `json:"store"` // file | mem
	Names []string `json:"names"`
	Pws   []string `json:"pws"`
	Ops   []op     `json:"ops"`
}

type failure struct {
	Sig string
	Msg string
}

func fail(sig, format string, a ...interface{}) *failure {
	return &failure{Sig: sig, Msg: fmt.Sprintf(format, a...)}
}

type entry struct {
	key *ecdsa.PrivateKey
	pw  string
}

type blob struct {
	data []byte
	key  *ecdsa.PrivateKey
	pw   string
}

func sameKey(a, b *ecdsa.PrivateKey) bool {
	return a != nil && b != nil && a.D != nil && b.D != nil && a.D.Cmp(b.D) == 0 &&
		a.PublicKey.X.Cmp(b.PublicKey.X) == 0 && a.PublicKey.Y.Cmp(b.PublicKey.Y) == 0
}

func kstr(k *ecdsa.PrivateKey) string {
	if k == nil || k.D == nil {
		return "<nil>"
	}
	return fmt.Sprintf("D=%x..", k.D.Bytes()[:4])
}

func mod(a, n int) int {
	if n <= 0 {
		return 0
	}
	a %= n
	if a < 0 {
		a += n
	}
	return a
}

// guard turns a panic of the code under test into a failure.
func guard(what string, f func() *failure) (out *failure) {
	defer func() {
		if r := recover(); r != nil {
			out = fail("C36/panic", "%s: PANIC %v", what, r)
		}
	}()
	return f()
}

func run(r *evid.Rec, c kase) (f *failure, flags map[string]bool) {
	flags = map[string]bool{}
	var s keystore.Service
	var dir string
	if c.Store == "file" {
		d, err := os.MkdirTemp("", "c36-")
		if err != nil {
			return fail("C36/setup", "mkdtemp: %v", err), flags
		}
		dir = d
		defer os.RemoveAll(dir)
		s = file.New(dir)
	} else {
		s = mem.New()
	}
	model := map[string]*entry{}
	var present []string // names in creation order
	var blobs []blob
	var keys []*ecdsa.PrivateKey // every key ever seen

	pwOf := func(o op, name string) string {
		if e, ok := model[name]; ok && o.Right {
			return e.pw
		}
		return c.Pws[mod(o.P, len(c.Pws))]
	}
	// after every rejected or failed mutation the stored key must still be what the model says;
	// verifying costs a key derivation, so it is done once at the end for every name.

	for i, o := range c.Ops {
		step := fmt.Sprintf("op#%d %s", i, o.K)
		var f *failure
		switch o.K {
		case "key":
			name := c.Names[mod(o.N, len(c.Names))]
			pw := pwOf(o, name)
			f = guard(step, func() *failure {
				k, created, err := s.Key(name, pw)
				e, ok := model[name]
				switch {
				case !ok:
					if err != nil {
						return fail("C36/create-failed", "%s: Key(%q, %q) on a new name: %v", step, name, pw, err)
					}
					if !created || k == nil || k.D == nil {
						return fail("C36/created-flag", "%s: Key(%q, %q) on a new name: created=%v key=%s", step, name, pw, created, kstr(k))
					}
					model[name] = &entry{key: k, pw: pw}
					present = append(present, name)
					keys = append(keys, k)
					r.Class("key:create")
				case e.pw == pw:
					if err != nil {
						return fail("C36/right-password-rejected", "%s: Key(%q, %q) with the stored password: %v", step, name, pw, err)
					}
					if created {
						return fail("C36/created-flag", "%s: Key(%q, %q) on an existing name reported created=true", step, name, pw)
					}
					if !sameKey(k, e.key) {
						return fail("C36/key-changed", "%s: Key(%q, %q) returned %s, stored was %s", step, name, pw, kstr(k), kstr(e.key))
					}
					r.Class("key:get")
					flags["get"] = true
				default:
					if err == nil {
						sig := acceptedSig(c.Store, [2]string{e.pw, pw})
						return fail(sig, "%s: Key(%q, %q) succeeded (created=%v, key %s) although the name is stored with password %q (key %s)", step, name, pw, created, kstr(k), e.pw, kstr(e.key))
					}
					if k != nil {
						return fail("C36/wrong-password-returns-key", "%s: Key(%q, %q) with a wrong password returned a key together with %v", step, name, pw, err)
					}
					if !errors.Is(err, keystore.ErrInvalidPassword) {
						return fail("C36/wrong-password-error", "%s: Key(%q, %q) with a wrong password: error %q is not ErrInvalidPassword", step, name, pw, err)
					}
					r.Class("key:wrong-password")
					flags["wrong"] = true
				}
				return nil
			})
		case "exists":
			name := c.Names[mod(o.N, len(c.Names))]
			f = guard(step, func() *failure {
				got, err := s.Exists(name)
				_, want := model[name]
				if err != nil || got != want {
					return fail("C36/exists", "%s: Exists(%q) = %v, %v; want %v", step, name, got, err, want)
				}
				r.Class(fmt.Sprintf("exists:%v", want))
				return nil
			})
		case "reopen":
			if c.Store == "file" {
				s = file.New(dir)
				r.Class("reopen")
			}
		case "export":
			if c.Store != "file" || len(present) == 0 {
				continue
			}
			name := present[mod(o.N, len(present))]
			pw := pwOf(o, name)
			f = guard(step, func() *failure {
				e := model[name]
				data, err := s.ExportKey(name, pw)
				if e.pw != pw {
					if err == nil {
						return fail(acceptedSig(c.Store, [2]string{e.pw, pw}), "%s: ExportKey(%q, %q) succeeded although the stored password is %q", step, name, pw, e.pw)
					}
					if !errors.Is(err, keystore.ErrInvalidPassword) {
						return fail("C36/wrong-password-error", "%s: ExportKey(%q, %q) with a wrong password: error %q is not ErrInvalidPassword", step, name, pw, err)
					}
					r.Class("export:wrong-password")
					flags["wrong"] = true
					return nil
				}
				if err != nil {
					return fail("C36/right-password-rejected", "%s: ExportKey(%q, %q) with the stored password: %v", step, name, pw, err)
				}
				blobs = append(blobs, blob{data: append([]byte{}, data...), key: e.key, pw: pw})
				r.Class("export:ok")
				flags["export"] = true
				return nil
			})
		case "import":
			if c.Store != "file" || len(present) == 0 || len(blobs) == 0 {
				continue
			}
			name := present[mod(o.N, len(present))]
			b := blobs[mod(o.B, len(blobs))]
			pw := pwOf(o, name)
			if o.Right && mod(o.P, 3) != 0 {
				// the API imports with a single password: prefer the password of the blob
				pw = b.pw
			}
			f = guard(step, func() *failure {
				e := model[name]
				err := s.ImportKey(name, pw, append([]byte{}, b.data...))
				switch {
				case e.pw != pw || b.pw != pw:
					if err == nil {
						return fail(acceptedSig(c.Store, [2]string{e.pw, pw}, [2]string{b.pw, pw}), "%s: ImportKey(%q, %q, blob exported with %q) succeeded although the name is stored with %q", step, name, pw, b.pw, e.pw)
					}
					if !errors.Is(err, keystore.ErrInvalidPassword) {
						return fail("C36/wrong-password-error", "%s: ImportKey(%q, %q, blob exported with %q; name stored with %q): error %q is not ErrInvalidPassword", step, name, pw, b.pw, e.pw, err)
					}
					r.Class("import:wrong-password")
					flags["wrong"] = true
				case err != nil:
					return fail("C36/import-failed", "%s: ImportKey(%q, %q, blob exported with the same password): %v", step, name, pw, err)
				default:
					if sameKey(e.key, b.key) {
						r.Class("import:ok-same-key")
					} else {
						r.Class("import:ok-replaces-key")
					}
					e.key = b.key
					flags["import"] = true
				}
				return nil
			})
		case "importpk":
			if c.Store != "file" || len(present) == 0 || len(keys) == 0 {
				continue
			}
			name := present[mod(o.N, len(present))]
			k := keys[mod(o.B, len(keys))]
			if o.B >= 4 {
				// a key the user brings along: scalars at the edges of the 32-byte encoding
				k = boundaryKey(o.B - 4)
				r.Class("importpk:user-supplied-boundary-scalar")
			}
			pw := pwOf(o, name)
			f = guard(step, func() *failure {
				e := model[name]
				err := s.ImportPrivateKey(name, pw, k)
				switch {
				case e.pw != pw:
					if err == nil {
						return fail(acceptedSig(c.Store, [2]string{e.pw, pw}), "%s: ImportPrivateKey(%q, %q) succeeded although the name is stored with %q", step, name, pw, e.pw)
					}
					if !errors.Is(err, keystore.ErrInvalidPassword) {
						return fail("C36/wrong-password-error", "%s: ImportPrivateKey(%q, %q) with a wrong password: error %q is not ErrInvalidPassword", step, name, pw, err)
					}
					r.Class("importpk:wrong-password")
					flags["wrong"] = true
				case err != nil:
					return fail("C36/import-failed", "%s: ImportPrivateKey(%q, %q): %v", step, name, pw, err)
				default:
					e.key = k
					r.Class("importpk:ok")
					flags["import"] = true
				}
				return nil
			})
		}
		if f != nil {
			return f, flags
		}
	}
	// final audit: every name still yields exactly the modelled key for its password
	// (rejected attempts and failed imports must not have changed anything), also after reopening.
	if c.Store == "file" {
		s = file.New(dir)
	}
	for _, name := range present {
		e := model[name]
		f := guard("audit", func() *failure {
			k, created, err := s.Key(name, e.pw)
			if err != nil {
				return fail("C36/right-password-rejected", "final audit: Key(%q, %q): %v", name, e.pw, err)
			}
			if created {
				return fail("C36/created-flag", "final audit: Key(%q, %q) reported created=true for an existing name", name, e.pw)
			}
			if !sameKey(k, e.key) {
				return fail("C36/key-changed", "final audit: Key(%q, %q) returned %s, want %s", name, e.pw, kstr(k), kstr(e.key))
			}
			return nil
		})
		if f != nil {
			return f, flags
		}
		r.Class("audit:key-unchanged")
	}
	return nil, flags
}

// ---- generator ---------------------------------------------------------------

// names: filename-safe (no path separator, no NUL), short enough for name + ".key.bak.<unix>".
var namePool = []string{"boson", "libp2p", "", ".", "..", "a b", "key.key", "boson.key", "ключ", "鍵 🔑", "ä.ö", "-rf", "a.key.bak.1"}

var pwPool = []string{"", "pass123456", "p2p pass", " ", "пароль", "密码🔒", "pass123456 ", "Pass123456", "a\nb", strings.Repeat("long-password-", 80)}

func genName(t *rapid.T) string {
	if rapid.IntRange(0, 3).Draw(t, "namekind") > 0 {
		return rapid.SampledFrom(namePool).Draw(t, "name")
	}
	runes := []rune("abcXYZ019 ._-+~äπ键")
	return rapid.StringOfN(rapid.RuneFrom(runes), 0, 24, 60).Draw(t, "rname")
}

func genPw(t *rapid.T) string {
	if rapid.IntRange(0, 3).Draw(t, "pwkind") > 0 {
		return rapid.SampledFrom(pwPool).Draw(t, "pw")
	}
	return rapid.StringN(0, 40, 200).Draw(t, "rpw")
}

func distinct(xs []string) []string {
	seen := map[string]bool{}
	var out []string
	for _, x := range xs {
		if !seen[x] {
			seen[x] = true
			out = append(out, x)
		}
	}
	return out
}

func genCase(t *rapid.T, store string, minOps, maxOps int) kase {
	c := kase{Store: store}
	nn := rapid.IntRange(1, 3).Draw(t, "nnames")
	if store == "file" && nn < 2 {
		nn = 2
	}
	for i := 0; i < nn; i++ {
		c.Names = append(c.Names, genName(t))
	}
	c.Names = distinct(c.Names)
	if store == "file" && len(c.Names) < 2 {
		c.Names = append(c.Names, c.Names[0]+"2")
	}
	np := rapid.IntRange(2, 3).Draw(t, "npws")
	for i := 0; i < np; i++ {
		c.Pws = append(c.Pws, genPw(t))
	}
	c.Pws = distinct(c.Pws)
	if store == "file" {
		// input domain: the file store's password is the scrypt (PBKDF2-HMAC-SHA256) password, for
		// which strings with the same RFC 2104 key form (trailing NUL padding, >64-byte string vs its
		// SHA-256) are the same password by definition of the KDF; such pairs are not "different
		// passwords" and no caller passes passwords with NUL bytes, so they are not generated
		var keep []string
		for _, p := range c.Pws {
			dup := false
			for _, q := range keep {
				if equivalent(p, q) {
					dup = true
				}
			}
			if dup {
				evid.Get(id).Class("hmac-equivalent-password-pair-not-generated")
				continue
			}
			keep = append(keep, p)
		}
		c.Pws = keep
	}
	kinds := []string{"key", "key", "key", "key", "exists"}
	if store == "file" {
		kinds = []string{"export", "import", "key", "import", "key", "export", "importpk", "key", "reopen", "exists", "import"}
	}
	// always start by creating a key so that later steps have something to act on
	c.Ops = append(c.Ops, op{K: "key", N: 0, P: rapid.IntRange(0, 2).Draw(t, "p0")})
	if store == "file" {
		// a second name, stored with the same or with another password, as import target
		c.Ops = append(c.Ops, op{K: "key", N: 1, P: rapid.SampledFrom([]int{0, 1, 0, 2}).Draw(t, "p1")})
	}
	n := rapid.IntRange(minOps, maxOps).Draw(t, "nops")
	for i := 0; i < n; i++ {
		o := op{K: rapid.SampledFrom(kinds).Draw(t, "kind")}
		o.N = rapid.IntRange(0, 2).Draw(t, "n")
		if o.K == "import" || o.K == "importpk" {
			o.N = rapid.SampledFrom([]int{1, 0, 1, 2}).Draw(t, "target")
		}
		o.Right = rapid.IntRange(0, 2).Draw(t, "right") > 0
		o.P = rapid.IntRange(0, 2).Draw(t, "p")
		o.B = rapid.IntRange(0, 3).Draw(t, "b")
		if o.K == "importpk" && rapid.Bool().Draw(t, "ownkey") {
			o.B = 4 + rapid.IntRange(0, 5).Draw(t, "scalar")
		}
		c.Ops = append(c.Ops, o)
	}
	if store == "file" && rapid.Bool().Draw(t, "cross-import") {
		// the blob of one name imported into another name with that name's own (correct) password:
		// the import has to fail when the passwords differ, and must leave the target as it was
		from := rapid.IntRange(0, 1).Draw(t, "xfrom")
		c.Ops = append(c.Ops, op{K: "export", N: from, Right: true}, op{K: "import", N: 1 - from, Right: true, P: 0, B: -1},
			op{K: "key", N: 1 - from, Right: true})
	}
	return c
}

// boundaryKey builds a valid secp256k1 private key from a scalar chosen for its encoding: 1, one
// byte, 31 bytes (just below 2^248: the 32-byte form starts with a zero byte), exactly 2^248, and
// two full-width values.
func boundaryKey(i int) *ecdsa.PrivateKey {
	b := make([]byte, 32)
	switch mod(i, 6) {
	case 0:
		b[31] = 1
	case 1:
		b[31] = 0xff
	case 2:
		for k := 1; k < 32; k++ {
			b[k] = 0xff
		}
	case 3:
		b[0] = 1
	case 4:
		b[0], b[31] = 0x7f, 0x35
	default:
		b[1], b[17] = 0x80, 0x01 // 2^247 + ...: 31 significant bytes
	}
	k, err := crypto.DecodeSecp256k1PrivateKey(b)
	if err != nil {
		panic(err)
	}
	return k
}

func record(r *evid.Rec, c kase, flags map[string]bool) {
	nt := flags["wrong"] || flags["export"] || flags["import"]
	cls := []string{"store:" + c.Store}
	for _, k := range []string{"wrong", "export", "import", "get"} {
		if flags[k] {
			cls = append(cls, "case:has-"+k)
		}
	}
	for _, p := range c.Pws {
		if p == "" {
			cls = append(cls, "case:has-empty-password")
			break
		}
	}
	for _, p := range c.Pws {
		if !isASCII(p) {
			cls = append(cls, "case:has-non-ascii-password")
			break
		}
	}
	for _, n := range c.Names {
		if !isASCII(n) {
			cls = append(cls, "case:has-non-ascii-name")
			break
		}
	}
	r.Case(evid.Hash64(c), nt, cls...)
	r.Sample(c)
}

func isASCII(s string) bool {
	for i := 0; i < len(s); i++ {
		if s[i] >= 0x80 {
			return false
		}
	}
	return true
}

const rule = "rapid histories over one keystore (file store in a fresh temp dir | in-memory store): 1..3 names (pool incl. '', '.', '..', spaces, dots, unicode; or random filename-safe strings; never a path separator) x 2..3 passwords (pool incl. empty, unicode, NUL, trailing-space and case variants, 1120-char; or random unicode) x ops Key(name, stored|other password), Exists, and for the file store ExportKey, ImportKey(exported blob into any existing name), ImportPrivateKey (a key seen earlier, or a user-supplied key whose scalar is 1, one byte, 31 bytes, 2^248 or full width), reopen; final audit Key(name, stored password) for every name after reopening. Oracle: map model name -> (key, password). Non-trivial = the history contains a wrong-password attempt or an export/import; distinct by hash of the case"

func check(t *testing.T, r *evid.Rec, c kase) {
	f, flags := run(r, c)
	if f != nil {
		t.Fatalf("%s", evid.Violation(id, f.Sig, fmt.Sprintf("%s case=%+v", f.Msg, c)))
	}
	record(r, c, flags)
}

// TestC36_Fixed: the documented scenario of pkg/keystore/test on both stores with the
// corner passwords, plus export -> import into another name (file store).
func TestC36_Fixed(t *testing.T) {
	r := evid.Get(id)
	evid.Finish(t, r)
	r.SetRule(rule)
	for _, store := range []string{"file", "mem"} {
		for _, pws := range [][]string{{"", " "}, {"密码🔒", "пароль"}} {
			c := kase{Store: store, Names: []string{"boson", "libp2p"}, Pws: pws, Ops: []op{
				{K: "exists", N: 0}, {K: "key", N: 0, P: 0}, {K: "exists", N: 0}, {K: "key", N: 0, Right: true}, {K: "key", N: 0, P: 1},
				{K: "key", N: 1, P: 0}, {K: "export", N: 0, Right: true}, {K: "export", N: 0, P: 1}, {K: "import", N: 1, B: 0, Right: true},
				{K: "reopen"}, {K: "key", N: 1, Right: true}, {K: "key", N: 1, P: 1},
			}}
			check(t, r, c)
		}
	}
}

func TestC36_File(t *testing.T) {
	r := evid.Get(id)
	evid.Finish(t, r)
	r.SetRule(rule)
	evid.Checks(16)
	rapid.Check(t, func(t *rapid.T) {
		c := genCase(t, "file", 4, 9)
		f, flags := run(r, c)
		if f != nil {
			t.Fatalf("%s", evid.Violation(id, f.Sig, fmt.Sprintf("%s case=%+v", f.Msg, c)))
		}
		record(r, c, flags)
	})
}

func TestC36_Mem(t *testing.T) {
	r := evid.Get(id)
	evid.Finish(t, r)
	r.SetRule(rule)
	evid.Checks(2500)
	rapid.Check(t, func(t *rapid.T) {
		c := genCase(t, "mem", 2, 24)
		f, flags := run(r, c)
		if f != nil {
			t.Fatalf("%s", evid.Violation(id, f.Sig, fmt.Sprintf("%s case=%+v", f.Msg, c)))
		}
		record(r, c, flags)
	})
}


