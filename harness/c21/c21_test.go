// Package c21 checks property C21: proximity-indexed peer sets (pslice.PSlice)
// behave as sets, indexed by the proximity bin of each address.
package c21

import (
	"encoding/json"
	"fmt"
	"os"
	"path/filepath"
	"sort"
	"testing"

	"github.com/gauss-project/aurorafs/pkg/boson"
	"github.com/gauss-project/aurorafs/pkg/topology/pslice"
	"pgregory.net/rapid"
	"verifharness/internal/evid"
	"verifharness/internal/ref"
)

const id = "C21"

const sigBatchDup = "C21/batch-add-in-batch-duplicate"

// first differing bit (from the base) of each universe address. 40 lies beyond the
// inspected 32-bit prefix, so its proximity order is the cap (31), like bit 31.
var firstDiff = []int{0, 0, 0, 1, 1, 2, 2, 3, 4, 5, 31, 40}

const universe = 12

var maxBinsChoices = []int{1, 2, 3, 4, 4, 5, 5, 32}

type mut struct {
	At  int  `json:"at"`  // callback call index at which the mutation is applied
	Rem bool `json:"rem"` // remove (true) or single add (false)
	A   int  `json:"a"`   // universe index
}

type op struct {
	K    string `json:"k"`              // add | addn | rem | each | eachmut
	A    []int  `json:"a,omitempty"`    // universe indices (add/rem: one; addn: any number incl. duplicates)
	Rev  bool   `json:"rev,omitempty"`  // each: shallowest-first
	Stop int    `json:"stop,omitempty"` // each: callback call index that returns stop (-1: never)
	Next uint32 `json:"next,omitempty"` // each: bit k set => callback call k returns jump-to-next-bin
	Muts []mut  `json:"muts,omitempty"` // eachmut: updates applied from inside the callback
}

type kase struct {
	Base    int   `json:"base"`
	MaxBins int   `json:"max_bins"`
	Init    []int `json:"init"`
	Ops     []op  `json:"ops"`
}

func baseBytes(k int) []byte {
	b := make([]byte, 32)
	for i := range b {
		switch k % 3 {
		case 0:
			b[i] = 0
		case 1:
			b[i] = 0xff
		default:
			b[i] = byte(0xa5 ^ (i * 37))
		}
	}
	return b
}

func addrBytes(base []byte, i int) []byte {
	b := append([]byte{}, base...)
	bit := firstDiff[i]
	b[bit/8] ^= 0x80 >> uint(bit%8)
	b[31] ^= byte(i + 1) // distinct addresses with the same first differing bit
	return b
}

// world is the harness view of one PSlice instance: universe, model set, bin function.
type world struct {
	c     kase
	ps    *pslice.PSlice
	addrs []boson.Address
	key   map[string]int // address bytes -> universe index
	bin   []int          // universe index -> expected bin
	in    []bool         // model set
	// mirror of the per-bin order under append / swap-remove, used ONLY to classify
	// "remove of a middle element"; never used by the oracle.
	order [][]int
}

func newWorld(c kase) (*world, error) {
	w := &world{c: c, key: map[string]int{}, in: make([]bool, universe), order: make([][]int, c.MaxBins)}
	base := baseBytes(c.Base)
	for i := 0; i < universe; i++ {
		ab := addrBytes(base, i)
		// independent reference: leading equal bits, capped at the last order, capped at the last bin
		po := ref.LeadingEqualBits(base, ab)
		want := firstDiff[i]
		if po != want {
			return nil, fmt.Errorf("harness: universe address %d first differs at %d, want %d", i, po, want)
		}
		if po > int(boson.MaxPO) {
			po = int(boson.MaxPO)
		}
		if po > c.MaxBins-1 {
			po = c.MaxBins - 1
		}
		w.bin = append(w.bin, po)
		w.addrs = append(w.addrs, boson.NewAddress(ab))
		w.key[string(ab)] = i
	}
	w.ps = pslice.New(c.MaxBins, boson.NewAddress(base))
	return w, nil
}

func (w *world) modelAdd(i int) {
	if !w.in[i] {
		w.in[i] = true
		w.order[w.bin[i]] = append(w.order[w.bin[i]], i)
	}
}

// modelRemove returns true when the removed element was neither absent nor the last of its bin.
func (w *world) modelRemove(i int) (middle bool) {
	if !w.in[i] {
		return false
	}
	w.in[i] = false
	o := w.order[w.bin[i]]
	for k, v := range o {
		if v == i {
			middle = k != len(o)-1
			o[k] = o[len(o)-1]
			w.order[w.bin[i]] = o[:len(o)-1]
			break
		}
	}
	return middle
}

func (w *world) binMembers(b int) []int {
	var r []int
	for i := 0; i < universe; i++ {
		if w.in[i] && w.bin[i] == b {
			r = append(r, i)
		}
	}
	return r
}

type failure struct {
	sig string
	msg string
}

func fail(sig, f string, a ...interface{}) *failure {
	return &failure{sig: sig, msg: fmt.Sprintf(f, a...)}
}

type visit struct {
	idx int
	po  int
}

// iterate runs EachBin/EachBinRev with a callback whose decisions depend only on the call index.
func (w *world) iterate(rev bool, stop int, next uint32, inside func(call int)) (vs []visit, ferr *failure) {
	call := 0
	f := func(a boson.Address, po uint8) (bool, bool, error) {
		i, ok := w.key[string(a.Bytes())]
		if !ok {
			if ferr == nil {
				ferr = fail("C21/iteration", "iteration yielded an address that was never added: %s", a.String())
			}
			return true, false, nil
		}
		vs = append(vs, visit{i, int(po)})
		k := call
		call++
		if inside != nil {
			inside(k)
		}
		if k == stop {
			return true, false, nil
		}
		if k < 32 && next&(1<<uint(k)) != 0 {
			return false, true, nil
		}
		return false, false, nil
	}
	var err error
	if rev {
		err = w.ps.EachBinRev(f)
	} else {
		err = w.ps.EachBin(f)
	}
	if err != nil && ferr == nil {
		ferr = fail("C21/iteration", "iteration returned error %v although the callback never returns one", err)
	}
	return vs, ferr
}

// checkEach is the exact oracle for an iteration without updates from inside the callback.
func (w *world) checkEach(rev bool, stop int, next uint32, what string) *failure {
	vs, f := w.iterate(rev, stop, next, nil)
	if f != nil {
		return f
	}
	// expected bin sequence
	var want []int
	call := 0
	bins := make([]int, 0, w.c.MaxBins)
	for b := 0; b < w.c.MaxBins; b++ {
		bins = append(bins, b)
	}
	if !rev {
		for l, r := 0, len(bins)-1; l < r; l, r = l+1, r-1 {
			bins[l], bins[r] = bins[r], bins[l]
		}
	}
	stopped := false
	for _, b := range bins {
		n := len(w.binMembers(b))
		for j := 0; j < n; j++ {
			k := call
			call++
			want = append(want, b)
			if k == stop {
				stopped = true
				break
			}
			if k < 32 && next&(1<<uint(k)) != 0 {
				break
			}
		}
		if stopped {
			break
		}
	}
	got := make([]int, len(vs))
	seen := map[int]bool{}
	for k, v := range vs {
		got[k] = v.po
		if !w.in[v.idx] {
			return fail("C21/iteration", "%s: yielded address #%d which is not in the set", what, v.idx)
		}
		if v.po != w.bin[v.idx] {
			return fail("C21/iteration", "%s: address #%d reported in bin %d, want %d", what, v.idx, v.po, w.bin[v.idx])
		}
		if seen[v.idx] {
			return fail("C21/iteration", "%s: address #%d yielded twice (visits %v)", what, v.idx, vs)
		}
		seen[v.idx] = true
	}
	if fmt.Sprint(got) != fmt.Sprint(want) {
		return fail("C21/iteration", "%s rev=%v stop=%d next=%b: bins visited %v, want %v", what, rev, stop, next, got, want)
	}
	return nil
}

// verify compares every query of the structure with the model set.
func (w *world) verify(what string) *failure {
	n := 0
	for i := 0; i < universe; i++ {
		if got := w.ps.Exists(w.addrs[i]); got != w.in[i] {
			return fail("C21/exists", "%s: Exists(#%d)=%v want %v", what, i, got, w.in[i])
		}
		if w.in[i] {
			n++
		}
	}
	if got := w.ps.Length(); got != n {
		return fail("C21/length", "%s: Length()=%d want %d", what, got, n)
	}
	firstEmpty := -1
	for b := 0; b < w.c.MaxBins+2 && b < 256; b++ {
		var mem []int
		if b < w.c.MaxBins {
			mem = w.binMembers(b)
			if len(mem) == 0 && firstEmpty < 0 {
				firstEmpty = b
			}
		}
		if got := w.ps.BinSize(uint8(b)); got != len(mem) {
			return fail("C21/bin", "%s: BinSize(%d)=%d want %d", what, b, got, len(mem))
		}
		peers := w.ps.BinPeers(uint8(b))
		var got []int
		for _, p := range peers {
			i, ok := w.key[string(p.Bytes())]
			if !ok {
				return fail("C21/bin", "%s: BinPeers(%d) holds unknown address %s", what, b, p.String())
			}
			got = append(got, i)
		}
		sort.Ints(got)
		if fmt.Sprint(got) != fmt.Sprint(mem) {
			return fail("C21/bin", "%s: BinPeers(%d)=%v want %v (universe indices)", what, b, got, mem)
		}
	}
	bin, none := w.ps.ShallowestEmpty()
	if firstEmpty < 0 {
		if !none {
			return fail("C21/shallowest-empty", "%s: ShallowestEmpty()=(%d,false) but no bin is empty", what, bin)
		}
	} else if none || int(bin) != firstEmpty {
		return fail("C21/shallowest-empty", "%s: ShallowestEmpty()=(%d,%v) want (%d,false)", what, bin, none, firstEmpty)
	}
	if f := w.checkEach(false, -1, 0, what+" full EachBin"); f != nil {
		return f
	}
	if f := w.checkEach(true, -1, 0, what+" full EachBinRev"); f != nil {
		return f
	}
	return nil
}

type stats struct {
	batchDup, batchExisting, removeMiddle, removeAbsent, addExisting bool
	beyond, eachStop, eachNext, eachMut, fullBins, emptyBatch  bool
	excluded                                                    int
}

func dedup(a []int) ([]int, bool) {
	seen := map[int]bool{}
	var r []int
	d := false
	for _, x := range a {
		if seen[x] {
			d = true
			continue
		}
		seen[x] = true
		r = append(r, x)
	}
	return r, d
}

// run interprets a case. tainted reports that a batch add carrying the same new address twice was executed.
func run(c kase, exclude bool) (st stats, sig string, err error) {
	defer func() {
		if p := recover(); p != nil {
			sig, err = "C21/panic", fmt.Errorf("panic: %v", p)
		}
	}()
	w, herr := newWorld(c)
	if herr != nil {
		return st, "C21/harness", herr
	}
	tainted := false
	ret := func(f *failure) (stats, string, error) {
		if f == nil {
			return st, "", nil
		}
		if tainted {
			return st, sigBatchDup, fmt.Errorf("%s", f.msg)
		}
		return st, f.sig, fmt.Errorf("%s", f.msg)
	}
	batch := func(idx []int) {
		var dropped int
		idx, dropped = effective(idx, w.in, exclude)
		st.excluded += dropped
		as := make([]boson.Address, len(idx))
		seen := map[int]bool{}
		for k, i := range idx {
			as[k] = w.addrs[i]
			if seen[i] {
				st.batchDup = true
				if !w.in[i] && len(idx) > 1 {
					tainted = true
				}
			}
			seen[i] = true
			if w.in[i] {
				st.batchExisting = true
			}
			if firstDiff[i] > c.MaxBins-1 {
				st.beyond = true
			}
		}
		if len(idx) == 0 {
			st.emptyBatch = true
		}
		w.ps.Add(as...)
		// the model is updated only after the call so that "tainted" sees the state before
		for _, i := range idx {
			w.modelAdd(i)
		}
	}
	if len(c.Init) > 0 {
		for _, i := range c.Init {
			w.ps.Add(w.addrs[i])
			w.modelAdd(i)
		}
	}
	if f := w.verify("init"); f != nil {
		return ret(f)
	}
	for k, o := range c.Ops {
		what := fmt.Sprintf("op#%d %s%v", k, o.K, o.A)
		switch o.K {
		case "add":
			i := o.A[0]
			if w.in[i] {
				st.addExisting = true
			}
			if firstDiff[i] > c.MaxBins-1 {
				st.beyond = true
			}
			w.ps.Add(w.addrs[i])
			w.modelAdd(i)
		case "addn":
			batch(o.A)
		case "rem":
			i := o.A[0]
			if !w.in[i] {
				st.removeAbsent = true
			}
			w.ps.Remove(w.addrs[i])
			if w.modelRemove(i) {
				st.removeMiddle = true
			}
		case "each":
			if o.Stop >= 0 {
				st.eachStop = true
			}
			if o.Next != 0 {
				st.eachNext = true
			}
			if f := w.checkEach(o.Rev, o.Stop, o.Next, what); f != nil {
				return ret(f)
			}
		case "eachmut":
			st.eachMut = true
			// Updates applied from inside the callback (a deterministic interleaving of
			// iterate/update). Oracle: every yielded address was present at the start or added
			// during the iteration, is reported in its own bin, appears once, bins are monotone.
			allowed := append([]bool{}, w.in...)
			inside := func(call int) {
				for _, m := range o.Muts {
					if m.At != call {
						continue
					}
					if m.Rem {
						w.ps.Remove(w.addrs[m.A])
						if w.modelRemove(m.A) {
							st.removeMiddle = true
						}
					} else {
						w.ps.Add(w.addrs[m.A])
						w.modelAdd(m.A)
						allowed[m.A] = true
					}
				}
			}
			vs, f := w.iterate(o.Rev, -1, 0, inside)
			if f != nil {
				return ret(f)
			}
			if f := checkLoose(w, vs, allowed, o.Rev, what); f != nil {
				f.sig = "C21/iteration-under-update"
				return ret(f)
			}
		}
		if f := w.verify("after " + what); f != nil {
			return ret(f)
		}
		full := true
		for b := 0; b < c.MaxBins; b++ {
			if len(w.order[b]) == 0 {
				full = false
			}
		}
		if full {
			st.fullBins = true
		}
	}
	return st, "", nil
}

// checkLoose is the oracle for an iteration that overlaps updates.
func checkLoose(w *world, vs []visit, allowed []bool, rev bool, what string) *failure {
	seen := map[int]bool{}
	for k, v := range vs {
		if !allowed[v.idx] {
			return fail("C21/iteration", "%s: yielded address #%d that was neither present nor added", what, v.idx)
		}
		if v.po != w.bin[v.idx] {
			return fail("C21/iteration", "%s: address #%d reported in bin %d, want %d", what, v.idx, v.po, w.bin[v.idx])
		}
		if seen[v.idx] {
			return fail("C21/iteration", "%s: address #%d yielded twice in one iteration (visits %v)", what, v.idx, vs)
		}
		seen[v.idx] = true
		if k > 0 {
			if (!rev && vs[k-1].po < v.po) || (rev && vs[k-1].po > v.po) {
				return fail("C21/iteration", "%s: bins out of order (rev=%v): %v", what, rev, vs)
			}
		}
	}
	return nil
}

func genIdx(t *rapid.T, label string) int { return rapid.IntRange(0, universe-1).Draw(t, label) }

// genBatch draws a batch for Add(addrs...), with in-batch duplicates.
func genBatch(t *rapid.T) []int {
	n := rapid.SampledFrom([]int{0, 2, 2, 3, 3, 4, 5, 6}).Draw(t, "batchlen")
	a := make([]int, 0, n)
	for j := 0; j < n; j++ {
		if j > 0 && rapid.IntRange(0, 3).Draw(t, "dup") == 0 {
			a = append(a, a[rapid.IntRange(0, j-1).Draw(t, "dupof")])
		} else {
			a = append(a, genIdx(t, "a"))
		}
	}
	return a
}

// effective resolves a drawn batch against the live set. While the in-batch-duplicate
// finding is listed as known, exactly its shape - a second occurrence, within one batch of
// two or more, of an address that is not yet in the set - is dropped by construction (and
// counted); duplicates of already-present addresses stay.
func effective(idx []int, in []bool, exclude bool) (eff []int, dropped int) {
	if !exclude || len(idx) < 2 {
		return idx, 0
	}
	seen := map[int]bool{}
	for _, i := range idx {
		if seen[i] && !in[i] {
			dropped++
			continue
		}
		seen[i] = true
		eff = append(eff, i)
	}
	return eff, dropped
}

func genCase(t *rapid.T) kase {
	var c kase
	c.Base = rapid.IntRange(0, 2).Draw(t, "base")
	c.MaxBins = rapid.SampledFrom(maxBinsChoices).Draw(t, "maxbins")
	ni := rapid.IntRange(0, 8).Draw(t, "ninit")
	for j := 0; j < ni; j++ {
		c.Init = append(c.Init, genIdx(t, "init"))
	}
	nops := rapid.IntRange(1, 24).Draw(t, "nops")
	for j := 0; j < nops; j++ {
		k := rapid.SampledFrom([]string{"add", "add", "addn", "addn", "addn", "rem", "rem", "rem", "each", "each", "eachmut"}).Draw(t, "kind")
		o := op{K: k, Stop: -1}
		switch k {
		case "add", "rem":
			o.A = []int{genIdx(t, "a")}
		case "addn":
			o.A = genBatch(t)
		case "each":
			o.Rev = rapid.Bool().Draw(t, "rev")
			if rapid.Bool().Draw(t, "hasstop") {
				o.Stop = rapid.IntRange(0, 12).Draw(t, "stop")
			}
			if rapid.Bool().Draw(t, "hasnext") {
				o.Next = rapid.Uint32Range(0, 1<<12-1).Draw(t, "next")
				if o.Stop >= 0 {
					o.Next &^= 1 << uint(o.Stop) // stop and next in the same call is not specified
				}
			}
		case "eachmut":
			o.Rev = rapid.Bool().Draw(t, "rev")
			nm := rapid.IntRange(1, 4).Draw(t, "nmut")
			for q := 0; q < nm; q++ {
				o.Muts = append(o.Muts, mut{At: rapid.IntRange(0, 8).Draw(t, "at"), Rem: rapid.IntRange(0, 2).Draw(t, "mrem") > 0, A: genIdx(t, "ma")})
			}
		}
		c.Ops = append(c.Ops, o)
	}
	return c
}

func record(r *evid.Rec, c kase, st stats) {
	nt := st.batchDup || st.batchExisting || st.removeMiddle
	var cls []string
	add := func(b bool, s string) {
		if b {
			cls = append(cls, s)
		}
	}
	add(st.batchDup, "batch-add-with-in-batch-duplicate")
	add(st.batchExisting, "batch-add-with-already-present-address")
	add(st.emptyBatch, "batch-add-empty")
	add(st.removeMiddle, "remove-middle-element")
	add(st.removeAbsent, "remove-absent")
	add(st.addExisting, "single-add-already-present")
	add(st.beyond, "address-beyond-last-bin")
	add(st.eachStop, "iteration-early-stop")
	add(st.eachNext, "iteration-skip-to-next-bin")
	add(st.eachMut, "iteration-with-updates-from-callback")
	add(st.fullBins, "no-empty-bin")
	cls = append(cls, fmt.Sprintf("maxbins-%d", c.MaxBins))
	for k := 0; k < st.excluded; k++ {
		r.Excluded(sigBatchDup)
	}
	r.Case(evid.Hash64(c), nt, cls...)
	r.Sample(c)
}

func saveReplay(name string, v interface{}) {
	dir := os.Getenv("VERIF_REPLAY_OUT")
	if dir == "" {
		return
	}
	b, _ := json.MarshalIndent(v, "", " ")
	_ = os.MkdirAll(dir, 0o755)
	_ = os.WriteFile(filepath.Join(dir, name), b, 0o644)
}

const rule = "rapid: base (3 patterns) x maxBins {1,2,3,4,5,32} x 12-address universe with first differing bit {0,0,0,1,1,2,2,3,4,5,31,40} (so addresses beyond the last bin exist for every maxBins) x initial set x 1..24 ops: single Add, batch Add (0..6 addresses, in-batch duplicates and already-present addresses), Remove (present or absent), EachBin/EachBinRev with stop at call k and jump-to-next-bin at calls in a mask, and iteration whose callback applies Add/Remove. After every op all of Exists, Length, BinSize, BinPeers (incl. bins beyond maxBins), ShallowestEmpty and full EachBin/EachBinRev are compared with a model set whose bin function is an independent leading-equal-bits count capped at 31 and at maxBins-1. non-trivial = a batch add containing an in-batch duplicate or an already-present address, or a remove of an element that is not the last of its bin; distinct by hash of the case"

func TestC21_Model(t *testing.T) {
	r := evid.Get(id)
	evid.Finish(t, r)
	r.SetRule(rule)

	if rf := os.Getenv("VERIF_REPLAY_FILE"); rf != "" {
		var c kase
		b, err := os.ReadFile(rf)
		if err != nil || json.Unmarshal(b, &c) != nil || c.MaxBins < 1 || len(c.Ops) == 0 || c.Ops[0].K == "" {
			t.Skip("not a C21 model replay")
		}
		st, sig, rerr := run(c, evid.Known(sigBatchDup))
		if rerr != nil {
			t.Fatalf("%s", evid.Violation(id, sig, fmt.Sprintf("%v case=%+v", rerr, c)))
		}
		record(r, c, st)
		return
	}

	// witness of the known finding (runs only while it is listed as known)
	if evid.Known(sigBatchDup) {
		c := kase{Base: 0, MaxBins: 4, Ops: []op{{K: "addn", A: []int{0, 0}, Stop: -1}}}
		if _, sig, err := run(c, false); err != nil && sig == sigBatchDup {
			r.Witness(sig)
		}
	}

	// deterministic boundary cases: every maxBins x fill everything, remove in both orders
	for _, mb := range []int{1, 2, 3, 4, 5, 32} {
		for base := 0; base < 3; base++ {
			c := kase{Base: base, MaxBins: mb}
			all := []int{0, 1, 2, 3, 4, 5, 6, 7, 8, 9, 10, 11}
			c.Ops = append(c.Ops, op{K: "addn", A: all[:6], Stop: -1}, op{K: "addn", A: all[3:], Stop: -1})
			for k := 0; k < 12; k++ {
				c.Ops = append(c.Ops, op{K: "each", Rev: k%2 == 0, Stop: k, Next: uint32(0x5a5 >> uint(k%3)) &^ (1 << uint(k))})
			}
			for _, i := range []int{0, 11, 1, 10, 5, 6, 2, 9, 3, 8, 4, 7} {
				c.Ops = append(c.Ops, op{K: "rem", A: []int{i}, Stop: -1})
			}
			st, sig, err := run(c, evid.Known(sigBatchDup))
			if err != nil {
				saveReplay("c21-boundary.json", c)
				t.Fatalf("%s", evid.Violation(id, sig, fmt.Sprintf("%v case=%+v", err, c)))
			}
			record(r, c, st)
		}
	}

	evid.Checks(8000)
	rapid.Check(t, func(t *rapid.T) {
		c := genCase(t)
		st, sig, err := run(c, evid.Known(sigBatchDup))
		if err != nil {
			saveReplay("c21-model.json", c)
			t.Fatalf("%s", evid.Violation(id, sig, fmt.Sprintf("%v case=%+v", err, c)))
		}
		record(r, c, st)
	})
}
