package c21

import (
	"fmt"
	"runtime"
	"sync"
	"sync/atomic"
	"testing"

	"github.com/gauss-project/aurorafs/pkg/boson"
	"pgregory.net/rapid"
	"verifharness/internal/evid"
)

// wop is one update applied by the writer goroutine.
type wop struct {
	K string `json:"k"` // add | addn | rem
	A []int  `json:"a"`
}

type rkase struct {
	Base    int   `json:"base"`
	MaxBins int   `json:"max_bins"`
	Init    []int `json:"init"`
	Ops     []wop `json:"ops"`
	Yield   []int `json:"yield"` // writer calls Gosched after op k when Yield[k%len] == 0
}

func genRaceCase(t *rapid.T) rkase {
	var c rkase
	c.Base = rapid.IntRange(0, 2).Draw(t, "base")
	c.MaxBins = rapid.SampledFrom([]int{1, 2, 4, 32}).Draw(t, "maxbins")
	ni := rapid.IntRange(2, 10).Draw(t, "ninit")
	for j := 0; j < ni; j++ {
		c.Init = append(c.Init, genIdx(t, "init"))
	}
	nops := rapid.IntRange(40, 160).Draw(t, "nops")
	for j := 0; j < nops; j++ {
		k := rapid.SampledFrom([]string{"add", "addn", "rem", "rem"}).Draw(t, "kind")
		o := wop{K: k}
		if k == "addn" {
			o.A = genBatch(t)
		} else {
			o.A = []int{genIdx(t, "a")}
		}
		c.Ops = append(c.Ops, o)
	}
	c.Yield = rapid.SliceOfN(rapid.IntRange(0, 3), 1, 7).Draw(t, "yield")
	return c
}

// runRace: one writer applies c.Ops while two readers iterate (deepest-first and
// shallowest-first) and a third one queries. Data races are reported by the race detector
// itself; the harness oracle is: every iteration yields only addresses of (initial ∪ ever
// added), each in its own bin, each at most once, bins monotone; and after the writer has
// finished, the structure equals the sequential model.
func runRace(c rkase, exclude bool) (iters int, excluded int, sig string, err error) {
	w, herr := newWorld(kase{Base: c.Base, MaxBins: c.MaxBins})
	if herr != nil {
		return 0, 0, "C21/harness", herr
	}
	allowed := make([]bool, universe)
	tainted := false
	for _, i := range c.Init {
		w.ps.Add(w.addrs[i])
		w.modelAdd(i)
		allowed[i] = true
	}
	// pre-compute the sequential model and the allowed set (the writer is the only updater)
	{
		in := append([]bool{}, w.in...)
		ops := make([]wop, len(c.Ops))
		copy(ops, c.Ops)
		c.Ops = ops
		for k, o := range c.Ops {
			if o.K == "addn" {
				eff, d := effective(o.A, in, exclude)
				excluded += d
				o.A = eff
				c.Ops[k] = o
			}
			switch o.K {
			case "add", "addn":
				seen := map[int]bool{}
				for _, i := range o.A {
					if seen[i] && !in[i] && len(o.A) > 1 {
						tainted = true
					}
					seen[i] = true
				}
				for _, i := range o.A {
					in[i] = true
					allowed[i] = true
				}
			case "rem":
				in[o.A[0]] = false
			}
		}
	}
	var done int32
	var wg sync.WaitGroup
	fails := make([]*failure, 3)
	counts := make([]int, 3)
	reader := func(slot int, rev bool) {
		defer wg.Done()
		defer func() {
			if p := recover(); p != nil && fails[slot] == nil {
				fails[slot] = fail("C21/panic", "panic in reader: %v", p)
			}
		}()
		for n := 0; ; n++ {
			finished := atomic.LoadInt32(&done) == 1
			var vs []visit
			var bad *failure
			f := func(a boson.Address, po uint8) (bool, bool, error) {
				i, ok := w.key[string(a.Bytes())]
				if !ok {
					bad = fail("C21/iteration", "concurrent iteration yielded an unknown address %s", a.String())
					return true, false, nil
				}
				vs = append(vs, visit{i, int(po)})
				if len(vs)%3 == 0 {
					runtime.Gosched()
				}
				return false, false, nil
			}
			var e error
			if rev {
				e = w.ps.EachBinRev(f)
			} else {
				e = w.ps.EachBin(f)
			}
			if e != nil && bad == nil {
				bad = fail("C21/iteration", "iteration returned error %v", e)
			}
			if bad == nil {
				bad = checkLoose(w, vs, allowed, rev, fmt.Sprintf("concurrent iteration #%d rev=%v", n, rev))
				if bad != nil {
					bad.sig = "C21/iteration-under-update"
				}
			}
			counts[slot]++
			if bad != nil {
				fails[slot] = bad
				return
			}
			if finished {
				return
			}
		}
	}
	querier := func(slot int) {
		defer wg.Done()
		defer func() {
			if p := recover(); p != nil && fails[slot] == nil {
				fails[slot] = fail("C21/panic", "panic in querier: %v", p)
			}
		}()
		for n := 0; ; n++ {
			finished := atomic.LoadInt32(&done) == 1
			i := n % universe
			_ = w.ps.Exists(w.addrs[i])
			_ = w.ps.Length()
			_, _ = w.ps.ShallowestEmpty()
			b := uint8(n % (c.MaxBins + 1))
			ps := w.ps.BinPeers(b)
			_ = w.ps.BinSize(b)
			seen := map[int]bool{}
			for _, p := range ps {
				k, ok := w.key[string(p.Bytes())]
				if !ok || !allowed[k] || w.bin[k] != int(b) || seen[k] {
					fails[slot] = fail("C21/bin", "concurrent BinPeers(%d) returned a wrong/duplicate member (universe index %d known=%v)", b, k, ok)
					return
				}
				seen[k] = true
			}
			counts[slot]++
			if finished {
				return
			}
			runtime.Gosched()
		}
	}
	wg.Add(3)
	go reader(0, false)
	go reader(1, true)
	go querier(2)
	var wpanic interface{}
	func() {
		defer func() { wpanic = recover() }()
		for k, o := range c.Ops {
			switch o.K {
			case "add":
				w.ps.Add(w.addrs[o.A[0]])
				w.modelAdd(o.A[0])
			case "addn":
				as := make([]boson.Address, len(o.A))
				for q, i := range o.A {
					as[q] = w.addrs[i]
				}
				w.ps.Add(as...)
				for _, i := range o.A {
					w.modelAdd(i)
				}
			case "rem":
				w.ps.Remove(w.addrs[o.A[0]])
				w.modelRemove(o.A[0])
			}
			if c.Yield[k%len(c.Yield)] == 0 {
				runtime.Gosched()
			}
		}
	}()
	atomic.StoreInt32(&done, 1)
	wg.Wait()
	iters = counts[0] + counts[1]
	pick := func(f *failure) (int, int, string, error) {
		if tainted {
			return iters, excluded, sigBatchDup, fmt.Errorf("%s", f.msg)
		}
		return iters, excluded, f.sig, fmt.Errorf("%s", f.msg)
	}
	if wpanic != nil {
		return pick(fail("C21/panic", "panic in writer: %v", wpanic))
	}
	for _, f := range fails {
		if f != nil {
			return pick(f)
		}
	}
	w.c.MaxBins = c.MaxBins
	if f := w.verify("after concurrent run"); f != nil {
		return pick(f)
	}
	return iters, excluded, "", nil
}

// TestC21_Concurrent_Race runs only in the -race binary (the driver skips *_Race in the plain one).
func TestC21_Concurrent_Race(t *testing.T) {
	r := evid.Get(id)
	evid.Finish(t, r)
	r.SetRule(rule)
	r.SetRule("race variant: one writer applies 40..160 generated Add/batch Add/Remove ops while two goroutines iterate (EachBin, EachBinRev) and one queries; oracle = race detector silent, each concurrent iteration yields a duplicate-free subset of (initial ∪ added) in monotone bin order with correct bins, and the final state equals the sequential model")
	evid.Checks(350)
	rapid.Check(t, func(t *rapid.T) {
		c := genRaceCase(t)
		iters, excl, sig, err := runRace(c, evid.Known(sigBatchDup))
		if err != nil {
			saveReplay("c21-race.json", c)
			t.Fatalf("%s", evid.Violation(id, sig, fmt.Sprintf("%v case=%+v", err, c)))
		}
		nt := false
		for _, o := range c.Ops {
			if o.K == "rem" || o.K == "addn" {
				nt = true
			}
		}
		r.Case(evid.Hash64("race", c), nt, "concurrent-iterate-update", fmt.Sprintf("race-maxbins-%d", c.MaxBins))
		r.ClassN("concurrent-iterations-completed", iters)
		for k := 0; k < excl; k++ {
			r.Excluded(sigBatchDup)
		}
	})
}
