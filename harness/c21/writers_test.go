package c21

import (
	"fmt"
	"sync"
	"testing"

	"github.com/gauss-project/aurorafs/pkg/boson"
	"pgregory.net/rapid"
	"verifharness/internal/evid"
)

// Several writers at once: connection events for one peer can arrive on different goroutines (dial
// out and dial in of the same peer), so Add and Remove of the same addresses run concurrently. After
// all writers have finished, the set holds every address at most once, and exactly the addresses
// whose last operation - where that is decidable - was an add. Each round: G goroutines released
// together, each performing a short generated list of single adds/removes over a tiny universe
// (so that the same address is hit at the same time); repeated for many rounds per case.

type mwcase struct {
	MaxBins int      `json:"max_bins"`
	Base    int      `json:"base"`
	G       [][]mwop `json:"goroutines"`
	Rounds  int      `json:"rounds"`
}

type mwop struct {
	Rem bool `json:"rem,omitempty"`
	A   int  `json:"a"`
}

func runWriters(c mwcase) (sig string, err error) {
	w, herr := newWorld(kase{Base: c.Base, MaxBins: c.MaxBins})
	if herr != nil {
		return "C21/harness", herr
	}
	onlyAdded := map[int]bool{}
	touched := map[int]bool{}
	removedSomewhere := map[int]bool{}
	for _, g := range c.G {
		for _, o := range g {
			touched[o.A] = true
			if o.Rem {
				removedSomewhere[o.A] = true
			}
		}
	}
	for a := range touched {
		if !removedSomewhere[a] {
			onlyAdded[a] = true
		}
	}
	for round := 0; round < c.Rounds; round++ {
		start := make(chan struct{})
		var wg sync.WaitGroup
		var pmu sync.Mutex
		var pan interface{}
		for _, g := range c.G {
			wg.Add(1)
			go func(g []mwop) {
				defer wg.Done()
				defer func() {
					if r := recover(); r != nil {
						pmu.Lock()
						pan = r
						pmu.Unlock()
					}
				}()
				<-start
				for _, o := range g {
					if o.Rem {
						w.ps.Remove(w.addrs[o.A])
					} else {
						w.ps.Add(w.addrs[o.A])
					}
				}
			}(g)
		}
		close(start)
		wg.Wait()
		if pan != nil {
			return "C21/panic", fmt.Errorf("round %d: panic in a writer: %v", round, pan)
		}
		seen := map[string]int{}
		_ = w.ps.EachBin(func(a boson.Address, po uint8) (bool, bool, error) {
			seen[a.ByteString()]++
			return false, false, nil
		})
		for a, n := range seen {
			if n > 1 {
				return "C21/duplicate", fmt.Errorf("round %d: address #%d is stored %d times after concurrent adds (Length %d)", round, w.key[a], n, w.ps.Length())
			}
		}
		if w.ps.Length() != len(seen) {
			return "C21/length", fmt.Errorf("round %d: Length() = %d, iteration yields %d distinct addresses", round, w.ps.Length(), len(seen))
		}
		for a := range onlyAdded {
			if !w.ps.Exists(w.addrs[a]) {
				return "C21/membership", fmt.Errorf("round %d: address #%d was only ever added, but Exists is false", round, a)
			}
		}
		// next round starts from a set without the contested addresses
		for a := range touched {
			w.ps.Remove(w.addrs[a])
			if w.ps.Exists(w.addrs[a]) {
				return "C21/duplicate", fmt.Errorf("round %d: address #%d still present after Remove (it was stored more than once)", round, a)
			}
		}
	}
	return "", nil
}

func writersTest(t *testing.T, checks int) {
	r := evid.Get(id)
	evid.Finish(t, r)
	evid.Checks(checks)
	rapid.Check(t, func(t *rapid.T) {
		c := mwcase{MaxBins: rapid.SampledFrom([]int{1, 4, 32}).Draw(t, "maxbins"), Base: rapid.IntRange(0, 2).Draw(t, "base"),
			Rounds: rapid.SampledFrom([]int{200, 400}).Draw(t, "rounds")}
		opGen := rapid.Custom(func(t *rapid.T) mwop {
			return mwop{Rem: rapid.IntRange(0, 4).Draw(t, "rem") == 0, A: rapid.IntRange(0, 2).Draw(t, "a")}
		})
		c.G = rapid.SliceOfN(rapid.SliceOfN(opGen, 1, 3), 2, 8).Draw(t, "goroutines")
		sig, err := runWriters(c)
		if err != nil {
			t.Fatalf("%s", evid.Violation(id, sig, fmt.Sprintf("%v case=%+v", err, c)))
		}
		r.Case(evid.Hash64("writers", c), true, "concurrent-writers")
		r.Sample(c)
	})
}

func TestC21_ConcurrentWriters(t *testing.T)      { writersTest(t, 25) }
func TestC21_ConcurrentWriters_Race(t *testing.T) { writersTest(t, 8) }
