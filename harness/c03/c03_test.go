// Package c03 checks property C03: the concurrent BMT hasher returns
// keccak256(span || binary-Merkle-root of the zero-padded data) for every length
// up to capacity, every header, every write split, also on reused pooled trees
// and with many hashes in flight.
//
// Oracle: ref.BMTN (independent recursive definition, shares only keccak256).
// Only documented use is generated: SetHeader/SetHeaderInt64 (before the writes or
// before Hash, both orders occur in the repository), sequential Writes within
// capacity, exactly one Hash/Sum(nil) per write sequence, Reset before the next
// sequence on the same hasher, Put after Hash. A hasher is never shared between
// goroutines and never returned half-written.
package c03

import (
	"bytes"
	"encoding/binary"
	"encoding/hex"
	"encoding/json"
	"fmt"
	"os"
	"path/filepath"
	"runtime"
	"sort"
	"sync"
	"testing"
	"time"

	"github.com/gauss-project/aurorafs/pkg/bmt"
	"github.com/gauss-project/aurorafs/pkg/bmtpool"
	"github.com/gauss-project/aurorafs/pkg/boson"
	"pgregory.net/rapid"
	"verifharness/internal/evid"
	"verifharness/internal/ref"
)

const (
	id       = "C03"
	fullSegs = 8192
	fullCap  = fullSegs * 32
	// A single Hash takes a few milliseconds. If it has not returned after this
	// long the section workers have lost the result (the statement says the
	// hasher *returns* the hash); the cap only exists so that such a defect is
	// reported as a violation with its case instead of a test-binary timeout.
	hangCap = 150 * time.Second

	ruleText = "rapid cases: tree = shared bmtpool (8192 segments, 31 of the 32 pooled trees held so the same tree comes back) or a private pool of capacity 1 with 1..128 segments; optional previous occupant with longer non-zero data; 1..3 hash jobs on one hasher with Reset between; per job: length boundary-dense in [0,capacity] (0,1,31..33,63..65,2^k+-1,64k+-2,capacity-130..capacity) or uniform, fill in {pseudo-random from drawn seed, zeros, 0xff, zero tail, zeros then one non-zero byte}, arbitrary 8-byte header set before or after the writes (bytes or int64), write split = drawn cut list (uniform cuts, section-boundary cuts, 1..3-byte writes, zero-length writes), Hash(nil) or Sum(nil). Deterministic sweeps: every length 0..capacity on private trees with 1,2,3,4,5,8,16,17,32,64,128 segments (descending on one reused hasher, then ascending, 3 split variants); boundary lengths (thorough: every length of this shard's residue class) on the full-size pooled tree. Concurrent cases: 2..48 goroutines (pool holds 32 trees), GOMAXPROCS in {1,2,4,16}, each goroutine runs 1..3 Get/jobs/Put sessions. Oracle ref.BMTN. non-trivial = length not a multiple of 64, or >= 2 writes, or reused hasher/tree; distinct by hash of the case value"
)

// ---- case representation -------------------------------------------------------

type job struct {
	Len     int    `json:"len"`
	Fill    string `json:"fill"` // rnd | zero | ff | zerotail | zerohead
	Seed    uint64 `json:"seed"`
	Header  string `json:"header"` // 8 bytes hex
	HdrMode string `json:"hdr"`    // before | after | int64-before | int64-after
	Cuts    []int  `json:"cuts,omitempty"`
	UseSum  bool   `json:"use_sum,omitempty"`
	Yield   bool   `json:"yield,omitempty"`
}

// kase is one session on one tree.
type kase struct {
	Segs       int   `json:"segs"` // 0 = shared bmtpool (8192 segments); >0 = private pool with capacity 1
	ResetFirst bool  `json:"reset_first,omitempty"`
	Prev       *job  `json:"prev,omitempty"` // previous occupant of the tree (separate Get/Put)
	Jobs       []job `json:"jobs"`
}

type ckase struct {
	Procs   int      `json:"gomaxprocs"`
	Workers [][]kase `json:"workers"`
}

func pow2segs(segs int) int {
	c := 2
	for c < segs {
		c *= 2
	}
	return c
}

func (c kase) refSegs() int {
	if c.Segs == 0 {
		return fullSegs
	}
	return pow2segs(c.Segs)
}

func splitmix(x *uint64) uint64 {
	*x += 0x9e3779b97f4a7c15
	z := *x
	z = (z ^ (z >> 30)) * 0xbf58476d1ce4e5b9
	z = (z ^ (z >> 27)) * 0x94d049bb133111eb
	return z ^ (z >> 31)
}

// fill expands (mode, seed) deterministically into n bytes.
func fill(n int, mode string, seed uint64) []byte {
	b := make([]byte, n)
	rnd := func() {
		s := seed
		i := 0
		for ; i+8 <= n; i += 8 {
			binary.LittleEndian.PutUint64(b[i:], splitmix(&s))
		}
		if i < n {
			var t [8]byte
			binary.LittleEndian.PutUint64(t[:], splitmix(&s))
			copy(b[i:], t[:])
		}
	}
	switch mode {
	case "zero":
	case "ff":
		for i := range b {
			b[i] = 0xff
		}
	case "zerotail":
		rnd()
		k := int(seed%131) + 1
		if k > n {
			k = n
		}
		for i := n - k; i < n; i++ {
			b[i] = 0
		}
	case "zerohead":
		if n > 0 {
			b[n-1] = byte(seed) | 1
		}
	default:
		rnd()
		// never let the pseudo-random fill end in a zero byte: keeps "rnd" distinct from "zerotail"
		if n > 0 && b[n-1] == 0 {
			b[n-1] = 0x5a
		}
	}
	return b
}

type pool interface {
	Get() *bmt.Hasher
	Put(*bmt.Hasher)
}

type sharedPool struct{}

func (sharedPool) Get() *bmt.Hasher  { return bmtpool.Get() }
func (sharedPool) Put(h *bmt.Hasher) { bmtpool.Put(h) }

// ---- watchdog and in-flight case -------------------------------------------------

func replayDir() string { return os.Getenv("VERIF_REPLAY_OUT") }

func writeReplay(name string, v interface{}) string {
	d := replayDir()
	if d == "" {
		return ""
	}
	b, err := json.MarshalIndent(v, "", " ")
	if err != nil {
		b = []byte(fmt.Sprintf("%+v", v))
	}
	p := filepath.Join(d, name)
	os.MkdirAll(d, 0o755)
	os.WriteFile(p, b, 0o644)
	return p
}

// watch arms a timer for one Hash call; hitting it is reported as the hasher never returning.
func watch(desc func() interface{}) (stop func()) {
	tm := time.AfterFunc(hangCap, func() {
		v := desc()
		writeReplay("hang.json", v)
		b, _ := json.Marshal(v)
		fmt.Printf("%s\n", evid.Violation(id, "C03/hash-never-returns", fmt.Sprintf("Hash did not return within %s; case=%s", hangCap, b)))
		os.Exit(1)
	})
	return func() { tm.Stop() }
}

// ---- interpretation ----------------------------------------------------------------

func doJob(h *bmt.Hasher, j job, data []byte, ctx interface{}) (got []byte, err error) {
	hdr, herr := hex.DecodeString(j.Header)
	if herr != nil || len(hdr) != 8 {
		return nil, fmt.Errorf("harness: bad header %q", j.Header)
	}
	setHdr := func() {
		if j.HdrMode == "int64-before" || j.HdrMode == "int64-after" {
			h.SetHeaderInt64(int64(binary.LittleEndian.Uint64(hdr)))
		} else {
			h.SetHeader(hdr)
		}
	}
	after := j.HdrMode == "after" || j.HdrMode == "int64-after"
	if !after {
		setHdr()
	}
	from := 0
	offs := append(append([]int{}, j.Cuts...), j.Len)
	for _, to := range offs {
		if to < from || to > j.Len {
			return nil, fmt.Errorf("harness: bad cut list %v for len %d", j.Cuts, j.Len)
		}
		n, werr := h.Write(data[from:to])
		if werr != nil || n != to-from {
			return nil, fmt.Errorf("Write(%d bytes at offset %d) within capacity returned n=%d err=%v", to-from, from, n, werr)
		}
		from = to
		if j.Yield {
			runtime.Gosched()
		}
	}
	if after {
		setHdr()
	}
	stop := watch(func() interface{} { return ctx })
	defer stop()
	if j.UseSum {
		got = h.Sum(nil)
		return got, nil
	}
	return h.Hash(nil)
}

func checkJob(h *bmt.Hasher, j job, segs int, what string, ctx interface{}) (string, error) {
	data := fill(j.Len, j.Fill, j.Seed)
	keep := append([]byte{}, data...)
	got, err := doJob(h, j, data, ctx)
	if err != nil {
		return "C03/hash-error", fmt.Errorf("%s: %v", what, err)
	}
	if !bytes.Equal(data, keep) {
		return "C03/input-modified", fmt.Errorf("%s: the hasher modified the caller's data", what)
	}
	hdr, _ := hex.DecodeString(j.Header)
	want := ref.BMTN(hdr, data, segs)
	if !bytes.Equal(got, want) {
		return "C03/wrong-hash", fmt.Errorf("%s: len=%d segs=%d header=%s fill=%s cuts=%v: got %x want %x", what, j.Len, segs, j.Header, j.Fill, j.Cuts, got, want)
	}
	return "", nil
}

// runSession interprets one kase on pool p.
func runSession(c kase, p pool, ctx interface{}) (sig string, err error) {
	defer func() {
		if x := recover(); x != nil {
			sig, err = "C03/panic", fmt.Errorf("panic in hasher: %v", x)
		}
	}()
	segs := c.refSegs()
	if c.Prev != nil {
		h := p.Get()
		s, e := checkJob(h, *c.Prev, segs, "previous occupant", ctx)
		p.Put(h)
		if e != nil {
			return s, e
		}
	}
	h := p.Get()
	defer p.Put(h)
	if h.Capacity() != segs*32 {
		return "C03/capacity", fmt.Errorf("Capacity()=%d want %d", h.Capacity(), segs*32)
	}
	for k, j := range c.Jobs {
		if k > 0 || c.ResetFirst {
			h.Reset()
		}
		if s, e := checkJob(h, j, segs, fmt.Sprintf("job#%d", k), ctx); e != nil {
			return s, e
		}
	}
	return "", nil
}

func runCase(c kase) (string, error) {
	var p pool = sharedPool{}
	if c.Segs > 0 {
		p = bmt.NewPool(bmt.NewConf(boson.NewHasher, c.Segs, 1))
	}
	return runSession(c, p, c)
}

func runConcurrent(c ckase) (string, error) {
	old := runtime.GOMAXPROCS(c.Procs)
	defer runtime.GOMAXPROCS(old)
	type res struct {
		sig string
		err error
	}
	out := make([]res, len(c.Workers))
	var wg sync.WaitGroup
	start := make(chan struct{})
	for w := range c.Workers {
		wg.Add(1)
		go func(w int) {
			defer wg.Done()
			<-start
			for s, k := range c.Workers[w] {
				if sig, err := runSession(k, sharedPool{}, c); err != nil {
					out[w] = res{sig, fmt.Errorf("worker %d session %d: %v", w, s, err)}
					return
				}
			}
		}(w)
	}
	close(start)
	wg.Wait()
	for _, r := range out {
		if r.err != nil {
			return r.sig, r.err
		}
	}
	return "", nil
}

// ---- generators -------------------------------------------------------------------------

var boundaryFull []int

func init() {
	set := map[int]bool{}
	add := func(v int) {
		if v >= 0 && v <= fullCap {
			set[v] = true
		}
	}
	for _, v := range []int{0, 1, 2, 31, 32, 33, 63, 64, 65, 95, 96, 97, 127, 128, 129} {
		add(v)
	}
	for k := 1; k <= 18; k++ {
		for d := -1; d <= 1; d++ {
			add((1 << uint(k)) + d)
		}
	}
	for _, d := range []int{0, 1, 31, 32, 33, 63, 64, 65, 127, 128, 129} {
		add(fullCap - d)
	}
	for v := range set {
		boundaryFull = append(boundaryFull, v)
	}
	sort.Ints(boundaryFull)
}

// boundaries returns the boundary lengths that fit a tree of capacity cp.
func boundaries(cp int) []int {
	if cp == fullCap {
		return boundaryFull
	}
	set := map[int]bool{}
	for _, v := range boundaryFull {
		if v <= cp {
			set[v] = true
		}
	}
	for _, d := range []int{0, 1, 31, 32, 33, 63, 64, 65} {
		if cp-d >= 0 {
			set[cp-d] = true
		}
	}
	var out []int
	for v := range set {
		out = append(out, v)
	}
	sort.Ints(out)
	return out
}

func genLen(t *rapid.T, cp int, label string) int {
	clamp := func(v int) int {
		if v < 0 {
			return 0
		}
		if v > cp {
			return cp
		}
		return v
	}
	switch rapid.IntRange(0, 9).Draw(t, label+"_kind") {
	case 0, 1:
		return rapid.SampledFrom(boundaries(cp)).Draw(t, label+"_b")
	case 2:
		return clamp(cp - rapid.IntRange(0, 130).Draw(t, label+"_fromcap"))
	case 3, 4:
		return rapid.IntRange(0, cp).Draw(t, label+"_u")
	case 5:
		return clamp(rapid.IntRange(0, 4096).Draw(t, label+"_small"))
	case 6:
		return clamp(64*rapid.IntRange(0, cp/64).Draw(t, label+"_sec") + rapid.IntRange(-2, 2).Draw(t, label+"_d"))
	case 7:
		return clamp((1 << uint(rapid.IntRange(0, 18).Draw(t, label+"_p"))) + rapid.IntRange(-2, 2).Draw(t, label+"_d"))
	case 8:
		return clamp(rapid.IntRange(0, 130).Draw(t, label+"_tiny"))
	default:
		return clamp(32 * rapid.IntRange(0, cp/32).Draw(t, label+"_seg"))
	}
}

func genCuts(t *rapid.T, n int, label string) []int {
	var cuts []int
	switch rapid.IntRange(0, 6).Draw(t, label+"_mode") {
	case 0: // one write
	case 1, 2: // uniform cuts
		k := rapid.IntRange(1, 6).Draw(t, label+"_k")
		for i := 0; i < k; i++ {
			cuts = append(cuts, rapid.IntRange(0, n).Draw(t, label+"_c"))
		}
	case 3: // cuts at section boundaries +-1
		k := rapid.IntRange(1, 8).Draw(t, label+"_k")
		for i := 0; i < k; i++ {
			v := 64*rapid.IntRange(0, n/64).Draw(t, label+"_s") + rapid.IntRange(-1, 1).Draw(t, label+"_d")
			if v < 0 {
				v = 0
			}
			if v > n {
				v = n
			}
			cuts = append(cuts, v)
		}
	case 4: // 1..3-byte writes over a prefix, the rest in one write
		lim := n
		if lim > 300 {
			lim = 300
		}
		start := 0
		if n > 300 && rapid.Bool().Draw(t, label+"_tinyatend") {
			start = n - 300
		}
		for off := start; off < start+lim; {
			off += rapid.IntRange(1, 3).Draw(t, label+"_w")
			if off < n {
				cuts = append(cuts, off)
			}
		}
	case 5: // zero-length writes: duplicates, 0 and n
		k := rapid.IntRange(1, 4).Draw(t, label+"_k")
		for i := 0; i < k; i++ {
			v := rapid.IntRange(0, n).Draw(t, label+"_c")
			cuts = append(cuts, v, v)
		}
		cuts = append(cuts, 0, n)
	default: // whole sections
		step := 64 * rapid.IntRange(1, 64).Draw(t, label+"_step")
		for off := step; off < n && len(cuts) < 64; off += step {
			cuts = append(cuts, off)
		}
	}
	sort.Ints(cuts)
	return cuts
}

func genJob(t *rapid.T, cp int, minLen int, label string, nonzero bool) job {
	var j job
	j.Len = genLen(t, cp, label)
	if j.Len < minLen {
		j.Len = minLen
	}
	if nonzero {
		j.Fill = rapid.SampledFrom([]string{"rnd", "ff"}).Draw(t, label+"_fill")
	} else {
		j.Fill = rapid.SampledFrom([]string{"rnd", "rnd", "rnd", "ff", "zero", "zerotail", "zerohead"}).Draw(t, label+"_fill")
	}
	j.Seed = rapid.Uint64().Draw(t, label+"_seed")
	var hdr []byte
	switch rapid.IntRange(0, 3).Draw(t, label+"_hk") {
	case 0:
		hdr = ref.Span(uint64(j.Len))
	case 1:
		hdr = make([]byte, 8)
	default:
		hdr = rapid.SliceOfN(rapid.Byte(), 8, 8).Draw(t, label+"_hdr")
	}
	j.Header = hex.EncodeToString(hdr)
	j.HdrMode = rapid.SampledFrom([]string{"before", "before", "after", "int64-before", "int64-after"}).Draw(t, label+"_hm")
	j.Cuts = genCuts(t, j.Len, label)
	j.UseSum = rapid.IntRange(0, 3).Draw(t, label+"_sum") == 0
	j.Yield = rapid.IntRange(0, 3).Draw(t, label+"_yield") == 0
	return j
}

func genSession(t *rapid.T, label string, sharedOnly bool, allowPrev bool) kase {
	var c kase
	if !sharedOnly && rapid.IntRange(0, 2).Draw(t, label+"_private") == 0 {
		c.Segs = rapid.SampledFrom([]int{1, 2, 3, 4, 5, 8, 9, 16, 17, 32, 64, 65, 128, 256, 1024}).Draw(t, label+"_segs")
	}
	cp := c.refSegs() * 32
	c.ResetFirst = rapid.Bool().Draw(t, label+"_resetfirst")
	nj := rapid.SampledFrom([]int{1, 1, 2, 2, 3}).Draw(t, label+"_njobs")
	for k := 0; k < nj; k++ {
		c.Jobs = append(c.Jobs, genJob(t, cp, 0, fmt.Sprintf("%s_j%d", label, k), false))
	}
	if allowPrev && c.Jobs[0].Len < cp && rapid.IntRange(0, 2).Draw(t, label+"_hasprev") != 0 {
		p := genJob(t, cp, c.Jobs[0].Len+1, label+"_prev", true)
		c.Prev = &p
	}
	return c
}

// ---- evidence -------------------------------------------------------------------------------

func lenClass(n, cp int) string {
	switch {
	case n == 0:
		return "len=0"
	case n == cp:
		return "len=capacity"
	case n%64 == 0:
		return "len%64==0"
	case n%32 == 0:
		return "len%64==32"
	default:
		return "len-unaligned"
	}
}

func recordSession(r *evid.Rec, c kase, extra ...string) {
	cp := c.refSegs() * 32
	nt := c.Prev != nil || len(c.Jobs) > 1
	cls := append([]string{}, extra...)
	if c.Segs == 0 {
		cls = append(cls, "tree=shared-8192")
	} else {
		cls = append(cls, "tree=private-small")
	}
	if c.Prev != nil {
		cls = append(cls, "stale-longer-previous-occupant")
	}
	if len(c.Jobs) > 1 {
		cls = append(cls, "reset-and-rehash")
		for k := 1; k < len(c.Jobs); k++ {
			if c.Jobs[k].Len < c.Jobs[k-1].Len {
				cls = append(cls, "rehash-shorter-than-before")
				break
			}
		}
	}
	for _, j := range c.Jobs {
		if j.Len%64 != 0 || len(j.Cuts) > 0 {
			nt = true
		}
		cls = append(cls, "job:"+lenClass(j.Len, cp), "job:fill="+j.Fill, "job:hdr="+j.HdrMode)
		if len(j.Cuts) > 0 {
			cls = append(cls, "job:multi-write")
			for i, v := range j.Cuts {
				if (i > 0 && v == j.Cuts[i-1]) || v == 0 || v == j.Len {
					cls = append(cls, "job:zero-length-write")
					break
				}
			}
		} else {
			cls = append(cls, "job:single-write")
		}
		if j.UseSum {
			cls = append(cls, "job:Sum")
		}
		if j.Len > cp/2 {
			cls = append(cls, "job:len>half-capacity")
		}
	}
	r.Case(evid.Hash64(c), nt, cls...)
}

// ---- tests -------------------------------------------------------------------------------------

func holdShared(n int) (release func()) {
	var held []*bmt.Hasher
	for i := 0; i < n; i++ {
		held = append(held, bmtpool.Get())
	}
	return func() {
		for _, h := range held {
			bmtpool.Put(h)
		}
	}
}

func sequential(t *testing.T, base int) {
	r := evid.Get(id)
	evid.Finish(t, r)
	r.SetRule(ruleText)
	// 31 of the 32 pooled trees are held (as 31 busy users would): the one left circulates, so a
	// case's "previous occupant" really is the previous occupant of the tree the case gets.
	release := holdShared(bmtpool.Capacity - 1)
	defer release()
	evid.Checks(base)
	rapid.Check(t, func(t *rapid.T) {
		c := genSession(t, "s", false, true)
		writeReplay("inflight-sequential.json", c)
		if sig, err := runCase(c); err != nil {
			t.Fatalf("%s", evid.Violation(id, sig, fmt.Sprintf("%v case=%s", err, mustJSON(c))))
		}
		recordSession(r, c, "mode=sequential")
		r.Sample(c)
	})
	os.Remove(filepath.Join(replayDir(), "inflight-sequential.json"))
}

func mustJSON(v interface{}) string {
	b, err := json.Marshal(v)
	if err != nil {
		return fmt.Sprintf("%+v", v)
	}
	return string(b)
}

func TestC03_Sequential(t *testing.T)      { sequential(t, 400) }
func TestC03_Sequential_Race(t *testing.T) { sequential(t, 25) }

func concurrent(t *testing.T, base int) {
	r := evid.Get(id)
	evid.Finish(t, r)
	r.SetRule(ruleText)
	evid.Checks(base)
	rapid.Check(t, func(t *rapid.T) {
		var c ckase
		c.Procs = rapid.SampledFrom([]int{1, 2, 4, 16}).Draw(t, "procs")
		g := rapid.OneOf(rapid.IntRange(2, 48), rapid.IntRange(33, 48)).Draw(t, "goroutines")
		for w := 0; w < g; w++ {
			ns := rapid.SampledFrom([]int{1, 1, 2, 3}).Draw(t, fmt.Sprintf("w%d_sessions", w))
			var ss []kase
			for s := 0; s < ns; s++ {
				ss = append(ss, genSession(t, fmt.Sprintf("w%d_s%d", w, s), true, false))
			}
			c.Workers = append(c.Workers, ss)
		}
		writeReplay("inflight-concurrent.json", c)
		if sig, err := runConcurrent(c); err != nil {
			writeReplay("concurrent-failure.json", c)
			t.Fatalf("%s", evid.Violation(id, sig, fmt.Sprintf("%v case=%s", err, mustJSON(c))))
		}
		over := "goroutines<=pool"
		if g > bmtpool.Capacity {
			over = "goroutines>pool-capacity"
		}
		for _, ss := range c.Workers {
			for _, s := range ss {
				recordSession(r, s, "mode=concurrent", fmt.Sprintf("gomaxprocs=%d", c.Procs), over)
			}
		}
		r.ClassN("concurrent-cases", 1)
	})
	os.Remove(filepath.Join(replayDir(), "inflight-concurrent.json"))
}

func TestC03_Concurrent(t *testing.T)      { concurrent(t, 15) }
func TestC03_Concurrent_Race(t *testing.T) { concurrent(t, 2) }

// sweepHasher hashes data[:n] for each n in lens on ONE hasher (Reset in between), with the given split rule.
func sweepHasher(t *testing.T, r *evid.Rec, h *bmt.Hasher, segsCfg int, data []byte, lens []int, variant string, split func(n int) []int) {
	segs := fullSegs
	if segsCfg > 0 {
		segs = pow2segs(segsCfg)
	}
	for i, n := range lens {
		j := job{Len: n, Fill: "sweep", Header: hex.EncodeToString(ref.Span(uint64(n) * 0x0101010101)), HdrMode: "before", Cuts: split(n)}
		ctx := map[string]interface{}{"sweep": variant, "segs": segsCfg, "job": j}
		h.Reset()
		got, err := doJob(h, j, data[:n], ctx)
		if err != nil {
			t.Fatalf("%s", evid.Violation(id, "C03/hash-error", fmt.Sprintf("sweep %s segs=%d len=%d: %v", variant, segsCfg, n, err)))
		}
		hdr, _ := hex.DecodeString(j.Header)
		if want := ref.BMTN(hdr, data[:n], segs); !bytes.Equal(got, want) {
			prev := -1
			if i > 0 {
				prev = lens[i-1]
			}
			writeReplay("sweep-failure.json", ctx)
			t.Fatalf("%s", evid.Violation(id, "C03/wrong-hash", fmt.Sprintf("sweep %s segs=%d len=%d cuts=%v (previous length on this hasher %d): got %x want %x", variant, segsCfg, n, j.Cuts, prev, got, want)))
		}
		cls := []string{"mode=sweep", "sweep:" + variant, "job:" + lenClass(n, segs*32)}
		if segsCfg > 0 {
			cls = append(cls, "tree=private-small")
		} else {
			cls = append(cls, "tree=shared-8192")
		}
		r.Case(evid.Hash64("sweep", variant, segsCfg, n), i > 0 || n%64 != 0 || len(j.Cuts) > 0, cls...)
	}
}

func smallTrees(t *testing.T, counts []int) {
	r := evid.Get(id)
	evid.Finish(t, r)
	r.SetRule(ruleText)
	for _, segs := range counts {
		cp := pow2segs(segs) * 32
		p := bmt.NewPool(bmt.NewConf(boson.NewHasher, segs, 1))
		h := p.Get()
		data := fill(cp, "rnd", uint64(segs)*7919)
		for i := range data { // no zero bytes: a stale byte can never be mistaken for padding
			if data[i] == 0 {
				data[i] = 0xa7
			}
		}
		var desc, asc []int
		for n := cp; n >= 0; n-- {
			desc = append(desc, n)
			asc = append(asc, cp-n)
		}
		sweepHasher(t, r, h, segs, data, desc, "descending/one-write", func(n int) []int { return nil })
		sweepHasher(t, r, h, segs, data, asc, "ascending/split-in-two", func(n int) []int { return []int{n / 2} })
		sweepHasher(t, r, h, segs, data, desc, "descending/three-writes-at-section-edge", func(n int) []int {
			a := (n / 64) * 64
			b := a - 1
			if b < 0 {
				b = 0
			}
			return []int{b, a}
		})
		p.Put(h)
	}
	r.Exhaustive()
}

func TestC03_SmallTreesEveryLength(t *testing.T) {
	smallTrees(t, []int{1, 2, 3, 4, 5, 8, 16, 17, 32, 64, 128})
}
func TestC03_SmallTreesEveryLength_Race(t *testing.T) { smallTrees(t, []int{1, 2, 4, 5, 8, 16, 32}) }

const thoroughShards = 8 // must equal thorough.shards in checks.d/C03.json

// Full-size pooled tree: boundary neighbourhoods in quick; in thorough every length of this shard's residue class.
func TestC03_FullTreeLengthSweep(t *testing.T) {
	r := evid.Get(id)
	evid.Finish(t, r)
	r.SetRule(ruleText)
	h := bmtpool.Get()
	defer bmtpool.Put(h)
	data := fill(fullCap, "rnd", 424242)
	for i := range data {
		if data[i] == 0 {
			data[i] = 0xa7
		}
	}
	set := map[int]bool{}
	for n := 0; n <= 200; n++ {
		set[n] = true
		set[fullCap-n] = true
	}
	for _, b := range boundaryFull {
		for d := -2; d <= 2; d++ {
			if b+d >= 0 && b+d <= fullCap {
				set[b+d] = true
			}
		}
	}
	variant := "full-tree/boundaries/descending"
	if evid.Thorough() {
		shard := 0
		fmt.Sscanf(os.Getenv("VERIF_SHARD"), "%d", &shard)
		shard %= thoroughShards
		for n := shard; n <= fullCap; n += thoroughShards {
			set[n] = true
		}
		variant = "full-tree/every-length-of-residue-class/descending"
		r.Note(fmt.Sprintf("full-size tree: every length n with n %% %d == %d in [0,%d] hashed with one write on a reused hasher (descending)", thoroughShards, shard, fullCap))
	}
	var lens []int
	for n := range set {
		lens = append(lens, n)
	}
	sort.Sort(sort.Reverse(sort.IntSlice(lens)))
	sweepHasher(t, r, h, 0, data, lens, variant, func(n int) []int { return nil })
}
