package c17

import (
	"fmt"
	"strings"
	"testing"

	"github.com/gauss-project/aurorafs/pkg/boson"
	"pgregory.net/rapid"
	"verifharness/internal/evid"
	"verifharness/internal/nlhist"
	"verifharness/internal/nodelite"
)

const id = "C17"

// "touch": local reads under the file context of a partly downloaded file, the way the
// download handler reads it (manifest and intermediate chunks are local, data chunks may be missing)
var kinds = []string{"upload", "fetch", "fetch", "fetch", "fetch", "touch", "touch", "read", "delete", "delete", "restart", "restart", "stray", "discover", "discover"}

const sigBit0 = "C17/non-data-chunk-read-sets-bit-0"

type stats struct {
	nt      bool
	classes map[string]bool
}

func bit(b []byte, i int) bool { return i/8 < len(b) && b[i/8]&(1<<uint(i%8)) != 0 }

// check compares the node's own availability record of every file with the local store.
func check(w *nlhist.World, step int, op nlhist.Op, st *stats) (string, error) {
	stored, err := w.N.Stored()
	if err != nil {
		return "C17/harness", err
	}
	self := w.N.Addr.String()
	for _, f := range w.Files {
		for _, ov := range w.N.CI.GetChunkInfoServerOverlays(f.Ref) {
			if ov.Overlay != self {
				continue
			}
			all := true
			for i, d := range f.Distinct {
				_, have := stored[d]
				all = all && have
				if i < ov.Bit.Len && bit(ov.Bit.B, i) && !have {
					sg := "C17/bit-set-for-missing-chunk"
					return sg, fmt.Errorf("after step %d %+v: file %d availability bit %d (data chunk %s) is set but that chunk is not in the local store (bits %x len %d)", step, op, f.Idx, i, d[:8], ov.Bit.B, ov.Bit.Len)
				}
			}
			if ov.Bit.Len != len(f.Distinct) {
				return "C17/vector-length", fmt.Errorf("after step %d: file %d availability vector has length %d, the file has %d distinct data chunks", step, f.Idx, ov.Bit.Len, len(f.Distinct))
			}
			full := true
			for i := 0; i < ov.Bit.Len; i++ {
				full = full && bit(ov.Bit.B, i)
			}
			if full && !all {
				return "C17/reported-complete-but-chunks-missing", fmt.Errorf("after step %d: file %d is recorded as fully downloaded but data chunks are missing", step, f.Idx)
			}
			if !full {
				st.classes["partial-vector-checked"] = true
			}
		}
	}
	// the same record as listed per overlay
	infos, roots := w.N.CI.GetFileList(w.N.Addr)
	for k, root := range roots {
		for _, f := range w.Files {
			if !f.Ref.Equal(root) {
				continue
			}
			b, _ := infos[k]["bitvector.b"].([]byte)
			for i, d := range f.Distinct {
				if _, have := stored[d]; bit(b, i) && !have {
					sg := "C17/filelist-bit-set-for-missing-chunk"
					return sg, fmt.Errorf("after step %d: file list bit %d of file %d set but chunk missing", step, i, f.Idx)
				}
			}
		}
	}
	return "", nil
}

// leftovers looks for any record of a deleted file, in memory and persisted.
func leftovers(w *nlhist.World, f *nlhist.File) error {
	if n := len(w.N.CI.GetChunkInfoServerOverlays(f.Ref)); n != 0 {
		return fmt.Errorf("%d availability records remain in memory", n)
	}
	if n := len(w.N.CI.GetChunkInfoDiscoverOverlays(f.Ref)); n != 0 {
		return fmt.Errorf("%d discovery records remain in memory", n)
	}
	src := w.N.CI.GetChunkInfoSource(f.Ref)
	if src.PyramidSource != "" || len(src.ChunkSource) != 0 {
		return fmt.Errorf("source record remains in memory: %+v", src)
	}
	_, roots := w.N.CI.GetFileList(w.N.Addr)
	for _, r := range roots {
		if r.Equal(f.Ref) {
			return fmt.Errorf("file still in the file list")
		}
	}
	var keys []string
	_ = w.N.State.Iterate("", func(k, v []byte) (bool, error) {
		ks := string(k)
		rec := strings.HasPrefix(ks, "chunk-") || strings.HasPrefix(ks, "discover-") || strings.HasPrefix(ks, "sourceChunk-") || strings.HasPrefix(ks, "sourcePyramid-")
		if rec && strings.Contains(ks, f.Ref.String()) {
			keys = append(keys, string(k))
		}
		return false, nil
	})
	if len(keys) != 0 {
		return fmt.Errorf("persisted records remain: %v", keys)
	}
	return nil
}

func run(c nlhist.Case, strict bool) (sig string, err error, st stats) {
	st.classes = map[string]bool{}
	w, e := nlhist.NewWorld(c)
	if e != nil {
		return "C17/harness", e, st
	}
	defer w.Close()
	for i, op := range c.Ops {
		f := w.Files[op.F%len(w.Files)]
		switch op.K {
		case "touch":
			if !f.Known || f.Uploaded {
				continue
			}
			if !f.Complete() {
				if evid.Known(sigBit0) && !strict && !f.Fetched[f.Distinct[0]] {
					evid.Get(id).Excluded(sigBit0)
					continue
				}
				st.nt = true
				st.classes["local-read-of-partly-downloaded-file"] = true
			}
			_, _ = w.N.ReadUnderRoot(f.Ref, f.Entry) // errors (missing data chunks) are expected
			_, _ = w.N.ReadUnderRoot(f.Ref, f.Ref)   // the manifest root read as bytes: a non-data chunk
		case "discover":
			// a peer's chunk-info response about a file the node has a record of arrives: the
			// source node reports that it holds every data chunk
			if !f.Known {
				continue
			}
			vec := make([]byte, (len(f.Distinct)+7)/8)
			for j := range f.Distinct {
				vec[j/8] |= 1 << uint(j%8)
			}
			if e := w.N.DeliverChunkInfoResp(w.S.Addr, f.Ref, vec); e != nil {
				return "C17/harness", fmt.Errorf("step %d deliver chunk-info response: %v", i, e), st
			}
			if len(w.N.CI.GetChunkInfoDiscoverOverlays(f.Ref)) > 0 {
				st.classes["discovery-record-created"] = true
			}
		case "stray":
			// a chunk that is not part of the file is reported for it (a peer can make the node do that)
			if !f.Known {
				continue
			}
			g := w.Files[(op.F+1)%len(w.Files)]
			if g.Distinct[0] == f.Distinct[0] {
				continue
			}
			isOwn := false
			for _, d := range f.Distinct {
				if d == g.Distinct[0] {
					isOwn = true
				}
			}
			if isOwn {
				continue
			}
			if evid.Known(sigBit0) && !strict && !f.Uploaded && !f.Fetched[f.Distinct[0]] {
				evid.Get(id).Excluded(sigBit0)
				continue
			}
			st.classes["foreign-chunk-reported-for-file"] = true
			_ = w.N.CI.OnChunkRetrieved(boson.MustParseHexAddress(g.Distinct[0]), f.Ref, w.S.Addr)
		default:
			if op.K == "fetch" && op.Arg != 0 {
				st.nt = true
				st.classes["partial-download"] = true
			}
			res := w.Apply(op)
			if res.Skipped {
				continue
			}
			if res.Err != nil && (op.K == "upload" || op.K == "fetch" || op.K == "restart" || op.K == "delete") {
				return "C17/op-failed-" + op.K, fmt.Errorf("step %d %+v failed: %v", i, op, res.Err), st
			}
			if op.K == "delete" {
				st.classes["delete"] = true
				if e := leftovers(w, f); e != nil {
					return "C17/record-left-after-delete", fmt.Errorf("step %d delete of file %d: %v", i, f.Idx, e), st
				}
			}
			if op.K == "restart" {
				st.classes["restart"] = true
				for _, g := range w.Files {
					if !g.Known {
						if e := leftovers(w, g); e != nil {
							return "C17/record-back-after-restart", fmt.Errorf("step %d restart: deleted/unknown file %d: %v", i, g.Idx, e), st
						}
					}
				}
			}
		}
		if sg, e := check(w, i, op, &st); e != nil {
			return sg, e, st
		}
	}
	return "", nil, st
}

func TestC17_AvailabilityNeverOverclaims(t *testing.T) {
	r := evid.Get(id)
	evid.Finish(t, r)
	r.SetRule("rapid: node-lite histories over 2-4 files (1-4 data chunks, shared/repeated): uploads, cached downloads of chunk subsets from a source node, local reads of partly downloaded files under the file context (manifest, intermediate and data chunks), chunks of another file reported for a file, a peer's chunk-info response for a known file delivered through the protocol handler (creates a discovery record), HTTP reads, deletes, restarts; oracle after every step: in the node's own availability record (server overlays and file list) bit i set => the i-th distinct data chunk (order recomputed by the harness from the source node) is in the local store, vector length == number of distinct data chunks, all bits set => all data chunks stored; after a delete (and after later restarts) no availability, discovery or source record in memory and no state-store key containing the reference; non-trivial = a partial download, a local read of a partly downloaded file, or (second generator: two files, a download/peer-response/restart/delete backbone with free ops in between) a discovery record created; distinct by hash of the case")
	if evid.Known(sigBit0) {
		wc := nlhist.Case{Files: c2(), Ops: []nlhist.Op{{K: "fetch", F: 0, Arg: 6}, {K: "touch", F: 0}}}
		if sg, err, _ := run(wc, true); err != nil && sg == sigBit0 {
			r.Witness(sigBit0)
		}
	}
	evid.Checks(80)
	rapid.Check(t, func(t *rapid.T) {
		c := nlhist.Gen(t, nlhist.GenOptions{MaxFiles: 4, MaxOps: 16, Kinds: kinds, MaxBlocks: 3})
		sig, err, st := run(c, false)
		if err != nil {
			t.Fatalf("%s", evid.Violation(id, sig, fmt.Sprintf("%v\ncase=%+v", err, c)))
		}
		var cls []string
		for k := range st.classes {
			cls = append(cls, k)
		}
		r.Case(evid.Hash64(c), st.nt, cls...)
		r.Sample(c)
	})
}

// TestC17_DiscoveryDense: two files and few op kinds around a backbone "download, a peer's
// response recorded, restart, delete" whose steps are each kept with probability 3/4 and are
// separated by 0-2 free ops, so that the whole life cycle of a discovery record in one history is
// the common case rather than the rare one.
func TestC17_DiscoveryDense(t *testing.T) {
	r := evid.Get(id)
	evid.Finish(t, r)
	evid.Checks(60)
	rapid.Check(t, func(t *rapid.T) {
		free := nlhist.Gen(t, nlhist.GenOptions{MaxFiles: 2, MaxOps: 12, MaxBlocks: 2,
			Kinds: []string{"fetch", "fetch", "discover", "discover", "restart", "restart", "delete", "upload", "touch"}})
		c := nlhist.Case{Files: free.Files}
		f := rapid.IntRange(0, 1).Draw(t, "f")
		backbone := []nlhist.Op{
			{K: "fetch", F: f, Arg: rapid.SampledFrom([]int{0, 0, 1, 2, 6}).Draw(t, "mask")}, {K: "touch", F: f},
			{K: "discover", F: f}, {K: "fetch", F: f}, {K: "restart"}, {K: "delete", F: f}, {K: "restart"}}
		rest := free.Ops
		for _, b := range backbone {
			n := rapid.IntRange(0, 2).Draw(t, "gap")
			if n > len(rest) {
				n = len(rest)
			}
			c.Ops = append(c.Ops, rest[:n]...)
			rest = rest[n:]
			if rapid.IntRange(0, 3).Draw(t, "keep") != 0 {
				c.Ops = append(c.Ops, b)
			}
		}
		sig, err, st := run(c, false)
		if err != nil {
			t.Fatalf("%s", evid.Violation(id, sig, fmt.Sprintf("%v\ncase=%+v", err, c)))
		}
		cls := []string{"discovery-dense"}
		for k := range st.classes {
			cls = append(cls, k)
		}
		if st.classes["discovery-record-created"] && st.classes["restart"] && st.classes["delete"] {
			cls = append(cls, "discovery-restart-delete")
		}
		r.Case(evid.Hash64("disc", c), st.nt || st.classes["discovery-record-created"], cls...)
		r.Sample(c)
	})
}

// TestC17_SharedChunkDeletes: three files that share a data chunk (one of them contains it twice) are
// downloaded or uploaded, then deleted one after the other; the survivors' records must keep telling
// the truth. Backbone steps kept with probability 3/4, 0-2 free ops in between.
func TestC17_SharedChunkDeletes(t *testing.T) {
	r := evid.Get(id)
	evid.Finish(t, r)
	evid.Checks(50)
	rapid.Check(t, func(t *rapid.T) {
		x := rapid.IntRange(0, 2).Draw(t, "x")
		y := (x + 1) % 3
		files := []nodelite.FileSpec{
			{Tags: []int{x, x}, Tail: rapid.SampledFrom([]int{0, 9}).Draw(t, "tail0")},
			{Tags: []int{x}, Tail: rapid.SampledFrom([]int{9, 4096}).Draw(t, "tail1"), Salt: 1},
			{Tags: []int{y, x}, Tail: rapid.SampledFrom([]int{0, 9}).Draw(t, "tail2")},
		}
		if rapid.Bool().Draw(t, "swap") {
			files[0], files[2] = files[2], files[0]
		}
		c := nlhist.Case{Files: files}
		free := nlhist.Gen(t, nlhist.GenOptions{MaxFiles: 3, MaxOps: 12, MaxBlocks: 2,
			Kinds: []string{"fetch", "touch", "read", "restart", "discover", "stray", "upload"}}).Ops
		get := func(f int) nlhist.Op {
			if rapid.IntRange(0, 3).Draw(t, "how") == 0 {
				return nlhist.Op{K: "upload", F: f}
			}
			return nlhist.Op{K: "fetch", F: f}
		}
		order := rapid.Permutation([]int{0, 1, 2}).Draw(t, "order")
		backbone := []nlhist.Op{get(0), get(1), get(2), {K: "delete", F: order[0]}, {K: "delete", F: order[1]}, {K: "restart"}, {K: "delete", F: order[2]}}
		for _, b := range backbone {
			n := rapid.IntRange(0, 2).Draw(t, "gap")
			if n > len(free) {
				n = len(free)
			}
			c.Ops = append(c.Ops, free[:n]...)
			free = free[n:]
			if rapid.IntRange(0, 3).Draw(t, "keep") != 0 {
				c.Ops = append(c.Ops, b)
			}
		}
		sig, err, st := run(c, false)
		if err != nil {
			t.Fatalf("%s", evid.Violation(id, sig, fmt.Sprintf("%v\ncase=%+v", err, c)))
		}
		cls := []string{"shared-chunk-deletes"}
		for k := range st.classes {
			cls = append(cls, k)
		}
		r.Case(evid.Hash64("shdel", c), st.classes["delete"], cls...)
		r.Sample(c)
	})
}

func c2() []nodelite.FileSpec {
	return []nodelite.FileSpec{{Tags: []int{0, 1}, Tail: 9}, {Tags: []int{2}, Tail: 0}}
}
