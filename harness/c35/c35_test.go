package c35

import (
	"bytes"
	"encoding/base64"
	"encoding/hex"
	"errors"
	"fmt"
	"io"
	"net/http"
	"net/http/httptest"
	"strings"
	"testing"

	"github.com/gauss-project/aurorafs/pkg/auth"
	"github.com/gauss-project/aurorafs/pkg/logging"
	"pgregory.net/rapid"
	"verifharness/internal/evid"
)

const id = "C35"

// sigShort: tokens that base64-decode to fewer bytes than the AES-GCM nonce make
// Enforce / RefreshKey panic instead of returning an error (suspect S20).
const sigShort = "C35/token-shorter-than-nonce-panics"

const nonceSize = 12

// passwordHash is only stored by auth.New; Authorize is not part of this property.
const passwordHash = "$2a$12$mZIODMvjsiS2VdK1xgI1cOTizhGVNoVz2Xn48H8ddFFLzX2B3lD3m"

// encryption keys for "this node" and "another node" (all distinct).
var encKeys = []string{
	"mZIODMvjsiS2VdK1xgI1cOTizhGVNoVz",
	"mZIODMvjsiS2VdK1xgI1cOTizhGVNoVy",
	"",
	"k",
	"пароль-鍵-🔑",
	"a-much-longer-token-encryption-key-0123456789-0123456789-0123456789",
}

var roles = []string{"consumer", "creator", "maintainer", "master", "unknown", "", "Master", "consumer "}

// liveMin: a token issued with at least this many seconds of validity is treated as
// certainly unexpired for the (millisecond) duration of a case; shorter positive expiries
// are "short": they may or may not have expired, so only soundness is asserted on them.
const liveMin = 600

const (
	stLive = iota
	stShort
	stExpired
)

type op struct {
	K    string `json:"k"`              // gen | refresh | tamper | enforce
	A    int    `json:"a,omitempty"`    // authenticator used (0 or 1)
	Role int    `json:"role,omitempty"` // gen: index into roles
	Exp  int    `json:"exp,omitempty"`  // gen/refresh: expiry seconds
	Tok  int    `json:"tok,omitempty"`  // token index (mod population)
	Tok2 int    `json:"tok2,omitempty"` // second token (splice)
	TK   string `json:"tk,omitempty"`   // tamper kind
	Pos  int    `json:"pos,omitempty"`
	Str  string `json:"str,omitempty"`
	// enforce
	Own     bool     `json:"own,omitempty"` // pick the row among the rows of the token's own role
	Row     int      `json:"row,omitempty"`
	Var     int      `json:"var,omitempty"`
	Segs    []string `json:"segs,omitempty"`
	Meth    int      `json:"meth,omitempty"` // 0..2: a method of the row; else a standard method
	Handler bool     `json:"handler,omitempty"`
}

type kase struct {
	KeyA int  `json:"key_a"`
	KeyB int  `json:"key_b"`
	Ops  []op `json:"ops"`
}

type tok struct {
	S      string
	Issuer int // 0/1 = genuine, minted by that authenticator; -1 = forged / altered
	Role   string
	State  int
	Origin string
}

type failure struct {
	Sig string
	Msg string
}

func (f *failure) Error() string { return f.Msg }

func fail(sig, format string, a ...interface{}) *failure {
	return &failure{Sig: sig, Msg: fmt.Sprintf(format, a...)}
}

func stateOf(exp int) int {
	switch {
	case exp < 0:
		return stExpired
	case exp >= liveMin:
		return stLive
	}
	return stShort
}

// shortShape: the token decodes (standard base64) to fewer bytes than the nonce.
func shortShape(s string) bool {
	d, err := base64.StdEncoding.DecodeString(s)
	return err == nil && len(d) < nonceSize
}

func newAuth(key string) (*auth.Authenticator, error) {
	return auth.New(key, passwordHash, logging.New(io.Discard, 0))
}

// guarded calls: a panic of the code under test becomes a value.
func enforce(a *auth.Authenticator, token, path, method string) (ok bool, err error, pan interface{}) {
	defer func() {
		if r := recover(); r != nil {
			pan = r
		}
	}()
	ok, err = a.Enforce(token, path, method)
	return
}

func refresh(a *auth.Authenticator, token string, exp int) (s string, err error, pan interface{}) {
	defer func() {
		if r := recover(); r != nil {
			pan = r
		}
	}()
	s, err = a.RefreshKey(token, exp)
	return
}

// handlerErr maps the HTTP answer to the error outcome of the oracle.
func handlerErr(status int, body string) error {
	switch {
	case status == http.StatusUnauthorized && strings.Contains(body, "Token expired"):
		return fmt.Errorf("http %d: %w", status, auth.ErrTokenExpired)
	case status == http.StatusUnauthorized || status == http.StatusInternalServerError:
		return fmt.Errorf("http %d", status)
	}
	return nil
}

// viaHandlerBody drives the real PermissionCheckHandler. reached = the wrapped handler ran.
// An "error" outcome is a 401/500 answer; a plain denial is 403.
func viaHandlerBody(a *auth.Authenticator, token, path, method string) (reached bool, status int, body string, pan interface{}) {
	defer func() {
		if r := recover(); r != nil {
			pan = r
		}
	}()
	h := auth.PermissionCheckHandler(a)(http.HandlerFunc(func(w http.ResponseWriter, r *http.Request) {
		reached = true
		w.WriteHeader(http.StatusOK)
	}))
	req := httptest.NewRequest(method, "http://node.invalid"+path, nil)
	req.Header.Set("Authorization", "Bearer "+token)
	rr := httptest.NewRecorder()
	h.ServeHTTP(rr, req)
	return reached, rr.Code, rr.Body.String(), nil
}

func headerSafe(s string) bool {
	if s == "" || strings.Contains(s, "Bearer ") {
		return false
	}
	for i := 0; i < len(s); i++ {
		if s[i] < 0x21 || s[i] > 0x7e {
			return false
		}
	}
	return true
}

func short(s string) string {
	if len(s) > 48 {
		return fmt.Sprintf("%q...(%d chars)", s[:48], len(s))
	}
	return fmt.Sprintf("%q", s)
}

// judge applies the oracle to one (token, authenticator, path, method) -> (allowed, err) observation.
func judge(r *evid.Rec, t tok, x int, path, method string, allowed bool, err error, pan interface{}, how string) *failure {
	desc := fmt.Sprintf("%s token=%s (origin %s, role %q, issuer %d, state %d) auth=%d %s %s", how, short(t.S), t.Origin, t.Role, t.Issuer, t.State, x, method, path)
	if pan != nil {
		if shortShape(t.S) {
			return fail(sigShort, "%s: PANIC %v", desc, pan)
		}
		return fail("C35/panic", "%s: PANIC %v", desc, pan)
	}
	switch {
	case t.Issuer < 0:
		if allowed {
			return fail("C35/honoured-forged-token", "%s: altered/forged token honoured", desc)
		}
		if err == nil {
			return fail("C35/malformed-rejected-without-error", "%s: rejected but err == nil", desc)
		}
		r.Class("enf:rejected-forged")
	case t.Issuer != x:
		if allowed {
			return fail("C35/honoured-foreign-key-token", "%s: token minted with another key honoured", desc)
		}
		if err == nil {
			return fail("C35/malformed-rejected-without-error", "%s: foreign-key token rejected but err == nil", desc)
		}
		r.Class("enf:rejected-foreign-key")
	case t.State == stExpired:
		if allowed {
			return fail("C35/honoured-expired-token", "%s: expired token honoured", desc)
		}
		if errors.Is(err, auth.ErrTokenExpired) {
			r.Class("enf:rejected-expired(ErrTokenExpired)")
		} else {
			r.Class("enf:rejected-expired(other)")
		}
	default:
		v := verdict(t.Role, path, method)
		switch {
		case allowed && v < 0:
			return fail("C35/policy-overgrant", "%s: honoured although the policy table has no row for role %q allowing %s %s", desc, t.Role, method, path)
		case allowed && v == 0:
			r.Class("enf:allowed-ambiguous-path(not asserted)")
		case allowed:
			r.Class("enf:allowed")
		case v < 0:
			r.Class("enf:denied-by-policy")
		case v == 0:
			r.Class("enf:denied-ambiguous-path(not asserted)")
		case t.State == stLive:
			r.Class("enf:live-token-denied-though-policy-allows(not asserted)")
		default:
			r.Class("enf:short-token-denied")
		}
	}
	return nil
}

// probes used to compare the permissions of a token and of its refreshed successor.
var probes = [][2]string{
	{"/bytes/0a", "GET"}, {"/bytes", "POST"}, {"/peers", "GET"}, {"/v1/pins/0a", "DELETE"},
	{"/aurora/0a", "GET"}, {"/v1/chunks/0a", "DELETE"}, {"/nosuch", "GET"},
}

type world struct {
	r     *evid.Rec
	auths [2]*auth.Authenticator
	toks  []tok
	flags map[string]bool
}

func (w *world) flag(s string) { w.flags[s] = true }

// classify a derived string: alias of a genuine token (decodes to the same bytes) or forged.
func (w *world) derive(s string, origin string) (tok, bool) {
	d, err := base64.StdEncoding.DecodeString(s)
	if err == nil {
		for _, g := range w.toks {
			if g.Issuer < 0 {
				continue
			}
			gd, gerr := base64.StdEncoding.DecodeString(g.S)
			if gerr == nil && bytes.Equal(gd, d) {
				t := g
				t.S = s
				t.Origin = origin + "=alias"
				return t, true
			}
		}
	}
	return tok{S: s, Issuer: -1, Origin: origin}, false
}

func (w *world) add(t tok) bool {
	if evid.Known(sigShort) && shortShape(t.S) {
		w.r.Excluded(sigShort)
		return false
	}
	w.toks = append(w.toks, t)
	return true
}

var insertChars = []string{"!", "-", "_", "=", "\n", " ", "A", "\x00", "é"}

func (w *world) tamper(o op) {
	t := w.toks[mod(o.Tok, len(w.toks))]
	b, derr := base64.StdEncoding.DecodeString(t.S)
	var s string
	kind := o.TK
	switch kind {
	case "flip":
		if derr != nil || len(b) == 0 {
			return
		}
		c := append([]byte{}, b...)
		p := mod(o.Pos, len(c)*8)
		c[p/8] ^= 1 << uint(p%8)
		s = base64.StdEncoding.EncodeToString(c)
	case "trunc-str":
		if len(t.S) == 0 {
			return
		}
		s = t.S[:mod(o.Pos, len(t.S))]
	case "trunc-bytes":
		if derr != nil || len(b) == 0 {
			return
		}
		s = base64.StdEncoding.EncodeToString(b[:mod(o.Pos, len(b))])
	case "extend-bytes":
		if derr != nil {
			return
		}
		ext := []byte(o.Str)
		if len(ext) == 0 {
			ext = []byte{0}
		}
		s = base64.StdEncoding.EncodeToString(append(append([]byte{}, b...), ext...))
	case "append-str":
		x := o.Str
		if x == "" {
			x = "A"
		}
		s = t.S + x
	case "insert":
		p := mod(o.Pos, len(t.S)+1)
		s = t.S[:p] + insertChars[mod(o.Tok2, len(insertChars))] + t.S[p:]
	case "subst":
		if len(t.S) == 0 {
			return
		}
		const alpha = "ABCDEFGHIJKLMNOPQRSTUVWXYZabcdefghijklmnopqrstuvwxyz0123456789+/"
		p := mod(o.Pos, len(t.S))
		c := alpha[mod(o.Tok2, len(alpha))]
		if c == t.S[p] {
			c = alpha[mod(o.Tok2+1, len(alpha))]
		}
		s = t.S[:p] + string(c) + t.S[p+1:]
	case "splice":
		t2 := w.toks[mod(o.Tok2, len(w.toks))]
		b2, e2 := base64.StdEncoding.DecodeString(t2.S)
		if derr != nil || e2 != nil || len(b) < nonceSize || len(b2) < nonceSize {
			return
		}
		s = base64.StdEncoding.EncodeToString(append(append([]byte{}, b[:nonceSize]...), b2[nonceSize:]...))
	case "reencode":
		if derr != nil {
			return
		}
		switch mod(o.Pos, 3) {
		case 0:
			s = base64.RawStdEncoding.EncodeToString(b)
		case 1:
			s = base64.URLEncoding.EncodeToString(b)
		default:
			s = hex.EncodeToString(b)
		}
	case "random-b64":
		s = base64.StdEncoding.EncodeToString([]byte(o.Str))
	default: // random-str
		kind = "random-str"
		s = o.Str
	}
	if s == t.S {
		w.r.Class("tamper:no-change(skipped)")
		return
	}
	nt, alias := w.derive(s, kind+"("+t.Origin+")")
	if w.add(nt) {
		w.r.Class("tamper:" + kind)
		if alias {
			w.r.Class("tamper:alias-of-genuine(same bytes)")
			w.flag("alias")
		} else {
			w.flag("forged")
		}
	}
}

// fragMethods: none of them contains a standard method name (the matcher is an unanchored regular
// expression; tokens that merely contain an allowed method are outside the harness's stated domain).
var fragMethods = []string{"GE", "ET", "G", "E", "T", "", ".", ".*", "G.T", "|", "POS", "OST", "DEL", "ELETE", "PU", "get", "Get", "[A-Z]+", "(", "G|P"}

func validToken(m string) bool {
	if m == "" {
		return false
	}
	for _, c := range m {
		if !(c >= 'A' && c <= 'Z' || c >= 'a' && c <= 'z' || c >= '0' && c <= '9' || c == '-' || c == '.' || c == '|' || c == '*' || c == '+') {
			return false
		}
	}
	return true
}

func mod(a, n int) int {
	if n <= 0 {
		return 0
	}
	a %= n
	if a < 0 {
		a += n
	}
	return a
}

func (w *world) doEnforce(o op) *failure {
	t := w.toks[mod(o.Tok, len(w.toks))]
	x := mod(o.A, 2)
	var ri int
	if own := rowsOfRole(t.Role); o.Own && len(own) > 0 {
		ri = own[mod(o.Row, len(own))]
	} else {
		ri = mod(o.Row, len(policy))
	}
	rw := policy[ri]
	path, pclass := buildPath(rw, o.Var, o.Segs)
	var method string
	if o.Meth >= 0 && o.Meth <= 2 {
		method = rw.Methods[mod(o.Meth, len(rw.Methods))]
	} else if o.Meth >= 100 {
		// a method token that is no standard method and contains none (clients may send any token): it
		// is a fragment of, or a pattern over, the method the row allows
		method = fragMethods[mod(o.Meth, len(fragMethods))]
		w.r.Class("method:fragment-or-pattern-of-an-allowed-method")
	} else {
		method = stdMethods[mod(o.Meth, len(stdMethods))]
	}
	w.r.Class(pclass)
	allowed, err, pan := enforce(w.auths[x], t.S, path, method)
	if f := judge(w.r, t, x, path, method, allowed, err, pan, "Enforce"); f != nil {
		return f
	}
	if allowed {
		w.flag("allowed")
	} else {
		w.flag("denied")
	}
	if t.Issuer >= 0 && t.Issuer != x {
		w.flag("cross-key")
	}
	if t.Issuer >= 0 && t.State == stExpired {
		w.flag("expired")
	}
	if o.Handler && headerSafe(t.S) && validToken(method) {
		reached, status, body, pan := viaHandlerBody(w.auths[x], t.S, path, method)
		herr := handlerErr(status, body)
		if f := judge(w.r, t, x, path, method, reached, herr, pan, "PermissionCheckHandler"); f != nil {
			return f
		}
		if reached && status != http.StatusOK {
			return fail("C35/handler", "handler reached next but status %d", status)
		}
		w.r.Class("via:http-handler")
	}
	return nil
}

func (w *world) doRefresh(o op) *failure {
	t := w.toks[mod(o.Tok, len(w.toks))]
	x := mod(o.A, 2)
	a := w.auths[x]
	desc := fmt.Sprintf("RefreshKey(token=%s (origin %s, role %q, issuer %d, state %d), %d) auth=%d", short(t.S), t.Origin, t.Role, t.Issuer, t.State, o.Exp, x)
	s, err, pan := refresh(a, t.S, o.Exp)
	if pan != nil {
		if shortShape(t.S) {
			return fail(sigShort, "%s: PANIC %v", desc, pan)
		}
		return fail("C35/panic", "%s: PANIC %v", desc, pan)
	}
	if o.Exp == 0 {
		// not part of the property (documented as ErrExpiry); never add a token
		if err != nil {
			w.r.Class("refresh:exp0-rejected")
		} else {
			w.r.Class("refresh:exp0-accepted(not asserted)")
		}
		return nil
	}
	switch {
	case t.Issuer < 0:
		if err == nil {
			return fail("C35/refresh-accepts-forged-token", "%s: returned a token for an altered/forged input", desc)
		}
		w.r.Class("refresh:rejected-forged")
		w.flag("refresh-rejected")
		return nil
	case t.Issuer != x:
		if err == nil {
			return fail("C35/refresh-accepts-foreign-key-token", "%s: returned a token for a token minted with another key", desc)
		}
		w.r.Class("refresh:rejected-foreign-key")
		w.flag("refresh-rejected")
		return nil
	case t.State == stExpired:
		if err == nil {
			return fail("C35/refresh-revives-expired-token", "%s: an expired token was refreshed into %s", desc, short(s))
		}
		if errors.Is(err, auth.ErrTokenExpired) {
			w.r.Class("refresh:rejected-expired(ErrTokenExpired)")
		} else {
			w.r.Class("refresh:rejected-expired(other)")
		}
		w.flag("refresh-rejected")
		return nil
	}
	if err != nil {
		if t.State == stLive {
			w.r.Class("refresh:live-token-refused(not asserted)")
		} else {
			w.r.Class("refresh:short-token-refused")
		}
		return nil
	}
	n := tok{S: s, Issuer: x, Role: t.Role, State: stateOf(o.Exp), Origin: "refresh(" + t.Origin + ")"}
	w.r.Class("refresh:ok")
	w.flag("refresh-ok")
	if s == t.S {
		return fail("C35/refresh", "%s: refreshed token is the same string", desc)
	}
	// "refreshing keeps the role": a live token and its live successor must be treated alike.
	if t.State == stLive && n.State == stLive {
		for _, p := range probes {
			a1, e1, p1 := enforce(a, t.S, p[0], p[1])
			a2, e2, p2 := enforce(a, n.S, p[0], p[1])
			if p1 != nil || p2 != nil {
				return fail("C35/panic", "%s: PANIC probing %v: %v %v", desc, p, p1, p2)
			}
			if a1 != a2 {
				return fail("C35/refresh-changes-role", "%s: %s %s: original allowed=%v (err %v), refreshed allowed=%v (err %v)", desc, p[1], p[0], a1, e1, a2, e2)
			}
			if f := judge(w.r, n, x, p[0], p[1], a2, e2, nil, "Enforce(refreshed)"); f != nil {
				return f
			}
		}
		w.r.Class("refresh:role-compared")
	}
	w.add(n)
	return nil
}

func run(r *evid.Rec, c kase) (f *failure, flags map[string]bool) {
	w := &world{r: r, flags: map[string]bool{}}
	flags = w.flags
	ka, kb := mod(c.KeyA, len(encKeys)), mod(c.KeyB, len(encKeys))
	if ka == kb {
		kb = (ka + 1) % len(encKeys)
	}
	for i, k := range []int{ka, kb} {
		a, err := newAuth(encKeys[k])
		if err != nil {
			return fail("C35/setup", "auth.New(key %q): %v", encKeys[k], err), flags
		}
		w.auths[i] = a
	}
	for i, o := range c.Ops {
		if o.K != "gen" && len(w.toks) == 0 {
			continue
		}
		var f *failure
		switch o.K {
		case "gen":
			x := mod(o.A, 2)
			role := roles[mod(o.Role, len(roles))]
			s, err := w.auths[x].GenerateKey(role, o.Exp)
			if o.Exp == 0 {
				if err == nil {
					r.Class("gen:exp0-accepted(not asserted)")
				} else {
					r.Class("gen:exp0-rejected")
				}
				continue
			}
			if err != nil {
				r.Class("gen:error(not asserted)")
				continue
			}
			r.Class("gen:role=" + role)
			switch stateOf(o.Exp) {
			case stLive:
				r.Class("gen:live")
			case stShort:
				r.Class("gen:short")
			default:
				r.Class("gen:expired")
			}
			w.add(tok{S: s, Issuer: x, Role: role, State: stateOf(o.Exp), Origin: fmt.Sprintf("gen#%d", i)})
		case "refresh":
			f = w.doRefresh(o)
		case "tamper":
			w.tamper(o)
		case "enforce":
			f = w.doEnforce(o)
		}
		if f != nil {
			f.Msg = fmt.Sprintf("op#%d: %s", i, f.Msg)
			return f, flags
		}
	}
	return nil, flags
}

// ---- generator -------------------------------------------------------------

var tamperKinds = []string{"flip", "flip", "trunc-str", "trunc-str", "trunc-bytes", "extend-bytes", "append-str",
	"insert", "subst", "splice", "reencode", "random-b64", "random-str"}

func genExp(t *rapid.T) int {
	return rapid.OneOf(
		rapid.IntRange(-3600, -1),
		rapid.SampledFrom([]int{-1, -2, 1, 2, 599, 600}),
		rapid.IntRange(1, 599),
		rapid.IntRange(600, 1000000),
		rapid.IntRange(600, 1000000),
		rapid.IntRange(3600, 86400),
		rapid.SampledFrom([]int{0, 1000000, 1000000000}),
	).Draw(t, "exp")
}

func genSeg(t *rapid.T) string {
	if rapid.IntRange(0, 3).Draw(t, "segkind") == 0 {
		return rapid.SampledFrom([]string{"a", "index.html", "x.y", "0", "A-b_c~d", "peers", "v1"}).Draw(t, "segname")
	}
	return hex.EncodeToString(rapid.SliceOfN(rapid.Byte(), 1, 32).Draw(t, "seghex"))
}

func genOp(t *rapid.T, kind string) op {
	o := op{K: kind}
	switch kind {
	case "gen":
		if rapid.IntRange(0, 4).Draw(t, "a") == 0 {
			o.A = 1
		}
		o.Role = rapid.OneOf(rapid.IntRange(0, 3), rapid.IntRange(0, len(roles)-1)).Draw(t, "role")
		o.Exp = genExp(t)
	case "refresh":
		o.Tok = rapid.IntRange(0, 15).Draw(t, "tok")
		if rapid.IntRange(0, 5).Draw(t, "a") == 0 {
			o.A = 1
		}
		o.Exp = genExp(t)
	case "tamper":
		o.Tok = rapid.IntRange(0, 15).Draw(t, "tok")
		o.TK = rapid.SampledFrom(tamperKinds).Draw(t, "tk")
		switch o.TK {
		case "flip":
			o.Pos = rapid.IntRange(0, 1023).Draw(t, "pos")
		case "trunc-str", "trunc-bytes":
			o.Pos = rapid.OneOf(rapid.IntRange(0, 40), rapid.IntRange(12, 255), rapid.IntRange(12, 255)).Draw(t, "pos")
		case "insert":
			o.Pos = rapid.IntRange(0, 255).Draw(t, "pos")
			o.Tok2 = rapid.IntRange(0, len(insertChars)-1).Draw(t, "ch")
		case "subst":
			o.Pos = rapid.IntRange(0, 255).Draw(t, "pos")
			o.Tok2 = rapid.IntRange(0, 63).Draw(t, "ch")
		case "splice":
			o.Tok2 = rapid.IntRange(0, 15).Draw(t, "tok2")
		case "reencode":
			o.Pos = rapid.IntRange(0, 2).Draw(t, "enc")
		case "extend-bytes", "append-str":
			o.Str = rapid.StringN(1, 8, 16).Draw(t, "str")
		case "random-b64":
			o.Str = string(rapid.OneOf(rapid.SliceOfN(rapid.Byte(), 0, 11), rapid.SliceOfN(rapid.Byte(), 12, 27), rapid.SliceOfN(rapid.Byte(), 28, 90), rapid.SliceOfN(rapid.Byte(), 28, 90)).Draw(t, "raw"))
		case "random-str":
			o.Str = rapid.OneOf(rapid.StringN(0, 40, 120), rapid.StringOfN(rapid.RuneFrom([]rune("ABCDabcd0189+/=")), 0, 100, -1)).Draw(t, "str")
		}
	case "enforce":
		o.Tok = rapid.IntRange(0, 15).Draw(t, "tok")
		if rapid.IntRange(0, 5).Draw(t, "a") == 0 {
			o.A = 1
		}
		o.Own = rapid.IntRange(0, 2).Draw(t, "own") > 0
		o.Row = rapid.IntRange(0, len(policy)-1).Draw(t, "row")
		o.Var = rapid.IntRange(0, 9).Draw(t, "var")
		o.Segs = []string{genSeg(t), genSeg(t)}
		o.Meth = rapid.OneOf(rapid.IntRange(0, 2), rapid.IntRange(3, 2+len(stdMethods)), rapid.IntRange(100, 99+len(fragMethods))).Draw(t, "meth")
		o.Handler = rapid.IntRange(0, 2).Draw(t, "handler") == 0
	}
	return o
}

func genCase(t *rapid.T) kase {
	var c kase
	c.KeyA = rapid.IntRange(0, len(encKeys)-1).Draw(t, "keyA")
	c.KeyB = rapid.IntRange(0, len(encKeys)-1).Draw(t, "keyB")
	ngen := rapid.IntRange(1, 3).Draw(t, "ngen")
	for i := 0; i < ngen; i++ {
		c.Ops = append(c.Ops, genOp(t, "gen"))
	}
	n := rapid.IntRange(1, 16).Draw(t, "nops")
	for i := 0; i < n; i++ {
		k := rapid.SampledFrom([]string{"gen", "refresh", "refresh", "tamper", "tamper", "tamper", "enforce", "enforce", "enforce", "enforce", "enforce"}).Draw(t, "kind")
		c.Ops = append(c.Ops, genOp(t, k))
	}
	return c
}

func record(r *evid.Rec, c kase, flags map[string]bool) {
	nt := flags["forged"] || flags["alias"] || flags["expired"] || flags["cross-key"] || flags["denied"] || flags["refresh-rejected"]
	var cls []string
	for _, k := range []string{"forged", "alias", "expired", "cross-key", "denied", "allowed", "refresh-ok", "refresh-rejected"} {
		if flags[k] {
			cls = append(cls, "case:has-"+k)
		}
	}
	r.Case(evid.Hash64(c), nt, cls...)
	r.Sample(c)
}

const rule = "rapid op lists over a token population held by two real Authenticators with different keys: gen(role in {consumer,creator,maintainer,master,unknown,'',Master,'consumer '}, expiry in -3600..-1 | 1..599 | 600..1e6) / refresh(token, expiry, via either authenticator) / tamper(bit flip, string or byte truncation, extension, insertion, substitution, nonce-ciphertext splice, re-encoding, random base64, random string) / enforce(token, path built from a policy row x variant {inside, /v1 inside, parent, child, other resource, sibling, /v2, deeper}, row method, standard method or a non-standard token that is a fragment of / pattern over an allowed method (containing no standard method name), directly and through PermissionCheckHandler). Oracle: provenance model (issuer, role, expired?) + pinned policy table read under two readings of '*' (asserted only where both agree). Non-trivial = the case enforces/refreshes an altered, aliased, expired or foreign-key token, or sees a denied request; distinct by hash of the case. Concurrent variant: 2-4 goroutines x 1-8 requests (Enforce or RefreshKey with live / long-expired tokens of the four roles, 8 paths, 3 methods) repeated 20-100 times against one authenticator; oracle: verdict equals the verdict of the same request asked alone, expired tokens never honoured; non-trivial there = at least two goroutines and two different tokens; also run under the race detector"

func TestC35_Model(t *testing.T) {
	r := evid.Get(id)
	evid.Finish(t, r)
	r.SetRule(rule)
	if evid.Known(sigShort) {
		a, err := newAuth(encKeys[0])
		if err != nil {
			t.Fatal(err)
		}
		_, _, p1 := enforce(a, "AAAA", "/bytes/0a", "GET")
		_, _, p2 := refresh(a, "", 60)
		if p1 != nil || p2 != nil {
			r.Witness(sigShort)
		}
	}
	evid.Checks(6000)
	rapid.Check(t, func(t *rapid.T) {
		c := genCase(t)
		f, flags := run(r, c)
		if f != nil {
			t.Fatalf("%s", evid.Violation(id, f.Sig, fmt.Sprintf("%s case=%+v", f.Msg, c)))
		}
		record(r, c, flags)
	})
}

// TestC35_Sweep enumerates, for one genuine live token per role: every string truncation
// length 0..n-1, every byte truncation length 0..m-1 and every single-bit flip, through
// Enforce, RefreshKey and the HTTP handler; and every policy row x path variant x standard
// method x role for a live token.
func TestC35_Sweep(t *testing.T) {
	r := evid.Get(id)
	evid.Finish(t, r)
	r.SetRule(rule)
	a, err := newAuth(encKeys[0])
	if err != nil {
		t.Fatal(err)
	}
	w := &world{r: r, flags: map[string]bool{}}
	w.auths[0] = a
	w.auths[1], _ = newAuth(encKeys[1])
	check := func(tk tok, path, method string, alsoRefresh bool) {
		if evid.Known(sigShort) && shortShape(tk.S) {
			r.Excluded(sigShort)
			return
		}
		allowed, err, pan := enforce(a, tk.S, path, method)
		f := judge(r, tk, 0, path, method, allowed, err, pan, "Enforce")
		if f == nil && headerSafe(tk.S) {
			reached, status, body, pan := viaHandlerBody(a, tk.S, path, method)
			herr := handlerErr(status, body)
			f = judge(r, tk, 0, path, method, reached, herr, pan, "PermissionCheckHandler")
		}
		if f == nil && alsoRefresh {
			w.toks = []tok{tk}
			f = w.doRefresh(op{K: "refresh", Exp: 3600})
		}
		if f != nil {
			t.Fatalf("%s", evid.Violation(id, f.Sig, f.Msg))
		}
		r.Case(evid.Hash64("sweep", tk.Origin, path, method), tk.Issuer < 0 || !allowed, "sweep")
	}
	for _, role := range []string{"consumer", "master"} {
		s, err := a.GenerateKey(role, 3600)
		if err != nil {
			t.Fatal(err)
		}
		g := tok{S: s, Issuer: 0, Role: role, State: stLive, Origin: "sweep-gen-" + role}
		check(g, "/bytes/0a", "GET", true)
		for k := 0; k < len(s); k++ {
			check(tok{S: s[:k], Issuer: -1, Origin: fmt.Sprintf("%s:trunc-str-%d", role, k)}, "/bytes/0a", "GET", true)
		}
		b, _ := base64.StdEncoding.DecodeString(s)
		for k := 0; k < len(b); k++ {
			check(tok{S: base64.StdEncoding.EncodeToString(b[:k]), Issuer: -1, Origin: fmt.Sprintf("%s:trunc-bytes-%d", role, k)}, "/bytes/0a", "GET", true)
		}
		for p := 0; p < len(b)*8; p++ {
			c := append([]byte{}, b...)
			c[p/8] ^= 1 << uint(p%8)
			check(tok{S: base64.StdEncoding.EncodeToString(c), Issuer: -1, Origin: fmt.Sprintf("%s:flip-%d", role, p)}, "/bytes/0a", "GET", p%8 == 0)
		}
	}
	for _, role := range roles {
		s, err := a.GenerateKey(role, 3600)
		if err != nil {
			t.Fatal(err)
		}
		g := tok{S: s, Issuer: 0, Role: role, State: stLive, Origin: "sweep-policy-" + role}
		for _, rw := range policy {
			for v := 0; v < 10; v++ {
				if v == 1 || v == 2 || v == 4 {
					continue
				}
				path, pclass := buildPath(rw, v, []string{"0a1b", "c.txt"})
				for _, m := range stdMethods {
					r.Class(pclass)
					check(g, path, m, false)
				}
			}
		}
	}
}
