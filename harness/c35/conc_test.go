package c35

import (
	"fmt"
	"sync"
	"testing"

	"pgregory.net/rapid"
	"verifharness/internal/evid"
)

// One Authenticator serves all API requests of a node at once. A request's verdict is a function of
// its own token, path and method (and the clock): generated programs of 2-4 goroutines present
// tokens of different roles, live and long expired, at the same time; every verdict must equal the
// verdict the same authenticator gave for the same request when it was asked alone, and an expired
// token may never be honoured or refreshed. Under the race detector (the _Race variant) unsynchronised
// sharing between requests is reported as well.

type creq struct {
	Tok    int    `json:"tok"`  // index into the token pool
	Path   int    `json:"path"` // index into concPaths
	Method string `json:"method"`
	Refr   bool   `json:"refresh,omitempty"` // RefreshKey instead of Enforce
}

type ccase struct {
	G    [][]creq `json:"goroutines"`
	Reps int      `json:"reps"`
}

var concPaths = []string{"/bytes/0a", "/chunks/ab", "/privatekey", "/keystore", "/pins/ab", "/aurora/ab/x", "/apiPort", "/traffic/cheques"}

type ctoken struct {
	role    string
	expired bool
	s       string
}

func runConc(c ccase) (sig string, err error, overlapped bool) {
	a, e := newAuth(encKeys[0])
	if e != nil {
		return "C35/harness", e, false
	}
	var pool []ctoken
	for _, role := range []string{"consumer", "creator", "maintainer", "master"} {
		for _, exp := range []int{3600, -3600} {
			s, e := a.GenerateKey(role, exp)
			if e != nil {
				return "C35/harness", e, false
			}
			pool = append(pool, ctoken{role, exp < 0, s})
		}
	}
	type key struct {
		tok, path int
		method    string
		refr      bool
	}
	alone := map[key]bool{}
	for _, g := range c.G {
		for _, q := range g {
			k := key{q.Tok % len(pool), q.Path % len(concPaths), q.Method, q.Refr}
			if _, ok := alone[k]; ok {
				continue
			}
			tk := pool[k.tok]
			if q.Refr {
				_, e, pan := refresh(a, tk.s, 3600)
				if pan != nil {
					return "C35/panic", fmt.Errorf("RefreshKey panicked: %v", pan), false
				}
				alone[k] = e == nil
			} else {
				ok, _, pan := enforce(a, tk.s, concPaths[k.path], q.Method)
				if pan != nil {
					return "C35/panic", fmt.Errorf("Enforce panicked: %v", pan), false
				}
				alone[k] = ok
			}
			if alone[k] && tk.expired {
				return "C35/honoured-expired-token", fmt.Errorf("alone: expired %s token honoured (refresh=%v) on %s %s", tk.role, q.Refr, q.Method, concPaths[k.path]), false
			}
		}
	}
	var mu sync.Mutex
	var first error
	var firstSig string
	start := make(chan struct{})
	var wg sync.WaitGroup
	for gi, g := range c.G {
		wg.Add(1)
		go func(gi int, g []creq) {
			defer wg.Done()
			<-start
			for rep := 0; rep < c.Reps; rep++ {
				for qi, q := range g {
					k := key{q.Tok % len(pool), q.Path % len(concPaths), q.Method, q.Refr}
					tk := pool[k.tok]
					var got bool
					var pan interface{}
					if q.Refr {
						var e error
						_, e, pan = refresh(a, tk.s, 3600)
						got = e == nil
					} else {
						got, _, pan = enforce(a, tk.s, concPaths[k.path], q.Method)
					}
					var s string
					var er error
					switch {
					case pan != nil:
						s, er = "C35/panic", fmt.Errorf("goroutine %d request %d panicked: %v", gi, qi, pan)
					case got && tk.expired:
						s, er = "C35/honoured-expired-token", fmt.Errorf("goroutine %d request %d (rep %d): expired %s token honoured (refresh=%v) on %s %s while other requests were in flight", gi, qi, rep, tk.role, q.Refr, q.Method, concPaths[k.path])
					case got != alone[k]:
						s, er = "C35/verdict-depends-on-concurrent-requests", fmt.Errorf("goroutine %d request %d (rep %d): %s token (expired=%v, refresh=%v) on %s %s: verdict %v, alone it was %v", gi, qi, rep, tk.role, tk.expired, q.Refr, q.Method, concPaths[k.path], got, alone[k])
					}
					if er != nil {
						mu.Lock()
						if first == nil {
							first, firstSig = er, s
						}
						mu.Unlock()
						return
					}
				}
			}
		}(gi, g)
	}
	close(start)
	wg.Wait()
	return firstSig, first, len(c.G) > 1
}

func genConc(t *rapid.T) ccase {
	reqGen := rapid.Custom(func(t *rapid.T) creq {
		return creq{Tok: rapid.IntRange(0, 7).Draw(t, "tok"), Path: rapid.IntRange(0, len(concPaths)-1).Draw(t, "path"),
			Method: rapid.SampledFrom([]string{"GET", "GET", "POST", "DELETE"}).Draw(t, "method"),
			Refr:   rapid.IntRange(0, 5).Draw(t, "refresh") == 0}
	})
	g := rapid.SliceOfN(rapid.SliceOfN(reqGen, 1, 8), 2, 4).Draw(t, "goroutines")
	return ccase{G: g, Reps: rapid.SampledFrom([]int{20, 50, 100}).Draw(t, "reps")}
}

func concTest(t *testing.T, checks int) {
	r := evid.Get(id)
	evid.Finish(t, r)
	evid.Checks(checks)
	rapid.Check(t, func(t *rapid.T) {
		c := genConc(t)
		sig, err, overl := runConc(c)
		if err != nil {
			t.Fatalf("%s", evid.Violation(id, sig, fmt.Sprintf("%v case=%+v", err, c)))
		}
		mixed := false
		seen := map[int]bool{}
		for _, g := range c.G {
			for _, q := range g {
				seen[q.Tok%8] = true
			}
		}
		mixed = len(seen) > 1
		r.Case(evid.Hash64("conc", c), overl && mixed, "concurrent-requests-on-one-authenticator")
		r.Sample(c)
	})
}

func TestC35_Concurrent(t *testing.T)      { concTest(t, 60) }
func TestC35_Concurrent_Race(t *testing.T) { concTest(t, 25) }
