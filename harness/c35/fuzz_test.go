package c35

import (
	"crypto/aes"
	"crypto/cipher"
	"crypto/md5"
	"encoding/base64"
	"encoding/hex"
	"encoding/json"
	"fmt"
	"os"
	"path/filepath"
	"sort"
	"testing"
	"time"

	"github.com/gauss-project/aurorafs/pkg/auth"
	"verifharness/internal/evid"
)

// fuzzKey is the fixed token encryption key of the node under fuzzing. Being fixed, tokens
// minted by one fuzz process (coordinator, earlier campaign, committed corpus) stay genuine in
// every worker; the oracle therefore cannot keep a list of "tokens I minted" and uses an
// independent reference reader of the token format instead.
const fuzzKey = "c35-fuzz-node-key"

// refOpen is an independent reader of the documented token format:
// base64( nonce[12] || AES-256-GCM(key = hex(md5(encryptionKey)), nonce, json{"r":role,"e":expiry}) ).
func refOpen(key, token string) (role string, expiry time.Time, ok bool) {
	raw, err := base64.StdEncoding.DecodeString(token)
	if err != nil || len(raw) < nonceSize+16 {
		return "", time.Time{}, false
	}
	sum := md5.Sum([]byte(key))
	blk, err := aes.NewCipher([]byte(hex.EncodeToString(sum[:])))
	if err != nil {
		return "", time.Time{}, false
	}
	gcm, err := cipher.NewGCM(blk)
	if err != nil {
		return "", time.Time{}, false
	}
	pt, err := gcm.Open(nil, raw[:nonceSize], raw[nonceSize:], nil)
	if err != nil {
		return "", time.Time{}, false
	}
	var rec struct {
		R string    `json:"r"`
		E time.Time `json:"e"`
	}
	if json.Unmarshal(pt, &rec) != nil {
		return "", time.Time{}, false
	}
	return rec.R, rec.E, true
}

// refAgrees checks the reference reader against a freshly minted token. If the token format
// was changed on purpose the reference is out of date and the fuzz oracle must not be used.
func refAgrees(a *auth.Authenticator) error {
	s, err := a.GenerateKey("creator", 7200)
	if err != nil {
		return err
	}
	role, exp, ok := refOpen(fuzzKey, s)
	if !ok || role != "creator" || time.Until(exp) < time.Hour || time.Until(exp) > 3*time.Hour {
		return fmt.Errorf("reference reader does not understand a fresh token (ok=%v role=%q exp=%v)", ok, role, exp)
	}
	return nil
}

// fuzzOne judges one arbitrary token string against the reference reader.
// Every conclusion holds for every outcome of the clock: only one-sided bounds are used
// (a token whose sealed expiry lies before the instant taken *before* the call was expired
// when the call looked at its own, later, clock).
func fuzzOne(r *evid.Rec, a *auth.Authenticator, token string, rowSel, variant, methSel uint8) *failure {
	if evid.Known(sigShort) && shortShape(token) {
		r.Excluded(sigShort)
		return nil
	}
	rw := policy[int(rowSel)%len(policy)]
	path, _ := buildPath(rw, int(variant), []string{"0a1b", "c.txt"})
	var method string
	if int(methSel)%4 != 0 {
		method = rw.Methods[int(methSel)%len(rw.Methods)]
	} else {
		method = stdMethods[int(methSel/4)%len(stdMethods)]
	}
	role, expiry, genuine := refOpen(fuzzKey, token)
	before := time.Now()
	allowed, err, pan := enforce(a, token, path, method)
	desc := fmt.Sprintf("Enforce(%s, %s, %s) [reference: genuine=%v role=%q expiry=%v]", short(token), path, method, genuine, role, expiry)
	if pan != nil {
		if shortShape(token) {
			return fail(sigShort, "%s: PANIC %v", desc, pan)
		}
		return fail("C35/panic", "%s: PANIC %v", desc, pan)
	}
	cls := "fuzz:rejected-malformed"
	switch {
	case !genuine:
		if allowed {
			return fail("C35/honoured-forged-token", "%s: honoured a token that is not sealed with this node's key", desc)
		}
		if err == nil {
			return fail("C35/malformed-rejected-without-error", "%s: rejected but err == nil", desc)
		}
	case expiry.Before(before):
		cls = "fuzz:rejected-expired"
		if allowed {
			return fail("C35/honoured-expired-token", "%s: honoured after expiry (checked at >= %v)", desc, before)
		}
	default:
		v := verdict(role, path, method)
		if allowed && v < 0 {
			return fail("C35/policy-overgrant", "%s: honoured although no row of the policy table allows it", desc)
		}
		if allowed {
			cls = "fuzz:genuine-allowed"
		} else {
			cls = "fuzz:genuine-denied"
		}
	}
	// refresh: must fail for anything not genuine or expired; keeps the role otherwise
	s, rerr, pan := refresh(a, token, 7200)
	if pan != nil {
		return fail("C35/panic", "RefreshKey(%s): PANIC %v", short(token), pan)
	}
	switch {
	case !genuine && rerr == nil:
		return fail("C35/refresh-accepts-forged-token", "RefreshKey(%s) returned a token for a string not sealed with this node's key", short(token))
	case genuine && expiry.Before(before) && rerr == nil:
		return fail("C35/refresh-revives-expired-token", "RefreshKey(%s): token expired at %v refreshed at >= %v", short(token), expiry, before)
	case rerr == nil:
		nrole, nexp, nok := refOpen(fuzzKey, s)
		if !nok || nrole != role {
			return fail("C35/refresh-changes-role", "RefreshKey(%s): role %q became %q (readable=%v)", short(token), role, nrole, nok)
		}
		if nexp.Before(before) {
			return fail("C35/refresh", "RefreshKey(%s, 7200): new expiry %v is in the past", short(token), nexp)
		}
	}
	r.Case(evid.Hash64("fuzz", token, path, method), !genuine || !allowed, cls)
	return nil
}

func corpusFiles() []string {
	root := os.Getenv("VERIF_ROOT")
	if root == "" {
		root = "/verif"
	}
	fs, _ := filepath.Glob(filepath.Join(root, "corpus", id, "*"))
	sort.Strings(fs)
	return fs
}

// structural seeds: lengths around the nonce (12) and nonce+tag (28) boundaries, base64 corners.
var structuralSeeds = []string{
	"", "A", "AAAA", "AAAAAAAAAAAAAA==", "AAAAAAAAAAAAAAA=", "AAAAAAAAAAAAAAAA", "AAAAAAAAAAAAAAAAAAAA",
	"AAAAAAAAAAAAAAAAAAAAAAAAAAAAAAAAAAAA", "AAAAAAAAAAAAAAAAAAAAAAAAAAAAAAAAAAAAAA==", "AAAAAAAAAAAAAAAAAAAAAAAAAAAAAAAAAAAAAAAA",
	"====", "A===", "AA==", "AAA=", "AAAA\nAAAAAAAAAAAAAAAAAAAA", "Bearer AAAA", "-_-_-_-_-_-_-_-_-_-_", "not base64 at all!",
	"eyJyIjoibWFzdGVyIiwiZSI6IjIwOTktMDEtMDFUMDA6MDA6MDBaIn0=",
}

func seedTokens(a *auth.Authenticator) []string {
	out := append([]string{}, structuralSeeds...)
	for _, role := range roles {
		for _, exp := range []int{-5, 1000000000} {
			if s, err := a.GenerateKey(role, exp); err == nil {
				out = append(out, s)
			}
		}
	}
	for _, f := range corpusFiles() {
		if b, err := os.ReadFile(f); err == nil {
			out = append(out, string(b))
		}
	}
	return out
}

// TestC35_Corpus runs the fuzz oracle over the committed corpus, the structural seeds and
// freshly minted tokens (and bit-flipped / truncated variants of each) in every tier.
func TestC35_Corpus(t *testing.T) {
	r := evid.Get(id)
	evid.Finish(t, r)
	r.SetRule(rule)
	a, err := newAuth(fuzzKey)
	if err != nil {
		t.Fatal(err)
	}
	if err := refAgrees(a); err != nil {
		t.Skipf("reference token reader out of date, corpus/fuzz oracle not applicable: %v", err)
	}
	// writing the corpus is a maintenance action: C35_WRITE_CORPUS=<dir> go test -run TestC35_Corpus
	if dir := os.Getenv("C35_WRITE_CORPUS"); dir != "" {
		for i, role := range []string{"consumer", "creator", "maintainer", "master", "unknown"} {
			for _, exp := range []int{-5, 1000000000} {
				s, _ := a.GenerateKey(role, exp)
				name := fmt.Sprintf("genuine-%d-%s-exp%d.tok", i, role, exp)
				if err := os.WriteFile(filepath.Join(dir, name), []byte(s), 0o644); err != nil {
					t.Fatal(err)
				}
			}
		}
		for i, s := range structuralSeeds {
			os.WriteFile(filepath.Join(dir, fmt.Sprintf("struct-%02d.tok", i)), []byte(s), 0o644)
		}
	}
	n := 0
	for _, s := range seedTokens(a) {
		variants := []string{s}
		if b, err := base64.StdEncoding.DecodeString(s); err == nil && len(b) > 0 {
			for _, p := range []int{0, 8*nonceSize - 1, 8 * nonceSize, len(b)*8 - 1} {
				if p < len(b)*8 {
					c := append([]byte{}, b...)
					c[p/8] ^= 1 << uint(p%8)
					variants = append(variants, base64.StdEncoding.EncodeToString(c))
				}
			}
			for _, k := range []int{nonceSize - 1, nonceSize, nonceSize + 15, nonceSize + 16, len(b) - 1} {
				if k >= 0 && k < len(b) {
					variants = append(variants, base64.StdEncoding.EncodeToString(b[:k]))
				}
			}
		}
		for _, v := range variants {
			for sel := 0; sel < 12; sel++ {
				if f := fuzzOne(r, a, v, uint8(sel*7), uint8(sel), uint8(sel)); f != nil {
					t.Fatalf("%s", evid.Violation(id, f.Sig, f.Msg))
				}
				n++
			}
		}
	}
	r.ClassN("corpus-evaluations", n)
}

// FuzzC35_Token: native fuzzing of the token string (and of the request selector) against
// the reference reader. Thorough tier only.
func FuzzC35_Token(f *testing.F) {
	r := evid.Get(id)
	a, err := newAuth(fuzzKey)
	if err != nil {
		f.Fatal(err)
	}
	if err := refAgrees(a); err != nil {
		f.Skipf("reference token reader out of date, fuzz oracle not applicable: %v", err)
	}
	for i, s := range seedTokens(a) {
		f.Add(s, uint8(i*5), uint8(i), uint8(i))
	}
	f.Fuzz(func(t *testing.T, token string, rowSel, variant, methSel uint8) {
		if fl := fuzzOne(r, a, token, rowSel, variant, methSel); fl != nil {
			t.Fatalf("%s", evid.Violation(id, fl.Sig, fl.Msg))
		}
	})
}
