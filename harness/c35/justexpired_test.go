package c35

import (
	"fmt"
	"testing"
	"time"

	"verifharness/internal/evid"
)

// TestC35_JustExpired covers the boundary the negative-expiry generator cannot reach: a token in
// the first instants after its expiry. A token with one second of validity is minted for each role;
// the harness waits until Enforce itself reports the token as no longer honoured (an observed
// state, not a clock assumption) and then immediately asks for a refresh, which must fail and must
// not produce a token that is honoured. Repeated a few times because the refresh lands at a
// different sub-second offset each round.
func TestC35_JustExpired(t *testing.T) {
	r := evid.Get(id)
	evid.Finish(t, r)
	a, err := newAuth(encKeys[0])
	if err != nil {
		t.Fatal(err)
	}
	rounds := evid.N(3)
	roles := []string{"consumer", "creator", "maintainer", "master"}
	for round := 0; round < rounds; round++ {
		toks := map[string]string{}
		for _, role := range roles {
			s, err := a.GenerateKey(role, 1)
			if err != nil {
				t.Fatalf("GenerateKey(%s,1): %v", role, err)
			}
			// only tokens that are honoured while valid can be observed to expire
			if ok, _ := a.Enforce(s, "/bytes/0a", "GET"); ok {
				toks[role] = s
			} else {
				r.Class("just-expired:role-not-allowed-on-probe-path(skipped)")
			}
		}
		// stagger the observation so that refreshes land at different offsets after the expiry
		time.Sleep(time.Duration(900+round*37) * time.Millisecond)
		for _, role := range roles {
			tok, have := toks[role]
			if !have {
				continue
			}
			deadline := time.Now().Add(10 * time.Second)
			expired := false
			for time.Now().Before(deadline) {
				ok, _ := a.Enforce(tok, "/bytes/0a", "GET")
				if !ok {
					expired = true
					break
				}
				time.Sleep(time.Millisecond)
			}
			if !expired {
				t.Fatalf("%s", evid.Violation(id, "C35/honoured-expired-token", fmt.Sprintf("token for role %s with 1 s validity is still honoured after 10 s", role)))
			}
			// the token is observed as expired: refreshing must not revive it
			nt, rerr := a.RefreshKey(tok, 600)
			if rerr == nil {
				ok, _ := a.Enforce(nt, "/bytes/0a", "GET")
				t.Fatalf("%s", evid.Violation(id, "C35/refresh-revives-expired-token", fmt.Sprintf("RefreshKey of a token for role %s, right after Enforce reported it expired, returned a new token without error (the new token is honoured: %v)", role, ok)))
			}
			r.Case(evid.Hash64("just-expired", role, round), true, "just-expired-refresh-rejected")
		}
	}
}
