package c35

import "strings"

// row is one line of the documented access policy (role, path pattern, methods).
type row struct {
	Role    string
	Pat     string
	Methods []string
}

// policy is the pinned copy of the documented policy table (pkg/auth/auth.go:applyPolicies),
// restated here as the SPECIFICATION. An intentional policy change needs this table updated.
var policy = []row{
	{"consumer", "/apiPort", []string{"GET"}},
	{"consumer", "/bytes/*", []string{"GET"}},
	{"creator", "/bytes", []string{"POST"}},
	{"consumer", "/chunks/*", []string{"GET"}},
	{"creator", "/chunks", []string{"POST"}},
	{"creator", "/soc/*/*", []string{"POST"}},
	{"consumer", "/aurora", []string{"GET"}},
	{"creator", "/aurora", []string{"POST"}},
	{"consumer", "/aurora/*", []string{"GET"}},
	{"creator", "/aurora/*", []string{"DELETE"}},
	{"consumer", "/aurora/*/*", []string{"GET"}},
	{"consumer", "/manifest/*", []string{"GET"}},
	{"consumer", "/manifest/*/*", []string{"GET"}},
	{"creator", "/pins/*", []string{"GET", "DELETE", "POST"}},
	{"consumer", "/group/peers/*", []string{"GET"}},
	{"consumer", "/group/multicast/*", []string{"POST"}},
	{"consumer", "/group/send/*/*", []string{"POST"}},
	{"consumer", "/group/notify/*/*", []string{"POST"}},
	{"consumer", "/group/join/*", []string{"DELETE", "POST"}},
	{"consumer", "/group/observe/*", []string{"DELETE", "POST"}},
	{"maintainer", "/pins", []string{"GET"}},
	// debug api
	{"maintainer", "/addresses", []string{"GET"}},
	{"maintainer", "/pingpong/*", []string{"POST"}},
	{"maintainer", "/connect/*", []string{"POST"}},
	{"maintainer", "/peers", []string{"GET"}},
	{"maintainer", "/peers/*", []string{"DELETE"}},
	{"maintainer", "/blocklist", []string{"GET"}},
	{"maintainer", "/blocklist/*", []string{"DELETE", "POST"}},
	{"maintainer", "/chunks/*", []string{"GET", "DELETE"}},
	{"maintainer", "/topology", []string{"GET"}},
	{"maintainer", "/route/*", []string{"GET", "DELETE", "POST"}},
	{"maintainer", "/route/findunderlay/*", []string{"GET"}},
	{"maintainer", "/welcome-message", []string{"GET", "POST"}},
	{"maintainer", "/chunk/discover/*", []string{"GET"}},
	{"maintainer", "/chunk/server/*", []string{"GET"}},
	{"maintainer", "/chunk/init/*", []string{"GET"}},
	{"maintainer", "/chunk/source/*", []string{"GET"}},
	{"maintainer", "/aco/*", []string{"GET"}},
	{"maintainer", "/keystore", []string{"GET", "POST"}},
	{"maintainer", "/privatekey", []string{"GET"}},
	{"maintainer", "/transaction", []string{"POST"}},
	// multicast
	{"maintainer", "/topology/group", []string{"GET"}},
}

// stdMethods are the only method names generated. None is a substring of another, so an
// anchored and an unanchored reading of the method expression agree on them.
var stdMethods = []string{"GET", "POST", "PUT", "DELETE", "PATCH", "HEAD", "OPTIONS"}

// matchPrefix: reading A of a pattern: everything up to the first '*' is a literal prefix
// (and a path that is exactly that prefix also matches); no '*' means equality.
func matchPrefix(path, pat string) bool {
	i := strings.Index(pat, "*")
	if i < 0 {
		return path == pat
	}
	if len(path) > i {
		return path[:i] == pat[:i]
	}
	return path == pat[:i]
}

// matchGlob: reading B: '*' stands for exactly one non-empty path segment.
func matchGlob(path, pat string) bool {
	ps := strings.Split(pat, "/")
	xs := strings.Split(path, "/")
	if len(ps) != len(xs) {
		return false
	}
	for i := range ps {
		if ps[i] == "*" {
			if xs[i] == "" {
				return false
			}
			continue
		}
		if ps[i] != xs[i] {
			return false
		}
	}
	return true
}

func hasMethod(r row, m string) bool {
	for _, x := range r.Methods {
		if x == m {
			return true
		}
	}
	return false
}

// specAllows evaluates the policy table for (role, path, method) under one reading of '*'.
// Routes are served at <path> and at /v1<path>; "master" is allowed exactly where some role is.
func specAllows(match func(path, pat string) bool, role, path, method string) bool {
	for _, r := range policy {
		if role != r.Role && role != "master" {
			continue
		}
		if !hasMethod(r, method) {
			continue
		}
		if match(path, r.Pat) || match(path, "/v1"+r.Pat) {
			return true
		}
	}
	return false
}

// verdict: +1 both readings allow, -1 both deny, 0 the readings disagree (never asserted).
func verdict(role, path, method string) int {
	a := specAllows(matchPrefix, role, path, method)
	b := specAllows(matchGlob, role, path, method)
	switch {
	case a && b:
		return 1
	case !a && !b:
		return -1
	}
	return 0
}

func rowsOfRole(role string) []int {
	var out []int
	for i, r := range policy {
		if r.Role == role {
			out = append(out, i)
		}
	}
	return out
}

// buildPath constructs a request path from a policy row, a variant and segment fillers.
// The variant name is returned as a class label.
func buildPath(r row, variant int, segs []string) (string, string) {
	seg := func(i int) string {
		if len(segs) == 0 {
			return "0a"
		}
		s := segs[i%len(segs)]
		if s == "" {
			return "0a"
		}
		return s
	}
	k := 0
	inside := ""
	for _, c := range r.Pat {
		if c == '*' {
			inside += seg(k)
			k++
		} else {
			inside += string(c)
		}
	}
	star := strings.Index(r.Pat, "/*")
	switch variant % 10 {
	case 0, 1, 2:
		return inside, "path:inside"
	case 3, 4:
		return "/v1" + inside, "path:inside-v1"
	case 5:
		if star >= 0 {
			return r.Pat[:star], "path:parent-of-wildcard"
		}
		return r.Pat + "/" + seg(0), "path:child-of-exact"
	case 6:
		return "/" + seg(0) + "-nosuch", "path:other-resource"
	case 7:
		if star >= 0 {
			return r.Pat[:star] + "x/" + seg(0), "path:sibling-name"
		}
		return r.Pat + "x", "path:sibling-name"
	case 8:
		return "/v2" + inside, "path:wrong-version-prefix"
	default:
		return inside + "/" + seg(1), "path:deeper"
	}
}
