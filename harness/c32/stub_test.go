package c32

import (
	"context"
	"fmt"
	"math/big"
	"sync"

	"github.com/gauss-project/aurorafs/pkg/boson"
	"github.com/gauss-project/aurorafs/pkg/settlement"
)

// stub is the settlement side seen by accounting.Accounting. It is a plain
// book-keeper: it never fails, records every call and keeps its own totals the
// way the real traffic service does (retrieved = initial + credited amounts,
// unsettled served traffic = transferred - settled by the peer).
type stub struct {
	mu        sync.Mutex
	avail     *big.Int
	tolerance *big.Int

	retrieve  map[string]*big.Int // what RetrieveTraffic answers (initial + PutRetrieveTraffic amounts)
	transfer  map[string]*big.Int // Σ PutTransferTraffic + initial unsettled
	settled   map[string]*big.Int // what the peer has paid us for
	putRetN   map[string]int
	putRetSum map[string]*big.Int
	putTraN   map[string]int
	putTraSum map[string]*big.Int
	// a PutTransferTraffic that arrived while the unsettled amount had already reached the tolerance
	overTolPuts []string

	pays     map[string]int
	payOrder []string
	badPay   []string // Pay calls with a threshold different from the configured one
	thr      *big.Int

	sentinel   string
	sentinelCh chan struct{}
	sentinelOn bool

	// concurrent phase: the stub itself may notify payments from inside Pay
	// (the way traffic.Service.issue does), bounded by a per-peer allowance.
	payEnabled bool
	payAmount  *big.Int
	allowance  map[string]*big.Int
	stubPaid   map[string]*big.Int
	notify     func(peer boson.Address, amount *big.Int) error
	notifyErrs []string
}

var _ settlement.Interface = (*stub)(nil)

func newStub(thr, tol *big.Int) *stub {
	return &stub{
		avail: big.NewInt(0), tolerance: new(big.Int).Set(tol), thr: new(big.Int).Set(thr),
		retrieve: map[string]*big.Int{}, transfer: map[string]*big.Int{}, settled: map[string]*big.Int{},
		putRetN: map[string]int{}, putRetSum: map[string]*big.Int{}, putTraN: map[string]int{}, putTraSum: map[string]*big.Int{},
		pays: map[string]int{}, allowance: map[string]*big.Int{}, stubPaid: map[string]*big.Int{},
		sentinelCh: make(chan struct{}),
	}
}

func get(m map[string]*big.Int, k string) *big.Int {
	v, ok := m[k]
	if !ok {
		v = big.NewInt(0)
		m[k] = v
	}
	return v
}

func (s *stub) setAvail(v *big.Int) {
	s.mu.Lock()
	s.avail = new(big.Int).Set(v)
	s.mu.Unlock()
}

func (s *stub) unsettledLocked(k string) *big.Int {
	return new(big.Int).Sub(get(s.transfer, k), get(s.settled, k))
}

func (s *stub) unsettled(p boson.Address) *big.Int {
	s.mu.Lock()
	defer s.mu.Unlock()
	return s.unsettledLocked(p.String())
}

func (s *stub) Pay(ctx context.Context, peer boson.Address, paymentThreshold *big.Int) error {
	k := peer.String()
	s.mu.Lock()
	s.pays[k]++
	s.payOrder = append(s.payOrder, k)
	if paymentThreshold == nil || paymentThreshold.Cmp(s.thr) != 0 {
		s.badPay = append(s.badPay, fmt.Sprintf("peer %s threshold %v", k, paymentThreshold))
	}
	isSentinel := s.sentinelOn && k == s.sentinel
	var amt *big.Int
	if s.payEnabled && !isSentinel {
		left := get(s.allowance, k)
		amt = new(big.Int).Set(s.payAmount)
		if amt.Cmp(left) > 0 {
			amt = new(big.Int).Set(left)
		}
		if amt.Sign() > 0 {
			s.allowance[k] = new(big.Int).Sub(left, amt)
			s.stubPaid[k] = new(big.Int).Add(get(s.stubPaid, k), amt)
		} else {
			amt = nil
		}
	}
	notify := s.notify
	s.mu.Unlock()
	// never call back into accounting while holding the stub lock (accounting
	// calls the stub while holding its per-peer lock)
	if amt != nil && notify != nil {
		if err := notify(peer, amt); err != nil {
			s.mu.Lock()
			s.notifyErrs = append(s.notifyErrs, err.Error())
			s.mu.Unlock()
		}
	}
	if isSentinel {
		s.mu.Lock()
		select {
		case <-s.sentinelCh:
		default:
			close(s.sentinelCh)
		}
		s.mu.Unlock()
	}
	return nil
}

func (s *stub) TransferTraffic(peer boson.Address) (*big.Int, error) {
	s.mu.Lock()
	defer s.mu.Unlock()
	return s.unsettledLocked(peer.String()), nil
}

func (s *stub) RetrieveTraffic(peer boson.Address) (*big.Int, error) {
	s.mu.Lock()
	defer s.mu.Unlock()
	return new(big.Int).Set(get(s.retrieve, peer.String())), nil
}

func (s *stub) PutRetrieveTraffic(peer boson.Address, traffic *big.Int) error {
	k := peer.String()
	s.mu.Lock()
	defer s.mu.Unlock()
	s.retrieve[k] = new(big.Int).Add(get(s.retrieve, k), traffic)
	s.putRetN[k]++
	s.putRetSum[k] = new(big.Int).Add(get(s.putRetSum, k), traffic)
	return nil
}

func (s *stub) PutTransferTraffic(peer boson.Address, traffic *big.Int) error {
	k := peer.String()
	s.mu.Lock()
	defer s.mu.Unlock()
	if u := s.unsettledLocked(k); u.Cmp(s.tolerance) >= 0 {
		s.overTolPuts = append(s.overTolPuts, fmt.Sprintf("peer %s unsettled %v tolerance %v amount %v", k, u, s.tolerance, traffic))
	}
	s.transfer[k] = new(big.Int).Add(get(s.transfer, k), traffic)
	s.putTraN[k]++
	s.putTraSum[k] = new(big.Int).Add(get(s.putTraSum, k), traffic)
	return nil
}

func (s *stub) AvailableBalance() (*big.Int, error) {
	s.mu.Lock()
	defer s.mu.Unlock()
	return new(big.Int).Set(s.avail), nil
}

func (s *stub) SetNotifyPaymentFunc(f settlement.NotifyPaymentFunc) {
	s.mu.Lock()
	s.notify = f
	s.mu.Unlock()
}

func (s *stub) GetPeerBalance(peer boson.Address) (*big.Int, error)   { return big.NewInt(0), nil }
func (s *stub) GetUnPaidBalance(peer boson.Address) (*big.Int, error) { return big.NewInt(0), nil }
