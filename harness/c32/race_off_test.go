//go:build !race

package c32

const raceOn = false
