package c32

import (
	"bytes"
	"context"
	"os"
	"os/exec"
	"strings"
	"sync"
	"testing"

	"verifharness/internal/evid"
)

// TestC32_ReserveWitness_Race is the witness of the known finding
// C32/reserve-unlocked-read: Reserve and Credit of the same peer on two goroutines.
// A detected data race makes a -race binary exit non-zero, so the witness runs
// in a child process (this same test binary) and the parent only looks for the
// detector's report naming accounting.(*Accounting).Reserve.
func TestC32_ReserveWitness_Race(t *testing.T) {
	if os.Getenv("C32_WITNESS_CHILD") == "1" {
		witnessChild()
		return
	}
	r := evid.Get(id)
	evid.Finish(t, r)
	if !raceOn || !evid.Known(sigReserveRace) || os.Getenv("VERIF_REPLAY_ONLY") == "1" {
		return
	}
	exe, err := os.Executable()
	if err != nil {
		t.Logf("witness skipped: %v", err)
		return
	}
	cmd := exec.Command(exe, "-test.run", "^TestC32_ReserveWitness_Race$", "-test.count=1", "-test.timeout=120s")
	for _, kv := range os.Environ() {
		if strings.HasPrefix(kv, "VERIF_OUT=") || strings.HasPrefix(kv, "GORACE=") {
			continue
		}
		cmd.Env = append(cmd.Env, kv)
	}
	cmd.Env = append(cmd.Env, "C32_WITNESS_CHILD=1", "GORACE=halt_on_error=1")
	out, _ := cmd.CombinedOutput()
	if bytes.Contains(out, []byte("DATA RACE")) && bytes.Contains(out, []byte("accounting.(*Accounting).Reserve")) {
		r.Witness(sigReserveRace)
		r.Class("race:witness-reserve-vs-credit-still-racy")
	} else {
		r.Class("race:witness-reserve-vs-credit-clean")
	}
}

func witnessChild() {
	e := newEnv(bu(4096), bu(262144), []uint64{0}, []uint64{0})
	e.st.setAvail(bu(1 << 40))
	var wg sync.WaitGroup
	start := make(chan struct{})
	wg.Add(2)
	go func() {
		defer wg.Done()
		<-start
		for i := 0; i < 300; i++ {
			_ = e.acc.Credit(context.Background(), e.peers[0], 256)
		}
	}()
	go func() {
		defer wg.Done()
		<-start
		for i := 0; i < 300; i++ {
			_ = e.acc.Reserve(e.peers[0], 256)
		}
	}()
	close(start)
	wg.Wait()
}
